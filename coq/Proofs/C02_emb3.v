(* C02: embedded structs - the round trip as ONE equation on the nested value *)
From Coq Require Import List Arith NArith ZArith Lia Bool ZifyN ZifyNat ZifyBool.
From GoMC Require Import Base.Bytes Base.Dec Gen.Consts Model.C01 Model.C02 Proofs.C01 Proofs.C01_dec Proofs.C02_dec Proofs.C02
  Proofs.C02_struct Proofs.C02_emb Proofs.C02_emb2.
Import ListNotations.
Open Scope N_scope.

Lemma existsb_ext_all {A} (p q : A -> bool) l : (forall x, p x = q x) -> existsb p l = existsb q l.
Proof. intros H. induction l as [|x l IH]; [reflexivity|]. cbn [existsb]. now rewrite H, IH. Qed.

(* the placement looks at the decoded values only through their names *)
Lemma rebuild_ext sel acc1 acc2 : (forall k, assoc k acc1 = assoc k acc2) ->
  forall d pre i, rebuild_f sel acc1 pre i d = rebuild_f sel acc2 pre i d.
Proof.
  intros H. induction d as [fi tg t|ptr ds IH] using dfield_ind'; intros pre i.
  - cbn [rebuild_f]. now rewrite H.
  - rewrite !rebuild_f_DE.
    rewrite (existsb_ext_all _ (fun tf => is_prefix (pre ++ [i]) (tf_path tf) && has_key acc2 (f_name (tf_fi tf))))
      by (intros tf; unfold has_key; now rewrite H).
    assert (E : forall j, rebuild_l sel acc1 (pre ++ [i]) j ds = rebuild_l sel acc2 (pre ++ [i]) j ds).
    { induction IH as [|d r Hd Hr IHr]; intros j; [reflexivity|]. cbn [rebuild_l]. now rewrite Hd, IHr. }
    now rewrite E.
Qed.
Lemma rebuild_l_ext sel acc1 acc2 : (forall k, assoc k acc1 = assoc k acc2) ->
  forall ds pre j, rebuild_l sel acc1 pre j ds = rebuild_l sel acc2 pre j ds.
Proof.
  intros H. induction ds as [|d r IH]; intros pre j; [reflexivity|]. cbn [rebuild_l].
  now rewrite (rebuild_ext sel acc1 acc2 H), IH.
Qed.

Lemma assoc_in {V} k (l : list (list N * V)) v : assoc k l = Some v -> In (k, v) l.
Proof.
  induction l as [|[k' v'] l IH]; cbn [assoc]; [discriminate|]. destruct (bytes_eqb k k') eqn:E.
  - intros H. injection H as <-. apply beqb_spec in E. subst. now left.
  - intros H. right. now apply IH.
Qed.

(* the expected fields, looked up by name *)
Definition exp_item (vs : list dv) (tf : tfield) : list (list N * gv) :=
  match emb_written vs tf with Some kv => [kv] | None => [] end.
Lemma exp_some vs : forall l k y, assoc k (flat_map (exp_item vs) l) = Some y ->
  exists tf, In tf l /\ emb_written vs tf = Some (k, y).
Proof.
  induction l as [|tf l IH]; intros k y H; [discriminate|]. cbn [flat_map] in H. rewrite assoc_app in H.
  destruct (assoc k (exp_item vs tf)) eqn:E.
  - injection H as <-. unfold exp_item in E. destruct (emb_written vs tf) as [[k' y']|] eqn:Ew; [|discriminate].
    cbn [assoc] in E. destruct (bytes_eqb k k') eqn:Eb; [|discriminate]. apply beqb_spec in Eb. injection E as <-. subst k'.
    exists tf. split; [now left|exact Ew].
  - destruct (IH k y H) as (t' & H1 & H2). exists t'. split; [now right|exact H2].
Qed.
Lemma exp_none vs : forall l k, NoDup (map (fun tf => f_name (tf_fi tf)) l) ->
  forall tf y, In tf l -> emb_written vs tf = Some (k, y) -> assoc k (flat_map (exp_item vs) l) = Some y.
Proof.
  induction l as [|t0 l IH]; intros k Hnd tf y Hin Hw; [destruct Hin|]. cbn [map] in Hnd. inversion Hnd as [|? ? Hn Hr]; subst.
  assert (Hk : k = f_name (tf_fi tf)).
  { unfold emb_written in Hw. destruct (walk (tf_path tf) vs) as [[x|]|]; try discriminate.
    destruct (f_skip (tf_fi tf) || _); [discriminate|]. now injection Hw as <- _. }
  cbn [flat_map]. rewrite assoc_app. destruct Hin as [->|Hin].
  - unfold exp_item. rewrite Hw. cbn [assoc]. now rewrite beqb_refl.
  - destruct (assoc k (exp_item vs t0)) eqn:E; [|now apply (IH k Hr tf)].
    exfalso. unfold exp_item in E. destruct (emb_written vs t0) as [[k' y']|] eqn:Ew; [|discriminate].
    cbn [assoc] in E. destruct (bytes_eqb k k') eqn:Eb; [|discriminate]. apply beqb_spec in Eb. subst k'.
    assert (Hk0 : k = f_name (tf_fi t0)).
    { unfold emb_written in Ew. destruct (walk (tf_path t0) vs) as [[x|]|]; try discriminate.
      destruct (f_skip (tf_fi t0) || _); [discriminate|]. now injection Ew as <- _. }
    apply Hn. rewrite <- Hk0, Hk. apply in_map_iff. exists tf. auto.
Qed.

(* THE ROUND TRIP THROUGH EMBEDDED STRUCTS AS ONE EQUATION: Unmarshal of what Marshal wrote, into a fresh struct, gives the
   nested value canon_emb - the visible, reached and written fields in normal form at their own index sequences, zero
   values elsewhere, embedded pointers nil exactly where nothing beneath was written *)
Theorem emb_roundtrip_full ds vs tr :
  forallb (fun tf => negb (f_skip (tf_fi tf)) && all_bytesb (f_name (tf_fi tf))) (type_fields ds) = true ->
  Forall rtf_ok (emb_table ds) ->
  (forall tf x, In tf (type_fields ds) -> walk (tf_path tf) vs = Some (Some x) -> field_typed (tf_field tf) x = true) ->
  enc_emb ds vs = TOk tr -> unm_emb tr ds = EOk (canon_emb ds vs).
Proof.
  intros Htbl Hrt Hty He. unfold enc_emb in He.
  destruct (reached (type_fields ds) vs) as [[fs xs]|] eqn:Er; [|discriminate].
  destruct (type_fields_nodup ds) as [_ Hnames].
  destruct (reached_facts vs _ _ _ Er Hnames) as (Nfs & Sub & Sup & Mem).
  pose proof Htbl as Htbl0. rewrite forallb_forall in Htbl.
  assert (Hgood : forall tf, In tf (type_fields ds) -> f_skip (tf_fi tf) = false /\ all_bytesb (f_name (tf_fi tf)) = true).
  { intros tf Hin. specialize (Htbl tf Hin). apply andb_true_iff in Htbl. destruct Htbl as [H1 H2]. apply negb_true_iff in H1. auto. }
  assert (OKt : names_ok (emb_table ds) = true).
  { apply names_ok_of_nodup.
    - unfold emb_table. rewrite map_map. exact Hnames.
    - intros f Hin. unfold emb_table in Hin. apply in_map_iff in Hin. destruct Hin as (tf & <- & Htf). apply (Hgood tf Htf). }
  assert (OKf : names_ok fs = true).
  { apply names_ok_of_nodup; [exact Nfs|]. intros f Hin. destruct (Mem f Hin) as (tf & Htf & ->). apply (Hgood tf Htf). }
  destruct (fields_enc_spec fs xs [] tr He) as (es & HE & ->). cbn [rev app].
  rewrite unm_emb_spec. rewrite Forall_forall in Hrt.
  destruct (struct_loop_spec (emb_table ds) (fval fs xs) es []) as (acc' & H1 & H2).
  - intros k t Hin. destruct (Encs_in _ _ _ HE k t Hin) as (f & x & Hfx & Ho & -> & Hen).
    destruct (Sub f x Hfx) as (tf & Htf & -> & Hw).
    assert (Hft : In (tf_field tf) (emb_table ds)) by (unfold emb_table; apply in_map_iff; exists tf; auto).
    exists (tf_field tf). split; [apply find_unique; auto; apply (Hgood tf Htf)|]. split; [reflexivity|].
    rewrite (fval_unique fs OKf xs (tf_field tf) x Hfx) by (apply (Hgood tf Htf)).
    destruct (Hrt _ Hft x t (Hty tf x Htf Hw) Hen) as [_ U]. exact U.
  - eapply Encs_nodup; eauto.
  - reflexivity.
  - rewrite H1. f_equal. unfold canon_emb. apply rebuild_l_ext. intros k. rewrite H2. cbn [assoc].
    fold (exp_item vs). unfold emb_expected_fields.
    change (fun tf : tfield => match emb_written vs tf with Some kv => [kv] | None => [] end) with (exp_item vs).
    destruct (assoc k es) as [t|] eqn:Ek.
    + (* written under this name *)
      apply assoc_in in Ek. destruct (Encs_in _ _ _ HE k t Ek) as (f & x & Hfx & Ho & -> & Hen).
      destruct (Sub f x Hfx) as (tf & Htf & -> & Hw). symmetry.
      apply (exp_none vs (type_fields ds) _ Hnames tf); [exact Htf|].
      unfold emb_written. rewrite Hw. unfold left_out in Ho. cbn [tf_field fst snd] in Ho. rewrite Ho.
      cbn [tf_field fst]. f_equal. f_equal. symmetry. apply (fval_unique fs OKf xs (tf_field tf) x Hfx). apply (Hgood tf Htf).
    + (* nothing written under this name *)
      destruct (assoc k (flat_map (exp_item vs) (type_fields ds))) as [y|] eqn:Ei; [|reflexivity]. exfalso.
      destruct (exp_some vs _ _ _ Ei) as (tf & Htf & Hw). unfold emb_written in Hw.
      destruct (walk (tf_path tf) vs) as [[x|]|] eqn:Ew; try discriminate.
      destruct (f_skip (tf_fi tf) || (f_omit (tf_fi tf) && is_empty (tf_ty tf) x)) eqn:Eo; [discriminate|].
      injection Hw as <- _. pose proof (Sup tf x Htf Ew) as Hfx.
      destruct (Encs_put _ _ _ HE OKf (tf_field tf) x Hfx Eo) as (t & _ & Ea & _). cbn [tf_field fst] in Ea. congruence.
Qed.
