(* C02: RECORDED COPY of what tools/gotrans/c02.go renders from nbt/encode.go and nbt/typeinfo.go (Gen/C02gen.v),
   and the obligations that the current rendering equals it.  A changed constant, kind, tag, order of clauses,
   condition or statement of the translated functions makes one of the c02_*_ok lemmas fail. *)
From Coq Require Import List ZArith NArith String.
From GoMC Require Import Base.GoInt Gen.Consts Model.C02_syntax Gen.C02gen.
Import ListNotations.
Open Scope string_scope.
Open Scope Z_scope.

(* getTagTypeByType: reflect.Kind -> tag *)
Definition exp02_kind_table : list (list rkind * Z) := [
  ([KBool; KInt8; KUint8], nbt_TagByte);
  ([KInt16; KUint16], nbt_TagShort);
  ([KInt32; KUint32], nbt_TagInt);
  ([KFloat32], nbt_TagFloat);
  ([KInt64; KUint64], nbt_TagLong);
  ([KFloat64], nbt_TagDouble);
  ([KString], nbt_TagString);
  ([KStruct; KMap], nbt_TagCompound) ].
Definition exp02_kind_default : Z := nbt_TagEnd.

(* getTagType: slices and arrays; element tag -> tag of the sequence; Marshaler elements *)
Definition exp02_seq_kinds : list rkind := [KArray; KSlice].
Definition exp02_elem_table : list (list Z * Z) := [
  ([nbt_TagByte], nbt_TagByteArray);
  ([nbt_TagInt], nbt_TagIntArray);
  ([nbt_TagLong], nbt_TagLongArray) ].
Definition exp02_elem_default : Z := nbt_TagList.
Definition exp02_marshaler_elems : Z := nbt_TagList.

(* getTagType: the interfaces asked (pointer level, then value level), in order, with the tag returned *)
Definition exp02_iface_order : list (list (string * string)) := [
  [("Marshaler", "u.TagType()"); ("encoding.TextMarshaler", "TagString")];
  [("Marshaler", "u.TagType()"); ("encoding.TextMarshaler", "TagString")] ].

(* writeInt16(w, n int16): the bytes handed to w.Write, in order (n: the value of the int16 argument) *)
Definition exp02_writeInt16 (n : Z) : list Z := [wrap_u 8 (Z.shiftr n 8); wrap_u 8 n].

(* writeInt32(w, n int32): the bytes handed to w.Write, in order (n: the value of the int32 argument) *)
Definition exp02_writeInt32 (n : Z) : list Z := [wrap_u 8 (Z.shiftr n 24); wrap_u 8 (Z.shiftr n 16); wrap_u 8 (Z.shiftr n 8); wrap_u 8 n].

(* writeInt64(w, n int64): the bytes handed to w.Write, in order (n: the value of the int64 argument) *)
Definition exp02_writeInt64 (n : Z) : list Z := [wrap_u 8 (Z.shiftr n 56); wrap_u 8 (Z.shiftr n 48); wrap_u 8 (Z.shiftr n 40); wrap_u 8 (Z.shiftr n 32); wrap_u 8 (Z.shiftr n 24); wrap_u 8 (Z.shiftr n 16); wrap_u 8 (Z.shiftr n 8); wrap_u 8 n].

(* writeTag *)
Definition exp02_name_max : Z := 32767.
Definition exp02_writeTag : list tstmt := [TWriteTagByte; TCheckLenGt exp02_name_max; TWriteLen16; TWriteName].

(* writeValue, TagString: the length limit *)
Definition exp02_str_max : Z := 32767.

(* writeValue, struct: the statements of the field loop, in order *)
Definition exp02_field_loop : list fstmt := [FWalkIndex; FOmitEmpty; FGetTag; FEndErr nbt_TagEnd; FListOption [nbt_TagByteArray; nbt_TagIntArray; nbt_TagLongArray] nbt_TagList; FWriteTag; FMarshal].

(* writeValue: the clauses of `switch tagType`, in order ([]: default) *)
Definition exp02_write_clauses : list (list Z) := [[]; [nbt_TagByte]; [nbt_TagShort]; [nbt_TagInt]; [nbt_TagFloat]; [nbt_TagLong]; [nbt_TagDouble]; [nbt_TagByteArray; nbt_TagIntArray; nbt_TagLongArray]; [nbt_TagList]; [nbt_TagString]; [nbt_TagCompound]].
(* writeValue, TagByte: the byte written per kind *)
Definition exp02_byte_writes : list (list rkind * wop) := [
  ([KBool], WBool01);
  ([KInt8], WByteOf SInt);
  ([KUint8], WByteOf SUint) ].
(* writeValue, scalar tags: WInt <writer width> <conversion width> <source> *)
Definition exp02_scalar_writes : list (Z * wop) := [
  (nbt_TagShort, WInt 16 16 SIntOf);
  (nbt_TagInt, WInt 32 32 SIntOf);
  (nbt_TagFloat, WInt 32 32 SFloat32bits);
  (nbt_TagLong, WInt 64 64 SIntOf);
  (nbt_TagDouble, WInt 64 64 SFloat64bits) ].

(* isEmptyValue: the test per kind (no row: never empty) *)
Definition exp02_empty_table : list (list rkind * etest) := [
  ([KArray; KMap; KSlice; KString], ELen0);
  ([KBool], ENotBool);
  ([KInt; KInt8; KInt16; KInt32; KInt64], EInt0);
  ([KUint; KUint8; KUint16; KUint32; KUint64; KUintptr], EUint0);
  ([KFloat32; KFloat64], EFloat0);
  ([KInterface; KPointer], EIsNil) ].

(* typeFields: struct tag parsing *)
Definition exp02_tag_key : list N := [110; 98; 116]%N. (* "nbt" *)
Definition exp02_tag_skip : list N := [45]%N. (* "-" *)
Definition exp02_tag_sep : list N := [44]%N. (* "," *)
Definition exp02_tag_namekey : list N := [110; 98; 116; 107; 101; 121]%N. (* "nbtkey" *)
Definition exp02_tag_legacy : list N * list N := ([110; 98; 116; 95; 116; 121; 112; 101]%N, [108; 105; 115; 116]%N). (* "nbt_type" = "list" *)
Definition exp02_tag_opts : list (list N * topt) := [
  ([111; 109; 105; 116; 101; 109; 112; 116; 121]%N, OOmitEmpty) (* "omitempty" *);
  ([108; 105; 115; 116]%N, OAsList) (* "list" *) ].

(* Encode: the statements, in order; EHeader <network format> <file format> *)
Definition exp02_encode_steps : list estep := [ENilErr; EGetTag; EHeader HTagByte HWriteTag; EErrRet; EMarshal].

(* getTagType: the statements of the unwrapping loop, and those after it, in order *)
Definition exp02_loop_steps : list lstep := [LIfaceElem; LNonPtrBreak; LSelfRefBreak; LNilNew; LAskIfaces; LDeref].
Definition exp02_post_steps : list pstep := [PAskIfaces; PPtrMarshaler; PKindSwitch].

(* writeValue, TagByteArray / TagIntArray / TagLongArray: the length, then the elements *)
Definition exp02_array_steps : list wstep := [WLen; WLen32; WElems].
(* writeValue, TagList *)
Definition exp02_list_steps : list wstep := [WElemTypeFirstOrType; WListHeader; WLoop [WElemTag; WMixedErr; WMarshalElem]].
(* writeValue, TagString *)
Definition exp02_string_steps : list wstep := [WStrBytes; WStrLimit exp02_str_max; WLen16; WStrData].
(* writeValue, TagCompound of a map: the entry loop, then the TagEnd byte *)
Definition exp02_map_steps : list wstep := [WLoop [WKeyName; WValTag; WEndErr nbt_TagEnd; WWriteTag; WMarshalVal]; WEndByte nbt_TagEnd].
(* writeListHeader *)
Definition exp02_listheader_steps : list wstep := [WLHElemByte; WLen32].

(* typeFields: the keys of the sort, in order; byIndex.Less; dominantField; the final order is byIndex *)
Definition exp02_sort_keys : list skey := [SKName; SKDepth; SKTagged; SKIndex].
Definition exp02_index_less : list istep := [IShorterFalse; IDiffLt; IEndLenLt].
Definition exp02_dominant : list dcond * dres * dres := ([DLenGt1; DDepthEq; DTagEq], DNone, DFirst).
Definition exp02_final_order : skey := SKIndex.

(* typeFields: the breadth-first collection - the level loop, then the statements of the loop over the fields of a
   struct, in order; CIndex: how the index sequence of a field is built from its parent's *)
Definition exp02_level_steps : list cstep := [CSwapLevels; CResetCounts; CVisitOnce].
Definition exp02_collect_steps : list cstep := [CField; CExportFilter; CTagGet; CSkipMark; CCutName; CIndex IdxFreshCopy; CNameKey; CFollowPtr; COptions; CLegacyList; CRecordField; CCountNext; CQueueOnce].

(* writeValue, TagByteArray: the bytes per element kind of a typed slice, and per dynamic kind of a []any (else: error) *)
Definition exp02_bytearray_typed : list (list rkind * wop) := [([KBool], WBool01); ([KUint8], WByteOf SUint); ([KInt8], WByteOf SInt)].
Definition exp02_bytearray_any : list (list rkind * wop) := [([KBool], WBool01); ([KInt8], WByteOf SInt); ([KUint8], WByteOf SUint)].
(* writeValue, TagIntArray / TagLongArray: the statements of the element loop *)
Definition exp02_wide_steps : list astep := [AUnwrapIface; AWant nbt_TagInt nbt_TagLongArray nbt_TagLong; ACheckTag; AValue [([KInt32; KInt64], SInt); ([KUint32; KUint64], SUint)]; AWrite [(nbt_TagIntArray, 32); (nbt_TagLongArray, 64)]].

(* Encoder.Encode *)
Definition exp02_skel_Encoder_Encode : list gstmt := [
  GIf "" "v == nil" [
    GSimple "return errors.New(""nbt: cannot encode nil"")" ] [];
  GSimple "t, val := getTagType(reflect.ValueOf(v))";
  GIf "" "e.networkFormat" [
    GSimple "_, err = e.w.Write([]byte{t})" ] [
    GSimple "err = writeTag(e.w, t, tagName)" ];
  GIf "" "err != nil" [
    GSimple "return err" ] [];
  GSimple "return e.marshal(val, t)" ].

(* Encoder.marshal *)
Definition exp02_skel_Encoder_marshal : list gstmt := [
  GIf "" "tagType == TagEnd" [
    GSimple "return errors.New(""unsupported type 0x0"")" ] [];
  GIf "" "val.CanInterface()" [
    GIf "encoder, ok := val.Interface().(Marshaler)" "ok" [
      GSimple "return encoder.MarshalNBT(e.w)" ] [] ] [];
  GSimple "return e.writeValue(val, tagType)" ].

(* Encoder.writeValue *)
Definition exp02_skel_Encoder_writeValue : list gstmt := [
  GSwitch "" "tagType" [
    ("default", [
      GSimple "return errors.New(""unsupported type 0x"" + strconv.FormatUint(uint64(tagType), 16))" ]);
    ("TagByte", [
      GSimple "var err error";
      GSwitch "" "val.Kind()" [
        ("reflect.Bool", [
          GSimple "var b byte";
          GIf "" "val.Bool()" [
            GSimple "b = 1" ] [];
          GSimple "_, err = e.w.Write([]byte{b})" ]);
        ("reflect.Int8", [
          GSimple "_, err = e.w.Write([]byte{byte(val.Int())})" ]);
        ("reflect.Uint8", [
          GSimple "_, err = e.w.Write([]byte{byte(val.Uint())})" ]) ];
      GSimple "return err" ]);
    ("TagShort", [
      GSimple "return writeInt16(e.w, int16(intOf(val)))" ]);
    ("TagInt", [
      GSimple "return writeInt32(e.w, int32(intOf(val)))" ]);
    ("TagFloat", [
      GSimple "return writeInt32(e.w, int32(math.Float32bits(float32(val.Float()))))" ]);
    ("TagLong", [
      GSimple "return writeInt64(e.w, intOf(val))" ]);
    ("TagDouble", [
      GSimple "return writeInt64(e.w, int64(math.Float64bits(val.Float())))" ]);
    ("TagByteArray, TagIntArray, TagLongArray", [
      GSimple "n := val.Len()";
      GIf "err := writeInt32(e.w, int32(n))" "err != nil" [
        GSimple "return err" ] [];
      GIf "" "tagType == TagByteArray" [
        GIf "" "val.Kind() == reflect.Array" [
          GIf "" "!val.CanAddr()" [
            GSimple "cp := reflect.New(val.Type()).Elem()";
            GSimple "cp.Set(val)";
            GSimple "val = cp" ] [];
          GSimple "val = val.Slice(0, n)" ] [];
        GSimple "var data []byte";
        GSwitch "" "val.Type().Elem().Kind()" [
          ("reflect.Bool", [
            GSimple "data = make([]byte, val.Len())";
            GFor "i := range data" [
              GIf "" "val.Index(i).Bool()" [
                GSimple "data[i] = 1" ] [
                GSimple "data[i] = 0" ] ] ]);
          ("reflect.Uint8", [
            GSimple "data = val.Bytes()" ]);
          ("reflect.Int8", [
            GSimple "data = unsafe.Slice((*byte)(val.UnsafePointer()), val.Len())" ]);
          ("default", [
            GSimple "data = make([]byte, n)";
            GFor "i := range data" [
              GSimple "elem := val.Index(i)";
              GFor "; elem.Kind() == reflect.Interface;" [
                GSimple "elem = elem.Elem()" ];
              GSwitch "" "elem.Kind()" [
                ("reflect.Bool", [
                  GIf "" "elem.Bool()" [
                    GSimple "data[i] = 1" ] [] ]);
                ("reflect.Int8", [
                  GSimple "data[i] = byte(elem.Int())" ]);
                ("reflect.Uint8", [
                  GSimple "data[i] = byte(elem.Uint())" ]);
                ("default", [
                  GSimple "return errors.New(""value of kind "" + elem.Kind().String() + "" is not allowed in Tag 0x"" + strconv.FormatUint(uint64(tagType), 16))" ]) ] ] ]) ];
        GSimple "_, err := e.w.Write(data)";
        GSimple "return err" ] [
        GFor "i := 0; i < n; i++" [
          GSimple "elem := val.Index(i)";
          GFor "; elem.Kind() == reflect.Interface;" [
            GSimple "elem = elem.Elem()" ];
          GSimple "want := TagInt";
          GIf "" "tagType == TagLongArray" [
            GSimple "want = TagLong" ] [];
          GIf "" "!elem.IsValid() || getTagTypeByType(elem.Type()) != want" [
            GSimple "return errors.New(""value of kind "" + elem.Kind().String() + "" is not allowed in Tag 0x"" + strconv.FormatUint(uint64(tagType), 16))" ] [];
          GSimple "var err error";
          GSimple "var v int64";
          GSwitch "" "elem.Kind()" [
            ("reflect.Int32, reflect.Int64", [
              GSimple "v = elem.Int()" ]);
            ("reflect.Uint32, reflect.Uint64", [
              GSimple "v = int64(elem.Uint())" ]) ];
          GIf "" "tagType == TagIntArray" [
            GSimple "err = writeInt32(e.w, int32(v))" ] [
            GIf "" "tagType == TagLongArray" [
              GSimple "err = writeInt64(e.w, v)" ] [] ];
          GIf "" "err != nil" [
            GSimple "return err" ] [] ] ] ]);
    ("TagList", [
      GSimple "var eleType byte";
      GIf "" "val.Len() > 0" [
        GSimple "eleType, _ = getTagType(val.Index(0))" ] [
        GSimple "eleType = getTagTypeByType(val.Type().Elem())" ];
      GIf "err := e.writeListHeader(eleType, val.Len())" "err != nil" [
        GSimple "return err" ] [];
      GFor "i := 0; i < val.Len(); i++" [
        GSimple "arrType, arrVal := getTagType(val.Index(i))";
        GIf "" "arrType != eleType" [
          GSimple "return fmt.Errorf(""cannot encode a list of mixed tag types 0x%02x and 0x%02x"", eleType, arrType)" ] [];
        GSimple "err := e.marshal(arrVal, arrType)";
        GIf "" "err != nil" [
          GSimple "return err" ] [] ] ]);
    ("TagString", [
      GSimple "var str []byte";
      GIf "" "val.NumMethod() > 0 && val.CanInterface()" [
        GIf "t, ok := val.Interface().(encoding.TextMarshaler)" "ok" [
          GSimple "var err error";
          GSimple "str, err = t.MarshalText()";
          GIf "" "err != nil" [
            GSimple "return err" ] [] ] [] ] [
        GSimple "str = []byte(val.String())" ];
      GIf "" "len(str) > math.MaxInt16" [
        GSimple "return fmt.Errorf(""string of %d bytes is too long for TagString"", len(str))" ] [];
      GIf "err := writeInt16(e.w, int16(len(str)))" "err != nil" [
        GSimple "return err" ] [];
      GSimple "_, err := e.w.Write(str)";
      GSimple "return err" ]);
    ("TagCompound", [
      GFor "; val.Kind() == reflect.Interface;" [
        GSimple "val = val.Elem()" ];
      GSwitch "" "val.Kind()" [
        ("reflect.Struct", [
          GSimple "fields := cachedTypeFields(val.Type())";
          GLabel "FieldLoop" [
            GFor "i := range fields.list" [
              GSimple "t := &fields.list[i]";
              GSimple "v := val";
              GFor "_, i := range t.index" [
                GIf "" "v.Kind() == reflect.Pointer" [
                  GIf "" "v.IsNil()" [
                    GSimple "continue FieldLoop" ] [];
                  GSimple "v = v.Elem()" ] [];
                GSimple "v = v.Field(i)" ];
              GIf "" "t.omitEmpty && isEmptyValue(v)" [
                GSimple "continue" ] [];
              GSimple "typ, v := getTagType(v)";
              GIf "" "typ == TagEnd" [
                GSimple "return fmt.Errorf(""encode %q error: unsupport type %v"", t.name, v.Type())" ] [];
              GIf "" "t.asList" [
                GSwitch "" "typ" [
                  ("TagByteArray, TagIntArray, TagLongArray", [
                    GSimple "typ = TagList" ]);
                  ("default", [
                    GSimple "return fmt.Errorf(""invalid use of ,list struct tag, trying to encode %v as TagList"", v.Type())" ]) ] ] [];
              GIf "err := writeTag(e.w, typ, t.name)" "err != nil" [
                GSimple "return err" ] [];
              GIf "err := e.marshal(v, typ)" "err != nil" [
                GSimple "return err" ] [] ] ] ]);
        ("reflect.Map", [
          GSimple "r := val.MapRange()";
          GFor "; r.Next();" [
            GSimple "var tagName string";
            GIf "tn, ok := r.Key().Interface().(fmt.Stringer)" "ok" [
              GSimple "tagName = tn.String()" ] [
              GSimple "tagName = r.Key().String()" ];
            GSimple "tagType, tagValue := getTagType(r.Value())";
            GIf "" "tagType == TagEnd" [
              GSimple "return fmt.Errorf(""encoding %q error: unsupport type %v"", tagName, tagValue.Type())" ] [];
            GIf "err := writeTag(e.w, tagType, tagName)" "err != nil" [
              GSimple "return err" ] [];
            GIf "err := e.marshal(tagValue, tagType)" "err != nil" [
              GSimple "return err" ] [] ] ]) ];
      GSimple "_, err := e.w.Write([]byte{TagEnd})";
      GSimple "return err" ]) ];
  GSimple "return nil" ].

(* intOf *)
Definition exp02_skel_intOf : list gstmt := [
  GIf "" "val.CanUint()" [
    GSimple "return int64(val.Uint())" ] [];
  GSimple "return val.Int()" ].

(* getTagType *)
Definition exp02_skel_getTagType : list gstmt := [
  GFor ";;" [
    GIf "" "v.Kind() == reflect.Interface && !v.IsNil()" [
      GSimple "v = v.Elem()";
      GSimple "continue" ] [];
    GIf "" "v.Kind() != reflect.Ptr" [
      GSimple "break" ] [];
    GIf "" "v.Elem().Kind() == reflect.Interface && v.Elem().Elem() == v" [
      GSimple "v = v.Elem()";
      GSimple "break" ] [];
    GIf "" "v.IsNil()" [
      GSimple "v = reflect.New(v.Type().Elem())" ] [];
    GIf "" "v.Type().NumMethod() > 0 && v.CanInterface()" [
      GSimple "i := v.Interface()";
      GIf "u, ok := i.(Marshaler)" "ok" [
        GSimple "return u.TagType(), v" ] [
        GIf "_, ok := i.(encoding.TextMarshaler)" "ok" [
          GSimple "return TagString, v" ] [] ] ] [];
    GSimple "v = v.Elem()" ];
  GIf "" "v.Type().NumMethod() > 0 && v.CanInterface()" [
    GSimple "i := v.Interface()";
    GIf "u, ok := i.(Marshaler)" "ok" [
      GSimple "return u.TagType(), v" ] [
      GIf "_, ok := i.(encoding.TextMarshaler)" "ok" [
        GSimple "return TagString, v" ] [] ] ] [];
  GIf "" "v.Kind() == reflect.Struct && v.CanInterface() && reflect.PointerTo(v.Type()).Implements(marshalerType)" [
    GSimple "p := reflect.New(v.Type())";
    GIf "" "v.CanAddr()" [
      GSimple "p = v.Addr()" ] [
      GSimple "p.Elem().Set(v)" ];
    GSimple "return p.Interface().(Marshaler).TagType(), p" ] [];
  GSwitch "" "v.Kind()" [
    ("reflect.Array, reflect.Slice", [
      GSimple "var elemType byte";
      GIf "" "v.Len() > 0" [
        GSimple "var elem reflect.Value";
        GSimple "elemType, elem = getTagType(v.Index(0))";
        GIf "" "elem.CanInterface()" [
          GIf "_, ok := elem.Interface().(Marshaler)" "ok" [
            GSimple "return TagList, v" ] [] ] [] ] [
        GSimple "elemType = getTagTypeByType(v.Type().Elem())" ];
      GSwitch "" "elemType" [
        ("TagByte", [
          GSimple "return TagByteArray, v" ]);
        ("TagInt", [
          GSimple "return TagIntArray, v" ]);
        ("TagLong", [
          GSimple "return TagLongArray, v" ]);
        ("default", [
          GSimple "return TagList, v" ]) ] ]);
    ("default", [
      GSimple "return getTagTypeByType(v.Type()), v" ]) ] ].

(* getTagTypeByType *)
Definition exp02_skel_getTagTypeByType : list gstmt := [
  GSwitch "" "vk.Kind()" [
    ("reflect.Bool, reflect.Int8, reflect.Uint8", [
      GSimple "return TagByte" ]);
    ("reflect.Int16, reflect.Uint16", [
      GSimple "return TagShort" ]);
    ("reflect.Int32, reflect.Uint32", [
      GSimple "return TagInt" ]);
    ("reflect.Float32", [
      GSimple "return TagFloat" ]);
    ("reflect.Int64, reflect.Uint64", [
      GSimple "return TagLong" ]);
    ("reflect.Float64", [
      GSimple "return TagDouble" ]);
    ("reflect.String", [
      GSimple "return TagString" ]);
    ("reflect.Struct, reflect.Map", [
      GSimple "return TagCompound" ]);
    ("default", [
      GSimple "return TagEnd" ]) ] ].

(* writeTag *)
Definition exp02_skel_writeTag : list gstmt := [
  GIf "_, err := w.Write([]byte{tagType})" "err != nil" [
    GSimple "return err" ] [];
  GSimple "bName := []byte(tagName)";
  GIf "" "len(bName) > math.MaxInt16" [
    GSimple "return fmt.Errorf(""tag name of %d bytes is too long"", len(bName))" ] [];
  GIf "err := writeInt16(w, int16(len(bName)))" "err != nil" [
    GSimple "return err" ] [];
  GSimple "_, err := w.Write(bName)";
  GSimple "return err" ].

(* Encoder.writeListHeader *)
Definition exp02_skel_Encoder_writeListHeader : list gstmt := [
  GIf "_, err = e.w.Write([]byte{elementType})" "err != nil" [
    GSimple "return" ] [];
  GIf "err = writeInt32(e.w, int32(n))" "err != nil" [
    GSimple "return" ] [];
  GSimple "return nil" ].

(* writeInt16 *)
Definition exp02_skel_writeInt16 : list gstmt := [
  GSimple "_, err := w.Write([]byte{byte(n >> 8), byte(n)})";
  GSimple "return err" ].

(* writeInt32 *)
Definition exp02_skel_writeInt32 : list gstmt := [
  GSimple "_, err := w.Write([]byte{byte(n >> 24), byte(n >> 16), byte(n >> 8), byte(n)})";
  GSimple "return err" ].

(* writeInt64 *)
Definition exp02_skel_writeInt64 : list gstmt := [
  GSimple "_, err := w.Write([]byte{ byte(n >> 56), byte(n >> 48), byte(n >> 40), byte(n >> 32), byte(n >> 24), byte(n >> 16), byte(n >> 8), byte(n), })";
  GSimple "return err" ].

(* isEmptyValue *)
Definition exp02_skel_isEmptyValue : list gstmt := [
  GSwitch "" "v.Kind()" [
    ("reflect.Array, reflect.Map, reflect.Slice, reflect.String", [
      GSimple "return v.Len() == 0" ]);
    ("reflect.Bool", [
      GSimple "return !v.Bool()" ]);
    ("reflect.Int, reflect.Int8, reflect.Int16, reflect.Int32, reflect.Int64", [
      GSimple "return v.Int() == 0" ]);
    ("reflect.Uint, reflect.Uint8, reflect.Uint16, reflect.Uint32, reflect.Uint64, reflect.Uintptr", [
      GSimple "return v.Uint() == 0" ]);
    ("reflect.Float32, reflect.Float64", [
      GSimple "return v.Float() == 0" ]);
    ("reflect.Interface, reflect.Pointer", [
      GSimple "return v.IsNil()" ]) ];
  GSimple "return false" ].

(* typeFields *)
Definition exp02_skel_typeFields : list gstmt := [
  GSimple "current := []field{}";
  GSimple "next := []field{{typ: t}}";
  GSimple "var count, nextCount map[reflect.Type]int";
  GSimple "visited := make(map[reflect.Type]struct{})";
  GSimple "var fields []field";
  GFor "; len(next) > 0;" [
    GSimple "current, next = next, current[:0]";
    GSimple "count, nextCount = nextCount, make(map[reflect.Type]int)";
    GFor "_, f := range current" [
      GIf "_, ok := visited[f.typ]" "ok" [
        GSimple "continue" ] [];
      GSimple "visited[f.typ] = struct{}{}";
      GFor "i := 0; i < f.typ.NumField(); i++" [
        GSimple "sf := f.typ.Field(i)";
        GIf "" "sf.Anonymous" [
          GSimple "t := sf.Type";
          GIf "" "t.Kind() == reflect.Pointer" [
            GSimple "t = t.Elem()" ] [];
          GIf "" "!sf.IsExported() && t.Kind() != reflect.Struct" [
            GSimple "continue" ] [] ] [
          GIf "" "!sf.IsExported()" [
            GSimple "continue" ] [] ];
        GSimple "tag := sf.Tag.Get(""nbt"")";
        GIf "" "tag == ""-""" [
          GSimple "continue" ] [];
        GSimple "name, opts, _ := strings.Cut(tag, "","")";
        GSimple "index := make([]int, len(f.index)+1)";
        GSimple "copy(index, f.index)";
        GSimple "index[len(f.index)] = i";
        GIf "keytag := sf.Tag.Get(""nbtkey"")" "keytag != """"" [
          GSimple "name = keytag" ] [];
        GSimple "ft := sf.Type";
        GIf "" "ft.Name() == """" && ft.Kind() == reflect.Pointer" [
          GSimple "ft = ft.Elem()" ] [];
        GSimple "var omitEmpty, asList bool";
        GFor "; opts != """";" [
          GSimple "var name string";
          GSimple "name, opts, _ = strings.Cut(opts, "","")";
          GSwitch "" "name" [
            ("""omitempty""", [
              GSimple "omitEmpty = true" ]);
            ("""list""", [
              GSimple "asList = true" ]) ] ];
        GIf "" "sf.Tag.Get(""nbt_type"") == ""list""" [
          GSimple "asList = true" ] [];
        GIf "" "name != """" || !sf.Anonymous || ft.Kind() != reflect.Struct" [
          GSimple "tagged := name != """"";
          GIf "" "name == """"" [
            GSimple "name = sf.Name" ] [];
          GSimple "field := field{ name: name, tag: tagged, index: index, typ: ft, omitEmpty: omitEmpty, asList: asList, }";
          GSimple "fields = append(fields, field)";
          GIf "" "count[f.typ] > 1" [
            GSimple "fields = append(fields, fields[len(fields)-1])" ] [];
          GSimple "continue" ] [];
        GSimple "nextCount[ft]++";
        GIf "" "nextCount[ft] == 1" [
          GSimple "next = append(next, field{name: ft.Name(), index: index, typ: ft})" ] [] ] ] ];
  GSimple "sort.Slice(fields, func(i, j int) bool { x := fields if x[i].name != x[j].name { return x[i].name < x[j].name } if len(x[i].index) != len(x[j].index) { return len(x[i].index) < len(x[j].index) } if x[i].tag != x[j].tag { return x[i].tag } return byIndex(x).Less(i, j) })";
  GSimple "out := fields[:0]";
  GFor "advance, i := 0, 0; i < len(fields); i += advance" [
    GSimple "fi := fields[i]";
    GSimple "name := fi.name";
    GFor "advance = 1; i+advance < len(fields); advance++" [
      GSimple "fj := fields[i+advance]";
      GIf "" "fj.name != name" [
        GSimple "break" ] [] ];
    GIf "" "advance == 1" [
      GSimple "out = append(out, fi)";
      GSimple "continue" ] [];
    GSimple "dominant, ok := dominantField(fields[i : i+advance])";
    GIf "" "ok" [
      GSimple "out = append(out, dominant)" ] [] ];
  GSimple "fields = out";
  GSimple "sort.Sort(byIndex(fields))";
  GSimple "nameIndex := make(map[string]int, len(fields))";
  GFor "i, field := range fields" [
    GSimple "nameIndex[field.name] = i" ];
  GSimple "return structFields{ list: fields, nameIndex: nameIndex, }" ].

(* dominantField *)
Definition exp02_skel_dominantField : list gstmt := [
  GIf "" "len(fields) > 1 && len(fields[0].index) == len(fields[1].index) && fields[0].tag == fields[1].tag" [
    GSimple "return field{}, false" ] [];
  GSimple "return fields[0], true" ].

(* byIndex.Less *)
Definition exp02_skel_byIndex_Less : list gstmt := [
  GFor "k, xik := range x[i].index" [
    GIf "" "k >= len(x[j].index)" [
      GSimple "return false" ] [];
    GIf "" "xik != x[j].index[k]" [
      GSimple "return xik < x[j].index[k]" ] [] ];
  GSimple "return len(x[i].index) < len(x[j].index)" ].


(* ---------- the obligations ---------- *)
Lemma c02_kind_table_ok : c02_kind_table = exp02_kind_table.
Proof. reflexivity. Qed.
Lemma c02_kind_default_ok : c02_kind_default = exp02_kind_default.
Proof. reflexivity. Qed.
Lemma c02_seq_kinds_ok : c02_seq_kinds = exp02_seq_kinds.
Proof. reflexivity. Qed.
Lemma c02_elem_table_ok : c02_elem_table = exp02_elem_table.
Proof. reflexivity. Qed.
Lemma c02_elem_default_ok : c02_elem_default = exp02_elem_default.
Proof. reflexivity. Qed.
Lemma c02_marshaler_elems_ok : c02_marshaler_elems = exp02_marshaler_elems.
Proof. reflexivity. Qed.
Lemma c02_iface_order_ok : c02_iface_order = exp02_iface_order.
Proof. reflexivity. Qed.
Lemma c02_writeInt16_ok : forall n, c02_writeInt16 n = exp02_writeInt16 n.
Proof. reflexivity. Qed.
Lemma c02_writeInt32_ok : forall n, c02_writeInt32 n = exp02_writeInt32 n.
Proof. reflexivity. Qed.
Lemma c02_writeInt64_ok : forall n, c02_writeInt64 n = exp02_writeInt64 n.
Proof. reflexivity. Qed.
Lemma c02_name_max_ok : c02_name_max = exp02_name_max.
Proof. reflexivity. Qed.
Lemma c02_writeTag_ok : c02_writeTag = exp02_writeTag.
Proof. reflexivity. Qed.
Lemma c02_str_max_ok : c02_str_max = exp02_str_max.
Proof. reflexivity. Qed.
Lemma c02_field_loop_ok : c02_field_loop = exp02_field_loop.
Proof. reflexivity. Qed.
Lemma c02_write_clauses_ok : c02_write_clauses = exp02_write_clauses.
Proof. reflexivity. Qed.
Lemma c02_byte_writes_ok : c02_byte_writes = exp02_byte_writes.
Proof. reflexivity. Qed.
Lemma c02_scalar_writes_ok : c02_scalar_writes = exp02_scalar_writes.
Proof. reflexivity. Qed.
Lemma c02_empty_table_ok : c02_empty_table = exp02_empty_table.
Proof. reflexivity. Qed.
Lemma c02_tag_key_ok : c02_tag_key = exp02_tag_key.
Proof. reflexivity. Qed.
Lemma c02_tag_skip_ok : c02_tag_skip = exp02_tag_skip.
Proof. reflexivity. Qed.
Lemma c02_tag_sep_ok : c02_tag_sep = exp02_tag_sep.
Proof. reflexivity. Qed.
Lemma c02_tag_namekey_ok : c02_tag_namekey = exp02_tag_namekey.
Proof. reflexivity. Qed.
Lemma c02_tag_legacy_ok : c02_tag_legacy = exp02_tag_legacy.
Proof. reflexivity. Qed.
Lemma c02_tag_opts_ok : c02_tag_opts = exp02_tag_opts.
Proof. reflexivity. Qed.
Lemma c02_encode_steps_ok : c02_encode_steps = exp02_encode_steps.
Proof. reflexivity. Qed.
Lemma c02_loop_steps_ok : c02_loop_steps = exp02_loop_steps.
Proof. reflexivity. Qed.
Lemma c02_post_steps_ok : c02_post_steps = exp02_post_steps.
Proof. reflexivity. Qed.
Lemma c02_array_steps_ok : c02_array_steps = exp02_array_steps.
Proof. reflexivity. Qed.
Lemma c02_list_steps_ok : c02_list_steps = exp02_list_steps.
Proof. reflexivity. Qed.
Lemma c02_string_steps_ok : c02_string_steps = exp02_string_steps.
Proof. reflexivity. Qed.
Lemma c02_map_steps_ok : c02_map_steps = exp02_map_steps.
Proof. reflexivity. Qed.
Lemma c02_listheader_steps_ok : c02_listheader_steps = exp02_listheader_steps.
Proof. reflexivity. Qed.
Lemma c02_sort_keys_ok : c02_sort_keys = exp02_sort_keys.
Proof. reflexivity. Qed.
Lemma c02_index_less_ok : c02_index_less = exp02_index_less.
Proof. reflexivity. Qed.
Lemma c02_dominant_ok : c02_dominant = exp02_dominant.
Proof. reflexivity. Qed.
Lemma c02_final_order_ok : c02_final_order = exp02_final_order.
Proof. reflexivity. Qed.
Lemma c02_level_steps_ok : c02_level_steps = exp02_level_steps.
Proof. reflexivity. Qed.
Lemma c02_collect_steps_ok : c02_collect_steps = exp02_collect_steps.
Proof. reflexivity. Qed.
Lemma c02_bytearray_typed_ok : c02_bytearray_typed = exp02_bytearray_typed.
Proof. reflexivity. Qed.
Lemma c02_bytearray_any_ok : c02_bytearray_any = exp02_bytearray_any.
Proof. reflexivity. Qed.
Lemma c02_wide_steps_ok : c02_wide_steps = exp02_wide_steps.
Proof. reflexivity. Qed.
Lemma c02_skel_Encoder_Encode_ok : c02_skel_Encoder_Encode = exp02_skel_Encoder_Encode.
Proof. reflexivity. Qed.
Lemma c02_skel_Encoder_marshal_ok : c02_skel_Encoder_marshal = exp02_skel_Encoder_marshal.
Proof. reflexivity. Qed.
Lemma c02_skel_Encoder_writeValue_ok : c02_skel_Encoder_writeValue = exp02_skel_Encoder_writeValue.
Proof. reflexivity. Qed.
Lemma c02_skel_intOf_ok : c02_skel_intOf = exp02_skel_intOf.
Proof. reflexivity. Qed.
Lemma c02_skel_getTagType_ok : c02_skel_getTagType = exp02_skel_getTagType.
Proof. reflexivity. Qed.
Lemma c02_skel_getTagTypeByType_ok : c02_skel_getTagTypeByType = exp02_skel_getTagTypeByType.
Proof. reflexivity. Qed.
Lemma c02_skel_writeTag_ok : c02_skel_writeTag = exp02_skel_writeTag.
Proof. reflexivity. Qed.
Lemma c02_skel_Encoder_writeListHeader_ok : c02_skel_Encoder_writeListHeader = exp02_skel_Encoder_writeListHeader.
Proof. reflexivity. Qed.
Lemma c02_skel_writeInt16_ok : c02_skel_writeInt16 = exp02_skel_writeInt16.
Proof. reflexivity. Qed.
Lemma c02_skel_writeInt32_ok : c02_skel_writeInt32 = exp02_skel_writeInt32.
Proof. reflexivity. Qed.
Lemma c02_skel_writeInt64_ok : c02_skel_writeInt64 = exp02_skel_writeInt64.
Proof. reflexivity. Qed.
Lemma c02_skel_isEmptyValue_ok : c02_skel_isEmptyValue = exp02_skel_isEmptyValue.
Proof. reflexivity. Qed.
Lemma c02_skel_typeFields_ok : c02_skel_typeFields = exp02_skel_typeFields.
Proof. reflexivity. Qed.
Lemma c02_skel_dominantField_ok : c02_skel_dominantField = exp02_skel_dominantField.
Proof. reflexivity. Qed.
Lemma c02_skel_byIndex_Less_ok : c02_skel_byIndex_Less = exp02_skel_byIndex_Less.
Proof. reflexivity. Qed.
