(* C02: round trip of structs (field table with names, omitempty, skipped fields) *)
From Coq Require Import List Arith NArith ZArith Lia Bool ZifyN ZifyNat ZifyBool.
From GoMC Require Import Base.Bytes Base.Dec Gen.Consts Model.C01 Model.C02 Proofs.C01 Proofs.C01_dec Proofs.C02_dec Proofs.C02.
Import ListNotations.
Open Scope N_scope.

Definition left_out (f : finfo * gtype) (x : gv) : bool :=
  f_skip (fst f) || (f_omit (fst f) && is_empty (snd f) x).

(* what is written for one field (Encoder.marshal, or the TagList case under the `list` option) *)
Definition field_enc (f : finfo * gtype) (x : gv) : tres :=
  if f_list (fst f) then enc_l (snd f) x else enc (snd f) x.
Definition field_typed (f : finfo * gtype) (x : gv) : bool :=
  if f_list (fst f) then has_type_l (snd f) x else has_type (snd f) x.
Definition rtf_ok (f : finfo * gtype) : Prop := forall x tr,
  field_typed f x = true -> field_enc f x = TOk tr ->
  wfb tr = true /\ unm tr (snd f) = UOk (canon (snd f) x).

(* what the field loop writes *)
Inductive Encs : list (finfo * gtype) -> list gv -> list (list N * tag) -> Prop :=
| E_nil : Encs [] [] []
| E_out f fr x vr es : left_out f x = true -> Encs fr vr es -> Encs (f :: fr) (x :: vr) es
| E_put f fr x vr es tr : left_out f x = false -> name_too_long (f_name (fst f)) = false ->
    field_enc f x = TOk tr ->
    Encs fr vr es -> Encs (f :: fr) (x :: vr) ((f_name (fst f), tr) :: es).

Lemma fields_enc_cons encf encl f fr x vr acc :
  fields_enc encf encl (f :: fr) (x :: vr) acc =
      if f_skip (fst f) then fields_enc encf encl fr vr acc
      else if f_omit (fst f) && is_empty (snd f) x then fields_enc encf encl fr vr acc
      else if get_tag (snd f) x =? idEnd then TErr
      else if f_list (fst f) && negb ((get_tag (snd f) x =? idByteArray) || (get_tag (snd f) x =? idIntArray)
                                      || (get_tag (snd f) x =? idLongArray)) then TErr
      else if name_too_long (f_name (fst f)) then TErr
      else tbind (if f_list (fst f) then encl (snd f) x else encf (snd f) x)
                 (fun tr => fields_enc encf encl fr vr ((f_name (fst f), tr) :: acc)).
Proof. reflexivity. Qed.

Lemma fields_enc_spec : forall fs vs acc tr,
  fields_enc (fun t x => enc t x) (fun t x => enc_l t x) fs vs acc = TOk tr ->
  exists es, Encs fs vs es /\ tr = TCompound (rev acc ++ es).
Proof.
  induction fs as [|f fr IH]; intros vs acc tr H; destruct vs as [|x vr]; try discriminate.
  - cbn in H. injection H as <-. exists []. split; [constructor|]. now rewrite rev_append_rev.
  - rewrite fields_enc_cons in H.
    destruct (f_skip (fst f)) eqn:Es.
    { destruct (IH vr acc tr H) as (es & E1 & E2). exists es. split; auto.
      apply E_out; auto. unfold left_out. now rewrite Es. }
    destruct (f_omit (fst f) && is_empty (snd f) x) eqn:Eo.
    { destruct (IH vr acc tr H) as (es & E1 & E2). exists es. split; auto.
      apply E_out; auto. unfold left_out. now rewrite Es, Eo. }
    destruct (get_tag (snd f) x =? idEnd); [discriminate|].
    destruct (f_list (fst f) && _) eqn:El; [discriminate|].
    destruct (name_too_long (f_name (fst f))) eqn:En; [discriminate|].
    change (if f_list (fst f) then enc_l (snd f) x else enc (snd f) x) with (field_enc f x) in H.
    destruct (field_enc f x) as [t| |] eqn:Ee; cbn [tbind] in H; try discriminate.
    destruct (IH vr _ tr H) as (es & E1 & E2). exists ((f_name (fst f), t) :: es). split.
    + apply E_put; auto. unfold left_out. now rewrite Es, Eo.
    + rewrite E2. cbn [rev]. now rewrite <- app_assoc.
Qed.

(* ---------- names ---------- *)
Definition same_name (k : list N) (g : finfo * gtype) : bool := negb (f_skip (fst g)) && bytes_eqb (f_name (fst g)) k.

Lemma names_ok_cons f r : names_ok (f :: r) = true ->
  (f_skip (fst f) = false -> all_bytesb (f_name (fst f)) = true /\
     forall g, In g r -> same_name (f_name (fst f)) g = false) /\ names_ok r = true.
Proof.
  cbn [names_ok]. rewrite andb_true_iff. intros [H1 H2]. split; [|exact H2]. intros Hs. rewrite Hs in H1.
  cbn [orb] in H1. apply andb_true_iff in H1. destruct H1 as [Ha Hb]. split; [exact Ha|].
  intros g Hg. apply negb_true_iff in Hb. destruct (same_name (f_name (fst f)) g) eqn:E; [|reflexivity].
  exfalso. assert (existsb (fun g => negb (f_skip (fst g)) && bytes_eqb (f_name (fst g)) (f_name (fst f))) r = true).
  { apply existsb_exists. exists g. split; auto. }
  congruence.
Qed.

Lemma same_name_sym f g : f_skip (fst f) = false -> f_skip (fst g) = false ->
  same_name (f_name (fst f)) g = same_name (f_name (fst g)) f.
Proof.
  intros Hf Hg. unfold same_name. rewrite Hf, Hg. cbn [negb andb].
  destruct (bytes_eqb (f_name (fst g)) (f_name (fst f))) eqn:E.
  - apply beqb_spec in E. rewrite E. symmetry. apply beqb_refl.
  - destruct (bytes_eqb (f_name (fst f)) (f_name (fst g))) eqn:E2; [|reflexivity].
    apply beqb_spec in E2. rewrite E2, beqb_refl in E. discriminate.
Qed.

Lemma in_combine_l' {A B} (l : list A) (l' : list B) a b : In (a, b) (combine l l') -> In a l.
Proof. apply in_combine_l. Qed.

(* the keys written come from fields that are in the table *)
Lemma Encs_keys fs vs es : Encs fs vs es -> forall k, assoc k es <> None ->
  exists f, In f fs /\ same_name k f = true.
Proof.
  induction 1 as [|f fr x vr es Ho HE IH|f fr x vr es tr Ho Hn He HE IH]; intros k Hk.
  - cbn in Hk. congruence.
  - destruct (IH k Hk) as (g & Hg & Hs). exists g. split; [now right|exact Hs].
  - cbn [assoc] in Hk. destruct (bytes_eqb k (f_name (fst f))) eqn:E.
    + exists f. split; [now left|]. unfold same_name. unfold left_out in Ho. apply orb_false_iff in Ho.
      destruct Ho as [-> _]. cbn. apply beqb_spec in E. subst k. apply beqb_refl.
    + destruct (IH k Hk) as (g & Hg & Hs). exists g. split; [now right|exact Hs].
Qed.

Lemma Encs_nodup fs vs es : Encs fs vs es -> names_ok fs = true -> keys_nodup es = true.
Proof.
  induction 1 as [|f fr x vr es Ho HE IH|f fr x vr es tr Ho Hn He HE IH]; intros Hok.
  - reflexivity.
  - apply names_ok_cons in Hok. apply IH, Hok.
  - apply names_ok_cons in Hok. destruct Hok as [Hf Hr]. cbn [keys_nodup].
    unfold left_out in Ho. apply orb_false_iff in Ho. destruct Ho as [Hs _].
    destruct (Hf Hs) as [_ Hdist].
    destruct (assoc (f_name (fst f)) es) eqn:E; [|auto].
    exfalso. destruct (Encs_keys _ _ _ HE (f_name (fst f))) as (g & Hg & Hsn); [congruence|].
    rewrite (Hdist g Hg) in Hsn. discriminate.
Qed.

(* a put field is found under its name; a left-out field in the table has no entry *)
Lemma Encs_put fs vs es : Encs fs vs es -> names_ok fs = true ->
  forall f x, In (f, x) (combine fs vs) -> left_out f x = false ->
  exists tr, field_enc f x = TOk tr /\ assoc (f_name (fst f)) es = Some tr /\ name_too_long (f_name (fst f)) = false.
Proof.
  induction 1 as [|g fr y vr es Ho HE IH|g fr y vr es tr Ho Hn He HE IH]; intros Hok f x Hin Hout.
  - destruct Hin.
  - apply names_ok_cons in Hok. cbn [combine In] in Hin. destruct Hin as [E|Hin].
    + injection E as -> ->. congruence.
    + apply IH; auto. apply Hok.
  - apply names_ok_cons in Hok. destruct Hok as [Hg Hr]. cbn [combine In] in Hin. destruct Hin as [E|Hin].
    + injection E as -> ->. exists tr. cbn [assoc]. rewrite beqb_refl. auto.
    + destruct (IH Hr f x Hin Hout) as (t & E1 & E2 & E3). exists t. repeat split; auto.
      cbn [assoc]. unfold left_out in Ho, Hout. apply orb_false_iff in Ho. apply orb_false_iff in Hout.
      destruct Ho as [Hsg _]. destruct Hout as [Hsf _]. destruct (Hg Hsg) as [_ Hdist].
      specialize (Hdist f (in_combine_l' _ _ _ _ Hin)). unfold same_name in Hdist. rewrite Hsf in Hdist.
      cbn [negb andb] in Hdist. rewrite Hdist. exact E2.
Qed.
Lemma Encs_out fs vs es : Encs fs vs es -> names_ok fs = true ->
  forall f x, In (f, x) (combine fs vs) -> f_skip (fst f) = false -> left_out f x = true ->
  assoc (f_name (fst f)) es = None.
Proof.
  induction 1 as [|g fr y vr es Ho HE IH|g fr y vr es tr Ho Hn He HE IH]; intros Hok f x Hin Hs Hout.
  - destruct Hin.
  - apply names_ok_cons in Hok. destruct Hok as [Hg Hr]. cbn [combine In] in Hin. destruct Hin as [E|Hin].
    + injection E as -> ->. destruct (Hg Hs) as [_ Hdist].
      destruct (assoc (f_name (fst f)) es) eqn:E; [|reflexivity]. exfalso.
      destruct (Encs_keys _ _ _ HE (f_name (fst f))) as (h & Hh & Hsn); [congruence|].
      rewrite (Hdist h Hh) in Hsn. discriminate.
    + apply (IH Hr f x); auto.
  - apply names_ok_cons in Hok. destruct Hok as [Hg Hr]. cbn [combine In] in Hin. destruct Hin as [E|Hin].
    + injection E as -> ->. congruence.
    + cbn [assoc]. unfold left_out in Ho. apply orb_false_iff in Ho. destruct Ho as [Hsg _].
      destruct (Hg Hsg) as [_ Hdist]. specialize (Hdist f (in_combine_l' _ _ _ _ Hin)).
      unfold same_name in Hdist. rewrite Hs in Hdist. cbn [negb andb] in Hdist. rewrite Hdist.
      apply (IH Hr f x); auto.
Qed.
Lemma Encs_in fs vs es : Encs fs vs es -> forall k tr, In (k, tr) es ->
  exists f x, In (f, x) (combine fs vs) /\ left_out f x = false /\ k = f_name (fst f) /\ field_enc f x = TOk tr.
Proof.
  induction 1 as [|g fr y vr es Ho HE IH|g fr y vr es t Ho Hn He HE IH]; intros k tr Hin.
  - destruct Hin.
  - destruct (IH k tr Hin) as (f & x & H1 & H2). exists f, x. split; [now right|exact H2].
  - destruct Hin as [E|Hin].
    + injection E as <- <-. exists g, y. repeat split; auto. now left.
    + destruct (IH k tr Hin) as (f & x & H1 & H2). exists f, x. split; [now right|exact H2].
Qed.

(* the table lookup of the decoder finds the field a key was written for *)
Lemma find_unique fs : names_ok fs = true -> forall f, In f fs -> f_skip (fst f) = false ->
  find_field fs (f_name (fst f)) = Some f.
Proof.
  intros Hok f Hin Hs. unfold find_field.
  assert (H : find (fun g => negb (f_skip (fst g)) && bytes_eqb (f_name (fst g)) (f_name (fst f))) fs = Some f).
  { induction fs as [|g r IH]; [destruct Hin|]. apply names_ok_cons in Hok. destruct Hok as [Hg Hr].
    cbn [find]. destruct Hin as [->|Hin].
    - rewrite Hs, beqb_refl. reflexivity.
    - destruct (negb (f_skip (fst g)) && bytes_eqb (f_name (fst g)) (f_name (fst f))) eqn:E; [|now apply IH].
      exfalso. apply andb_true_iff in E. destruct E as [E1 E2]. apply negb_true_iff in E1.
      destruct (Hg E1) as [_ Hdist]. specialize (Hdist f Hin). unfold same_name in Hdist.
      rewrite Hs in Hdist. cbn [negb andb] in Hdist. apply beqb_spec in E2. rewrite E2, beqb_refl in Hdist. discriminate. }
  now rewrite H.
Qed.

(* the value expected for the field named k *)
Fixpoint fval (fs : list (finfo * gtype)) (vs : list gv) (k : list N) : gv :=
  match fs, vs with
  | f :: fr, x :: vr => if same_name k f then canon (snd f) x else fval fr vr k
  | _, _ => GvBool false
  end.
Lemma fval_unique fs : names_ok fs = true -> forall vs f x, In (f, x) (combine fs vs) -> f_skip (fst f) = false ->
  fval fs vs (f_name (fst f)) = canon (snd f) x.
Proof.
  induction fs as [|g r IH]; intros Hok vs f x Hin Hs; destruct vs as [|y vr]; try destruct Hin.
  - injection H as -> ->. cbn [fval]. unfold same_name. now rewrite Hs, beqb_refl.
  - apply names_ok_cons in Hok. destruct Hok as [Hg Hr]. cbn [fval].
    destruct (same_name (f_name (fst f)) g) eqn:E; [|now apply IH].
    exfalso. unfold same_name in E. apply andb_true_iff in E. destruct E as [E1 E2]. apply negb_true_iff in E1.
    destruct (Hg E1) as [_ Hdist]. specialize (Hdist f (in_combine_l' _ _ _ _ H)).
    rewrite <- same_name_sym in Hdist by auto. unfold same_name in Hdist. rewrite E1, E2 in Hdist. discriminate.
Qed.

Lemma typed_in fs : forall vs f x,
  fields_typed (fun t x => has_type t x) (fun t x => has_type_l t x) fs vs = true ->
  In (f, x) (combine fs vs) -> field_typed f x = true.
Proof.
  induction fs as [|g r IH]; intros vs f x Ht Hin; destruct vs as [|y vr]; try destruct Hin;
    cbn in Ht; apply andb_true_iff in Ht; destruct Ht as [H1 H2].
  - injection H as -> ->. exact H1.
  - eapply IH; eauto.
Qed.
Lemma typed_length ht htl fs : forall vs, fields_typed ht htl fs vs = true -> length fs = length vs.
Proof.
  induction fs as [|g r IH]; intros [|y vr] Ht; try discriminate; auto.
  cbn in Ht. apply andb_true_iff in Ht. cbn [length]. f_equal. apply IH, Ht.
Qed.

(* ---------- the decoder loop ---------- *)
Lemma struct_loop_cons fs f kx r acc :
  struct_loop fs f (kx :: r) acc =
      match find_field fs (fst kx) with
      | None => struct_loop fs f r acc
      | Some fd =>
          match assoc (f_name (fst fd)) acc with
          | Some _ => None
          | None =>
              match f (snd kx) (snd fd) with
              | UOk y => struct_loop fs f r ((f_name (fst fd), y) :: acc)
              | UErr => Some None
              | UOut => None
              end
          end
      end.
Proof. reflexivity. Qed.

Lemma struct_loop_spec fs (val : list N -> gv) : forall es acc,
  (forall k tr, In (k, tr) es -> exists fd, find_field fs k = Some fd /\ f_name (fst fd) = k /\ unm tr (snd fd) = UOk (val k)) ->
  keys_nodup es = true -> (forall k, assoc k es <> None -> assoc k acc = None) ->
  exists acc', struct_loop fs (fun x t => unm x t) es acc = Some (Some acc') /\
    forall k, assoc k acc' = match assoc k es with Some _ => Some (val k) | None => assoc k acc end.
Proof.
  induction es as [|[k tr] r IH]; intros acc Hent Hnd Hdis.
  - exists acc. split; reflexivity.
  - rewrite struct_loop_cons. cbn [fst snd].
    destruct (Hent k tr (or_introl eq_refl)) as (fd & Hf & Hn & Hu). rewrite Hf, Hn.
    assert (Ea : assoc k acc = None). { apply Hdis. cbn [assoc]. rewrite beqb_refl. discriminate. }
    rewrite Ea, Hu. cbn [keys_nodup] in Hnd. destruct (assoc k r) eqn:Ekr; [discriminate|].
    destruct (IH ((k, val k) :: acc)) as (acc' & H1 & H2).
    + intros k' tr' Hin. apply Hent. now right.
    + exact Hnd.
    + intros k' Hk'. cbn [assoc]. destruct (bytes_eqb k' k) eqn:E.
      * apply beqb_spec in E. subst k'. congruence.
      * apply Hdis. cbn [assoc]. now rewrite E.
    + exists acc'. split; [exact H1|]. intros k'. rewrite H2. cbn [assoc].
      destruct (bytes_eqb k' k) eqn:E.
      * apply beqb_spec in E. subst k'. rewrite Ekr. reflexivity.
      * reflexivity.
Qed.

(* ---------- structs ---------- *)
Lemma rt_struct fs : Forall rtf_ok fs -> names_ok fs = true -> rt_ok (YStruct fs).
Proof.
  intros IH Hok v tr Ht He. destruct v as [| | | | | | |vs| | | |]; try discriminate.
  cbn [has_type] in Ht. cbn [enc] in He.
  destruct (fields_enc_spec fs vs [] tr He) as (es & HE & ->). cbn [rev app].
  rewrite unm_nonptr by reflexivity. rewrite Forall_forall in IH.
  (* every entry written *)
  assert (Hent : forall k t, In (k, t) es ->
            name_ok k = true /\ wfb t = true /\
            exists fd, find_field fs k = Some fd /\ f_name (fst fd) = k /\ unm t (snd fd) = UOk (fval fs vs k)).
  { intros k t Hin. destruct (Encs_in _ _ _ HE k t Hin) as (f & x & Hfx & Ho & -> & Hen).
    pose proof (in_combine_l' _ _ _ _ Hfx) as Hf.
    unfold left_out in Ho. apply orb_false_iff in Ho. destruct Ho as [Hs Hom].
    destruct (IH f Hf x t (typed_in _ _ _ _ Ht Hfx) Hen) as (W & U).
    destruct (Encs_put _ _ _ HE Hok f x Hfx) as (t' & _ & _ & Hnl); [unfold left_out; now rewrite Hs, Hom|].
    assert (Hab : all_bytesb (f_name (fst f)) = true).
    { clear -Hok Hf Hs. induction fs as [|g r IHr]; [destruct Hf|]. apply names_ok_cons in Hok.
      destruct Hok as [Hg Hr]. destruct Hf as [->|Hf]; [apply Hg, Hs|now apply IHr]. }
    split; [now apply name_ok_of|]. split; [exact W|].
    exists f. split; [now apply find_unique|]. split; [reflexivity|].
    rewrite (fval_unique fs Hok vs f x Hfx Hs). exact U. }
  split; [|split; [reflexivity|]].
  - cbn [wfb]. apply forallb_forall. intros [k t] Hin. cbn [fst snd].
    destruct (Hent k t Hin) as (H1 & H2 & _). now rewrite H1, H2.
  - cbn [unm_base canon].
    change (fun (x : tag) (t : gtype) => via (unm_base x (ptr_base t)) t) with (fun (x : tag) (t : gtype) => unm x t).
    destruct (struct_loop_spec fs (fval fs vs) es []) as (acc' & H1 & H2).
    + intros k t Hin. apply Hent, Hin.
    + eapply Encs_nodup; eauto.
    + reflexivity.
    + rewrite H1. f_equal. unfold struct_of. f_equal.
      (* field by field *)
      assert (G : forall fr vr, (forall f x, In (f, x) (combine fr vr) -> In (f, x) (combine fs vs)) ->
                  length fr = length vr ->
                  map (fun f : finfo * gtype =>
                         if f_skip (fst f) then zero (snd f)
                         else match assoc (f_name (fst f)) acc' with Some y => y | None => zero (snd f) end) fr
                  = canon_fields (fun t x => canon t x) fr vr).
      { induction fr as [|f fr IHr]; intros [|x vr] Hsub Hlen; try discriminate; [reflexivity|].
        cbn [map canon_fields]. f_equal.
        - assert (Hfx : In (f, x) (combine fs vs)) by (apply Hsub; now left).
          destruct (f_skip (fst f)) eqn:Es; [reflexivity|]. rewrite H2. cbn [assoc].
          destruct (f_omit (fst f) && is_empty (snd f) x) eqn:Eo.
          + rewrite (Encs_out _ _ _ HE Hok f x Hfx Es); [reflexivity|]. unfold left_out. now rewrite Es, Eo.
          + destruct (Encs_put _ _ _ HE Hok f x Hfx) as (t & _ & Ea & _); [unfold left_out; now rewrite Es, Eo|].
            rewrite Ea. now apply fval_unique.
        - apply IHr; [|now injection Hlen]. intros g y Hin. apply Hsub. now right. }
      apply G; [auto|]. eapply typed_length; eauto.
Qed.
