(* C02: typeFields with type identities (Model/C02_tf.v): the code's queues / visited / count maps compute exactly the
   level-wise specification; a candidate survives sort + dominantField exactly when it is promoted; every index sequence
   is the sequence of embedding indices followed by the field's own index. *)
From Coq Require Import List Arith NArith ZArith Lia Bool Permutation ZifyN ZifyNat ZifyBool.
From GoMC Require Import Base.Bytes Base.Dec Gen.Consts Model.C01 Model.C02 Model.C02_tf Proofs.C02.
Import ListNotations.
Open Scope nat_scope.

(* ---------- the field loop of one struct ---------- *)
Definition push (st : list nat * list qent) (o : qent) : list nat * list qent :=
  (q_tid o :: fst st, if memb (q_tid o) (fst st) then snd st else snd st ++ [o]).
Definition twice (l : list tfield) : list tfield := flat_map (fun c => [c; c]) l.

Lemma scan_spec dup pre : forall ds j nc next,
  tf_scan dup pre j ds nc next =
  ((if dup then twice (own_fields pre j ds) else own_fields pre j ds),
   fst (fold_left push (children pre j ds) (nc, next)), snd (fold_left push (children pre j ds) (nc, next))).
Proof.
  induction ds as [|d r IH]; intros j nc next.
  - cbn. destruct dup; reflexivity.
  - destruct d as [fi tg t|p tid ds']; cbn [tf_scan own_fields children].
    + destruct (f_skip fi); [apply IH|]. rewrite IH. destruct dup; reflexivity.
    + rewrite IH. cbn [fold_left push fst snd q_tid]. reflexivity.
Qed.

Lemma memb_cons x y l : memb x (y :: l) = Nat.eqb x y || memb x l.
Proof. reflexivity. Qed.
Lemma firsts_ext : forall l a b, (forall x, memb x a = memb x b) -> firsts a l = firsts b l.
Proof.
  induction l as [|o r IH]; intros a b H; [reflexivity|]. cbn [firsts]. rewrite (H (q_tid o)).
  destruct (memb (q_tid o) b); [now apply IH|]. f_equal. apply IH. intros x. now rewrite !memb_cons, H.
Qed.
Lemma push_fold : forall occ nc next,
  fold_left push occ (nc, next) = (rev (map q_tid occ) ++ nc, next ++ firsts nc occ).
Proof.
  induction occ as [|o r IH]; intros nc next; cbn [fold_left map rev firsts app].
  - now rewrite app_nil_r.
  - unfold push at 2. cbn [fst snd]. rewrite IH, <- app_assoc. cbn [app]. f_equal.
    destruct (memb (q_tid o) nc) eqn:E.
    + f_equal. apply firsts_ext. intros x. rewrite memb_cons. destruct (Nat.eqb_spec x (q_tid o)) as [->|]; [now rewrite E|reflexivity].
    + now rewrite <- app_assoc.
Qed.

(* ---------- one level ---------- *)
Definition kids (e : qent) : list qent := children (q_path e) 0 (q_ds e).
Definition contrib_c (count : list nat) (e : qent) : list tfield :=
  let fs := own_fields (q_path e) 0 (q_ds e) in if 1 <? cnt (q_tid e) count then twice fs else fs.
Lemma level_spec count : forall cur vis nc next,
  tf_level count cur vis nc next =
  (flat_map (contrib_c count) (firsts vis cur), rev (map q_tid (firsts vis cur)) ++ vis,
   fst (fold_left push (flat_map kids (firsts vis cur)) (nc, next)),
   snd (fold_left push (flat_map kids (firsts vis cur)) (nc, next))).
Proof.
  induction cur as [|e r IH]; intros vis nc next; [reflexivity|]. cbn [tf_level firsts].
  destruct (memb (q_tid e) vis); [apply IH|]. rewrite scan_spec, IH. cbn [flat_map map rev].
  rewrite fold_left_app, <- app_assoc. cbn [app]. fold (kids e).
  rewrite <- (surjective_pairing (fold_left push (kids e) (nc, next))). unfold contrib_c at 2.
  destruct (1 <? cnt (q_tid e) count); reflexivity.
Qed.

Lemma firsts_firsts : forall occ s vis, (forall x, memb x s = true -> memb x vis = true) ->
  firsts vis (firsts s occ) = firsts vis occ.
Proof.
  induction occ as [|o r IH]; intros s vis H; [reflexivity|]. cbn [firsts].
  destruct (memb (q_tid o) s) eqn:Es.
  - rewrite (H _ Es). now apply IH.
  - cbn [firsts]. destruct (memb (q_tid o) vis) eqn:Ev.
    + apply IH. intros x. rewrite memb_cons. destruct (Nat.eqb_spec x (q_tid o)) as [->|]; cbn [orb]; auto.
    + f_equal. apply IH. intros x. rewrite !memb_cons. destruct (Nat.eqb x (q_tid o)); cbn [orb]; auto.
Qed.
Lemma firsts_nil_iff occ : firsts [] occ = [] <-> occ = [].
Proof. destruct occ; cbn; split; congruence. Qed.
Lemma cnt_rev x l : cnt x (rev l) = cnt x l.
Proof.
  unfold cnt. induction l as [|y l IH]; [reflexivity|]. cbn [rev filter]. rewrite filter_app, app_length, IH. cbn [filter].
  destruct (Nat.eqb x y); cbn [length]; lia.
Qed.

(* ---------- THE CODE COMPUTES THE LEVEL-WISE SPECIFICATION ---------- *)
Lemma contrib_eq count occ e : (forall t, (1 <? cnt t count) = (1 <? cnt t (map q_tid occ))) -> contrib_c count e = contrib occ e.
Proof. intros H. unfold contrib_c, contrib, twice. now rewrite H. Qed.
Theorem bfs_spec : forall fuel count occ vis,
  (forall t, (1 <? cnt t count) = (1 <? cnt t (map q_tid occ))) ->
  tf_bfs fuel count (firsts [] occ) vis = spec_levels fuel occ vis.
Proof.
  induction fuel as [|f IH]; intros count occ vis H; [reflexivity|]. cbn [tf_bfs spec_levels].
  destruct occ as [|o occ']; [reflexivity|]. set (occ := o :: occ') in *.
  destruct (firsts [] occ) as [|c0 cr] eqn:Ec; [apply firsts_nil_iff in Ec; discriminate|]. rewrite <- Ec.
  rewrite level_spec. rewrite firsts_firsts by (intros x Hx; discriminate).
  rewrite push_fold. cbn [fst snd app]. rewrite app_nil_r. f_equal.
  - apply flat_map_ext. intros e. now apply contrib_eq.
  - apply IH. intros t. now rewrite cnt_rev.
Qed.
Theorem collect_meets_spec : forall root ds, tf_collect root ds = spec_cands root ds.
Proof.
  intros root ds. unfold tf_collect, spec_cands. change [([], root, ds)] with (firsts [] [(@nil nat, root, ds)]) at 1.
  apply bfs_spec. intros t. cbn [map q_tid fst snd cnt filter]. unfold cnt. cbn [filter]. destruct (Nat.eqb t root); reflexivity.
Qed.

(* ---------- sort + dominantField = promoted ---------- *)
Lemma rank_leb_refl x : rank_leb x x = true.
Proof. unfold rank_leb. rewrite Nat.eqb_refl. destruct (tf_tagged x); cbn; now rewrite orb_true_r. Qed.
Lemma same_name_spec x y : same_name x y = true <-> f_name (tf_fi x) = f_name (tf_fi y).
Proof. apply beqb_spec. Qed.
Lemma not_rank_leb y x : rank_leb y x = false <-> stronger x y.
Proof.
  unfold rank_leb, stronger. destruct (tf_tagged x), (tf_tagged y); cbn [orb negb andb];
    destruct (Nat.ltb_spec (length (tf_path y)) (length (tf_path x))); destruct (Nat.eqb_spec (length (tf_path y)) (length (tf_path x)));
    cbn [orb andb]; split; intros HH; try discriminate; try lia; try (destruct HH as [HH|(H1 & H2 & H3)]; try lia; discriminate).
Qed.
Definition qf (x : tfield) : tfield -> bool := fun y => same_name x y && rank_leb y x.
Lemma filter_none {A} (p : A -> bool) l : length (filter p l) = 0 <-> forall y, In y l -> p y = false.
Proof.
  induction l as [|a l IH]; cbn [filter]; [split; [intros _ y []|reflexivity]|].
  destruct (p a) eqn:E; cbn [length]; split.
  - discriminate.
  - intros H. specialize (H a (or_introl eq_refl)). congruence.
  - intros H y [<-|Hy]; [exact E|]. now apply IH.
  - intros H. apply IH. intros y Hy. apply H. now right.
Qed.
Theorem keeps_promoted all x : In x all -> (tf_keeps all x = true <-> promoted all x).
Proof.
  intros Hin. unfold tf_keeps. fold (qf x). split.
  - intros H. apply Nat.eqb_eq in H. apply in_split in Hin. destruct Hin as (l1 & l2 & ->). exists l1, l2. split; [reflexivity|].
    rewrite filter_app, app_length in H. cbn [filter] in H. unfold qf at 2 in H.
    assert (Sx : same_name x x = true) by now apply same_name_spec. rewrite Sx, rank_leb_refl in H. cbn [andb length] in H.
    assert (H1 : length (filter (qf x) l1) = 0) by lia. assert (H2 : length (filter (qf x) l2) = 0) by lia.
    intros y Hy Hn. apply not_rank_leb. rewrite filter_none in H1, H2.
    assert (Q : qf x y = false) by (apply in_app_or in Hy; destruct Hy; auto). unfold qf in Q.
    assert (Sy : same_name x y = true) by (apply same_name_spec; congruence). now rewrite Sy in Q.
  - intros (l1 & l2 & -> & H). apply Nat.eqb_eq. rewrite filter_app, app_length. cbn [filter]. unfold qf at 2.
    assert (Sx : same_name x x = true) by now apply same_name_spec. rewrite Sx, rank_leb_refl. cbn [andb length].
    assert (G : forall y, In y (l1 ++ l2) -> qf x y = false).
    { intros y Hy. unfold qf. destruct (same_name x y) eqn:Sy; [|reflexivity]. cbn [andb]. apply not_rank_leb, H; auto.
      apply same_name_spec in Sy. congruence. }
    assert (H1 : length (filter (qf x) l1) = 0) by (apply filter_none; intros; apply G, in_or_app; now left).
    assert (H2 : length (filter (qf x) l2) = 0) by (apply filter_none; intros; apply G, in_or_app; now right).
    lia.
Qed.

(* sort.Sort(byIndex) rearranges *)
Lemma ix_insert_perm x l : Permutation (ix_insert x l) (x :: l).
Proof.
  induction l as [|y r IH]; cbn [ix_insert]; [apply Permutation_refl|]. destruct (ix_ltb (tf_path y) (tf_path x)); [|apply Permutation_refl].
  eapply Permutation_trans; [apply perm_skip, IH|apply perm_swap].
Qed.
Lemma ix_sort_perm l : Permutation (ix_sort l) l.
Proof.
  induction l as [|x l IH]; [constructor|]. cbn [ix_sort fold_right]. fold (ix_sort l).
  eapply Permutation_trans; [apply ix_insert_perm|now apply perm_skip].
Qed.

(* THE TABLE: its entries are exactly the promoted candidates of the specification *)
Theorem table_spec root ds x : In x (tf_table root ds) <-> promoted (spec_cands root ds) x.
Proof.
  unfold tf_table. rewrite collect_meets_spec. set (all := spec_cands root ds). split.
  - intros H. apply (Permutation_in _ (ix_sort_perm _)) in H. apply filter_In in H. destruct H as [Hi Hk]. now apply keeps_promoted.
  - intros H. assert (Hi : In x all) by (destruct H as (l1 & l2 & -> & _); apply in_or_app; right; now left).
    apply (Permutation_in _ (Permutation_sym (ix_sort_perm _))). apply filter_In. split; [exact Hi|]. now apply keeps_promoted.
Qed.

(* one field per name *)
Lemma two_counted (q : tfield -> bool) pre x a y b : q x = true -> q y = true -> 2 <= length (filter q (pre ++ x :: a ++ y :: b)).
Proof. intros Hx Hy. rewrite filter_app, app_length. cbn [filter]. rewrite Hx. cbn [length]. rewrite filter_app, app_length. cbn [filter]. rewrite Hy. cbn [length]. lia. Qed.
Lemma rank_total x y : rank_leb x y = true \/ rank_leb y x = true.
Proof.
  unfold rank_leb. destruct (tf_tagged x), (tf_tagged y); cbn [orb negb andb];
    destruct (Nat.ltb_spec (length (tf_path y)) (length (tf_path x))); destruct (Nat.ltb_spec (length (tf_path x)) (length (tf_path y)));
    destruct (Nat.eqb_spec (length (tf_path y)) (length (tf_path x))); destruct (Nat.eqb_spec (length (tf_path x)) (length (tf_path y)));
    cbn [orb andb]; auto; lia.
Qed.
Lemma kept_names_nodup all : forall l pre, all = pre ++ l -> NoDup (map (fun x => f_name (tf_fi x)) (filter (tf_keeps all) l)).
Proof.
  induction l as [|x l IH]; intros pre E; [constructor|]. cbn [filter].
  assert (IH' := IH (pre ++ [x]) ltac:(now rewrite <- app_assoc)).
  destruct (tf_keeps all x) eqn:Kx; [|exact IH']. cbn [map]. constructor; [|exact IH'].
  intros Hin. apply in_map_iff in Hin. destruct Hin as (y & Hn & Hy). apply filter_In in Hy. destruct Hy as [Hy Ky].
  apply in_split in Hy. destruct Hy as (a & b & ->). unfold tf_keeps in Kx, Ky. apply Nat.eqb_eq in Kx, Ky.
  assert (Sxy : same_name x y = true) by (apply same_name_spec; congruence).
  assert (Syx : same_name y x = true) by (apply same_name_spec; congruence).
  assert (Sxx : same_name x x = true) by now apply same_name_spec. assert (Syy : same_name y y = true) by now apply same_name_spec.
  destruct (rank_total x y) as [R|R].
  - pose proof (two_counted (fun z => same_name y z && rank_leb z y) pre x a y b) as T. rewrite <- E in T.
    rewrite Syx, R, Syy, rank_leb_refl in T. specialize (T eq_refl eq_refl). lia.
  - pose proof (two_counted (fun z => same_name x z && rank_leb z x) pre x a y b) as T. rewrite <- E in T.
    rewrite Sxx, rank_leb_refl, Sxy, R in T. specialize (T eq_refl eq_refl). lia.
Qed.
Theorem table_names_nodup root ds : NoDup (map (fun x => f_name (tf_fi x)) (tf_table root ds)).
Proof.
  unfold tf_table. eapply Permutation_NoDup; [apply Permutation_map, Permutation_sym, ix_sort_perm|]. now apply (kept_names_nodup _ _ []).
Qed.

(* ---------- every index sequence: the embedding indices, then the field's own index ---------- *)
Fixpoint sub_at (p : list nat) (ds : list sfield) : option (list sfield) :=
  match p with
  | [] => Some ds
  | i :: p' => match nth_error ds i with Some (SE _ _ ds') => sub_at p' ds' | _ => None end
  end.
Lemma sub_at_snoc : forall p ds ds' j b tid ds'', sub_at p ds = Some ds' -> nth_error ds' j = Some (SE b tid ds'') ->
  sub_at (p ++ [j]) ds = Some ds''.
Proof.
  induction p as [|i p IH]; intros ds ds' j b tid ds'' H Hj; cbn [sub_at app] in *.
  - injection H as <-. now rewrite Hj.
  - destruct (nth_error ds i) as [[|? ? dsi]|]; try discriminate. eapply IH; eauto.
Qed.
Lemma leaf_at_snoc : forall p ds ds' j fi tg t, sub_at p ds = Some ds' -> nth_error ds' j = Some (SF fi tg t) -> f_skip fi = false ->
  leaf_at (p ++ [j]) ds = Some (fi, tg, t).
Proof.
  induction p as [|i p IH]; intros ds ds' j fi tg t H Hj Hs; cbn [sub_at leaf_at app] in *.
  - injection H as <-. now rewrite Hj, Hs.
  - destruct (nth_error ds i) as [[|? ? dsi]|]; try discriminate.
    destruct (p ++ [j]) eqn:E; [destruct p; discriminate|]. rewrite <- E. eapply IH; eauto.
Qed.
Lemma own_fields_at pre : forall ds j x, In x (own_fields pre j ds) ->
  exists k, tf_path x = pre ++ [j + k] /\ nth_error ds k = Some (SF (tf_fi x) (tf_tagged x) (tf_ty x)) /\ f_skip (tf_fi x) = false.
Proof.
  induction ds as [|d r IH]; intros j x H; [destruct H|]. destruct d as [fi tg t|b tid ds']; cbn [own_fields] in H.
  - destruct (f_skip fi) eqn:Es.
    + destruct (IH _ _ H) as (k & E1 & E2 & E3). exists (S k). rewrite E1. repeat split; auto. f_equal. f_equal. lia.
    + destruct H as [<-|H].
      * exists 0. cbn. rewrite Nat.add_0_r. auto.
      * destruct (IH _ _ H) as (k & E1 & E2 & E3). exists (S k). rewrite E1. repeat split; auto. f_equal. f_equal. lia.
  - destruct (IH _ _ H) as (k & E1 & E2 & E3). exists (S k). rewrite E1. repeat split; auto. f_equal. f_equal. lia.
Qed.
Lemma children_at pre : forall ds j e, In e (children pre j ds) ->
  exists k b, q_path e = pre ++ [j + k] /\ nth_error ds k = Some (SE b (q_tid e) (q_ds e)).
Proof.
  induction ds as [|d r IH]; intros j e H; [destruct H|]. destruct d as [fi tg t|b tid ds']; cbn [children] in H.
  - destruct (IH _ _ H) as (k & b & E1 & E2). exists (S k), b. rewrite E1. split; auto. f_equal. f_equal. lia.
  - destruct H as [<-|H].
    + exists 0, b. cbn. rewrite Nat.add_0_r. auto.
    + destruct (IH _ _ H) as (k & b' & E1 & E2). exists (S k), b'. rewrite E1. split; auto. f_equal. f_equal. lia.
Qed.
Lemma firsts_in : forall occ s e, In e (firsts s occ) -> In e occ.
Proof.
  induction occ as [|o r IH]; intros s e H; [destruct H|]. cbn [firsts] in H. destruct (memb (q_tid o) s).
  - right. eapply IH; eauto.
  - destruct H as [<-|H]; [now left|right; eapply IH; eauto].
Qed.
Definition occ_ok (ds : list sfield) (e : qent) : Prop := sub_at (q_path e) ds = Some (q_ds e).
Definition is_leaf (ds : list sfield) (x : tfield) : Prop := leaf_at (tf_path x) ds = Some (tf_fi x, tf_tagged x, tf_ty x).
Lemma in_twice x l : In x (twice l) -> In x l.
Proof. unfold twice. intros H. apply in_flat_map in H. destruct H as (c & Hc & [<-|[<-|[]]]); exact Hc. Qed.
Lemma spec_levels_leaf ds : forall fuel occ seen, (forall e, In e occ -> occ_ok ds e) ->
  forall x, In x (spec_levels fuel occ seen) -> is_leaf ds x.
Proof.
  induction fuel as [|f IH]; intros occ seen Hok x H; [destruct H|]. cbn [spec_levels] in H.
  destruct occ as [|o occ']; [destruct H|]. set (occ := o :: occ') in *. apply in_app_or in H. destruct H as [H|H].
  - apply in_flat_map in H. destruct H as (e & He & Hx). apply firsts_in in He. specialize (Hok e He).
    assert (Hx' : In x (own_fields (q_path e) 0 (q_ds e))).
    { unfold contrib in Hx. destruct (1 <? cnt (q_tid e) (map q_tid occ)); [now apply in_twice|exact Hx]. }
    destruct (own_fields_at _ _ _ _ Hx') as (k & E1 & E2 & E3). unfold is_leaf. rewrite E1. cbn [Nat.add].
    eapply leaf_at_snoc; eauto.
  - eapply IH; [|exact H]. intros e He. apply in_flat_map in He. destruct He as (e0 & He0 & He). apply firsts_in in He0.
    specialize (Hok e0 He0). destruct (children_at _ _ _ _ He) as (k & b & E1 & E2). unfold occ_ok. rewrite E1. cbn [Nat.add].
    eapply sub_at_snoc; eauto.
Qed.
Theorem collect_paths_exact root ds x : In x (tf_collect root ds) -> is_leaf ds x.
Proof.
  rewrite collect_meets_spec. apply spec_levels_leaf. intros e [<-|[]]. reflexivity.
Qed.
Theorem table_paths_exact root ds x : In x (tf_table root ds) -> is_leaf ds x.
Proof.
  unfold tf_table. intros H. apply (Permutation_in _ (ix_sort_perm _)) in H. apply filter_In in H. now apply (collect_paths_exact root).
Qed.
(* hence two entries with the same index sequence are the same field of the declaration *)
Theorem table_paths_nodup root ds : NoDup (map tf_path (tf_table root ds)).
Proof.
  assert (G : forall l, NoDup (map (fun x => f_name (tf_fi x)) l) -> (forall x, In x l -> is_leaf ds x) -> NoDup (map tf_path l)).
  { induction l as [|x l IH]; intros Hn Hl; [constructor|]. cbn [map] in *. inversion Hn as [|? ? Hx Hn']; subst. constructor.
    - intros Hin. apply in_map_iff in Hin. destruct Hin as (y & Ey & Hy). apply Hx. apply in_map_iff. exists y. split; [|exact Hy].
      pose proof (Hl x (or_introl eq_refl)) as Lx. pose proof (Hl y (or_intror Hy)) as Ly. unfold is_leaf in *. rewrite Ey in Ly. congruence.
    - apply IH; auto. intros y Hy. apply Hl. now right. }
  apply G; [apply table_names_nodup|apply table_paths_exact].
Qed.
