(* C02: interpretation lemmas - the hand model of the encoder (Model/C01.v payload, Model/C02.v tag selection,
   field loop, emptiness) IS the interpretation of the tables and functions translated from nbt/encode.go and
   nbt/typeinfo.go (Gen/C02gen.v), for every kind / tag / argument *)
From Coq Require Import List Arith NArith ZArith Lia Bool ZifyN ZifyNat ZifyBool.
From GoMC Require Import Base.Bytes Base.Dec Base.GoInt Gen.Consts Model.C01 Model.C02 Model.C02_syntax Gen.C02gen
  Proofs.C01 Proofs.C02 Proofs.C02_expected.
Import ListNotations.
Open Scope N_scope.

(* ---------- the reflect.Kind of a type of the model's universe ---------- *)
Definition kind_of (t : gtype) : rkind :=
  match t with
  | YBool => KBool
  | YInt sg w =>
      if w =? 8 then (if sg then KInt8 else KUint8)
      else if w =? 16 then (if sg then KInt16 else KUint16)
      else if w =? 32 then (if sg then KInt32 else KUint32)
      else if w =? 64 then (if sg then KInt64 else KUint64)
      else (if sg then KInt else KUint)
  | YF32 => KFloat32 | YF64 => KFloat64 | YStr => KString
  | YSlice _ => KSlice | YArray _ _ => KArray | YMap _ => KMap
  | YStruct _ | YRaw => KStruct
  | YPtr _ | YDyn => KPointer
  | YIface => KInterface
  end.
(* a type of every kind (uintptr has none: a width the universe does not use stands for it) *)
Definition type_of_kind (k : rkind) : gtype :=
  match k with
  | KBool => YBool | KInt => YInt true 0 | KInt8 => YInt true 8 | KInt16 => YInt true 16 | KInt32 => YInt true 32
  | KInt64 => YInt true 64 | KUint => YInt false 0 | KUint8 => YInt false 8 | KUint16 => YInt false 16
  | KUint32 => YInt false 32 | KUint64 => YInt false 64 | KUintptr => YInt false 1
  | KFloat32 => YF32 | KFloat64 => YF64 | KArray => YArray 0 YBool | KMap => YMap YBool | KSlice => YSlice YBool
  | KString => YStr | KStruct => YStruct [] | KInterface => YIface | KPointer => YPtr YBool
  end.

Definition kind_tag (k : rkind) : Z :=
  match lookup_kind c02_kind_table k with Some r => r | None => c02_kind_default end.

(* getTagTypeByType = tag_by_ty, for every type of the universe ... *)
Theorem kind_table_ok : forall t, Z.of_N (tag_by_ty t) = kind_tag (kind_of t).
Proof.
  destruct t; try reflexivity.
  cbn [tag_by_ty kind_of]. unfold int_tag.
  destruct (w =? 8); [destruct sg; reflexivity|]. destruct (w =? 16); [destruct sg; reflexivity|].
  destruct (w =? 32); [destruct sg; reflexivity|]. destruct (w =? 64); destruct sg; reflexivity.
Qed.
(* ... and for every reflect.Kind the encoder's switch mentions or not (finite sweep) *)
Theorem kind_table_sweep : forall k, In k all_kinds -> kind_tag k = Z.of_N (tag_by_ty (type_of_kind k)).
Proof.
  assert (H : forallb (fun k => Z.eqb (kind_tag k) (Z.of_N (tag_by_ty (type_of_kind k)))) all_kinds = true)
    by (vm_compute; reflexivity).
  rewrite forallb_forall in H. intros k Hk. apply Z.eqb_eq. now apply H.
Qed.

(* the slice / array case of getTagType *)
Theorem seq_kinds_ok : forall t,
  existsb (rkind_eqb (kind_of t)) c02_seq_kinds = match t with YSlice _ | YArray _ _ => true | _ => false end.
Proof.
  destruct t; try reflexivity. cbn [kind_of].
  destruct (w =? 8); [destruct sg; reflexivity|]. destruct (w =? 16); [destruct sg; reflexivity|].
  destruct (w =? 32); [destruct sg; reflexivity|]. destruct (w =? 64); destruct sg; reflexivity.
Qed.
Definition elem_tag (et : Z) : Z :=
  match lookup_tag c02_elem_table et with Some r => r | None => c02_elem_default end.
Theorem elem_table_ok : forall et, Z.of_N (arr_of et) = elem_tag (Z.of_N et).
Proof.
  intros et. unfold arr_of, elem_tag. cbn [c02_elem_table lookup_tag existsb orb].
  destruct (N.eqb_spec et idByte) as [->|N1]; [reflexivity|].
  destruct (Z.eqb_spec (Z.of_N et) nbt_TagByte) as [E|_]; [exfalso; apply N1; apply N2Z.inj; exact E|].
  destruct (N.eqb_spec et idInt) as [->|N2]; [reflexivity|].
  destruct (Z.eqb_spec (Z.of_N et) nbt_TagInt) as [E|_]; [exfalso; apply N2; apply N2Z.inj; exact E|].
  destruct (N.eqb_spec et idLong) as [->|N3]; [reflexivity|].
  destruct (Z.eqb_spec (Z.of_N et) nbt_TagLong) as [E|_]; [exfalso; apply N3; apply N2Z.inj; exact E|].
  reflexivity.
Qed.
(* getTagType on a slice: the model's get_tag is the table applied to the tag of the first element (of the
   element type when empty); a slice of Marshalers is c02_marshaler_elems *)
Theorem seq_tag_ok : forall e l,
  Z.of_N (get_tag (YSlice e) (GvList l)) =
  if is_marshaler e then c02_marshaler_elems
  else elem_tag (Z.of_N (match l with x :: _ => get_tag e x | [] => tag_by_ty e end)).
Proof.
  intros e l. rewrite slice_tag. destruct (is_marshaler e); [reflexivity|]. apply elem_table_ok.
Qed.

(* ---------- the writers ---------- *)
Lemma le_map : forall k v, le k v = map (fun i => (v / 256 ^ N.of_nat i) mod 256) (seq 0 k).
Proof.
  induction k as [|k IH]; intros v; [reflexivity|].
  cbn [le]. rewrite IH. cbn [seq map]. f_equal.
  - now rewrite N.div_1_r.
  - rewrite <- seq_shift, map_map. apply map_ext. intros i.
    rewrite N.div_div by (try apply N.pow_nonzero; discriminate).
    replace (N.of_nat (S i)) with (N.succ (N.of_nat i)) by lia. now rewrite N.pow_succ_r'.
Qed.

Lemma byte_of_wrap n K i : (0 <= i)%Z -> (8 * i + 8 <= K)%Z ->
  (((n mod 2 ^ K) / 2 ^ (8 * i)) mod 2 ^ 8 = (n / 2 ^ (8 * i)) mod 2 ^ 8)%Z.
Proof.
  intros Hi HK. rewrite <- !Z.shiftr_div_pow2 by lia. rewrite <- !Z.land_ones by lia.
  apply Z.bits_inj'. intros m Hm. rewrite !Z.land_spec, !Z.shiftr_spec by lia.
  destruct (Z.ltb_spec m 8) as [L|L].
  - rewrite Z.land_spec, (Z.ones_spec_low K) by lia. now rewrite andb_true_r.
  - rewrite (Z.ones_spec_high 8) by lia. now rewrite !andb_false_r.
Qed.

Lemma be_shift k n : map Z.of_N (be k (wrapu (8 * N.of_nat k) n)) =
  map (fun i => wrap_u 8 (Z.shiftr n (8 * Z.of_nat i))) (rev (seq 0 k)).
Proof.
  unfold be. rewrite le_map, <- map_rev, !map_map. apply map_ext_in. intros i Hi.
  apply in_rev in Hi. apply in_seq in Hi. unfold wrapu, wrap_u.
  rewrite N2Z.inj_mod, N2Z.inj_div, N2Z.inj_pow, Z2N.id by (apply Z.mod_pos_bound; apply Z.pow_pos_nonneg; lia).
  rewrite Z.shiftr_div_pow2 by lia.
  replace (Z.of_N 256) with (2 ^ 8)%Z by reflexivity. rewrite <- Z.pow_mul_r by lia.
  replace (Z.of_N (8 * N.of_nat k)) with (8 * Z.of_nat k)%Z by lia.
  replace (Z.of_N (N.of_nat i)) with (Z.of_nat i) by lia.
  apply byte_of_wrap; lia.
Qed.

Theorem writeInt16_ok : forall n, c02_writeInt16 n = map Z.of_N (be 2 (u16 n)).
Proof.
  intros n. unfold u16. change 16 with (8 * N.of_nat 2). rewrite be_shift.
  cbn [seq rev app map]. unfold c02_writeInt16. now rewrite Z.shiftr_0_r.
Qed.
Theorem writeInt32_ok : forall n, c02_writeInt32 n = map Z.of_N (be 4 (u32 n)).
Proof.
  intros n. unfold u32. change 32 with (8 * N.of_nat 4). rewrite be_shift.
  cbn [seq rev app map]. unfold c02_writeInt32. now rewrite Z.shiftr_0_r.
Qed.
Theorem writeInt64_ok : forall n, c02_writeInt64 n = map Z.of_N (be 8 (u64 n)).
Proof.
  intros n. unfold u64. change 64 with (8 * N.of_nat 8). rewrite be_shift.
  cbn [seq rev app map]. unfold c02_writeInt64. now rewrite Z.shiftr_0_r.
Qed.
