(* C02: interpretation lemmas, part 2: the writes per kind and tag, writeTag, the struct field loop, isEmptyValue,
   the struct-tag grammar *)
From Coq Require Import List Arith NArith ZArith Znumtheory Lia Bool ZifyN ZifyNat ZifyBool.
From GoMC Require Import Base.Bytes Base.Dec Base.GoInt Gen.Consts Model.C01 Model.C02 Model.C02_syntax Gen.C02gen
  Proofs.C01 Proofs.C02 Proofs.C02_struct Proofs.C02_expected Proofs.C02_tie.
Import ListNotations.
Open Scope N_scope.

(* ---------- conversions ---------- *)
Lemma mod_mod_pow a k K : (0 <= k <= K)%Z -> ((a mod 2 ^ K) mod 2 ^ k = a mod 2 ^ k)%Z.
Proof.
  intros H. symmetry. apply Zmod_div_mod; try (apply Z.pow_pos_nonneg; lia).
  exists (2 ^ (K - k))%Z. rewrite <- Z.pow_add_r by lia. f_equal. lia.
Qed.
Lemma wrap_s_modk K x k : (0 < K)%Z -> (0 <= k <= K)%Z -> ((wrap_s K x) mod 2 ^ k = x mod 2 ^ k)%Z.
Proof.
  intros HK Hk. rewrite <- (mod_mod_pow (wrap_s K x) k K) by lia. rewrite wrap_s_mod by lia. apply mod_mod_pow. lia.
Qed.
Lemma wrapu_wrap_s k K x : (0 < K)%Z -> (Z.of_N k <= K)%Z -> wrapu k (wrap_s K x) = wrapu k x.
Proof. intros HK Hk. unfold wrapu. rewrite wrap_s_modk by lia. reflexivity. Qed.
Lemma be1' x : be 1 x = [x mod 256].
Proof. reflexivity. Qed.

(* ---------- writeValue: what is written for a scalar ---------- *)
(* the Go value of the source expression: z is the value of the variable (unsigned kinds: 0 .. 2^w-1),
   for the floats the bit pattern *)
Definition src_val (s : wsrc) (sg : bool) (z : Z) : Z :=
  match s with SIntOf => if sg then z else wrap_s 64 z | _ => z end.
Definition run_wop (w : wop) (sg : bool) (z : Z) : list Z :=
  match w with
  | WBool01 => [if (z =? 0)%Z then 0 else 1]%Z
  | WByteOf s => [wrap_u 8 (src_val s sg z)]
  | WInt wr cv s =>
      let x := wrap_s cv (src_val s sg z) in
      if (wr =? 16)%Z then c02_writeInt16 x else if (wr =? 32)%Z then c02_writeInt32 x else c02_writeInt64 x
  end.

Lemma src_mod sg z k : (0 <= k <= 64)%Z -> ((src_val SIntOf sg z) mod 2 ^ k = z mod 2 ^ k)%Z.
Proof. intros H. unfold src_val. destruct sg; [reflexivity|]. apply wrap_s_modk; lia. Qed.

(* TagShort / TagInt / TagLong: the payload the model assigns (C01.payload of the tree enc builds) is what the
   translated clause of `switch tagType` writes through the translated writer *)
Theorem scalar_write_ok : forall sg w z tr, w = 16 \/ w = 32 \/ w = 64 -> int_tree w z = TOk tr ->
  exists wp, assocZ c02_scalar_writes (Z.of_N (tag_id tr)) = Some wp /\
             map Z.of_N (payload tr) = run_wop wp sg z.
Proof.
  intros sg w z tr [-> | [-> | ->]] H; cbn in H; injection H as <-; eexists; (split; [reflexivity|]);
    cbn [payload run_wop Z.eqb Pos.eqb].
  - rewrite writeInt16_ok. f_equal. f_equal. unfold u16, sx16. rewrite wrapu_sx by (try apply wrapu_lt; lia).
    rewrite wrapu_wrap_s by lia. unfold wrapu. now rewrite src_mod by lia.
  - rewrite writeInt32_ok. f_equal. f_equal. unfold u32, sx32. rewrite wrapu_sx by (try apply wrapu_lt; lia).
    rewrite wrapu_wrap_s by lia. unfold wrapu. now rewrite src_mod by lia.
  - rewrite writeInt64_ok. f_equal. f_equal. unfold u64, sx64. rewrite wrapu_sx by (try apply wrapu_lt; lia).
    rewrite wrapu_wrap_s by lia. unfold wrapu. now rewrite src_mod by lia.
Qed.
(* TagFloat / TagDouble (bits: the IEEE pattern the model carries) *)
Theorem float_write_ok : forall b, b < 2 ^ 32 ->
  exists wp, assocZ c02_scalar_writes nbt_TagFloat = Some wp /\ map Z.of_N (payload (TFloat b)) = run_wop wp true (Z.of_N b).
Proof.
  intros b Hb. eexists. split; [reflexivity|]. cbn [payload run_wop Z.eqb Pos.eqb src_val].
  rewrite writeInt32_ok. do 2 f_equal. unfold u32. rewrite wrapu_wrap_s by lia. unfold wrapu.
  rewrite Z.mod_small; [lia|]. change (2 ^ Z.of_N 32)%Z with 4294967296%Z. change (2 ^ 32) with 4294967296 in Hb. lia.
Qed.
Theorem double_write_ok : forall b, b < 2 ^ 64 ->
  exists wp, assocZ c02_scalar_writes nbt_TagDouble = Some wp /\ map Z.of_N (payload (TDouble b)) = run_wop wp true (Z.of_N b).
Proof.
  intros b Hb. eexists. split; [reflexivity|]. cbn [payload run_wop Z.eqb Pos.eqb src_val].
  rewrite writeInt64_ok. do 2 f_equal. unfold u64. rewrite wrapu_wrap_s by lia. unfold wrapu.
  rewrite Z.mod_small; [lia|]. change (2 ^ Z.of_N 64)%Z with 18446744073709551616%Z.
  change (2 ^ 64) with 18446744073709551616 in Hb. lia.
Qed.
(* TagByte: per kind *)
Theorem byte_write_ok : forall sg z,
  exists wp, lookup_kind c02_byte_writes (kind_of (YInt sg 8)) = Some wp /\
             map Z.of_N (payload (TByte (sx8 (u8 z)))) = run_wop wp sg z.
Proof.
  intros sg z. destruct sg; eexists; (split; [reflexivity|]); cbn [payload run_wop src_val];
    rewrite be1'; cbn [map]; f_equal; unfold u8, sx8; rewrite wrapu_sx by (try apply wrapu_lt; lia);
    pose proof (wrapu_lt 8 z) as L; change (2 ^ 8) with 256 in L; rewrite N.mod_small by exact L;
    unfold wrapu, wrap_u; rewrite Z2N.id by (apply Z.mod_pos_bound; reflexivity); reflexivity.
Qed.
Theorem bool_write_ok : forall b : bool,
  exists wp, lookup_kind c02_byte_writes (kind_of YBool) = Some wp /\
             map Z.of_N (payload (TByte (if b then 1 else 0)%Z)) = run_wop wp true (if b then 1 else 0)%Z.
Proof. intros b. eexists. split; [reflexivity|]. destruct b; reflexivity. Qed.

(* ---------- writeTag ---------- *)
Theorem writeTag_ok : forall t name,
  run_writeTag (fun n => c02_writeInt16 (wrap_s 16 n)) c02_writeTag (Z.of_N t) (map Z.of_N name) =
  match write_tag t name with MOk bs => Some (map Z.of_N bs) | _ => None end.
Proof.
  intros t name. unfold write_tag, c02_writeTag, c02_name_max. cbn [run_writeTag]. rewrite map_length.
  unfold lenN. destruct (N.ltb_spec 32767 (N.of_nat (length name))) as [L|L];
    destruct (Z.ltb_spec 32767 (Z.of_nat (length name))) as [L'|L']; try lia; [reflexivity|].
  cbn [map app]. rewrite map_app, app_nil_r. do 2 f_equal. f_equal.
  rewrite writeInt16_ok. do 2 f_equal. unfold u16. rewrite wrapu_wrap_s by lia. unfold wrapu.
  rewrite Z.mod_small; [lia|]. change (2 ^ Z.of_N 16)%Z with 65536%Z. lia.
Qed.
(* the two length limits are the ones of the model *)
Theorem limits_ok : c02_name_max = 32767%Z /\ c02_str_max = 32767%Z.
Proof. split; reflexivity. Qed.

(* ---------- the struct field loop ---------- *)
Lemma zeqb_ofN a b : (Z.of_N a =? Z.of_N b)%Z = (a =? b).
Proof. destruct (N.eqb_spec a b) as [->|H]; [apply Z.eqb_refl|]. apply Z.eqb_neq. lia. Qed.

Theorem field_loop_ok : forall encf encl f fr x vr acc ea, f_skip (fst f) = false ->
  fields_enc encf encl (f :: fr) (x :: vr) acc =
  match run_field c02_field_loop
          (FObs false (f_omit (fst f)) (is_empty (snd f) x) ea (Z.of_N (get_tag (snd f) x)) (f_list (fst f))
                (name_too_long (f_name (fst f)))) 0%Z false false with
  | FSkip => fields_enc encf encl fr vr acc
  | FErr => TErr
  | FWrite typ ov =>
      tbind (if ov then encl (snd f) x else encf (snd f) x)
            (fun tr => fields_enc encf encl fr vr ((f_name (fst f), tr) :: acc))
  end.
Proof.
  intros encf encl f fr x vr acc ea Hs. rewrite fields_enc_cons, Hs.
  unfold c02_field_loop. cbn [run_field fo_nilpath fo_omit fo_empty fo_empty_after fo_tag fo_aslist fo_longname].
  destruct (f_omit (fst f) && is_empty (snd f) x); [reflexivity|].
  change nbt_TagEnd with (Z.of_N idEnd). rewrite zeqb_ofN.
  destruct (get_tag (snd f) x =? idEnd); [reflexivity|].
  cbn [existsb]. change nbt_TagByteArray with (Z.of_N idByteArray). change nbt_TagIntArray with (Z.of_N idIntArray).
  change nbt_TagLongArray with (Z.of_N idLongArray). rewrite !zeqb_ofN, orb_false_r.
  destruct (f_list (fst f)).
  - cbn [andb]. rewrite <- orb_assoc.
    destruct ((get_tag (snd f) x =? idByteArray) || ((get_tag (snd f) x =? idIntArray) || (get_tag (snd f) x =? idLongArray)));
      cbn [negb]; [|reflexivity].
    destruct (name_too_long (f_name (fst f))); reflexivity.
  - cbn [andb]. destruct (name_too_long (f_name (fst f))); reflexivity.
Qed.

(* ---------- isEmptyValue ---------- *)
Definition eval_etest (e : etest) (v : gv) : bool :=
  match e, v with
  | ELen0, GvStr s => match s with [] => true | _ => false end
  | ELen0, GvList l => match l with [] => true | _ => false end
  | ELen0, GvMap m => match m with [] => true | _ => false end
  | ENotBool, GvBool b => negb b
  | EInt0, GvInt z | EUint0, GvInt z => (z =? 0)%Z
  | EFloat0, GvF32 b => (b =? 0) || (b =? 2 ^ 31)
  | EFloat0, GvF64 b => (b =? 0) || (b =? 2 ^ 63)
  | EIsNil, GvPtr None | EIsNil, GvIface None | EIsNil, GvDyn None => true
  | _, _ => false
  end.
Theorem empty_table_ok : forall t v, has_type t v = true ->
  is_empty t v = match lookup_kind c02_empty_table (kind_of t) with Some e => eval_etest e v | None => false end.
Proof.
  intros t v H. destruct t; destruct v; try discriminate; try reflexivity;
    try (destruct o; reflexivity); try (destruct l; reflexivity); try (destruct s; reflexivity); try (destruct m; reflexivity).
  cbn [kind_of is_empty].
  destruct (w =? 8); [destruct sg; reflexivity|]. destruct (w =? 16); [destruct sg; reflexivity|].
  destruct (w =? 32); [destruct sg; reflexivity|]. destruct (w =? 64); destruct sg; reflexivity.
Qed.

(* ---------- the struct-tag grammar ---------- *)
Lemma bs_eqb_eq a : forall b, bs_eqb a b = true -> a = b.
Proof.
  induction a as [|x a IH]; intros [|y b] H; cbn [bs_eqb] in H; try discriminate; auto.
  apply andb_true_iff in H. destruct H as [H1 H2]. apply N.eqb_eq in H1. f_equal; auto.
Qed.
Lemma run_opts_spec : forall pieces o l,
  run_opts c02_tag_opts pieces o l =
  (o || existsb (fun p => bs_eqb p w_omitempty) pieces, l || existsb (fun p => bs_eqb p w_list) pieces).
Proof.
  induction pieces as [|p r IH]; intros o l; cbn [run_opts existsb]; [now rewrite !orb_false_r|].
  unfold c02_tag_opts. change [111; 109; 105; 116; 101; 109; 112; 116; 121] with w_omitempty. change [108; 105; 115; 116] with w_list.
  destruct (bs_eqb p w_omitempty) eqn:E1.
  - apply bs_eqb_eq in E1. subst p. rewrite IH. cbn [bs_eqb w_omitempty w_list N.eqb Pos.eqb andb orb]. now rewrite orb_true_r.
  - destruct (bs_eqb p w_list) eqn:E2; rewrite IH; cbn [orb]; [now rewrite orb_true_r|reflexivity].
Qed.
Theorem tag_parse_ok : forall tag, run_tag c02_tag_skip c02_tag_sep c02_tag_opts tag = parse_tag_model tag.
Proof.
  intros tag. unfold run_tag, parse_tag_model, c02_tag_skip, c02_tag_sep.
  destruct (bs_eqb tag [45]); [reflexivity|]. destruct (split_at 44 tag []) as [|name opts]; [reflexivity|].
  rewrite run_opts_spec. reflexivity.
Qed.
