(* C02: interpretation lemmas, part 3 (structured step lists): Encode's header, the TagList / typed-array / TagString /
   map clauses of writeValue and writeListHeader interpreted as writers ARE C01.payload / C01.doc of the tree the
   model builds, for every content *)
From Coq Require Import List Arith NArith ZArith Znumtheory Lia Bool ZifyN ZifyNat ZifyBool.
From GoMC Require Import Base.Bytes Base.Dec Base.GoInt Gen.Consts Model.C01 Model.C02 Model.C02_syntax Gen.C02gen
  Proofs.C01 Proofs.C02 Proofs.C02_expected Proofs.C02_tie Proofs.C02_tie2.
Import ListNotations.
Open Scope N_scope.

Definition zs (l : list N) : list Z := map Z.of_N l.
Definition w16 (n : Z) : list Z := c02_writeInt16 (wrap_s 16 n).
Definition w32 (n : Z) : list Z := c02_writeInt32 (wrap_s 32 n).
Definition wtag (t : Z) (name : list Z) : option (list Z) := run_writeTag w16 c02_writeTag t name.

Lemma w16_len n : n < 2 ^ 15 -> w16 (Z.of_N n) = zs (be 2 n).
Proof.
  intros H. unfold w16, zs. rewrite writeInt16_ok. do 2 f_equal. unfold u16. rewrite wrapu_wrap_s by lia. unfold wrapu.
  rewrite Z.mod_small; [lia|]. change (2 ^ Z.of_N 16)%Z with 65536%Z. change (2 ^ 15) with 32768 in H. lia.
Qed.
Lemma w32_len n : n < 2 ^ 31 -> w32 (Z.of_N n) = zs (be 4 n).
Proof.
  intros H. unfold w32, zs. rewrite writeInt32_ok. do 2 f_equal. unfold u32. rewrite wrapu_wrap_s by lia. unfold wrapu.
  rewrite Z.mod_small; [lia|]. change (2 ^ Z.of_N 32)%Z with 4294967296%Z. change (2 ^ 31) with 2147483648 in H. lia.
Qed.
Lemma zs_app a b : zs (a ++ b) = zs a ++ zs b.
Proof. apply map_app. Qed.
Lemma zs_len l : Z.of_nat (length (zs l)) = Z.of_N (lenN l).
Proof. unfold zs, lenN. rewrite map_length. lia. Qed.

(* writeListHeader: element type byte, then the int32 length *)
Theorem listheader_ok : forall et n, n < 2 ^ 31 ->
  run_listheader c02_listheader_steps w32 (Z.of_N et) (Z.of_N n) = zs (et :: be 4 n).
Proof.
  intros et n H. unfold run_listheader, c02_listheader_steps. cbn [flat_map app].
  rewrite ?app_nil_r, w32_len by exact H. reflexivity.
Qed.

(* TagList: header, then every element after the mixed-tag test *)
Definition elem_of (t : tag) : Z * option (list Z) := (Z.of_N (tag_id t), Some (zs (payload t))).
Lemma elems_ok et : forall ts, forallb (fun t => tag_id t =? et) ts = true ->
  run_elems [WElemTag; WMixedErr; WMarshalElem] (Z.of_N et) (map elem_of ts) = Some (zs (flat_map payload ts)).
Proof.
  induction ts as [|t ts IH]; intros H; [reflexivity|]. cbn [forallb] in H. apply andb_true_iff in H. destruct H as [H1 H2].
  apply N.eqb_eq in H1. cbn [map run_elems elem_of fst snd run_elem obind]. rewrite H1, Z.eqb_refl.
  cbn [obind]. rewrite IH by exact H2. cbn [obind flat_map]. now rewrite ?app_nil_r, zs_app.
Qed.
Theorem list_steps_ok : forall et ts, lenN ts < 2 ^ 31 -> forallb (fun t => tag_id t =? et) ts = true ->
  run_list c02_list_steps c02_listheader_steps w32 (Z.of_N et) (map elem_of ts) = Some (zs (payload (TList et ts))).
Proof.
  intros et ts Hl Hall. unfold c02_list_steps. cbn [run_list obind]. rewrite map_length.
  replace (Z.of_nat (length ts)) with (Z.of_N (lenN ts)) by (unfold lenN; lia).
  rewrite listheader_ok by exact Hl. rewrite elems_ok by exact Hall. cbn [obind app payload].
  rewrite ?app_nil_r. unfold zs. cbn [map]. now rewrite !map_app.
Qed.
(* a list whose second element has another tag is refused *)
Theorem list_steps_mixed : forall et t1 t2 ts, tag_id t1 = et -> tag_id t2 <> et ->
  run_list c02_list_steps c02_listheader_steps w32 (Z.of_N et) (map elem_of (t1 :: t2 :: ts)) = None.
Proof.
  intros et t1 t2 ts H1 H2. unfold c02_list_steps. cbn [run_list obind map run_elems elem_of fst snd run_elem].
  rewrite H1, Z.eqb_refl. cbn [obind]. destruct (Z.eqb_spec (Z.of_N (tag_id t2)) (Z.of_N et)) as [E|_]; [lia|]. reflexivity.
Qed.

(* typed arrays: int32 length, then the elements *)
Theorem array_steps_ok : forall l : list N, lenN l < 2 ^ 31 ->
  run_array c02_array_steps w32 (Z.of_N (lenN l)) (zs l) = zs (payload (TByteArray l)).
Proof.
  intros l H. unfold run_array, c02_array_steps. cbn [flat_map app payload].
  rewrite ?app_nil_r, w32_len by exact H. now rewrite zs_app.
Qed.
Theorem int_array_steps_ok : forall l : list Z, lenN l < 2 ^ 31 ->
  run_array c02_array_steps w32 (Z.of_N (lenN l)) (flat_map (fun z => w32 z) l) = zs (payload (TIntArray l)).
Proof.
  intros l H. unfold run_array, c02_array_steps. cbn [flat_map app payload]. rewrite ?app_nil_r, w32_len by exact H. rewrite zs_app. f_equal.
  clear H. induction l as [|z l IH]; [reflexivity|]. cbn [flat_map]. rewrite zs_app, <- IH. f_equal.
  unfold w32, zs. rewrite writeInt32_ok. do 2 f_equal. unfold u32. now rewrite wrapu_wrap_s by lia.
Qed.

(* TagString: the limit, the int16 length, the bytes - str_tree of the model *)
Theorem string_steps_ok : forall s,
  run_string c02_string_steps w16 (zs s) =
  match str_tree s with TOk tr => Some (zs (payload tr)) | _ => None end.
Proof.
  intros s. unfold c02_string_steps, c02_str_max, str_tree. cbn [run_string]. rewrite zs_len.
  destruct (N.ltb_spec 32767 (lenN s)) as [L|L]; destruct (Z.ltb_spec 32767 (Z.of_N (lenN s))) as [L'|L']; try lia; [reflexivity|].
  cbn [obind payload]. rewrite ?app_nil_r, w16_len by (change (2 ^ 15) with 32768; lia). now rewrite zs_app.
Qed.

(* a map: per entry the TagEnd refusal, writeTag, the value; then the TagEnd byte *)
Definition entry_of (kv : list N * tag) : list Z * Z * option (list Z) :=
  (zs (fst kv), Z.of_N (tag_id (snd kv)), Some (zs (payload (snd kv)))).
Lemma wtag_ok t k : lenN k <= 32767 -> wtag (Z.of_N t) (zs k) = Some (zs (t :: be 2 (lenN k) ++ k)).
Proof.
  intros H. unfold wtag, w16, zs. rewrite (writeTag_ok t k). unfold write_tag.
  destruct (N.ltb_spec 32767 (lenN k)); [lia|reflexivity].
Qed.
Theorem map_steps_ok : forall es, forallb (fun kv => negb (name_too_long (fst kv))) es = true ->
  run_map c02_map_steps wtag (map entry_of es) = Some (zs (payload (TCompound es))).
Proof.
  intros es H. unfold c02_map_steps. cbn [run_map obind].
  assert (E : run_entries [WKeyName; WValTag; WEndErr nbt_TagEnd; WWriteTag; WMarshalVal] wtag (map entry_of es)
              = Some (zs (flat_map (fun kv => tag_id (snd kv) :: be 2 (lenN (fst kv)) ++ fst kv ++ payload (snd kv)) es))).
  { induction es as [|kv es IH]; [reflexivity|]. cbn [forallb] in H. apply andb_true_iff in H. destruct H as [H1 H2].
    cbn [map run_entries entry_of fst snd run_entry].
    pose proof (tag_id_range (snd kv)) as R.
    destruct (Z.eqb_spec (Z.of_N (tag_id (snd kv))) nbt_TagEnd) as [E|_]; [change nbt_TagEnd with 0%Z in E; lia|].
    apply negb_true_iff in H1. unfold name_too_long in H1. apply N.ltb_ge in H1.
    rewrite wtag_ok by exact H1. cbn [obind]. rewrite IH by exact H2. cbn [obind flat_map].
    rewrite ?app_nil_r. f_equal. rewrite !zs_app. cbn [app]. unfold zs. cbn [map app]. rewrite !map_app.
    now rewrite <- !app_assoc. }
  rewrite E. cbn [obind payload app]. rewrite zs_app. reflexivity.
Qed.

(* Encode: the header by format, after the nil test and before marshal *)
Theorem encode_steps_ok : forall f name tr, name_too_long name = false ->
  run_encode c02_encode_steps false (match f with Net => true | File => false end) wtag
             (Z.of_N (tag_id tr)) (zs name) (Some (zs (payload tr))) [] false
  = Some (zs (doc f name tr)).
Proof.
  intros f name tr Hn. unfold name_too_long in Hn. apply N.ltb_ge in Hn.
  unfold c02_encode_steps. destruct f; cbn [run_encode].
  - rewrite wtag_ok by exact Hn. cbn [app]. f_equal. unfold doc, doc_file, zs. cbn [map app]. rewrite !map_app.
    now rewrite <- !app_assoc.
  - reflexivity.
Qed.
Theorem encode_steps_errors : forall f t name body,
  run_encode c02_encode_steps true f wtag t name body [] false = None /\
  (32767 < Z.of_nat (length name) -> run_encode c02_encode_steps false false wtag t name body [] false = None)%Z /\
  run_encode c02_encode_steps false f wtag t name None [] false = None.
Proof.
  intros f t name body. repeat split.
  - intros H. unfold c02_encode_steps, wtag, c02_writeTag, c02_name_max. cbn [run_encode run_writeTag].
    destruct (Z.ltb_spec 32767 (Z.of_nat (length name))); [reflexivity|lia].
  - unfold c02_encode_steps. cbn [run_encode]. destruct f; [reflexivity|].
    destruct (wtag t name); reflexivity.
Qed.
