(* C02: interpretation lemmas, part 4: the unwrapping loop of getTagType on the model's universe IS get_tag's recursion;
   the translated order of typeFields (sort keys, byIndex.Less, dominantField) IS the model's order / dominance *)
From Coq Require Import List Arith NArith ZArith Lia Bool Sorted ZifyN ZifyNat ZifyBool.
From GoMC Require Import Base.Bytes Base.Dec Gen.Consts Model.C01 Model.C02 Model.C02_syntax Gen.C02gen
  Proofs.C01 Proofs.C02 Proofs.C02_expected Proofs.C02_tie Proofs.C02_emb.
Import ListNotations.
Open Scope N_scope.

(* ---------- getTagType ---------- *)
(* what one statement of the loop does to (static type, value) of the universe *)
Inductive lout : Type :=
| LNext (t : gtype) (v : gv)      (* falls through to the next statement *)
| LCont (t : gtype) (v : gv)      (* continue: next iteration *)
| LBreak (t : gtype) (v : gv)     (* break *)
| LRet (tg : N).                  (* return *)
Definition is_ptr_kind (t : gtype) : bool := match t with YPtr _ | YDyn => true | _ => false end.
Definition run_lstep (s : lstep) (t : gtype) (v : gv) : lout :=
  match s with
  | LIfaceElem =>
      match t, v with
      | YIface, GvIface (Some a) => LRet (any_tag a)      (* v = v.Elem(); continue - on the dynamic value: any_tag *)
      | _, _ => LNext t v
      end
  | LNonPtrBreak => if is_ptr_kind t then LNext t v else LBreak t v
  | LSelfRefBreak => LNext t v                             (* no such value in the universe *)
  | LNilNew =>
      match t, v with
      | YPtr e, GvPtr None => LNext t (GvPtr (Some (zero e)))
      | _, _ => LNext t v                                  (* a nil Value pointer: new(Value), still GvDyn None *)
      end
  | LAskIfaces =>
      match t, v with
      | YDyn, GvDyn (Some tr) => LRet (tag_id tr)          (* Marshaler: TagType() *)
      | YDyn, _ => LRet idEnd                              (* the zero Value *)
      | _, _ => LNext t v
      end
  | LDeref =>
      match t, v with
      | YPtr e, GvPtr (Some x) => LCont e x
      | _, _ => LBreak t v
      end
  end.
Fixpoint run_body (sk : list lstep) (t : gtype) (v : gv) : lout :=
  match sk with
  | [] => LCont t v
  | s :: r => match run_lstep s t v with LNext t' v' => run_body r t' v' | o => o end
  end.
Definition run_pstep (s : pstep) (t : gtype) (v : gv) : option N :=
  match s with
  | PAskIfaces => match t, v with YRaw, GvRaw (Some tr) => Some (tag_id tr) | YRaw, _ => Some idEnd | _, _ => None end
  | PPtrMarshaler => None                                  (* dynbt.Value held by value: not in the universe *)
  | PKindSwitch =>
      Some (if existsb (rkind_eqb (kind_of t)) c02_seq_kinds
            then match t with
                 | YSlice e | YArray _ e =>
                     if is_marshaler e then Z.to_N c02_marshaler_elems
                     else Z.to_N (elem_tag (Z.of_N (match v with GvList (x :: _) => get_tag e x | _ => tag_by_ty e end)))
                 | _ => idEnd
                 end
            else Z.to_N (kind_tag (kind_of t)))
  end.
Fixpoint run_post (sk : list pstep) (t : gtype) (v : gv) : option N :=
  match sk with
  | [] => None
  | s :: r => match run_pstep s t v with Some tg => Some tg | None => run_post r t v end
  end.
Fixpoint run_gettag (loop : list lstep) (post : list pstep) (fuel : nat) (t : gtype) (v : gv) : option N :=
  match fuel with
  | O => None
  | S f =>
      match run_body loop t v with
      | LCont t' v' => run_gettag loop post f t' v'
      | LBreak t' v' => run_post post t' v'
      | LRet tg => Some tg
      | LNext t' v' => run_post post t' v'
      end
  end.

Lemma arr_of_Z et : Z.to_N (elem_tag (Z.of_N et)) = arr_of et.
Proof. rewrite <- elem_table_ok. apply N2Z.id. Qed.
Lemma kind_tag_N t : Z.to_N (kind_tag (kind_of t)) = tag_by_ty t.
Proof. rewrite <- kind_table_ok. apply N2Z.id. Qed.

(* the loop and the statements after it, run on a value of the universe, return get_tag *)
Theorem gettag_loop_ok : forall t v, has_type t v = true ->
  run_gettag c02_loop_steps c02_post_steps (S (ptr_depth t)) t v = Some (get_tag t v).
Proof.
  induction t as [|sg w| | | |e IH|n e IH|e IH|fs IH|e IH| | |] using gtype_ind'; intros v Ht;
    destruct v; try discriminate; unfold c02_loop_steps, c02_post_steps.
  - reflexivity.
  - cbn [ptr_depth run_gettag run_body run_lstep is_ptr_kind run_post run_pstep].
    rewrite (seq_kinds_ok (YInt sg w)). cbn [get_tag]. now rewrite kind_tag_N.
  - reflexivity.
  - reflexivity.
  - reflexivity.
  - cbn [ptr_depth run_gettag run_body run_lstep is_ptr_kind run_post run_pstep kind_of c02_seq_kinds existsb rkind_eqb rkind_idx N.eqb Pos.eqb orb].
    rewrite slice_tag. destruct (is_marshaler e); [reflexivity|]. rewrite arr_of_Z. destruct l; reflexivity.
  - cbn [ptr_depth run_gettag run_body run_lstep is_ptr_kind run_post run_pstep kind_of c02_seq_kinds existsb rkind_eqb rkind_idx N.eqb Pos.eqb orb].
    rewrite get_tag_array, slice_tag. destruct (is_marshaler e); [reflexivity|]. rewrite arr_of_Z. destruct l; reflexivity.
  - reflexivity.
  - reflexivity.
  - (* pointer: nil -> the zero value it would point to; then dereference *)
    cbn [has_type] in Ht. destruct o as [x|].
    + change (run_gettag _ _ (S (ptr_depth (YPtr e))) (YPtr e) (GvPtr (Some x)))
        with (run_gettag c02_loop_steps c02_post_steps (S (ptr_depth e)) e x).
      unfold c02_loop_steps, c02_post_steps in IH. rewrite IH by exact Ht. reflexivity.
    + change (run_gettag _ _ (S (ptr_depth (YPtr e))) (YPtr e) (GvPtr None))
        with (run_gettag c02_loop_steps c02_post_steps (S (ptr_depth e)) e (zero e)).
      unfold c02_loop_steps, c02_post_steps in IH. rewrite IH by exact Ht. reflexivity.
  - destruct o; reflexivity.
  - destruct o; reflexivity.
  - destruct o; reflexivity.
Qed.

(* ---------- the order of typeFields ---------- *)
(* lexicographic order on index sequences *)
Fixpoint path_ltb (a b : list nat) : bool :=
  match a, b with
  | [], [] => false
  | [], _ :: _ => true
  | _ :: _, [] => false
  | x :: a', y :: b' => if (x <? y)%nat then true else if (y <? x)%nat then false else path_ltb a' b'
  end.
Theorem index_less_ok : forall a b, run_index_less c02_index_less a b = path_ltb a b.
Proof.
  induction a as [|x a IH]; intros [|y b]; cbn [run_index_less path_ltb c02_index_less existsb orb]; try reflexivity.
  destruct (Nat.eqb_spec x y) as [->|Hn]; cbn [negb].
  - rewrite Nat.ltb_irrefl. apply IH.
  - destruct (Nat.ltb_spec x y); [reflexivity|]. destruct (Nat.ltb_spec y x); [reflexivity|lia].
Qed.
(* the model's order of candidates for the choice of the dominant field: by name, then depth, tagged first, then
   index sequence *)
Definition tf_key (x : tfield) : list N * list nat * bool := (f_name (tf_fi x), tf_path x, tf_tagged x).
Definition tf_ltb (x y : tfield) : bool :=
  if negb (bs_eqb (f_name (tf_fi x)) (f_name (tf_fi y))) then bs_ltb (f_name (tf_fi x)) (f_name (tf_fi y))
  else if negb (Nat.eqb (length (tf_path x)) (length (tf_path y))) then (length (tf_path x) <? length (tf_path y))%nat
  else if negb (Bool.eqb (tf_tagged x) (tf_tagged y)) then tf_tagged x
  else path_ltb (tf_path x) (tf_path y).
Theorem sort_less_ok : forall x y, run_less c02_sort_keys c02_index_less (tf_key x) (tf_key y) = tf_ltb x y.
Proof. intros x y. unfold c02_sort_keys, tf_key, tf_ltb. cbn [run_less]. now rewrite index_less_ok. Qed.
(* the final order of the table (sort.Sort(byIndex)) is the lexicographic one *)
Theorem final_order_ok : c02_final_order = SKIndex.
Proof. reflexivity. Qed.

(* dominantField on the candidates of ONE name sorted by (depth, tagged first): it returns the entry the model's
   `dominates` selects, and nothing when no candidate dominates *)
Definition rank_le (a b : tfield) : Prop :=
  (length (tf_path a) < length (tf_path b))%nat \/
  (length (tf_path a) = length (tf_path b) /\ (tf_tagged a = true \/ tf_tagged b = false)).
Definition dom_test (g : list tfield) (x : tfield) : bool :=
  forallb (fun y => path_eqb (tf_path x) (tf_path y)
                    || (length (tf_path x) <? length (tf_path y))%nat
                    || (Nat.eqb (length (tf_path x)) (length (tf_path y)) && tf_tagged x && negb (tf_tagged y))) g.
Lemma forallb_ext_in_eq {A} (p q : A -> bool) l : (forall x, In x l -> p x = q x) -> forallb p l = forallb q l.
Proof.
  induction l as [|a l IH]; intros H; [reflexivity|]. cbn [forallb]. rewrite (H a (or_introl eq_refl)), IH; auto.
  intros x Hx. apply H. now right.
Qed.
Lemma dominates_same_name all x : (forall y, In y all -> f_name (tf_fi y) = f_name (tf_fi x)) ->
  dominates all x = dom_test all x.
Proof.
  intros H. unfold dominates, dom_test. apply forallb_ext_in_eq. intros y Hy.
  rewrite (H y Hy), beqb_refl. reflexivity.
Qed.
Theorem dominant_ok : forall g, StronglySorted rank_le g -> NoDup (map tf_path g) ->
  match run_dominant c02_dominant (fun f => length (tf_path f)) tf_tagged g with
  | Some x => In x g /\ dom_test g x = true
  | None => forall x, In x g -> dom_test g x = false
  end.
Proof.
  intros g Hs Hnd. unfold c02_dominant, run_dominant. destruct g as [|f0 [|f1 r]].
  - cbn. intros x [].
  - cbn. split; [now left|]. now rewrite path_eqb_refl.
  - cbn [forallb]. inversion Hs as [|? ? Hs1 Hf0]; subst. inversion Hs1 as [|? ? Hs2 Hf1]; subst.
    inversion Hf0 as [|? ? R01 Hf0r]; subst. cbn [map] in Hnd. inversion Hnd as [|? ? Hn0 Hnd1]; subst.
    inversion Hnd1 as [|? ? Hn1 _]; subst.
    destruct (Nat.eqb_spec (length (tf_path f0)) (length (tf_path f1))) as [Ed|Nd]; cbn [andb].
    + destruct (Bool.eqb (tf_tagged f0) (tf_tagged f1)) eqn:Et; cbn [andb].
      * (* equal rank: nobody dominates *)
        apply eqb_prop in Et. intros x Hx. unfold dom_test. apply not_true_is_false. intros D. rewrite forallb_forall in D.
        assert (Hp : forall a b, In a (f0 :: f1 :: r) -> In b (f0 :: f1 :: r) -> tf_path a = tf_path b -> a = a -> path_eqb (tf_path a) (tf_path b) = true)
          by (intros; now apply path_eqb_spec).
        destruct Hx as [<-|[<-|Hx]].
        -- specialize (D f1 (or_intror (or_introl eq_refl))).
           destruct (path_eqb (tf_path f0) (tf_path f1)) eqn:E; [apply path_eqb_spec in E; apply Hn0; left; congruence|].
           rewrite Ed, Nat.ltb_irrefl, Nat.eqb_refl, Et in D. cbn in D. destruct (tf_tagged f1); discriminate.
        -- specialize (D f0 (or_introl eq_refl)).
           destruct (path_eqb (tf_path f1) (tf_path f0)) eqn:E; [apply path_eqb_spec in E; apply Hn0; left; congruence|].
           rewrite <- Ed, Nat.ltb_irrefl, Nat.eqb_refl, <- Et in D. cbn in D. destruct (tf_tagged f0); discriminate.
        -- specialize (D f0 (or_introl eq_refl)).
           rewrite Forall_forall in Hf0r. destruct (Hf0r x Hx) as [L|[E [T|T]]].
           ++ destruct (path_eqb (tf_path x) (tf_path f0)) eqn:Ep; [apply path_eqb_spec in Ep; apply Hn0; right; apply in_map_iff; exists x; split; [congruence|exact Hx]|].
              destruct (Nat.ltb_spec (length (tf_path x)) (length (tf_path f0))); [lia|].
              destruct (Nat.eqb_spec (length (tf_path x)) (length (tf_path f0))); [lia|]. discriminate.
           ++ destruct (path_eqb (tf_path x) (tf_path f0)) eqn:Ep; [apply path_eqb_spec in Ep; apply Hn0; right; apply in_map_iff; exists x; split; [congruence|exact Hx]|].
              rewrite <- E, Nat.ltb_irrefl, Nat.eqb_refl, T in D. cbn in D. rewrite andb_false_r in D. discriminate.
           ++ destruct (path_eqb (tf_path x) (tf_path f0)) eqn:Ep; [apply path_eqb_spec in Ep; apply Hn0; right; apply in_map_iff; exists x; split; [congruence|exact Hx]|].
              rewrite <- E, Nat.ltb_irrefl, Nat.eqb_refl, T in D. cbn in D. discriminate.
      * (* same depth, different tags: the first is the tagged one and dominates *)
        split; [now left|]. unfold dom_test. apply forallb_forall. intros y Hy.
        apply eqb_false_iff in Et.
        assert (T0 : tf_tagged f0 = true /\ tf_tagged f1 = false).
        { destruct R01 as [L|[_ [T|T]]]; [lia| |]; destruct (tf_tagged f0), (tf_tagged f1); try congruence; auto. }
        destruct T0 as [T0 T1]. destruct Hy as [<-|[<-|Hy]].
        -- now rewrite path_eqb_refl.
        -- rewrite Ed, Nat.eqb_refl, T0, T1. cbn. now rewrite !orb_true_r.
        -- rewrite Forall_forall in Hf0r, Hf1. destruct (Hf0r y Hy) as [L|[E [T|T]]].
           ++ apply Nat.ltb_lt in L. rewrite L. now rewrite orb_true_r.
           ++ destruct (Hf1 y Hy) as [L|[E' [T'|T']]]; [lia|congruence|].
              rewrite E, Nat.eqb_refl, T0, T'. cbn. now rewrite !orb_true_r.
           ++ rewrite E, Nat.eqb_refl, T0, T. cbn. now rewrite !orb_true_r.
    + (* strictly shallower: the first dominates *)
      split; [now left|]. unfold dom_test. apply forallb_forall. intros y Hy.
      assert (L01 : (length (tf_path f0) < length (tf_path f1))%nat) by (destruct R01 as [L|[E _]]; [exact L|contradiction]).
      destruct Hy as [<-|[<-|Hy]].
      * now rewrite path_eqb_refl.
      * apply Nat.ltb_lt in L01. rewrite L01. now rewrite orb_true_r.
      * rewrite Forall_forall in Hf1. destruct (Hf1 y Hy) as [L|[E _]].
        -- assert (L2 : (length (tf_path f0) <? length (tf_path y))%nat = true) by (apply Nat.ltb_lt; lia).
           rewrite L2. now rewrite orb_true_r.
        -- assert (L2 : (length (tf_path f0) <? length (tf_path y))%nat = true) by (apply Nat.ltb_lt; lia).
           rewrite L2. now rewrite orb_true_r.
Qed.
