(* C02: the round trip restated over the TRANSLATED pieces of both sides: what the interpretation of the encoder's tables
   (Gen/C02gen.v, this property) writes for a scalar or a string is read back to the same value by the interpretation
   of the decoder's acceptance table and readers (Gen/C03gen.v, translated by C03 from nbt/decode.go); for sequences
   the bytes of the translated list / array steps are read back to the same tree by the reads of the decoder *)
From Coq Require Import List Arith NArith ZArith Lia Bool ZifyN ZifyNat ZifyBool.
From GoMC Require Import Base.Bytes Base.Dec Base.GoInt Gen.Consts Model.C01 Model.C02 Model.C02_syntax Gen.C02gen
  Proofs.C01 Proofs.C01_dec Proofs.C02_dec Proofs.C02 Proofs.C02_tie Proofs.C02_tie2 Proofs.C02_tie3.
From GoMC Require Model.C03_syntax Gen.C03gen Proofs.C03_tie.
Import ListNotations.
Open Scope N_scope.

Definition ns (l : list Z) : list N := map Z.to_N l.
Lemma ns_zs l : ns (zs l) = l.
Proof. unfold ns, zs. rewrite map_map. rewrite <- (map_id l) at 2. apply map_ext. intros x. apply N2Z.id. Qed.

(* the entry of the decoder's translated acceptance table for a tag *)
Definition dec_entry (tag : Z) : option C03_syntax.sentry :=
  find (fun e => Z.eqb (C03_syntax.se_tag e) tag) C03gen.unmarshal_scalar_table.
(* the Go type of an integer of the universe, as a destination of Model/C01.v *)
Definition gty_of (sg : bool) (w : N) : gty :=
  if w =? 16 then (if sg then GI16 else GU16) else if w =? 32 then (if sg then GI32 else GU32) else (if sg then GI64 else GU64).

(* integers of 16 / 32 / 64 bits, signed and unsigned *)
Theorem int_roundtrip_translated : forall sg w z, w = 16 \/ w = 32 \/ w = 64 -> int_okb sg w z = true ->
  exists wp e, assocZ c02_scalar_writes (Z.of_N (int_tag w)) = Some wp /\ dec_entry (Z.of_N (int_tag w)) = Some e /\
    forall rest, run_flat (C03_syntax.interp_entry e (gty_of sg w)) (ns (run_wop wp sg z) ++ rest) = FOk (XInt z) rest.
Proof.
  intros sg w z Hw Hz.
  assert (Hw0 : 0 < w) by (destruct Hw as [-> | [-> | ->]]; reflexivity).
  pose proof (set_int_rt sg w z Hw0 Hz) as Hset. unfold set_int in Hset. cbn [fst snd] in Hset.
  destruct Hw as [-> | [-> | ->]].
  - destruct (scalar_write_ok sg 16 z _ (or_introl eq_refl) eq_refl) as (wp & Ha & Hb).
    exists wp. eexists. split; [exact Ha|]. split; [reflexivity|]. intros rest. rewrite <- Hb. fold (zs (payload (TShort (sx16 (u16 z))))).
    rewrite ns_zs. cbn [payload].
    destruct sg; cbn [gty_of N.eqb Pos.eqb C03_syntax.interp_entry C03_syntax.kind_of C03_syntax.se_read_first C03_syntax.se_read negb
                       C03_syntax.rd_int C03_syntax.se_cases C03_syntax.find_clause C03_syntax.mem_rk existsb C03_syntax.rk_eqb orb
                       C03_syntax.store_int C03_syntax.se_bits C03_syntax.kind_bits];
      rewrite run_flat_bind by auto with rb; rewrite rd_i16_val by (apply sx_range; [lia|apply wrapu_lt]);
      cbn [run_flat]; unfold sx16, u16 in *; rewrite Hset; reflexivity.
  - destruct (scalar_write_ok sg 32 z _ (or_intror (or_introl eq_refl)) eq_refl) as (wp & Ha & Hb).
    exists wp. eexists. split; [exact Ha|]. split; [reflexivity|]. intros rest. rewrite <- Hb. fold (zs (payload (TInt (sx32 (u32 z))))).
    rewrite ns_zs. cbn [payload].
    destruct sg; cbn [gty_of N.eqb Pos.eqb C03_syntax.interp_entry C03_syntax.kind_of C03_syntax.se_read_first C03_syntax.se_read negb
                       C03_syntax.rd_int C03_syntax.se_cases C03_syntax.find_clause C03_syntax.mem_rk existsb C03_syntax.rk_eqb orb
                       C03_syntax.store_int C03_syntax.se_bits C03_syntax.kind_bits];
      rewrite run_flat_bind by auto with rb; rewrite rd_i32_val by (apply sx_range; [lia|apply wrapu_lt]);
      cbn [run_flat]; unfold sx32, u32 in *; rewrite Hset; reflexivity.
  - destruct (scalar_write_ok sg 64 z _ (or_intror (or_intror eq_refl)) eq_refl) as (wp & Ha & Hb).
    exists wp. eexists. split; [exact Ha|]. split; [reflexivity|]. intros rest. rewrite <- Hb. fold (zs (payload (TLong (sx64 (u64 z))))).
    rewrite ns_zs. cbn [payload].
    destruct sg; cbn [gty_of N.eqb Pos.eqb C03_syntax.interp_entry C03_syntax.kind_of C03_syntax.se_read_first C03_syntax.se_read negb
                       C03_syntax.rd_int C03_syntax.se_cases C03_syntax.find_clause C03_syntax.mem_rk existsb C03_syntax.rk_eqb orb
                       C03_syntax.store_int C03_syntax.se_bits C03_syntax.kind_bits];
      rewrite run_flat_bind by auto with rb; rewrite rd_i64_val by (apply sx_range; [lia|apply wrapu_lt]);
      cbn [run_flat]; unfold sx64, u64 in *; rewrite Hset; reflexivity.
Qed.

(* strings: the translated TagString clause against the translated readString and the string entry of the table *)
Theorem string_roundtrip_translated : forall s bs, run_string c02_string_steps w16 (zs s) = Some bs ->
  exists e, dec_entry nbt_TagString = Some e /\
    forall rest, run_flat (C03_syntax.interp_entry e GStr) (ns bs ++ rest) = FOk (XStr s) rest.
Proof.
  intros s bs H. rewrite string_steps_ok in H. unfold str_tree in H.
  destruct (N.ltb_spec 32767 (lenN s)) as [|L]; [discriminate|].
  assert (E : bs = zs (payload (TString s))) by congruence. clear H. subst bs.
  eexists. split; [reflexivity|]. intros rest. rewrite ns_zs. cbn [payload].
  cbn [C03_syntax.interp_entry C03_syntax.kind_of C03_syntax.se_read_first C03_syntax.se_read negb C03_syntax.se_cases
       C03_syntax.find_clause C03_syntax.mem_rk existsb C03_syntax.rk_eqb orb].
  rewrite run_flat_bind by auto with rb. rewrite <- app_assoc, rd_string_spec by (change (2 ^ 15) with 32768; lia).
  reflexivity.
Qed.

(* sequences: what the translated list / array steps write is read back, by the reads of the decoder (whose opening
   steps are C03's translated ones), to the same tree, anything following left unread *)
Theorem list_roundtrip_translated : forall et ts bs rest fuel,
  wf (TList et ts) -> nest_ok (TList et ts) -> (length (payload (TList et ts)) < fuel)%nat ->
  run_list c02_list_steps c02_listheader_steps w32 (Z.of_N et) (map elem_of ts) = Some bs ->
  run_flat (dec_tree fuel idList) (ns bs ++ rest) = FOk (TList et ts) rest.
Proof.
  intros et ts bs rest fuel W Hd Hf H. pose proof (wf_list _ _ W) as (_ & _ & Hl & Hall).
  rewrite list_steps_ok in H.
  - assert (E : bs = zs (payload (TList et ts))) by congruence. clear H. subst bs. rewrite ns_zs. now apply (dec_tree_conforms (TList et ts)).
  - exact Hl.
  - apply forallb_forall. intros x Hx. rewrite Forall_forall in Hall. apply N.eqb_eq. now apply Hall.
Qed.
Theorem array_roundtrip_translated : forall l rest fuel,
  wf (TByteArray l) -> (length (payload (TByteArray l)) < fuel)%nat ->
  run_flat (dec_tree fuel idByteArray) (ns (run_array c02_array_steps w32 (Z.of_N (lenN l)) (zs l)) ++ rest) = FOk (TByteArray l) rest.
Proof.
  intros l rest fuel W Hf. assert (Hl : lenN l < 2 ^ 31).
  { unfold wf in W. cbn [wfb] in W. apply andb_true_iff in W. now apply N.ltb_lt. }
  rewrite array_steps_ok by exact Hl. rewrite ns_zs. apply (dec_tree_conforms (TByteArray l)); auto.
  unfold nest_ok. cbn. lia.
Qed.
