(* C02: typeFields' breadth-first collection, interpreted.  With the index sequence of a field built as a FRESH COPY of its
   parent's (IdxFreshCopy) the collection is the pure level-by-level traversal bfs_pure, a permutation of the model's
   depth-first cands_l - so the table is the same whatever the order.  With `append(f.index, i)` (IdxAppendParent) the
   children of one struct may share their parent's backing array: modelled with an explicit heap of arrays. *)
From Coq Require Import List Arith NArith ZArith Lia Bool Permutation Sorted ZifyN ZifyNat ZifyBool.
From GoMC Require Import Base.Bytes Base.Dec Gen.Consts Model.C01 Model.C02 Model.C02_syntax Gen.C02gen
  Proofs.C02 Proofs.C02_emb Proofs.C02_tie4.
Import ListNotations.
Open Scope nat_scope.

(* ---------- the pure traversal ---------- *)
(* the fields of one struct reached through index sequence pre: the candidates it contributes, the embedded structs queued *)
Fixpoint level_scan (pre : list nat) (j : nat) (ds : list dfield) : list tfield * list (list nat * list dfield) :=
  match ds with
  | [] => ([], [])
  | d :: r =>
      let '(cs, qs) := level_scan pre (S j) r in
      match d with
      | DF fi tg t => if f_skip fi then (cs, qs) else (TF (pre ++ [j]) fi tg t :: cs, qs)
      | DE _ ds' => (cs, (pre ++ [j], ds') :: qs)
      end
  end.
Fixpoint bfs_pure (fuel : nat) (q : list (list nat * list dfield)) : list tfield :=
  match fuel with
  | O => []
  | S f =>
      match q with
      | [] => []
      | _ => let lv := map (fun pd => level_scan (fst pd) O (snd pd)) q in
             flat_map fst lv ++ bfs_pure f (flat_map snd lv)
      end
  end.
Fixpoint ddepth (d : dfield) : nat :=
  match d with
  | DF _ _ _ => O
  | DE _ ds => S ((fix go (ds : list dfield) : nat := match ds with [] => O | x :: r => Nat.max (ddepth x) (go r) end) ds)
  end.
Fixpoint ldepth (ds : list dfield) : nat := match ds with [] => O | x :: r => Nat.max (ddepth x) (ldepth r) end.
Definition collect_pure (ds : list dfield) : list tfield := bfs_pure (S (ldepth ds)) [([], ds)].

(* ---------- the traversal with Go slices: append may write in place ---------- *)
Record sl : Type := SL { sl_arr : nat; sl_len : nat }.
Definition heap := list (list nat).
Definition hread (h : heap) (s : sl) : list nat := firstn (sl_len s) (nth (sl_arr s) h []).
Fixpoint set_at (l : list nat) (i x : nat) : list nat :=
  match l, i with
  | [], _ => []
  | _ :: r, O => x :: r
  | y :: r, S i' => y :: set_at r i' x
  end.
Fixpoint hset (h : heap) (a : nat) (i x : nat) : heap :=
  match h, a with
  | [], _ => []
  | l :: r, O => set_at l i x :: r
  | l :: r, S a' => l :: hset r a' i x
  end.
(* append(s, x): in place when the capacity allows, else a new array of doubled capacity *)
Definition happend (h : heap) (s : sl) (x : nat) : heap * sl :=
  let a := nth (sl_arr s) h [] in
  if sl_len s <? length a then (hset h (sl_arr s) (sl_len s) x, SL (sl_arr s) (S (sl_len s)))
  else let cap := if Nat.eqb (sl_len s) 0 then 1 else 2 * sl_len s in
       (h ++ [firstn (sl_len s) a ++ [x] ++ repeat 0 (cap - sl_len s - 1)], SL (length h) (S (sl_len s))).
Definition acand : Type := sl * finfo * bool * gtype.
Fixpoint level_scan_a (h : heap) (ps : sl) (j : nat) (ds : list dfield) : heap * list acand * list (sl * list dfield) :=
  match ds with
  | [] => (h, [], [])
  | d :: r =>
      match d with
      | DF fi tg t =>
          if f_skip fi then level_scan_a h ps (S j) r
          else let '(h1, ix) := happend h ps j in
               let '(h2, cs, qs) := level_scan_a h1 ps (S j) r in (h2, (ix, fi, tg, t) :: cs, qs)
      | DE _ ds' =>
          let '(h1, ix) := happend h ps j in
          let '(h2, cs, qs) := level_scan_a h1 ps (S j) r in (h2, cs, (ix, ds') :: qs)
      end
  end.
Fixpoint level_all_a (h : heap) (q : list (sl * list dfield)) : heap * list acand * list (sl * list dfield) :=
  match q with
  | [] => (h, [], [])
  | pd :: r =>
      let '(h1, cs, qs) := level_scan_a h (fst pd) O (snd pd) in
      let '(h2, cs', qs') := level_all_a h1 r in (h2, cs ++ cs', qs ++ qs')
  end.
Fixpoint bfs_alias (fuel : nat) (h : heap) (q : list (sl * list dfield)) : heap * list acand :=
  match fuel with
  | O => (h, [])
  | S f =>
      match q with
      | [] => (h, [])
      | _ => let '(h1, cs, qs) := level_all_a h q in
             let '(h2, cs') := bfs_alias f h1 qs in (h2, cs ++ cs')
      end
  end.
Definition collect_alias (ds : list dfield) : list tfield :=
  let '(h, cs) := bfs_alias (S (ldepth ds)) [[]] [(SL 0 0, ds)] in
  map (fun c : acand => let '(ix, fi, tg, t) := c in TF (hread h ix) fi tg t) cs.

(* the collection as the translated steps say *)
Definition run_collect (sk : list cstep) (ds : list dfield) : list tfield :=
  match index_mode sk with
  | Some IdxFreshCopy => collect_pure ds
  | Some IdxAppendParent => collect_alias ds
  | None => []
  end.
Theorem collect_steps_ok : forall ds, run_collect c02_collect_steps ds = collect_pure ds.
Proof. reflexivity. Qed.

(* ---------- breadth first = depth first, as multisets ---------- *)
Lemma level_scan_perm : forall ds pre j,
  Permutation (cands_l pre j ds)
              (fst (level_scan pre j ds) ++ flat_map (fun pd => cands_l (fst pd) O (snd pd)) (snd (level_scan pre j ds))).
Proof.
  induction ds as [|d r IH]; intros pre j; [constructor|].
  cbn [cands_l level_scan]. specialize (IH pre (S j)). destruct (level_scan pre (S j) r) as [cs qs] eqn:E. cbn [fst snd] in IH.
  destruct d as [fi tg t|ptr ds'].
  - cbn [cands_f]. destruct (f_skip fi); cbn [fst snd app]; [exact IH|]. constructor. exact IH.
  - rewrite cands_f_DE. cbn [fst snd flat_map]. rewrite (Permutation_app_comm cs), <- app_assoc.
    apply Permutation_app_head. rewrite Permutation_app_comm. exact IH.
Qed.

Definition qdepth (q : list (list nat * list dfield)) : nat := fold_right (fun pd m => Nat.max (ldepth (snd pd)) m) O q.
Lemma level_scan_depth : forall ds pre j, ldepth ds = O -> snd (level_scan pre j ds) = [].
Proof.
  induction ds as [|d r IH]; intros pre j H; [reflexivity|]. cbn [ldepth] in H. cbn [level_scan].
  rewrite (surjective_pairing (level_scan pre (S j) r)). rewrite IH by lia.
  destruct d; [destruct (f_skip fi); reflexivity|cbn [ddepth] in H; lia].
Qed.
Lemma level_scan_qdepth : forall ds pre j, S (qdepth (snd (level_scan pre j ds))) <= ldepth ds \/ snd (level_scan pre j ds) = [].
Proof.
  induction ds as [|d r IH]; intros pre j; [now right|]. cbn [level_scan ldepth].
  destruct (IH pre (S j)) as [H|H]; destruct (level_scan pre (S j) r) as [cs qs]; cbn [snd] in *.
  - destruct d as [fi tg t|ptr ds']; [destruct (f_skip fi); cbn [snd ddepth]; left; lia|].
    left. cbn [snd qdepth fold_right ddepth].
    change ((fix go (ds : list dfield) : nat := match ds with [] => O | x :: r0 => Nat.max (ddepth x) (go r0) end) ds') with (ldepth ds').
    fold (qdepth qs). lia.
  - subst qs. destruct d as [fi tg t|ptr ds']; [destruct (f_skip fi); now right|].
    left. cbn [snd qdepth fold_right ddepth].
    change ((fix go (ds : list dfield) : nat := match ds with [] => O | x :: r0 => Nat.max (ddepth x) (go r0) end) ds') with (ldepth ds').
    lia.
Qed.

Lemma flat_cands_app q1 q2 :
  flat_map (fun pd : list nat * list dfield => cands_l (fst pd) O (snd pd)) (q1 ++ q2) =
  flat_map (fun pd => cands_l (fst pd) O (snd pd)) q1 ++ flat_map (fun pd => cands_l (fst pd) O (snd pd)) q2.
Proof. apply flat_map_app. Qed.

Lemma levels_perm : forall q,
  Permutation (flat_map (fun pd => cands_l (fst pd) O (snd pd)) q)
              (flat_map fst (map (fun pd => level_scan (fst pd) O (snd pd)) q) ++
               flat_map (fun pd => cands_l (fst pd) O (snd pd)) (flat_map snd (map (fun pd => level_scan (fst pd) O (snd pd)) q))).
Proof.
  induction q as [|pd q IH]; [constructor|]. cbn [flat_map map]. rewrite flat_cands_app.
  rewrite (level_scan_perm (snd pd) (fst pd) O).
  set (A := fst (level_scan (fst pd) O (snd pd))). set (B := flat_map _ (snd (level_scan (fst pd) O (snd pd)))).
  rewrite IH. rewrite <- !app_assoc. apply Permutation_app_head.
  rewrite !app_assoc. apply Permutation_app_tail. apply Permutation_app_comm.
Qed.
Lemma levels_qdepth : forall q, qdepth (flat_map snd (map (fun pd => level_scan (fst pd) O (snd pd)) q)) < qdepth q \/
  flat_map snd (map (fun pd => level_scan (fst pd) O (snd pd)) q) = [].
Proof.
  induction q as [|pd q IH]; [now right|]. cbn [map flat_map qdepth fold_right]. fold (qdepth q).
  assert (Happ : forall a b, qdepth (a ++ b) = Nat.max (qdepth a) (qdepth b)).
  { induction a as [|x a IHa]; intros b; cbn [app qdepth fold_right]; [reflexivity|]. fold (qdepth (a ++ b)). fold (qdepth a). rewrite IHa. lia. }
  rewrite Happ. destruct (level_scan_qdepth (snd pd) (fst pd) O) as [H1|H1]; destruct IH as [H2|H2].
  - left. lia.
  - left. rewrite H2. cbn [qdepth fold_right]. lia.
  - rewrite H1. cbn [app qdepth fold_right]. left. lia.
  - right. now rewrite H1, H2.
Qed.

Theorem bfs_perm : forall fuel q, qdepth q < fuel ->
  Permutation (bfs_pure fuel q) (flat_map (fun pd => cands_l (fst pd) O (snd pd)) q).
Proof.
  induction fuel as [|f IH]; intros q Hq; [lia|]. destruct q as [|pd q]; [constructor|].
  cbn [bfs_pure]. rewrite (levels_perm (pd :: q)). apply Permutation_app_head.
  destruct (levels_qdepth (pd :: q)) as [H|H].
  - apply IH. lia.
  - rewrite H. destruct f; constructor.
Qed.
Theorem collect_perm : forall ds, Permutation (collect_pure ds) (cands_l [] O ds).
Proof.
  intros ds. unfold collect_pure. rewrite bfs_perm.
  - cbn [flat_map fst snd]. now rewrite app_nil_r.
  - cbn [qdepth fold_right snd]. lia.
Qed.

(* dominance does not depend on the order of the candidates: the fields kept from the breadth-first collection are, as a
   multiset, the model's table *)
Lemma dominates_perm a b x : Permutation a b -> dominates a x = dominates b x.
Proof.
  intros H. unfold dominates. induction H as [|y a b H IH|y z a|a b c H1 IH1 H2 IH2]; cbn [forallb]; try congruence.
  - rewrite andb_assoc, (andb_comm (_ || _ || _ || _)), <- andb_assoc. reflexivity.
Qed.
Lemma filter_perm {A} (p : A -> bool) a b : Permutation a b -> Permutation (filter p a) (filter p b).
Proof.
  induction 1 as [|y a b H IH|y z a|a b c H1 IH1 H2 IH2]; cbn [filter]; try constructor; auto.
  - destruct (p y); [constructor|]; exact IH.
  - destruct (p y), (p z); try constructor; try apply Permutation_refl. 
  - eapply Permutation_trans; eauto.
Qed.
Theorem collect_table_perm : forall ds,
  Permutation (filter (dominates (run_collect c02_collect_steps ds)) (run_collect c02_collect_steps ds)) (type_fields ds).
Proof.
  intros ds. rewrite collect_steps_ok. unfold type_fields. pose proof (collect_perm ds) as H.
  rewrite (filter_ext _ (dominates (cands_l [] O ds))) by (intros x; now apply dominates_perm).
  now apply filter_perm.
Qed.

(* ---------- the final order: sort.Sort(byIndex) ---------- *)
Definition path_lt (a b : tfield) : Prop := path_ltb (tf_path a) (tf_path b) = true.
Lemma path_ltb_irrefl p : path_ltb p p = false.
Proof. induction p as [|x p IH]; [reflexivity|]. cbn [path_ltb]. now rewrite Nat.ltb_irrefl. Qed.
Lemma path_ltb_trans : forall a b c, path_ltb a b = true -> path_ltb b c = true -> path_ltb a c = true.
Proof.
  induction a as [|x a IH]; intros [|y b] [|z c] H1 H2; cbn [path_ltb] in *; try discriminate; auto.
  destruct (Nat.ltb_spec x y); destruct (Nat.ltb_spec y z); destruct (Nat.ltb_spec x z); auto; try lia;
    destruct (Nat.ltb_spec y x); destruct (Nat.ltb_spec z y); destruct (Nat.ltb_spec z x); try discriminate; try lia; eauto.
Qed.
Lemma path_ltb_app pre a b : path_ltb (pre ++ a) (pre ++ b) = path_ltb a b.
Proof. induction pre as [|x pre IH]; [reflexivity|]. cbn [app path_ltb]. now rewrite Nat.ltb_irrefl. Qed.

(* a strictly sorted list is determined by its elements *)
Lemma sorted_perm_unique {A} (lt : A -> A -> Prop) : (forall x, ~ lt x x) -> (forall x y z, lt x y -> lt y z -> lt x z) ->
  forall l1 l2, StronglySorted lt l1 -> StronglySorted lt l2 -> Permutation l1 l2 -> l1 = l2.
Proof.
  intros Hir Htr. induction l1 as [|x l1 IH]; intros l2 S1 S2 P.
  - apply Permutation_nil in P. now subst.
  - destruct l2 as [|y l2]; [apply Permutation_sym, Permutation_nil in P; discriminate|].
    inversion S1 as [|? ? S1' F1]; subst. inversion S2 as [|? ? S2' F2]; subst.
    assert (E : x = y).
    { assert (Hx : In x (y :: l2)) by (apply (Permutation_in _ P); now left).
      assert (Hy : In y (x :: l1)) by (apply (Permutation_in _ (Permutation_sym P)); now left).
      destruct Hx as [->|Hx]; [reflexivity|]. destruct Hy as [->|Hy]; [reflexivity|].
      rewrite Forall_forall in F1, F2. exfalso. apply (Hir x). apply (Htr x y x); [apply F1, Hy|apply F2, Hx]. }
    subst y. f_equal. apply IH; auto. now apply Permutation_cons_inv in P.
Qed.

(* the depth-first collection is in the order of byIndex *)
Definition under (pre : list nat) (lo : nat) (tf : tfield) : Prop := exists k q, tf_path tf = pre ++ (lo + k) :: q.
Definition sorted_f (d : dfield) : Prop := forall pre i, StronglySorted path_lt (cands_f pre i d).
Lemma sorted_list ds : Forall sorted_f ds -> forall pre j, StronglySorted path_lt (cands_l pre j ds).
Proof.
  induction 1 as [|d r Hd Hr IH]; intros pre j; [constructor|]. cbn [cands_l].
  assert (G : forall (a b : list tfield), StronglySorted path_lt a -> StronglySorted path_lt b ->
              (forall x y, In x a -> In y b -> path_lt x y) -> StronglySorted path_lt (a ++ b)).
  { induction a as [|x a IHa]; intros b Sa Sb Hab; [exact Sb|]. inversion Sa as [|? ? Sa' Fa]; subst. cbn [app]. constructor.
    - apply IHa; auto. intros u v Hu Hv. apply Hab; [now right|exact Hv].
    - apply Forall_app. split; [exact Fa|]. apply Forall_forall. intros v Hv. apply Hab; [now left|exact Hv]. }
  apply G; [apply Hd|apply IH|]. intros x y Hx Hy.
  destruct (paths_all d pre j) as [_ S1]. destruct (paths_list r ltac:(apply Forall_forall; intros; apply paths_all) pre (S j)) as [_ S2].
  destruct (S1 x Hx) as (q1 & E1). destruct (S2 y Hy) as (k & q2 & E2). unfold path_lt. rewrite E1, E2, path_ltb_app.
  cbn [path_ltb]. assert (L : (j <? S j + k) = true) by (apply Nat.ltb_lt; lia). now rewrite L.
Qed.
Lemma sorted_all : forall d, sorted_f d.
Proof.
  induction d as [fi tg t|ptr ds IH] using dfield_ind'; intros pre i.
  - cbn [cands_f]. destruct (f_skip fi); repeat constructor.
  - rewrite cands_f_DE. now apply sorted_list.
Qed.
Lemma sorted_filter {A} (lt : A -> A -> Prop) p l : StronglySorted lt l -> StronglySorted lt (filter p l).
Proof.
  induction 1 as [|x l S IH F]; cbn [filter]; [constructor|]. destruct (p x); [|exact IH]. constructor; [exact IH|].
  rewrite Forall_forall in *. intros y Hy. apply filter_In in Hy. apply F, Hy.
Qed.
Theorem type_fields_sorted ds : StronglySorted path_lt (type_fields ds).
Proof. unfold type_fields. apply sorted_filter. apply sorted_list. apply Forall_forall. intros d _. apply sorted_all. Qed.

(* THE FINAL LIST: whatever list typeFields ends with - the dominant fields of the breadth-first collection, put in the
   order of the translated byIndex.Less by sort.Sort - IS the model's table type_fields *)
Theorem collect_final : forall ds l,
  Permutation l (filter (dominates (run_collect c02_collect_steps ds)) (run_collect c02_collect_steps ds)) ->
  StronglySorted (fun a b => run_index_less c02_index_less (tf_path a) (tf_path b) = true) l ->
  l = type_fields ds.
Proof.
  intros ds l P S. apply (sorted_perm_unique path_lt).
  - intros x H. unfold path_lt in H. now rewrite path_ltb_irrefl in H.
  - intros x y z. unfold path_lt. apply path_ltb_trans.
  - clear P. induction S as [|x l S IH F]; constructor; auto. rewrite Forall_forall in *. intros y Hy.
    unfold path_lt. rewrite <- index_less_ok. now apply F.
  - apply type_fields_sorted.
  - eapply Permutation_trans; [exact P|apply collect_table_perm].
Qed.

(* with append(f.index, i) the fields of a struct embedded three levels deep share one backing array: the depth-3
   example of Props (two siblings X, Y) gets ONE index sequence for both *)
Definition alias_ex : list dfield :=
  [ DE false [ DE false [ DE false [ DF (FInfo [88%N] false false false) false (YInt true 32);
                                     DF (FInfo [89%N] false false false) false (YInt true 32) ] ] ] ].
Example alias_sensitive :
  map tf_path (run_collect c02_collect_steps alias_ex) = [[0;0;0;0]; [0;0;0;1]] /\
  map tf_path (run_collect [CIndex IdxAppendParent] alias_ex) = [[0;0;0;1]; [0;0;0;1]].
Proof. split; vm_compute; reflexivity. Qed.
