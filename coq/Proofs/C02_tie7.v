(* C02: the elements of the typed arrays - typed slices, []any (byte arrays), and the int / long element loop - the
   translated tables and statements interpreted ARE the model's byte_elem / wide_elem *)
From Coq Require Import List Arith NArith ZArith Znumtheory Lia Bool ZifyN ZifyNat ZifyBool.
From GoMC Require Import Base.Bytes Base.Dec Base.GoInt Gen.Consts Model.C01 Model.C02 Model.C02_syntax Gen.C02gen
  Proofs.C01 Proofs.C02 Proofs.C02_tie Proofs.C02_tie2.
Import ListNotations.
Open Scope N_scope.

(* the reflect.Kind of a dynamic value held by an interface *)
Definition kind_of_aval (a : aval) : rkind :=
  match a with
  | AByte _ => KInt8 | AShort _ => KInt16 | AInt _ => KInt32 | ALong _ => KInt64
  | AFloat _ => KFloat32 | ADouble _ => KFloat64 | AString _ => KString
  | ABytes _ | AList _ | AInts _ | ALongs _ => KSlice
  | AMap _ => KMap
  end.
(* after `for elem.Kind() == Interface { elem = elem.Elem() }`: the kind and the integer the element holds
   (None: the invalid Value of a nil interface) *)
Definition unwrapped (e : gtype) (x : gv) : option (rkind * bool * Z) :=
  match e, x with
  | YIface, GvIface (Some a) =>
      Some (kind_of_aval a, true, match a with AByte v | AShort v | AInt v | ALong v => v | _ => 0%Z end)
  | YIface, _ => None
  | YBool, GvBool b => Some (KBool, true, if b then 1 else 0)%Z
  | YInt sg _, GvInt z => Some (kind_of e, sg, z)
  | _, _ => Some (kind_of e, true, 0%Z)
  end.
Definition first_byte (l : list Z) : Z := match l with b :: _ => b | [] => 0%Z end.

(* TagByteArray: a typed slice by its element kind; anything else through the []any branch by the dynamic kind *)
Definition run_byte_elem (e : gtype) (x : gv) : option Z :=
  match lookup_kind c02_bytearray_typed (kind_of e), unwrapped e x with
  | Some wp, Some (_, sg, z) => Some (first_byte (run_wop wp sg z))
  | Some _, None => None
  | None, Some (k, sg, z) =>
      match lookup_kind c02_bytearray_any k with
      | Some wp => Some (first_byte (run_wop wp sg z))
      | None => None                                   (* "value of kind ... is not allowed" *)
      end
  | None, None => None
  end.
Lemma u8_Z z : Z.of_N (u8 z) = wrap_u 8 z.
Proof. unfold u8, wrapu, wrap_u. rewrite Z2N.id; [reflexivity|]. apply Z.mod_pos_bound. reflexivity. Qed.
Theorem byte_elem_ok : forall e x, has_type e x = true -> (forall sg w, e = YInt sg w -> w = 8) ->
  option_map Z.of_N (byte_elem e x) = run_byte_elem e x.
Proof.
  intros e x Ht Hw. destruct e; destruct x; try discriminate; try reflexivity.
  - destruct b; reflexivity.
  - rewrite (Hw sg w eq_refl). destruct sg; cbn [byte_elem option_map]; unfold run_byte_elem; cbn; now rewrite u8_Z.
  - destruct o as [a|]; [|reflexivity]. destruct a; try reflexivity.
    cbn [byte_elem option_map]. unfold run_byte_elem. cbn. now rewrite u8_Z.
Qed.

(* TagIntArray / TagLongArray: the element loop *)
Fixpoint run_wide (sk : list astep) (arr : Z) (k : rkind) (sg : bool) (z : Z) (want v : Z) : option Z :=
  match sk with
  | [] => None
  | s :: r =>
      match s with
      | AUnwrapIface => run_wide r arr k sg z want v
      | AWant d ifa tw => run_wide r arr k sg z (if Z.eqb arr ifa then tw else d) v
      | ACheckTag => if Z.eqb (kind_tag k) want then run_wide r arr k sg z want v else None
      | AValue tbl =>
          run_wide r arr k sg z want (match lookup_kind tbl k with Some SUint => wrap_s 64 z | Some _ => z | None => 0%Z end)
      | AWrite tbl => match assocZ tbl arr with Some w => Some (wrap_s w v) | None => None end
      end
  end.
Definition run_wide_elem (arr : Z) (e : gtype) (x : gv) : option Z :=
  match unwrapped e x with
  | Some (k, sg, z) => run_wide c02_wide_steps arr k sg z 0%Z 0%Z
  | None => None                                        (* !elem.IsValid() *)
  end.
Lemma sx_wrap_s w z : 0 < w -> sx w (wrapu w z) = wrap_s (Z.of_N w) z.
Proof.
  intros Hw. rewrite <- (wrapu_wrap_s w (Z.of_N w) z) by lia. apply sx_wrapu; [exact Hw|].
  unfold in_sw. apply wrap_s_range. lia.
Qed.
Lemma wrap_s_wrap_s k K z : (0 < k <= K)%Z -> wrap_s k (wrap_s K z) = wrap_s k z.
Proof.
  intros H. unfold wrap_s at 1 3. rewrite (Zplus_mod (wrap_s K z)), wrap_s_modk by lia. now rewrite <- Zplus_mod.
Qed.
Theorem wide_elem_ok : forall want e x, has_type e x = true ->
  (want = idInt \/ want = idLong) -> (e = YIface \/ exists sg w, e = YInt sg w /\ (w = 32 \/ w = 64)) ->
  wide_elem want e x = run_wide_elem (Z.of_N (arr_of want)) e x.
Proof.
  intros want e x Ht Hwant He. destruct He as [->|(sg & w & -> & Hw)].
  - destruct x as [| | | | | | | | |o| |]; try discriminate. destruct o as [a|]; [|reflexivity].
    cbn [has_type] in Ht.
    destruct Hwant as [->| ->]; destruct a; try reflexivity; cbn [any_ok] in Ht; apply in_swb_spec in Ht;
      cbn [wide_elem]; unfold run_wide_elem; cbn.
    + f_equal. symmetry. apply wrap_s_id; [lia|]. unfold in_sw in Ht. cbn in Ht. lia.
    + f_equal. symmetry. apply wrap_s_id; [lia|]. unfold in_sw in Ht. cbn in Ht. lia.
  - destruct x; try discriminate. clear Ht.
    destruct Hwant as [->| ->]; destruct Hw as [->| ->]; destruct sg; cbn [wide_elem]; unfold run_wide_elem; cbn;
      try reflexivity; unfold sx32, u32, sx64, u64; f_equal.
    + apply (sx_wrap_s 32). lia.
    + rewrite (sx_wrap_s 32) by lia. change (Z.of_N 32) with 32%Z. symmetry. apply wrap_s_wrap_s. lia.
    + apply (sx_wrap_s 64). lia.
    + rewrite (sx_wrap_s 64) by lia. change (Z.of_N 64) with 64%Z. symmetry. apply wrap_s_wrap_s. lia.
Qed.
