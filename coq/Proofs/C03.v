(* C03: totality of the NBT decoders on ARBITRARY bytes: with fuel above the input length the model never
   reaches Crash or NoFuel - every loop iteration consumes at least one byte *)
From Coq Require Import List Arith NArith ZArith Lia Bool ZifyN ZifyNat ZifyBool.
From GoMC Require Import Base.Bytes Base.Dec Gen.Consts Model.C01 Proofs.C01 Proofs.C01_dec Proofs.C01_more.
Import ListNotations.
Open Scope N_scope.
Ltac Zify.zify_post_hook ::= Z.div_mod_to_equations.

(* outcome is a value or an error, and a value means the rest is (strictly) shorter than the input *)
Definition prog {A} (s : list N) (r : fres A) : Prop :=
  match r with FOk _ rest => (length rest < length s)%nat | FErr _ => True | _ => False end.
Definition prog0 {A} (s : list N) (r : fres A) : Prop :=
  match r with FOk _ rest => (length rest <= length s)%nat | FErr _ => True | _ => False end.

Lemma prog_prog0 {A} s (r : fres A) : prog s r -> prog0 s r.
Proof. destruct r; cbn; auto; lia. Qed.
Lemma prog0_ok {A} s (r : fres A) : prog0 s r -> ok_or_err r.
Proof. destruct r; cbn; auto. Qed.

Lemma prog_bind {A B} (d : dec A) (f : A -> dec B) s :
  robust d -> prog s (run_flat d s) ->
  (forall a r, (length r < length s)%nat -> prog0 r (run_flat (f a) r)) ->
  prog s (run_flat (bind d f) s).
Proof.
  intros R H K. rewrite run_flat_bind by auto.
  destruct (run_flat d s) as [a r| | |]; cbn in H; try tauto.
  specialize (K a r H). destruct (run_flat (f a) r); cbn in *; try tauto; lia.
Qed.
Lemma prog0_bind {A B} (d : dec A) (f : A -> dec B) s :
  robust d -> prog0 s (run_flat d s) ->
  (forall a r, (length r <= length s)%nat -> prog0 r (run_flat (f a) r)) ->
  prog0 s (run_flat (bind d f) s).
Proof.
  intros R H K. rewrite run_flat_bind by auto.
  destruct (run_flat d s) as [a r| | |]; cbn in H; try tauto.
  specialize (K a r H). destruct (run_flat (f a) r); cbn in *; try tauto; lia.
Qed.

Lemma dropN_length {X} n (s : list X) : n <= lenN s -> length (dropN n s) = (length s - N.to_nat n)%nat.
Proof. intros _. unfold dropN. apply skipn_length. Qed.

Lemma readfull_prog {A} n (k : list N -> dec A) s :
  0 < n -> (forall bs r, (length r < length s)%nat -> prog0 r (run_flat (k bs) r)) ->
  prog s (run_flat (ReadFull n k) s).
Proof.
  intros Hn K. cbn [run_flat]. destruct (N.leb_spec n (lenN s)) as [H|H]; [|exact I].
  assert (length (dropN n s) < length s)%nat as L by (rewrite dropN_length by auto; unfold lenN in H; lia).
  specialize (K (takeN n s) _ L). destruct (run_flat (k (takeN n s)) (dropN n s)); cbn in *; try tauto; lia.
Qed.
Lemma readfull_prog0 {A} n (k : list N -> dec A) s :
  (forall bs r, (length r <= length s)%nat -> prog0 r (run_flat (k bs) r)) ->
  prog0 s (run_flat (ReadFull n k) s).
Proof.
  intros K. cbn [run_flat]. destruct (N.leb_spec n (lenN s)) as [H|H]; [|exact I].
  assert (length (dropN n s) <= length s)%nat as L by (rewrite dropN_length by auto; lia).
  specialize (K (takeN n s) _ L). destruct (run_flat (k (takeN n s)) (dropN n s)); cbn in *; try tauto; lia.
Qed.
Lemma ret_prog0 {A} (a : A) s : prog0 s (run_flat (Ret a) s).
Proof. cbn. lia. Qed.
Lemma fail_prog0 {A} e s : prog0 s (run_flat (@Fail A e) s).
Proof. exact I. Qed.
#[export] Hint Resolve ret_prog0 fail_prog0 : pg.

Lemma rd_u8_prog s : prog s (run_flat rd_u8 s).
Proof. destruct s; cbn; auto. Qed.
Lemma rd_i8_prog s : prog s (run_flat rd_i8 s).
Proof. destruct s; cbn; auto. Qed.
Lemma rd_i16_prog s : prog s (run_flat rd_i16 s).
Proof. apply readfull_prog; [lia|]. intros. apply ret_prog0. Qed.
Lemma rd_i32_prog s : prog s (run_flat rd_i32 s).
Proof. apply readfull_prog; [lia|]. intros. apply ret_prog0. Qed.
Lemma rd_i64_prog s : prog s (run_flat rd_i64 s).
Proof. apply readfull_prog; [lia|]. intros. apply ret_prog0. Qed.
Lemma rd_string_prog s : prog s (run_flat rd_string s).
Proof.
  unfold rd_string. apply prog_bind; [auto with rb|apply rd_i16_prog|]. intros n r _.
  destruct (n <? 0)%Z; [exact I|]. destruct (0 <? n)%Z; [|apply ret_prog0].
  apply readfull_prog0. intros. apply ret_prog0.
Qed.
Lemma rd_tag_prog s : prog s (run_flat rd_tag s).
Proof.
  unfold rd_tag. apply prog_bind; [auto with rb|apply rd_u8_prog|]. intros t r _.
  destruct ((t =? 31) || (t =? 120)); [exact I|]. destruct (t =? idEnd); [apply ret_prog0|].
  apply prog0_bind; [auto with rb|apply prog_prog0, rd_string_prog|]. intros. apply ret_prog0.
Qed.
Lemma rd_tag_dyn_prog s : prog s (run_flat rd_tag_dyn s).
Proof.
  unfold rd_tag_dyn. apply prog_bind; [auto with rb|apply rd_u8_prog|]. intros t r _.
  destruct (t =? idEnd); [apply ret_prog0|].
  apply prog0_bind; [auto with rb|apply prog_prog0, rd_string_prog|]. intros. apply ret_prog0.
Qed.

(* the counted loop: every iteration consumes at least one byte, so fuel above the input length suffices
   whatever the declared count is *)
Lemma rep_zero {A} fuel (d : dec A) acc : rep fuel 0 d acc = Ret (rev_append acc []).
Proof. destruct fuel; reflexivity. Qed.
Lemma rep_prog0 {A} (d : dec A) L :
  robust d -> (forall s, (length s <= L)%nat -> prog s (run_flat d s)) ->
  forall fuel count acc s, (length s < fuel)%nat -> (length s <= L)%nat ->
  prog0 s (run_flat (rep fuel count d acc) s).
Proof.
  intros Rd Hd. induction fuel as [|f IH]; intros count acc s Hs HL; [lia|].
  cbn [rep]. destruct (count =? 0); [apply ret_prog0|].
  apply prog_prog0, prog_bind; [exact Rd|apply Hd, HL|]. intros x r Hr. apply IH; lia.
Qed.

(* the compound loop: the tag header consumes at least one byte per iteration *)
Lemma comp_prog {A M} rt (d : N -> dec A) (upd : list N -> A -> M -> M) L :
  robust rt -> (forall id, robust (d id)) -> (forall s, prog s (run_flat rt s)) ->
  (forall id s, (length s < L)%nat -> prog0 s (run_flat (d id) s)) ->
  forall fuel acc s, (length s < fuel)%nat -> (length s <= L)%nat ->
  prog s (run_flat (comp_loop fuel rt d upd acc) s).
Proof.
  intros Rt Rd Hrt Hd. induction fuel as [|f IH]; intros acc s Hs HL; [lia|].
  cbn [comp_loop]. apply prog_bind; [exact Rt|apply Hrt|]. intros tn r Hr.
  destruct (fst tn =? idEnd); [apply ret_prog0|].
  apply prog0_bind; [apply Rd|apply Hd; lia|]. intros v r' Hr'. apply prog_prog0, IH; lia.
Qed.

Ltac top_ifs := repeat match goal with |- _ _ (run_flat (if ?c then _ else _) _) => destruct c end.
Ltac neg_if := match goal with |- _ _ (run_flat (if ?c then _ else _) _) => destruct c; [exact I|] end.
Ltac scalar_pg P := apply prog_bind; [auto with rb|apply P|intros; apply ret_prog0].

(* goal-directed proof search for the consumption predicates: one rule per constructor of the decoders;
   what is left are the recursive calls *)
Ltac pg_leaf :=
  first [ exact I | apply ret_prog0
        | apply rd_u8_prog | apply rd_i8_prog | apply rd_i16_prog | apply rd_i32_prog | apply rd_i64_prog
        | apply rd_string_prog | apply rd_tag_prog | apply rd_tag_dyn_prog
        | apply prog_prog0; first [ apply rd_u8_prog | apply rd_i8_prog | apply rd_i16_prog | apply rd_i32_prog
                                  | apply rd_i64_prog | apply rd_string_prog | apply rd_tag_prog ] ].

Ltac pg :=
  lazymatch goal with
  | |- prog0 _ (run_flat (Ret _) _) => apply ret_prog0
  | |- prog0 _ (run_flat (Fail _) _) => exact I
  | |- prog _ (run_flat (Fail _) _) => exact I
  | |- _ _ (run_flat (if ?c then _ else _) _) => destruct c; pg
  | |- _ _ (run_flat (match ?x with _ => _ end) _) => destruct x; pg
  | |- prog0 _ (run_flat (ReadFull _ _) _) => apply readfull_prog0; intros; pg
  | |- prog _ (run_flat (ReadFull _ _) _) => apply readfull_prog; [lia | intros; cbv zeta; pg]
  | |- prog0 ?s (run_flat (rep _ _ _ _) ?s) =>
      apply rep_prog0 with (L := length s); [auto with rb | intros; pg | lia | lia]
  | |- prog ?s (run_flat (comp_loop _ _ _ _ _) ?s) =>
      apply comp_prog with (L := length s); [auto with rb | auto with rb | first [apply rd_tag_prog | apply rd_tag_dyn_prog] | intros; pg | lia | lia]
  | |- prog0 ?s (run_flat (comp_loop _ _ _ _ _) ?s) => apply prog_prog0; pg
  | |- prog0 _ (run_flat (bind _ _) _) => apply prog0_bind; [auto with rb | pg | intros; pg]
  | |- prog _ (run_flat (bind _ _) _) => apply prog_bind; [auto with rb | pg | intros; pg]
  | |- _ => first [ pg_leaf | idtac ]
  end.

(* ---------- interface{} ---------- *)
Theorem dany_prog : forall fuel dep id s, (length s + 1 < fuel)%nat -> prog s (run_flat (dany fuel dep id) s).
Proof.
  induction fuel as [|f IH]; intros dep id s Hs; [lia|]. cbn [dany].
  pg; first [apply IH; lia | apply prog_prog0, IH; lia].
Qed.
Theorem dec_any_prog : forall fuel id s, (length s + 1 < fuel)%nat -> prog s (run_flat (dec_any fuel id) s).
Proof. intros. now apply dany_prog. Qed.

Lemma dmap_prog fuel dep id s : (length s + 1 < fuel)%nat -> prog s (run_flat (dmap fuel dep id) s).
Proof.
  intros H. unfold dmap. pg; try lia. apply prog_prog0, dany_prog. lia.
Qed.
Lemma dec_map_prog fuel id s : (length s + 1 < fuel)%nat -> prog0 s (run_flat (dec_map fuel id) s).
Proof. intros H. apply prog_prog0, dmap_prog, H. Qed.

(* ---------- rawRead ---------- *)
Theorem dskip_prog : forall fuel dep id s, (length s + 1 < fuel)%nat -> prog s (run_flat (dskip fuel dep id) s).
Proof.
  induction fuel as [|f IH]; intros dep id s Hs; [lia|]. cbn [dskip].
  pg; first [apply IH; lia | apply prog_prog0, IH; lia].
Qed.
Theorem dec_skip_prog : forall fuel id s, (length s + 1 < fuel)%nat -> prog s (run_flat (dec_skip fuel id) s).
Proof. intros. now apply dskip_prog. Qed.
Lemma dec_struct0_prog fuel id s : (length s + 1 < fuel)%nat -> prog0 s (run_flat (dec_struct0 fuel id) s).
Proof. intros H. unfold dec_struct0. top_ifs; try exact I. apply prog_prog0, dec_skip_prog, H. Qed.

(* the tee reader changes nothing but the value *)
Lemma tee_outcome {A} (d : dec A) : robust d -> forall s,
  match run_flat d s with
  | FOk a r => exists c, run_flat (tee d) s = FOk (a, c) r
  | FErr e => run_flat (tee d) s = FErr e
  | FPanic w => run_flat (tee d) s = FPanic w
  | FFuel => run_flat (tee d) s = FFuel
  end.
Proof.
  induction 1 as [a0|e|w| |k Hk IH|n k Hk IH]; intros s; cbn [run_flat tee]; try reflexivity.
  - eexists; reflexivity.
  - destruct s as [|b s']; [reflexivity|]. specialize (IH b s').
    rewrite run_flat_bind by (apply tee_robust, Hk).
    destruct (run_flat (k b) s') as [a r| | |]; [destruct IH as [c ->]; eexists; reflexivity| | |]; now rewrite IH.
  - destruct (n <=? lenN s); [|reflexivity]. specialize (IH (takeN n s) (dropN n s)).
    rewrite run_flat_bind by (apply tee_robust, Hk).
    destruct (run_flat (k (takeN n s)) (dropN n s)) as [a r| | |];
      [destruct IH as [c ->]; eexists; reflexivity| | |]; now rewrite IH.
Qed.
Lemma tee_prog {A} (d : dec A) s : robust d -> prog s (run_flat d s) -> prog s (run_flat (tee d) s).
Proof.
  intros R H. pose proof (tee_outcome d R s) as T.
  destruct (run_flat d s) as [a r| | |]; cbn in H; try tauto.
  - destruct T as [c ->]. exact H.
  - now rewrite T.
Qed.
Lemma dec_raw_prog fuel id s : (length s + 1 < fuel)%nat -> prog0 s (run_flat (dec_raw fuel id) s).
Proof.
  intros H. unfold dec_raw. destruct (id =? idEnd); [exact I|].
  apply prog0_bind; [auto with rb| |intros; apply ret_prog0].
  apply prog_prog0, tee_prog; [auto with rb|]. apply dec_skip_prog, H.
Qed.

(* ---------- binary -> text ---------- *)
Theorem dtext_prog : forall fuel dep id s, (length s + 1 < fuel)%nat -> prog s (run_flat (dtext fuel dep id) s).
Proof.
  induction fuel as [|f IH]; intros dep id s Hs; [lia|]. cbn [dtext].
  pg; first [apply IH; lia | apply prog_prog0, IH; lia].
Qed.
Theorem dec_text_prog : forall fuel id s, (length s + 1 < fuel)%nat -> prog s (run_flat (dec_text fuel id) s).
Proof. intros. now apply dtext_prog. Qed.
Lemma dec_snbt_prog fuel id s : (length s + 1 < fuel)%nat -> prog0 s (run_flat (dec_snbt fuel id) s).
Proof. intros H. unfold dec_snbt. top_ifs; try exact I. apply prog_prog0, dec_text_prog, H. Qed.

(* ---------- dynbt: a TAG_End value consumes nothing, which is why a counted list of them must be refused *)
Theorem ddyn_prog : forall fuel dep id s, (length s + 1 < fuel)%nat ->
  prog0 s (run_flat (ddyn fuel dep id) s) /\ (id <> idEnd -> prog s (run_flat (ddyn fuel dep id) s)).
Proof.
  induction fuel as [|f IH]; intros dep id s Hs; [lia|].
  assert (id <> idEnd -> prog s (run_flat (ddyn (S f) dep id) s)) as P.
  { intros Hid. cbn [ddyn]. destruct (N.eqb_spec id idEnd) as [E|_]; [contradiction|]. top_ifs.
    - scalar_pg rd_u8_prog.
    - apply readfull_prog; [lia|]. intros. apply ret_prog0.
    - apply readfull_prog; [lia|]. intros. apply ret_prog0.
    - apply readfull_prog; [lia|]. intros. apply ret_prog0.
    - apply readfull_prog; [lia|]. intros h r Hr. cbv zeta. neg_if. apply readfull_prog0. intros. apply ret_prog0.
    - apply readfull_prog; [lia|]. intros h r Hr. cbv zeta. neg_if. apply readfull_prog0. intros. apply ret_prog0.
    - exact I.
    - apply prog_bind; [auto with rb|apply rd_u8_prog|]. intros et r Hr.
      apply prog0_bind; [auto with rb|apply prog_prog0, rd_i32_prog|]. intros n r' Hr'. neg_if.
      destruct (N.eqb_spec et idEnd) as [E|E]; cbn [andb].
      + destruct (Z.ltb_spec 0 n) as [Hn|Hn]; [exact I|].
        replace (Z.to_N n) with 0 by lia. rewrite rep_zero.
        apply prog0_bind; [constructor|apply ret_prog0|intros; apply ret_prog0].
      + apply prog0_bind; [auto with rb| |intros; apply ret_prog0].
        apply rep_prog0 with (L := length r'); [auto with rb| |lia|lia]. intros s' Hs'.
        apply IH; [lia|exact E].
    - exact I.
    - apply prog_bind; [auto with rb| |intros; apply ret_prog0].
      apply comp_prog with (L := length s); [auto with rb|auto with rb|apply rd_tag_dyn_prog| |lia|lia].
      intros id' s' Hs'. apply IH. lia.
    - apply readfull_prog; [lia|]. intros h r Hr. cbv zeta. neg_if. apply readfull_prog0. intros. apply ret_prog0.
    - apply readfull_prog; [lia|]. intros h r Hr. cbv zeta. neg_if. apply readfull_prog0. intros. apply ret_prog0.
    - exact I. }
  split; [|exact P].
  destruct (N.eq_dec id idEnd) as [->|Hid]; [cbn; lia|]. apply prog_prog0, P, Hid.
Qed.
Theorem dec_dyn_prog : forall fuel id s, (length s + 1 < fuel)%nat ->
  prog0 s (run_flat (dec_dyn fuel id) s) /\ (id <> idEnd -> prog s (run_flat (dec_dyn fuel id) s)).
Proof. intros. now apply ddyn_prog. Qed.

(* ---------- documents ---------- *)
Lemma decode_hdr_prog f s : prog s (run_flat (decode_hdr f) s).
Proof.
  destruct f; cbn [decode_hdr]; [apply rd_tag_prog|].
  apply prog_bind; [auto with rb|apply rd_u8_prog|intros; apply ret_prog0].
Qed.
Lemma Decode_total {A} f (body : N -> dec A) s :
  (forall id, robust (body id)) ->
  (forall id r, (length r < length s)%nat -> prog0 r (run_flat (body id) r)) ->
  ok_or_err (run_flat (Decode f body) s).
Proof.
  intros Rb Hb. apply (prog0_ok s). apply prog_prog0. unfold Decode.
  apply prog_bind; [auto with rb|apply decode_hdr_prog|]. intros tn r Hr.
  apply prog0_bind; [apply Rb|apply Hb, Hr|intros; apply ret_prog0].
Qed.

(* ---------- negative declared lengths and unknown ids are errors ---------- *)
Lemma run_i32_neg {A} (k : Z -> dec A) h rest :
  lenN h = 4 -> run_flat (n <- rd_i32 ;; k n) (h ++ rest) = run_flat (k (sx32 (unbe h))) rest.
Proof.
  intros H. rewrite run_flat_bind by auto with rb. unfold rd_i32. rewrite run_ReadFull_app by exact H. reflexivity.
Qed.
Lemma ltb_neg n : (n < 0)%Z -> (n <? 0)%Z = true.
Proof. intros. destruct (Z.ltb_spec n 0); [reflexivity|lia]. Qed.

Definition array_id (id : N) : Prop := id = idByteArray \/ id = idIntArray \/ id = idLongArray.

Theorem negative_array_len : forall id f h rest, array_id id -> lenN h = 4 -> (sx32 (unbe h) < 0)%Z ->
  run_flat (dec_any (S f) id) (h ++ rest) = FErr eNeg /\
  run_flat (dec_skip (S f) id) (h ++ rest) = FErr eNeg /\
  run_flat (dec_text (S f) id) (h ++ rest) = FErr eNeg /\
  run_flat (dec_dyn (S f) id) (h ++ rest) = FErr eNeg.
Proof.
  intros id f h rest [->|[->| ->]] Hh Hn; unfold dec_any, dec_skip, dec_text, dec_dyn; repeat split;
    rewrite ?any_bytearray, ?any_intarray, ?any_longarray, ?skip_bytearray, ?skip_intarray, ?skip_longarray,
      ?text_bytearray, ?text_intarray, ?text_longarray, ?dyn_bytearray, ?dyn_intarray, ?dyn_longarray;
    first [ rewrite run_i32_neg by exact Hh; rewrite ltb_neg by exact Hn; reflexivity
          | rewrite run_ReadFull_app by exact Hh; cbv zeta; rewrite ltb_neg by exact Hn; reflexivity ].
Qed.

Lemma max_open_pos : (max_open =? 0) = false.
Proof. reflexivity. Qed.

Theorem negative_list_len : forall f et h rest, lenN h = 4 -> (sx32 (unbe h) < 0)%Z ->
  run_flat (dec_any (S f) idList) (et :: h ++ rest) = FErr eNeg /\
  run_flat (dec_skip (S f) idList) (et :: h ++ rest) = FErr eNeg /\
  run_flat (dec_text (S f) idList) (et :: h ++ rest) = FErr eNeg /\
  run_flat (dec_dyn (S f) idList) (et :: h ++ rest) = FErr eNeg.
Proof.
  intros f et h rest Hh Hn. unfold dec_any, dec_skip, dec_text, dec_dyn.
  rewrite any_list, skip_list, text_list, dyn_list, max_open_pos. repeat split;
    rewrite run_flat_bind by auto with rb; rewrite run_rd_u8, run_i32_neg by exact Hh; now rewrite ltb_neg.
Qed.

Theorem negative_string_len : forall h rest, lenN h = 2 -> (sx16 (unbe h) < 0)%Z ->
  run_flat rd_string (h ++ rest) = FErr eNeg.
Proof.
  intros h rest Hh Hn. unfold rd_string. rewrite run_flat_bind by auto with rb.
  unfold rd_i16. rewrite run_ReadFull_app by exact Hh. cbn [run_flat]. now rewrite ltb_neg.
Qed.

Lemma eqb_gt12 id k : 12 < id -> k <= 12 -> (id =? k) = false.
Proof. intros. apply N.eqb_neq. lia. Qed.

Theorem unknown_tag : forall id f s, 12 < id ->
  run_flat (dec_any (S f) id) s = FErr eUnknown /\
  run_flat (dec_skip (S f) id) s = FErr eUnknown /\
  run_flat (dec_text (S f) id) s = FErr eUnknown /\
  run_flat (dec_dyn (S f) id) s = FErr eUnknown.
Proof.
  intros id f s H.
  assert (forall k, k <= 12 -> (id =? k) = false) as E by (intros; now apply eqb_gt12).
  unfold dec_any, dec_skip, dec_text, dec_dyn. cbn [dany dskip dtext ddyn].
  rewrite !(E idEnd), !(E idByte), !(E idShort), !(E idInt), !(E idLong), !(E idFloat), !(E idDouble),
    !(E idByteArray), !(E idString), !(E idList), !(E idCompound), !(E idIntArray), !(E idLongArray)
    by (vm_compute; discriminate).
  cbn [orb]. repeat split.
Qed.

(* dynbt: a counted list of TAG_End elements is refused before the loop *)
Theorem dyn_end_list : forall f h rest, lenN h = 4 -> (0 < sx32 (unbe h))%Z ->
  run_flat (dec_dyn (S f) idList) (idEnd :: h ++ rest) = FErr eEND.
Proof.
  intros f h rest Hh Hn. unfold dec_dyn. rewrite dyn_list, max_open_pos.
  rewrite run_flat_bind by auto with rb. rewrite run_rd_u8, run_i32_neg by exact Hh.
  destruct (Z.ltb_spec (sx32 (unbe h)) 0); [lia|]. rewrite N.eqb_refl.
  destruct (Z.ltb_spec 0 (sx32 (unbe h))); [reflexivity|lia].
Qed.

(* the depth budget: a list or compound met when no container may be opened any more is an error (not a
   stack overflow, and not the model's NoFuel) in every walker *)
Theorem depth_exhausted : forall f id s, id = idList \/ id = idCompound ->
  run_flat (dany (S f) 0 id) s = FErr eDepth /\ run_flat (dskip (S f) 0 id) s = FErr eDepth /\
  run_flat (dtext (S f) 0 id) s = FErr eDepth /\ run_flat (ddyn (S f) 0 id) s = FErr eDepth /\
  (forall t, t <> GAny -> t <> GMapAny -> id = idList -> run_flat (dty (S f) 0 t id) s = FErr eDepth).
Proof.
  intros f id s [->| ->]; repeat split; intros; try discriminate; try (destruct t; try contradiction); reflexivity.
Qed.
