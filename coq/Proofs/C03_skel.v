(* C03 / C01: the skel_ok lemmas - the function bodies rendered from the source on this run are the recorded ones *)
From Coq Require Import List String.
From GoMC Require Import Model.C03_syntax Gen.C03gen Proofs.C03_expected.

Lemma skel_enter_ok : C03gen.skel_enter = C03_expected.skel_enter.
Proof. reflexivity. Qed.
Lemma skel_readTag_ok : C03gen.skel_readTag = C03_expected.skel_readTag.
Proof. reflexivity. Qed.
Lemma skel_readString_ok : C03gen.skel_readString = C03_expected.skel_readString.
Proof. reflexivity. Qed.
Lemma skel_readInt8_ok : C03gen.skel_readInt8 = C03_expected.skel_readInt8.
Proof. reflexivity. Qed.
Lemma skel_readInt16_ok : C03gen.skel_readInt16 = C03_expected.skel_readInt16.
Proof. reflexivity. Qed.
Lemma skel_readInt32_ok : C03gen.skel_readInt32 = C03_expected.skel_readInt32.
Proof. reflexivity. Qed.
Lemma skel_readInt64_ok : C03gen.skel_readInt64 = C03_expected.skel_readInt64.
Proof. reflexivity. Qed.
Lemma skel_rawRead_ok : C03gen.skel_rawRead = C03_expected.skel_rawRead.
Proof. reflexivity. Qed.
Lemma skel_readBytes_ok : C03gen.skel_readBytes = C03_expected.skel_readBytes.
Proof. reflexivity. Qed.
Lemma skel_unmarshal_TagByteArray_ok : C03gen.skel_unmarshal_TagByteArray = C03_expected.skel_unmarshal_TagByteArray.
Proof. reflexivity. Qed.
Lemma skel_unmarshal_TagIntArray_ok : C03gen.skel_unmarshal_TagIntArray = C03_expected.skel_unmarshal_TagIntArray.
Proof. reflexivity. Qed.
Lemma skel_unmarshal_TagLongArray_ok : C03gen.skel_unmarshal_TagLongArray = C03_expected.skel_unmarshal_TagLongArray.
Proof. reflexivity. Qed.
Lemma skel_unmarshal_TagList_ok : C03gen.skel_unmarshal_TagList = C03_expected.skel_unmarshal_TagList.
Proof. reflexivity. Qed.
Lemma skel_unmarshal_TagCompound_ok : C03gen.skel_unmarshal_TagCompound = C03_expected.skel_unmarshal_TagCompound.
Proof. reflexivity. Qed.
Lemma skel_indirect_ok : C03gen.skel_indirect = C03_expected.skel_indirect.
Proof. reflexivity. Qed.
Lemma skel_unmarshal_head_ok : C03gen.skel_unmarshal_head = C03_expected.skel_unmarshal_head.
Proof. reflexivity. Qed.
Lemma skel_dynbt_unmarshal_ok : C03gen.skel_dynbt_unmarshal = C03_expected.skel_dynbt_unmarshal.
Proof. reflexivity. Qed.
Lemma skel_dynbt_readTag_ok : C03gen.skel_dynbt_readTag = C03_expected.skel_dynbt_readTag.
Proof. reflexivity. Qed.
Lemma skel_dynbt_readString_ok : C03gen.skel_dynbt_readString = C03_expected.skel_dynbt_readString.
Proof. reflexivity. Qed.
Lemma skel_dynbt_appendN_ok : C03gen.skel_dynbt_appendN = C03_expected.skel_dynbt_appendN.
Proof. reflexivity. Qed.

Theorem all_skel_ok :
  C03gen.skel_enter = C03_expected.skel_enter /\
  C03gen.skel_readTag = C03_expected.skel_readTag /\
  C03gen.skel_readString = C03_expected.skel_readString /\
  C03gen.skel_readInt8 = C03_expected.skel_readInt8 /\
  C03gen.skel_readInt16 = C03_expected.skel_readInt16 /\
  C03gen.skel_readInt32 = C03_expected.skel_readInt32 /\
  C03gen.skel_readInt64 = C03_expected.skel_readInt64 /\
  C03gen.skel_rawRead = C03_expected.skel_rawRead /\
  C03gen.skel_readBytes = C03_expected.skel_readBytes /\
  C03gen.skel_unmarshal_TagByteArray = C03_expected.skel_unmarshal_TagByteArray /\
  C03gen.skel_unmarshal_TagIntArray = C03_expected.skel_unmarshal_TagIntArray /\
  C03gen.skel_unmarshal_TagLongArray = C03_expected.skel_unmarshal_TagLongArray /\
  C03gen.skel_unmarshal_TagList = C03_expected.skel_unmarshal_TagList /\
  C03gen.skel_unmarshal_TagCompound = C03_expected.skel_unmarshal_TagCompound /\
  C03gen.skel_indirect = C03_expected.skel_indirect /\
  C03gen.skel_unmarshal_head = C03_expected.skel_unmarshal_head /\
  C03gen.skel_dynbt_unmarshal = C03_expected.skel_dynbt_unmarshal /\
  C03gen.skel_dynbt_readTag = C03_expected.skel_dynbt_readTag /\
  C03gen.skel_dynbt_readString = C03_expected.skel_dynbt_readString /\
  C03gen.skel_dynbt_appendN = C03_expected.skel_dynbt_appendN.
Proof. repeat split; reflexivity. Qed.
