(* C03: struct / pointer / array / RawMessage destinations (Model/C03.v): no bare Read, totality with
   progress for every shape and every destination state, negative lengths, unknown ids, prefixes *)
From Coq Require Import List Arith NArith ZArith Lia Bool ZifyN ZifyNat ZifyBool.
From GoMC Require Import Base.Bytes Base.Dec Gen.Consts Model.C01 Model.C03
  Proofs.C01 Proofs.C01_dec Proofs.C01_more Proofs.C03 Proofs.C03_top.
Import ListNotations.
Open Scope N_scope.
Ltac Zify.zify_post_hook ::= Z.div_mod_to_equations.

(* ---------- no bare Read ---------- *)
Lemma misfit_robust {A} id : robust (@misfit A id).
Proof. unfold misfit. rb. Qed.
Lemma dec_any_into_robust fuel dep old id : robust (dec_any_into fuel dep old id).
Proof. unfold dec_any_into. destruct old; rb. Qed.
Lemma st_loop_robust {M} (step : N -> list N -> M -> dec M) :
  (forall tt tn acc, robust (step tt tn acc)) -> forall fuel acc, robust (st_loop fuel step acc).
Proof.
  intros Rs. induction fuel as [|f IH]; intros acc; cbn [st_loop]; [constructor|].
  apply robust_bind; auto with rb. intros tn. destruct (fst tn =? idEnd); [constructor|].
  apply robust_bind; auto.
Qed.
Lemma arr_loop_robust (d : dec tval) : robust d -> forall fuel count done todo, robust (arr_loop fuel count d done todo).
Proof.
  intros Rd. induction fuel as [|f IH]; intros count done todo; cbn [arr_loop]; destruct (count =? 0); try constructor.
  destruct todo; [constructor|]. apply robust_bind; auto.
Qed.
#[export] Hint Resolve misfit_robust dec_any_into_robust st_loop_robust arr_loop_robust : rb.

Lemma dst_robust : forall fuel dep ty cur id, robust (dst fuel dep ty cur id).
Proof.
  induction fuel as [|f IH]; intros dep ty cur id; cbn [dst]; [constructor|].
  destruct ty as [t| | | |t|t|n t|fs].
  - rb.
  - destruct cur as [| [old|] | | | | | |]; rb.
  - rb.
  - rb.
  - rb.
  - destruct t; rb.
  - rb.
  - destruct (id =? idCompound); [|rb]. destruct (dep =? 0); [constructor|]. apply robust_bind; [|intros; constructor].
    apply st_loop_robust. intros tt tn acc. destruct (find_field fs tn) as [[i fty]|]; rb.
Qed.
#[export] Hint Resolve dst_robust : rb.
Lemma dec_st_robust fuel ty cur id : robust (dec_st fuel ty cur id).
Proof. apply dst_robust. Qed.
#[export] Hint Resolve dec_st_robust : rb.

(* ---------- totality with progress ---------- *)
Lemma misfit_prog {A} id s : prog s (run_flat (@misfit A id) s).
Proof. unfold misfit. pg. Qed.

Lemma dec_any_into_prog fuel dep old id s : (length s + 1 < fuel)%nat -> prog s (run_flat (dec_any_into fuel dep old id) s).
Proof.
  intros H. unfold dec_any_into. destruct old; pg; apply dty_prog; lia.
Qed.

Lemma st_loop_prog {M} (step : N -> list N -> M -> dec M) L :
  (forall tt tn acc, robust (step tt tn acc)) ->
  (forall tt tn acc s, (length s < L)%nat -> prog0 s (run_flat (step tt tn acc) s)) ->
  forall fuel acc s, (length s < fuel)%nat -> (length s <= L)%nat ->
  prog s (run_flat (st_loop fuel step acc) s).
Proof.
  intros Rs Hs. induction fuel as [|f IH]; intros acc s Hl HL; [lia|].
  cbn [st_loop]. apply prog_bind; [auto with rb|apply rd_tag_prog|]. intros tn r Hr.
  destruct (fst tn =? idEnd); [apply ret_prog0|].
  apply prog0_bind; [apply Rs|apply Hs; lia|]. intros v r' Hr'. apply prog_prog0, IH; lia.
Qed.

(* the in-place array loop never indexes past the array: the caller checked count <= length todo *)
Lemma arr_loop_prog0 (d : dec tval) L :
  robust d -> (forall s, (length s <= L)%nat -> prog s (run_flat d s)) ->
  forall fuel count done todo s, (length s < fuel)%nat -> (length s <= L)%nat -> count <= lenN todo ->
  prog0 s (run_flat (arr_loop fuel count d done todo) s).
Proof.
  intros Rd Hd. induction fuel as [|f IH]; intros count done todo s Hs HL Hc; [lia|].
  cbn [arr_loop]. destruct (N.eqb_spec count 0) as [E|E]; [apply ret_prog0|].
  destruct todo as [|x r]; [unfold lenN in Hc; cbn in Hc; lia|].
  apply prog_prog0, prog_bind; [exact Rd|apply Hd, HL|]. intros y r' Hr'. apply IH; try lia.
  unfold lenN in *. cbn [length] in Hc. lia.
Qed.

Lemma find_by_In {X} eq (fs : list (list N * X)) k : forall i j x, find_by eq fs k i = Some (j, x) -> In x (map snd fs).
Proof.
  induction fs as [|fd r IH]; intros i j x H; cbn [find_by] in H; [discriminate|].
  destruct (eq (fst fd) k); [inversion H; subst; left; reflexivity|right; eapply IH; eauto].
Qed.
Lemma find_field_In {X} (fs : list (list N * X)) k j x : find_field fs k = Some (j, x) -> In x (map snd fs).
Proof.
  unfold find_field. destruct (find_by bytes_eqb fs k 0) as [[j' x']|] eqn:E.
  - intros H; inversion H; subst. eapply find_by_In; eauto.
  - apply find_by_In.
Qed.
Lemma sdepth_field fs t : In t (map snd fs) -> (sdepth t < sdepth (SStruct fs))%nat.
Proof.
  cbn [sdepth]. induction fs as [|fd r IH]; cbn [map fold_right In]; [tauto|].
  intros [<-|H]; [lia|]. specialize (IH H). lia.
Qed.

Lemma dec_raw_sprog fuel id s : (length s + 1 < fuel)%nat -> prog s (run_flat (dec_raw fuel id) s).
Proof.
  intros H. unfold dec_raw. destruct (id =? idEnd); [exact I|].
  apply prog_bind; [auto with rb| |intros; apply ret_prog0]. apply tee_prog; [auto with rb|]. apply dec_skip_prog, H.
Qed.

Theorem dst_prog : forall fuel dep ty cur id s, (length s + 1 + sdepth ty < fuel)%nat -> prog s (run_flat (dst fuel dep ty cur id) s).
Proof.
  induction fuel as [|f IH]; intros dep ty cur id s Hs; [lia|]. cbn [dst].
  destruct ty as [t| | | |t|t|n t|fs]; cbn [sdepth] in Hs.
  - pg. apply dty_prog; lia.
  - destruct cur as [| [old|] | | | | | |]; pg; try (apply dany_prog; lia). apply dec_any_into_prog; lia.
  - destruct (id =? idCompound); [|apply misfit_prog]. destruct (dep =? 0); [exact I|].
    apply prog_bind; [auto with rb| |intros; apply ret_prog0].
    apply comp_prog with (L := length s); [auto with rb|auto with rb|apply rd_tag_prog| |lia|lia].
    intros id' s' Hs'. apply prog_prog0, dany_prog. lia.
  - apply prog_bind; [auto with rb| |intros; apply ret_prog0].
    unfold dec_raw. destruct (id =? idEnd); [exact I|].
    apply prog_bind; [auto with rb| |intros; apply ret_prog0].
    apply tee_prog; [auto with rb|]. apply dec_skip_prog; lia.
  - destruct (id =? idEnd); [exact I|].
    destruct t; try (apply prog_bind; [auto with rb|apply IH; cbn [sdepth] in *; lia|intros; apply ret_prog0]).
    apply prog_bind; [auto with rb|apply dec_raw_sprog; lia|intros; apply ret_prog0].
  - assert (forall t', sdepth t' = sdepth t -> prog s (run_flat
        (if id =? idList then if dep =? 0 then Fail eDepth else et <- rd_u8 ;; n <- rd_i32 ;;
           if (n <? 0)%Z then Fail eNeg
           else l <- rep f (Z.to_N n) (dst f (dep - 1) t' (zero t') et) [] ;; Ret (YList l)
         else misfit id) s)) as G.
    { intros t' Et. destruct (id =? idList); [|apply misfit_prog]. pg. apply IH. lia. }
    destruct t; try (apply G; reflexivity). pg. apply dty_prog; lia.
  - destruct (id =? idList).
    + destruct (dep =? 0); [exact I|].
      apply prog_bind; [auto with rb|apply rd_u8_prog|]. intros et r Hr.
      apply prog0_bind; [auto with rb|apply prog_prog0, rd_i32_prog|]. intros n0 r' Hr'.
      destruct (n0 <? 0)%Z eqn:En; [exact I|].
      match goal with |- prog0 _ (run_flat (if (Z.of_N (lenN ?c) <? n0)%Z then _ else _) _) => set (c0 := c) end.
      destruct (Z.ltb_spec (Z.of_N (lenN c0)) n0) as [Hlt|Hge]; [exact I|].
      apply prog0_bind; [auto with rb| |intros; apply ret_prog0].
      apply arr_loop_prog0 with (L := length r'); [auto with rb| |lia|lia|lia].
      intros s' Hs'. apply dty_prog. lia.
    + destruct (id =? idByteArray); [pg|]. destruct (id =? idIntArray); [pg|].
      destruct (id =? idLongArray); [|apply misfit_prog]. pg.
  - destruct (id =? idCompound); [|apply misfit_prog]. destruct (dep =? 0); [exact I|].
    match goal with |- prog _ (run_flat (bind (st_loop _ ?st _) _) _) => set (step := st) end.
    assert (forall tt tn acc, robust (step tt tn acc)) as Rstep.
    { intros tt tn acc. unfold step. destruct (find_field fs tn) as [[i fty]|]; rb. }
    apply prog_bind; [apply st_loop_robust, Rstep| |intros; apply ret_prog0].
    apply st_loop_prog with (L := length s); [exact Rstep| |lia|lia].
    intros tt tn acc s' Hs'. unfold step. destruct (find_field fs tn) as [[i fty]|] eqn:Ef.
    + pose proof (sdepth_field fs fty (find_field_In _ _ _ _ Ef)) as Hd. cbn [sdepth] in Hd.
      apply prog_prog0. apply prog_bind; [auto with rb|apply IH; lia|intros; apply ret_prog0].
    + apply prog_prog0. apply prog_bind; [auto with rb|apply dskip_prog; lia|intros; apply ret_prog0].
Qed.
Theorem dec_st_prog : forall fuel ty cur id s, (length s + 1 + sdepth ty < fuel)%nat -> prog s (run_flat (dec_st fuel ty cur id) s).
Proof. intros. now apply dst_prog. Qed.

(* ---------- negative declared lengths and unknown ids, typed destinations ---------- *)
Lemma notok_bind {A B} (d : dec A) (g : A -> dec B) s :
  robust d -> is_ok (run_flat d s) = false -> is_ok (run_flat (bind d g) s) = false.
Proof. intros R H. rewrite run_flat_bind by exact R. destruct (run_flat d s); cbn in *; auto; discriminate. Qed.

Definition negerr {A} (d : dec A) : Prop :=
  forall h rest, lenN h = 4 -> (sx32 (unbe h) < 0)%Z -> is_ok (run_flat d (h ++ rest)) = false.
Lemma negerr_intro {A} (K : Z -> dec A) : negerr (n <- rd_i32 ;; if (n <? 0)%Z then Fail eNeg else K n).
Proof. intros h rest Hh Hn. rewrite run_i32_neg by exact Hh. now rewrite ltb_neg. Qed.
Lemma negerr_bind {A B} (d : dec A) (g : A -> dec B) : robust d -> negerr d -> negerr (bind d g).
Proof. intros R H h rest Hh Hn. apply notok_bind; auto. Qed.
Lemma negerr_fail {A} e : negerr (@Fail A e).
Proof. intros h rest _ _. reflexivity. Qed.

Lemma dany_negerr f dep id : array_id id -> negerr (dany (S f) dep id).
Proof. intros [->|[->| ->]]; rewrite ?any_bytearray, ?any_intarray, ?any_longarray; apply negerr_intro. Qed.
Lemma dskip_negerr f dep id : array_id id -> negerr (dskip (S f) dep id).
Proof. intros [->|[->| ->]]; rewrite ?skip_bytearray, ?skip_intarray, ?skip_longarray; apply negerr_intro. Qed.

Lemma dty_negerr f dep t id : array_id id -> negerr (dty (S f) dep t id).
Proof.
  intros Hid. destruct t;
    try (apply negerr_bind; [auto with rb|]; first [now apply dany_negerr | destruct Hid as [->|[->| ->]]; first [apply negerr_fail | apply negerr_intro]]);
    destruct Hid as [->|[->| ->]]; apply negerr_intro.
Qed.

Lemma misfit_negerr {A} id : array_id id -> negerr (@misfit A id).
Proof. intros [->|[->| ->]]; apply negerr_intro. Qed.

Lemma array_id_facts id : array_id id ->
  (id =? idEnd) = false /\ (id =? idCompound) = false /\ (id =? idList) = false /\ (id =? idFloat) = false.
Proof. intros [->|[->| ->]]; repeat split; reflexivity. Qed.

Lemma tee_notok {A} (d : dec A) s : robust d -> is_ok (run_flat d s) = false -> is_ok (run_flat (tee d) s) = false.
Proof.
  intros R H. pose proof (tee_outcome d R s) as T.
  destruct (run_flat d s); cbn in H; try discriminate; now rewrite T.
Qed.

Lemma dst_negerr : forall fuel dep ty cur id, array_id id -> negerr (dst fuel dep ty cur id).
Proof.
  induction fuel as [|f IH]; intros dep ty cur id Hid; [intros h rest _ _; reflexivity|].
  destruct (array_id_facts id Hid) as (E0 & E10 & E9 & E5). cbn [dst].
  destruct ty as [t| | | |t|t|n t|fs].
  - apply negerr_bind; [auto with rb|]. now apply dty_negerr.
  - destruct cur as [| [old|] | | | | | |]; apply negerr_bind; auto with rb; try now apply dany_negerr.
    unfold dec_any_into. destruct old; try (apply negerr_bind; [auto with rb|]; now apply dty_negerr).
    rewrite E5. apply negerr_bind; [auto with rb|]. now apply dty_negerr.
  - rewrite E10. now apply misfit_negerr.
  - apply negerr_bind; [auto with rb|]. unfold dec_raw. rewrite E0.
    apply negerr_bind; [auto with rb|]. intros h rest Hh Hn. apply tee_notok; [auto with rb|].
    now apply dskip_negerr.
  - rewrite E0. destruct t; try (apply negerr_bind; [auto with rb|]; now apply IH).
    apply negerr_bind; [auto with rb|]. unfold dec_raw. rewrite E0.
    apply negerr_bind; [auto with rb|]. intros h rest Hh Hn. apply tee_notok; [auto with rb|]. now apply dskip_negerr.
  - destruct t; rewrite ?E9; try now apply misfit_negerr.
    apply negerr_bind; [auto with rb|]. now apply dty_negerr.
  - rewrite E9. destruct (id =? idByteArray); [apply negerr_intro|].
    destruct (id =? idIntArray); [apply negerr_intro|].
    destruct (id =? idLongArray); [apply negerr_intro|now apply misfit_negerr].
  - rewrite E10. now apply misfit_negerr.
Qed.

Lemma dec_ty_negative f h rest id ty : lenN h = 4 -> (sx32 (unbe h) < 0)%Z -> array_id id ->
  is_ok (run_flat (dec_ty (S f) ty id) (h ++ rest)) = false.
Proof. intros Hh Hn Hid. now apply dty_negerr. Qed.
Lemma dec_st_negative f h rest id ty cur : lenN h = 4 -> (sx32 (unbe h) < 0)%Z -> array_id id ->
  is_ok (run_flat (dec_st (S f) ty cur id) (h ++ rest)) = false.
Proof. intros Hh Hn Hid. now apply dst_negerr. Qed.

(* unknown ids *)
Definition unk {A} (d : dec A) : Prop := forall s, is_ok (run_flat d s) = false.
Lemma unk_bind {A B} (d : dec A) (g : A -> dec B) : robust d -> unk d -> unk (bind d g).
Proof. intros R H s. apply notok_bind; auto. Qed.

Ltac kill_ids E :=
  rewrite ?(E idEnd), ?(E idByte), ?(E idShort), ?(E idInt), ?(E idLong), ?(E idFloat), ?(E idDouble),
    ?(E idByteArray), ?(E idString), ?(E idList), ?(E idCompound), ?(E idIntArray), ?(E idLongArray)
    by (vm_compute; discriminate); cbn [orb].

Ltac unk_tac E := intros H; assert (forall k, k <= 12 -> (_ =? k) = false) as E by (intros; now apply eqb_gt12).

Lemma dany_unk f dep id : 12 < id -> unk (dany (S f) dep id).
Proof.
  intros H. assert (forall k, k <= 12 -> (id =? k) = false) as E by (intros; now apply eqb_gt12).
  cbn [dany]. kill_ids E. intros s; reflexivity.
Qed.
Lemma dskip_unk f dep id : 12 < id -> unk (dskip (S f) dep id).
Proof.
  intros H. assert (forall k, k <= 12 -> (id =? k) = false) as E by (intros; now apply eqb_gt12).
  cbn [dskip]. kill_ids E. intros s; reflexivity.
Qed.
Lemma dtext_unk f dep id : 12 < id -> unk (dtext (S f) dep id).
Proof.
  intros H. assert (forall k, k <= 12 -> (id =? k) = false) as E by (intros; now apply eqb_gt12).
  cbn [dtext]. kill_ids E. intros s; reflexivity.
Qed.

Lemma dty_unk f dep t id : 12 < id -> unk (dty (S f) dep t id).
Proof.
  intros H. assert (forall k, k <= 12 -> (id =? k) = false) as E by (intros; now apply eqb_gt12).
  destruct t; try (cbn [dty]; kill_ids E; intros s; reflexivity).
  - cbn [dty]. apply unk_bind; [auto with rb|]. now apply dany_unk.
  - cbn [dty]. apply unk_bind; [auto with rb|]. unfold dmap. kill_ids E. intros s; reflexivity.
Qed.
Lemma misfit_unk {A} id : 12 < id -> unk (@misfit A id).
Proof.
  intros H. assert (forall k, k <= 12 -> (id =? k) = false) as E by (intros; now apply eqb_gt12).
  unfold misfit. kill_ids E. intros s; reflexivity.
Qed.
Lemma dec_raw_unk f id : 12 < id -> unk (dec_raw (S f) id).
Proof.
  intros H. assert (forall k, k <= 12 -> (id =? k) = false) as E by (intros; now apply eqb_gt12).
  unfold dec_raw. kill_ids E. apply unk_bind; [auto with rb|]. intros s. apply tee_notok; [auto with rb|].
  now apply dskip_unk.
Qed.
Lemma dec_raw_unknown f id s : 12 < id -> is_ok (run_flat (dec_raw (S f) id) s) = false.
Proof. intros H. now apply dec_raw_unk. Qed.
Lemma dec_snbt_unknown f id s : 12 < id -> is_ok (run_flat (dec_snbt (S f) id) s) = false.
Proof.
  intros H. assert (forall k, k <= 12 -> (id =? k) = false) as E by (intros; now apply eqb_gt12).
  unfold dec_snbt. kill_ids E. now apply dtext_unk.
Qed.
Lemma dec_ty_unknown f id s ty : 12 < id -> is_ok (run_flat (dec_ty (S f) ty id) s) = false.
Proof. intros H. now apply dty_unk. Qed.

Lemma dst_unk : forall fuel dep ty cur id, 12 < id -> unk (dst fuel dep ty cur id).
Proof.
  induction fuel as [|f IH]; intros dep ty cur id H; [intros s; reflexivity|].
  assert (forall k, k <= 12 -> (id =? k) = false) as E by (intros; now apply eqb_gt12).
  cbn [dst]. destruct ty as [t| | | |t|t|n t|fs].
  - apply unk_bind; [auto with rb|]. now apply dty_unk.
  - destruct cur as [| [old|] | | | | | |]; apply unk_bind; auto with rb; try now apply dany_unk.
    unfold dec_any_into. destruct old; kill_ids E; apply unk_bind; auto with rb; now apply dty_unk.
  - kill_ids E. now apply misfit_unk.
  - apply unk_bind; [auto with rb|]. now apply dec_raw_unk.
  - kill_ids E. destruct t; try (apply unk_bind; [auto with rb|]; now apply IH).
    apply unk_bind; [auto with rb|]. now apply dec_raw_unk.
  - destruct t; kill_ids E; try now apply misfit_unk.
    apply unk_bind; [auto with rb|]. now apply dty_unk.
  - kill_ids E. now apply misfit_unk.
  - kill_ids E. now apply misfit_unk.
Qed.
Lemma dec_st_unknown f id s ty cur : 12 < id -> is_ok (run_flat (dec_st (S f) ty cur id) s) = false.
Proof. intros H. now apply dst_unk. Qed.

(* ---------- strict prefixes of well-formed documents, untyped targets (from C01's conformance theorems) ---------- *)
Lemma prefix_untyped : forall f name t fuel k,
  wf t -> nest_ok t -> name_ok name = true -> (length (payload t) < fuel)%nat -> (k < length (doc f name t))%nat ->
  let p := firstn k (doc f name t) in
  is_ok (run_flat (Decode f (dec_any fuel)) p) = false /\
  is_ok (run_flat (Decode f (dec_raw fuel)) p) = false /\
  is_ok (run_flat (Decode f (dec_dyn fuel)) p) = false /\
  is_ok (run_flat (Decode f (dec_snbt fuel)) p) = false /\
  (forall l, t = TCompound l ->
     is_ok (run_flat (Decode f (dec_map fuel)) p) = false /\
     is_ok (run_flat (Decode f (dec_struct0 fuel)) p) = false).
Proof.
  intros f name t fuel k Hwf Hnest Hn Hf Hk p.
  assert (forall A (body : N -> dec A) v, (forall id, robust (body id)) ->
            run_flat (Decode f body) (doc f name t ++ []) = FOk v [] ->
            is_ok (run_flat (Decode f body) p) = false) as G.
  { intros A body v Rb H. rewrite app_nil_r in H.
    eapply robust_prefix_fails; eauto. now apply Decode_robust. }
  repeat split.
  - eapply G; [auto with rb|]. apply Decode_doc; auto with rb. now apply dec_any_conforms.
  - eapply G; [auto with rb|]. apply Decode_doc; auto with rb. now apply dec_raw_conforms.
  - eapply G; [auto with rb|]. apply Decode_doc; auto with rb. now apply dec_dyn_conforms.
  - eapply G; [auto with rb|]. apply Decode_doc; auto with rb. unfold dec_snbt.
    pose proof (tag_id_range t) as Hr. destruct (N.eqb_spec (tag_id t) idEnd) as [E|_].
    + change idEnd with 0 in E. rewrite E in Hr. destruct Hr as [Hr _]. now compute in Hr.
    + now apply dec_text_conforms.
  - subst t. eapply G; [auto with rb|]. apply Decode_doc; auto with rb. now apply dec_map_conforms.
  - subst t. eapply G; [auto with rb|]. apply Decode_doc; auto with rb. now apply (dec_skip_conforms (TCompound l)).
Qed.
