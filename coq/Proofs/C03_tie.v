(* C03 / C01: the model of nbt/decode.go (Model/C01.v) IS the interpretation of what tools/gotrans/c03.go reads off the
   source on every run (Gen/C03gen.v): the acceptance table of Decoder.unmarshal for the scalar tags, the opening
   statements of the array / list / compound cases, the element kinds of the typed arrays, and the readers
   readInt8/16/32/64, readString, readTag, rawRead, enter translated statement by statement. *)
From Coq Require Import List String Arith NArith ZArith Lia Bool ZifyN ZifyNat ZifyBool.
From GoMC Require Import Base.Bits Base.Bytes Base.Dec Gen.Consts Model.C01 Model.C03 Model.C03_syntax Model.C03_indirect Gen.C03gen
  Proofs.C01 Proofs.C01_dec Proofs.C01_more.
Import ListNotations.
Open Scope N_scope.
Ltac Zify.zify_post_hook ::= Z.div_mod_to_equations.

(* ---------- the case constants ---------- *)
Lemma unmarshal_case_tags_ok : map Z.to_N unmarshal_case_tags = [idEnd; idByte; idShort; idInt; idFloat; idLong; idDouble; idString;
  idByteArray; idIntArray; idLongArray; idList; idCompound].
Proof. reflexivity. Qed.
Lemma scalar_table_tags : map (fun e => Z.to_N (se_tag e)) unmarshal_scalar_table = [idByte; idShort; idInt; idFloat; idLong; idDouble; idString].
Proof. reflexivity. Qed.
Lemma scalar_table_shape : forallb (fun e => se_read_first e && se_default_err e) unmarshal_scalar_table = true.
Proof. reflexivity. Qed.

(* ---------- the acceptance table: typed destinations ---------- *)
Theorem dty_scalar_table_ok : forall e, In e unmarshal_scalar_table -> forall f dep t, t <> GAny -> t <> GMapAny ->
  dty (S f) dep t (Z.to_N (se_tag e)) = interp_entry e t.
Proof.
  intros e He. cbn [unmarshal_scalar_table In] in He.
  repeat (destruct He as [<-|He]; [intros f dep t H1 H2; destruct t; try contradiction; reflexivity|]). contradiction.
Qed.
(* interface{} destinations *)
Theorem dany_scalar_table_ok : forall e, In e unmarshal_scalar_table -> forall f dep,
  dany (S f) dep (Z.to_N (se_tag e)) = interp_entry_any e.
Proof.
  intros e He. cbn [unmarshal_scalar_table In] in He.
  repeat (destruct He as [<-|He]; [intros f dep; reflexivity|]). contradiction.
Qed.
(* an interface{} / map destination of dty is the interface{} decoder / refuses scalars *)
Lemma dty_any f dep id : dty (S f) dep GAny id = (a <- dany (S f) dep id ;; Ret (XAny a)).
Proof. reflexivity. Qed.

(* ---------- the opening statements of the array / list / compound cases ---------- *)
Definition steps_of (tab : list (Z * list step)) (id : N) : list step :=
  match find_steps id tab with Some ss => ss | None => [] end.

Theorem dany_steps_ok : forall f dep,
  dany (S f) dep idByteArray = interp_steps (steps_of unmarshal_steps idByteArray) dep 0 0 [] (fun _ _ bs => Ret (ABytes bs)) /\
  dany (S f) dep idIntArray = interp_steps (steps_of unmarshal_steps idIntArray) dep 0 0 []
    (fun _ n _ => l <- rep f (Z.to_N n) rd_i32 [] ;; Ret (AInts l)) /\
  dany (S f) dep idLongArray = interp_steps (steps_of unmarshal_steps idLongArray) dep 0 0 []
    (fun _ n _ => l <- rep f (Z.to_N n) rd_i64 [] ;; Ret (ALongs l)) /\
  dany (S f) dep idList = interp_steps (steps_of unmarshal_steps idList) dep 0 0 []
    (fun et n _ => l <- rep f (Z.to_N n) (dany f (dep - 1) et) [] ;; Ret (AList l)) /\
  dany (S f) dep idCompound = interp_steps (steps_of unmarshal_steps idCompound) dep 0 0 []
    (fun _ _ _ => m <- comp_loop f rd_tag (dany f (dep - 1)) (fun k v m => map_set k v m) [] ;; Ret (AMap m)).
Proof. intros. repeat split; reflexivity. Qed.

Theorem dty_steps_ok : forall f dep t, t <> GAny -> t <> GMapAny ->
  dty (S f) dep t idByteArray = interp_steps (steps_of unmarshal_steps idByteArray) dep 0 0 []
    (fun _ _ bs => match t with
                   | GSl GU8 => Ret (XSlice (map (fun b => XInt (Z.of_N b)) bs))
                   | GSl GI8 => Ret (XSlice (map (fun b => XInt (sx8 b)) bs))
                   | GSl GBool => Ret (XSlice (map (fun b => XBool (negb (b =? 0))) bs))
                   | _ => Fail eType
                   end) /\
  dty (S f) dep t idList = interp_steps (steps_of unmarshal_steps idList) dep 0 0 []
    (fun et n _ => match t with
                   | GSl e => l <- rep f (Z.to_N n) (dty f (dep - 1) e et) [] ;; Ret (XSlice l)
                   | _ => Fail eType
                   end) /\
  dty (S f) dep t idIntArray = interp_steps (steps_of unmarshal_steps idIntArray) dep 0 0 []
    (fun _ n _ => match t with
                  | GSl GInt | GSl GI32 => l <- rep f (Z.to_N n) rd_i32 [] ;; Ret (XSlice (map XInt l))
                  | GSl GU32 => l <- rep f (Z.to_N n) rd_i32 [] ;; Ret (XSlice (map (fun v => XInt (Z.of_N (u32 v))) l))
                  | _ => Fail eType
                  end) /\
  dty (S f) dep t idLongArray = interp_steps (steps_of unmarshal_steps idLongArray) dep 0 0 []
    (fun _ n _ => match t with
                  | GSl GI64 => l <- rep f (Z.to_N n) rd_i64 [] ;; Ret (XSlice (map XInt l))
                  | GSl GU64 => l <- rep f (Z.to_N n) rd_i64 [] ;; Ret (XSlice (map (fun v => XInt (Z.of_N (u64 v))) l))
                  | _ => Fail eType
                  end).
Proof.
  intros f dep t H1 H2. destruct t; try contradiction; repeat split; reflexivity.
Qed.

(* the binary -> SNBT converter (StringifiedMessage.encode) *)
Theorem dtext_steps_ok : forall f dep,
  dtext (S f) dep idByteArray = interp_steps (steps_of encode_steps idByteArray) dep 0 0 []
    (fun _ n _ => _ <- rep f (Z.to_N n) rd_u8 [] ;; Ret tt) /\
  dtext (S f) dep idIntArray = interp_steps (steps_of encode_steps idIntArray) dep 0 0 []
    (fun _ n _ => _ <- rep f (Z.to_N n) rd_i32 [] ;; Ret tt) /\
  dtext (S f) dep idLongArray = interp_steps (steps_of encode_steps idLongArray) dep 0 0 []
    (fun _ n _ => _ <- rep f (Z.to_N n) rd_i64 [] ;; Ret tt) /\
  dtext (S f) dep idList = interp_steps (steps_of encode_steps idList) dep 0 0 []
    (fun et n _ => _ <- rep f (Z.to_N n) (dtext f (dep - 1) et) [] ;; Ret tt) /\
  dtext (S f) dep idCompound = interp_steps (steps_of encode_steps idCompound) dep 0 0 []
    (fun _ _ _ => comp_loop f rd_tag (dtext f (dep - 1)) (fun _ _ a => a) tt).
Proof. intros. repeat split; reflexivity. Qed.

(* struct / map destinations (Model/C03.v): the compound is entered before anything else *)
Theorem dst_steps_ok : forall f dep fs cur,
  dst (S f) dep (SStruct fs) cur idCompound = interp_steps (steps_of unmarshal_steps idCompound) dep 0 0 []
    (fun _ _ _ =>
       let c := match cur with YStruct l => l | _ => map (fun fd => zero (snd fd)) fs end in
       l <- st_loop f (fun tt tn acc =>
              match find_field fs tn with
              | Some (i, fty) => v <- dst f (dep - 1) fty (nth i acc (zero fty)) tt ;; Ret (set_nth i v acc)
              | None => _ <- dskip f (dep - 1) tt ;; Ret acc
              end) c ;;
       Ret (YStruct l)) /\
  dst (S f) dep SMap cur idCompound = interp_steps (steps_of unmarshal_steps idCompound) dep 0 0 []
    (fun _ _ _ =>
       let m0 := match cur with YMap (Some m) => m | _ => [] end in
       m <- comp_loop f rd_tag (dany f (dep - 1)) (fun k v m => map_set k v m) m0 ;; Ret (YMap (Some m))).
Proof. intros. split; reflexivity. Qed.

(* ---------- element kinds of the typed arrays ---------- *)
Definition kinds_of (id : N) : list rk :=
  match find (fun p => Z.to_N (fst p) =? id) unmarshal_elem_kinds with Some p => snd p | None => [] end.
(* the model accepts an empty array of tag id into []e *)
Definition model_accepts (id : N) (e : gty) : bool := is_ok (run_flat (dty 3 1 (GSl e) id) [0; 0; 0; 0]).
Theorem elem_kinds_ok : forall e,
  model_accepts idByteArray e = mem_rk (kind_of e) (kinds_of idByteArray) /\
  model_accepts idIntArray e = mem_rk (kind_of e) (kinds_of idIntArray) /\
  model_accepts idLongArray e = mem_rk (kind_of e) (kinds_of idLongArray).
Proof. intros e. destruct e; repeat split; reflexivity. Qed.

(* ---------- readers translated statement by statement ---------- *)
Theorem readInt8_tie : gen_readInt8 = rd_i8.
Proof. reflexivity. Qed.
Theorem readString_tie : gen_readString = rd_string.
Proof. reflexivity. Qed.
Theorem readTag_tie : gen_readTag = rd_tag.
Proof. reflexivity. Qed.
Theorem rawRead_tie : gen_rawRead = dskip.
Proof. reflexivity. Qed.

(* Decoder.enter / leave on the counter, against the model's budget dep = max_open - depth *)
Theorem enter_tie : forall depth : Z, (0 <= depth <= Z.of_N max_open)%Z ->
  let dep := max_open - Z.to_N depth in
  match gen_enter depth with
  | None => (dep =? 0) = true
  | Some d' => (dep =? 0) = false /\ max_open - Z.to_N d' = dep - 1
  end.
Proof.
  intros depth H dep. unfold gen_enter, dep, max_open in *.
  change nbt_maxNestingDepth with 10000%Z in *. change (Z.to_N 10000 + 1) with 10001 in *.
  destruct (Z.ltb_spec 10000 depth); [apply N.eqb_eq; lia|]. split; [apply N.eqb_neq; lia|lia].
Qed.

(* readInt16/32/64: the bytes are assembled big-endian *)
Theorem readInt_terms_ok :
  readInt16_terms = be_terms 2 /\ readInt32_terms = be_terms 4 /\ readInt64_terms = be_terms 8 /\
  (readInt16_width, readInt32_width, readInt64_width) = (2, 4, 8).
Proof. repeat split; reflexivity. Qed.

Lemma asm_step B a k K : a < 256 -> K = k + 8 -> N.lor (B * 2 ^ K) (N.shiftl a k) = (B * 256 + a) * 2 ^ k.
Proof.
  intros Ha ->. rewrite N.shiftl_mul_pow2. rewrite lor_add_disjoint'.
  - rewrite N.pow_add_r. change (2 ^ 8) with 256. lia.
  - rewrite N.pow_add_r. change (2 ^ 8) with 256. pose proof (pow2_pos k). nia.
Qed.
Theorem assemble16 a b : a < 256 -> b < 256 -> assemble readInt16_terms [a; b] = unbe [a; b].
Proof.
  intros. cbn [readInt16_terms assemble fold_left nth fst snd]. change 0 with (0 * 2 ^ 16) at 1.
  rewrite (asm_step _ a 8 16), (asm_step _ b 0 8) by (auto; reflexivity). cbn [unbe rev app unle]. lia.
Qed.
Theorem assemble32 a b c d : a < 256 -> b < 256 -> c < 256 -> d < 256 ->
  assemble readInt32_terms [a; b; c; d] = unbe [a; b; c; d].
Proof.
  intros. cbn [readInt32_terms assemble fold_left nth fst snd]. change 0 with (0 * 2 ^ 32) at 1.
  rewrite (asm_step _ a 24 32), (asm_step _ b 16 24), (asm_step _ c 8 16), (asm_step _ d 0 8) by (auto; reflexivity).
  cbn [unbe rev app unle]. lia.
Qed.
Theorem assemble64 a b c d e f g h : a < 256 -> b < 256 -> c < 256 -> d < 256 -> e < 256 -> f < 256 -> g < 256 -> h < 256 ->
  assemble readInt64_terms [a; b; c; d; e; f; g; h] = unbe [a; b; c; d; e; f; g; h].
Proof.
  intros. cbn [readInt64_terms assemble fold_left nth fst snd]. change 0 with (0 * 2 ^ 64) at 1.
  rewrite (asm_step _ a 56 64), (asm_step _ b 48 56), (asm_step _ c 40 48), (asm_step _ d 32 40),
    (asm_step _ e 24 32), (asm_step _ f 16 24), (asm_step _ g 8 16), (asm_step _ h 0 8) by (auto; reflexivity).
  cbn [unbe rev app unle]. lia.
Qed.

(* ---------- phase 4: the whole of Decoder.unmarshal for interface{} and typed scalar / slice destinations, and
   dynbt's Value.unmarshal, generated statement by statement (every case body, the element loops with their
   bounds, the destination-kind switches, the compound loop with its TagEnd test) ARE the model's decoders ---------- *)
Theorem unmarshal_any_tie : gen_any = dany.
Proof. reflexivity. Qed.
Theorem unmarshal_ty_tie : gen_ty = dty.
Proof. reflexivity. Qed.
Theorem dynbt_readers_tie : gen_dyn_readString = rd_string /\ gen_dyn_readTag = rd_tag_dyn.
Proof. split; reflexivity. Qed.
Theorem dynbt_unmarshal_tie : gen_dyn = ddyn.
Proof. reflexivity. Qed.
(* package dynbt has its own copy of the nesting constant *)
Theorem dynbt_depth_const : dynbt_maxNestingDepth = nbt_maxNestingDepth.
Proof. reflexivity. Qed.

(* struct-side destinations (Model/C03.v): the TagCompound case into a struct (field lookup by exact name then
   case folding, unknown fields skipped with rawRead) and into a map, the TagList case into a slice of structs and
   into an array (length test, in-place loop) are the generated ones, with dst itself as the recursive call *)
Theorem dst_struct_tie : forall f dep fs cur, dst (S f) dep (SStruct fs) cur idCompound = gen_st_struct dst f dep fs cur.
Proof. reflexivity. Qed.
Theorem dst_map_tie : forall f dep cur, dst (S f) dep SMap cur idCompound = gen_st_map f dep cur.
Proof. reflexivity. Qed.
Theorem dst_list_tie : forall f dep t cur, (forall e, t <> SB e) -> dst (S f) dep (SList t) cur idList = gen_st_list dst f dep t.
Proof. intros f dep t cur H. destruct t; try reflexivity. exfalso. now apply (H t). Qed.
Theorem dst_array_tie : forall f dep n t cur,
  dst (S f) dep (SArr n t) cur idList =
  gen_st_array f dep t (match cur with YArr l => l | _ => repeat (zero_ty t) (N.to_nat n) end).
Proof. reflexivity. Qed.


(* ---------- phase 5 ---------- *)
(* the binary -> SNBT converter walk, generated like rawRead *)
Theorem encode_tie : gen_text = dtext.
Proof. reflexivity. Qed.

(* TagByteArray / TagIntArray / TagLongArray into an array destination *)
Theorem dst_array_cases_tie : forall f dep n t cur,
  let c := match cur with YArr l => l | _ => repeat (zero_ty t) (N.to_nat n) end in
  dst (S f) dep (SArr n t) cur idByteArray = gen_st_array_bytes f dep t c /\
  dst (S f) dep (SArr n t) cur idIntArray = gen_st_array_int f dep t c /\
  dst (S f) dep (SArr n t) cur idLongArray = gen_st_array_long f dep t c.
Proof. intros. repeat split; reflexivity. Qed.

(* indirect(): the model routes a destination exactly as one pass over the translated statements of its loop does
   (pointer allocated when nil and followed, *RawMessage found as an Unmarshaler - the Unmarshaler assertion is
   tried first -, an interface{} holding a value replaced by a new zero value of its Go type, TagEnd stops at a
   settable pointer) *)
Definition route (f : nat) (dep : N) (ty : sty) (cur : sval) (id : N) (o : iout) : dec sval :=
  match o with
  | OStopNull => Fail eEND
  | OUnm => match ty with
            | SPtr _ => r <- dec_raw (S f) id ;; Ret (YPtr (Some (YRaw (fst r) (snd r))))
            | _ => r <- dec_raw (S f) id ;; Ret (YRaw (fst r) (snd r))
            end
  | OText => Fail eType
  | OAnyInto old => a <- dec_any_into (S f) dep old id ;; Ret (YAny (Some a))
  | ODescend t c => v <- dst f dep t c id ;; Ret (YPtr (Some v))
  | OValue => match ty with
              | SRaw | SPtr _ => Fail eType       (* never: RawMessage is found as an Unmarshaler, a pointer is followed *)
              | _ => dst (S f) dep ty cur id      (* not a pointer: the kind switch of unmarshal (generated pieces above) *)
              end
  end.
Theorem indirect_route_ok : forall f dep ty cur id,
  dst (S f) dep ty cur id = route f dep ty cur id (run_isteps indirect_steps ty cur (id =? idEnd)).
Proof.
  intros f dep ty cur id. destruct ty as [t| | | |t|t|n t|fs]; try reflexivity.
  - destruct cur as [| [old|] | | | | | |]; reflexivity.
  - cbn [dst]. destruct (id =? idEnd); [reflexivity|]. destruct t; destruct cur as [| | | |[c|]| | |]; reflexivity.
Qed.
Theorem indirect_method_order : In (IkMethods [MUnmarshaler; MTextUnmarshaler]) indirect_steps.
Proof. cbn. tauto. Qed.

(* ---------- allocation: the translated growth rules never allocate for a declared count the stream does not back ---------- *)
(* the only transitions of makeSlice / growSlice (and readBytes) in the decoder: allocate `first n`; read one element
   while fewer than the allocated ones are read; grow - only when ALL allocated elements have been read and fewer
   than n are allocated (`if i == buf.Len() { buf = growSlice(buf, n) }`, `if read = len(buf); read == n {return}`) *)
Inductive areach (first : Z -> Z) (grow : Z -> Z -> Z) (n : Z) : Z -> Z -> Prop :=
| ar_init : areach first grow n (first n) 0
| ar_read a r : areach first grow n a r -> (r < a)%Z -> areach first grow n a (r + 1)
| ar_grow a r : areach first grow n a r -> r = a -> (a < n)%Z -> areach first grow n (grow a n) r.

Definition alloc_inv (n a r : Z) : Prop :=
  (0 <= r <= a)%Z /\ (a <= n)%Z /\ (a <= nbt_maxPrealloc \/ a <= 2 * r)%Z.

Theorem alloc_bounded_slices : forall n a r, (0 <= n)%Z ->
  areach gen_makeSlice_len gen_growSlice_len n a r -> alloc_inv n a r.
Proof.
  intros n a r Hn H. unfold alloc_inv. change nbt_maxPrealloc with 65536%Z.
  induction H as [|a r H IH Hr|a r H IH -> Ha].
  - unfold gen_makeSlice_len. change nbt_maxPrealloc with 65536%Z. lia.
  - lia.
  - unfold gen_growSlice_len. lia.
Qed.
Theorem alloc_bounded_bytes : forall n a r, (0 <= n)%Z ->
  areach gen_readBytes_first gen_readBytes_grow n a r -> alloc_inv n a r.
Proof.
  intros n a r Hn H. unfold alloc_inv. change nbt_maxPrealloc with 65536%Z.
  induction H as [|a r H IH Hr|a r H IH -> Ha].
  - unfold gen_readBytes_first. change nbt_maxPrealloc with 65536%Z. lia.
  - lia.
  - unfold gen_readBytes_grow. lia.
Qed.
(* dynbt appendN: a step never exceeds what is still declared, nor the larger of 64 KiB and what the buffer holds
   (all of which has been read: the next step is taken only after io.ReadFull filled the previous one) *)
Theorem alloc_bounded_appendN : forall start n, (0 <= start)%Z -> (0 < n)%Z ->
  (0 < gen_appendN_step start n <= n)%Z /\ (gen_appendN_step start n <= Z.max start 65536)%Z.
Proof. intros. unfold gen_appendN_step. lia. Qed.

(* the nil map[string]any destination (dmap): every tag but TagCompound ends in the error of its kind test after the
   reads that precede it; TagCompound builds the map like the interface{} destination *)
Theorem unmarshal_map_tie : gen_map = dmap.
Proof. reflexivity. Qed.
