(* C03 / C01: the headline theorems restated over what is TRANSLATED from nbt/decode.go on every run: the
   interpretation of the acceptance table (interp_entry, interp_entry_any), the translated readers gen_readString /
   gen_readTag / gen_rawRead, and the opening steps. *)
From Coq Require Import List Arith NArith ZArith Lia Bool.
From GoMC Require Import Base.Bytes Base.Dec Gen.Consts Model.C01 Model.C03 Model.C03_syntax Gen.C03gen
  Proofs.C01 Proofs.C01_dec Proofs.C01_more Proofs.C03 Proofs.C03_top Proofs.C03_st Proofs.C03_tie.
Import ListNotations.
Open Scope N_scope.

(* totality of the translated scalar cases, every destination type, every input *)
Theorem scalar_table_total : forall e, In e unmarshal_scalar_table -> forall s,
  (forall t, t <> GAny -> t <> GMapAny -> prog s (run_flat (interp_entry e t) s)) /\
  prog s (run_flat (interp_entry_any e) s).
Proof.
  intros e He s. split.
  - intros t H1 H2. rewrite <- (dty_scalar_table_ok e He (S (length s)) 0 t H1 H2). apply dty_prog. lia.
  - rewrite <- (dany_scalar_table_ok e He (S (length s)) 0). apply dany_prog. lia.
Qed.
(* no bare Read in them: no over-read, fragmentation-proof *)
Theorem scalar_table_robust : forall e, In e unmarshal_scalar_table ->
  (forall t, t <> GAny -> t <> GMapAny -> robust (interp_entry e t)) /\ robust (interp_entry_any e).
Proof.
  intros e He. split.
  - intros t H1 H2. rewrite <- (dty_scalar_table_ok e He 0 0 t H1 H2). apply dty_robust.
  - rewrite <- (dany_scalar_table_ok e He 0 0). apply dany_robust.
Qed.

(* the translated rawRead: total with progress for every input and every nesting budget, exact on well-formed values,
   negative lengths / unknown ids / exhausted budget are errors *)
Theorem rawRead_total : forall fuel dep id s, (length s + 1 < fuel)%nat -> prog s (run_flat (gen_rawRead fuel dep id) s).
Proof. rewrite rawRead_tie. exact dskip_prog. Qed.
Theorem rawRead_robust : forall fuel dep id, robust (gen_rawRead fuel dep id).
Proof. rewrite rawRead_tie. exact dskip_robust. Qed.
Theorem rawRead_exact : forall t, wf t -> forall fuel dep rest, (length (payload t) < fuel)%nat -> depth t <= dep ->
  run_flat (gen_rawRead fuel dep (tag_id t)) (payload t ++ rest) = FOk tt rest.
Proof. rewrite rawRead_tie. exact dskip_conforms. Qed.
Theorem rawRead_errors : forall f dep,
  (forall id h rest, array_id id -> lenN h = 4 -> (sx32 (unbe h) < 0)%Z -> is_ok (run_flat (gen_rawRead (S f) dep id) (h ++ rest)) = false) /\
  (forall id s, 12 < id -> is_ok (run_flat (gen_rawRead (S f) dep id) s) = false) /\
  (forall s, run_flat (gen_rawRead (S f) 0 idList) s = FErr eDepth /\ run_flat (gen_rawRead (S f) 0 idCompound) s = FErr eDepth).
Proof.
  intros f dep. rewrite rawRead_tie. repeat split.
  - intros id h rest Hid Hh Hn. now apply dskip_negerr.
  - intros id s H. now apply dskip_unk.
Qed.
Theorem readString_negative : forall h rest, lenN h = 2 -> (sx16 (unbe h) < 0)%Z -> run_flat gen_readString (h ++ rest) = FErr eNeg.
Proof. rewrite readString_tie. exact negative_string_len. Qed.
Theorem readTag_total : forall s, prog s (run_flat gen_readTag s).
Proof. rewrite readTag_tie. exact rd_tag_prog. Qed.

(* ---------- phase 4: the whole decoder over the generated pieces ---------- *)
Theorem decoder_total_translated : forall f fuel s, (length s + 1 < fuel)%nat ->
  prog s (run_flat (Decode f (gen_any fuel max_open)) s) /\
  (forall t, prog s (run_flat (Decode f (gen_ty fuel max_open t)) s)) /\
  prog s (run_flat (Decode f (gen_dyn fuel max_open)) s) /\
  (forall dep id, prog s (run_flat (gen_rawRead fuel dep id) s)) /\
  (forall dep fs cur, (length s + 1 + sdepth (SStruct fs) < fuel)%nat ->
     prog s (run_flat (gen_st_struct dst (pred fuel) dep fs cur) s) /\ prog s (run_flat (gen_st_map (pred fuel) dep cur) s)).
Proof.
  intros f fuel s H. rewrite unmarshal_any_tie, unmarshal_ty_tie, dynbt_unmarshal_tie, rawRead_tie.
  split; [|split; [|split; [|split]]].
  - apply Decode_prog; auto with rb. intros. apply prog_prog0, dany_prog. lia.
  - intros t. apply Decode_prog; auto with rb. intros. apply prog_prog0, dty_prog. lia.
  - apply Decode_prog; auto with rb. intros. apply ddyn_prog. lia.
  - intros. apply dskip_prog, H.
  - intros dep fs cur L. destruct fuel as [|fu]; [lia|]. cbn [pred]. rewrite <- dst_struct_tie, <- dst_map_tie.
    split; apply dst_prog; cbn [sdepth] in *; lia.
Qed.

Theorem decode_exact_translated : forall f name t rest fuel,
  wf t -> nest_ok t -> name_ok name = true -> (length (payload t) < fuel)%nat ->
  run_flat (Decode f (gen_any fuel max_open)) (doc f name t ++ rest) = FOk (root_name f name, value_of t) rest /\
  run_flat (Decode f (gen_dyn fuel max_open)) (doc f name t ++ rest) = FOk (root_name f name, dyn_of t) rest /\
  run_flat (gen_rawRead fuel max_open (tag_id t)) (payload t ++ rest) = FOk tt rest.
Proof.
  intros f name t rest fuel W Hn Hname Hf. rewrite unmarshal_any_tie, dynbt_unmarshal_tie, rawRead_tie. repeat split.
  - apply Decode_doc; auto with rb. now apply dany_conforms.
  - apply Decode_doc; auto with rb. now apply ddyn_conforms.
  - now apply dskip_conforms.
Qed.
Theorem decoder_robust_translated : forall fuel dep,
  (forall id, robust (gen_any fuel dep id)) /\ (forall t id, robust (gen_ty fuel dep t id)) /\ (forall id, robust (gen_dyn fuel dep id)).
Proof. intros. rewrite unmarshal_any_tie, unmarshal_ty_tie, dynbt_unmarshal_tie. repeat split; intros; auto with rb. Qed.

(* ---------- phase 5 ---------- *)
Theorem encode_total_translated : forall fuel dep id s, (length s + 1 < fuel)%nat -> prog s (run_flat (gen_text fuel dep id) s).
Proof. rewrite encode_tie. exact dtext_prog. Qed.
Theorem encode_exact_translated : forall t, wf t -> forall fuel dep rest, (length (payload t) < fuel)%nat -> depth t <= dep ->
  run_flat (gen_text fuel dep (tag_id t)) (payload t ++ rest) = FOk tt rest.
Proof. rewrite encode_tie. exact dtext_conforms. Qed.
Theorem encode_robust_translated : forall fuel dep id, robust (gen_text fuel dep id).
Proof. rewrite encode_tie. exact dtext_robust. Qed.
