(* C03: the typed scalar/slice destinations (dec_ty of Model/C01.v), whole documents, RawMessage.String,
   and the generic "no strict prefix of an accepted input is accepted" lemma *)
From Coq Require Import List Arith NArith ZArith Lia Bool ZifyN ZifyNat ZifyBool.
From GoMC Require Import Base.Bytes Base.Dec Gen.Consts Model.C01 Proofs.C01 Proofs.C01_dec Proofs.C01_more Proofs.C03.
Import ListNotations.
Open Scope N_scope.
Ltac Zify.zify_post_hook ::= Z.div_mod_to_equations.

#[export] Hint Resolve dec_ty_robust : rb.

(* goal-directed proof search for the consumption predicates: one rule per constructor of the decoders *)
Ltac pg_leaf :=
  first [ exact I | apply ret_prog0
        | apply rd_u8_prog | apply rd_i8_prog | apply rd_i16_prog | apply rd_i32_prog | apply rd_i64_prog
        | apply rd_string_prog | apply rd_tag_prog
        | apply prog_prog0; first [ apply rd_u8_prog | apply rd_i8_prog | apply rd_i16_prog | apply rd_i32_prog
                                  | apply rd_i64_prog | apply rd_string_prog | apply rd_tag_prog ] ].

Ltac pg :=
  lazymatch goal with
  | |- prog0 _ (run_flat (Ret _) _) => apply ret_prog0
  | |- prog0 _ (run_flat (Fail _) _) => exact I
  | |- prog _ (run_flat (Fail _) _) => exact I
  | |- _ _ (run_flat (if ?c then _ else _) _) => destruct c; pg
  | |- _ _ (run_flat (match ?x with _ => _ end) _) => destruct x; pg
  | |- prog0 _ (run_flat (ReadFull _ _) _) => apply readfull_prog0; intros; pg
  | |- prog _ (run_flat (ReadFull _ _) _) => apply readfull_prog; [lia | intros; pg]
  | |- prog0 ?s (run_flat (rep _ _ _ _) ?s) =>
      apply rep_prog0 with (L := length s); [auto with rb | intros; pg | lia | lia]
  | |- prog0 _ (run_flat (bind _ _) _) => apply prog0_bind; [auto with rb | pg | intros; pg]
  | |- prog _ (run_flat (bind _ _) _) => apply prog_bind; [auto with rb | pg | intros; pg]
  | |- _ => first [ pg_leaf | idtac ]
  end.

Lemma dec_map_sprog fuel id s : (length s + 1 < fuel)%nat -> prog s (run_flat (dec_map fuel id) s).
Proof. intros H. unfold dec_map. top_ifs; try exact I. apply dec_any_prog, H. Qed.
Lemma dec_struct0_sprog fuel id s : (length s + 1 < fuel)%nat -> prog s (run_flat (dec_struct0 fuel id) s).
Proof. intros H. unfold dec_struct0. top_ifs; try exact I. apply dec_skip_prog, H. Qed.

(* typed scalar and slice destinations *)
Theorem dec_ty_prog : forall fuel t id s, (length s + 1 < fuel)%nat -> prog s (run_flat (dec_ty fuel t id) s).
Proof.
  induction fuel as [|f IH]; intros t id s Hs; [lia|].
  destruct t; cbn [dec_ty]; pg;
    try (apply dec_any_prog; lia); try (apply prog_prog0, dec_any_prog; lia);
    try (apply dec_map_sprog; lia); try (apply IH; lia).
Qed.

(* ---------- whole documents: Ok means the rest is strictly shorter (the header is at least one byte) ---------- *)
Lemma Decode_prog {A} f (body : N -> dec A) s :
  (forall id, robust (body id)) ->
  (forall id r, (length r < length s)%nat -> prog0 r (run_flat (body id) r)) ->
  prog s (run_flat (Decode f body) s).
Proof.
  intros Rb Hb. unfold Decode.
  apply prog_bind; [auto with rb|apply decode_hdr_prog|]. intros tn r Hr.
  apply prog0_bind; [apply Rb|apply Hb, Hr|intros; apply ret_prog0].
Qed.

Lemma prog_ok {A} s (r : fres A) : prog s r -> ok_or_err r.
Proof. destruct r; cbn; auto. Qed.

(* RawMessage.String never fails: text, or the <Invalid> marker *)
Lemma raw_string_total fuel id data : (length data + 1 < fuel)%nat ->
  exists b r, raw_string fuel id data = FOk b r.
Proof.
  intros H. unfold raw_string. destruct (id =? idEnd); [eauto|].
  pose proof (dec_text_prog fuel id data H) as P.
  destruct (run_flat (dec_text fuel id) data); cbn in P; try tauto; eauto.
Qed.

(* ---------- prefixes: whatever a robust decoder accepts, it accepts no input that stops inside the
   part it consumed ---------- *)
Lemma robust_consumed_prefix_fails {A} (d : dec A) :
  robust d -> forall s a r, run_flat d s = FOk a r ->
  forall k, (k < length s - length r)%nat -> is_ok (run_flat d (firstn k s)) = false.
Proof.
  intros R s a r Hs k Hk.
  destruct (robust_rest_suffix d R _ _ _ Hs) as [c Hc].
  assert (length s = length c + length r)%nat as L by (rewrite Hc, app_length; lia).
  (* d on c alone: Ok with nothing left *)
  destruct (run_flat d (firstn k s)) as [a' r'| | |] eqn:E; auto.
  pose proof (robust_append_stable d R _ _ _ E (skipn k s)) as H.
  rewrite firstn_skipn in H. rewrite Hs in H. inversion H as [[Ha Hr]].
  assert (length r = length r' + length (skipn k s))%nat as L2 by (rewrite Hr, app_length; lia).
  rewrite skipn_length in L2. lia.
Qed.
