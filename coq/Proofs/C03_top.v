(* C03: the typed scalar/slice destinations (dec_ty of Model/C01.v), whole documents, RawMessage.String,
   and the generic "no strict prefix of an accepted input is accepted" lemma *)
From Coq Require Import List Arith NArith ZArith Lia Bool ZifyN ZifyNat ZifyBool.
From GoMC Require Import Base.Bytes Base.Dec Gen.Consts Model.C01 Proofs.C01 Proofs.C01_dec Proofs.C01_more Proofs.C03.
Import ListNotations.
Open Scope N_scope.
Ltac Zify.zify_post_hook ::= Z.div_mod_to_equations.

#[export] Hint Resolve dec_ty_robust : rb.

Lemma dec_map_sprog fuel id s : (length s + 1 < fuel)%nat -> prog s (run_flat (dec_map fuel id) s).
Proof. intros H. now apply dmap_prog. Qed.
Lemma dec_struct0_sprog fuel id s : (length s + 1 < fuel)%nat -> prog s (run_flat (dec_struct0 fuel id) s).
Proof. intros H. unfold dec_struct0. top_ifs; try exact I. apply dec_skip_prog, H. Qed.

(* typed scalar and slice destinations *)
#[export] Hint Resolve dty_robust : rb.
Theorem dty_prog : forall fuel dep t id s, (length s + 1 < fuel)%nat -> prog s (run_flat (dty fuel dep t id) s).
Proof.
  induction fuel as [|f IH]; intros dep t id s Hs; [lia|].
  destruct t; cbn [dty]; pg;
    try (apply dany_prog; lia); try (apply prog_prog0, dany_prog; lia);
    try (apply dmap_prog; lia); try (apply IH; lia).
Qed.
Theorem dec_ty_prog : forall fuel t id s, (length s + 1 < fuel)%nat -> prog s (run_flat (dec_ty fuel t id) s).
Proof. intros. now apply dty_prog. Qed.

(* ---------- whole documents: Ok means the rest is strictly shorter (the header is at least one byte) ---------- *)
Lemma Decode_prog {A} f (body : N -> dec A) s :
  (forall id, robust (body id)) ->
  (forall id r, (length r < length s)%nat -> prog0 r (run_flat (body id) r)) ->
  prog s (run_flat (Decode f body) s).
Proof.
  intros Rb Hb. unfold Decode.
  apply prog_bind; [auto with rb|apply decode_hdr_prog|]. intros tn r Hr.
  apply prog0_bind; [apply Rb|apply Hb, Hr|intros; apply ret_prog0].
Qed.

Lemma prog_ok {A} s (r : fres A) : prog s r -> ok_or_err r.
Proof. destruct r; cbn; auto. Qed.

(* RawMessage.String never fails: text, or the <Invalid> marker *)
Lemma raw_string_total fuel id data : (length data + 1 < fuel)%nat ->
  exists b r, raw_string fuel id data = FOk b r.
Proof.
  intros H. unfold raw_string. destruct (id =? idEnd); [eauto|].
  pose proof (dec_text_prog fuel id data H) as P.
  destruct (run_flat (dec_text fuel id) data); cbn in P; try tauto; eauto.
Qed.

(* ---------- prefixes: whatever a robust decoder accepts, it accepts no input that stops inside the
   part it consumed ---------- *)
Lemma robust_consumed_prefix_fails {A} (d : dec A) :
  robust d -> forall s a r, run_flat d s = FOk a r ->
  forall k, (k < length s - length r)%nat -> is_ok (run_flat d (firstn k s)) = false.
Proof.
  intros R s a r Hs k Hk.
  destruct (robust_rest_suffix d R _ _ _ Hs) as [c Hc].
  assert (length s = length c + length r)%nat as L by (rewrite Hc, app_length; lia).
  (* d on c alone: Ok with nothing left *)
  destruct (run_flat d (firstn k s)) as [a' r'| | |] eqn:E; auto.
  pose proof (robust_append_stable d R _ _ _ E (skipn k s)) as H.
  rewrite firstn_skipn in H. rewrite Hs in H. inversion H as [[Ha Hr]].
  assert (length r = length r' + length (skipn k s))%nat as L2 by (rewrite Hr, app_length; lia).
  rewrite skipn_length in L2. lia.
Qed.
