(* C04 proofs, part 1: characters, decimal digits, tokens (leaves of the tree) *)
From Coq Require Import List Arith NArith ZArith Lia Bool ZifyN ZifyNat ZifyBool DecimalN DecimalPos.
From GoMC Require Import Base.Bytes Gen.Consts Model.C04.
Import ListNotations.
Open Scope N_scope.

(* ------------------------------------------------------------------ characters *)
Lemma ws_not_bare c : is_ws c = true -> is_bare c = false.
Proof. unfold is_ws, is_bare, is_digit, is_alpha. lia. Qed.
Lemma bare_not_ws c : is_bare c = true -> is_ws c = false.
Proof. unfold is_ws, is_bare, is_digit, is_alpha. lia. Qed.
Lemma digit_bare c : is_digit c = true -> is_bare c = true.
Proof. unfold is_bare. intros ->. reflexivity. Qed.
Lemma alpha_bare c : is_alpha c = true -> is_bare c = true.
Proof. unfold is_bare. intros ->. destruct (is_digit c); reflexivity. Qed.
Lemma digit_not_alpha c : is_digit c = true -> is_alpha c = false.
Proof. unfold is_digit, is_alpha. lia. Qed.
(* a bare character is none of the delimiters the parser dispatches on *)
Lemma bare_not_delim c : is_bare c = true ->
  (c =? 123) = false /\ (c =? 91) = false /\ (c =? 34) = false /\ (c =? 39) = false /\ (c =? 93) = false
  /\ (c =? 125) = false /\ (c =? 59) = false /\ (c =? 44) = false /\ (c =? 58) = false.
Proof. unfold is_bare, is_digit, is_alpha. lia. Qed.
Lemma ws_not_delim c : is_ws c = true ->
  (c =? 93) = false /\ (c =? 125) = false /\ (c =? 59) = false /\ (c =? 44) = false /\ (c =? 58) = false.
Proof. unfold is_ws. lia. Qed.
Lemma digit_not_sign c : is_digit c = true -> (c =? 45) = false /\ (c =? 43) = false /\ (c =? 46) = false.
Proof. unfold is_digit. lia. Qed.

Lemma forallb_app {A} (p : A -> bool) a b : forallb p (a ++ b) = forallb p a && forallb p b.
Proof. induction a as [|x a IH]; simpl; [reflexivity|]. rewrite IH. apply andb_assoc. Qed.

(* ------------------------------------------------------------------ skip_ws, span *)
Lemma skip_ws_app w s : all_ws w = true -> skip_ws (w ++ s) = skip_ws s.
Proof.
  unfold all_ws. induction w as [|c w IH]; simpl; intros H; [reflexivity|].
  apply andb_prop in H. destruct H as [Hc Hw]. rewrite Hc. auto.
Qed.
Lemma skip_ws_cons c s : is_ws c = false -> skip_ws (c :: s) = c :: s.
Proof. simpl. intros ->. reflexivity. Qed.

(* what may follow a token: nothing, or a character that cannot continue it *)
Definition stop (p : N -> bool) (rest : list N) : Prop :=
  match rest with [] => True | c :: _ => p c = false end.

Lemma span_app p a b : forallb p a = true -> stop p b -> span p (a ++ b) = (a, b).
Proof.
  induction a as [|x a IH]; simpl; intros Ha Hb.
  - destruct b as [|c b]; [reflexivity|]. simpl in Hb. simpl. rewrite Hb. reflexivity.
  - apply andb_prop in Ha. destruct Ha as [Hx Ha]. rewrite Hx, (IH Ha Hb). reflexivity.
Qed.

Lemma stop_ws_app w rest : all_ws w = true -> stop is_bare rest -> stop is_bare (w ++ rest).
Proof.
  destruct w as [|c w]; simpl; intros H Hr; [exact Hr|].
  unfold all_ws in H. simpl in H. apply andb_prop in H. apply ws_not_bare. tauto.
Qed.

(* ------------------------------------------------------------------ quoted strings *)
Lemma unq_escape q s rest : (q =? 92) = false ->
  unq q (escape q s ++ q :: rest) = Some (s, rest).
Proof.
  intros Hq. induction s as [|c s IH].
  - simpl. rewrite N.eqb_refl. reflexivity.
  - unfold escape in *. cbn [flat_map]. rewrite <- app_assoc.
    destruct (c =? q) eqn:Ecq.
    + apply N.eqb_eq in Ecq. subst c. cbn [orb app unq].
      replace (92 =? q) with false by (rewrite N.eqb_sym; auto).
      cbn [N.eqb Pos.eqb]. rewrite N.eqb_refl. cbn [orb]. rewrite IH. reflexivity.
    + destruct (c =? 92) eqn:Ec.
      * apply N.eqb_eq in Ec. subst c. cbn [orb app unq]. rewrite Ecq.
        cbn [N.eqb Pos.eqb]. rewrite orb_true_r. rewrite IH. reflexivity.
      * cbn [orb app unq]. rewrite Ecq, Ec, IH. reflexivity.
Qed.

(* ------------------------------------------------------------------ decimal digits *)
Lemma bytes_uint_bytes u : bytes_uint (uint_bytes u) = u.
Proof. induction u; cbn [uint_bytes bytes_uint N.eqb Pos.eqb]; congruence. Qed.
Lemma undec_dec n : undec_N (dec_N n) = n.
Proof. unfold undec_N, dec_N. rewrite bytes_uint_bytes. apply DecimalN.Unsigned.of_to. Qed.
Lemma uint_bytes_digits u : forallb is_digit (uint_bytes u) = true.
Proof. induction u; cbn [uint_bytes forallb]; [reflexivity|..]; rewrite IHu; reflexivity. Qed.
Lemma dec_N_digits n : forallb is_digit (dec_N n) = true.
Proof. apply uint_bytes_digits. Qed.
Lemma dec_N_cons n : exists d ds, dec_N n = d :: ds /\ is_digit d = true /\ forallb is_digit ds = true.
Proof.
  pose proof (dec_N_digits n) as H. unfold dec_N in *.
  assert (NN: N.to_uint n <> Decimal.Nil).
  { destruct n; simpl; [discriminate|]. apply DecimalPos.Unsigned.to_uint_nonnil. }
  destruct (N.to_uint n); try congruence; cbn [uint_bytes] in *;
    cbn [forallb] in H; apply andb_prop in H; destruct H; eauto.
Qed.

Lemma num_Z_dec v : num_Z (v <? 0)%Z (dec_N (Z.abs_N v)) = v.
Proof. unfold num_Z. rewrite undec_dec. destruct (Z.ltb_spec v 0); lia. Qed.

(* ------------------------------------------------------------------ number tokens *)
Section Tokens.
Variables pf32 pf64 : flit -> option N.

Lemma sign_of_bare L neg : forallb is_bare (sign_of L neg) = true.
Proof. unfold sign_of. destruct neg; [reflexivity|]. destruct (plus L); reflexivity. Qed.

Lemma strip_sign_sign L neg d ds : is_digit d = true ->
  strip_sign (sign_of L neg ++ d :: ds) = (neg, d :: ds).
Proof.
  intros Hd. unfold sign_of. destruct neg; [reflexivity|]. destruct (plus L); [reflexivity|].
  cbn [app strip_sign]. destruct (digit_not_sign d Hd) as (-> & -> & _). reflexivity.
Qed.
Lemma not_word_sign L neg d ds : is_digit d = true -> is_word (sign_of L neg ++ d :: ds) = false.
Proof.
  intros Hd. unfold sign_of. destruct neg; [reflexivity|]. destruct (plus L); [reflexivity|].
  cbn [app is_word]. rewrite (digit_not_alpha d Hd). reflexivity.
Qed.
Lemma classify_signed L neg d ds : is_digit d = true ->
  classify pf32 pf64 (sign_of L neg ++ d :: ds) = classify_num pf32 pf64 neg (d :: ds).
Proof.
  intros Hd. unfold classify. rewrite (not_word_sign L neg d ds Hd), (strip_sign_sign L neg d ds Hd). reflexivity.
Qed.

Lemma span_digits d ds sf : is_digit d = true -> forallb is_digit ds = true -> stop is_digit sf ->
  span is_digit (d :: ds ++ sf) = (d :: ds, sf).
Proof.
  intros Hd Hds Hs. change (d :: ds ++ sf) with ((d :: ds) ++ sf). apply span_app; [|exact Hs].
  cbn [forallb]. rewrite Hd, Hds. reflexivity.
Qed.

Lemma sfx_stop L lo upc : is_digit lo = false -> is_digit upc = false -> stop is_digit (sfx L lo upc).
Proof. intros A B. unfold sfx. cbn [stop]. destruct (up L); assumption. Qed.

(* integers: sign, digits, suffix *)
Lemma pr_int_shape L v : exists d ds, pr_int L v = sign_of L (v <? 0)%Z ++ d :: ds /\ is_digit d = true
  /\ forallb is_digit ds = true /\ num_Z (v <? 0)%Z (d :: ds) = v.
Proof.
  destruct (dec_N_cons (Z.abs_N v)) as (d & ds & E & Hd & Hds). exists d, ds.
  unfold pr_int. rewrite E. repeat split; auto. rewrite <- E. apply num_Z_dec.
Qed.

Ltac int_tok L v :=
  let d := fresh "d" in let ds := fresh "ds" in let E := fresh "E" in
  let Hd := fresh "Hd" in let Hds := fresh "Hds" in let NZ := fresh "NZ" in
  destruct (pr_int_shape L v) as (d & ds & E & Hd & Hds & NZ); rewrite E;
  rewrite <- app_assoc; cbn [app]; rewrite (classify_signed L _ d _ Hd);
  unfold classify_num.

Lemma classify_byte L v : in_rng 8 v = true ->
  classify pf32 pf64 (pr_int L v ++ sfx L 98 66) = Some (TByte v).
Proof.
  intros R. int_tok L v. rewrite (span_digits d ds _ Hd Hds) by (apply sfx_stop; reflexivity).
  unfold sfx, ranged. rewrite NZ. destruct (up L); cbn; rewrite R; reflexivity.
Qed.
Lemma classify_short L v : in_rng 16 v = true ->
  classify pf32 pf64 (pr_int L v ++ sfx L 115 83) = Some (TShort v).
Proof.
  intros R. int_tok L v. rewrite (span_digits d ds _ Hd Hds) by (apply sfx_stop; reflexivity).
  unfold sfx, ranged. rewrite NZ. destruct (up L); cbn; rewrite R; reflexivity.
Qed.
Lemma classify_long L v : in_rng 64 v = true ->
  classify pf32 pf64 (pr_int L v ++ sfx L 108 76) = Some (TLong v).
Proof.
  intros R. int_tok L v. rewrite (span_digits d ds _ Hd Hds) by (apply sfx_stop; reflexivity).
  unfold sfx, ranged. rewrite NZ. destruct (up L); cbn; rewrite R; reflexivity.
Qed.
Lemma classify_int_sfx L v : in_rng 32 v = true ->
  classify pf32 pf64 (pr_int L v ++ sfx L 105 73) = Some (TInt v).
Proof.
  intros R. int_tok L v. rewrite (span_digits d ds _ Hd Hds) by (apply sfx_stop; reflexivity).
  unfold sfx, ranged. rewrite NZ. destruct (up L); cbn; rewrite R; reflexivity.
Qed.
Lemma classify_int_plain L v : in_rng 32 v = true ->
  classify pf32 pf64 (pr_int L v ++ []) = Some (TInt v).
Proof.
  intros R. int_tok L v. rewrite (span_digits d ds [] Hd Hds) by exact I.
  unfold ranged. rewrite NZ, R. reflexivity.
Qed.

(* floats: sign, integer digits, optional fraction, suffix; the value comes from the oracle *)
Lemma flit_shape (f : flit) : flit_ok f = true ->
  exists neg d ds fr, f = (neg, d :: ds, fr) /\ is_digit d = true /\ forallb is_digit ds = true
    /\ forallb is_digit fr = true.
Proof.
  destruct f as [[neg i] fr]. unfold flit_ok. destruct i as [|d ds]; [discriminate|].
  cbn [forallb]. intros H. apply andb_prop in H. destruct H as [H1 H2]. apply andb_prop in H1.
  exists neg, d, ds, fr. tauto.
Qed.

Lemma classify_float L f b : flit_ok f = true -> pf32 f = Some b ->
  classify pf32 pf64 (pr_flit L f ++ sfx L 102 70) = Some (TFloat b).
Proof.
  intros OK PF. destruct (flit_shape f OK) as (neg & d & ds & fr & -> & Hd & Hds & Hfr).
  unfold pr_flit. destruct fr as [|d2 fr].
  - rewrite app_nil_r. rewrite <- app_assoc. cbn [app]. rewrite (classify_signed L _ d _ Hd).
    unfold classify_num. rewrite (span_digits d ds _ Hd Hds) by (apply sfx_stop; reflexivity).
    unfold sfx. destruct (up L); cbn; rewrite PF; reflexivity.
  - cbn [forallb] in Hfr. apply andb_prop in Hfr. destruct Hfr as [Hd2 Hfr].
    repeat rewrite <- app_assoc. cbn [app]. rewrite (classify_signed L _ d _ Hd).
    unfold classify_num. rewrite (span_digits d ds _ Hd Hds) by reflexivity.
    cbn [N.eqb Pos.eqb]. rewrite (span_digits d2 fr _ Hd2 Hfr) by (apply sfx_stop; reflexivity).
    unfold sfx. destruct (up L); cbn; rewrite PF; reflexivity.
Qed.

Lemma classify_double L f b : flit_ok f = true -> pf64 f = Some b ->
  classify pf32 pf64 (pr_flit L f ++ sfx L 100 68) = Some (TDouble b).
Proof.
  intros OK PF. destruct (flit_shape f OK) as (neg & d & ds & fr & -> & Hd & Hds & Hfr).
  unfold pr_flit. destruct fr as [|d2 fr].
  - rewrite app_nil_r. rewrite <- app_assoc. cbn [app]. rewrite (classify_signed L _ d _ Hd).
    unfold classify_num. rewrite (span_digits d ds _ Hd Hds) by (apply sfx_stop; reflexivity).
    unfold sfx. destruct (up L); cbn; rewrite PF; reflexivity.
  - cbn [forallb] in Hfr. apply andb_prop in Hfr. destruct Hfr as [Hd2 Hfr].
    repeat rewrite <- app_assoc. cbn [app]. rewrite (classify_signed L _ d _ Hd).
    unfold classify_num. rewrite (span_digits d ds _ Hd Hds) by reflexivity.
    cbn [N.eqb Pos.eqb]. rewrite (span_digits d2 fr _ Hd2 Hfr) by (apply sfx_stop; reflexivity).
    unfold sfx. destruct (up L); cbn; rewrite PF; reflexivity.
Qed.

Lemma classify_double_nosuf L f b : flit_ok f = true -> has_frac f = true -> pf64 f = Some b ->
  classify pf32 pf64 (pr_flit L f ++ []) = Some (TDouble b).
Proof.
  intros OK HF PF. destruct (flit_shape f OK) as (neg & d & ds & fr & -> & Hd & Hds & Hfr).
  unfold pr_flit. destruct fr as [|d2 fr]; [discriminate|].
  cbn [forallb] in Hfr. apply andb_prop in Hfr. destruct Hfr as [Hd2 Hfr].
  repeat rewrite <- app_assoc. cbn [app]. rewrite (classify_signed L _ d _ Hd).
  unfold classify_num. rewrite (span_digits d ds _ Hd Hds) by reflexivity.
  cbn [N.eqb Pos.eqb]. rewrite (span_digits d2 fr [] Hd2 Hfr) by exact I.
  rewrite PF. reflexivity.
Qed.

(* every number token is a non-empty run of bare characters *)
Definition bare_tok (tok : list N) : Prop :=
  (exists c r, tok = c :: r) /\ forallb is_bare tok = true.

Lemma digits_bare ds : forallb is_digit ds = true -> forallb is_bare ds = true.
Proof.
  induction ds as [|c ds IH]; cbn [forallb]; [reflexivity|]. intros H. apply andb_prop in H.
  destruct H as [Hc Hds]. rewrite (digit_bare c Hc), (IH Hds). reflexivity.
Qed.
Lemma bare_tok_app a b : bare_tok a -> forallb is_bare b = true -> bare_tok (a ++ b).
Proof.
  intros [(c & r & ->) Ha] Hb. split; [exists c, (r ++ b); reflexivity|].
  rewrite forallb_app, Ha, Hb. reflexivity.
Qed.
Lemma pr_int_tok L v : bare_tok (pr_int L v).
Proof.
  destruct (pr_int_shape L v) as (d & ds & E & Hd & Hds & _). rewrite E. split.
  - unfold sign_of. destruct (v <? 0)%Z; [eexists _, _; reflexivity|].
    destruct (plus L); eexists _, _; reflexivity.
  - rewrite forallb_app, sign_of_bare. cbn [forallb]. rewrite (digit_bare d Hd), (digits_bare ds Hds). reflexivity.
Qed.
Lemma pr_flit_tok L f : flit_ok f = true -> bare_tok (pr_flit L f).
Proof.
  intros OK. destruct (flit_shape f OK) as (neg & d & ds & fr & -> & Hd & Hds & Hfr). unfold pr_flit. split.
  - unfold sign_of. destruct neg; [eexists _, _; reflexivity|]. destruct (plus L); eexists _, _; reflexivity.
  - rewrite !forallb_app, sign_of_bare. cbn [forallb]. rewrite (digit_bare d Hd), (digits_bare ds Hds).
    destruct fr; [reflexivity|]. cbn [forallb andb] in *. apply andb_prop in Hfr. destruct Hfr as [A B].
    rewrite (digit_bare _ A), (digits_bare _ B). reflexivity.
Qed.
Lemma sfx_bare L lo upc : is_bare lo = true -> is_bare upc = true -> forallb is_bare (sfx L lo upc) = true.
Proof. intros A B. unfold sfx. cbn [forallb]. destruct (up L); rewrite ?A, ?B; reflexivity. Qed.

(* strings *)
Lemma is_word_bare s : is_word s = true -> bare_tok s.
Proof.
  destruct s as [|c s]; [discriminate|]. unfold is_word. intros H.
  repeat (apply andb_prop in H; destruct H as [H ?]). split; [eauto|assumption].
Qed.
Lemma classify_word s : is_word s = true -> classify pf32 pf64 s = Some (TString s).
Proof. unfold classify. intros ->. reflexivity. Qed.
End Tokens.
