(* C04, the TRANSLATED decoder (Gen/Decoder.v) under the interpreter of Model/C04_dec.v: obligations on the translated
   program, and its agreement with the specification parser on every short text (the bound is in the statement).
   What is NOT here: a proof for texts of every length that the interpretation equals the specification parser on L
   (meta/C04.json, not_proved). *)
From Coq Require Import List String ZArith NArith Bool Lia.
From GoMC Require Import Gen.Consts Gen.Scanner Model.C04_scan Model.C04_dsyntax Model.C04_dec Gen.Decoder.
From GoMC Require Model.C04.
Import ListNotations.
Local Open Scope string_scope.
Local Open Scope list_scope.
Local Open Scope Z_scope.
Notation "# s" := (ltac:(let v := eval vm_compute in (nm s) in exact v)) (at level 0, s at level 0, only parsing).

(* ------------------------------------------------------------------ the program is closed *)
(* every identifier a translated body mentions is a parameter, a result, a local it declares, one of the translated
   functions, or one of the primitives the interpreter gives a meaning to: no package-level variable (no pool, no
   cache, no counter) is read or written, so a conversion cannot depend on the conversions before it *)
Fixpoint mem (x : name) (l : list name) : bool := match l with [] => false | y :: t => neqb x y || mem x t end.

(* running out of depth is never silent: it yields a name nobody declares / a count that fails the check *)
Definition poison : name := [0].
Fixpoint ids_e (fuel : nat) (e : gexpr) : list name :=
  match fuel with O => [poison] | S n =>
  match e with
  | EInt _ | EBool _ | ENil | EStr _ => []
  | EId x => [x]
  | ESel a _ | EConv _ a | EUn _ a | EAssert a _ => ids_e n a
  | ECall f args =>
      (match f with EId _ => [] | _ => ids_e n f end) ++ flat_map (ids_e n) args   (* a called NAME is checked apart *)
  | EBin _ a b | EIndex a b => ids_e n a ++ ids_e n b
  | ESlice a lo hi => ids_e n a ++ flat_map (ids_e n) lo ++ flat_map (ids_e n) hi
  | EBytes es => flat_map (ids_e n) es
  end end.
Fixpoint callees_e (fuel : nat) (e : gexpr) : list name :=
  match fuel with O => [poison] | S n =>
  match e with
  | EInt _ | EBool _ | ENil | EStr _ | EId _ => []
  | ESel a _ | EConv _ a | EUn _ a | EAssert a _ => callees_e n a
  | ECall f args => (match f with EId g => [g] | _ => callees_e n f end) ++ flat_map (callees_e n) args
  | EBin _ a b | EIndex a b => callees_e n a ++ callees_e n b
  | ESlice a lo hi => callees_e n a ++ flat_map (callees_e n) lo ++ flat_map (callees_e n) hi
  | EBytes es => flat_map (callees_e n) es
  end end.

(* (identifiers used, names declared, names called, defers) of a statement list *)
Fixpoint walk (fuel : nat) (pe : nat -> gexpr -> list name) (b : list gstmt) : list name :=
  match fuel with O => [poison] | S n =>
  flat_map (fun s =>
    match s with
    | SDefine _ rhs => flat_map (pe n) rhs
    | SAssign lhs rhs => flat_map (pe n) lhs ++ flat_map (pe n) rhs
    | SVar _ _ | SBreak | SContinue | SPanic => []
    | SBlock c => walk n pe c
    | SIf i c th el => walk n pe i ++ pe n c ++ walk n pe th ++ walk n pe el
    | SFor i c p body => walk n pe i ++ flat_map (pe n) c ++ walk n pe p ++ walk n pe body
    | SSwitch tag cases => flat_map (pe n) tag ++ flat_map (fun cs => flat_map (pe n) (fst cs) ++ walk n pe (snd cs)) cases
    | SReturn es => flat_map (pe n) es
    | SDefer e | SExpr e | SIncDec e _ => pe n e
    end) b end.
Fixpoint decls (fuel : nat) (b : list gstmt) : list name :=
  match fuel with O => [] | S n =>
  flat_map (fun s =>
    match s with
    | SDefine xs _ | SVar xs _ => xs
    | SBlock c => decls n c
    | SIf i _ th el => decls n i ++ decls n th ++ decls n el
    | SFor i _ p body => decls n i ++ decls n p ++ decls n body
    | SSwitch _ cases => flat_map (fun cs => decls n (snd cs)) cases
    | _ => []
    end) b end.
(* defer statements that are not among the first statements of a function *)
Fixpoint inner_defers (fuel : nat) (b : list gstmt) : nat :=
  match fuel with O => 1%nat | S n =>
  fold_right (fun s acc =>
    (match s with
     | SDefer _ => 1
     | SBlock c => inner_defers n c
     | SIf i _ th el => inner_defers n i + inner_defers n th + inner_defers n el
     | SFor i _ p body => inner_defers n i + inner_defers n p + inner_defers n body
     | SSwitch _ cases => fold_right (fun cs a => inner_defers n (snd cs) + a) 0 cases
     | _ => 0
     end + acc)%nat) 0%nat b end.
Fixpoint vars_of_type (fuel : nat) (ty : name) (b : list gstmt) : nat :=
  match fuel with O => 7%nat | S n =>
  fold_right (fun s acc =>
    (match s with
     | SVar xs t => if neqb t ty then List.length xs else 0
     | SBlock c => vars_of_type n ty c
     | SIf i _ th el => vars_of_type n ty i + vars_of_type n ty th + vars_of_type n ty el
     | SFor i _ p body => vars_of_type n ty i + vars_of_type n ty p + vars_of_type n ty body
     | SSwitch _ cases => fold_right (fun cs a => vars_of_type n ty (snd cs) + a) 0 cases
     | _ => 0
     end + acc)%nat) 0%nat b end.

Definition primitives : list name :=
  [#"writeTag"; #"writeInt32"; #"writeInt64"; #"writeLiteralPayload"; #"NewEncoder"; #"len"; #"parseLiteralUnquoted"].
Definition depth : nat := 60.
Definition closed_fn (prog : list gfunc) (f : gfunc) : bool :=
  let locals := #"_" :: g_params f ++ g_results f ++ decls depth (g_body f) in
  forallb (fun x => mem x locals) (walk depth ids_e (g_body f))
  && forallb (fun g => mem g (map g_name prog ++ primitives)) (walk depth callees_e (g_body f)).
Definition closed_prog (prog : list gfunc) : bool := forallb (closed_fn prog) prog.

Lemma decoder_closed : closed_prog decoder_prog = true.
Proof. vm_compute. reflexivity. Qed.

(* the scratch state of a call is local to it: the element buffer of writeListOrArray is ONE `var buf bytes.Buffer`
   (a fresh empty buffer in every call), the string builder of parseLiteral ONE `var sb strings.Builder`, and the only
   deferred call of the program is the first statement of its function *)
Definition scratch_local (prog : list gfunc) : bool :=
  Nat.eqb (fold_right (fun f a => (vars_of_type depth #"bytes.Buffer" (g_body f) + a)%nat) 0%nat prog) 1
  && Nat.eqb (fold_right (fun f a => (vars_of_type depth #"strings.Builder" (g_body f) + a)%nat) 0%nat prog) 1
  && Nat.eqb (fold_right (fun f a => (inner_defers depth (snd (split_defers (g_body f))) + a)%nat) 0%nat prog) 0.
Lemma decoder_scratch_local : scratch_local decoder_prog = true.
Proof. vm_compute. reflexivity. Qed.

(* ------------------------------------------------------------------ exhaustive sweeps over short texts (shared) *)
Definition nopf (_ : list Z) (_ : Z) : option Z := None.
Fixpoint zeqb (a b : list Z) : bool :=
  match a, b with [], [] => true | x :: a', y :: b' => (x =? y) && zeqb a' b' | _, _ => false end.
Lemma zeqb_eq a : forall b, zeqb a b = true -> a = b.
Proof.
  induction a as [|x a IH]; destruct b as [|y b]; simpl; intros H; try discriminate; [reflexivity|].
  apply andb_true_iff in H. destruct H as [H1 H2]. apply Z.eqb_eq in H1. rewrite (IH b H2), H1. reflexivity.
Qed.
(* the interpretation ends in a payload or an error *)
Definition total (pf : list Z -> Z -> option Z) (text : list Z) : bool :=
  match decode_text pf decoder_prog text with DOk _ | DErr => true | _ => false end.
(* depth-first: p on the (reversed) prefix rp and on every extension of it by up to k symbols of alpha *)
Fixpoint checkp (p : list Z -> bool) (alpha : list Z) (k : nat) (rp : list Z) : bool :=
  p (rev rp) && match k with O => true | S k' => forallb (fun c => checkp p alpha k' (c :: rp)) alpha end.
Lemma checkp_sound p alpha k : forall rp, checkp p alpha k rp = true ->
  forall ext, (List.length ext <= k)%nat -> Forall (fun c => In c alpha) ext -> p (rev rp ++ ext) = true.
Proof.
  induction k as [|k IH]; intros rp H ext L F; simpl in H; apply andb_true_iff in H; destruct H as [H1 H2].
  - destruct ext; [rewrite app_nil_r; exact H1 | simpl in L; lia].
  - destruct ext as [|c ext]; [rewrite app_nil_r; exact H1|].
    inversion F; subst. rewrite forallb_forall in H2. specialize (H2 c H3).
    specialize (IH (c :: rp) H2 ext ltac:(simpl in L; lia) H4). simpl in IH. rewrite <- app_assoc in IH. exact IH.
Qed.
Definition alpha1 : list Z := [123;125;91;93;58;44;59;34;39;92;49;97;66;32].
Definition alpha2 : list Z := [91;93;44;59;45;49;50;98;115;76;66;73;32].
Definition alpha3 : list Z := [49;46;45;43;102;68;100;91;93;44;32].
