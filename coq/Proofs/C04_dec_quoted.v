(* C04, the TRANSLATED decoder: the quoted-string clause of parseLiteral (escape processing), for strings of EVERY length:
   the interpretation of the translated loop turns  q  escape(s)  q  back into s, for both quote characters. *)
From Coq Require Import List String ZArith NArith Bool Lia ZifyNat.
From GoMC Require Import Gen.Consts Gen.Scanner Model.C04_scan Model.C04_dsyntax Model.C04_dec Gen.Decoder.
Import ListNotations.
Local Open Scope string_scope.
Local Open Scope list_scope.
Local Open Scope Z_scope.
Notation "# s" := (ltac:(let v := eval vm_compute in (nm s) in exact v)) (at level 0, s at level 0, only parsing).

Definition escapeZ (q : Z) (s : list Z) : list Z :=
  flat_map (fun c => if (c =? q) || (c =? 92) then [92; c] else [c]) s.

(* the `for i := 1; ; i++ { ... }` of the quoted clause, taken out of the translated parseLiteral *)
Definition quoted_parts : list gstmt * list gstmt :=
  Eval vm_compute in
  match g_body dec_parseLiteral with
  | SSwitch _ ((_, [_; _; SFor _ _ post body]) :: _) :: _ => (post, body)
  | _ => ([], [])
  end.
Definition q_post := fst quoted_parts.
Definition q_body := snd quoted_parts.

Section Q.
Variable pf : list Z -> Z -> option Z.
Variable prog : list gfunc.

(* ------------------------------------------------------------------ unfolding equations of the interpreter (the
   mutual fixpoint is far too large for cbn / simpl to unfold in a goal) *)
Lemma loop_S n c post body e s :
  loop pf prog (S n) c post body e s =
  match (match c with [] => EV (VB true) s | t :: _ => eval pf prog n t e s end) with
  | EV (VB false) s1 => XOk ONorm e s1
  | EV (VB true) s1 =>
      match pop (execs pf prog n body ([] :: e) s1) with
      | XOk ONorm e2 s2 | XOk OCont e2 s2 =>
          match execs pf prog n post e2 s2 with
          | XOk ONorm e3 s3 => loop pf prog n c post body e3 s3
          | XOk _ _ _ => XStuck 50
          | r => r
          end
      | XOk OBrk e2 s2 => XOk ONorm e2 s2
      | r => r
      end
  | EV _ _ => XStuck 51 | EVs _ _ => XStuck 51 | EPanic => XPanic | EStuck w => XStuck w | EFuel => XFuel
  end.
Proof. reflexivity. Qed.

Lemma execs_cons n x r e s :
  execs pf prog (S n) (x :: r) e s =
  match exec pf prog n x e s with XOk ONorm e1 s1 => execs pf prog n r e1 s1 | o => o end.
Proof. reflexivity. Qed.
Lemma execs_nil n e s : execs pf prog (S n) [] e s = XOk ONorm e s.
Proof. reflexivity. Qed.

Lemma eval_id n x e s :
  eval pf prog (S n) (EId x) e s = match rd e s x with Some v => EV v s | None => EStuck 1 end.
Proof. reflexivity. Qed.
Lemma eval_int n z e s : eval pf prog (S n) (EInt z) e s = EV (VZ z) s.
Proof. reflexivity. Qed.
Lemma eval_nil n e s : eval pf prog (S n) ENil e s = EV VNil s.
Proof. reflexivity. Qed.
Lemma eval_index n a i e s :
  eval pf prog (S n) (EIndex a i) e s =
  match eval pf prog n a e s with
  | EV (VL l) s1 =>
      match eval pf prog n i e s1 with
      | EV (VZ k) s2 => if (0 <=? k) && (k <? zlen l) then EV (VZ (nth (Z.to_nat k) l 0)) s2 else EPanic
      | EV _ _ => EStuck 10
      | r => r
      end
  | EV _ _ => EStuck 11
  | r => r
  end.
Proof. reflexivity. Qed.
Lemma eval_writebyte n x args e s :
  eval pf prog (S n) (ECall (ESel (EId x) #"WriteByte") args) e s =
  match lookup e x, evals pf prog n args e s with
  | Some (VCell id), EVs [VZ c] s1 => EV VNil (happend s1 id [c mod 256])
  | _, EVs _ _ => EStuck 15
  | _, r => r
  end.
Proof. reflexivity. Qed.
Lemma eval_sbstring n x e s :
  eval pf prog (S n) (ECall (ESel (EId x) #"String") []) e s =
  match eval pf prog n (EId x) e s with
  | EV rv s1 => match evals pf prog n [] e s1 with EVs vs s2 => method rv #"String" vs s2 | r => r end
  | r => r
  end.
Proof. reflexivity. Qed.
Lemma evals_nil n e s : evals pf prog (S n) [] e s = EVs [] s.
Proof. reflexivity. Qed.
Lemma evals_cons n x r e s :
  evals pf prog (S n) (x :: r) e s =
  match eval pf prog n x e s with
  | EV v s1 => match evals pf prog n r e s1 with EVs vs s2 => EVs (v :: vs) s2 | o => o end
  | o => o
  end.
Proof. reflexivity. Qed.
Lemma exec_define n xs rhs e s :
  exec pf prog (S n) (SDefine xs rhs) e s =
  match evals pf prog n rhs e s with
  | EVs vs s1 =>
      let vs' := match vs, xs with [VTup l], _ :: _ :: _ => l | _, _ => vs end in
      match bind_all e s1 xs vs' with Some (e2, s2) => XOk ONorm e2 s2 | None => XStuck 30 end
  | EPanic => XPanic | EStuck w => XStuck w | EFuel => XFuel | EV _ _ => XStuck 31
  end.
Proof. reflexivity. Qed.
Lemma exec_switch n t cases e s :
  exec pf prog (S n) (SSwitch [t] cases) e s =
  match eval pf prog n t e s with
  | EV tv s1 =>
      match pick pf prog n tv cases e s1 with
      | inl (body, s2) =>
          match pop (execs pf prog n body ([] :: e) s2) with XOk OBrk e3 s3 => XOk ONorm e3 s3 | r => r end
      | inr None =>
          match find (fun cs => match fst cs with [] => true | _ => false end) cases with
          | Some (_, body) =>
              match pop (execs pf prog n body ([] :: e) s1) with XOk OBrk e3 s3 => XOk ONorm e3 s3 | r => r end
          | None => XOk ONorm e s1
          end
      | inr (Some r) => r
      end
  | EVs _ _ => XStuck 42 | EPanic => XPanic | EStuck w => XStuck w | EFuel => XFuel
  end.
Proof. reflexivity. Qed.
Lemma pick_nil n tv e s : pick pf prog (S n) tv [] e s = inr None.
Proof. reflexivity. Qed.
Lemma pick_cons n tv labels body r e s :
  pick pf prog (S n) tv ((labels, body) :: r) e s =
  match evals pf prog n labels e s with
  | EVs vs s1 =>
      if existsb (fun v => match val_eq tv v with Some true => true | _ => false end) vs then inl (body, s1)
      else pick pf prog n tv r e s1
  | EPanic => inr (Some XPanic) | EStuck w => inr (Some (XStuck w)) | EFuel => inr (Some XFuel)
  | EV _ _ => inr (Some (XStuck 52))
  end.
Proof. reflexivity. Qed.
Lemma exec_return n es e s :
  exec pf prog (S n) (SReturn es) e s =
  match evals pf prog n es e s with
  | EVs [VTup l] s1 => XOk (ORet l) e s1
  | EVs vs s1 => XOk (ORet vs) e s1
  | EPanic => XPanic | EStuck w => XStuck w | EFuel => XFuel | EV _ _ => XStuck 43
  end.
Proof. reflexivity. Qed.
Lemma exec_inc_id n x e s :
  exec pf prog (S n) (SIncDec (EId x) true) e s =
  match rd e s x with
  | Some (VZ z) => match wr e s x (VZ (z + 1)) with Some (e1, s1) => XOk ONorm e1 s1 | None => XStuck 36 end
  | _ => XStuck 36
  end.
Proof. reflexivity. Qed.
Lemma exec_assign1 n x rhs e s z s1 :
  evals pf prog n [rhs] e s = EVs [VZ z] s1 -> neqb x #"_" = false ->
  exec pf prog (S n) (SAssign [EId x] [rhs]) e s =
  match wr e s1 x (VZ z) with Some (e3, s3) => XOk ONorm e3 s3 | None => XStuck 32 end.
Proof.
  intros E N.
  change (exec pf prog (S n) (SAssign [EId x] [rhs]) e s) with
    (match evals pf prog n [rhs] e s with
     | EVs vs s1 =>
         let vs' := match vs, [EId x] with [VTup l], _ :: _ :: _ => l | _, _ => vs end in
         (fix go (ls : list gexpr) (ws : list val) (e1 : env) (s2 : st) : xres :=
            match ls, ws with
            | [], [] => XOk ONorm e1 s2
            | EId x0 :: lr, w :: wr' =>
                if neqb x0 #"_" then go lr wr' e1 s2 else
                match wr e1 s2 x0 w with Some (e3, s3) => go lr wr' e3 s3 | None => XStuck 32 end
            | EUn _ (EId p) :: lr, w :: wr' =>
                match rd e1 s2 p with
                | Some (VPtr id) => go lr wr' e1 (set_heap s2 (hset (s_heap s2) id w))
                | _ => XStuck 33
                end
            | _, _ => XStuck 34
            end) [EId x] vs' e s1
     | EPanic => XPanic | EStuck w => XStuck w | EFuel => XFuel | EV _ _ => XStuck 31
     end).
  rewrite E. cbv beta iota zeta. rewrite N. destruct (wr e s1 x (VZ z)) as [[e3 s3]|]; reflexivity.
Qed.
Lemma exec_expr n a e s :
  exec pf prog (S n) (SExpr a) e s =
  match eval pf prog n a e s with
  | EV _ s1 => XOk ONorm e s1
  | EVs _ _ => XStuck 45 | EPanic => XPanic | EStuck w => XStuck w | EFuel => XFuel
  end.
Proof. reflexivity. Qed.

Definition lit_of (q : Z) (pre rest : list Z) : list Z := q :: pre ++ rest.
Definition env_at (q : Z) (L : list Z) (i : Z) (id : nat) : env :=
  [[(#"i", VZ i)]; [(#"sb", VCell id)]; [(#"literal", VL L)]].

Definition F (m : nat) : nat := S (S (S (S (S (S (S (S (S (S (S (S m))))))))))).

Lemma idx_at (q : Z) (pre : list Z) (x : Z) (rest : list Z) :
  let L := lit_of q pre (x :: rest) in
  let k := 1 + zlen pre in
  (0 <=? k) && (k <? zlen L) = true /\ nth (Z.to_nat k) L 0 = x.
Proof.
  unfold lit_of, zlen. cbn zeta. simpl List.length. rewrite app_length. simpl List.length. split; [lia|].
  replace (Z.to_nat (1 + Z.of_nat (List.length pre))) with (S (List.length pre)) by lia.
  simpl nth. rewrite app_nth2, Nat.sub_diag by lia. reflexivity.
Qed.

Lemma idx_0 (q : Z) (pre rest : list Z) :
  (0 <=? 0) && (0 <? zlen (lit_of q pre rest)) = true /\ nth (Z.to_nat 0) (lit_of q pre rest) 0 = q.
Proof. unfold lit_of, zlen. simpl List.length. split; [lia | reflexivity]. Qed.

Ltac names := cbn [rd wr def lookup lookup1 upd upd1 bind bind_all neqb Z.eqb Pos.eqb andb orb negb fst snd].

Lemma iter_plain (q c : Z) (pre rest done : list Z) (id : nat) (s : st) (m : nat) :
  hget (s_heap s) id = VL done -> (c =? q) = false -> (c =? 92) = false -> 0 <= c < 256 ->
  loop pf prog (F (S m)) [] q_post q_body (env_at q (lit_of q pre (c :: rest)) (1 + zlen pre) id) s =
  loop pf prog (F m) [] q_post q_body (env_at q (lit_of q pre (c :: rest)) (1 + zlen pre + 1) id) (happend s id [c]).
Proof.
  intros H Cq C92 Cb. unfold F, q_post, q_body, quoted_parts, env_at. cbn [fst snd].
  rewrite loop_S. cbv beta iota.
  rewrite execs_cons, exec_define, evals_cons, eval_index, eval_id. names.
  rewrite eval_id. names.
  destruct (idx_at q pre c rest) as [IB IV]. cbv zeta in IB, IV. rewrite IB, IV. cbv beta iota.
  rewrite evals_nil. cbv beta iota. names.
  set (SW := SSwitch _ _). set (WB := SExpr _).
  rewrite execs_cons. unfold SW at 1. rewrite exec_switch, eval_id. names.
  rewrite pick_cons, evals_cons, eval_index, eval_id. names. rewrite eval_int. cbv beta iota.
  destruct (idx_0 q pre (c :: rest)) as [ZB ZV]. rewrite ZB, ZV. rewrite evals_nil. cbv beta iota.
  cbn [existsb val_eq orb]. rewrite Cq. cbn [orb]. cbv beta iota.
  rewrite pick_cons, evals_cons, eval_int, evals_nil. cbv beta iota. cbn [existsb val_eq orb]. rewrite C92. cbn [orb]. cbv beta iota.
  rewrite pick_nil. cbv beta iota. cbn [find fst]. cbv beta iota.
  rewrite execs_cons. unfold WB at 1. rewrite exec_expr, eval_writebyte. names.
  rewrite evals_cons, eval_id. names. rewrite evals_nil. cbv beta iota.
  rewrite execs_nil. cbn [pop]. cbv beta iota.
  rewrite execs_cons, exec_inc_id. names. rewrite execs_nil. cbv beta iota.
  rewrite (Z.mod_small c 256) by lia. reflexivity.
Qed.

(* an escaped character: backslash, then the character *)
Lemma iter_esc (q c : Z) (pre rest done : list Z) (id : nat) (s : st) (m : nat) :
  hget (s_heap s) id = VL done -> (92 =? q) = false -> 0 <= c < 256 ->
  loop pf prog (F (S m)) [] q_post q_body (env_at q (lit_of q pre (92 :: c :: rest)) (1 + zlen pre) id) s =
  loop pf prog (F m) [] q_post q_body (env_at q (lit_of q pre (92 :: c :: rest)) (1 + zlen pre + 1 + 1) id) (happend s id [c]).
Proof.
  intros H Cq Cb. unfold F, q_post, q_body, quoted_parts, env_at. cbn [fst snd].
  rewrite loop_S. cbv beta iota.
  rewrite execs_cons, exec_define, evals_cons, eval_index, eval_id. names.
  rewrite eval_id. names.
  destruct (idx_at q pre 92 (c :: rest)) as [IB IV]. cbv zeta in IB, IV. rewrite IB, IV. cbv beta iota.
  rewrite evals_nil. cbv beta iota. names.
  set (SW := SSwitch _ _). set (WB := SExpr _).
  rewrite execs_cons. unfold SW at 1. rewrite exec_switch, eval_id. names.
  rewrite pick_cons, evals_cons, eval_index, eval_id. names. rewrite eval_int. cbv beta iota.
  destruct (idx_0 q pre (92 :: c :: rest)) as [ZB ZV]. rewrite ZB, ZV. rewrite evals_nil. cbv beta iota.
  cbn [existsb val_eq orb]. rewrite Cq. cbn [orb]. cbv beta iota.
  rewrite pick_cons, evals_cons, eval_int, evals_nil. cbv beta iota. cbn [existsb val_eq orb Z.eqb Pos.eqb]. cbv beta iota.

  rewrite execs_cons, exec_inc_id. names. cbv beta iota.
  assert (LE : lit_of q pre (92 :: c :: rest) = lit_of q (pre ++ [92]) (c :: rest))
    by (unfold lit_of; rewrite <- app_assoc; reflexivity).
  assert (ZL : 1 + zlen pre + 1 = 1 + zlen (pre ++ [92])) by (unfold zlen; rewrite app_length; simpl List.length; lia).
  destruct (idx_at q (pre ++ [92]) c rest) as [JB JV]. cbv zeta in JB, JV. rewrite <- LE, <- ZL in JB, JV.
  rewrite execs_cons.
  erewrite exec_assign1; [| | reflexivity].
  2: { rewrite evals_cons, eval_index, eval_id. names. rewrite eval_id. names. rewrite JB, JV. cbv beta iota.
       rewrite evals_nil. reflexivity. }
  names. rewrite execs_nil. cbn [pop]. cbv beta iota.
  rewrite execs_cons. unfold WB at 1. rewrite exec_expr, eval_writebyte. names.
  rewrite evals_cons, eval_id. names. rewrite evals_nil. cbv beta iota.
  rewrite execs_nil. cbn [pop]. cbv beta iota.
  rewrite execs_cons, exec_inc_id. names. rewrite execs_nil. cbv beta iota.
  rewrite (Z.mod_small c 256) by lia. reflexivity.
Qed.

(* the closing quote: the loop returns the string collected so far *)
Lemma iter_end (q : Z) (pre done : list Z) (id : nat) (s : st) (m : nat) :
  hget (s_heap s) id = VL done ->
  exists e', loop pf prog (F m) [] q_post q_body (env_at q (lit_of q pre [q]) (1 + zlen pre) id) s =
             XOk (ORet [VZ 8; VL done; VNil]) e' s /\ List.length e' = 3%nat.
Proof.
  intros H. unfold F, q_post, q_body, quoted_parts, env_at. cbn [fst snd].
  rewrite loop_S. cbv beta iota.
  rewrite execs_cons, exec_define, evals_cons, eval_index, eval_id. names.
  rewrite eval_id. names.
  destruct (idx_at q pre q []) as [IB IV]. cbv zeta in IB, IV. rewrite IB, IV. cbv beta iota.
  rewrite evals_nil. cbv beta iota. names.
  set (SW := SSwitch _ _). set (WB := SExpr _).
  rewrite execs_cons. unfold SW at 1. rewrite exec_switch, eval_id. names.
  rewrite pick_cons, evals_cons, eval_index, eval_id. names. rewrite eval_int. cbv beta iota.
  destruct (idx_0 q pre [q]) as [ZB ZV]. rewrite ZB, ZV. rewrite evals_nil. cbv beta iota.
  cbn [existsb val_eq orb]. rewrite Z.eqb_refl. cbn [orb]. cbv beta iota.
  rewrite execs_cons, exec_return, evals_cons, eval_int. cbv beta iota.
  rewrite evals_cons, eval_sbstring, eval_id. names. rewrite H. rewrite evals_nil. cbv beta iota.
  cbn [method neqb Z.eqb Pos.eqb andb orb]. cbv beta iota.
  rewrite evals_cons, eval_nil, evals_nil. cbv beta iota.
  cbn [pop]. cbv beta iota. eexists. split; reflexivity.
Qed.

(* ------------------------------------------------------------------ the whole loop *)
Lemma hget_hset h id v : (id < List.length h)%nat -> hget (hset h id v) id = v.
Proof.
  revert id. induction h as [|a h IH]; intros id L; simpl in L; [lia|].
  destruct id; [reflexivity|]. simpl. apply IH. lia.
Qed.
Lemma hset_length h id v : List.length (hset h id v) = List.length h.
Proof. revert id. induction h as [|a h IH]; intros id; [reflexivity|]. destruct id; simpl; [reflexivity | rewrite IH; reflexivity]. Qed.

Definition same_d (s s' : st) : Prop :=
  s_data s' = s_data s /\ s_off s' = s_off s /\ s_opcode s' = s_opcode s /\ s_scan s' = s_scan s /\
  List.length (s_heap s') = List.length (s_heap s).
Lemma same_d_refl s : same_d s s. Proof. repeat split. Qed.
Lemma happend_cell s id done bs : hget (s_heap s) id = VL done -> (id < List.length (s_heap s))%nat ->
  hget (s_heap (happend s id bs)) id = VL (done ++ bs) /\ same_d s (happend s id bs).
Proof.
  intros H L. unfold happend. rewrite H. cbn [set_heap s_heap s_data s_off s_opcode s_scan].
  split; [apply hget_hset, L | repeat split; apply hset_length].
Qed.

Lemma quoted_loop (q : Z) (r : list Z) : (q = 34 \/ q = 39) -> Forall (fun c => 0 <= c < 256) r ->
  forall (pre done : list Z) (id : nat) (s : st) (m : nat),
  hget (s_heap s) id = VL done -> (id < List.length (s_heap s))%nat -> (List.length r <= m)%nat ->
  exists e' s',
    loop pf prog (F m) [] q_post q_body (env_at q (lit_of q pre (escapeZ q r ++ [q])) (1 + zlen pre) id) s =
    XOk (ORet [VZ 8; VL (done ++ r); VNil]) e' s' /\ List.length e' = 3%nat /\ same_d s s'.
Proof.
  intros Q B. induction B as [|c r Bc Br IH]; intros pre done id s m H L M.
  - destruct (iter_end q pre done id s m H) as (e' & E & EL). exists e', s. rewrite app_nil_r. split; [exact E | split; [exact EL | apply same_d_refl]].
  - simpl in M. destruct m as [|m]; [lia|].
    assert (Q92 : (92 =? q) = false) by (destruct Q; subst; reflexivity).
    cbn [escapeZ flat_map]. fold (escapeZ q r).
    destruct (happend_cell s id done [c] H L) as (H' & SD).
    assert (L' : (id < List.length (s_heap (happend s id [c])))%nat) by (destruct SD as (_ & _ & _ & _ & E); rewrite E; exact L).
    destruct ((c =? q) || (c =? 92)) eqn:E.
    + (* escaped *)
      cbn [app]. rewrite (iter_esc q c pre (escapeZ q r ++ [q]) done id s m H Q92 Bc).
      replace (lit_of q pre (92 :: c :: escapeZ q r ++ [q])) with (lit_of q (pre ++ [92; c]) (escapeZ q r ++ [q]))
        by (unfold lit_of; rewrite <- app_assoc; reflexivity).
      replace (1 + zlen pre + 1 + 1) with (1 + zlen (pre ++ [92; c])) by (unfold zlen; rewrite app_length; simpl List.length; lia).
      destruct (IH (pre ++ [92; c]) (done ++ [c]) id (happend s id [c]) m H' L' ltac:(lia)) as (e' & s' & E1 & EL & S1).
      exists e', s'. rewrite <- app_assoc in E1. split; [exact E1|]. split; [exact EL|].
      destruct SD as (A1 & A2 & A3 & A4 & A5). destruct S1 as (B1 & B2 & B3 & B4 & B5). repeat split; congruence.
    + apply orb_false_iff in E. destruct E as [E1 E2]. cbn [app].
      rewrite (iter_plain q c pre (escapeZ q r ++ [q]) done id s m H E1 E2 Bc).
      replace (lit_of q pre (c :: escapeZ q r ++ [q])) with (lit_of q (pre ++ [c]) (escapeZ q r ++ [q]))
        by (unfold lit_of; rewrite <- app_assoc; reflexivity).
      replace (1 + zlen pre + 1) with (1 + zlen (pre ++ [c])) by (unfold zlen; rewrite app_length; simpl List.length; lia).
      destruct (IH (pre ++ [c]) (done ++ [c]) id (happend s id [c]) m H' L' ltac:(lia)) as (e' & s' & E3 & EL & S1).
      exists e', s'. rewrite <- app_assoc in E3. split; [exact E3|]. split; [exact EL|].
      destruct SD as (A1 & A2 & A3 & A4 & A5). destruct S1 as (B1 & B2 & B3 & B4 & B5). repeat split; congruence.
Qed.

(* ------------------------------------------------------------------ the call parseLiteral(q escape(s) q) *)
Lemma call_S n fn args s :
  call pf prog (S n) fn args s =
  match bind_all [[]] s (g_params fn) args with
  | None => EStuck 20
  | Some (e0, s0) =>
      let zeros := map zero_of (firstn (List.length (g_results fn)) (g_rtypes fn)) in
      if existsb (fun z => match z with None => true | Some _ => false end) zeros then EStuck 21 else
      let e1 := fold_left (fun acc xz => bind acc (fst xz) (match snd xz with Some v => v | None => VUnit end))
                          (combine (g_results fn) zeros) e0 in
      let '(defers, body) := split_defers (g_body fn) in
      match execs pf prog n body e1 s0 with
      | XOk o e2 s2 =>
          let rvs := match o with
                     | ORet ((_ :: _) as vs) => Some vs
                     | _ =>
                         let cur := map (fun x => rd e2 s2 x) (g_results fn) in
                         if existsb (fun z => match z with None => true | Some _ => false end) cur then None
                         else Some (map (fun z => match z with Some v => v | None => VUnit end) cur)
                     end in
          match rvs with
          | None => EStuck 22
          | Some vs =>
              match evals pf prog n (rev defers) e2 s2 with
              | EVs _ s3 =>
                  match vs with
                  | [v] => EV v s3
                  | _ => if Nat.eqb (List.length vs) (List.length (g_rtypes fn)) then EV (VTup vs) s3 else EStuck 23
                  end
              | r => r
              end
          end
      | XPanic => EPanic | XStuck w => EStuck w | XFuel => EFuel
      end
  end.
Proof. reflexivity. Qed.
Lemma exec_var1 n x ty e s :
  exec pf prog (S n) (SVar [x] ty) e s =
  match zero_of ty with
  | None => XStuck 35
  | Some z => let '(id, sb) := halloc s z in XOk ONorm (bind e x (VCell id)) sb
  end.
Proof. cbv beta. destruct (zero_of ty) eqn:E; cbn [exec]; rewrite ?E; reflexivity. Qed.
Lemma exec_for n init c post body e s :
  exec pf prog (S n) (SFor init c post body) e s =
  match execs pf prog n init ([] :: e) s with
  | XOk ONorm e1 s1 => pop (loop pf prog n c post body e1 s1)
  | XOk _ _ _ => XStuck 41
  | r => r
  end.
Proof. reflexivity. Qed.
Lemma eval_bin n op a b e s :
  eval pf prog (S n) (EBin op a b) e s =
  match eval pf prog n a e s with
  | EV va s1 =>
      match eval pf prog n b e s1 with
      | EV vb s2 => match binop op va vb with Some w => EV w s2 | None => EStuck 5 end
      | r => r
      end
  | r => r
  end.
Proof. reflexivity. Qed.
Lemma eval_grow n x args e s :
  eval pf prog (S n) (ECall (ESel (EId x) #"Grow") args) e s =
  match eval pf prog n (EId x) e s with
  | EV rv s1 => match evals pf prog n args e s1 with EVs vs s2 => method rv #"Grow" vs s2 | r => r end
  | r => r
  end.
Proof. reflexivity. Qed.
Lemma eval_fn n g args e s :
  eval pf prog (S n) (ECall (EId g) args) e s =
  match evals pf prog n args e s with
  | EVs vs s1 => match find_fn prog g with Some fn => call pf prog n fn vs s1 | None => builtin pf g vs s1 end
  | r => r
  end.
Proof. reflexivity. Qed.

Lemma hget_last h v : hget (h ++ [v]) (List.length h) = v.
Proof. unfold hget. rewrite app_nth2, Nat.sub_diag by lia. reflexivity. Qed.

Definition q_clause : list gstmt :=
  Eval vm_compute in match g_body dec_parseLiteral with SSwitch _ ((_, b) :: _) :: _ => b | _ => [] end.

Lemma clause_ok (q : Z) (r : list Z) (s : st) (m : nat) :
  (q = 34 \/ q = 39) -> Forall (fun c => 0 <= c < 256) r -> find_fn prog #"len" = None -> (List.length r <= m)%nat ->
  exists e' s',
    execs pf prog (S (S (S (S (F m))))) q_clause [[]; [(#"literal", VL (q :: escapeZ q r ++ [q]))]] s =
    XOk (ORet [VZ 8; VL r; VNil]) e' s' /\ List.length e' = 2%nat /\
    s_data s' = s_data s /\ s_off s' = s_off s /\ s_opcode s' = s_opcode s /\ s_scan s' = s_scan s.
Proof.
  intros Q B NL M. set (L := q :: escapeZ q r ++ [q]).
  assert (ZL : 2 <= zlen L) by (unfold L, zlen; simpl List.length; rewrite app_length; simpl List.length; lia).
  unfold q_clause.
  rewrite execs_cons, exec_var1. cbn [zero_of neqb Z.eqb Pos.eqb andb orb]. unfold halloc. cbv beta iota zeta. names.
  set (id := List.length (s_heap s)).
  set (s1 := set_heap s (s_heap s ++ [VL []])).
  assert (H1 : hget (s_heap s1) id = VL []) by (unfold s1, id; cbn [set_heap s_heap]; apply hget_last).
  assert (L1 : (id < List.length (s_heap s1))%nat) by (unfold s1, id; cbn [set_heap s_heap]; rewrite app_length; simpl; lia).
  destruct (quoted_loop q r Q B [] [] id s1 m H1 L1 M) as (e0 & s' & EL & EN & SD).
  destruct e0 as [|sc e']; [discriminate EN|]. exists e', s'. split; [|split; [simpl in EN; lia|]].
  - unfold F. rewrite execs_cons, exec_expr, eval_grow, eval_id. names. rewrite H1. cbv beta iota.
    rewrite evals_cons, eval_bin, eval_fn, evals_cons, eval_id. names. rewrite evals_nil. cbv beta iota.
    rewrite NL. cbn [builtin neqb Z.eqb Pos.eqb andb orb]. cbv beta iota.
    rewrite eval_int. cbv beta iota. cbn [binop neqb Z.eqb Pos.eqb andb orb]. cbv beta iota.
    rewrite evals_nil. cbv beta iota. cbn [method neqb Z.eqb Pos.eqb andb orb]. cbv beta iota.
    replace (zlen L - 2 <? 0) with false by lia. cbv beta iota.
    rewrite execs_cons, exec_for, execs_cons, exec_define, evals_cons, eval_int, evals_nil. cbv beta iota. names.
    rewrite execs_nil. cbv beta iota.
    match goal with |- context [loop pf prog ?n ?c ?p ?b ?e ?st] =>
      change (loop pf prog n c p b e st)
        with (loop pf prog (F m) [] q_post q_body (env_at q (lit_of q [] (escapeZ q r ++ [q])) (1 + zlen []) id) s1) end.
    rewrite EL. cbn [pop]. cbv beta iota. reflexivity.
  - destruct SD as (A1 & A2 & A3 & A4 & _). unfold s1 in *. cbn [set_heap s_data s_off s_opcode s_scan] in *. auto.
Qed.

Theorem parseLiteral_quoted (q : Z) (r : list Z) (s : st) (m : nat) :
  (q = 34 \/ q = 39) -> Forall (fun c => 0 <= c < 256) r -> find_fn prog #"len" = None -> (List.length r <= m)%nat ->
  exists s',
    call pf prog (S (S (S (S (S (S (S (F m)))))))) dec_parseLiteral [VL (q :: escapeZ q r ++ [q])] s =
    EV (VTup [VZ 8; VL r; VNil]) s' /\
    s_data s' = s_data s /\ s_off s' = s_off s /\ s_opcode s' = s_opcode s /\ s_scan s' = s_scan s.
Proof.
  intros Q B NL M.
  destruct (clause_ok q r s m Q B NL M) as (e0 & s' & EC & EN & SD). exists s'. split; [|exact SD].
  destruct e0 as [|sc e']; [discriminate EN|].
  set (L := q :: escapeZ q r ++ [q]) in *.
  rewrite call_S. unfold dec_parseLiteral. cbn [g_params g_results g_rtypes g_body].
  names. cbn [List.length firstn map existsb combine fold_left split_defers].
  cbv beta iota zeta.
  rewrite execs_cons, exec_switch, eval_index, eval_id. names. rewrite eval_int. cbv beta iota.
  assert (ZB : (0 <=? 0) && (0 <? zlen L) = true) by (unfold L, zlen; simpl List.length; lia).
  rewrite ZB. change (nth (Z.to_nat 0) L 0) with q. cbv beta iota.
  rewrite pick_cons, evals_cons, eval_int, evals_cons, eval_int, evals_nil. cbv beta iota.
  cbn [existsb val_eq].
  assert (QQ : (if q =? 34 then true else false) || ((if q =? 39 then true else false) || false) = true)
    by (destruct Q; subst; reflexivity).
  rewrite QQ. cbv beta iota.
  change (execs pf prog (S (S (S (S (F m))))) _ [[]; [(#"literal", VL L)]] s)
    with (execs pf prog (S (S (S (S (F m))))) q_clause [[]; [(#"literal", VL L)]] s).
  rewrite EC. cbn [pop]. cbv beta iota.
  rewrite evals_nil. cbv beta iota. cbn [List.length Nat.eqb]. reflexivity.
Qed.

End Q.

(* for the translated program *)
Theorem decoder_parseLiteral_quoted (pf : list Z -> Z -> option Z) (q : Z) (r : list Z) (s : st) (m : nat) :
  (q = 34 \/ q = 39) -> Forall (fun c => 0 <= c < 256) r -> (List.length r <= m)%nat ->
  exists s',
    call pf decoder_prog (S (S (S (S (S (S (S (F m)))))))) dec_parseLiteral [VL (q :: escapeZ q r ++ [q])] s =
    EV (VTup [VZ 8; VL r; VNil]) s' /\
    s_data s' = s_data s /\ s_off s' = s_off s /\ s_opcode s' = s_opcode s /\ s_scan s' = s_scan s.
Proof.
  intros Q B M. apply parseLiteral_quoted; try assumption. vm_compute. reflexivity.
Qed.

(* in the specification's terms: the text the specification printer writes for a string (Model/C04.v escape) *)
From GoMC Require Model.C04.
Lemma escapeZ_spec (q : N) (s : list N) :
  escapeZ (Z.of_N q) (map Z.of_N s) = map Z.of_N (C04.escape q s).
Proof.
  unfold escapeZ, C04.escape. induction s as [|c s IH]; [reflexivity|].
  cbn [map flat_map]. rewrite IH, map_app. f_equal.
  assert (E1 : (Z.of_N c =? Z.of_N q) = (c =? q)%N).
  { destruct (N.eqb_spec c q) as [->|N]; [apply Z.eqb_refl | apply Z.eqb_neq; lia]. }
  assert (E2 : (Z.of_N c =? 92) = (c =? 92)%N).
  { destruct (N.eqb_spec c 92) as [->|N]; [reflexivity | apply Z.eqb_neq; lia]. }
  rewrite E1, E2. destruct ((c =? q)%N || (c =? 92)%N); reflexivity.
Qed.

Theorem decoder_quoted_spec (pf : list Z -> Z -> option Z) (q : N) (str : list N) (s : st) (m : nat) :
  (q = 34 \/ q = 39)%N -> Forall (fun c => (c < 256)%N) str -> (List.length str <= m)%nat ->
  exists s',
    call pf decoder_prog (S (S (S (S (S (S (S (F m)))))))) dec_parseLiteral
      [VL (map Z.of_N (q :: C04.escape q str ++ [q]))] s =
    EV (VTup [VZ nbt_TagString; VL (map Z.of_N str); VNil]) s' /\
    s_data s' = s_data s /\ s_off s' = s_off s /\ s_opcode s' = s_opcode s /\ s_scan s' = s_scan s.
Proof.
  intros Q B M. cbn [map]. rewrite map_app. cbn [map]. rewrite <- escapeZ_spec.
  apply decoder_parseLiteral_quoted.
  - destruct Q; subst; [left | right]; reflexivity.
  - rewrite Forall_forall in *. intros z Hz. apply in_map_iff in Hz. destruct Hz as (c & <- & Hc). specialize (B c Hc). lia.
  - rewrite map_length. exact M.
Qed.
