(* C04, the TRANSLATED decoder against the specification parser on EVERY text up to a length (the bound is part of the
   statement): whenever Model/C04.v `parse` reads a text as the tree t, the interpretation of the translated decoder
   writes exactly `enc t`.  Two alphabets: structure (braces, brackets, colon, comma, semicolon, both quotes, backslash, 1, a, B and space; length <= 6) and numbers
   ([],;-12bsLBI and space, length <= 5).  Floats do not occur (no '.'), so the float oracles are irrelevant. *)
From Coq Require Import List ZArith NArith Bool Lia.
From GoMC Require Import Model.C04_dsyntax Model.C04_dec Gen.Decoder.
From GoMC Require Model.C04.
Import ListNotations.
Local Open Scope Z_scope.

Definition nopf (_ : list Z) (_ : Z) : option Z := None.
Definition nopfs (_ : C04.flit) : option N := None.
Fixpoint zeqb (a b : list Z) : bool :=
  match a, b with [], [] => true | x :: a', y :: b' => (x =? y) && zeqb a' b' | _, _ => false end.
Lemma zeqb_eq a : forall b, zeqb a b = true -> a = b.
Proof.
  induction a as [|x a IH]; destruct b as [|y b]; simpl; intros H; try discriminate; [reflexivity|].
  apply andb_true_iff in H. destruct H as [H1 H2]. apply Z.eqb_eq in H1. rewrite (IH b H2), H1. reflexivity.
Qed.

Definition agree (text : list Z) : bool :=
  match C04.parse nopfs nopfs (map Z.to_N text) with
  | Some t => match decode_text nopf decoder_prog text with
              | DOk o => zeqb o (map Z.of_N (C04.enc t))
              | _ => false
              end
  | None => true
  end.

(* depth-first over every extension of the (reversed) prefix rp by up to k symbols of alpha *)
Fixpoint check (alpha : list Z) (k : nat) (rp : list Z) : bool :=
  agree (rev rp) && match k with O => true | S k' => forallb (fun c => check alpha k' (c :: rp)) alpha end.

Lemma check_sound alpha k : forall rp, check alpha k rp = true ->
  forall ext, (length ext <= k)%nat -> Forall (fun c => In c alpha) ext -> agree (rev rp ++ ext) = true.
Proof.
  induction k as [|k IH]; intros rp H ext L F; simpl in H; apply andb_true_iff in H; destruct H as [H1 H2].
  - destruct ext; [rewrite app_nil_r; exact H1 | simpl in L; lia].
  - destruct ext as [|c ext]; [rewrite app_nil_r; exact H1|].
    inversion F; subst. rewrite forallb_forall in H2. specialize (H2 c H3).
    specialize (IH (c :: rp) H2 ext ltac:(simpl in L; lia) H4). simpl in IH. rewrite <- app_assoc in IH. exact IH.
Qed.

Definition alpha1 : list Z := [123;125;91;93;58;44;59;34;39;92;49;97;66;32].
Definition alpha2 : list Z := [91;93;44;59;45;49;50;98;115;76;66;73;32].

Lemma sweep1 : check alpha1 6 [] = true.
Proof. vm_cast_no_check (eq_refl true). Qed.
Lemma sweep2 : check alpha2 5 [] = true.
Proof. vm_cast_no_check (eq_refl true). Qed.

Theorem decoder_agrees_short (text : list Z) (t : C04.tag) :
  ((length text <= 6)%nat /\ Forall (fun c => In c alpha1) text) \/
  ((length text <= 5)%nat /\ Forall (fun c => In c alpha2) text) ->
  C04.parse nopfs nopfs (map Z.to_N text) = Some t ->
  decode_text nopf decoder_prog text = DOk (map Z.of_N (C04.enc t)).
Proof.
  intros H P.
  assert (A : agree text = true).
  { destruct H as [[L F]|[L F]].
    - exact (check_sound alpha1 6 [] sweep1 text L F).
    - exact (check_sound alpha2 5 [] sweep2 text L F). }
  unfold agree in A. rewrite P in A. destruct (decode_text nopf decoder_prog text); try discriminate A.
  f_equal. apply zeqb_eq, A.
Qed.
