(* C04, the TRANSLATED decoder against the specification parser on EVERY text up to a length (the bound is part of the
   statement): whenever Model/C04.v `parse` reads a text as the tree t, the interpretation of the translated decoder
   writes exactly `enc t`.  Two alphabets: structure (braces, brackets, colon, comma, semicolon, both quotes, backslash, 1, a, B and space; length <= 5) and numbers
   ([],;-12bsLBI and space, length <= 4).  The bounds are kept where the independent checker (coqchk, which does not use
   the virtual machine) re-checks the sweeps in minutes.  Floats do not occur (no '.'), so the float oracles are irrelevant. *)
From Coq Require Import List ZArith NArith Bool Lia.
From GoMC Require Import Model.C04_dsyntax Model.C04_dec Gen.Decoder Proofs.C04_dec.
From GoMC Require Model.C04.
Import ListNotations.
Local Open Scope Z_scope.

Definition nopfs (_ : C04.flit) : option N := None.

Definition agree (text : list Z) : bool :=
  match C04.parse nopfs nopfs (map Z.to_N text) with
  | Some t => match decode_text nopf decoder_prog text with
              | DOk o => zeqb o (map Z.of_N (C04.enc t))
              | _ => false
              end
  | None => true
  end.

Lemma sweep1 : checkp agree alpha1 5 [] = true.
Proof. vm_cast_no_check (eq_refl true). Qed.
Lemma sweep2 : checkp agree alpha2 4 [] = true.
Proof. vm_cast_no_check (eq_refl true). Qed.

Theorem decoder_agrees_short (text : list Z) (t : C04.tag) :
  ((length text <= 5)%nat /\ Forall (fun c => In c alpha1) text) \/
  ((length text <= 4)%nat /\ Forall (fun c => In c alpha2) text) ->
  C04.parse nopfs nopfs (map Z.to_N text) = Some t ->
  decode_text nopf decoder_prog text = DOk (map Z.of_N (C04.enc t)).
Proof.
  intros H P.
  assert (A : agree text = true).
  { destruct H as [[L F]|[L F]].
    - exact (checkp_sound agree alpha1 5 [] sweep1 text L F).
    - exact (checkp_sound agree alpha2 4 [] sweep2 text L F). }
  unfold agree in A. rewrite P in A. destruct (decode_text nopf decoder_prog text); try discriminate A.
  f_equal. apply zeqb_eq, A.
Qed.
