(* C04, the TRANSLATED decoder on EVERY short text, continued (the bounds are part of the statements):
   - float literals: agreement with the specification parser on every text of at most 5 symbols over
     1 . - + f D d [ ] , and space, under float oracles that are consistent with each other (both read the decimal text,
     sign included, a leading + dropped, as a base-256 number: what matters is that the specification hands
     (sign, integer digits, fraction digits) to its oracle and the Go code hands the token without its suffix letter to
     strconv.ParseFloat, and that these are the same text);
   - totality: on every text of at most 4 symbols over that alphabet the interpretation ends in a payload or an error -
     no panic, no statement without a meaning, no exhausted fuel. *)
From Coq Require Import List ZArith NArith Bool Lia.
From GoMC Require Import Model.C04_dsyntax Model.C04_dec Gen.Decoder Proofs.C04_dec.
From GoMC Require Model.C04.
Import ListNotations.
Local Open Scope Z_scope.

Fixpoint b256 (acc : Z) (l : list Z) : Z := match l with [] => acc | c :: r => b256 (acc * 256 + c) r end.
Definition zpf (txt : list Z) (_ : Z) : option Z :=
  Some (b256 0 (match txt with 43 :: r => r | _ => txt end)).
Definition spf (f : C04.flit) : option N :=
  let '(neg, i, fr) := f in
  Some (Z.to_N (b256 0 (map Z.of_N ((if neg then [45%N] else []) ++ i ++ match fr with [] => [] | _ => 46%N :: fr end)))).

Definition agree_f (text : list Z) : bool :=
  match C04.parse spf spf (map Z.to_N text) with
  | Some t => match decode_text zpf decoder_prog text with DOk o => zeqb o (map Z.of_N (C04.enc t)) | _ => false end
  | None => true
  end.
Lemma sweep_f : checkp agree_f alpha3 5 [] = true.
Proof. vm_cast_no_check (eq_refl true). Qed.
Lemma sweep_t3 : checkp (total zpf) alpha3 4 [] = true.
Proof. vm_cast_no_check (eq_refl true). Qed.

Theorem decoder_agrees_short_floats (text : list Z) (t : C04.tag) :
  (length text <= 5)%nat -> Forall (fun c => In c alpha3) text ->
  C04.parse spf spf (map Z.to_N text) = Some t ->
  decode_text zpf decoder_prog text = DOk (map Z.of_N (C04.enc t)).
Proof.
  intros L F P. pose proof (checkp_sound agree_f alpha3 5 [] sweep_f text L F) as A. simpl in A.
  unfold agree_f in A. rewrite P in A. destruct (decode_text zpf decoder_prog text); try discriminate A.
  f_equal. apply zeqb_eq, A.
Qed.

Theorem decoder_total_short3 (text : list Z) :
  (length text <= 4)%nat -> Forall (fun c => In c alpha3) text ->
  (exists o, decode_text zpf decoder_prog text = DOk o) \/ decode_text zpf decoder_prog text = DErr.
Proof.
  intros L F. pose proof (checkp_sound (total zpf) alpha3 4 [] sweep_t3 text L F) as A. simpl in A.
  unfold total in A. destruct (decode_text zpf decoder_prog text); try discriminate A; [left; eauto | right; reflexivity].
Qed.
