(* C04, the TRANSLATED decoder on EVERY short text, continued: totality on every text of at most 4 symbols over the
   structural alphabet (braces, brackets, colon, comma, semicolon, both quotes, backslash, 1, a, B and space): the
   interpretation ends in a payload or an error - no panic (phasePanicMsg, index or slice out of range, failed type
   assertion), no statement without a meaning, no exhausted fuel. *)
From Coq Require Import List ZArith NArith Bool Lia.
From GoMC Require Model.C04.
From GoMC Require Import Model.C04_dsyntax Model.C04_dec Gen.Decoder Proofs.C04_dec Proofs.C04_dec_sweep.
Import ListNotations.
Local Open Scope Z_scope.

Lemma sweep_t1 : checkp (total nopf) alpha1 4 [] = true.
Proof. vm_cast_no_check (eq_refl true). Qed.

Theorem decoder_total_short1 (text : list Z) :
  (length text <= 4)%nat -> Forall (fun c => In c alpha1) text ->
  (exists o, decode_text nopf decoder_prog text = DOk o) \/ decode_text nopf decoder_prog text = DErr.
Proof.
  intros L F. pose proof (checkp_sound (total nopf) alpha1 4 [] sweep_t1 text L F) as A. simpl in A.
  unfold total in A. destruct (decode_text nopf decoder_prog text); try discriminate A; [left; eauto | right; reflexivity].
Qed.

(* compound entries with quoted and bare keys: agreement with the specification parser on every text of at most 7 symbols
   over braces, colon, both quotes, 1 and a *)
Definition alpha4 : list Z := [123;125;58;39;34;49;97].
Lemma sweep_k : checkp agree alpha4 7 [] = true.
Proof. vm_cast_no_check (eq_refl true). Qed.
Theorem decoder_agrees_short_keys (text : list Z) (t : C04.tag) :
  (length text <= 7)%nat -> Forall (fun c => In c alpha4) text ->
  C04.parse nopfs nopfs (map Z.to_N text) = Some t ->
  decode_text nopf decoder_prog text = DOk (map Z.of_N (C04.enc t)).
Proof.
  intros L F P. pose proof (checkp_sound agree alpha4 7 [] sweep_k text L F) as A. simpl in A.
  unfold agree in A. rewrite P in A. destruct (decode_text nopf decoder_prog text); try discriminate A.
  f_equal. apply zeqb_eq, A.
Qed.
