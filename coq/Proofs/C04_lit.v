(* C04, the TRANSLATED literal classifier (Gen/Literal.v: the unquoted-token clause of parseLiteral in
   nbt/snbt_decode.go, regenerated from the Go source on every run) against the specification's token
   classification (Model/C04.v classify): on every token the specification classifies, the Go code asks for the same
   tag, the same conversion (ParseInt / ParseFloat with the tag's bit size, or the token itself) applied to the token
   without its suffix letter. *)
From Coq Require Import List Arith NArith ZArith Lia Bool ZifyBool ZifyNat ZifyN.
From GoMC Require Import Base.Bytes Base.GoInt Gen.Consts Gen.Funcs Gen.Literal Model.C04 Proofs.C04 Proofs.C04_tie.
Import ListNotations.
Local Open Scope Z_scope.

Definition zs (l : list N) : list Z := map Z.of_N l.
Lemma zs_app a b : zs (a ++ b) = zs a ++ zs b. Proof. apply map_app. Qed.
Lemma zs_len a : length (zs a) = length a. Proof. apply map_length. Qed.

(* a run of digits leaves the flags alone *)
Lemma loop_digits ds : forallb is_digit ds = true -> forall rest i a h ig nb nt sl uq,
  nbt_parseLiteral_loop (zs ds ++ rest) i a h ig nb nt sl uq =
  nbt_parseLiteral_loop rest (i + Z.of_nat (length ds)) a h ig nb nt sl uq.
Proof.
  induction ds as [|d ds IH]; intros D rest i a h ig nb nt sl uq.
  - simpl. f_equal. lia.
  - simpl in D. apply andb_true_iff in D. destruct D as [D1 D2].
    cbn [zs map app nbt_parseLiteral_loop]. rewrite tie_isNumber, D1. fold (zs ds). rewrite (IH D2).
    f_equal. simpl length. lia.
Qed.

(* Go's int holds the length of any slice *)
Definition fits (tok : list N) : Prop := Z.of_nat (length tok) < 2 ^ 62.

Lemma wrap_pred n : 0 < n < 2 ^ 62 -> wrap_s 64 (n - 1) = n - 1.
Proof. intros H. apply wrap_s_id; [lia|]. change (2 ^ (64 - 1)) with (2 * 2 ^ 62). lia. Qed.

Definition sign_ok (sg : list N) : Prop := sg = [] \/ sg = [45%N] \/ sg = [43%N].

(* the sign, if any, leaves the flags alone (it is at index 0) *)
Lemma loop_sign sg : sign_ok sg -> forall rest a h nb nt sl uq, 0 < sl < 2 ^ 62 ->
  nbt_parseLiteral_loop (zs sg ++ rest) 0 a h true nb nt sl uq =
  nbt_parseLiteral_loop rest (Z.of_nat (length sg)) a h true nb nt sl uq.
Proof.
  intros [->|[->| ->]] rest a h nb nt sl uq Hsl; [reflexivity | |];
    cbn [zs map app nbt_parseLiteral_loop length];
    change (nbt_isNumber (Z.of_N 45)) with false; change (nbt_isNumber (Z.of_N 43)) with false;
    cbn; rewrite andb_false_r; reflexivity.
Qed.

(* the suffix letters: tag, conversion (1 = ParseInt, 2 = ParseFloat), bit size - the table of Model/C04.v classify_num *)
Definition sfx_kind (s : N) : option (Z * Z * Z) :=
  if ((s =? 98) || (s =? 66))%N then Some (nbt_TagByte, 1, 8)
  else if ((s =? 115) || (s =? 83))%N then Some (nbt_TagShort, 1, 16)
  else if ((s =? 105) || (s =? 73))%N then Some (nbt_TagInt, 1, 32)
  else if ((s =? 108) || (s =? 76))%N then Some (nbt_TagLong, 1, 64)
  else if ((s =? 102) || (s =? 70))%N then Some (nbt_TagFloat, 2, 32)
  else if ((s =? 100) || (s =? 68))%N then Some (nbt_TagDouble, 2, 64)
  else None.
Definition flt_sfx (s : N) : bool := ((s =? 102) || (s =? 70) || (s =? 100) || (s =? 68))%N.

Lemma sfx_cases s r : sfx_kind s = Some r ->
  (s = 98 \/ s = 66 \/ s = 115 \/ s = 83 \/ s = 105 \/ s = 73 \/ s = 108 \/ s = 76 \/ s = 102 \/ s = 70 \/ s = 100 \/ s = 68)%N.
Proof.
  unfold sfx_kind. intros H.
  repeat match type of H with context [if ?b then _ else _] => let E := fresh "E" in destruct b eqn:E end;
    try discriminate H; lia.
Qed.

Ltac start_tok :=
  unfold nbt_parseLiteral_unquoted; cbn zeta; rewrite zs_len; rewrite ?zs_app.

(* [sign] digits : Int through ParseInt(.., 10, 32) on the whole token *)
Lemma go_int_plain sg d1 : sign_ok sg -> d1 <> [] -> forallb is_digit d1 = true -> fits (sg ++ d1) ->
  nbt_parseLiteral_unquoted (zs (sg ++ d1)) = (nbt_TagInt, 1, 32, 32, Z.of_nat (length (sg ++ d1))).
Proof.
  intros S NE D F. unfold fits in F. start_tok.
  assert (L : 0 < Z.of_nat (length (sg ++ d1))) by (rewrite app_length; destruct d1; [contradiction | simpl; lia]).
  rewrite (loop_sign sg S) by lia.
  rewrite <- (app_nil_r (zs d1)), (loop_digits d1 D). cbn [nbt_parseLiteral_loop]. reflexivity.
Qed.

(* [sign] digits letter : the letter's tag, ParseInt / ParseFloat with the tag's bit size on the token without the letter *)
Lemma go_int_sfx sg d1 s tag conv bits : sign_ok sg -> d1 <> [] -> forallb is_digit d1 = true -> fits (sg ++ d1 ++ [s]) ->
  sfx_kind s = Some (tag, conv, bits) ->
  nbt_parseLiteral_unquoted (zs (sg ++ d1 ++ [s])) = (tag, conv, bits, bits, Z.of_nat (length (sg ++ d1 ++ [s])) - 1).
Proof.
  intros S NE D F K. unfold fits in F. start_tok.
  set (n := Z.of_nat (length (sg ++ d1 ++ [s]))) in *.
  assert (L : Z.of_nat (length sg) + Z.of_nat (length d1) = n - 1) by (unfold n; rewrite !app_length; simpl; lia).
  assert (L1 : 0 < Z.of_nat (length d1)) by (destruct d1; [contradiction | simpl; lia]).
  rewrite (loop_sign sg S) by lia. rewrite (loop_digits d1 D). rewrite L.
  pose proof (sfx_cases s _ K) as C.
  cbn [zs map nbt_parseLiteral_loop]. rewrite (wrap_pred n) by lia. rewrite Z.eqb_refl.
  replace (n - 1 =? 0) with false by lia.
  destruct C as [->|[->|[->|[->|[->|[->|[->|[->|[->|[->|[->| ->]]]]]]]]]]]; vm_compute in K; inversion K; subst; reflexivity.
Qed.

(* the decimal point after the integer digits switches from `integer` to `number` *)
Lemma loop_dot rest i a h nt sl uq : 0 < i -> 0 < sl < 2 ^ 62 ->
  nbt_parseLiteral_loop (46 :: rest) i a h true true nt sl uq =
  nbt_parseLiteral_loop rest (i + 1) a h false true nt sl uq.
Proof.
  intros Hi Hsl. cbn [nbt_parseLiteral_loop]. change (nbt_isNumber 46) with false.
  change (nbt_isIntegerType 46) with false. rewrite andb_false_r.
  replace (0 <? i) with true by lia. cbn. replace (i =? 0) with false by lia. reflexivity.
Qed.

(* [sign] digits . digits : Double through ParseFloat(.., 64) on the whole token *)
Lemma go_flt_plain sg d1 d2 : sign_ok sg -> d1 <> [] -> forallb is_digit d1 = true -> forallb is_digit d2 = true ->
  fits (sg ++ d1 ++ 46%N :: d2) ->
  nbt_parseLiteral_unquoted (zs (sg ++ d1 ++ 46%N :: d2)) =
  (nbt_TagDouble, 2, 64, 64, Z.of_nat (length (sg ++ d1 ++ 46%N :: d2))).
Proof.
  intros S NE D1 D2 F. unfold fits in F. start_tok.
  set (n := Z.of_nat (length (sg ++ d1 ++ 46%N :: d2))) in *.
  assert (L1 : 0 < Z.of_nat (length d1)) by (destruct d1; [contradiction | simpl; lia]).
  assert (L : 0 < n) by (unfold n; rewrite !app_length; simpl; lia).
  rewrite (loop_sign sg S) by lia. rewrite (loop_digits d1 D1).
  cbn [zs map]. rewrite loop_dot by lia. fold (zs d2).
  rewrite <- (app_nil_r (zs d2)), (loop_digits d2 D2). cbn [nbt_parseLiteral_loop]. reflexivity.
Qed.

(* [sign] digits . digits f|F|d|D : Float / Double through ParseFloat(.., 32 / 64) on the token without the letter *)
Lemma go_flt_sfx sg d1 d2 s tag conv bits : sign_ok sg -> d1 <> [] -> forallb is_digit d1 = true ->
  forallb is_digit d2 = true -> fits (sg ++ d1 ++ 46%N :: d2 ++ [s]) ->
  flt_sfx s = true -> sfx_kind s = Some (tag, conv, bits) ->
  nbt_parseLiteral_unquoted (zs (sg ++ d1 ++ 46%N :: d2 ++ [s])) =
  (tag, conv, bits, bits, Z.of_nat (length (sg ++ d1 ++ 46%N :: d2 ++ [s])) - 1).
Proof.
  intros S NE D1 D2 F FS K. unfold fits in F. start_tok.
  set (n := Z.of_nat (length (sg ++ d1 ++ 46%N :: d2 ++ [s]))) in *.
  assert (L1 : 0 < Z.of_nat (length d1)) by (destruct d1; [contradiction | simpl; lia]).
  assert (L : Z.of_nat (length sg) + Z.of_nat (length d1) + 1 + Z.of_nat (length d2) = n - 1)
    by (unfold n; rewrite !app_length; simpl; rewrite app_length; simpl; lia).
  rewrite (loop_sign sg S) by lia. rewrite (loop_digits d1 D1).
  cbn [zs map]. rewrite loop_dot by lia. fold (zs d2). rewrite map_app. fold (zs d2).
  rewrite (loop_digits d2 D2). rewrite L.
  cbn [map nbt_parseLiteral_loop]. rewrite (wrap_pred n) by lia. rewrite Z.eqb_refl.
  assert (C : (s = 102 \/ s = 70 \/ s = 100 \/ s = 68)%N) by (unfold flt_sfx in FS; lia).
  destruct C as [->|[->|[->| ->]]]; vm_compute in K; inversion K; subst; reflexivity.
Qed.

Lemma digit_not_alpha_contra c : is_alpha c = true -> is_digit c = false.
Proof. unfold is_alpha, is_digit. lia. Qed.

(* a bare word: the first character (a letter or underscore) ends `integer` and `number`, the rest is checked against
   isAllowedInUnquotedString *)
Lemma loop_str rest : forallb is_bare rest = true -> forall i a h nt sl,
  nbt_parseLiteral_loop (zs rest) i a h false false nt sl true = (a, h, false, false, nt, sl, true).
Proof.
  induction rest as [|c rest IH]; intros B i a h nt sl; [reflexivity|].
  simpl in B. apply andb_true_iff in B. destruct B as [B1 B2].
  cbn [zs map nbt_parseLiteral_loop]. fold (zs rest). rewrite tie_isAllowedInUnquotedString, B1. cbn [negb].
  destruct (nbt_isNumber (Z.of_N c)); apply (IH B2).
Qed.

Lemma go_word tok : is_word tok = true -> fits tok ->
  nbt_parseLiteral_unquoted (zs tok) = (nbt_TagString, 0, 0, 0, Z.of_nat (length tok)).
Proof.
  intros W F. unfold fits in F. destruct tok as [|c rest]; [discriminate W|].
  unfold is_word in W. apply andb_true_iff in W. destruct W as [W _]. apply andb_true_iff in W. destruct W as [W _].
  apply andb_true_iff in W. destruct W as [A B]. simpl in B. apply andb_true_iff in B. destruct B as [_ B].
  start_tok. cbn [zs map nbt_parseLiteral_loop]. fold (zs rest).
  rewrite tie_isNumber, (digit_not_alpha_contra c A).
  assert (S1 : (Z.of_N c =? 45) = false) by (unfold is_alpha in A; lia).
  assert (S2 : (Z.of_N c =? 43) = false) by (unfold is_alpha in A; lia).
  rewrite S1, S2. cbn. rewrite andb_false_r. cbn. rewrite (loop_str rest B). reflexivity.
Qed.

(* ------------------------------------------------------------------ against the specification's classify *)
Definition sfx_len (tok : list N) : Z := if is_digit (last tok 0%N) then 0 else 1.
Definition lit_expect (t : tag) (tok : list N) : Z * Z * Z * Z * Z :=
  let n := Z.of_nat (length tok) in
  match t with
  | TByte _ => (nbt_TagByte, 1, 8, 8, n - 1)
  | TShort _ => (nbt_TagShort, 1, 16, 16, n - 1)
  | TInt _ => (nbt_TagInt, 1, 32, 32, n - sfx_len tok)
  | TLong _ => (nbt_TagLong, 1, 64, 64, n - 1)
  | TFloat _ => (nbt_TagFloat, 2, 32, 32, n - 1)
  | TDouble _ => (nbt_TagDouble, 2, 64, 64, n - sfx_len tok)
  | TString _ => (nbt_TagString, 0, 0, 0, n)
  | _ => (0, 3, 0, 0, 0)
  end.

Lemma span_inv p s : forall a b, span p s = (a, b) ->
  s = a ++ b /\ forallb p a = true /\ match b with [] => True | c :: _ => p c = false end.
Proof.
  induction s as [|c s IH]; intros a b H; simpl in H.
  - inversion H. repeat split.
  - destruct (p c) eqn:E.
    + destruct (span p s) as [a' b'] eqn:E2. inversion H; subst. destruct (IH a' b eq_refl) as (A & B & C).
      subst s. repeat split; [simpl; rewrite E, B; reflexivity | exact C].
    + inversion H; subst. repeat split. exact E.
Qed.

Lemma strip_sign_inv tok neg body : strip_sign tok = (neg, body) -> exists sg, sign_ok sg /\ tok = sg ++ body.
Proof.
  unfold strip_sign. destruct tok as [|c b]; intros H.
  - inversion H. exists []. split; [left; reflexivity | reflexivity].
  - destruct (N.eqb_spec c 45); [|destruct (N.eqb_spec c 43)]; inversion H; subst.
    + exists [45%N]. split; [right; left; reflexivity | reflexivity].
    + exists [43%N]. split; [right; right; reflexivity | reflexivity].
    + exists []. split; [left; reflexivity | reflexivity].
Qed.

Lemma last_digits d : d <> [] -> forallb is_digit d = true -> is_digit (last d 0%N) = true.
Proof.
  induction d as [|c d IH]; intros NE D; [contradiction|]. simpl in D. apply andb_true_iff in D. destruct D as [D1 D2].
  destruct d as [|c' d']; [exact D1|]. change (last (c :: c' :: d') 0%N) with (last (c' :: d') 0%N).
  apply IH; [discriminate | exact D2].
Qed.
Lemma last_app_ne {A} (a b : list A) d : b <> [] -> last (a ++ b) d = last b d.
Proof.
  intros NE. induction a as [|x a IH]; [reflexivity|]. simpl app.
  destruct (a ++ b) as [|y l] eqn:E.
  - destruct a; [simpl in E; contradiction | discriminate E].
  - change (last (x :: y :: l) d) with (last (y :: l) d). exact IH.
Qed.

Lemma ranged_inv w mk v t : ranged w mk v = Some t -> t = mk v.
Proof. unfold ranged. destruct (in_rng w v); intros H; inversion H; reflexivity. Qed.
Lemma omap_inv {A} (mk : A -> tag) o t : omap mk o = Some t -> exists b, t = mk b.
Proof. destruct o; intros H; inversion H; eauto. Qed.

Theorem lit_agrees pf32 pf64 tok t : fits tok -> classify pf32 pf64 tok = Some t ->
  nbt_parseLiteral_unquoted (zs tok) = lit_expect t tok.
Proof.
  intros F H. unfold classify in H. destruct (is_word tok) eqn:W.
  { inversion H; subst. apply go_word; assumption. }
  destruct (strip_sign tok) as [neg body] eqn:ES. destruct (strip_sign_inv _ _ _ ES) as (sg & S & ->).
  unfold classify_num in H. destruct (span is_digit body) as [d1 r1] eqn:E1.
  destruct (span_inv _ _ _ _ E1) as (-> & D1 & N1).
  destruct d1 as [|x d1']; [discriminate H|]. set (d1 := x :: d1') in *. assert (NE1 : d1 <> []) by discriminate.
  destruct r1 as [|c r2].
  - (* no suffix: Int *)
    apply ranged_inv in H. subst t. rewrite app_nil_r in *. unfold lit_expect, sfx_len.
    rewrite (last_app_ne sg d1 0%N NE1), (last_digits d1 NE1 D1), Z.sub_0_r. apply go_int_plain; assumption.
  - destruct r2 as [|c2 r3].
    + (* one suffix letter *)
      assert (LS : last (sg ++ d1 ++ [c]) 0%N = c) by (rewrite app_assoc; apply last_last).
      assert (SL : sfx_len (sg ++ d1 ++ [c]) = 1) by (unfold sfx_len; rewrite LS, N1; reflexivity).
      destruct ((c =? 98) || (c =? 66))%N eqn:K1.
      { apply ranged_inv in H. subst t. unfold lit_expect. apply go_int_sfx; try assumption. unfold sfx_kind. rewrite K1. reflexivity. }
      destruct ((c =? 115) || (c =? 83))%N eqn:K2.
      { apply ranged_inv in H. subst t. unfold lit_expect. apply go_int_sfx; try assumption. unfold sfx_kind. rewrite K1, K2. reflexivity. }
      destruct ((c =? 105) || (c =? 73))%N eqn:K3.
      { apply ranged_inv in H. subst t. unfold lit_expect. rewrite SL. apply go_int_sfx; try assumption. unfold sfx_kind. rewrite K1, K2, K3. reflexivity. }
      destruct ((c =? 108) || (c =? 76))%N eqn:K4.
      { apply ranged_inv in H. subst t. unfold lit_expect. apply go_int_sfx; try assumption. unfold sfx_kind. rewrite K1, K2, K3, K4. reflexivity. }
      destruct ((c =? 102) || (c =? 70))%N eqn:K5.
      { apply omap_inv in H. destruct H as (b & ->). unfold lit_expect. apply go_int_sfx; try assumption. unfold sfx_kind. rewrite K1, K2, K3, K4, K5. reflexivity. }
      destruct ((c =? 100) || (c =? 68))%N eqn:K6; [|discriminate H].
      apply omap_inv in H. destruct H as (b & ->). unfold lit_expect. rewrite SL. apply go_int_sfx; try assumption.
      unfold sfx_kind. rewrite K1, K2, K3, K4, K5, K6. reflexivity.
    + (* more than one character after the digits: it must be a fraction *)
      destruct (N.eqb_spec c 46) as [->|]; [|discriminate H].
      destruct (span is_digit (c2 :: r3)) as [d2 r4] eqn:E2.
      destruct (span_inv _ _ _ _ E2) as (E3 & D2 & N2). rewrite E3 in *.
      destruct d2 as [|y d2']; [discriminate H|]. set (d2 := y :: d2') in *. assert (NE2 : d2 <> []) by discriminate.
      destruct r4 as [|s r5].
      * apply omap_inv in H. destruct H as (b & ->). rewrite app_nil_r in *. unfold lit_expect, sfx_len.
        rewrite (last_app_ne sg (d1 ++ 46%N :: d2) 0%N) by (destruct d1; discriminate).
        rewrite (last_app_ne d1 (46%N :: d2) 0%N) by discriminate.
        change (last (46%N :: d2) 0%N) with (last d2 0%N). rewrite (last_digits d2 NE2 D2), Z.sub_0_r.
        apply go_flt_plain; assumption.
      * destruct r5; [|discriminate H].
        assert (LS : last (sg ++ d1 ++ 46%N :: d2 ++ [s]) 0%N = s).
        { replace (sg ++ d1 ++ 46%N :: d2 ++ [s]) with ((sg ++ d1 ++ 46%N :: d2) ++ [s]) by (rewrite <- !app_assoc; reflexivity).
          apply last_last. }
        assert (SL : sfx_len (sg ++ d1 ++ 46%N :: d2 ++ [s]) = 1) by (unfold sfx_len; rewrite LS, N2; reflexivity).
        destruct ((s =? 102) || (s =? 70))%N eqn:K5.
        { apply omap_inv in H. destruct H as (b & ->). unfold lit_expect. apply go_flt_sfx; try assumption.
          - unfold flt_sfx. lia.
          - unfold sfx_kind. replace ((s =? 98) || (s =? 66))%N with false by lia. replace ((s =? 115) || (s =? 83))%N with false by lia.
            replace ((s =? 105) || (s =? 73))%N with false by lia. replace ((s =? 108) || (s =? 76))%N with false by lia.
            rewrite K5. reflexivity. }
        destruct ((s =? 100) || (s =? 68))%N eqn:K6; [|discriminate H].
        apply omap_inv in H. destruct H as (b & ->). unfold lit_expect. rewrite SL. apply go_flt_sfx; try assumption.
        -- unfold flt_sfx. lia.
        -- unfold sfx_kind. replace ((s =? 98) || (s =? 66))%N with false by lia. replace ((s =? 115) || (s =? 83))%N with false by lia.
           replace ((s =? 105) || (s =? 73))%N with false by lia. replace ((s =? 108) || (s =? 76))%N with false by lia.
           rewrite K5, K6. reflexivity.
Qed.
