(* C04 proofs: truncation.  For EVERY text the specification parser accepts (any byte string, any float oracle):
   (1) the text has balanced brackets outside string literals, by the independent three-mode reading `balanced` of
       Model/C04_scan.v;
   (2) when the text is a container or a quoted string (its first character after white space is a brace, a bracket or one of the two quote characters), every
       prefix that stops before the closing bracket / quote is NOT balanced: after its last byte the reading is inside a
       string literal or has an open bracket on its stack;
   hence (3) the specification parser rejects every such prefix, and (4) so does the TRANSLATED Go scanner of
   Gen/Scanner.v (through scan_accept_balanced: what it accepts is balanced; a prefix of white space only is refused
   because eof() in the initial state does not answer scanEnd).  The printed texts of L are instances (spec_roundtrip).
   The proof runs over the parser (induction on its fuel), not over the printer: `brun_hi k` is the three-mode reading
   that in addition demands that after every byte the stack is deeper than k or the reading is inside a string. *)
From Coq Require Import List Arith NArith ZArith Lia Bool ZifyN ZifyNat ZifyBool.
From GoMC Require Import Base.Bytes Gen.Consts Model.C04 Proofs.C04 Proofs.C04_rt Proofs.C04_wr.
From GoMC Require Import Gen.Scanner Model.C04_scan.
From GoMC Require Proofs.C04_scan_bal Proofs.C04_scan_cls.
Import ListNotations.
Local Open Scope N_scope.

Definition zs (a : list N) : list Z := map Z.of_N a.
Lemma zs_app a b : zs (a ++ b) = zs a ++ zs b. Proof. apply map_app. Qed.
Lemma zs_cons c a : zs (c :: a) = Z.of_N c :: zs a. Proof. reflexivity. Qed.

Definition bout (m : bmode) : bool := match m with BOut => true | _ => false end.
Definition above (k : nat) (m : bmode) (st : list Z) : bool := (k <? length st)%nat || negb (bout m).

Fixpoint brun_hi (k : nat) (m : bmode) (st : list Z) (text : list Z) : option (bmode * list Z) :=
  match text with
  | [] => Some (m, st)
  | c :: r => match bstep m st c with
              | Some (m', st') => if above k m' st' then brun_hi k m' st' r else None
              | None => None
              end
  end.

Lemma brun_app m st a b :
  brun m st (a ++ b) = match brun m st a with Some (m', st') => brun m' st' b | None => None end.
Proof.
  revert m st. induction a as [|c a IH]; intros m st; cbn [brun app]; [reflexivity|].
  destruct (bstep m st c) as [[m' st']|]; [apply IH|reflexivity].
Qed.
Lemma brun_hi_app k m st a b :
  brun_hi k m st (a ++ b) = match brun_hi k m st a with Some (m', st') => brun_hi k m' st' b | None => None end.
Proof.
  revert m st. induction a as [|c a IH]; intros m st; cbn [brun_hi app]; [reflexivity|].
  destruct (bstep m st c) as [[m' st']|]; [|reflexivity]. destruct (above k m' st'); [apply IH|reflexivity].
Qed.
Lemma brun_hi_brun k m st a r : brun_hi k m st a = Some r -> brun m st a = Some r.
Proof.
  revert m st. induction a as [|c a IH]; intros m st; cbn [brun_hi brun]; [auto|].
  destruct (bstep m st c) as [[m' st']|]; [|discriminate]. destruct (above k m' st'); [apply IH|discriminate].
Qed.
Lemma above_mono k k' m st : (k' <= k)%nat -> above k m st = true -> above k' m st = true.
Proof. unfold above. intros L H. destruct (bout m); cbn [negb] in *; lia. Qed.
Lemma brun_hi_mono k k' m st a r : (k' <= k)%nat -> brun_hi k m st a = Some r -> brun_hi k' m st a = Some r.
Proof.
  intros L. revert m st. induction a as [|c a IH]; intros m st; cbn [brun_hi]; [auto|].
  destruct (bstep m st c) as [[m' st']|]; [|discriminate]. destruct (above k m' st') eqn:A; [|discriminate].
  rewrite (above_mono k k' m' st' L A). apply IH.
Qed.
Lemma brun_hi_prefix k a1 a2 : forall m st r, above k m st = true -> brun_hi k m st (a1 ++ a2) = Some r ->
  exists m' st', brun m st a1 = Some (m', st') /\ above k m' st' = true.
Proof.
  induction a1 as [|c a1 IH]; intros m st r A H.
  - exists m, st. split; [reflexivity|exact A].
  - cbn [app brun_hi brun] in *. destruct (bstep m st c) as [[m' st']|]; [|discriminate].
    destruct (above k m' st') eqn:A'; [|discriminate]. exact (IH m' st' r A' H).
Qed.

(* characters that leave the reading alone outside string literals *)
Definition neut (c : N) : bool :=
  negb ((c =? 123) || (c =? 91) || (c =? 125) || (c =? 93) || (c =? 34) || (c =? 39)).
Lemma bstep_neut st c : neut c = true -> bstep BOut st (Z.of_N c) = Some (BOut, st).
Proof.
  unfold neut, bstep. intros H.
  assert (E1: (Z.of_N c =? 123)%Z = false) by lia. assert (E2: (Z.of_N c =? 91)%Z = false) by lia.
  assert (E3: (Z.of_N c =? 125)%Z = false) by lia. assert (E4: (Z.of_N c =? 93)%Z = false) by lia.
  assert (E5: (Z.of_N c =? 34)%Z = false) by lia. assert (E6: (Z.of_N c =? 39)%Z = false) by lia.
  rewrite E1, E2, E3, E4, E5, E6. reflexivity.
Qed.
Lemma brun_neut st a : forallb neut a = true -> brun BOut st (zs a) = Some (BOut, st).
Proof.
  induction a as [|c a IH]; intros H; [reflexivity|]. cbn [forallb] in H. apply andb_prop in H. destruct H as [H1 H2].
  rewrite zs_cons. cbn [brun]. rewrite (bstep_neut st c H1). exact (IH H2).
Qed.
Lemma above_out k st : (k < length st)%nat -> above k BOut st = true.
Proof. unfold above. intros H. apply Nat.ltb_lt in H. rewrite H. reflexivity. Qed.
Lemma above_in k q st : above k (BIn q) st = true. Proof. unfold above. apply orb_true_r. Qed.
Lemma above_esc k q st : above k (BEsc q) st = true. Proof. unfold above. apply orb_true_r. Qed.
Lemma brun_hi_neut k st a : (k < length st)%nat -> forallb neut a = true -> brun_hi k BOut st (zs a) = Some (BOut, st).
Proof.
  intros Hk. induction a as [|c a IH]; intros H; [reflexivity|]. cbn [forallb] in H. apply andb_prop in H.
  destruct H as [H1 H2]. rewrite zs_cons. cbn [brun_hi]. rewrite (bstep_neut st c H1), (above_out k st Hk). exact (IH H2).
Qed.
Lemma ws_neut c : is_ws c = true -> neut c = true. Proof. unfold is_ws, neut. lia. Qed.
Lemma bare_neut c : is_bare c = true -> neut c = true.
Proof. unfold is_bare, is_digit, is_alpha, neut. lia. Qed.
Lemma forallb_imp (p q : N -> bool) a : (forall c, p c = true -> q c = true) -> forallb p a = true -> forallb q a = true.
Proof.
  intros I. induction a as [|c a IH]; [auto|]. cbn [forallb]. intros H. apply andb_prop in H. destruct H as [H1 H2].
  rewrite (I c H1), (IH H2). reflexivity.
Qed.

(* a stretch of text that returns to where it started and never goes below *)
Definition Hrun (a : list N) : Prop :=
  forall k st, (k < length st)%nat -> brun_hi k BOut st (zs a) = Some (BOut, st).
Lemma Hrun_neut a : forallb neut a = true -> Hrun a.
Proof. intros H k st Hk. apply brun_hi_neut; assumption. Qed.
Lemma Hrun_ws w : all_ws w = true -> Hrun w.
Proof. intros H. apply Hrun_neut. exact (forallb_imp _ _ w ws_neut H). Qed.
Lemma Hrun_bare w : forallb is_bare w = true -> Hrun w.
Proof. intros H. apply Hrun_neut. exact (forallb_imp _ _ w bare_neut H). Qed.
Lemma Hrun_one c : neut c = true -> Hrun [c].
Proof. intros H. apply Hrun_neut. cbn [forallb]. rewrite H. reflexivity. Qed.
Lemma Hrun_app a b : Hrun a -> Hrun b -> Hrun (a ++ b).
Proof. intros Ha Hb k st Hk. rewrite zs_app, brun_hi_app, (Ha k st Hk). exact (Hb k st Hk). Qed.

(* an opening character, a body that stays strictly above, the closing character *)
Definition Top (o : N) (a : list N) (cl : N) : Prop := forall st, exists m' st',
  bstep BOut st (Z.of_N o) = Some (m', st') /\ above (length st) m' st' = true /\
  brun_hi (length st) m' st' (zs a) = Some (m', st') /\ bstep m' st' (Z.of_N cl) = Some (BOut, st).
Lemma Top_Hrun o a cl : Top o a cl -> Hrun (o :: a ++ [cl]).
Proof.
  intros T k st Hk. destruct (T st) as (m' & st' & B1 & A & R & B2).
  rewrite zs_cons. cbn [brun_hi]. rewrite B1, (above_mono (length st) k m' st' ltac:(lia) A).
  rewrite zs_app, brun_hi_app, (brun_hi_mono (length st) k m' st' _ _ ltac:(lia) R).
  cbn [zs map brun_hi]. rewrite B2, (above_out k st Hk). reflexivity.
Qed.
Lemma Top_brace a : Hrun a -> Top 123 a 125.
Proof.
  intros H st. exists BOut, (123%Z :: st). split; [reflexivity|]. split; [apply above_out; cbn [length]; lia|].
  split; [apply H; cbn [length]; lia|reflexivity].
Qed.
Lemma Top_bracket a : Hrun a -> Top 91 a 93.
Proof.
  intros H st. exists BOut, (91%Z :: st). split; [reflexivity|]. split; [apply above_out; cbn [length]; lia|].
  split; [apply H; cbn [length]; lia|reflexivity].
Qed.
Lemma bstep_in_close q st : q = 34 \/ q = 39 -> bstep (BIn (Z.of_N q)) st (Z.of_N q) = Some (BOut, st).
Proof. intros [-> | ->]; reflexivity. Qed.
Lemma bstep_out_quote q st : q = 34 \/ q = 39 -> bstep BOut st (Z.of_N q) = Some (BIn (Z.of_N q), st).
Proof. intros [-> | ->]; reflexivity. Qed.
Lemma Top_quote q body : q = 34 \/ q = 39 ->
  (forall k st, brun_hi k (BIn (Z.of_N q)) st (zs body) = Some (BIn (Z.of_N q), st)) -> Top q body q.
Proof.
  intros Hq R st. exists (BIn (Z.of_N q)), st. split; [apply bstep_out_quote; exact Hq|].
  split; [apply above_in|]. split; [apply R|apply bstep_in_close; exact Hq].
Qed.

(* the body of a quoted string keeps the reading inside the literal *)
Lemma unq_run q : q = 34 \/ q = 39 -> forall n r x z, (length r <= n)%nat -> unq q r = Some (x, z) ->
  exists body, r = body ++ q :: z /\
    forall k st, brun_hi k (BIn (Z.of_N q)) st (zs body) = Some (BIn (Z.of_N q), st).
Proof.
  intros Hq. induction n as [|n IH]; intros r x z Hl H.
  - destruct r; [discriminate | cbn [length] in Hl; lia].
  - destruct r as [|c r]; [discriminate|]. cbn [unq] in H. destruct (c =? q) eqn:Ecq.
    + inversion H; subst. apply N.eqb_eq in Ecq. subst c. exists []. split; [reflexivity|]. intros; reflexivity.
    + destruct (c =? 92) eqn:Ec.
      * destruct r as [|e r']; [discriminate|]. destruct ((e =? q) || (e =? 92)) eqn:Ee; [|discriminate].
        destruct (unq q r') as [[x' z']|] eqn:U; [|discriminate]. inversion H; subst.
        destruct (IH r' x' z ltac:(cbn [length] in Hl; lia) U) as (body & -> & R).
        exists (c :: e :: body). split; [reflexivity|]. intros k st.
        apply N.eqb_eq in Ec. subst c. rewrite !zs_cons. cbn [brun_hi].
        change (bstep (BIn (Z.of_N q)) st (Z.of_N 92)) with (Some (BEsc (Z.of_N q), st)).
        cbv iota beta. rewrite above_esc. cbn [bstep]. rewrite above_in. apply R.
      * destruct (unq q r) as [[x' z']|] eqn:U; [|discriminate]. inversion H; subst.
        destruct (IH r x' z ltac:(cbn [length] in Hl; lia) U) as (body & -> & R).
        exists (c :: body). split; [reflexivity|]. intros k st. rewrite zs_cons. cbn [brun_hi bstep].
        assert (E1: (Z.of_N c =? 92)%Z = false) by lia. assert (E2: (Z.of_N c =? Z.of_N q)%Z = false) by lia.
        rewrite E1, E2, above_in. apply R.
Qed.

Lemma skip_ws_split s : exists w, s = w ++ skip_ws s /\ all_ws w = true.
Proof.
  induction s as [|c s IH]; [exists []; auto|]. cbn [skip_ws]. destruct (is_ws c) eqn:E.
  - destruct IH as (w & E1 & E2). exists (c :: w). split; [cbn [app]; f_equal; exact E1|].
    unfold all_ws in *. cbn [forallb]. rewrite E. exact E2.
  - exists []. auto.
Qed.
Lemma sep_split z c z1 : skip_ws z = c :: z1 -> exists w, z = w ++ c :: z1 /\ all_ws w = true.
Proof. intros H. destruct (skip_ws_split z) as (w & E & A). rewrite H in E. exists w. auto. Qed.
Lemma span_split p s : forall a b, span p s = (a, b) -> s = a ++ b /\ forallb p a = true.
Proof.
  induction s as [|c s IH]; intros a b H; cbn [span] in H.
  - inversion H; auto.
  - destruct (p c) eqn:E.
    + destruct (span p s) as [a' b'] eqn:S. inversion H; subst. destruct (IH _ _ eq_refl) as [-> F].
      split; [reflexivity|]. cbn [forallb]. rewrite E. exact F.
    + inversion H; subst. auto.
Qed.
Lemma skip_ws_nil_all z : skip_ws z = [] -> all_ws z = true.
Proof. intros H. destruct (skip_ws_split z) as (w & E & A). rewrite H, app_nil_r in E. subst. exact A. Qed.
Lemma arr_prefix_split r k r2 : arr_prefix r = Some (k, r2) -> exists c1, r = c1 :: 59 :: r2 /\ neut c1 = true.
Proof.
  unfold arr_prefix. destruct r as [|c1 [|c2 r']]; try discriminate. destruct (c2 =? 59) eqn:E; [|discriminate].
  destruct (arr_letter c1) as [k'|] eqn:AL; [|discriminate]. intros H. inversion H; subst.
  apply N.eqb_eq in E. subst c2. exists c1. split; [reflexivity|]. unfold arr_letter in AL.
  destruct (c1 =? 66) eqn:E1; [unfold neut; lia|]. destruct (c1 =? 73) eqn:E2; [unfold neut; lia|].
  destruct (c1 =? 76) eqn:E3; [unfold neut; lia|discriminate].
Qed.

Definition opener (s : list N) : bool :=
  match s with c :: _ => (c =? 123) || (c =? 91) || (c =? 34) || (c =? 39) | [] => false end.

(* what a value looks like to the three-mode reading *)
Definition Vshape (s z : list N) : Prop := exists w b, s = w ++ b ++ z /\ all_ws w = true /\
  ((exists o a cl, b = o :: a ++ [cl] /\ Top o a cl) \/ (forallb neut b = true /\ opener (skip_ws s) = false)).
Lemma Vshape_Hrun s z : Vshape s z -> exists a, s = a ++ z /\ Hrun a.
Proof.
  intros (w & b & E & W & [(o & a & cl & -> & T) | (Nb & _)]).
  - exists (w ++ o :: a ++ [cl]). split; [rewrite E, <- app_assoc; reflexivity|].
    apply Hrun_app; [apply Hrun_ws; exact W|apply Top_Hrun; exact T].
  - exists (w ++ b). split; [rewrite E, <- app_assoc; reflexivity|].
    apply Hrun_app; [apply Hrun_ws; exact W|apply Hrun_neut; exact Nb].
Qed.

Ltac fin := cbn [app]; repeat (rewrite <- app_assoc; cbn [app]); reflexivity.
Ltac hr := repeat first [ assumption | apply Hrun_one; reflexivity | apply Hrun_ws; assumption
                        | apply Hrun_bare; assumption | apply Hrun_app ].

Section Pfx.
Variables pf32 pf64 : flit -> option N.

Lemma parr_run f : forall k s l z, parr pf32 pf64 f k s = Some (l, z) -> exists a, s = a ++ 93 :: z /\ Hrun a.
Proof.
  induction f as [|f IH]; intros k s l z H; [discriminate|]. rewrite parr_S in H. unfold parr_body in H.
  destruct (skip_ws_split s) as (w0 & Es & Hw0).
  destruct (span is_bare (skip_ws s)) as [tok z0] eqn:Sp. apply span_split in Sp. destruct Sp as [Etok Ftok].
  rewrite Etok in Es. clear Etok.
  destruct (classify pf32 pf64 tok) as [t|]; [|discriminate]. destruct (arr_val k t) as [v|]; [|discriminate].
  destruct (skip_ws z0) as [|c z1] eqn:Sk; [discriminate|]. apply sep_split in Sk. destruct Sk as (w1 & Ez0 & Hw1).
  destruct (c =? 44) eqn:E44.
  - destruct (parr pf32 pf64 f k z1) as [[l' z2]|] eqn:R; [|discriminate]. inversion H; subst l z2.
    destruct (IH _ _ _ _ R) as (a2 & Ez1 & Ha2). apply N.eqb_eq in E44. subst c.
    exists (w0 ++ tok ++ w1 ++ [44] ++ a2). split; [rewrite Es, Ez0, Ez1; fin|hr].
  - destruct (c =? 93) eqn:E93; [|discriminate]. inversion H; subst l z1. apply N.eqb_eq in E93. subst c.
    exists (w0 ++ tok ++ w1). split; [rewrite Es, Ez0; fin|hr].
Qed.

Lemma pkey_run s k z : pkey s = Some (k, z) -> exists a, s = a ++ z /\ Hrun a.
Proof.
  unfold pkey. destruct s as [|c r]; [discriminate|]. destruct ((c =? 34) || (c =? 39)) eqn:Eq.
  - intros U. assert (Hq: c = 34 \/ c = 39) by lia.
    destruct (unq_run c Hq (length r) r k z (le_n _) U) as (body & -> & R).
    exists (c :: body ++ [c]). split; [fin|]. apply Top_Hrun. apply Top_quote; assumption.
  - destruct (span is_bare (c :: r)) as [tok z0] eqn:Sp. apply span_split in Sp. destruct Sp as [Etok Ftok].
    destruct (is_word tok); [|discriminate]. intros H. inversion H; subst. exists k. split; [exact Etok|hr].
Qed.

Lemma all_run f :
  (forall s t z, pval pf32 pf64 f s = Some (t, z) -> Vshape s z) /\
  (forall s l z, pelems pf32 pf64 f s = Some (l, z) -> exists a, s = a ++ 93 :: z /\ Hrun a) /\
  (forall s c z, pentries pf32 pf64 f s = Some (c, z) -> exists a, s = a ++ 125 :: z /\ Hrun a).
Proof.
  induction f as [|f (IHv & IHl & IHc)]; [repeat split; intros; discriminate|].
  repeat split.
  - (* pval *)
    intros s t z H. rewrite pval_S in H. unfold pval_body in H.
    destruct (skip_ws_split s) as (w0 & Es & Hw0).
    destruct (skip_ws s) as [|c r] eqn:Sk; [discriminate|].
    destruct (c =? 123) eqn:E123.
    { apply N.eqb_eq in E123. subst c.
      destruct (skip_ws r) as [|c1 r1] eqn:Sk1; [discriminate|].
      destruct (c1 =? 125) eqn:E125.
      - inversion H; subst t r1. apply N.eqb_eq in E125. subst c1. apply sep_split in Sk1.
        destruct Sk1 as (w1 & Er & Hw1). exists w0, (123 :: w1 ++ [125]).
        split; [rewrite Es, Er; fin|]. split; [exact Hw0|]. left. exists 123, w1, 125.
        split; [reflexivity|]. apply Top_brace. hr.
      - destruct (pentries pf32 pf64 f r) as [[cc z']|] eqn:R; [|discriminate]. inversion H; subst t z'.
        destruct (IHc _ _ _ R) as (a & Er & Ha). exists w0, (123 :: a ++ [125]).
        split; [rewrite Es, Er; fin|]. split; [exact Hw0|]. left. exists 123, a, 125.
        split; [reflexivity|]. apply Top_brace. exact Ha. }
    destruct (c =? 91) eqn:E91.
    { apply N.eqb_eq in E91. subst c.
      destruct (starts_semi (snd (span is_bare r))) eqn:SS.
      - destruct (arr_prefix r) as [[k r2]|] eqn:AP; [|discriminate].
        apply arr_prefix_split in AP. destruct AP as (c1 & Er & N1).
        destruct (skip_ws r2) as [|c3 r3] eqn:Sk3; [discriminate|].
        destruct (c3 =? 93) eqn:E93.
        + inversion H; subst t r3. apply N.eqb_eq in E93. subst c3. apply sep_split in Sk3.
          destruct Sk3 as (w1 & Er2 & Hw1). exists w0, (91 :: ([c1] ++ [59] ++ w1) ++ [93]).
          split; [rewrite Es, Er, Er2; fin|]. split; [exact Hw0|]. left. exists 91, ([c1] ++ [59] ++ w1), 93.
          split; [reflexivity|]. apply Top_bracket.
          apply Hrun_app; [apply Hrun_one; exact N1|]. hr.
        + destruct (parr pf32 pf64 f k r2) as [[l z']|] eqn:R; [|discriminate]. inversion H; subst t z'.
          destruct (parr_run f _ _ _ _ R) as (a & Er2 & Ha).
          exists w0, (91 :: ([c1] ++ [59] ++ a) ++ [93]).
          split; [rewrite Es, Er, Er2; fin|]. split; [exact Hw0|]. left. exists 91, ([c1] ++ [59] ++ a), 93.
          split; [reflexivity|]. apply Top_bracket.
          apply Hrun_app; [apply Hrun_one; exact N1|]. hr.
      - destruct (skip_ws r) as [|c1 r1] eqn:Sk1; [discriminate|].
        destruct (c1 =? 93) eqn:E93.
        + inversion H; subst t r1. apply N.eqb_eq in E93. subst c1. apply sep_split in Sk1.
          destruct Sk1 as (w1 & Er & Hw1). exists w0, (91 :: w1 ++ [93]).
          split; [rewrite Es, Er; fin|]. split; [exact Hw0|]. left. exists 91, w1, 93.
          split; [reflexivity|]. apply Top_bracket. hr.
        + destruct (pelems pf32 pf64 f r) as [[l z']|] eqn:R; [|discriminate].
          destruct (homog l); [|discriminate]. inversion H; subst t z'.
          destruct (IHl _ _ _ R) as (a & Er & Ha). exists w0, (91 :: a ++ [93]).
          split; [rewrite Es, Er; fin|]. split; [exact Hw0|]. left. exists 91, a, 93.
          split; [reflexivity|]. apply Top_bracket. exact Ha. }
    destruct ((c =? 34) || (c =? 39)) eqn:Eq.
    { assert (Hq: c = 34 \/ c = 39) by lia.
      destruct (unq c r) as [[x z']|] eqn:U; [|discriminate]. inversion H; subst t z'.
      destruct (unq_run c Hq (length r) r x z (le_n _) U) as (body & Er & R).
      exists w0, (c :: body ++ [c]). split; [rewrite Es, Er; fin|]. split; [exact Hw0|]. left.
      exists c, body, c. split; [reflexivity|]. apply Top_quote; assumption. }
    destruct (span is_bare (c :: r)) as [tok z0] eqn:Sp. apply span_split in Sp. destruct Sp as [Etok Ftok].
    destruct (classify pf32 pf64 tok) as [t0|]; [|discriminate]. inversion H; subst t0 z0.
    exists w0, tok. split; [rewrite Es, Etok; reflexivity|]. split; [exact Hw0|]. right.
    split; [exact (forallb_imp _ _ tok bare_neut Ftok)|]. rewrite Sk. unfold opener. rewrite E123, E91. exact Eq.
  - (* pelems *)
    intros s l z H. rewrite pelems_S in H. unfold pelems_body in H.
    destruct (pval pf32 pf64 f s) as [[t z0]|] eqn:V; [|discriminate].
    destruct (Vshape_Hrun _ _ (IHv _ _ _ V)) as (a0 & Es & Ha0).
    destruct (skip_ws z0) as [|c z1] eqn:Sk; [discriminate|]. apply sep_split in Sk. destruct Sk as (w1 & Ez0 & Hw1).
    destruct (c =? 44) eqn:E44.
    + destruct (pelems pf32 pf64 f z1) as [[l' z2]|] eqn:R; [|discriminate]. inversion H; subst l z2.
      destruct (IHl _ _ _ R) as (a2 & Ez1 & Ha2). apply N.eqb_eq in E44. subst c.
      exists (a0 ++ w1 ++ [44] ++ a2). split; [rewrite Es, Ez0, Ez1; fin|hr].
    + destruct (c =? 93) eqn:E93; [|discriminate]. inversion H; subst l z1. apply N.eqb_eq in E93. subst c.
      exists (a0 ++ w1). split; [rewrite Es, Ez0; fin|hr].
  - (* pentries *)
    intros s cc z H. rewrite pentries_S in H. unfold pentries_body in H.
    destruct (skip_ws_split s) as (w0 & Es & Hw0).
    destruct (pkey (skip_ws s)) as [[k z0]|] eqn:K; [|discriminate].
    destruct (pkey_run _ _ _ K) as (ak & Ek & Hak). rewrite Ek in Es. clear Ek.
    destruct (skip_ws z0) as [|c z1] eqn:Sk; [discriminate|]. apply sep_split in Sk. destruct Sk as (w1 & Ez0 & Hw1).
    destruct (c =? 58) eqn:E58; [|discriminate]. apply N.eqb_eq in E58. subst c.
    destruct (pval pf32 pf64 f z1) as [[t z2]|] eqn:V; [|discriminate].
    destruct (Vshape_Hrun _ _ (IHv _ _ _ V)) as (a1 & Ez1 & Ha1).
    destruct (skip_ws z2) as [|d z3] eqn:Sk2; [discriminate|]. apply sep_split in Sk2.
    destruct Sk2 as (w2 & Ez2 & Hw2).
    destruct (d =? 44) eqn:E44.
    + destruct (pentries pf32 pf64 f z3) as [[cc' z4]|] eqn:R; [|discriminate]. inversion H; subst cc z4.
      destruct (IHc _ _ _ R) as (a3 & Ez3 & Ha3). apply N.eqb_eq in E44. subst d.
      exists (w0 ++ ak ++ w1 ++ [58] ++ a1 ++ w2 ++ [44] ++ a3).
      split; [rewrite Es, Ez0, Ez1, Ez2, Ez3; fin|hr].
    + destruct (d =? 125) eqn:E125; [|discriminate]. inversion H; subst cc z3. apply N.eqb_eq in E125. subst d.
      exists (w0 ++ ak ++ w1 ++ [58] ++ a1 ++ w2). split; [rewrite Es, Ez0, Ez1, Ez2; fin|hr].
Qed.

(* (1) what the specification parser accepts has balanced brackets outside string literals *)
Theorem spec_accept_balanced s t : parse pf32 pf64 s = Some t -> balanced (zs s) = true.
Proof.
  unfold parse. destruct (pval pf32 pf64 (S (length s)) s) as [[t' z]|] eqn:V; [|discriminate].
  destruct (skip_ws z) eqn:Sk; [|discriminate]. intros _. apply skip_ws_nil_all in Sk.
  destruct (proj1 (all_run _) _ _ _ V) as (w & b & E & W & D). unfold balanced.
  assert (R: brun BOut [] (zs (w ++ b)) = Some (BOut, [])).
  { rewrite zs_app, brun_app, (brun_neut [] w (forallb_imp _ _ w ws_neut W)).
    destruct D as [(o & a & cl & -> & T) | (Nb & _)]; [|apply brun_neut; exact Nb].
    destruct (T []) as (m' & st' & B1 & _ & R & B2). rewrite zs_cons. cbn [brun]. rewrite B1.
    rewrite zs_app, brun_app, (brun_hi_brun _ _ _ _ _ R). cbn [zs map brun]. rewrite B2. reflexivity. }
  rewrite E, app_assoc, zs_app, brun_app, R, (brun_neut [] z (forallb_imp _ _ z ws_neut Sk)). reflexivity.
Qed.

(* (2) a container or quoted text cut before its closing bracket / quote is not balanced *)
Theorem prefix_unbalanced p q t : parse pf32 pf64 (p ++ q) = Some t -> opener (skip_ws (p ++ q)) = true ->
  all_ws q = false -> all_ws p = false -> balanced (zs p) = false.
Proof.
  unfold parse. destruct (pval pf32 pf64 (S (length (p ++ q))) (p ++ q)) as [[t' z]|] eqn:V; [|discriminate].
  destruct (skip_ws z) eqn:Sk; [|discriminate]. intros _ Op Hq Hp. apply skip_ws_nil_all in Sk.
  destruct (proj1 (all_run _) _ _ _ V) as (w & b & E & W & D).
  destruct D as [(o & a & cl & -> & T) | (_ & Nop)]; [|rewrite Op in Nop; discriminate].
  assert (E': p ++ q = (w ++ o :: a) ++ (cl :: z)) by (rewrite E; fin).
  assert (X: exists l, w ++ o :: a = p ++ l).
  { destruct (app_eq_app _ _ _ _ E') as (l & [[Ep El] | [Ep El]]).
    - destruct l as [|c l].
      + exists []. rewrite app_nil_r in *. auto.
      + cbn [app] in El. inversion El; subst. unfold all_ws in *. rewrite forallb_app in Sk.
        apply andb_prop in Sk. destruct Sk as [_ Sk]. rewrite Sk in Hq. discriminate.
    - exists l. exact Ep. }
  destruct X as (l & X). destruct (app_eq_app _ _ _ _ X) as (l2 & [[Ew El] | [Ep El]]).
  { subst w. unfold all_ws in *. rewrite forallb_app in W. apply andb_prop in W. destruct W as [W _].
    rewrite W in Hp. discriminate. }
  destruct l2 as [|o' a1].
  { rewrite app_nil_r in Ep. subst p. rewrite W in Hp. discriminate. }
  cbn [app] in El. inversion El; subst o' a. subst p. clear El X E' E.
  destruct (T []) as (m' & st' & B1 & A & R & _).
  rewrite zs_app in R. destruct (brun_hi_prefix _ _ _ _ _ _ A R) as (m2 & st2 & R2 & A2).
  unfold balanced. rewrite zs_app, brun_app, (brun_neut [] w (forallb_imp _ _ w ws_neut W)).
  rewrite zs_cons. cbn [brun]. rewrite B1, R2. unfold above in A2.
  destruct m2; try reflexivity. destruct st2; [discriminate|reflexivity].
Qed.

(* (3) the specification parser rejects every such prefix *)
Theorem spec_prefix_rejected p q t : parse pf32 pf64 (p ++ q) = Some t -> opener (skip_ws (p ++ q)) = true ->
  all_ws q = false -> parse pf32 pf64 p = None.
Proof.
  intros H Op Hq. destruct (all_ws p) eqn:Hp.
  - unfold parse. rewrite pval_S. unfold pval_body. rewrite (skip_ws_all p Hp). reflexivity.
  - destruct (parse pf32 pf64 p) as [t'|] eqn:P; [|reflexivity].
    pose proof (prefix_unbalanced p q t H Op Hq Hp) as U. rewrite (spec_accept_balanced p t' P) in U. discriminate.
Qed.
End Pfx.

(* ------------------------------------------------------------------ (4) the TRANSLATED Go scanner *)
Lemma scan_ws_stays w : all_ws w = true -> fst (scan_bytes scan_init (zs w)) = scan_init.
Proof.
  induction w as [|c w IH]; intros H; [reflexivity|]. unfold all_ws in *. cbn [forallb] in H.
  apply andb_prop in H. destruct H as [H1 H2]. rewrite zs_cons. cbn [scan_bytes].
  rewrite (C04_scan_cls.ws_skipped scan_init c H1 eq_refl eq_refl).
  destruct (scan_bytes scan_init (zs w)) as [s2 ops] eqn:E. cbn [fst] in *. exact (IH H2).
Qed.
Lemma scan_ws_refused w : all_ws w = true -> scan_accepts (zs w) = false.
Proof. intros H. unfold scan_accepts. rewrite (scan_ws_stays w H). vm_compute. reflexivity. Qed.

Theorem scan_prefix_refused pf32 pf64 p q t : parse pf32 pf64 (p ++ q) = Some t ->
  opener (skip_ws (p ++ q)) = true -> all_ws q = false -> scan_accepts (zs p) = false.
Proof.
  intros H Op Hq. destruct (all_ws p) eqn:Hp; [apply scan_ws_refused; exact Hp|].
  destruct (scan_accepts (zs p)) eqn:A; [|reflexivity]. apply C04_scan_bal.scan_accept_balanced in A.
  rewrite (prefix_unbalanced pf32 pf64 p q t H Op Hq Hp) in A. discriminate.
Qed.

(* ------------------------------------------------------------------ the printed texts of L *)
(* the tree is printed as a container or as a quoted string *)
Definition opens (L : nlay) (t : tag) : bool :=
  match t with
  | TByteArray _ | TList _ | TCompound _ | TIntArray _ | TLongArray _ => true
  | TString s => negb (((qs L =? 0) || (qs L =? 3)) && is_word s)
  | _ => false
  end.

Lemma quote_of_cases st s : quote_of st s = 34 \/ quote_of st s = 39.
Proof.
  unfold quote_of. destruct (st =? 2); [tauto|]. destruct (st =? 3); [|tauto].
  destruct (count 39 s <? count 34 s)%nat; tauto.
Qed.

Lemma pr_array_shape ly letter k l : pr_array ly letter k l =
  91 :: (letter :: 59 :: (match l with [] => ws5 (ly []) | _ => pr_arr ly 0 k l end)) ++ [93].
Proof. reflexivity. Qed.

(* printed form: white space, an opening character that is not white space, ..., a closing one, white space *)
Lemma pr_open_shape fm32 fm64 ly t : opens (ly []) t = true ->
  exists o x cl, pr fm32 fm64 ly t = ws1 (ly []) ++ (o :: x ++ [cl]) ++ ws2 (ly []) /\
                 opener [o] = true /\ is_ws o = false /\ is_ws cl = false.
Proof.
  destruct t; try discriminate; intros Hop; cbn [pr opens] in *.
  - rewrite pr_array_shape. eexists 91, _, 93. split; [reflexivity|]. repeat split.
  - unfold pr_str. apply negb_true_iff in Hop. rewrite Hop.
    exists (quote_of (qs (ly [])) s), (escape (quote_of (qs (ly [])) s) s), (quote_of (qs (ly [])) s).
    split; [reflexivity|]. destruct (quote_of_cases (qs (ly [])) s) as [-> | ->]; repeat split.
  - eexists 91, _, 93. split; [reflexivity|]. repeat split.
  - eexists 123, _, 125. split; [reflexivity|]. repeat split.
  - rewrite pr_array_shape. eexists 91, _, 93. split; [reflexivity|]. repeat split.
  - rewrite pr_array_shape. eexists 91, _, 93. split; [reflexivity|]. repeat split.
Qed.

Lemma pr_opener fm32 fm64 ly t : lay_ok ly -> opens (ly []) t = true ->
  opener (skip_ws (pr fm32 fm64 ly t)) = true.
Proof.
  intros Hl Hop. destruct (pr_open_shape fm32 fm64 ly t Hop) as (o & x & cl & -> & O & Wo & _).
  destruct (nlay_ok_all _ (Hl [])) as (W1 & _). rewrite (skip_ws_app _ _ W1). cbn [app].
  rewrite (skip_ws_cons _ _ Wo). exact O.
Qed.

Lemma last_nonws (s x p q : list N) cl : s = x ++ [cl] -> is_ws cl = false -> s = p ++ q -> q <> [] -> all_ws q = false.
Proof.
  intros E W E2 Hq. destruct (exists_last Hq) as (q' & c & ->). rewrite E, app_assoc in E2.
  apply app_inj_tail in E2. destruct E2 as [_ <-]. unfold all_ws. rewrite forallb_app. cbn [forallb].
  rewrite W. apply andb_false_r.
Qed.

Section Printed.
Variables fm32 fm64 : N -> flit.
Variables pf32 pf64 : flit -> option N.
Hypothesis H32 : forall b, fin32 b = true -> flit_ok (fm32 b) = true /\ pf32 (fm32 b) = Some b.
Hypothesis H64 : forall b, fin64 b = true -> flit_ok (fm64 b) = true /\ pf64 (fm64 b) = Some b.

(* every layout of L: a cut that leaves more than trailing white space behind *)
Theorem printed_prefix_rejected ly t p q : lay_ok ly -> wf t = true -> opens (ly []) t = true ->
  pr fm32 fm64 ly t = p ++ q -> all_ws q = false ->
  parse pf32 pf64 p = None /\ scan_accepts (zs p) = false /\ (all_ws p = false -> balanced (zs p) = false).
Proof.
  intros Hl Hw Hop E Hq. pose proof (spec_roundtrip fm32 fm64 pf32 pf64 H32 H64 ly t Hl Hw) as RT.
  pose proof (pr_opener fm32 fm64 ly t Hl Hop) as Op. rewrite E in RT, Op.
  split; [exact (spec_prefix_rejected pf32 pf64 p q t RT Op Hq)|].
  split; [exact (scan_prefix_refused pf32 pf64 p q t RT Op Hq)|].
  intros Hp. exact (prefix_unbalanced pf32 pf64 p q t RT Op Hq Hp).
Qed.

(* the Go writer's text: every strict prefix *)
Theorem written_prefix_rejected t p q : wf t = true -> opens wlay t = true ->
  to_text fm32 fm64 t = p ++ q -> q <> [] ->
  parse pf32 pf64 p = None /\ scan_accepts (zs p) = false.
Proof.
  intros Hw Hop E Hq. rewrite to_text_is_layout in E.
  destruct (pr_open_shape fm32 fm64 wly t Hop) as (o & x & cl & Es & _ & _ & Wc).
  assert (Hq': all_ws q = false).
  { apply (last_nonws (pr fm32 fm64 wly t) (o :: x) p q cl); auto. rewrite Es. change (ws1 (wly [])) with (@nil N). change (ws2 (wly [])) with (@nil N).
    cbn [app]. rewrite app_nil_r. reflexivity. }
  destruct (printed_prefix_rejected wly t p q wly_ok Hw Hop E Hq') as (A & B & _). auto.
Qed.
End Printed.
