(* C04 proofs, part 2: parse (print layout t) = t, by mutual induction over the tree *)
From Coq Require Import List Arith NArith ZArith Lia Bool ZifyN ZifyNat ZifyBool.
From GoMC Require Import Base.Bytes Gen.Consts Model.C04 Proofs.C04.
Import ListNotations.
Open Scope N_scope.

Scheme tag_mut := Induction for tag Sort Prop
  with tlist_mut := Induction for tlist Sort Prop
  with tcomp_mut := Induction for tcomp Sort Prop.
Combined Scheme tag_mutind from tag_mut, tlist_mut, tcomp_mut.

(* fuel the parser needs for a tree *)
Fixpoint need (t : tag) : nat :=
  match t with
  | TList l => S (need_list l)
  | TCompound c => S (need_comp c)
  | TByteArray l | TIntArray l | TLongArray l => S (length l)
  | _ => 1%nat
  end
with need_list (l : tlist) : nat := match l with LNil => O | LCons t r => S (need t + need_list r) end
with need_comp (c : tcomp) : nat := match c with CNil => O | CCons _ t r => S (need t + need_comp r) end.

Section RT.
Variables fm32 fm64 : N -> flit.
Variables pf32 pf64 : flit -> option N.
Hypothesis H32 : forall b, fin32 b = true -> flit_ok (fm32 b) = true /\ pf32 (fm32 b) = Some b.
Hypothesis H64 : forall b, fin64 b = true -> flit_ok (fm64 b) = true /\ pf64 (fm64 b) = Some b.

Notation pval := (pval pf32 pf64).
Notation pelems := (pelems pf32 pf64).
Notation pentries := (pentries pf32 pf64).
Notation parr := (parr pf32 pf64).
Notation classify := (classify pf32 pf64).
Notation pr := (pr fm32 fm64).
Notation pr_list := (pr_list fm32 fm64).
Notation pr_comp := (pr_comp fm32 fm64).

Lemma pval_S f s : pval (S f) s = pval_body pf32 pf64 (pelems f) (pentries f) (parr f) s.
Proof. reflexivity. Qed.
Lemma pelems_S f s : pelems (S f) s = pelems_body (pval f) (pelems f) s.
Proof. reflexivity. Qed.
Lemma pentries_S f s : pentries (S f) s = pentries_body (pval f) (pentries f) s.
Proof. reflexivity. Qed.
Lemma parr_S f k s : parr (S f) k s = parr_body pf32 pf64 (parr f k) k s.
Proof. reflexivity. Qed.

Lemma pval_bare fuel w tok t rest : all_ws w = true -> bare_tok tok -> classify tok = Some t ->
  stop is_bare rest -> pval (S fuel) (w ++ tok ++ rest) = Some (t, rest).
Proof.
  intros Hw [(c & r & ->) Hb] Hc Hs. rewrite pval_S. unfold pval_body. rewrite (skip_ws_app w _ Hw).
  pose proof Hb as Hb'. cbn [forallb] in Hb'. apply andb_prop in Hb'. destruct Hb' as [Hcb _].
  cbn [app]. rewrite (skip_ws_cons c _ (bare_not_ws c Hcb)).
  destruct (bare_not_delim c Hcb) as (-> & -> & -> & -> & _). cbn [orb].
  change (c :: r ++ rest) with ((c :: r) ++ rest). rewrite (span_app is_bare _ _ Hb Hs), Hc. reflexivity.
Qed.

Lemma pval_quoted fuel w q s rest : all_ws w = true -> q = 34 \/ q = 39 ->
  pval (S fuel) (w ++ (q :: escape q s ++ [q]) ++ rest) = Some (TString s, rest).
Proof.
  intros Hw Hq. rewrite pval_S. unfold pval_body. rewrite (skip_ws_app w _ Hw). cbn [app]. rewrite <- app_assoc. cbn [app].
  destruct Hq as [-> | ->]; cbn [skip_ws is_ws N.eqb Pos.eqb orb]; rewrite unq_escape by reflexivity; reflexivity.
Qed.

(* shape of a printed string: a bare word or a quoted body *)
Lemma pr_str_shape st s :
  (pr_str st s = s /\ is_word s = true) \/
  (exists q, (q = 34 \/ q = 39) /\ pr_str st s = q :: escape q s ++ [q]).
Proof.
  unfold pr_str. destruct (((st =? 0) || (st =? 3)) && is_word s) eqn:E.
  - left. apply andb_prop in E. tauto.
  - right. exists (quote_of st s). split; [|reflexivity]. unfold quote_of.
    destruct (st =? 2); [tauto|]. destruct (st =? 3); [|tauto].
    destruct (count 39 s <? count 34 s)%nat; tauto.
Qed.

Lemma pval_str fuel w st s rest : all_ws w = true -> stop is_bare rest ->
  pval (S fuel) (w ++ pr_str st s ++ rest) = Some (TString s, rest).
Proof.
  intros Hw Hs. destruct (pr_str_shape st s) as [[-> W] | (q & Hq & ->)].
  - apply pval_bare; auto. apply is_word_bare; exact W. apply classify_word; exact W.
  - apply pval_quoted; auto.
Qed.

Lemma pkey_str st s rest : stop is_bare rest ->
  pkey (pr_str st s ++ rest) = Some (s, rest).
Proof.
  intros Hs. destruct (pr_str_shape st s) as [[-> W] | (q & Hq & ->)].
  - destruct (is_word_bare s W) as [(c & r & ->) Hb]. unfold pkey. cbn [app].
    pose proof Hb as Hb'. cbn [forallb] in Hb'. apply andb_prop in Hb'. destruct Hb' as [Hcb _].
    destruct (bare_not_delim c Hcb) as (_ & _ & -> & -> & _). cbn [orb].
    change (c :: r ++ rest) with ((c :: r) ++ rest). rewrite (span_app is_bare _ _ Hb Hs), W. reflexivity.
  - unfold pkey. cbn [app]. rewrite <- app_assoc. cbn [app].
    destruct Hq as [-> | ->]; cbn [N.eqb Pos.eqb orb]; rewrite unq_escape by reflexivity; reflexivity.
Qed.

(* the first character of a printed string is not a closing brace and not white space *)
Lemma pr_str_head st s rest : exists c r, pr_str st s ++ rest = c :: r /\ is_ws c = false /\ (c =? 125) = false.
Proof.
  destruct (pr_str_shape st s) as [[-> W] | (q & Hq & ->)].
  - destruct (is_word_bare s W) as [(c & r & ->) Hb]. exists c, (r ++ rest). split; [reflexivity|].
    cbn [forallb] in Hb. apply andb_prop in Hb. destruct Hb as [Hcb _].
    split; [apply bare_not_ws; auto|]. apply (bare_not_delim c Hcb).
  - eexists _, _. split; [reflexivity|]. destruct Hq as [-> | ->]; split; reflexivity.
Qed.

(* ------------------------------------------------------------------ typed arrays *)
Definition hd_ok (x : list N) : Prop :=
  match x with [] => False | c :: _ => is_bare c = false /\ (c =? 59) = false /\ is_ws c = false end.

Lemma parr_ok k (mkt : Z -> tag) (rng : Z -> bool) ly :
  (forall L v, rng v = true -> classify (pr_int L v ++ arr_sfx k L) = Some (mkt v)) ->
  (forall L, forallb is_bare (arr_sfx k L) = true) ->
  (forall v, arr_val k (mkt v) = Some v) -> lay_ok ly ->
  forall l i fuel rest, l <> [] -> forallb rng l = true -> (length l <= fuel)%nat ->
  parr fuel k (pr_arr ly i k l ++ 93 :: rest) = Some (l, rest).
Proof.
  intros Hcl Hsb Hav Hly. induction l as [|v l IH]; intros i fuel rest NE Hr Hf; [congruence|].
  destruct fuel as [|f]; [simpl in Hf; lia|]. cbn [forallb] in Hr. apply andb_prop in Hr. destruct Hr as [Hv Hr].
  rewrite parr_S. unfold parr_body. cbn [pr_arr]. pose proof (Hly [i]) as HL. unfold nlay_ok in HL.
  repeat (apply andb_prop in HL; destruct HL as [HL ?]).
  set (L := ly [i]) in *.
  assert (BT: bare_tok (pr_int L v ++ arr_sfx k L)) by (apply bare_tok_app; [apply pr_int_tok | apply Hsb]).
  repeat rewrite <- app_assoc. rewrite (skip_ws_app (ws1 L)) by assumption.
  rewrite (app_assoc (pr_int L v)).
  pose proof (Hcl L v Hv) as HC.
  destruct BT as [(c & r & E) Hb]. rewrite E in *.
  pose proof Hb as Hb'. cbn [forallb] in Hb'. apply andb_prop in Hb'. destruct Hb' as [Hcb _].
  cbn [app]. rewrite (skip_ws_cons c _ (bare_not_ws c Hcb)).
  change (c :: r ++ ?x) with ((c :: r) ++ x).
  destruct l as [|v2 l].
  - rewrite (span_app is_bare (c :: r)); [|exact Hb|apply stop_ws_app; [assumption|reflexivity]].
    rewrite HC, Hav. cbn [app]. rewrite (skip_ws_app (ws2 L)) by assumption.
    cbn [skip_ws is_ws N.eqb Pos.eqb orb]. reflexivity.
  - rewrite (span_app is_bare (c :: r)); [|exact Hb|apply stop_ws_app; [assumption|reflexivity]].
    rewrite HC, Hav. rewrite (skip_ws_app (ws2 L)) by assumption.
    cbn [app skip_ws is_ws N.eqb Pos.eqb orb].
    rewrite (IH (S i) f rest); [reflexivity|discriminate|exact Hr|simpl in *; lia].
Qed.

(* ------------------------------------------------------------------ what a printed value starts with *)
Definition head_prop (s : list N) : Prop :=
  starts_semi (snd (span is_bare s)) = false /\
  exists c1 r1, skip_ws s = c1 :: r1 /\ (c1 =? 93) = false.


Lemma span_nonbare c s : is_bare c = false -> span is_bare (c :: s) = ([], c :: s).
Proof. intros H. cbn [span]. rewrite H. reflexivity. Qed.

Lemma head_bare w core x : all_ws w = true -> bare_tok core ->
  (match x with [] => False | c :: _ => is_bare c = false /\ (c =? 59) = false end) ->
  head_prop (w ++ core ++ x).
Proof.
  intros Hw [(c & r & ->) Hb] Hx. pose proof Hb as Hb'. cbn [forallb] in Hb'. apply andb_prop in Hb'.
  destruct Hb' as [Hcb _]. split.
  - destruct w as [|c0 w].
    + cbn [app]. change (c :: r ++ x) with ((c :: r) ++ x). rewrite span_app; auto.
      * destruct x; [tauto|]. cbn [snd starts_semi]. tauto.
      * destruct x; [tauto|]. cbn [stop]. tauto.
    + unfold all_ws in Hw. cbn [forallb] in Hw. apply andb_prop in Hw. destruct Hw as [Hc0 _].
      cbn [app]. rewrite span_nonbare by (apply ws_not_bare; auto). cbn [snd starts_semi].
      apply (ws_not_delim c0 Hc0).
  - rewrite skip_ws_app by auto. cbn [app]. rewrite skip_ws_cons by (apply bare_not_ws; auto).
    eexists _, _. split; [reflexivity|]. apply (bare_not_delim c Hcb).
Qed.

Lemma head_delim w c r : all_ws w = true -> c = 34 \/ c = 39 \/ c = 91 \/ c = 123 ->
  head_prop (w ++ c :: r).
Proof.
  intros Hw Hc.
  assert (F: is_bare c = false /\ (c =? 59) = false /\ is_ws c = false /\ (c =? 93) = false).
  { destruct Hc as [-> | [-> | [-> | ->]]]; repeat split; reflexivity. }
  destruct F as (F1 & F2 & F3 & F4). split.
  - destruct w as [|c0 w].
    + cbn [app]. rewrite span_nonbare by auto. exact F2.
    + unfold all_ws in Hw. cbn [forallb] in Hw. apply andb_prop in Hw. destruct Hw as [Hc0 _].
      cbn [app]. rewrite span_nonbare by (apply ws_not_bare; auto). cbn [snd starts_semi].
      apply (ws_not_delim c0 Hc0).
  - rewrite skip_ws_app by auto. rewrite skip_ws_cons by auto. eauto.
Qed.

Lemma nlay_ok_all L : nlay_ok L = true ->
  all_ws (ws1 L) = true /\ all_ws (ws2 L) = true /\ all_ws (ws3 L) = true /\ all_ws (ws5 L) = true
  /\ all_ws (kws1 L) = true /\ all_ws (kws2 L) = true.
Proof. unfold nlay_ok. intros H. repeat (apply andb_prop in H; destruct H as [H ?]). tauto. Qed.

Definition sep_ok (x : list N) : Prop :=
  match x with [] => False | c :: _ => is_bare c = false /\ (c =? 59) = false end.
Lemma sep_ok_ws w x : all_ws w = true -> sep_ok x -> sep_ok (w ++ x).
Proof.
  destruct w as [|c w]; [auto|]. unfold all_ws. cbn [forallb app sep_ok]. intros H _.
  apply andb_prop in H. destruct H as [Hc _]. split; [apply ws_not_bare; auto|apply (ws_not_delim c Hc)].
Qed.

Lemma pr_head ly t x : lay_ok ly -> wf t = true -> sep_ok x -> head_prop (pr ly t ++ x).
Proof.
  intros Hly Hwf Hx. pose proof (nlay_ok_all _ (Hly [])) as (W1 & W2 & W3 & W5 & _).
  set (L := ly []) in *.
  assert (BT: forall core, bare_tok core -> head_prop ((ws1 L ++ core ++ ws2 L) ++ x)).
  { intros core Hc. rewrite <- !app_assoc. apply head_bare; auto. apply sep_ok_ws; auto. }
  assert (DL: forall c r, c = 34 \/ c = 39 \/ c = 91 \/ c = 123 -> head_prop ((ws1 L ++ (c :: r) ++ ws2 L) ++ x)).
  { intros c r Hc. rewrite <- !app_assoc. cbn [app]. apply head_delim; auto. }
  destruct t; cbn [C04.pr]; fold L; cbn [wf] in Hwf.
  - apply BT, bare_tok_app; [apply pr_int_tok | apply sfx_bare; reflexivity].
  - apply BT, bare_tok_app; [apply pr_int_tok | apply sfx_bare; reflexivity].
  - apply BT, bare_tok_app; [apply pr_int_tok |]. destruct (isfx L); [apply sfx_bare|]; reflexivity.
  - apply BT, bare_tok_app; [apply pr_int_tok | apply sfx_bare; reflexivity].
  - apply BT, bare_tok_app; [apply pr_flit_tok, H32, Hwf | apply sfx_bare; reflexivity].
  - apply BT, bare_tok_app; [apply pr_flit_tok, H64, Hwf |].
    destruct (nosuf L && has_frac (fm64 bits)); [|apply sfx_bare]; reflexivity.
  - apply DL. tauto.
  - destruct (pr_str_shape (qs L) s) as [[-> W] | (q & Hq & ->)].
    + apply BT, is_word_bare, W.
    + apply DL. tauto.
  - apply DL. tauto.
  - apply DL. tauto.
  - apply DL. tauto.
  - apply DL. tauto.
Qed.

(* ------------------------------------------------------------------ the round trip *)
Lemma pval_leaf f L core t rest : nlay_ok L = true -> bare_tok core -> classify core = Some t ->
  stop is_bare rest -> pval (S f) ((ws1 L ++ core ++ ws2 L) ++ rest) = Some (t, ws2 L ++ rest).
Proof.
  intros HL Hb Hc Hs. destruct (nlay_ok_all _ HL) as (W1 & W2 & _).
  rewrite <- !app_assoc. apply pval_bare; auto. apply stop_ws_app; auto.
Qed.

Lemma lay_ok_sub ly i : lay_ok ly -> lay_ok (sub ly i).
Proof. intros H p. apply H. Qed.

Lemma pval_array f ly letter k (mkt : Z -> tag) (rng : Z -> bool) l rest :
  arr_letter letter = Some k -> is_bare letter = true ->
  (forall L v, rng v = true -> classify (pr_int L v ++ arr_sfx k L) = Some (mkt v)) ->
  (forall L, forallb is_bare (arr_sfx k L) = true) ->
  (forall v, arr_val k (mkt v) = Some v) -> lay_ok ly ->
  forallb rng l = true -> (length l <= f)%nat ->
  pval (S f) ((ws1 (ly []) ++ pr_array ly letter k l ++ ws2 (ly [])) ++ rest)
  = Some (mk_arr k l, ws2 (ly []) ++ rest).
Proof.
  intros HA HB Hcl Hsb Hav Hly Hr Hf. destruct (nlay_ok_all _ (Hly [])) as (W1 & W2 & W3 & W5 & _).
  set (L := ly []) in *. unfold pr_array. fold L. rewrite <- !app_assoc. rewrite pval_S. unfold pval_body.
  rewrite skip_ws_app by auto. cbn [app skip_ws is_ws N.eqb Pos.eqb orb].
  change (letter :: 59 :: ?x) with ([letter] ++ 59 :: x).
  rewrite (span_app is_bare [letter]); [|cbn [forallb]; rewrite HB; reflexivity|reflexivity].
  cbn [app snd starts_semi arr_prefix N.eqb Pos.eqb]. rewrite HA.
  destruct l as [|v l].
  - rewrite <- !app_assoc. rewrite skip_ws_app by auto. cbn [app skip_ws is_ws N.eqb Pos.eqb orb]. reflexivity.
  - rewrite <- !app_assoc.
    assert (HP: exists c3 r3, skip_ws (pr_arr ly 0 k (v :: l) ++ [93] ++ ws2 L ++ rest) = c3 :: r3 /\ (c3 =? 93) = false).
    { cbn [pr_arr]. destruct (nlay_ok_all _ (Hly [0%nat])) as (V1 & _).
      rewrite <- !app_assoc. rewrite skip_ws_app by auto.
      destruct (pr_int_tok (ly [0%nat]) v) as [(c & r & ->) Hb]. cbn [forallb] in Hb. apply andb_prop in Hb.
      destruct Hb as [Hcb _]. cbn [app]. rewrite skip_ws_cons by (apply bare_not_ws; auto).
      eexists _, _. split; [reflexivity|]. apply (bare_not_delim c Hcb). }
    destruct HP as (c3 & r3 & -> & ->).
    change ([93] ++ ws2 L ++ rest) with (93 :: ws2 L ++ rest).
    rewrite (parr_ok k mkt rng ly Hcl Hsb Hav Hly (v :: l) 0%nat f (ws2 L ++ rest)); auto. discriminate.
Qed.

Definition P (t : tag) : Prop := forall ly fuel rest, lay_ok ly -> wf t = true -> (need t <= fuel)%nat ->
  stop is_bare rest -> pval fuel (pr ly t ++ rest) = Some (t, ws2 (ly []) ++ rest).
Definition P0 (l : tlist) : Prop := forall ly i fuel rest, lay_ok ly -> wf_list l = true -> l <> LNil ->
  (need_list l <= fuel)%nat -> pelems fuel (pr_list ly i l ++ 93 :: rest) = Some (l, rest).
Definition P1 (c : tcomp) : Prop := forall ly i fuel rest, lay_ok ly -> wf_comp c = true -> c <> CNil ->
  (need_comp c <= fuel)%nat -> pentries fuel (pr_comp ly i c ++ 125 :: rest) = Some (c, rest).

Lemma arr_sfx_bare k L : forallb is_bare (arr_sfx k L) = true.
Proof.
  unfold arr_sfx. destruct (k =? 0); [apply sfx_bare; reflexivity|].
  destruct (k =? 1); [|apply sfx_bare; reflexivity]. destruct (aisfx L); [apply sfx_bare|]; reflexivity.
Qed.

Lemma pr_list_cons ly i t r : pr_list ly i (LCons t r) =
  pr (sub ly i) t ++ match r with LNil => [] | _ => 44 :: pr_list ly (S i) r end.
Proof. reflexivity. Qed.
Lemma pr_comp_cons ly i k t r : pr_comp ly i (CCons k t r) =
  kws1 (ly [i]) ++ pr_str (kqs (ly [i])) k ++ kws2 (ly [i]) ++ 58 :: pr (sub ly i) t
    ++ match r with CNil => [] | _ => 44 :: pr_comp ly (S i) r end.
Proof. reflexivity. Qed.
Lemma pr_TList ly l : pr ly (TList l) =
  ws1 (ly []) ++ (91 :: (match l with LNil => ws3 (ly []) | _ => pr_list ly 0 l end) ++ [93]) ++ ws2 (ly []).
Proof. reflexivity. Qed.
Lemma pr_TCompound ly c : pr ly (TCompound c) =
  ws1 (ly []) ++ (123 :: (match c with CNil => ws3 (ly []) | _ => pr_comp ly 0 c end) ++ [125]) ++ ws2 (ly []).
Proof. reflexivity. Qed.

Lemma semi_ws_sep w c x : all_ws w = true -> is_bare c = false -> (c =? 59) = false ->
  starts_semi (snd (span is_bare (w ++ c :: x))) = false.
Proof.
  intros Hw Hc H59. destruct w as [|c0 w].
  - cbn [app]. rewrite span_nonbare by auto. exact H59.
  - unfold all_ws in Hw. cbn [forallb] in Hw. apply andb_prop in Hw. destruct Hw as [Hc0 _].
    cbn [app]. rewrite span_nonbare by (apply ws_not_bare; auto). cbn [snd starts_semi].
    apply (ws_not_delim c0 Hc0).
Qed.

Lemma roundtrip_all : (forall t, P t) /\ (forall l, P0 l) /\ (forall c, P1 c).
Proof.
  apply tag_mutind; unfold P, P0, P1.
  - (* Byte *) intros v ly fuel rest Hly Hwf Hf Hs. destruct fuel as [|f]; [simpl in Hf; lia|]. cbn [C04.pr].
    apply pval_leaf; auto. apply bare_tok_app; [apply pr_int_tok | apply sfx_bare; reflexivity].
    apply classify_byte; exact Hwf.
  - intros v ly fuel rest Hly Hwf Hf Hs. destruct fuel as [|f]; [simpl in Hf; lia|]. cbn [C04.pr].
    apply pval_leaf; auto. apply bare_tok_app; [apply pr_int_tok | apply sfx_bare; reflexivity].
    apply classify_short; exact Hwf.
  - intros v ly fuel rest Hly Hwf Hf Hs. destruct fuel as [|f]; [simpl in Hf; lia|]. cbn [C04.pr].
    apply pval_leaf; auto.
    + apply bare_tok_app; [apply pr_int_tok |]. destruct (isfx (ly [])); [apply sfx_bare|]; reflexivity.
    + destruct (isfx (ly [])); [apply classify_int_sfx | apply classify_int_plain]; exact Hwf.
  - intros v ly fuel rest Hly Hwf Hf Hs. destruct fuel as [|f]; [simpl in Hf; lia|]. cbn [C04.pr].
    apply pval_leaf; auto. apply bare_tok_app; [apply pr_int_tok | apply sfx_bare; reflexivity].
    apply classify_long; exact Hwf.
  - (* Float *) intros b ly fuel rest Hly Hwf Hf Hs. destruct fuel as [|f]; [simpl in Hf; lia|]. cbn [C04.pr].
    destruct (H32 b Hwf) as [OK PF].
    apply pval_leaf; auto. apply bare_tok_app; [apply pr_flit_tok; auto | apply sfx_bare; reflexivity].
    apply classify_float; auto.
  - intros b ly fuel rest Hly Hwf Hf Hs. destruct fuel as [|f]; [simpl in Hf; lia|]. cbn [C04.pr].
    destruct (H64 b Hwf) as [OK PF].
    apply pval_leaf; auto.
    + apply bare_tok_app; [apply pr_flit_tok; auto |].
      destruct (nosuf (ly []) && has_frac (fm64 b)); [|apply sfx_bare]; reflexivity.
    + destruct (nosuf (ly []) && has_frac (fm64 b)) eqn:E.
      * apply andb_prop in E. apply classify_double_nosuf; tauto.
      * apply classify_double; auto.
  - (* ByteArray *) intros l ly fuel rest Hly Hwf Hf Hs. destruct fuel as [|f]; [simpl in Hf; lia|]. cbn [C04.pr].
    apply (pval_array f ly 66 0 TByte (in_rng 8)); auto; try reflexivity.
    + intros L v R. apply classify_byte; auto.
    + intros L. apply arr_sfx_bare.
    + simpl in Hf. lia.
  - (* String *) intros s ly fuel rest Hly _ Hf Hs. destruct fuel as [|f]; [simpl in Hf; lia|]. cbn [C04.pr].
    destruct (nlay_ok_all _ (Hly [])) as (W1 & W2 & _). rewrite <- !app_assoc.
    apply pval_str; auto. apply stop_ws_app; auto.
  - (* List *) intros l IH ly fuel rest Hly Hwf Hf Hs. destruct fuel as [|f]; [simpl in Hf; lia|].
    cbn [wf] in Hwf. apply andb_prop in Hwf. destruct Hwf as [Hh Hwl].
    destruct (nlay_ok_all _ (Hly [])) as (W1 & W2 & W3 & _). rewrite pr_TList. set (L := ly []) in *.
    rewrite <- !app_assoc. rewrite pval_S. unfold pval_body. rewrite skip_ws_app by auto.
    cbn [app skip_ws is_ws N.eqb Pos.eqb orb].
    destruct l as [|t r].
    + rewrite <- !app_assoc. cbn [app]. rewrite semi_ws_sep by (auto; reflexivity).
      rewrite skip_ws_app by auto. cbn [skip_ws is_ws N.eqb Pos.eqb orb]. reflexivity.
    + assert (EX: exists x, (pr_list ly 0 (LCons t r) ++ [93]) ++ ws2 L ++ rest = pr (sub ly 0) t ++ x /\ sep_ok x).
      { rewrite pr_list_cons. rewrite <- !app_assoc. eexists. split; [reflexivity|].
        destruct r; cbn; split; reflexivity. }
      destruct EX as (x & EX & Hx).
      assert (Hwt: wf t = true) by (cbn [wf_list] in Hwl; apply andb_prop in Hwl; tauto).
      destruct (pr_head (sub ly 0) t x (lay_ok_sub ly 0 Hly) Hwt Hx) as [HS (c1 & r1 & HK & H93)].
      rewrite EX, HS, HK, H93. rewrite <- EX. rewrite <- !app_assoc. cbn [app].
      rewrite (IH ly 0%nat f (ws2 L ++ rest)); auto; [|discriminate|cbn [need need_list] in Hf |- *; lia].
      rewrite Hh. reflexivity.
  - (* Compound *) intros c IH ly fuel rest Hly Hwf Hf Hs. destruct fuel as [|f]; [simpl in Hf; lia|].
    cbn [wf] in Hwf.
    destruct (nlay_ok_all _ (Hly [])) as (W1 & W2 & W3 & _). rewrite pr_TCompound. set (L := ly []) in *.
    rewrite <- !app_assoc. rewrite pval_S. unfold pval_body. rewrite skip_ws_app by auto.
    cbn [app skip_ws is_ws N.eqb Pos.eqb orb].
    destruct c as [|k t r].
    + rewrite <- !app_assoc. rewrite skip_ws_app by auto. cbn [app skip_ws is_ws N.eqb Pos.eqb orb]. reflexivity.
    + assert (HK: exists c1 r1, skip_ws ((pr_comp ly 0 (CCons k t r) ++ [125]) ++ ws2 L ++ rest) = c1 :: r1 /\ (c1 =? 125) = false).
      { rewrite pr_comp_cons. destruct (nlay_ok_all _ (Hly [0%nat])) as (_ & _ & _ & _ & K1 & _).
        rewrite <- !app_assoc. rewrite skip_ws_app by auto.
        match goal with |- context [pr_str ?st ?s ++ ?y] => destruct (pr_str_head st s y) as (c1 & r1 & E & Hws & H125) end.
        rewrite E. rewrite skip_ws_cons by auto. eauto. }
      destruct HK as (c1 & r1 & -> & ->). rewrite <- !app_assoc. cbn [app].
      rewrite (IH ly 0%nat f (ws2 L ++ rest)); auto; [discriminate|cbn [need need_comp] in Hf |- *; lia].
  - (* IntArray *) intros l ly fuel rest Hly Hwf Hf Hs. destruct fuel as [|f]; [simpl in Hf; lia|]. cbn [C04.pr].
    apply (pval_array f ly 73 1 TInt (in_rng 32)); auto; try reflexivity.
    + intros L v R. unfold arr_sfx. cbn [N.eqb Pos.eqb].
      destruct (aisfx L); [apply classify_int_sfx | apply classify_int_plain]; auto.
    + intros L. apply arr_sfx_bare.
    + simpl in Hf. lia.
  - (* LongArray *) intros l ly fuel rest Hly Hwf Hf Hs. destruct fuel as [|f]; [simpl in Hf; lia|]. cbn [C04.pr].
    apply (pval_array f ly 76 2 TLong (in_rng 64)); auto; try reflexivity.
    + intros L v R. apply classify_long; auto.
    + intros L. apply arr_sfx_bare.
    + simpl in Hf. lia.
  - (* LNil *) intros ly i fuel rest _ _ NE. congruence.
  - (* LCons *) intros t IHt r IHr ly i fuel rest Hly Hwf _ Hf. destruct fuel as [|f]; [simpl in Hf; lia|].
    cbn [wf_list] in Hwf. apply andb_prop in Hwf. destruct Hwf as [Hwt Hwr].
    cbn [need_list] in Hf. destruct (nlay_ok_all _ (Hly [i])) as (_ & V2 & _).
    rewrite pelems_S. unfold pelems_body. rewrite pr_list_cons. destruct r as [|t2 r2].
    + rewrite app_nil_r. rewrite (IHt (sub ly i) f (93 :: rest)); auto; [|apply lay_ok_sub; auto|lia|reflexivity].
      unfold sub at 1. rewrite skip_ws_app by auto. cbn [skip_ws is_ws N.eqb Pos.eqb orb]. reflexivity.
    + rewrite <- app_assoc. cbn [app].
      rewrite (IHt (sub ly i) f); auto; [|apply lay_ok_sub; auto|lia|reflexivity].
      unfold sub at 1. rewrite skip_ws_app by auto. cbn [skip_ws is_ws N.eqb Pos.eqb orb].
      rewrite (IHr ly (S i) f rest); auto; [discriminate|lia].
  - (* CNil *) intros ly i fuel rest _ _ NE. congruence.
  - (* CCons *) intros k t IHt r IHr ly i fuel rest Hly Hwf _ Hf. destruct fuel as [|f]; [simpl in Hf; lia|].
    cbn [wf_comp] in Hwf. apply andb_prop in Hwf. destruct Hwf as [Hwt Hwr].
    cbn [need_comp] in Hf. destruct (nlay_ok_all _ (Hly [i])) as (_ & V2 & _ & _ & K1 & K2).
    rewrite pentries_S. unfold pentries_body. rewrite pr_comp_cons. set (K := ly [i]) in *.
    rewrite <- !app_assoc. rewrite skip_ws_app by auto.
    match goal with |- context [pkey (skip_ws (pr_str ?st ?s ++ ?y))] =>
      destruct (pr_str_head st s y) as (c1 & r1 & E & Hws & _); rewrite E; rewrite skip_ws_cons by auto; rewrite <- E;
      rewrite (pkey_str st s y) by (apply stop_ws_app; [auto|reflexivity]) end.
    rewrite skip_ws_app by auto. cbn [app skip_ws is_ws N.eqb Pos.eqb orb].
    destruct r as [|k2 t2 r2].
    + rewrite app_nil_r. rewrite (IHt (sub ly i) f (125 :: rest)); auto; [|apply lay_ok_sub; auto|lia|reflexivity].
      unfold sub at 1. fold K. rewrite skip_ws_app by auto. cbn [skip_ws is_ws N.eqb Pos.eqb orb]. reflexivity.
    + rewrite <- app_assoc. cbn [app].
      rewrite (IHt (sub ly i) f); auto; [|apply lay_ok_sub; auto|lia|reflexivity].
      unfold sub at 1. fold K. rewrite skip_ws_app by auto. cbn [skip_ws is_ws N.eqb Pos.eqb orb].
      rewrite (IHr ly (S i) f rest); auto; [discriminate|lia].
Qed.

(* ------------------------------------------------------------------ fuel: the text is longer than the need *)
Lemma bare_tok_len tok : bare_tok tok -> (1 <= length tok)%nat.
Proof. intros [(c & r & ->) _]. simpl. lia. Qed.

Lemma pr_arr_len ly k l i : (length l <= length (pr_arr ly i k l))%nat.
Proof.
  revert i. induction l as [|v l IH]; intros i; [simpl; lia|]. cbn [pr_arr length].
  rewrite !app_length. pose proof (bare_tok_len _ (pr_int_tok (ly [i]) v)).
  destruct l as [|v2 l]; [simpl; lia|]. specialize (IH (S i)). cbn [length] in *. lia.
Qed.
Lemma pr_array_len ly letter k l : (S (length l) <= length (pr_array ly letter k l))%nat.
Proof.
  unfold pr_array. cbn [length]. rewrite app_length. pose proof (pr_arr_len ly k l 0).
  destruct l; cbn [length] in *; lia.
Qed.
Lemma pr_str_len st s : (1 <= length (pr_str st s))%nat.
Proof.
  destruct (pr_str_shape st s) as [[-> W] | (q & _ & ->)].
  - apply bare_tok_len, is_word_bare, W.
  - simpl. lia.
Qed.

Definition Q (t : tag) : Prop := forall ly, wf t = true -> (need t <= length (pr ly t))%nat.
Definition Q0 (l : tlist) : Prop := forall ly i, wf_list l = true -> (need_list l <= S (length (pr_list ly i l)))%nat.
Definition Q1 (c : tcomp) : Prop := forall ly i, wf_comp c = true -> (need_comp c <= S (length (pr_comp ly i c)))%nat.

Lemma need_le_all : (forall t, Q t) /\ (forall l, Q0 l) /\ (forall c, Q1 c).
Proof.
  apply tag_mutind; unfold Q, Q0, Q1.
  - intros v ly _. cbn [C04.pr need]. rewrite !app_length. pose proof (bare_tok_len _ (pr_int_tok (ly []) v)). lia.
  - intros v ly _. cbn [C04.pr need]. rewrite !app_length. pose proof (bare_tok_len _ (pr_int_tok (ly []) v)). lia.
  - intros v ly _. cbn [C04.pr need]. rewrite !app_length. pose proof (bare_tok_len _ (pr_int_tok (ly []) v)). lia.
  - intros v ly _. cbn [C04.pr need]. rewrite !app_length. pose proof (bare_tok_len _ (pr_int_tok (ly []) v)). lia.
  - intros b ly Hwf. cbn [C04.pr need]. rewrite !app_length.
    pose proof (bare_tok_len _ (pr_flit_tok (ly []) _ (proj1 (H32 b Hwf)))). lia.
  - intros b ly Hwf. cbn [C04.pr need]. rewrite !app_length.
    pose proof (bare_tok_len _ (pr_flit_tok (ly []) _ (proj1 (H64 b Hwf)))). lia.
  - intros l ly _. cbn [C04.pr need]. rewrite !app_length. pose proof (pr_array_len ly 66 0 l). lia.
  - intros s ly _. cbn [C04.pr need]. rewrite !app_length. pose proof (pr_str_len (qs (ly [])) s). lia.
  - intros l IH ly Hwf. cbn [wf] in Hwf. apply andb_prop in Hwf. destruct Hwf as [_ Hwl].
    rewrite pr_TList. cbn [need]. rewrite !app_length. cbn [length]. rewrite app_length. cbn [length].
    destruct l as [|t r]; [cbn [need_list]; lia|]. specialize (IH ly 0%nat Hwl). lia.
  - intros c IH ly Hwf. cbn [wf] in Hwf.
    rewrite pr_TCompound. cbn [need]. rewrite !app_length. cbn [length]. rewrite app_length. cbn [length].
    destruct c as [|k t r]; [cbn [need_comp]; lia|]. specialize (IH ly 0%nat Hwf). lia.
  - intros l ly _. cbn [C04.pr need]. rewrite !app_length. pose proof (pr_array_len ly 73 1 l). lia.
  - intros l ly _. cbn [C04.pr need]. rewrite !app_length. pose proof (pr_array_len ly 76 2 l). lia.
  - intros ly i _. cbn [need_list]. lia.
  - intros t IHt r IHr ly i Hwf. cbn [wf_list] in Hwf. apply andb_prop in Hwf. destruct Hwf as [Hwt Hwr].
    rewrite pr_list_cons. cbn [need_list]. rewrite app_length. specialize (IHt (sub ly i) Hwt).
    specialize (IHr ly (S i) Hwr). destruct r; cbn [need_list length] in *; lia.
  - intros ly i _. cbn [need_comp]. lia.
  - intros k t IHt r IHr ly i Hwf. cbn [wf_comp] in Hwf. apply andb_prop in Hwf. destruct Hwf as [Hwt Hwr].
    rewrite pr_comp_cons. cbn [need_comp]. rewrite !app_length. cbn [length]. rewrite app_length.
    specialize (IHt (sub ly i) Hwt). specialize (IHr ly (S i) Hwr). destruct r; cbn [need_comp length] in *; lia.
Qed.

Lemma skip_ws_all w : all_ws w = true -> skip_ws w = [].
Proof. intros H. rewrite <- (app_nil_r w). rewrite skip_ws_app by auto. reflexivity. Qed.

(* parse (print layout t) = t, for every layout and every well-formed tree *)
Theorem spec_roundtrip ly t : lay_ok ly -> wf t = true -> parse pf32 pf64 (pr ly t) = Some t.
Proof.
  intros Hly Hwf. unfold parse. destruct roundtrip_all as (HP & _). destruct need_le_all as (HQ & _).
  pose proof (HP t ly (S (length (pr ly t))) [] Hly Hwf) as H. rewrite app_nil_r in H.
  rewrite H; [|specialize (HQ t ly Hwf); lia|exact I].
  rewrite app_nil_r. destruct (nlay_ok_all _ (Hly [])) as (_ & W2 & _). rewrite skip_ws_all by auto. reflexivity.
Qed.
End RT.
