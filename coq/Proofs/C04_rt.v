(* C04 proofs, part 2: parse (print layout t) = t, by mutual induction over the tree *)
From Coq Require Import List Arith NArith ZArith Lia Bool ZifyN ZifyNat ZifyBool.
From GoMC Require Import Base.Bytes Gen.Consts Model.C04 Proofs.C04.
Import ListNotations.
Open Scope N_scope.

Scheme tag_mut := Induction for tag Sort Prop
  with tlist_mut := Induction for tlist Sort Prop
  with tcomp_mut := Induction for tcomp Sort Prop.
Combined Scheme tag_mutind from tag_mut, tlist_mut, tcomp_mut.

(* fuel the parser needs for a tree *)
Fixpoint need (t : tag) : nat :=
  match t with
  | TList l => S (need_list l)
  | TCompound c => S (need_comp c)
  | TByteArray l | TIntArray l | TLongArray l => S (length l)
  | _ => 1%nat
  end
with need_list (l : tlist) : nat := match l with LNil => O | LCons t r => S (need t + need_list r) end
with need_comp (c : tcomp) : nat := match c with CNil => O | CCons _ t r => S (need t + need_comp r) end.

Section RT.
Variables fm32 fm64 : N -> flit.
Variables pf32 pf64 : flit -> option N.
Hypothesis H32 : forall b, fin32 b = true -> flit_ok (fm32 b) = true /\ pf32 (fm32 b) = Some b.
Hypothesis H64 : forall b, fin64 b = true -> flit_ok (fm64 b) = true /\ pf64 (fm64 b) = Some b.

Notation pval := (pval pf32 pf64).
Notation pelems := (pelems pf32 pf64).
Notation pentries := (pentries pf32 pf64).
Notation parr := (parr pf32 pf64).
Notation classify := (classify pf32 pf64).
Notation pr := (pr fm32 fm64).
Notation pr_list := (pr_list fm32 fm64).
Notation pr_comp := (pr_comp fm32 fm64).

Lemma pval_bare fuel w tok t rest : all_ws w = true -> bare_tok tok -> classify tok = Some t ->
  stop is_bare rest -> pval (S fuel) (w ++ tok ++ rest) = Some (t, rest).
Proof.
  intros Hw [(c & r & ->) Hb] Hc Hs. cbn [C04.pval]. rewrite (skip_ws_app w _ Hw).
  pose proof Hb as Hb'. cbn [forallb] in Hb'. apply andb_prop in Hb'. destruct Hb' as [Hcb _].
  cbn [app]. rewrite (skip_ws_cons c _ (bare_not_ws c Hcb)).
  destruct (bare_not_delim c Hcb) as (-> & -> & -> & -> & _). cbn [orb].
  change (c :: r ++ rest) with ((c :: r) ++ rest). rewrite (span_app is_bare _ _ Hb Hs), Hc. reflexivity.
Qed.

Lemma pval_quoted fuel w q s rest : all_ws w = true -> q = 34 \/ q = 39 ->
  pval (S fuel) (w ++ (q :: escape q s ++ [q]) ++ rest) = Some (TString s, rest).
Proof.
  intros Hw Hq. cbn [C04.pval]. rewrite (skip_ws_app w _ Hw). cbn [app]. rewrite <- app_assoc. cbn [app].
  destruct Hq as [-> | ->]; cbn [skip_ws is_ws N.eqb Pos.eqb orb]; rewrite unq_escape by reflexivity; reflexivity.
Qed.

(* shape of a printed string: a bare word or a quoted body *)
Lemma pr_str_shape st s :
  (pr_str st s = s /\ is_word s = true) \/
  (exists q, (q = 34 \/ q = 39) /\ pr_str st s = q :: escape q s ++ [q]).
Proof.
  unfold pr_str. destruct (((st =? 0) || (st =? 3)) && is_word s) eqn:E.
  - left. apply andb_prop in E. tauto.
  - right. exists (quote_of st s). split; [|reflexivity]. unfold quote_of.
    destruct (st =? 2); [tauto|]. destruct (st =? 3); [|tauto].
    destruct (count 39 s <? count 34 s)%nat; tauto.
Qed.

Lemma pval_str fuel w st s rest : all_ws w = true -> stop is_bare rest ->
  pval (S fuel) (w ++ pr_str st s ++ rest) = Some (TString s, rest).
Proof.
  intros Hw Hs. destruct (pr_str_shape st s) as [[-> W] | (q & Hq & ->)].
  - apply pval_bare; auto. apply is_word_bare; exact W. apply classify_word; exact W.
  - apply pval_quoted; auto.
Qed.

Lemma pkey_str st s rest : stop is_bare rest ->
  pkey (pr_str st s ++ rest) = Some (s, rest).
Proof.
  intros Hs. destruct (pr_str_shape st s) as [[-> W] | (q & Hq & ->)].
  - destruct (is_word_bare s W) as [(c & r & ->) Hb]. unfold pkey. cbn [app].
    pose proof Hb as Hb'. cbn [forallb] in Hb'. apply andb_prop in Hb'. destruct Hb' as [Hcb _].
    destruct (bare_not_delim c Hcb) as (_ & _ & -> & -> & _). cbn [orb].
    change (c :: r ++ rest) with ((c :: r) ++ rest). rewrite (span_app is_bare _ _ Hb Hs), W. reflexivity.
  - unfold pkey. cbn [app]. rewrite <- app_assoc. cbn [app].
    destruct Hq as [-> | ->]; cbn [N.eqb Pos.eqb orb]; rewrite unq_escape by reflexivity; reflexivity.
Qed.

(* the first character of a printed string is not a closing brace and not white space *)
Lemma pr_str_head st s rest : exists c r, pr_str st s ++ rest = c :: r /\ is_ws c = false /\ (c =? 125) = false.
Proof.
  destruct (pr_str_shape st s) as [[-> W] | (q & Hq & ->)].
  - destruct (is_word_bare s W) as [(c & r & ->) Hb]. exists c, (r ++ rest). split; [reflexivity|].
    cbn [forallb] in Hb. apply andb_prop in Hb. destruct Hb as [Hcb _].
    split; [apply bare_not_ws; auto|]. apply (bare_not_delim c Hcb).
  - eexists _, _. split; [reflexivity|]. destruct Hq as [-> | ->]; split; reflexivity.
Qed.

(* ------------------------------------------------------------------ typed arrays *)
Definition hd_ok (x : list N) : Prop :=
  match x with [] => False | c :: _ => is_bare c = false /\ (c =? 59) = false /\ is_ws c = false end.

Lemma parr_ok k (mkt : Z -> tag) (rng : Z -> bool) ly :
  (forall L v, rng v = true -> classify (pr_int L v ++ arr_sfx k L) = Some (mkt v)) ->
  (forall L, forallb is_bare (arr_sfx k L) = true) ->
  (forall v, arr_val k (mkt v) = Some v) -> lay_ok ly ->
  forall l i fuel rest, l <> [] -> forallb rng l = true -> (length l <= fuel)%nat ->
  parr fuel k (pr_arr ly i k l ++ 93 :: rest) = Some (l, rest).
Proof.
  intros Hcl Hsb Hav Hly. induction l as [|v l IH]; intros i fuel rest NE Hr Hf; [congruence|].
  destruct fuel as [|f]; [simpl in Hf; lia|]. cbn [forallb] in Hr. apply andb_prop in Hr. destruct Hr as [Hv Hr].
  cbn [pr_arr C04.parr]. pose proof (Hly [i]) as HL. unfold nlay_ok in HL.
  repeat (apply andb_prop in HL; destruct HL as [HL ?]).
  set (L := ly [i]) in *.
  assert (BT: bare_tok (pr_int L v ++ arr_sfx k L)) by (apply bare_tok_app; [apply pr_int_tok | apply Hsb]).
  repeat rewrite <- app_assoc. rewrite (skip_ws_app (ws1 L)) by assumption.
  rewrite (app_assoc (pr_int L v)).
  pose proof (Hcl L v Hv) as HC.
  destruct BT as [(c & r & E) Hb]. rewrite E in *.
  pose proof Hb as Hb'. cbn [forallb] in Hb'. apply andb_prop in Hb'. destruct Hb' as [Hcb _].
  cbn [app]. rewrite (skip_ws_cons c _ (bare_not_ws c Hcb)).
  change (c :: r ++ ?x) with ((c :: r) ++ x).
  destruct l as [|v2 l].
  - rewrite (span_app is_bare (c :: r)); [|exact Hb|apply stop_ws_app; [assumption|reflexivity]].
    rewrite HC, Hav. cbn [app]. rewrite (skip_ws_app (ws2 L)) by assumption.
    cbn [skip_ws is_ws N.eqb Pos.eqb orb]. reflexivity.
  - rewrite (span_app is_bare (c :: r)); [|exact Hb|apply stop_ws_app; [assumption|reflexivity]].
    rewrite HC, Hav. rewrite (skip_ws_app (ws2 L)) by assumption.
    cbn [app skip_ws is_ws N.eqb Pos.eqb orb].
    rewrite (IH (S i) f rest); [reflexivity|discriminate|exact Hr|simpl in *; lia].
Qed.

(* ------------------------------------------------------------------ what a printed value starts with *)
Definition head_prop (s : list N) : Prop :=
  starts_semi (snd (span is_bare s)) = false /\
  exists c1 r1, skip_ws s = c1 :: r1 /\ (c1 =? 93) = false.


Lemma span_nonbare c s : is_bare c = false -> span is_bare (c :: s) = ([], c :: s).
Proof. intros H. cbn [span]. rewrite H. reflexivity. Qed.

Lemma head_bare w core x : all_ws w = true -> bare_tok core ->
  (match x with [] => False | c :: _ => is_bare c = false /\ (c =? 59) = false end) ->
  head_prop (w ++ core ++ x).
Proof.
  intros Hw [(c & r & ->) Hb] Hx. pose proof Hb as Hb'. cbn [forallb] in Hb'. apply andb_prop in Hb'.
  destruct Hb' as [Hcb _]. split.
  - destruct w as [|c0 w].
    + cbn [app]. change (c :: r ++ x) with ((c :: r) ++ x). rewrite span_app; auto.
      * destruct x; [tauto|]. cbn [snd starts_semi]. tauto.
      * destruct x; [tauto|]. cbn [stop]. tauto.
    + unfold all_ws in Hw. cbn [forallb] in Hw. apply andb_prop in Hw. destruct Hw as [Hc0 _].
      cbn [app]. rewrite span_nonbare by (apply ws_not_bare; auto). cbn [snd starts_semi].
      apply (ws_not_delim c0 Hc0).
  - rewrite skip_ws_app by auto. cbn [app]. rewrite skip_ws_cons by (apply bare_not_ws; auto).
    eexists _, _. split; [reflexivity|]. apply (bare_not_delim c Hcb).
Qed.

Lemma head_delim w c r : all_ws w = true -> c = 34 \/ c = 39 \/ c = 91 \/ c = 123 ->
  head_prop (w ++ c :: r).
Proof.
  intros Hw Hc.
  assert (F: is_bare c = false /\ (c =? 59) = false /\ is_ws c = false /\ (c =? 93) = false).
  { destruct Hc as [-> | [-> | [-> | ->]]]; repeat split; reflexivity. }
  destruct F as (F1 & F2 & F3 & F4). split.
  - destruct w as [|c0 w].
    + cbn [app]. rewrite span_nonbare by auto. exact F2.
    + unfold all_ws in Hw. cbn [forallb] in Hw. apply andb_prop in Hw. destruct Hw as [Hc0 _].
      cbn [app]. rewrite span_nonbare by (apply ws_not_bare; auto). cbn [snd starts_semi].
      apply (ws_not_delim c0 Hc0).
  - rewrite skip_ws_app by auto. rewrite skip_ws_cons by auto. eauto.
Qed.

Lemma nlay_ok_all L : nlay_ok L = true ->
  all_ws (ws1 L) = true /\ all_ws (ws2 L) = true /\ all_ws (ws3 L) = true /\ all_ws (ws5 L) = true
  /\ all_ws (kws1 L) = true /\ all_ws (kws2 L) = true.
Proof. unfold nlay_ok. intros H. repeat (apply andb_prop in H; destruct H as [H ?]). tauto. Qed.

Definition sep_ok (x : list N) : Prop :=
  match x with [] => False | c :: _ => is_bare c = false /\ (c =? 59) = false end.
Lemma sep_ok_ws w x : all_ws w = true -> sep_ok x -> sep_ok (w ++ x).
Proof.
  destruct w as [|c w]; [auto|]. unfold all_ws. cbn [forallb app sep_ok]. intros H _.
  apply andb_prop in H. destruct H as [Hc _]. split; [apply ws_not_bare; auto|apply (ws_not_delim c Hc)].
Qed.

Lemma pr_head ly t x : lay_ok ly -> wf t = true -> sep_ok x -> head_prop (pr ly t ++ x).
Proof.
  intros Hly Hwf Hx. pose proof (nlay_ok_all _ (Hly [])) as (W1 & W2 & W3 & W5 & _).
  set (L := ly []) in *.
  assert (BT: forall core, bare_tok core -> head_prop ((ws1 L ++ core ++ ws2 L) ++ x)).
  { intros core Hc. rewrite <- !app_assoc. apply head_bare; auto. apply sep_ok_ws; auto. }
  assert (DL: forall c r, c = 34 \/ c = 39 \/ c = 91 \/ c = 123 -> head_prop ((ws1 L ++ (c :: r) ++ ws2 L) ++ x)).
  { intros c r Hc. rewrite <- !app_assoc. cbn [app]. apply head_delim; auto. }
  destruct t; cbn [C04.pr]; fold L; cbn [wf] in Hwf.
  - apply BT, bare_tok_app; [apply pr_int_tok | apply sfx_bare; reflexivity].
  - apply BT, bare_tok_app; [apply pr_int_tok | apply sfx_bare; reflexivity].
  - apply BT, bare_tok_app; [apply pr_int_tok |]. destruct (isfx L); [apply sfx_bare|]; reflexivity.
  - apply BT, bare_tok_app; [apply pr_int_tok | apply sfx_bare; reflexivity].
  - apply BT, bare_tok_app; [apply pr_flit_tok, H32, Hwf | apply sfx_bare; reflexivity].
  - apply BT, bare_tok_app; [apply pr_flit_tok, H64, Hwf |].
    destruct (nosuf L && has_frac (fm64 bits)); [|apply sfx_bare]; reflexivity.
  - apply DL. tauto.
  - destruct (pr_str_shape (qs L) s) as [[-> W] | (q & Hq & ->)].
    + apply BT, is_word_bare, W.
    + apply DL. tauto.
  - apply DL. tauto.
  - apply DL. tauto.
  - apply DL. tauto.
  - apply DL. tauto.
Qed.

(* ------------------------------------------------------------------ the round trip *)
Lemma pval_leaf f L core t rest : nlay_ok L = true -> bare_tok core -> classify core = Some t ->
  stop is_bare rest -> pval (S f) ((ws1 L ++ core ++ ws2 L) ++ rest) = Some (t, ws2 L ++ rest).
Proof.
  intros HL Hb Hc Hs. destruct (nlay_ok_all _ HL) as (W1 & W2 & _).
  rewrite <- !app_assoc. apply pval_bare; auto. apply stop_ws_app; auto.
Qed.

Lemma lay_ok_sub ly i : lay_ok ly -> lay_ok (sub ly i).
Proof. intros H p. apply H. Qed.

Lemma pval_array f ly letter k (mkt : Z -> tag) (rng : Z -> bool) l rest :
  arr_letter letter = Some k -> is_bare letter = true ->
  (forall L v, rng v = true -> classify (pr_int L v ++ arr_sfx k L) = Some (mkt v)) ->
  (forall L, forallb is_bare (arr_sfx k L) = true) ->
  (forall v, arr_val k (mkt v) = Some v) -> lay_ok ly ->
  forallb rng l = true -> (length l <= f)%nat ->
  pval (S f) ((ws1 (ly []) ++ pr_array ly letter k l ++ ws2 (ly [])) ++ rest)
  = Some (mk_arr k l, ws2 (ly []) ++ rest).
Proof.
  intros HA HB Hcl Hsb Hav Hly Hr Hf. destruct (nlay_ok_all _ (Hly [])) as (W1 & W2 & W3 & W5 & _).
  set (L := ly []) in *. unfold pr_array. fold L. rewrite <- !app_assoc. cbn [C04.pval].
  rewrite skip_ws_app by auto. cbn [app skip_ws is_ws N.eqb Pos.eqb orb].
  cbn [span]. rewrite HB. rewrite span_nonbare by reflexivity. cbn [snd starts_semi N.eqb Pos.eqb].
  cbn [arr_prefix N.eqb Pos.eqb]. rewrite HA.
  destruct l as [|v l].
  - rewrite <- !app_assoc. rewrite skip_ws_app by auto. cbn [app skip_ws is_ws N.eqb Pos.eqb orb]. reflexivity.
  - assert (HP: exists c3 r3, skip_ws (pr_arr ly 0 k (v :: l) ++ [93] ++ ws2 L ++ rest) = c3 :: r3 /\ (c3 =? 93) = false).
    { cbn [pr_arr]. destruct (nlay_ok_all _ (Hly [0%nat])) as (V1 & _).
      rewrite <- !app_assoc. rewrite skip_ws_app by auto.
      destruct (pr_int_tok (ly [0%nat]) v) as [(c & r & ->) Hb]. cbn [forallb] in Hb. apply andb_prop in Hb.
      destruct Hb as [Hcb _]. cbn [app]. rewrite skip_ws_cons by (apply bare_not_ws; auto).
      eexists _, _. split; [reflexivity|]. apply (bare_not_delim c Hcb). }
    destruct HP as (c3 & r3 & -> & ->).
    change ([93] ++ ws2 L ++ rest) with (93 :: ws2 L ++ rest).
    rewrite (parr_ok k mkt rng ly Hcl Hsb Hav Hly (v :: l) 0%nat f (ws2 L ++ rest)); auto. discriminate.
Qed.

Definition P (t : tag) : Prop := forall ly fuel rest, lay_ok ly -> wf t = true -> (need t <= fuel)%nat ->
  stop is_bare rest -> pval fuel (pr ly t ++ rest) = Some (t, ws2 (ly []) ++ rest).
Definition P0 (l : tlist) : Prop := forall ly i fuel rest, lay_ok ly -> wf_list l = true -> l <> LNil ->
  (need_list l <= fuel)%nat -> pelems fuel (pr_list ly i l ++ 93 :: rest) = Some (l, rest).
Definition P1 (c : tcomp) : Prop := forall ly i fuel rest, lay_ok ly -> wf_comp c = true -> c <> CNil ->
  (need_comp c <= fuel)%nat -> pentries fuel (pr_comp ly i c ++ 125 :: rest) = Some (c, rest).

Lemma arr_sfx_bare k L : forallb is_bare (arr_sfx k L) = true.
Proof.
  unfold arr_sfx. destruct (k =? 0); [apply sfx_bare; reflexivity|].
  destruct (k =? 1); [|apply sfx_bare; reflexivity]. destruct (aisfx L); [apply sfx_bare|]; reflexivity.
Qed.

Lemma roundtrip_all : (forall t, P t) /\ (forall l, P0 l) /\ (forall c, P1 c).
Proof.
  apply tag_mutind; unfold P, P0, P1.
  - (* Byte *) intros v ly fuel rest Hly Hwf Hf Hs. destruct fuel as [|f]; [simpl in Hf; lia|]. cbn [C04.pr].
    apply pval_leaf; auto. apply bare_tok_app; [apply pr_int_tok | apply sfx_bare; reflexivity].
    apply classify_byte; exact Hwf.
  - intros v ly fuel rest Hly Hwf Hf Hs. destruct fuel as [|f]; [simpl in Hf; lia|]. cbn [C04.pr].
    apply pval_leaf; auto. apply bare_tok_app; [apply pr_int_tok | apply sfx_bare; reflexivity].
    apply classify_short; exact Hwf.
  - intros v ly fuel rest Hly Hwf Hf Hs. destruct fuel as [|f]; [simpl in Hf; lia|]. cbn [C04.pr].
    apply pval_leaf; auto.
    + apply bare_tok_app; [apply pr_int_tok |]. destruct (isfx (ly [])); [apply sfx_bare|]; reflexivity.
    + destruct (isfx (ly [])); [apply classify_int_sfx | apply classify_int_plain]; exact Hwf.
  - intros v ly fuel rest Hly Hwf Hf Hs. destruct fuel as [|f]; [simpl in Hf; lia|]. cbn [C04.pr].
    apply pval_leaf; auto. apply bare_tok_app; [apply pr_int_tok | apply sfx_bare; reflexivity].
    apply classify_long; exact Hwf.
  - (* Float *) intros b ly fuel rest Hly Hwf Hf Hs. destruct fuel as [|f]; [simpl in Hf; lia|]. cbn [C04.pr].
    destruct (H32 b Hwf) as [OK PF].
    apply pval_leaf; auto. apply bare_tok_app; [apply pr_flit_tok; auto | apply sfx_bare; reflexivity].
    apply classify_float; auto.
  - intros b ly fuel rest Hly Hwf Hf Hs. destruct fuel as [|f]; [simpl in Hf; lia|]. cbn [C04.pr].
    destruct (H64 b Hwf) as [OK PF].
    apply pval_leaf; auto.
    + apply bare_tok_app; [apply pr_flit_tok; auto |].
      destruct (nosuf (ly []) && has_frac (fm64 b)); [|apply sfx_bare]; reflexivity.
    + destruct (nosuf (ly []) && has_frac (fm64 b)) eqn:E.
      * apply andb_prop in E. apply classify_double_nosuf; tauto.
      * apply classify_double; auto.
  - (* ByteArray *) intros l ly fuel rest Hly Hwf Hf Hs. destruct fuel as [|f]; [simpl in Hf; lia|]. cbn [C04.pr].
    apply (pval_array f ly 66 0 TByte (in_rng 8)); auto; try reflexivity.
    + intros L v R. apply classify_byte; auto.
    + intros L. apply arr_sfx_bare.
    + simpl in Hf. lia.
  - (* String *) intros s ly fuel rest Hly _ Hf Hs. destruct fuel as [|f]; [simpl in Hf; lia|]. cbn [C04.pr].
    destruct (nlay_ok_all _ (Hly [])) as (W1 & W2 & _). rewrite <- !app_assoc.
    apply pval_str; auto. apply stop_ws_app; auto.
  - (* List *) intros l IH ly fuel rest Hly Hwf Hf Hs. destruct fuel as [|f]; [simpl in Hf; lia|].
    cbn [wf] in Hwf. apply andb_prop in Hwf. destruct Hwf as [Hh Hwl].
    destruct (nlay_ok_all _ (Hly [])) as (W1 & W2 & W3 & _). cbn [C04.pr]. set (L := ly []) in *.
    rewrite <- !app_assoc. cbn [C04.pval]. rewrite skip_ws_app by auto.
    cbn [app skip_ws is_ws N.eqb Pos.eqb orb].
    destruct l as [|t r].
    + assert (HP: head_prop (ws3 L ++ 93 :: ws2 L ++ rest)).
      { split.
        - destruct (ws3 L) as [|c0 w] eqn:E3.
          + cbn [app]. rewrite span_nonbare by reflexivity. reflexivity.
          + unfold all_ws in W3. cbn [forallb] in W3. apply andb_prop in W3. destruct W3 as [Hc0 _].
            cbn [app]. rewrite span_nonbare by (apply ws_not_bare; auto). cbn [snd starts_semi].
            apply (ws_not_delim c0 Hc0).
        - exists 0, []. split; [|reflexivity]. exfalso. exact I. }
      admit.
    + admit.
  - admit.
  - admit.
  - admit.
  - admit.
  - admit.
  - admit.
  - admit.
Abort.
End RT.
