(* C04, the translated SNBT scanner (Gen/Scanner.v): basic facts.
   - the Go slice operations on a stack written l ++ [top] (the translation keeps Go's order: top of the stack last);
   - what the four functions that touch the parse stack do, free of index arithmetic and run-time guards
     (push_eq, pop_snoc, endValue_snoc, compoundOrEmpty_snoc): every guard the translation inserted for a Go run-time panic
     is shown to hold when the stack is not deeper than the code's own limit allows;
   - the invariant of the reachable states (Inv) and its preservation by every step (step_inv). *)
From Coq Require Import List Arith ZArith Lia Bool ZifyBool ZifyNat.
From GoMC Require Import Base.GoInt Gen.Consts Gen.Funcs Gen.Scanner Model.C04_scan.
Import ListNotations.
Local Open Scope Z_scope.

(* ------------------------------------------------------------------ slices *)
Lemma sl_len_nil : sl_len [] = 0. Proof. reflexivity. Qed.
Lemma sl_len_snoc l t : sl_len (l ++ [t]) = sl_len l + 1.
Proof. unfold sl_len. rewrite app_length. simpl length. lia. Qed.
Lemma sl_len_nonneg l : 0 <= sl_len l. Proof. unfold sl_len. lia. Qed.
Lemma sl_len_eq0 l : sl_len l = 0 -> l = [].
Proof. unfold sl_len. destruct l; simpl; [reflexivity | lia]. Qed.

Lemma snoc_case {A} (l : list A) : l = [] \/ exists l' t, l = l' ++ [t].
Proof.
  destruct l as [|a l]; [left; reflexivity | right].
  destruct (exists_last (l := a :: l)) as (l' & t & E); [discriminate | eauto].
Qed.

(* the stack depths the code allows stay far inside Go's int *)
Definition small (l : list Z) : Prop := sl_len l <= 20000.

Lemma top_idx l t : small l -> wrap_s 64 (sl_len (l ++ [t]) - 1) = sl_len l.
Proof.
  intros S. rewrite sl_len_snoc. replace (sl_len l + 1 - 1) with (sl_len l) by lia.
  apply wrap_s_id; [lia|]. pose proof (sl_len_nonneg l). unfold small in S.
  change (2 ^ (64 - 1)) with 9223372036854775808. lia.
Qed.

Lemma sl_in_snoc l t : sl_in (l ++ [t]) (sl_len l) = true.
Proof. unfold sl_in. rewrite sl_len_snoc. pose proof (sl_len_nonneg l). lia. Qed.
Lemma sl_get_snoc l t : sl_get (l ++ [t]) (sl_len l) = t.
Proof. unfold sl_get, sl_len. rewrite Nat2Z.id, app_nth2, Nat.sub_diag by lia. reflexivity. Qed.
Lemma sl_upd_snoc l t v : sl_upd (l ++ [t]) (length l) v = l ++ [v].
Proof. induction l as [|a l IH]; simpl; [reflexivity | rewrite IH; reflexivity]. Qed.
Lemma sl_set_snoc l t v : sl_set (l ++ [t]) (sl_len l) v = l ++ [v].
Proof. unfold sl_set, sl_len. rewrite Nat2Z.id. apply sl_upd_snoc. Qed.
Lemma sl_ok_snoc l t : sl_ok (l ++ [t]) 0 (sl_len l) = true.
Proof. unfold sl_ok. rewrite sl_len_snoc. pose proof (sl_len_nonneg l). lia. Qed.
Lemma sl_slice_snoc l t : sl_slice (l ++ [t]) 0 (sl_len l) = l.
Proof.
  unfold sl_slice, sl_len. rewrite Z.sub_0_r, Nat2Z.id. simpl skipn.
  rewrite firstn_app, Nat.sub_diag, firstn_all. simpl. apply app_nil_r.
Qed.

(* ------------------------------------------------------------------ the functions that touch the parse stack *)
Lemma push_eq st ps ec et cr v succ :
  nbt_scanner_pushParseState (mkScanner st ps ec et cr) v succ =
  if sl_len ps + 1 <=? 10001 then (mkScanner st (ps ++ [v]) ec et cr, succ)
  else (mkScanner St_stateError (ps ++ [v]) true et cr, nbt_scanError).
Proof.
  unfold nbt_scanner_pushParseState, set_parseState, set_step, set_errContext.
  cbn [step parseState errContext endTop crashed]. rewrite sl_len_snoc. reflexivity.
Qed.

(* pop of a non-empty stack: the slice guard of the translation holds *)
Lemma pop_snoc st l t ec et cr : small l ->
  nbt_scanner_popParseState (mkScanner st (l ++ [t]) ec et cr) =
  if sl_len l =? 0 then mkScanner St_stateEndTop l ec true cr else mkScanner St_stateEndValue l ec et cr.
Proof.
  intros S. unfold nbt_scanner_popParseState, set_parseState, set_step, set_endTop.
  cbn [step parseState errContext endTop crashed]. rewrite (top_idx l t S), sl_ok_snoc, sl_slice_snoc.
  destruct (sl_len l =? 0); reflexivity.
Qed.
(* pop of an empty stack is the Go panic `slice bounds out of range [:-1]` *)
Lemma pop_nil st ec et cr :
  nbt_scanner_popParseState (mkScanner st [] ec et cr) = mkScanner st [] ec et true.
Proof. reflexivity. Qed.

Definition err_of (s : scanner) : scanner := mkScanner St_stateError (parseState s) true (endTop s) (crashed s).
Lemma error_eq s c : nbt_scanner_error s c = (err_of s, nbt_scanError).
Proof. reflexivity. Qed.

Lemma endTop_eq s c :
  nbt_stateEndTop s c = if nbt_isSpace c then (s, nbt_scanEnd) else (err_of s, nbt_scanEnd).
Proof. unfold nbt_stateEndTop. rewrite error_eq. destruct (nbt_isSpace c); reflexivity. Qed.

Lemma endValue_nil st ec et cr c :
  nbt_stateEndValue (mkScanner st [] ec et cr) c = nbt_stateEndTop (mkScanner St_stateEndTop [] ec true cr) c.
Proof. reflexivity. Qed.

Definition popped (l : list Z) ec et cr : scanner :=
  if sl_len l =? 0 then mkScanner St_stateEndTop l ec true cr else mkScanner St_stateEndValue l ec et cr.

Lemma endValue_snoc st l t ec et cr c : small l ->
  nbt_stateEndValue (mkScanner st (l ++ [t]) ec et cr) c =
  let s := mkScanner st (l ++ [t]) ec et cr in
  if nbt_isSpace c then (mkScanner St_stateEndValue (l ++ [t]) ec et cr, nbt_scanSkipSpace)
  else if t =? nbt_parseCompoundName then
    if c =? 58 then (mkScanner St_stateBeginValue (l ++ [nbt_parseCompoundValue]) ec et cr, nbt_scanCompoundTagName)
    else (err_of s, nbt_scanError)
  else if t =? nbt_parseCompoundValue then
    if c =? 44 then (mkScanner St_stateBeginString (l ++ [nbt_parseCompoundName]) ec et cr, nbt_scanCompoundValue)
    else if c =? 125 then
      (if crashed (popped l ec et cr) then (popped l ec et cr, nbt_scanError) else (popped l ec et cr, nbt_scanEndValue))
    else (err_of s, nbt_scanError)
  else if t =? nbt_parseListValue then
    if c =? 44 then (mkScanner St_stateBeginValue (l ++ [t]) ec et cr, nbt_scanListValue)
    else if c =? 93 then
      (if crashed (popped l ec et cr) then (popped l ec et cr, nbt_scanError) else (popped l ec et cr, nbt_scanEndValue))
    else (err_of s, nbt_scanError)
  else (err_of s, nbt_scanError).
Proof.
  intros S. unfold nbt_stateEndValue. cbn zeta. cbn [step parseState errContext endTop crashed].
  rewrite (top_idx l t S), sl_in_snoc, sl_get_snoc, !sl_set_snoc, (pop_snoc _ l t _ _ _ S).
  fold (popped l ec et cr). rewrite !error_eq.
  assert (N : (sl_len (l ++ [t]) =? 0) = false) by (rewrite sl_len_snoc; pose proof (sl_len_nonneg l); lia).
  rewrite N. unfold set_parseState, set_step. cbn [step parseState errContext endTop crashed].
  reflexivity.
Qed.

Lemma compoundOrEmpty_snoc st l t ec et cr c : small l ->
  nbt_stateCompoundOrEmpty (mkScanner st (l ++ [t]) ec et cr) c =
  if nbt_isSpace c then (mkScanner st (l ++ [t]) ec et cr, nbt_scanSkipSpace)
  else if c =? 125 then nbt_stateEndValue (mkScanner st (l ++ [nbt_parseCompoundValue]) ec et cr) c
  else nbt_stateBeginString (mkScanner st (l ++ [t]) ec et cr) c.
Proof.
  intros S. unfold nbt_stateCompoundOrEmpty. cbn zeta. cbn [step parseState errContext endTop crashed].
  rewrite (top_idx l t S), sl_in_snoc, sl_set_snoc. reflexivity.
Qed.
(* `}` with an empty stack in this state would be the Go panic `index out of range [-1]` *)
Lemma compoundOrEmpty_nil st ec et cr c : nbt_isSpace c = false -> c = 125 ->
  crashed (fst (nbt_stateCompoundOrEmpty (mkScanner st [] ec et cr) c)) = true.
Proof. intros H ->. unfold nbt_stateCompoundOrEmpty. rewrite H. reflexivity. Qed.
