(* C04, the translated SNBT scanner: a text the scanner accepts has balanced brackets outside string literals
   (from the step-for-step simulation of Proofs/C04_scan_sim.v). *)
From Coq Require Import List Arith ZArith Lia Bool ZifyBool ZifyNat.
From GoMC Require Import Base.GoInt Gen.Consts Gen.Funcs Gen.Scanner Model.C04_scan Proofs.C04_scan Proofs.C04_scan_inv
  Proofs.C04_scan_shape Proofs.C04_scan_sim.
Import ListNotations.
Local Open Scope Z_scope.

(* the step eof() makes on ' ' never sets endTop together with an error *)
Lemma space_step_endTop s s' op : Inv s -> errContext s = false -> endTop s = false -> scan_step s 32 = (s', op) ->
  endTop s' = true -> errContext s' = false.
Proof.
  destruct s as [st ps ec et cr]. unfold Inv. prj. intros (Hcr & Hd2 & Hd1 & Hce & Herr & Het & Hfr) Hec Het0 H.
  subst cr ec et. unfold scan_step in H. prj.
  assert (Sp : nbt_isSpace 32 = true) by reflexivity.
  destruct (snoc_case ps) as [-> | (l & t & ->)].
  - destruct st; cbn [scan_dispatch] in H;
      try (exfalso; destruct (Hce eq_refl) as (l0 & A0); exact (app_cons_not_nil _ _ _ A0));
      try (discriminate (proj2 Herr eq_refl));
      symex H; rewrite ?Sp in H; split_ifs H; injection H as <- <-; prj; intro; try reflexivity; try discriminate.
  - assert (S : small l) by (rewrite sl_len_snoc in Hd2; unfold small; pose proof (sl_len_nonneg l); lia).
    assert (S' : forall v, small (l ++ [v])) by (intro v; unfold small; rewrite sl_len_snoc in *; lia).
    destruct st; cbn [scan_dispatch] in H;
      try (discriminate (proj2 Herr eq_refl));
      try (destruct (Hce eq_refl) as (l0 & A0); apply app_inj_tail in A0; destruct A0 as [<- ->]);
      symex H; rewrite ?Sp in H; split_ifs H; injection H as <- <-; prj; intro; try reflexivity; try discriminate;
      try (exfalso; lia).
Qed.

(* as long as the run does not end in the error state, the independent reading has followed it step for step *)
Lemma bytes_sim s t : Inv s -> errContext (fst (scan_bytes s t)) = false ->
  brun (mode_of (step s)) (brk (parseState s)) t =
  Some (mode_of (step (fst (scan_bytes s t))), brk (parseState (fst (scan_bytes s t)))).
Proof.
  revert s. induction t as [|c t IH]; intros s I E; simpl in *; [reflexivity|].
  destruct (scan_step s c) as [s1 op] eqn:Es.
  pose proof (step_inv s c s1 op I Es) as I1.
  assert (E1 : errContext s1 = false).
  { destruct (errContext s1) eqn:X; [|reflexivity]. exfalso.
    pose proof I1 as (C1 & _ & _ & _ & Herr & _). apply Herr in X.
    rewrite (bytes_in_error s1 t C1 X) in E. simpl in E. apply Herr in X. congruence. }
  rewrite (step_sim s c s1 op I Es E1). specialize (IH s1 I1).
  destruct (scan_bytes s1 t) as [s2 ops]. simpl in *. exact (IH E).
Qed.

Lemma bstep_space_out st st' (m : sstate) : bstep (mode_of m) st 32 = Some (BOut, st') -> mode_of m = BOut /\ st = st'.
Proof. destruct m; cbn; intros A; inversion A; split; reflexivity. Qed.

(* a text the scanner accepts - eof() answers scanEnd - has balanced brackets outside string literals *)
Theorem scan_accept_balanced text : scan_accepts text = true -> balanced text = true.
Proof.
  unfold scan_accepts, balanced. intros A. apply Z.eqb_eq in A.
  pose proof (bytes_inv scan_init text inv_init) as I.
  pose proof (bytes_sim scan_init text inv_init) as Sim.
  change (mode_of (step scan_init)) with BOut in Sim. change (brk (parseState scan_init)) with (@nil Z) in Sim.
  set (s := fst (scan_bytes scan_init text)) in *.
  pose proof I as (Hcr & _ & _ & _ & Herr & Het & _).
  unfold scan_eof in A. rewrite Hcr in A. unfold nbt_scanner_eof in A.
  destruct (errContext s) eqn:Ec; [discriminate A|]. rewrite (Sim eq_refl).
  destruct (endTop s) eqn:Et.
  - destruct (Het eq_refl) as (P & [Q|Q]).
    + rewrite P, Q. reflexivity.
    + apply Herr in Q. congruence.
  - destruct (scan_dispatch (step s) s 32) as [s1 o] eqn:Ed.
    assert (Es : scan_step s 32 = (s1, o)) by (unfold scan_step; rewrite Hcr; exact Ed).
    pose proof (step_inv s 32 s1 o I Es) as I1. pose proof I1 as (C1 & _ & _ & _ & Herr1 & Het1 & _).
    rewrite C1 in A. destruct (endTop s1) eqn:Et1.
    + pose proof (space_step_endTop s s1 o I Ec Et Es Et1) as Ec1.
      pose proof (step_sim s 32 s1 o I Es Ec1) as B.
      destruct (Het1 eq_refl) as (P1 & [Q1|Q1]); [|apply Herr1 in Q1; congruence].
      rewrite P1, Q1 in B. cbn [mode_of] in B. change (brk []) with (@nil Z) in B.
      apply bstep_space_out in B. destruct B as [-> ->]. reflexivity.
    + destruct (errContext s1); simpl in A; discriminate A.
Qed.
