(* C04, the translated SNBT scanner: the character classes it consults are the specification's (Model/C04.v is_ws,
   is_digit, is_bare), through the tie lemmas of Proofs/C04_tie.v about the translated isSpace / isNumber /
   isAllowedInUnquotedString - the scanner of Gen/Scanner.v calls exactly those translated definitions. *)
From Coq Require Import List Arith NArith ZArith Lia Bool.
From GoMC Require Import Base.GoInt Gen.Consts Gen.Funcs Gen.Scanner Model.C04_scan Proofs.C04_scan.
From GoMC Require Model.C04 Proofs.C04_tie.
Import ListNotations.
Local Open Scope Z_scope.

(* the states in which a value, a key, a separator or a closing bracket is awaited *)
Definition ws_state (st : sstate) : bool :=
  match st with
  | St_stateBeginValue | St_stateCompoundOrEmpty | St_stateBeginString | St_stateListOrArray | St_stateArrayT => true
  | _ => false
  end.

(* there, white space of the specification is skipped and changes nothing *)
Lemma ws_skipped s (c : N) : C04.is_ws c = true -> crashed s = false -> ws_state (step s) = true ->
  scan_step s (Z.of_N c) = (s, nbt_scanSkipSpace).
Proof.
  intros W C S. rewrite <- C04_tie.tie_isSpace in W. unfold scan_step. rewrite C.
  destruct s as [st ps ec et cr]. cbn [step] in *.
  destruct st; try discriminate S; cbn [scan_dispatch];
    unfold nbt_stateBeginValue, nbt_stateCompoundOrEmpty, nbt_stateBeginString, nbt_stateListOrArray, nbt_stateArrayT, set_step;
    rewrite W; reflexivity.
Qed.
(* after a value inside a container likewise; after the top-level value it is the only thing accepted *)
Lemma ws_after_value s (c : N) : C04.is_ws c = true -> crashed s = false -> step s = St_stateEndValue ->
  parseState s <> [] -> scan_step s (Z.of_N c) = (s, nbt_scanSkipSpace).
Proof.
  intros W C S NE. rewrite <- C04_tie.tie_isSpace in W. unfold scan_step. rewrite C, S.
  destruct s as [st ps ec et cr]. cbn [step parseState] in *. subst st. cbn [scan_dispatch].
  unfold nbt_stateEndValue. cbn zeta. cbn [parseState].
  assert (N0 : (sl_len ps =? 0) = false).
  { destruct ps; [contradiction|]. unfold sl_len. simpl length. lia. }
  rewrite N0, W. reflexivity.
Qed.
Lemma top_only_ws s (c : N) : crashed s = false -> step s = St_stateEndTop ->
  scan_step s (Z.of_N c) = if C04.is_ws c then (s, nbt_scanEnd) else (err_of s, nbt_scanEnd).
Proof.
  intros C S. unfold scan_step. rewrite C, S. cbn [scan_dispatch]. rewrite endTop_eq, C04_tie.tie_isSpace. reflexivity.
Qed.

(* a bare token runs exactly over the specification's bare characters; the first other byte ends the value *)
Lemma bare_run s (c : N) : crashed s = false -> step s = St_stateInUnquotedString ->
  scan_step s (Z.of_N c) = if C04.is_bare c then (s, nbt_scanContinue) else nbt_stateEndValue s (Z.of_N c).
Proof.
  intros C S. unfold scan_step. rewrite C, S. cbn [scan_dispatch]. unfold nbt_stateInUnquotedString.
  rewrite C04_tie.tie_isAllowedInUnquotedString. reflexivity.
Qed.

(* the integer part of a number runs over the specification's digits *)
Lemma digit_run s (c : N) : C04.is_digit c = true -> crashed s = false -> step s = St_stateNum1 ->
  scan_step s (Z.of_N c) = (s, nbt_scanContinue).
Proof.
  intros D C S. rewrite <- C04_tie.tie_isNumber in D. unfold scan_step. rewrite C, S. cbn [scan_dispatch].
  unfold nbt_stateNum1. rewrite D. destruct s; cbn in *; subst; reflexivity.
Qed.

(* a value that begins with a digit of the specification is a literal scanned as a number *)
Lemma digit_begins_number s (c : N) : C04.is_digit c = true -> crashed s = false -> step s = St_stateBeginValue ->
  scan_step s (Z.of_N c) = (set_step s St_stateNum1, nbt_scanBeginLiteral).
Proof.
  intros D C S. pose proof D as D'. rewrite <- C04_tie.tie_isNumber in D. unfold scan_step. rewrite C, S. cbn [scan_dispatch].
  assert (W : nbt_isSpace (Z.of_N c) = false).
  { rewrite C04_tie.tie_isSpace. unfold C04.is_digit, C04.is_ws in *. lia. }
  assert (Q : forall k, (k < 48 \/ 57 < k) -> (Z.of_N c =? k) = false).
  { intros k Hk. unfold C04.is_digit in D'. lia. }
  unfold nbt_stateBeginValue. rewrite W, (Q 123), (Q 91), (Q 34), (Q 39), D by lia.
  cbn [orb]. unfold nbt_stateNum0. rewrite D. cbn [orb]. unfold set_step. cbn [crashed]. rewrite C. reflexivity.
Qed.
