(* C04, the translated SNBT scanner: the counting form of opcode / stack coherence - as long as no byte has been
   answered scanError, the depth of the parse stack is the number of scanBeginCompound and scanBeginList opcodes minus
   the number of scanEndValue opcodes. *)
From Coq Require Import List Arith ZArith Lia Bool ZifyBool ZifyNat.
From GoMC Require Import Base.GoInt Gen.Consts Gen.Funcs Gen.Scanner Model.C04_scan Proofs.C04_scan Proofs.C04_scan_inv
  Proofs.C04_scan_shape.
Import ListNotations.
Local Open Scope Z_scope.

Definition is_push (op : Z) : bool := (op =? nbt_scanBeginCompound) || (op =? nbt_scanBeginList).
Definition is_pop (op : Z) : bool := op =? nbt_scanEndValue.
Definition opcount (p : Z -> bool) (ops : list Z) : Z := Z.of_nat (length (filter p ops)).

Lemma opcount_cons p op ops : opcount p (op :: ops) = (if p op then 1 else 0) + opcount p ops.
Proof. unfold opcount. simpl. destruct (p op); simpl length; lia. Qed.

Lemma depth_counts_from s t : Inv s -> ~ In nbt_scanError (snd (scan_bytes s t)) ->
  sl_len (parseState (fst (scan_bytes s t))) =
  sl_len (parseState s) + opcount is_push (snd (scan_bytes s t)) - opcount is_pop (snd (scan_bytes s t)).
Proof.
  revert s. induction t as [|c t IH]; intros s I NE; simpl in *.
  - unfold opcount. simpl. lia.
  - destruct (scan_step s c) as [s1 op] eqn:E.
    pose proof (step_inv s c s1 op I E) as I1.
    pose proof (step_shape_ok s c s1 op I E) as (P1 & P2 & P3 & P4 & _).
    specialize (IH s1 I1). destruct (scan_bytes s1 t) as [s2 ops]. simpl in *.
    assert (NE1 : op <> nbt_scanError) by (intro; apply NE; left; congruence).
    assert (NE2 : ~ In nbt_scanError ops) by (intro; apply NE; right; assumption).
    rewrite (IH NE2), !opcount_cons. unfold is_push, is_pop.
    destruct (Z.eq_dec op nbt_scanBeginCompound) as [->|N1].
    { destruct (P1 eq_refl) as [_ ->]. rewrite sl_len_snoc. consts. cbn [Z.eqb Pos.eqb orb]. lia. }
    destruct (Z.eq_dec op nbt_scanBeginList) as [->|N2].
    { destruct (P2 eq_refl) as [_ ->]. rewrite sl_len_snoc. consts. cbn [Z.eqb Pos.eqb orb]. lia. }
    destruct (Z.eq_dec op nbt_scanEndValue) as [->|N3].
    { destruct (P3 eq_refl) as (l & t0 & -> & -> & _). rewrite sl_len_snoc. consts. cbn [Z.eqb Pos.eqb orb]. lia. }
    destruct (P4 N1 N2 N3) as [[L _] | (A & _)]; [|contradiction].
    replace (op =? nbt_scanBeginCompound) with false by lia. replace (op =? nbt_scanBeginList) with false by lia.
    replace (op =? nbt_scanEndValue) with false by lia. cbn [orb]. unfold sl_len. lia.
Qed.

Theorem scan_depth_counts text :
  let '(s, ops) := scan_bytes scan_init text in
  ~ In nbt_scanError ops -> sl_len (parseState s) = opcount is_push ops - opcount is_pop ops.
Proof.
  pose proof (depth_counts_from scan_init text inv_init) as H.
  destruct (scan_bytes scan_init text) as [s ops]. simpl in *. intros NE. rewrite (H NE). reflexivity.
Qed.

(* an accepted text has as many closing as opening opcodes *)
Corollary accepted_counts text : scan_accepts text = true ->
  opcount is_push (snd (scan_bytes scan_init text)) = opcount is_pop (snd (scan_bytes scan_init text)).
Proof.
  intros A. pose proof (accepts_no_error text A) as NE. pose proof (scan_depth_counts text) as C.
  pose proof (bytes_inv scan_init text inv_init) as I.
  destruct (scan_bytes scan_init text) as [s ops] eqn:E. simpl in *. specialize (C NE).
  (* accepted: the stack is empty when eof answers scanEnd *)
  unfold scan_accepts in A. rewrite E in A. simpl in A. apply Z.eqb_eq in A.
  pose proof I as (Hcr & _ & _ & _ & Herr & Het & _).
  unfold scan_eof in A. rewrite Hcr in A. unfold nbt_scanner_eof in A.
  destruct (errContext s) eqn:Ec; [discriminate A|].
  destruct (endTop s) eqn:Et.
  - destruct (Het eq_refl) as (P & _). rewrite P in C. cbn in C. lia.
  - destruct (scan_dispatch (step s) s 32) as [s1 o] eqn:Ed.
    assert (Es : scan_step s 32 = (s1, o)) by (unfold scan_step; rewrite Hcr; exact Ed).
    pose proof (step_inv s 32 s1 o I Es) as I1. pose proof I1 as (C1 & _ & _ & _ & _ & Het1 & _).
    rewrite C1 in A. destruct (endTop s1) eqn:Et1; [|destruct (errContext s1); simpl in A; discriminate A].
    destruct (Het1 eq_refl) as (P1 & _).
    (* the step on ' ' did not move the stack: it is no push, and a pop needs a closing bracket *)
    pose proof (step_shape_ok s 32 s1 o I Es) as (Q1 & Q2 & Q3 & Q4 & _).
    destruct (Z.eq_dec o nbt_scanBeginCompound) as [->|N1]; [destruct (Q1 eq_refl); lia|].
    destruct (Z.eq_dec o nbt_scanBeginList) as [->|N2]; [destruct (Q2 eq_refl); lia|].
    destruct (Z.eq_dec o nbt_scanEndValue) as [->|N3]; [destruct (Q3 eq_refl) as (l & t0 & _ & _ & [[? _]|[? _]]); lia|].
    destruct (Q4 N1 N2 N3) as [[L _] | (_ & [?|?] & _)]; try lia.
    rewrite P1 in L. simpl in L. assert (parseState s = []) by (destruct (parseState s); [reflexivity | discriminate L]).
    rewrite H in C. cbn in C. lia.
Qed.
