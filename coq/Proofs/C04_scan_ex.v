(* C04, the translated SNBT scanner: concrete runs (non-vacuity of the theorems' hypotheses, tightness of the depth
   bound).  Kept out of Props/C04.v because the deep run takes ~12 s of vm_compute. *)
From Coq Require Import List ZArith Bool.
From GoMC Require Import Gen.Consts Gen.Scanner Model.C04_scan.
Import ListNotations.
Open Scope Z_scope.

(* {a:[1,"]"]}  is accepted, with the opcodes the Go scanner gives (begin compound, literal, tag name, begin list,
   literal, list value, literal, continue, continue, end value, end value; eof: scanEnd) *)
Example ex_accept :
  scan_all [123;97;58;91;49;44;34;93;34;93;125] =
  (mkScanner St_stateEndTop [] false true false, [2;1;6;3;1;4;1;0;0;9;9;10])
  /\ scan_accepts [123;97;58;91;49;44;34;93;34;93;125] = true
  /\ balanced [123;97;58;91;49;44;34;93;34;93;125] = true.
Proof. vm_compute. repeat split. Qed.

(* [}  and  {a:1]  are refused, and unbalanced;  {1}  is balanced and refused (the implication is one-way) *)
Example ex_reject :
  scan_accepts [91;125] = false /\ balanced [91;125] = false /\
  scan_accepts [123;97;58;49;93] = false /\ balanced [123;97;58;49;93] = false /\
  scan_accepts [123;49;125] = false /\ balanced [123;49;125] = true.
Proof. vm_compute. repeat split. Qed.

(* 1 x : the byte after the top-level value is answered scanEnd, the scanner is in its error state, eof says scanError *)
Example ex_trailing :
  scan_all [49;32;120] = (mkScanner St_stateError [] true true false, [1;10;10;11]).
Proof. vm_compute. reflexivity. Qed.

(* the depth bound is tight: maxNestingDepth+1 open brackets are fine, the next one is answered scanError with
   maxNestingDepth+2 frames on the stack and the scanner in its error state *)
Definition deep_state : scanner := fst (scan_bytes scan_init (repeat 91 (Z.to_nat (nbt_maxNestingDepth + 1)))).
Definition deeper : scanner * Z := scan_step deep_state 91.
Example ex_depth :
  (step deep_state, sl_len (parseState deep_state), errContext deep_state)
    = (St_stateListOrArray, nbt_maxNestingDepth + 1, false) /\
  (step (fst deeper), sl_len (parseState (fst deeper)), errContext (fst deeper), snd deeper)
    = (St_stateError, nbt_maxNestingDepth + 2, true, nbt_scanError).
Proof. vm_compute. split; reflexivity. Qed.
