(* C04, the translated SNBT scanner: the invariant of the reachable states and what follows from it. *)
From Coq Require Import List Arith ZArith Lia Bool ZifyBool ZifyNat.
From GoMC Require Import Base.GoInt Gen.Consts Gen.Funcs Gen.Scanner Model.C04_scan Proofs.C04_scan.
Import ListNotations.
Local Open Scope Z_scope.

Definition frame_ok (v : Z) : Prop := v = 0 \/ v = 1 \/ v = 2.

Definition Inv (s : scanner) : Prop :=
  crashed s = false /\
  sl_len (parseState s) <= 10002 /\
  (errContext s = false -> sl_len (parseState s) <= 10001) /\
  (step s = St_stateCompoundOrEmpty -> exists l, parseState s = l ++ [nbt_parseCompoundName]) /\
  (errContext s = true <-> step s = St_stateError) /\
  (endTop s = true -> parseState s = [] /\ (step s = St_stateEndTop \/ step s = St_stateError)) /\
  Forall frame_ok (parseState s).

Lemma Forall_snoc {A} (P : A -> Prop) l t : Forall P (l ++ [t]) <-> Forall P l /\ P t.
Proof.
  rewrite Forall_app. split; intros [H1 H2]; split; auto.
  - inversion H2; assumption.
Qed.

Ltac prj := cbn [step parseState errContext endTop crashed] in *.
Ltac unfold_pure H :=
  repeat progress unfold nbt_stateBeginValue, nbt_stateNum0, nbt_stateEndNumValue, nbt_stateEndNumDotValue, nbt_stateBeginString,
    nbt_stateInSingleQuotedString, nbt_stateInSingleQuotedStringEsc, nbt_stateInDoubleQuotedString, nbt_stateInDqStringEsc,
    nbt_stateInUnquotedString, nbt_stateListOrArray, nbt_stateListOrArrayT, nbt_stateArrayT, nbt_stateNum1, nbt_stateNumDot,
    nbt_stateNumDot0, nbt_stateNumExp, nbt_stateNumExp0, nbt_stateError,
    set_step, set_parseState, set_errContext, set_endTop, set_crashed in H;
  cbn [step parseState errContext endTop crashed] in H.

Ltac stackfn H :=
  repeat first
    [ rewrite endValue_nil in H
    | rewrite endValue_snoc in H by assumption
    | rewrite compoundOrEmpty_snoc in H by assumption
    | rewrite push_eq in H
    | rewrite endTop_eq in H
    | rewrite error_eq in H ];
  unfold popped, err_of in H; cbn zeta in H; cbn [step parseState errContext endTop crashed] in H.
Ltac symex H := repeat (progress (unfold_pure H; stackfn H)).
Ltac split_ifs H :=
  repeat match type of H with
         | context [if ?b then _ else _] => let E := fresh "E" in destruct b eqn:E
         end.

Ltac fix_flags Herr Het :=
  match type of Herr with (?ec = true <-> _) =>
    destruct ec; [ try (discriminate (proj1 Herr eq_refl)) | try (discriminate (proj2 Herr eq_refl)) ] end;
  match type of Het with (?et = true -> _) =>
    destruct et;
    [ try (exfalso; destruct (Het eq_refl) as (A & [B|B]);
           first [ discriminate B | symmetry in A; exact (app_cons_not_nil _ _ _ A) ]) | ] end.

Ltac fin :=
  repeat match goal with
         | E : (sl_len ?l =? 0) = true |- _ => apply Z.eqb_eq, sl_len_eq0 in E; subst l
         end;
  rewrite ?sl_len_snoc, ?sl_len_nil, ?Forall_snoc in *;
  repeat match goal with
         | |- _ /\ _ => split
         | |- _ <-> _ => split
         | |- _ -> _ => intro
         | H : _ /\ _ |- _ => destruct H
         end;
  try solve [ reflexivity | discriminate | assumption | lia | congruence | apply Forall_nil
            | unfold frame_ok, nbt_parseCompoundName, nbt_parseCompoundValue, nbt_parseListValue; lia
            | left; reflexivity | right; reflexivity
            | repeat constructor; unfold frame_ok, nbt_parseCompoundName, nbt_parseCompoundValue, nbt_parseListValue; lia
            | match goal with
              | |- exists l0, ?l ++ [?v] = l0 ++ [_] => exists l; reflexivity
              | |- exists l0, [?v] = l0 ++ [_] => exists []; reflexivity
              end ].

Lemma step_inv s c s' op : Inv s -> scan_step s c = (s', op) -> Inv s'.
Proof.
  destruct s as [st ps ec et cr]. unfold Inv. prj. intros (Hcr & Hd2 & Hd1 & Hce & Herr & Het & Hfr) H.
  subst cr. unfold scan_step in H. prj.
  destruct (snoc_case ps) as [-> | (l & t & ->)].
  - destruct st; cbn [scan_dispatch] in H; try (exfalso; destruct (Hce eq_refl) as (l0 & A0); exact (app_cons_not_nil _ _ _ A0)); fix_flags Herr Het;
      symex H; split_ifs H; injection H as <- <-; prj; fin.
  - assert (S : small l) by (rewrite sl_len_snoc in Hd2; unfold small; pose proof (sl_len_nonneg l); lia).
    assert (S' : forall v, small (l ++ [v])) by (intro v; unfold small; rewrite sl_len_snoc in *; lia).
    destruct st; cbn [scan_dispatch] in H; fix_flags Herr Het;
      try (destruct (Hce eq_refl) as (l0 & A0); apply app_inj_tail in A0; destruct A0 as [<- ->]);
      symex H; split_ifs H; injection H as <- <-; prj; fin.
Qed.

Lemma inv_init : Inv scan_init.
Proof.
  unfold Inv, scan_init, scanner_zero, nbt_scanner_reset, set_step, set_parseState, set_errContext, set_endTop. prj.
  repeat split; try discriminate; try (cbn; lia); try (intros A; discriminate A). apply Forall_nil.
Qed.

(* the choice of `step` in the zero value is irrelevant: reset() overwrites every field *)
Lemma scan_init_eq st : nbt_scanner_reset (mkScanner st [] false false false) = scan_init.
Proof. reflexivity. Qed.

Lemma scan_bytes_app s t1 t2 :
  scan_bytes s (t1 ++ t2) =
  let '(s1, o1) := scan_bytes s t1 in let '(s2, o2) := scan_bytes s1 t2 in (s2, o1 ++ o2).
Proof.
  revert s. induction t1 as [|c t1 IH]; intros s; simpl.
  - destruct (scan_bytes s t2); reflexivity.
  - destruct (scan_step s c) as [s1 op]. rewrite IH.
    destruct (scan_bytes s1 t1) as [s2 o1]. destruct (scan_bytes s2 t2) as [s3 o2]. reflexivity.
Qed.

Lemma scan_bytes_length s t : length (snd (scan_bytes s t)) = length t.
Proof.
  revert s. induction t as [|c t IH]; intros s; simpl; [reflexivity|].
  destruct (scan_step s c) as [s1 op]. specialize (IH s1). destruct (scan_bytes s1 t). simpl in *. congruence.
Qed.

Lemma bytes_inv s t : Inv s -> Inv (fst (scan_bytes s t)).
Proof.
  revert s. induction t as [|c t IH]; intros s I; simpl; [exact I|].
  destruct (scan_step s c) as [s1 op] eqn:E. specialize (IH s1 (step_inv _ _ _ _ I E)).
  destruct (scan_bytes s1 t). exact IH.
Qed.

(* every state the loop reaches from reset() *)
Definition reachable (s : scanner) : Prop := exists t, s = fst (scan_bytes scan_init t).
Lemma reachable_inv s : reachable s -> Inv s.
Proof. intros (t & ->). apply bytes_inv, inv_init. Qed.

(* eof(): the step on ' ' it makes is a step like any other; the rest only sets errContext *)
Lemma eof_no_crash s : Inv s -> crashed (fst (scan_eof s)) = false.
Proof.
  intros I. pose proof I as (Hcr & _). unfold scan_eof. rewrite Hcr. unfold nbt_scanner_eof.
  destruct (errContext s); [exact Hcr|]. destruct (endTop s); [exact Hcr|].
  destruct (scan_dispatch (step s) s 32) as [s1 o] eqn:E.
  assert (I1 : Inv s1). { apply (step_inv s 32 s1 o I). unfold scan_step. rewrite Hcr. exact E. }
  destruct I1 as (Hcr1 & _). rewrite Hcr1. destruct (endTop s1); [exact Hcr1|].
  destruct (errContext s1); cbn; exact Hcr1.
Qed.

Theorem scan_no_crash text :
  crashed (fst (scan_bytes scan_init text)) = false /\ crashed (fst (scan_all text)) = false.
Proof.
  pose proof (bytes_inv scan_init text inv_init) as I. split; [apply I|].
  unfold scan_all. destruct (scan_bytes scan_init text) as [s1 ops]. simpl in I.
  pose proof (eof_no_crash s1 I) as E. destruct (scan_eof s1). exact E.
Qed.

Lemma max_depth_value : nbt_maxNestingDepth + 1 = 10001. Proof. reflexivity. Qed.

(* the depth check of pushParseState, as a property of every state of every run: the stack never holds more than
   maxNestingDepth+2 frames, and more than maxNestingDepth+1 only in the error state *)
Theorem scan_depth_bound text :
  let s := fst (scan_bytes scan_init text) in
  sl_len (parseState s) <= nbt_maxNestingDepth + 2 /\
  (errContext s = false -> sl_len (parseState s) <= nbt_maxNestingDepth + 1).
Proof.
  pose proof (bytes_inv scan_init text inv_init) as (_ & A & B & _). split; [exact A | exact B].
Qed.
