(* C04, the translated SNBT scanner: what one step may do to the parse stack, by opcode (step_shape), and that a
   scanError opcode always leaves the scanner in its error state (the last clause); stateError is absorbing. *)
From Coq Require Import List Arith ZArith Lia Bool ZifyBool ZifyNat.
From GoMC Require Import Base.GoInt Gen.Consts Gen.Funcs Gen.Scanner Model.C04_scan Proofs.C04_scan Proofs.C04_scan_inv.
Import ListNotations.
Local Open Scope Z_scope.

(* the stack keeps its frames below the top (the top frame may switch between tag name and tag value) *)
Definition no_move (ps ps' : list Z) : Prop := length ps' = length ps /\ removelast ps' = removelast ps.

Definition step_shape (s : scanner) (c : Z) (s' : scanner) (op : Z) : Prop :=
  let ps := parseState s in
  let ps' := parseState s' in
  (op = nbt_scanBeginCompound -> c = 123 /\ ps' = ps ++ [nbt_parseCompoundName]) /\
  (op = nbt_scanBeginList -> c = 91 /\ ps' = ps ++ [nbt_parseListValue]) /\
  (op = nbt_scanEndValue ->
     exists l t, ps = l ++ [t] /\ ps' = l /\
       (c = 125 /\ (t = nbt_parseCompoundName \/ t = nbt_parseCompoundValue) \/ c = 93 /\ t = nbt_parseListValue)) /\
  (op <> nbt_scanBeginCompound -> op <> nbt_scanBeginList -> op <> nbt_scanEndValue ->
     no_move ps ps' \/
     (op = nbt_scanError /\ (c = 123 \/ c = 91) /\ exists v, ps' = ps ++ [v] /\ sl_len ps' = nbt_maxNestingDepth + 2)) /\
  (op = nbt_scanError -> step s' = St_stateError /\ errContext s' = true).

Ltac consts :=
  unfold nbt_scanContinue, nbt_scanBeginLiteral, nbt_scanBeginCompound, nbt_scanBeginList, nbt_scanListValue,
    nbt_scanListType, nbt_scanCompoundTagName, nbt_scanCompoundValue, nbt_scanSkipSpace, nbt_scanEndValue, nbt_scanEnd,
    nbt_scanError, nbt_parseCompoundName, nbt_parseCompoundValue, nbt_parseListValue, nbt_maxNestingDepth in *.

Lemma no_move_refl ps : no_move ps ps. Proof. split; reflexivity. Qed.
Lemma no_move_top l t v : no_move (l ++ [t]) (l ++ [v]).
Proof. split; [rewrite !app_length; reflexivity | rewrite !removelast_last; reflexivity]. Qed.

Ltac fin_shape :=
  unfold step_shape; prj; consts;
  repeat match goal with
         | |- _ /\ _ => split
         | |- _ -> _ => intro
         end;
  try solve [ discriminate | congruence | lia | reflexivity
            | left; first [apply no_move_refl | apply no_move_top]
            | match goal with
              | |- exists l0 t0, ?l ++ [?t] = _ /\ _ => exists l, t; split; [reflexivity | split; [reflexivity | lia]]
              end
            | right; split; [reflexivity | split; [lia | eexists; split; [reflexivity | rewrite ?sl_len_snoc, ?sl_len_nil in *; lia]]] ].

Lemma step_shape_ok s c s' op : Inv s -> scan_step s c = (s', op) -> step_shape s c s' op.
Proof.
  destruct s as [st ps ec et cr]. unfold Inv. prj. intros (Hcr & Hd2 & Hd1 & Hce & Herr & Het & Hfr) H.
  subst cr. unfold scan_step in H. prj.
  destruct (snoc_case ps) as [-> | (l & t & ->)].
  - destruct st; cbn [scan_dispatch] in H;
      try (exfalso; destruct (Hce eq_refl) as (l0 & A0); exact (app_cons_not_nil _ _ _ A0)); fix_flags Herr Het;
      symex H; split_ifs H; injection H as <- <-; fin_shape.
  - assert (S : small l) by (rewrite sl_len_snoc in Hd2; unfold small; pose proof (sl_len_nonneg l); lia).
    assert (S' : forall v, small (l ++ [v])) by (intro v; unfold small; rewrite sl_len_snoc in *; lia).
    destruct st; cbn [scan_dispatch] in H; fix_flags Herr Het;
      try (destruct (Hce eq_refl) as (l0 & A0); apply app_inj_tail in A0; destruct A0 as [<- ->]);
      symex H; split_ifs H; injection H as <- <-; fin_shape.
Qed.

(* ------------------------------------------------------------------ stateError is absorbing *)
Lemma error_absorbing s c : crashed s = false -> step s = St_stateError -> scan_step s c = (s, nbt_scanError).
Proof. intros C E. unfold scan_step. rewrite C, E. reflexivity. Qed.

Lemma bytes_in_error s t : crashed s = false -> step s = St_stateError ->
  scan_bytes s t = (s, repeat nbt_scanError (length t)).
Proof.
  intros C E. induction t as [|c t IH]; simpl; [reflexivity|].
  rewrite (error_absorbing s c C E), IH. reflexivity.
Qed.

Lemma eof_in_error s : errContext s = true -> snd (scan_eof s) = nbt_scanError.
Proof.
  intros E. unfold scan_eof. destruct (crashed s); [reflexivity|]. unfold nbt_scanner_eof. rewrite E. reflexivity.
Qed.

(* once a byte has been answered with scanError, every later byte and eof are answered with scanError *)
Theorem scan_error_sticky t1 c t2 :
  let s := fst (scan_bytes scan_init t1) in
  snd (scan_step s c) = nbt_scanError ->
  let s1 := fst (scan_step s c) in
  Forall (fun op => op = nbt_scanError) (snd (scan_bytes s1 t2)) /\
  fst (scan_bytes s1 t2) = s1 /\
  snd (scan_eof (fst (scan_bytes s1 t2))) = nbt_scanError.
Proof.
  intros s Hop s1. pose proof (bytes_inv scan_init t1 inv_init) as I. fold s in I.
  destruct (scan_step s c) as [s1' op] eqn:E. simpl in Hop. subst s1. simpl.
  pose proof (step_shape_ok s c s1' op I E) as (_ & _ & _ & _ & SE). destruct (SE Hop) as [S1 S2].
  pose proof (step_inv s c s1' op I E) as (C1 & _).
  rewrite (bytes_in_error s1' t2 C1 S1). simpl. split; [|split; [reflexivity | apply eof_in_error, S2]].
  apply Forall_forall. intros x Hx. apply repeat_spec in Hx. exact Hx.
Qed.

(* an accepted text never saw scanError *)
Lemma no_error_if_accepted s t : Inv s ->
  snd (scan_eof (fst (scan_bytes s t))) = nbt_scanEnd -> ~ In nbt_scanError (snd (scan_bytes s t)).
Proof.
  revert s. induction t as [|c t IH]; intros s I A; simpl in *; [tauto|].
  destruct (scan_step s c) as [s1 op] eqn:E.
  pose proof (step_inv s c s1 op I E) as I1.
  pose proof (step_shape_ok s c s1 op I E) as (_ & _ & _ & _ & SE).
  destruct (Z.eq_dec op nbt_scanError) as [->|Ne].
  - exfalso. destruct (SE eq_refl) as [S1 S2]. destruct I1 as (C1 & _).
    rewrite (bytes_in_error s1 t C1 S1) in A. simpl in A. rewrite (eof_in_error s1 S2) in A. discriminate A.
  - specialize (IH s1 I1). destruct (scan_bytes s1 t) as [s2 ops]. simpl in *.
    intros [B|B]; [congruence | exact (IH A B)].
Qed.
Corollary accepts_no_error text : scan_accepts text = true -> ~ In nbt_scanError (snd (scan_bytes scan_init text)).
Proof.
  unfold scan_accepts. intros A. apply no_error_if_accepted; [apply inv_init | apply Z.eqb_eq, A].
Qed.

(* opcode / stack coherence for every state the loop reaches *)
Theorem scan_opcode_stack t c :
  let s := fst (scan_bytes scan_init t) in
  step_shape s c (fst (scan_step s c)) (snd (scan_step s c)).
Proof.
  intros s. apply step_shape_ok; [apply bytes_inv, inv_init | apply surjective_pairing].
Qed.
