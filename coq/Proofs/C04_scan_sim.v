(* C04, the translated SNBT scanner: a text the scanner accepts has balanced brackets outside string literals.
   The independent reading (Model/C04_scan.v: bstep / balanced) is simulated by the scanner step for step as long
   as the scanner is not in its error state (step_sim). *)
From Coq Require Import List Arith ZArith Lia Bool ZifyBool ZifyNat.
From GoMC Require Import Base.GoInt Gen.Consts Gen.Funcs Gen.Scanner Model.C04_scan Proofs.C04_scan Proofs.C04_scan_inv
  Proofs.C04_scan_shape.
Import ListNotations.
Local Open Scope Z_scope.

Definition mode_of (st : sstate) : bmode :=
  match st with
  | St_stateInSingleQuotedString => BIn 39
  | St_stateInSingleQuotedStringEsc => BEsc 39
  | St_stateInDoubleQuotedString => BIn 34
  | St_stateInDqStringEsc => BEsc 34
  | _ => BOut
  end.
Definition frame_br (v : Z) : Z := if v =? nbt_parseListValue then 91 else 123.
Definition brk (ps : list Z) : list Z := rev (map frame_br ps).
Lemma brk_snoc l t : brk (l ++ [t]) = frame_br t :: brk l.
Proof. unfold brk. rewrite map_app, rev_app_distr. reflexivity. Qed.
Lemma brk_nil : brk [] = []. Proof. reflexivity. Qed.

Lemma fb123 t : (frame_br t =? 123) = negb (t =? nbt_parseListValue).
Proof. unfold frame_br. destruct (t =? nbt_parseListValue); reflexivity. Qed.
Lemma fb91 t : (frame_br t =? 91) = (t =? nbt_parseListValue).
Proof. unfold frame_br. destruct (t =? nbt_parseListValue); reflexivity. Qed.

Ltac fin_sim :=
  prj; cbn [mode_of]; intro; try discriminate;
  rewrite ?brk_snoc, ?brk_nil, ?app_nil_l; rewrite ?brk_snoc; unfold brk; cbn [map rev app];
  unfold bstep; rewrite ?fb123, ?fb91; unfold frame_br; consts; unfold nbt_isSpace, nbt_isNumber, nbt_isAllowedInUnquotedString in *;
  repeat match goal with
         | |- context [if ?b then _ else _] => let B := fresh "B" in destruct b eqn:B
         end;
  try solve [ reflexivity | exfalso; lia
            | match goal with c : Z |- _ =>
                first [ replace c with 123 by lia | replace c with 91 by lia | replace c with 39 by lia
                      | replace c with 34 by lia ]; reflexivity
              end ].

Lemma step_sim s c s' op : Inv s -> scan_step s c = (s', op) -> errContext s' = false ->
  bstep (mode_of (step s)) (brk (parseState s)) c = Some (mode_of (step s'), brk (parseState s')).
Proof.
  destruct s as [st ps ec et cr]. unfold Inv. prj. intros (Hcr & Hd2 & Hd1 & Hce & Herr & Het & Hfr) H.
  subst cr. unfold scan_step in H. prj.
  destruct (snoc_case ps) as [-> | (l & t & ->)].
  - destruct st; cbn [scan_dispatch] in H;
      try (exfalso; destruct (Hce eq_refl) as (l0 & A0); exact (app_cons_not_nil _ _ _ A0)); fix_flags Herr Het;
      symex H; split_ifs H; injection H as <- <-; fin_sim.
  - assert (S : small l) by (rewrite sl_len_snoc in Hd2; unfold small; pose proof (sl_len_nonneg l); lia).
    assert (S' : forall v, small (l ++ [v])) by (intro v; unfold small; rewrite sl_len_snoc in *; lia).
    destruct st; cbn [scan_dispatch] in H; fix_flags Herr Het;
      try (destruct (Hce eq_refl) as (l0 & A0); apply app_inj_tail in A0; destruct A0 as [<- ->]);
      symex H; split_ifs H; injection H as <- <-; fin_sim.
Qed.

