(* C04 proofs, part 4: whatever the spec parser accepts is a well-formed NBT value
   (integer ranges, homogeneous lists) - for every text and every float oracle *)
From Coq Require Import List Arith NArith ZArith Lia Bool ZifyN ZifyNat ZifyBool.
From GoMC Require Import Base.Bytes Gen.Consts Model.C04.
Import ListNotations.
Open Scope N_scope.

(* wf without the finiteness of floats (the float value is whatever the oracle returns) *)
Fixpoint wfs (t : tag) : bool :=
  match t with
  | TByte v => in_rng 8 v | TShort v => in_rng 16 v | TInt v => in_rng 32 v | TLong v => in_rng 64 v
  | TFloat _ | TDouble _ | TString _ => true
  | TByteArray l => forallb (in_rng 8) l
  | TIntArray l => forallb (in_rng 32) l
  | TLongArray l => forallb (in_rng 64) l
  | TList l => homog l && wfs_list l
  | TCompound c => wfs_comp c
  end
with wfs_list (l : tlist) : bool := match l with LNil => true | LCons t r => wfs t && wfs_list r end
with wfs_comp (c : tcomp) : bool := match c with CNil => true | CCons _ t r => wfs t && wfs_comp r end.

Ltac dm := match goal with
  | H : context [match ?x with _ => _ end] |- _ => destruct x eqn:?; try discriminate
  | H : Some _ = Some _ |- _ => inversion H; subst; clear H
  | H : (_, _) = (_, _) |- _ => inversion H; subst; clear H
  end.

Section Snd.
Variables pf32 pf64 : flit -> option N.

Lemma ranged_snd w mk v t : ranged w mk v = Some t -> t = mk v /\ in_rng w v = true.
Proof. unfold ranged. destruct (in_rng w v); [|discriminate]. intros H. inversion H. auto. Qed.

Lemma classify_snd tok t : classify pf32 pf64 tok = Some t -> wfs t = true.
Proof.
  unfold classify. destruct (is_word tok); [intros H; inversion H; reflexivity|].
  destruct (strip_sign tok) as [neg body]. unfold classify_num, omap.
  intros H. repeat dm; try reflexivity;
    try (apply ranged_snd in H; destruct H as [-> R]; exact R).
Qed.

Definition arr_wfs (k : N) (l : list Z) : bool := wfs (mk_arr k l).

Lemma arr_cons k t v l : wfs t = true -> arr_val k t = Some v -> arr_wfs k l = true -> arr_wfs k (v :: l) = true.
Proof.
  unfold arr_wfs, arr_val, mk_arr. intros Hw Ha Hl. destruct t; try discriminate.
  - destruct (k =? 0); [|discriminate]. inversion Ha; subst. cbn [wfs forallb] in *. rewrite Hw, Hl. reflexivity.
  - destruct (k =? 1) eqn:E1; [|discriminate]. assert (E0: (k =? 0) = false) by lia. rewrite E0 in *.
    inversion Ha; subst. cbn [wfs forallb] in *. rewrite Hw, Hl. reflexivity.
  - destruct (k =? 2) eqn:E2; [|discriminate]. assert (E0: (k =? 0) = false) by lia.
    assert (E1: (k =? 1) = false) by lia. rewrite E0, E1 in *.
    inversion Ha; subst. cbn [wfs forallb] in *. rewrite Hw, Hl. reflexivity.
Qed.

Lemma parr_snd f : forall k s l z, parr pf32 pf64 f k s = Some (l, z) -> arr_wfs k l = true.
Proof.
  induction f as [|f IH]; intros k s l z H; [discriminate|].
  cbn [parr] in H. unfold parr_body in H. repeat dm.
  - eapply arr_cons; eauto using classify_snd.
  - eapply arr_cons; eauto using classify_snd. unfold arr_wfs, mk_arr. destruct (k =? 0), (k =? 1); reflexivity.
Qed.

Lemma all_snd f :
  (forall s t z, pval pf32 pf64 f s = Some (t, z) -> wfs t = true) /\
  (forall s l z, pelems pf32 pf64 f s = Some (l, z) -> wfs_list l = true) /\
  (forall s c z, pentries pf32 pf64 f s = Some (c, z) -> wfs_comp c = true).
Proof.
  induction f as [|f (IHv & IHl & IHc)]; [repeat split; intros; discriminate|].
  repeat split.
  - intros s t z H. cbn [pval] in H. unfold pval_body in H. repeat dm; try reflexivity.
    + eapply IHc; eauto.
    + unfold mk_arr. destruct (n0 =? 0), (n0 =? 1); reflexivity.
    + eapply (parr_snd f); eauto.
    + cbn [wfs]. rewrite Heqb3. eapply IHl; eauto.
    + eapply classify_snd; eauto.
  - intros s l z H. cbn [pelems] in H. unfold pelems_body in H. repeat dm.
    + cbn [wfs_list]. rewrite (IHv _ _ _ Heqo), (IHl _ _ _ Heqo0). reflexivity.
    + cbn [wfs_list]. rewrite (IHv _ _ _ Heqo). reflexivity.
  - intros s c z H. cbn [pentries] in H. unfold pentries_body in H. repeat dm.
    + cbn [wfs_comp]. rewrite (IHv _ _ _ Heqo0), (IHc _ _ _ Heqo1). reflexivity.
    + cbn [wfs_comp]. rewrite (IHv _ _ _ Heqo0). reflexivity.
Qed.

Theorem parse_sound s t : parse pf32 pf64 s = Some t -> wfs t = true.
Proof.
  unfold parse. intros H. repeat dm. eapply (proj1 (all_snd _)); eauto.
Qed.
End Snd.

Scheme tag_mut' := Induction for tag Sort Prop
  with tlist_mut' := Induction for tlist Sort Prop
  with tcomp_mut' := Induction for tcomp Sort Prop.
Combined Scheme tag_mutind' from tag_mut', tlist_mut', tcomp_mut'.

(* the precondition of the round-trip theorems implies what the parser guarantees *)
Lemma wf_wfs : (forall t, wf t = true -> wfs t = true) /\ (forall l, wf_list l = true -> wfs_list l = true)
  /\ (forall c, wf_comp c = true -> wfs_comp c = true).
Proof.
  apply tag_mutind'; cbn [wf wfs wf_list wfs_list wf_comp wfs_comp]; auto.
  - intros l IH H. apply andb_prop in H. destruct H as [-> H]. rewrite (IH H). reflexivity.
  - intros t IHt l IHl H. apply andb_prop in H. destruct H as [A B]. rewrite (IHt A), (IHl B). reflexivity.
  - intros k t IHt c IHc H. apply andb_prop in H. destruct H as [A B]. rewrite (IHt A), (IHc B). reflexivity.
Qed.
