(* Tie lemmas (C04): the definitions that tools/gotrans TRANSLATES from the Go source on every run
   (coq/Gen/Funcs.v) agree with the hand-written model the property theorems are about. A source edit of one
   of these functions changes Gen/Funcs.v; these lemmas are then re-checked. *)
From Coq Require Import List Arith NArith ZArith Lia Bool ZifyN ZifyNat ZifyBool.
From GoMC Require Import Base.Bytes Base.Bits Base.GoInt Gen.Consts Gen.Funcs.
From GoMC Require Model.C04.
Import ListNotations.
Ltac Zify.zify_post_hook ::= Z.div_mod_to_equations.
Local Open Scope Z_scope.

(* C04: the scanner's character classes *)
Lemma tie_isSpace (c : N) : nbt_isSpace (Z.of_N c) = C04.is_ws c.
Proof. unfold nbt_isSpace, C04.is_ws. lia. Qed.
Lemma tie_isNumber (c : N) : nbt_isNumber (Z.of_N c) = C04.is_digit c.
Proof. unfold nbt_isNumber, C04.is_digit. lia. Qed.
Lemma tie_isAllowedInUnquotedString (c : N) : nbt_isAllowedInUnquotedString (Z.of_N c) = C04.is_bare c.
Proof. unfold nbt_isAllowedInUnquotedString, C04.is_bare, C04.is_digit, C04.is_alpha. lia. Qed.
