(* C04 proofs, part 3: the Go writer (model `to_text`) is one particular layout of the spec printer *)
From Coq Require Import List Arith NArith ZArith Lia Bool ZifyN ZifyNat ZifyBool.
From GoMC Require Import Base.Bytes Gen.Consts Model.C04 Proofs.C04 Proofs.C04_rt.
Import ListNotations.
Open Scope N_scope.

(* no optional space, upper-case suffixes, no '+', Int without suffix, int-array elements with I,
   Double always with D, strings bare when they are words, else the quote needing fewer escapes *)
Definition wlay : nlay := mkLay [] [] [] [] 3 true false false true false [] [] 3.
Definition wly : layout := fun _ => wlay.

Lemma wly_ok : lay_ok wly.
Proof. intros p. reflexivity. Qed.

Lemma need_quote_word s : need_quote s = negb (is_word s).
Proof.
  destruct s as [|c s]; [reflexivity|]. unfold need_quote, is_word. cbn [forallb].
  destruct (list_eqb (c :: s) s_true), (list_eqb (c :: s) s_false), (forallb is_bare s);
    unfold is_bare, is_digit, is_alpha; lia.
Qed.

Lemma esc_pr_str s : esc s = pr_str 3 s.
Proof.
  unfold esc, pr_str, quote_of. rewrite need_quote_word. cbn [N.eqb Pos.eqb orb andb].
  destruct (is_word s); cbn [negb]; [reflexivity|]. destruct (count 39 s <? count 34 s)%nat; reflexivity.
Qed.
Lemma dec_Z_pr_int v : dec_Z v = pr_int wlay v.
Proof. unfold dec_Z, pr_int, sign_of. cbn [plus wlay]. destruct (v <? 0)%Z; reflexivity. Qed.
Lemma flit_text_pr f : flit_text f = pr_flit wlay f.
Proof. destruct f as [[neg i] fr]. unfold flit_text, pr_flit, sign_of. cbn [plus wlay]. destruct neg; reflexivity. Qed.

Lemma commas_pr_arr k c l i : arr_sfx k wlay = [c] ->
  commas (map (fun v => dec_Z v ++ [c]) l) = pr_arr wly i k l.
Proof.
  intros Hk. revert i. induction l as [|v l IH]; intros i; [reflexivity|].
  cbn [map commas pr_arr]. unfold wly at 1 2 3 4. rewrite Hk, dec_Z_pr_int. cbn [ws1 ws2 wlay app].
  rewrite <- app_assoc. cbn [app]. destruct l as [|v2 l]; [reflexivity|]. rewrite <- (IH (S i)). reflexivity.
Qed.

Section WR.
Variables fm32 fm64 : N -> flit.

Lemma wr_pr_all :
  (forall t, wr fm32 fm64 t = pr fm32 fm64 wly t) /\
  (forall l i, wr_list fm32 fm64 l = pr_list fm32 fm64 wly i l) /\
  (forall c i, wr_comp fm32 fm64 c = pr_comp fm32 fm64 wly i c).
Proof.
  apply tag_mutind.
  - intros v. cbn [wr pr]. rewrite dec_Z_pr_int. cbn. rewrite app_nil_r. reflexivity.
  - intros v. cbn [wr pr]. rewrite dec_Z_pr_int. cbn. rewrite app_nil_r. reflexivity.
  - intros v. cbn [wr pr]. rewrite dec_Z_pr_int. cbn. rewrite !app_nil_r. reflexivity.
  - intros v. cbn [wr pr]. rewrite dec_Z_pr_int. cbn. rewrite app_nil_r. reflexivity.
  - intros b. cbn [wr pr]. rewrite flit_text_pr. cbn. rewrite app_nil_r. reflexivity.
  - intros b. cbn [wr pr]. rewrite flit_text_pr. cbn. rewrite app_nil_r. reflexivity.
  - intros l. cbn [wr pr]. unfold pr_array. rewrite (commas_pr_arr 0 66 l 0%nat) by reflexivity.
    cbn. rewrite app_nil_r. destruct l; reflexivity.
  - intros s. cbn [wr pr]. rewrite esc_pr_str. cbn. rewrite app_nil_r. reflexivity.
  - intros l IH. rewrite pr_TList. change (wr fm32 fm64 (TList l)) with (91 :: wr_list fm32 fm64 l ++ [93]).
    rewrite (IH 0%nat). cbn. rewrite app_nil_r. destruct l; reflexivity.
  - intros c IH. rewrite pr_TCompound. change (wr fm32 fm64 (TCompound c)) with (123 :: wr_comp fm32 fm64 c ++ [125]).
    rewrite (IH 0%nat). cbn. rewrite app_nil_r. destruct c; reflexivity.
  - intros l. cbn [wr pr]. unfold pr_array. rewrite (commas_pr_arr 1 73 l 0%nat) by reflexivity.
    cbn. rewrite app_nil_r. destruct l; reflexivity.
  - intros l. cbn [wr pr]. unfold pr_array. rewrite (commas_pr_arr 2 76 l 0%nat) by reflexivity.
    cbn. rewrite app_nil_r. destruct l; reflexivity.
  - intros i. reflexivity.
  - intros t IHt r IHr i. rewrite pr_list_cons.
    change (wr_list fm32 fm64 (LCons t r)) with (wr fm32 fm64 t ++ match r with LNil => [] | _ => 44 :: wr_list fm32 fm64 r end).
    rewrite IHt. change (sub wly i) with wly.
    destruct r; [reflexivity|]. rewrite (IHr (S i)). reflexivity.
  - intros i. reflexivity.
  - intros k t IHt r IHr i. rewrite pr_comp_cons.
    change (wr_comp fm32 fm64 (CCons k t r)) with (esc k ++ 58 :: wr fm32 fm64 t ++ match r with CNil => [] | _ => 44 :: wr_comp fm32 fm64 r end).
    rewrite IHt, esc_pr_str. change (sub wly i) with wly. unfold wly at 1 2 3 4. cbn [kws1 kws2 kqs wlay app].
    destruct r; [reflexivity|]. rewrite (IHr (S i)). reflexivity.
Qed.

Theorem to_text_is_layout t : to_text fm32 fm64 t = pr fm32 fm64 wly t.
Proof. apply wr_pr_all. Qed.

Variables pf32 pf64 : flit -> option N.
Hypothesis H32 : forall b, fin32 b = true -> flit_ok (fm32 b) = true /\ pf32 (fm32 b) = Some b.
Hypothesis H64 : forall b, fin64 b = true -> flit_ok (fm64 b) = true /\ pf64 (fm64 b) = Some b.

Theorem text_roundtrip t : wf t = true -> parse pf32 pf64 (to_text fm32 fm64 t) = Some t.
Proof.
  intros Hwf. rewrite to_text_is_layout. apply (spec_roundtrip fm32 fm64 pf32 pf64 H32 H64); [apply wly_ok|exact Hwf].
Qed.
End WR.
