From Coq Require Import List Arith NArith ZArith Lia Bool ZifyN ZifyNat ZifyBool.
From GoMC Require Import Base.Bytes Base.Bits Base.Dec Gen.Consts Model.C05.
Import ListNotations.
Open Scope N_scope.
Ltac Zify.zify_post_hook ::= Z.div_mod_to_equations.

(* tie to the translated constants *)
Lemma max_varint_len : packet_MaxVarIntLen = 5%Z. Proof. reflexivity. Qed.
Lemma max_varlong_len : packet_MaxVarLongLen = 10%Z. Proof. reflexivity. Qed.

(* ---------- facts about the specification ---------- *)

Lemma pow128_pos f : 0 < 128 ^ f.
Proof. apply N.neq_0_lt_0, N.pow_nonzero; discriminate. Qed.

Lemma leb_fuel_more f : forall x g, x < 128 ^ N.of_nat f -> (0 < f)%nat -> (f <= g)%nat ->
  leb_fuel g x = leb_fuel f x.
Proof.
  induction f as [|f IH]; intros x g Hx Hf Hg; [lia|].
  destruct g as [|g]; [lia|]. cbn [leb_fuel].
  destruct (N.ltb_spec x 128) as [L|L]; [reflexivity|].
  f_equal. destruct f as [|f].
  - change (128 ^ N.of_nat 1) with 128 in Hx. lia.
  - apply IH; try lia.
    replace (N.of_nat (S (S f))) with (N.succ (N.of_nat (S f))) in Hx by lia.
    rewrite N.pow_succ_r' in Hx.
    apply N.div_lt_upper_bound; [discriminate|exact Hx].
Qed.

Lemma lt_pow128_size x : x < 128 ^ N.of_nat (S (N.to_nat (N.size x))).
Proof.
  pose proof (N.size_gt x) as H.
  eapply N.lt_le_trans; [exact H|].
  replace (N.of_nat (S (N.to_nat (N.size x)))) with (N.succ (N.size x)) by lia.
  rewrite N.pow_succ_r'.
  assert (2 ^ N.size x <= 128 ^ N.size x) by (apply N.pow_le_mono_l; lia).
  pose proof (pow128_pos (N.size x)). lia.
Qed.

Lemma leb128_fuel x f : x < 128 ^ N.of_nat f -> (0 < f)%nat -> leb128 x = leb_fuel f x.
Proof.
  intros Hx Hf. unfold leb128.
  set (g := S (N.to_nat (N.size x))).
  destruct (Nat.le_ge_cases f g) as [L|L].
  - apply leb_fuel_more; auto.
  - symmetry. apply leb_fuel_more; auto; [apply lt_pow128_size | unfold g; lia].
Qed.

Lemma leb_val_fuel f : forall x, x < 128 ^ N.of_nat f -> leb_val (leb_fuel f x) = x.
Proof.
  induction f as [|f IH]; intros x Hx.
  - change (128 ^ N.of_nat 0) with 1 in Hx. simpl. lia.
  - cbn [leb_fuel]. destruct (N.ltb_spec x 128) as [L|L].
    + cbn [leb_val]. rewrite N.mod_small by exact L. lia.
    + cbn [leb_val]. rewrite IH.
      * replace ((x mod 128 + 128) mod 128) with (x mod 128) by lia. lia.
      * replace (N.of_nat (S f)) with (N.succ (N.of_nat f)) in Hx by lia.
        rewrite N.pow_succ_r' in Hx.
        apply N.div_lt_upper_bound; [discriminate|exact Hx].
Qed.

Lemma leb_val_leb128 x : leb_val (leb128 x) = x.
Proof. unfold leb128. apply leb_val_fuel, lt_pow128_size. Qed.

Lemma leb_shape_cons2 a b t :
  leb_shape (a :: b :: t) = (128 <=? a) && (a <? 256) && leb_shape (b :: t).
Proof. reflexivity. Qed.

Lemma leb_shape_fuel f : forall x, x < 128 ^ N.of_nat f -> (0 < f)%nat ->
  leb_shape (leb_fuel f x) = true /\ (128 <= x -> last (leb_fuel f x) 0 <> 0).
Proof.
  induction f as [|f IH]; intros x Hx Hf; [lia|].
  cbn [leb_fuel]. destruct (N.ltb_spec x 128) as [L|L].
  - split; [simpl; lia|lia].
  - destruct f as [|f]; [change (128 ^ N.of_nat 1) with 128 in Hx; lia|].
    assert (Hd : x / 128 < 128 ^ N.of_nat (S f)).
    { replace (N.of_nat (S (S f))) with (N.succ (N.of_nat (S f))) in Hx by lia.
      rewrite N.pow_succ_r' in Hx. apply N.div_lt_upper_bound; [discriminate|exact Hx]. }
    destruct (IH (x / 128) Hd ltac:(lia)) as [Hs Hl].
    remember (leb_fuel (S f) (x / 128)) as t eqn:Et.
    assert (Hne : t <> []).
    { rewrite Et. cbn [leb_fuel]. destruct (x / 128 <? 128); discriminate. }
    destruct t as [|b t]; [contradiction|].
    split.
    + rewrite leb_shape_cons2, Hs.
      assert ((128 <=? x mod 128 + 128) = true) by lia.
      assert ((x mod 128 + 128 <? 256) = true) by lia.
      rewrite H, H0. reflexivity.
    + intros _. change (last ((x mod 128 + 128) :: b :: t) 0) with (last (b :: t) 0).
      destruct (N.ltb_spec (x / 128) 128) as [L2|L2].
      * rewrite Et. cbn [leb_fuel]. assert ((x / 128 <? 128) = true) as -> by lia.
        simpl. lia.
      * apply Hl. exact L2.
Qed.

Lemma leb128_canonical x : leb_canonical (leb128 x) = true.
Proof.
  unfold leb_canonical, leb128.
  set (f := S (N.to_nat (N.size x))).
  destruct (leb_shape_fuel f x (lt_pow128_size x) ltac:(unfold f; lia)) as [Hs Hl].
  rewrite Hs. cbn [andb].
  destruct (N.ltb_spec x 128) as [L|L].
  - unfold f. cbn [leb_fuel]. assert ((x <? 128) = true) as -> by lia. reflexivity.
  - specialize (Hl L). apply orb_true_iff. right.
    destruct (N.eqb_spec (last (leb_fuel f x) 0) 0); [contradiction|reflexivity].
Qed.

(* uniqueness: a canonical encoding is determined by its value *)
Lemma leb_canonical_unique : forall bs, leb_canonical bs = true -> bs = leb128 (leb_val bs).
Proof.
  assert (G : forall bs, leb_shape bs = true ->
              ((length bs =? 1)%nat || negb (last bs 0 =? 0)) = true ->
              leb_val bs < 128 ^ N.of_nat (length bs) /\
              bs = leb_fuel (length bs) (leb_val bs) /\
              ((1 < length bs)%nat -> 128 <= leb_val bs)).
  { induction bs as [|b t IH]; intros Hs Hc; [discriminate|].
    destruct t as [|c t].
    - cbn [leb_shape] in Hs. cbn [leb_val length leb_fuel].
      change (128 ^ N.of_nat 1) with 128.
      rewrite N.mod_small by lia.
      replace (b + 128 * 0) with b by lia.
      assert ((b <? 128) = true) as -> by lia. repeat split; try lia.
    - rewrite leb_shape_cons2 in Hs. apply andb_true_iff in Hs. destruct Hs as [Hb Hs].
      apply andb_true_iff in Hb. destruct Hb as [Hb1 Hb2].
      assert (Hc' : ((length (c :: t) =? 1)%nat || negb (last (c :: t) 0 =? 0)) = true).
      { change (last (b :: c :: t) 0) with (last (c :: t) 0) in Hc.
        apply orb_true_iff in Hc. destruct Hc as [Hc|Hc]; [simpl in Hc; discriminate|].
        apply orb_true_iff. right. exact Hc. }
      destruct (IH Hs Hc') as (Hlt & Heq & Hge).
      set (tv := leb_val (c :: t)) in *.
      assert (Htv : tv <> 0).
      { destruct t as [|d t].
        - unfold tv. cbn [leb_val]. cbn [leb_shape] in Hs.
          change (last [b; c] 0) with c in Hc.
          apply orb_true_iff in Hc. destruct Hc as [Hc|Hc]; [simpl in Hc; discriminate|].
          rewrite N.mod_small by lia. lia.
        - specialize (Hge ltac:(simpl; lia)). lia. }
      change (leb_val (b :: c :: t)) with (b mod 128 + 128 * tv).
      replace (length (b :: c :: t)) with (S (length (c :: t))) by reflexivity.
      replace (N.of_nat (S (length (c :: t)))) with (N.succ (N.of_nat (length (c :: t)))) by lia.
      rewrite N.pow_succ_r'. cbn [leb_fuel].
      assert (E1 : (b mod 128 + 128 * tv) / 128 = tv) by lia.
      assert (E2 : (b mod 128 + 128 * tv) mod 128 + 128 = b) by lia.
      assert ((b mod 128 + 128 * tv <? 128) = false) as -> by lia.
      rewrite E1, E2, <- Heq. repeat split; lia. }
  intros bs Hc. unfold leb_canonical in Hc. apply andb_true_iff in Hc. destruct Hc as [Hs Hc].
  destruct (G bs Hs Hc) as (Hlt & Heq & _).
  rewrite (leb128_fuel _ (length bs)); auto.
  destruct bs; [discriminate|simpl; lia].
Qed.

(* minimality: every encoding of the right shape is at least as long as the canonical one *)
Lemma leb_shape_val_bound : forall bs, leb_shape bs = true -> leb_val bs < 128 ^ N.of_nat (length bs).
Proof.
  induction bs as [|b t IH]; intros Hs; [discriminate|].
  destruct t as [|c t].
  - cbn [leb_shape] in Hs. cbn [leb_val length]. change (128 ^ N.of_nat 1) with 128. lia.
  - rewrite leb_shape_cons2 in Hs. apply andb_true_iff in Hs. destruct Hs as [_ Hs].
    specialize (IH Hs). change (leb_val (b :: c :: t)) with (b mod 128 + 128 * leb_val (c :: t)).
    replace (length (b :: c :: t)) with (S (length (c :: t))) by reflexivity.
    replace (N.of_nat (S (length (c :: t)))) with (N.succ (N.of_nat (length (c :: t)))) by lia.
    rewrite N.pow_succ_r'. lia.
Qed.

Lemma leb_fuel_length f : forall x, (length (leb_fuel f x) <= f)%nat.
Proof. induction f as [|f IH]; intros x; cbn [leb_fuel]; [simpl; lia|].
  destruct (x <? 128); simpl; [lia|]. specialize (IH (x / 128)). lia. Qed.

Lemma leb128_minimal bs : leb_shape bs = true -> (length (leb128 (leb_val bs)) <= length bs)%nat.
Proof.
  intros Hs. pose proof (leb_shape_val_bound bs Hs) as Hb.
  rewrite (leb128_fuel _ (length bs)); [apply leb_fuel_length|exact Hb|].
  destruct bs; [discriminate|simpl; lia].
Qed.

(* ---------- the 32-bit encoder ---------- *)

Lemma be4_fields f0 f1 f2 f3 : f0 < 256 -> f1 < 256 -> f2 < 256 -> f3 < 256 ->
  be 4 ((f0 * 2^24 + f1 * 2^16 + f2 * 2^8 + f3) mod 2^32) = [f0; f1; f2; f3].
Proof.
  intros. unfold be. cbn [le rev app].
  change (2^24) with 16777216. change (2^16) with 65536. change (2^8) with 256.
  change (2^32) with 4294967296.
  repeat (f_equal; try lia).
Qed.

Lemma be2_fields f0 f1 : f0 < 256 -> f1 < 256 -> be 2 ((f0 * 256 + f1) mod 2^16) = [f0; f1].
Proof.
  intros. unfold be. cbn [le rev app]. change (2^16) with 65536.
  repeat (f_equal; try lia).
Qed.

Lemma u32_lt v : u32 v < 2^32. Proof. apply wrapu_lt. Qed.
Lemma u64_lt v : u64 v < 2^64. Proof. apply wrapu_lt. Qed.

Lemma write32_leb_u (x : N) : x < 2^32 ->
  (if N.land x 0xFFFFFF80 =? 0 then [x mod 256]
  else if N.land x 0xFFFFC000 =? 0 then
    be 2 ((N.lor (N.shiftl (N.lor (N.land x 127) 128) 8) (N.shiftr x 7)) mod 2^16)
  else if N.land x 0xFFE00000 =? 0 then
    be 2 ((N.lor (N.shiftl (N.lor (N.land x 127) 128) 8) (grp x 7)) mod 2^16)
      ++ [(N.shiftr x 14) mod 256]
  else if N.land x 0xF0000000 =? 0 then
    be 4 ((N.lor (N.lor (N.lor (N.shiftl (N.lor (N.land x 127) 128) 24) (N.shiftl (grp x 7) 16))
                        (N.shiftl (grp x 14) 8)) (N.shiftr x 21)) mod 2^32)
  else
    be 4 ((N.lor (N.lor (N.lor (N.shiftl (N.lor (N.land x 127) 128) 24) (N.shiftl (grp x 7) 16))
                        (N.shiftl (grp x 14) 8)) (grp x 21)) mod 2^32)
      ++ [(N.shiftr x 28) mod 256]) = leb_fuel 5 x.
Proof.
  intros Hx.
  change 0xFFFFFF80 with (2^32 - 2^7). change 0xFFFFC000 with (2^32 - 2^14).
  change 0xFFE00000 with (2^32 - 2^21). change 0xF0000000 with (2^32 - 2^28).
  rewrite !himask_zero_b by (auto; lia).
  rewrite !grp0_spec, !grp_spec, !N.shiftr_div_pow2.
  change (2^32) with 4294967296 in Hx.
  change (2^7) with 128. change (2^14) with 16384. change (2^21) with 2097152. change (2^28) with 268435456.
  cbn [leb_fuel].
  destruct (N.ltb_spec x 128) as [L1|L1].
  { f_equal. lia. }
  assert (D1 : x / 128 / 128 = x / 16384) by lia.
  assert (D2 : x / 16384 / 128 = x / 2097152) by lia.
  assert (D3 : x / 2097152 / 128 = x / 268435456) by lia.
  destruct (N.ltb_spec x 16384) as [L2|L2].
  { assert ((x / 128 <? 128) = true) as -> by lia.
    rewrite lor2 by lia. apply be2_fields; lia. }
  assert ((x / 128 <? 128) = false) as -> by lia.
  rewrite D1.
  destruct (N.ltb_spec x 2097152) as [L3|L3].
  { assert ((x / 16384 <? 128) = true) as -> by lia.
    rewrite lor2 by lia. rewrite be2_fields by lia.
    cbn [app]. do 3 f_equal. lia. }
  assert ((x / 16384 <? 128) = false) as -> by lia.
  rewrite D2.
  destruct (N.ltb_spec x 268435456) as [L4|L4].
  { assert ((x / 2097152 <? 128) = true) as -> by lia.
    rewrite lor4 by lia. apply be4_fields; lia. }
  assert ((x / 2097152 <? 128) = false) as -> by lia.
  rewrite D3.
  assert ((x / 268435456 <? 128) = true) as -> by lia.
  rewrite lor4 by lia. rewrite be4_fields by lia.
  cbn [app]. do 5 f_equal. lia.
Qed.

Lemma lt_128_5 x : x < 2^32 -> x < 128 ^ N.of_nat 5.
Proof. change (2^32) with 4294967296. change (128 ^ N.of_nat 5) with 34359738368. lia. Qed.

Theorem write32_spec v : write32 v = leb128 (u32 v).
Proof.
  unfold write32. cbv zeta. rewrite (write32_leb_u (u32 v) (u32_lt v)).
  symmetry. apply leb128_fuel; [apply lt_128_5, u32_lt|lia].
Qed.

Lemma u32_nonneg v : (0 <= v < 2^31)%Z -> u32 v = Z.to_N v.
Proof. intros H. unfold u32, wrapu. change (2 ^ Z.of_N 32)%Z with 4294967296%Z.
  rewrite Z.mod_small; [reflexivity|]. change (2^31)%Z with 2147483648%Z in H. lia. Qed.
Lemma u32_neg v : (- 2^31 <= v < 0)%Z -> u32 v = Z.to_N (v + 2^32).
Proof. intros H. unfold u32, wrapu. change (2 ^ Z.of_N 32)%Z with 4294967296%Z.
  change (2^31)%Z with 2147483648%Z in H. change (2^32)%Z with 4294967296%Z.
  f_equal. symmetry. apply Z.mod_unique with (q := (-1)%Z); lia. Qed.

Lemma leb_fuel5_len x : x < 2^32 ->
  lenN (leb_fuel 5 x) =
  if x <? 128 then 1 else if x <? 16384 then 2 else if x <? 2097152 then 3
  else if x <? 268435456 then 4 else 5.
Proof.
  intros Hx. change (2^32) with 4294967296 in Hx. cbn [leb_fuel].
  destruct (N.ltb_spec x 128); [reflexivity|].
  destruct (N.ltb_spec x 16384).
  { assert ((x / 128 <? 128) = true) as -> by lia. reflexivity. }
  assert ((x / 128 <? 128) = false) as -> by lia.
  destruct (N.ltb_spec x 2097152).
  { assert ((x / 128 / 128 <? 128) = true) as -> by lia. reflexivity. }
  assert ((x / 128 / 128 <? 128) = false) as -> by lia.
  destruct (N.ltb_spec x 268435456).
  { assert ((x / 128 / 128 / 128 <? 128) = true) as -> by lia. reflexivity. }
  assert ((x / 128 / 128 / 128 <? 128) = false) as -> by lia.
  assert ((x / 128 / 128 / 128 / 128 <? 128) = true) as -> by lia. reflexivity.
Qed.

Theorem len32_spec v : in_sw 32 v -> len32 v = lenN (write32 v).
Proof.
  intros [Hlo Hhi]. change (Z.of_N 32 - 1)%Z with 31%Z in *.
  rewrite write32_spec, (leb128_fuel _ 5) by (try apply lt_128_5, u32_lt; lia).
  rewrite leb_fuel5_len by apply u32_lt.
  unfold len32. rewrite max_varint_len.
  change (2^7)%Z with 128%Z. change (2^14)%Z with 16384%Z. change (2^21)%Z with 2097152%Z.
  change (2^28)%Z with 268435456%Z.
  change (2^31)%Z with 2147483648%Z in *.
  destruct (Z.ltb_spec v 0) as [Hn|Hn].
  - rewrite u32_neg by (change (2^31)%Z with 2147483648%Z; lia). change (2^32)%Z with 4294967296%Z.
    repeat match goal with |- context [?a <? ?b] => destruct (N.ltb_spec a b); try lia end.
  - rewrite u32_nonneg by (change (2^31)%Z with 2147483648%Z; lia).
    repeat match goal with |- context [(?a <? ?b)%Z] => destruct (Z.ltb_spec a b) end;
    repeat match goal with |- context [?a <? ?b] => destruct (N.ltb_spec a b); try lia end.
Qed.

(* ---------- the 64-bit encoder ---------- *)

Lemma wloop_leb k : forall x,
  ((k = 0)%nat /\ x < 128) \/ ((0 < k)%nat /\ 128 ^ N.of_nat k <= x < 128 ^ N.of_nat (S k)) ->
  wloop k x = leb_fuel (S k) x.
Proof.
  induction k as [|k IH]; intros x H.
  - destruct H as [[_ H]|[H _]]; [|lia]. cbn [wloop leb_fuel].
    assert ((x <? 128) = true) as -> by lia. f_equal. lia.
  - destruct H as [[H _]|[_ [H1 H2]]]; [lia|].
    replace (N.of_nat (S (S k))) with (N.succ (N.succ (N.of_nat k))) in H2 by lia.
    replace (N.of_nat (S k)) with (N.succ (N.of_nat k)) in H1 by lia.
    rewrite !N.pow_succ_r' in H2. rewrite N.pow_succ_r' in H1.
    pose proof (pow128_pos (N.of_nat k)) as P.
    cbn [wloop]. change (leb_fuel (S (S k)) x) with
      (if x <? 128 then [x] else (x mod 128 + 128) :: leb_fuel (S k) (x / 128)).
    assert ((x <? 128) = false) as -> by lia.
    rewrite grp0_spec, N.shiftr_div_pow2. change (2^7) with 128. f_equal.
    apply IH. destruct k as [|k].
    + left. split; [reflexivity|]. change (128 ^ N.of_nat 0) with 1 in *. lia.
    + right. split; [lia|].
      replace (N.of_nat (S (S k))) with (N.succ (N.of_nat (S k))) by lia.
      rewrite N.pow_succ_r'.
      split.
      * apply N.div_le_lower_bound; [discriminate|lia].
      * apply N.div_lt_upper_bound; [discriminate|lia].
Qed.

Lemma u64_nonneg v : (0 <= v < 2^63)%Z -> u64 v = Z.to_N v.
Proof. intros H. unfold u64, wrapu. change (2 ^ Z.of_N 64)%Z with 18446744073709551616%Z.
  rewrite Z.mod_small; [reflexivity|]. change (2^63)%Z with 9223372036854775808%Z in H. lia. Qed.
Lemma u64_neg v : (- 2^63 <= v < 0)%Z -> u64 v = Z.to_N (v + 2^64).
Proof. intros H. unfold u64, wrapu. change (2 ^ Z.of_N 64)%Z with 18446744073709551616%Z.
  change (2^63)%Z with 9223372036854775808%Z in H. change (2^64)%Z with 18446744073709551616%Z.
  f_equal. symmetry. apply Z.mod_unique with (q := (-1)%Z); lia. Qed.

(* len64 picks exactly the k with 128^(k-1) <= u64 v < 128^k *)
Lemma len64_bounds v : in_sw 64 v ->
  let k := N.to_nat (len64 v) in
  (1 <= k <= 10)%nat /\
  (((k - 1 = 0)%nat /\ u64 v < 128) \/
   ((0 < k - 1)%nat /\ 128 ^ N.of_nat (k - 1) <= u64 v < 128 ^ N.of_nat (S (k - 1)))).
Proof.
  intros [Hlo Hhi]. change (Z.of_N 64 - 1)%Z with 63%Z in *. cbv zeta.
  unfold len64. rewrite max_varlong_len.
  change (2^7)%Z with 128%Z. change (2^14)%Z with 16384%Z. change (2^21)%Z with 2097152%Z.
  change (2^28)%Z with 268435456%Z. change (2^35)%Z with 34359738368%Z.
  change (2^42)%Z with 4398046511104%Z. change (2^49)%Z with 562949953421312%Z.
  change (2^56)%Z with 72057594037927936%Z.
  destruct (Z.ltb_spec v 0) as [Hn|Hn].
  - rewrite u64_neg by lia. change (2^64)%Z with 18446744073709551616%Z.
    change (2^63)%Z with 9223372036854775808%Z in *.
    change (N.to_nat (Z.to_N 10)) with 10%nat. cbn [Nat.sub].
    change (128 ^ N.of_nat 9) with 9223372036854775808.
    change (128 ^ N.of_nat 10) with 1180591620717411303424. lia.
  - rewrite u64_nonneg by lia. change (2^63)%Z with 9223372036854775808%Z in *.
    repeat match goal with |- context [(?a <? ?b)%Z] => destruct (Z.ltb_spec a b) end;
    match goal with |- context [N.to_nat ?c] => change (N.to_nat c) with (Pos.to_nat (match c with N.pos p => p | _ => 1%positive end)) end;
    cbn [Pos.to_nat Pos.iter_op Nat.add Nat.sub];
    repeat match goal with |- context [128 ^ N.of_nat ?n] =>
       let c := eval vm_compute in (128 ^ N.of_nat n) in change (128 ^ N.of_nat n) with c end;
    lia.
Qed.

Theorem write64_spec v : in_sw 64 v -> write64 v = leb128 (u64 v).
Proof.
  intros Hv. destruct (len64_bounds v Hv) as [Hk Hb]. cbv zeta in *.
  unfold write64. rewrite wloop_leb by exact Hb.
  symmetry. apply leb128_fuel; [|lia].
  destruct Hb as [[E L]|[_ [_ L]]]; [|exact L].
  rewrite E. change (128 ^ N.of_nat 1) with 128. exact L.
Qed.

Lemma wloop_length k x : length (wloop k x) = S k.
Proof. revert x; induction k; intros; cbn [wloop length]; auto. Qed.

Theorem len64_spec v : in_sw 64 v -> len64 v = lenN (write64 v).
Proof.
  intros Hv. destruct (len64_bounds v Hv) as [Hk _]. cbv zeta in *.
  unfold write64, lenN. rewrite wloop_length. lia.
Qed.

(* ---------- the decoders ---------- *)

(* reading the canonical encoding of x, generalised over the loop state *)
Lemma read_var_leb w cap : forall f fuel x acc num rest,
  (f <= fuel)%nat -> x < 128 ^ N.of_nat f -> (0 < f)%nat ->
  acc < 2 ^ (7 * num) -> acc + x * 2 ^ (7 * num) < 2 ^ w ->
  num + N.of_nat (length (leb_fuel f x)) <= cap ->
  run_flat (read_var w cap fuel acc num) (leb_fuel f x ++ rest)
  = FOk (acc + x * 2 ^ (7 * num), num + lenN (leb_fuel f x)) rest.
Proof.
  induction f as [|f IH]; intros fuel x acc num rest Hf Hx Hf0 Hacc Htot Hcap; [lia|].
  destruct fuel as [|fuel]; [lia|].
  cbn [leb_fuel] in *. cbn [read_var].
  pose proof (pow2_pos (7 * num)) as P.
  destruct (N.ltb_spec x 128) as [L|L].
  - cbn [length] in Hcap. assert ((cap <=? num) = false) as -> by lia.
    cbn [app run_flat].
    change 127 with (N.ones 7). rewrite N.land_ones. change (2^7) with 128.
    rewrite (N.mod_small x 128) by lia.
    rewrite N.shiftl_mul_pow2.
    rewrite (N.mod_small (x * 2 ^ (7 * num))) by lia.
    rewrite lor_add_disjoint by exact Hacc.
    change 128 with (2^7) at 1. rewrite <- (N.mul_1_l (2^7)) at 1.
    assert (E : N.land x (1 * 2^7) = 0) by (apply land_disjoint; change (2^7) with 128; exact L).
    rewrite E. cbn [N.eqb run_flat]. unfold lenN. cbn [length]. reflexivity.
  - cbn [length] in Hcap. assert ((cap <=? num) = false) as -> by lia.
    cbn [app run_flat].
    set (b := x mod 128 + 128).
    assert (Hb : N.land b 127 = x mod 128).
    { change 127 with (N.ones 7). rewrite N.land_ones. change (2^7) with 128. unfold b. lia. }
    rewrite Hb, N.shiftl_mul_pow2.
    assert (Hx2 : x = x mod 128 + 128 * (x / 128)) by lia.
    assert (Hm : x mod 128 * 2 ^ (7 * num) <= x * 2 ^ (7 * num)) by (apply N.mul_le_mono_r; lia).
    rewrite (N.mod_small (x mod 128 * 2 ^ (7 * num))) by lia.
    rewrite lor_add_disjoint by exact Hacc.
    assert (Hb8 : (N.land b 128 =? 0) = false).
    { unfold b. apply N.eqb_neq. intros E.
      assert (T : N.testbit (N.land (x mod 128 + 128) 128) 7 = false) by (rewrite E; apply N.bits_0).
      rewrite N.land_spec in T. change (N.testbit 128 7) with true in T. rewrite andb_true_r in T.
      change 128 with (1 * 2^7) in T at 2.
      rewrite <- lor_add_disjoint in T by (change (2^7) with 128; lia).
      rewrite N.lor_spec in T. change (N.testbit (1 * 2^7) 7) with true in T.
      rewrite orb_true_r in T. discriminate. }
    rewrite Hb8.
    destruct f as [|f]; [change (128 ^ N.of_nat 1) with 128 in Hx; lia|].
    assert (Hd : x / 128 < 128 ^ N.of_nat (S f)).
    { replace (N.of_nat (S (S f))) with (N.succ (N.of_nat (S f))) in Hx by lia.
      rewrite N.pow_succ_r' in Hx. apply N.div_lt_upper_bound; [discriminate|exact Hx]. }
    assert (E7 : 2 ^ (7 * (num + 1)) = 128 * 2 ^ (7 * num)).
    { replace (7 * (num + 1)) with (7 + 7 * num) by lia. rewrite N.pow_add_r. reflexivity. }
    assert (A1 : acc + x mod 128 * 2 ^ (7 * num) < 2 ^ (7 * (num + 1))) by (rewrite E7; nia).
    assert (A2 : acc + x mod 128 * 2 ^ (7 * num) + x / 128 * 2 ^ (7 * (num + 1)) < 2 ^ w)
      by (rewrite E7; nia).
    rewrite (IH fuel (x / 128) _ (num + 1) rest) by (first [exact A1 | exact A2 | exact Hd | lia]).
    f_equal. f_equal; [rewrite E7; nia|].
    rewrite lenN_cons. lia.
Qed.

Lemma read_var_robust w cap : forall fuel acc num, robust (read_var w cap fuel acc num).
Proof.
  induction fuel as [|n IHn]; intros acc num; cbn [read_var]; [constructor|].
  destruct (_ <=? num); constructor. intros b. destruct (_ =? 0); [constructor|apply IHn].
Qed.

Lemma read32_leb x rest : x < 2^32 ->
  run_flat read32 (leb128 x ++ rest) = FOk (sx32 x, lenN (leb128 x)) rest.
Proof.
  intros Hx. rewrite (leb128_fuel _ 5) by (try apply lt_128_5; auto; lia).
  unfold read32. rewrite run_flat_bind by apply read_var_robust.
  rewrite max_varint_len.
  pose proof (leb_fuel_length 5 x).
  rewrite (read_var_leb 32 _ 5 12 x 0 0 rest)
    by (first [lia | apply lt_128_5; auto | reflexivity | (change (2 ^ (7 * 0)) with 1; lia)
              | (change (Z.to_N 5) with 5; lia)]).
  cbn [run_flat]. change (2 ^ (7 * 0)) with 1.
  replace (0 + x * 1) with x by lia. rewrite N.add_0_l. reflexivity.
Qed.

Lemma lt_128_10 x : x < 2^64 -> x < 128 ^ N.of_nat 10.
Proof. change (2^64) with 18446744073709551616. change (128 ^ N.of_nat 10) with 1180591620717411303424. lia. Qed.

Lemma read64_leb x rest : x < 2^64 ->
  run_flat read64 (leb128 x ++ rest) = FOk (sx64 x, lenN (leb128 x)) rest.
Proof.
  intros Hx. rewrite (leb128_fuel _ 10) by (try apply lt_128_10; auto; lia).
  unfold read64. rewrite run_flat_bind by apply read_var_robust.
  rewrite max_varlong_len.
  pose proof (leb_fuel_length 10 x).
  rewrite (read_var_leb 64 _ 10 12 x 0 0 rest)
    by (first [lia | apply lt_128_10; auto | reflexivity | (change (2 ^ (7 * 0)) with 1; lia)
              | (change (Z.to_N 10) with 10; lia)]).
  cbn [run_flat]. change (2 ^ (7 * 0)) with 1.
  replace (0 + x * 1) with x by lia. rewrite N.add_0_l. reflexivity.
Qed.

Theorem read32_write32 v rest : in_sw 32 v ->
  run_flat read32 (write32 v ++ rest) = FOk (v, lenN (write32 v)) rest.
Proof.
  intros Hv. rewrite write32_spec, read32_leb by apply u32_lt.
  unfold sx32, u32. rewrite sx_wrapu by (auto; lia). reflexivity.
Qed.

Theorem read64_write64 v rest : in_sw 64 v ->
  run_flat read64 (write64 v ++ rest) = FOk (v, lenN (write64 v)) rest.
Proof.
  intros Hv. rewrite write64_spec, read64_leb by (auto; apply u64_lt).
  unfold sx64, u64. rewrite sx_wrapu by (auto; lia). reflexivity.
Qed.

(* ---------- the cap: never more than cap bytes, error on longer continuation runs ---------- *)

Lemma read_var_cap w cap : forall fuel acc num s,
  (N.to_nat (cap - num) < fuel)%nat ->
  match run_flat (read_var w cap fuel acc num) s with
  | FOk (_, n) rest => n <= cap /\ num <= n /\ lenN s = (n - num) + lenN rest
  | FErr _ => True
  | _ => False
  end.
Proof.
  induction fuel as [|fuel IH]; intros acc num s Hf; [lia|].
  cbn [read_var]. destruct (N.leb_spec cap num) as [L|L]; [exact I|].
  cbn [run_flat]. destruct s as [|b s]; [exact I|].
  destruct (_ =? 0).
  - cbn [run_flat]. rewrite lenN_cons. lia.
  - specialize (IH (N.lor acc (N.shiftl (N.land b 127) (7 * num) mod 2 ^ w)) (num + 1) s ltac:(lia)).
    destruct (run_flat _ s) as [[u n] rest| | |]; auto.
    rewrite lenN_cons. lia.
Qed.

(* a run of `cap` continuation bytes is rejected, whatever follows *)
Lemma read_var_long_run w cap : forall fuel acc num s t,
  (N.to_nat (cap - num) < fuel)%nat ->
  lenN s = cap - num -> Forall (fun b => N.land b 128 <> 0) s ->
  is_err (run_flat (read_var w cap fuel acc num) (s ++ t)) = true.
Proof.
  induction fuel as [|fuel IH]; intros acc num s t Hf Hl Hc; [lia|].
  cbn [read_var]. destruct (N.leb_spec cap num) as [L|L]; [reflexivity|].
  destruct s as [|b s]; [rewrite lenN_nil in Hl; lia|].
  inversion Hc as [|b' s' Hb Hs]; subst. cbn [app run_flat].
  apply N.eqb_neq in Hb. rewrite Hb. rewrite lenN_cons in Hl.
  apply IH; auto; lia.
Qed.

Lemma read32_cap s :
  match run_flat read32 s with
  | FOk (_, n) rest => n <= 5 /\ lenN s = n + lenN rest
  | FErr _ => True
  | _ => False
  end.
Proof.
  unfold read32. rewrite run_flat_bind by apply read_var_robust. rewrite max_varint_len.
  pose proof (read_var_cap 32 (Z.to_N 5) 12 0 0 s ltac:(change (Z.to_N 5) with 5; lia)) as H.
  destruct (run_flat _ s) as [[u n] rest| | |]; auto.
  cbn [run_flat]. change (Z.to_N 5) with 5 in H. lia.
Qed.

Lemma read64_cap s :
  match run_flat read64 s with
  | FOk (_, n) rest => n <= 10 /\ lenN s = n + lenN rest
  | FErr _ => True
  | _ => False
  end.
Proof.
  unfold read64. rewrite run_flat_bind by apply read_var_robust. rewrite max_varlong_len.
  pose proof (read_var_cap 64 (Z.to_N 10) 12 0 0 s ltac:(change (Z.to_N 10) with 10; lia)) as H.
  destruct (run_flat _ s) as [[u n] rest| | |]; auto.
  cbn [run_flat]. change (Z.to_N 10) with 10 in H. lia.
Qed.

Lemma read32_long_run s t : lenN s = 5 -> Forall (fun b => N.land b 128 <> 0) s ->
  is_err (run_flat read32 (s ++ t)) = true.
Proof.
  intros Hl Hc. unfold read32. rewrite run_flat_bind by apply read_var_robust. rewrite max_varint_len.
  pose proof (read_var_long_run 32 (Z.to_N 5) 12 0 0 s t
    ltac:(change (Z.to_N 5) with 5; lia) ltac:(change (Z.to_N 5) with 5; lia) Hc) as H.
  destruct (run_flat _ (s ++ t)); simpl in *; auto; discriminate.
Qed.

Lemma read64_long_run s t : lenN s = 10 -> Forall (fun b => N.land b 128 <> 0) s ->
  is_err (run_flat read64 (s ++ t)) = true.
Proof.
  intros Hl Hc. unfold read64. rewrite run_flat_bind by apply read_var_robust. rewrite max_varlong_len.
  pose proof (read_var_long_run 64 (Z.to_N 10) 12 0 0 s t
    ltac:(change (Z.to_N 10) with 10; lia) ltac:(change (Z.to_N 10) with 10; lia) Hc) as H.
  destruct (run_flat _ (s ++ t)); simpl in *; auto; discriminate.
Qed.

Lemma read32_robust : robust read32.
Proof. unfold read32. apply robust_bind; [apply read_var_robust|]. intros [u n]. constructor. Qed.
Lemma read64_robust : robust read64.
Proof. unfold read64. apply robust_bind; [apply read_var_robust|]. intros [u n]. constructor. Qed.
