(* C05 x C06: the translated String / ByteArray / BitSet readers of Gen/C06gen.v take VarInt.ReadFrom as a
   PARAMETER (C06's tie lemmas instantiate it with the hand-written model read32).  Here the parameter is
   instantiated with the TRANSLATION of VarInt.ReadFrom (Gen/C05gen.v, tools/gotrans/c05.go), for both outcomes
   of the type assertion r.(io.ByteReader): the fully translated readers run exactly like the C06 model readers.
   Nothing of Proofs/C06_*.v is changed; its lemmas are used as they are. *)
From Coq Require Import List Arith NArith ZArith Lia Bool.
From GoMC Require Import Base.Bytes Base.Dec Base.GoInt Gen.C05gen Gen.C06gen
  Model.C05 Model.C06 Model.C06_syntax Proofs.C05 Proofs.C05_tie_r Proofs.C06_tie_r.
Import ListNotations.
Local Open Scope Z_scope.

(* two robust decoders that run alike can be exchanged in front of any continuation *)
Lemma bind_cong {A B} (d1 d2 : dec A) (k : A -> dec B) : robust d1 -> robust d2 ->
  (forall s, run_flat d1 s = run_flat d2 s) -> forall s, run_flat (bind d1 k) s = run_flat (bind d2 k) s.
Proof. intros R1 R2 H s. rewrite !run_flat_bind by assumption. rewrite H. reflexivity. Qed.

(* the translated VarInt.ReadFrom runs like the instance C06's tie lemmas use *)
Lemma gen_varint_rd br s : run_flat (C05gen.packet_VarInt_ReadFrom_io br) s = run_flat varint_rd s.
Proof.
  rewrite tie_VarInt_ReadFrom, run_varint_rd.
  destruct (run_flat read32 s) as [[l n] rest| | |]; reflexivity.
Qed.

Theorem inst_String_read br s : all_bytes s ->
  C06_tie_r.fmapr inj_bytes (run_flat (C06gen.packet_String_ReadFrom_io (C05gen.packet_VarInt_ReadFrom_io br)) s)
  = run_flat r_string s.
Proof.
  intros Hs. rewrite <- (tie_String_read s Hs). f_equal.
  unfold C06gen.packet_String_ReadFrom_io. cbv zeta.
  apply bind_cong; [apply robust_VarInt_ReadFrom|apply robust_varint_rd|apply gen_varint_rd].
Qed.

Theorem inst_ByteArray_read br bs0 sp0 s : all_bytes s ->
  C06_tie_r.fmapr inj_slice
    (run_flat (C06gen.packet_ByteArray_ReadFrom_io (C05gen.packet_VarInt_ReadFrom_io br) (map Z.of_N bs0) (map Z.of_N sp0)) s)
  = run_flat (r_bytearray (VBytes bs0 sp0)) s.
Proof.
  intros Hs. rewrite <- (tie_ByteArray_read bs0 sp0 s Hs). f_equal.
  unfold C06gen.packet_ByteArray_ReadFrom_io. cbv zeta.
  apply bind_cong; [apply robust_VarInt_ReadFrom|apply robust_varint_rd|apply gen_varint_rd].
Qed.

Theorem inst_BitSet_read br fuel old (b sp : list Z) s : all_bytes s ->
  (forall l n rest, run_flat read32 s = FOk (l, n) rest -> (Z.to_nat l <= fuel)%nat) ->
  C06_tie_r.fmapr inj_bitset
    (run_flat (C06gen.packet_BitSet_ReadFrom_io (C05gen.packet_VarInt_ReadFrom_io br) b sp) s)
  = run_flat (r_bitset fuel old) s.
Proof.
  intros Hs Hf. rewrite <- (tie_BitSet_read fuel old b sp s Hs Hf). f_equal.
  unfold C06gen.packet_BitSet_ReadFrom_io. cbv zeta.
  apply bind_cong; [apply robust_VarInt_ReadFrom|apply robust_varint_rd|apply gen_varint_rd].
Qed.

(* readByte, the byte source of C06's Boolean / Byte / UnsignedByte / Angle readers (which c06.go renders as the
   ReadByte effect): its translation is that effect, with the count 1, on both paths *)
Theorem inst_readByte br s :
  run_flat (C05gen.packet_readByte_io br) s = run_flat (ReadByte (fun c => Ret (1, byte_in c))) s.
Proof. exact (tie_readByte br s). Qed.
