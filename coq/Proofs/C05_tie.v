(* Tie lemmas (C05): the definitions that tools/gotrans TRANSLATES from the Go source on every run
   (coq/Gen/Funcs.v) agree with the hand-written model the property theorems are about. A source edit of one
   of these functions changes Gen/Funcs.v; these lemmas are then re-checked. *)
From Coq Require Import List Arith NArith ZArith Lia Bool ZifyN ZifyNat ZifyBool.
From GoMC Require Import Base.Bytes Base.Bits Base.GoInt Gen.Consts Gen.Funcs.
From GoMC Require Model.C05.
Import ListNotations.
Ltac Zify.zify_post_hook ::= Z.div_mod_to_equations.
Local Open Scope Z_scope.

(* C05: VarInt.Len / VarLong.Len *)
Lemma tie_VarInt_Len v : packet_VarInt_Len v = Z.of_N (C05.len32 v).
Proof.
  unfold packet_VarInt_Len, C05.len32. change (Z.to_N packet_MaxVarIntLen) with 5%N.
  change (2 ^ 7) with 128. change (2 ^ 14) with 16384. change (2 ^ 21) with 2097152. change (2 ^ 28) with 268435456.
  repeat match goal with |- context [if ?c then _ else _] => destruct c end; reflexivity.
Qed.

Lemma tie_VarLong_Len v : packet_VarLong_Len v = Z.of_N (C05.len64 v).
Proof.
  unfold packet_VarLong_Len, C05.len64. change (Z.to_N packet_MaxVarLongLen) with 10%N.
  change (2 ^ 7) with 128. change (2 ^ 14) with 16384. change (2 ^ 21) with 2097152. change (2 ^ 28) with 268435456.
  change (2 ^ 35) with 34359738368. change (2 ^ 42) with 4398046511104. change (2 ^ 49) with 562949953421312.
  change (2 ^ 56) with 72057594037927936.
  repeat match goal with |- context [if ?c then _ else _] => destruct c end; reflexivity.
Qed.


(* ------------------------------------------------------------------ C05: VarInt.WriteToBytes, the whole encoder *)
(* Gen/Funcs.v returns the number of bytes and the LOG of writes into buf; replayed on a 5-byte buffer the
   first n bytes are exactly the model's write32, for every value (the model normalises with u32 itself). *)
Ltac z_lits := repeat match goal with |- context [Zpos ?p] => change (Zpos p) with (Z.of_N (Npos p)) end;
               change Z0 with (Z.of_N 0%N).
Ltac z_to_n := repeat (progress rewrite ?zn_land, ?zn_lor, ?zn_shiftl, ?zn_shiftr, ?zn_wrap_u, ?zn_eqb).
Ltac nat_idx := change (Z.to_nat (Z.of_N 0)) with 0%nat; change (Z.to_nat (Z.of_N 1)) with 1%nat;
  change (Z.to_nat (Z.of_N 2)) with 2%nat; change (Z.to_nat (Z.of_N 3)) with 3%nat;
  change (Z.to_nat (Z.of_N 4)) with 4%nat; change (Z.to_nat (Z.of_N 5)) with 5%nat.

Lemma shr_byte (x k : N) : ((N.shiftr x (8 * k)) mod 2 ^ 8 = (x / 256 ^ k) mod 256)%N.
Proof. rewrite N.shiftr_div_pow2. rewrite N.pow_mul_r. reflexivity. Qed.

Lemma g_lt y : (N.lor (N.land y 127) 128 < 256)%N.
Proof. rewrite grp0_spec. pose proof (N.mod_lt y 128 ltac:(lia)). lia. Qed.
Lemma shl_small a k : (a < 256 -> k <= 24 -> (N.shiftl a k) mod 2 ^ 32 = N.shiftl a k)%N.
Proof.
  intros Ha Hk. apply N.mod_small. rewrite N.shiftl_mul_pow2.
  assert (2 ^ k <= 2 ^ 24)%N by (apply N.pow_le_mono_r; lia).
  change (2 ^ 32)%N with (256 * 2 ^ 24)%N. nia.
Qed.

Ltac pow_lits := change (2 ^ 8)%N with 256%N; change (2 ^ 16)%N with 65536%N; change (2 ^ 24)%N with 16777216%N;
  change (2 ^ 32)%N with 4294967296%N; change (2 ^ 0)%N with 1%N.
Ltac bytes_eq :=
  repeat match goal with
         | |- _ :: _ = _ :: _ => f_equal
         | |- Z.of_N _ = Z.of_N _ => apply (f_equal Z.of_N)
         end;
  try reflexivity; rewrite ?N.shiftr_div_pow2; pow_lits; lia.

Lemma tie_VarInt_WriteToBytes v :
  let '(n, ws) := packet_VarInt_WriteToBytes v in
  n = Z.of_N (lenN (C05.write32 v)) /\
  firstn (Z.to_nat n) (apply_writes ws (repeat 0 5)) = map Z.of_N (C05.write32 v).
Proof.
  unfold packet_VarInt_WriteToBytes, C05.write32. cbv zeta.
  rewrite (wrap_u_as_N 32 v) by lia. change (Z.to_N (v mod 2 ^ 32)) with (u32 v).
  set (num := u32 v). clearbody num.
  z_lits. z_to_n. unfold grp.
  rewrite !shl_small by (first [apply g_lt | lia]).
  destruct (N.land num 4294967168 =? 0)%N.
  { split; [reflexivity|]. unfold apply_writes. cbn [app fold_left fst snd]. nat_idx. cbn [repeat set_nth firstn map].
    bytes_eq. }
  destruct (N.land num 4294950912 =? 0)%N.
  { rewrite be2_eq. split; [reflexivity|]. unfold apply_writes. cbn [app fold_left fst snd]. nat_idx. cbn [repeat set_nth firstn map].
    bytes_eq. }
  destruct (N.land num 4292870144 =? 0)%N.
  { rewrite be2_eq. split; [reflexivity|]. unfold apply_writes. cbn [app fold_left fst snd]. nat_idx. cbn [repeat set_nth firstn map app].
    bytes_eq. }
  destruct (N.land num 4026531840 =? 0)%N.
  { rewrite be4_eq. split; [reflexivity|]. unfold apply_writes. cbn [app fold_left fst snd]. nat_idx. cbn [repeat set_nth firstn map].
    bytes_eq. }
  rewrite be4_eq. split; [reflexivity|]. unfold apply_writes. cbn [app fold_left fst snd]. nat_idx. cbn [repeat set_nth firstn map app].
  bytes_eq.
Qed.

(* ------------------------------------------------------------------ C05: VarLong.WriteToBytes (counted loop) *)
Section VarLongEnc.
Local Arguments N.land : simpl never.
Local Arguments N.lor : simpl never.
Local Arguments N.shiftr : simpl never.
Local Arguments N.shiftl : simpl never.
Local Arguments N.modulo : simpl never.
Local Arguments Z.land : simpl never.
Local Arguments Z.lor : simpl never.
Local Arguments Z.shiftr : simpl never.
Local Arguments Z.modulo : simpl never.
Local Arguments Z.of_N : simpl never.
Local Arguments wrap_u : simpl never.
Local Arguments u64 : simpl never.

Ltac nat_idx10 := nat_idx; change (Z.to_nat (Z.of_N 6)) with 6%nat; change (Z.to_nat (Z.of_N 7)) with 7%nat;
  change (Z.to_nat (Z.of_N 8)) with 8%nat; change (Z.to_nat (Z.of_N 9)) with 9%nat; change (Z.to_nat (Z.of_N 10)) with 10%nat.

Lemma g_mod y : ((N.lor (N.land y 127) 128) mod 2 ^ 8 = N.lor (N.land y 127) 128)%N.
Proof. apply N.mod_small. apply g_lt. Qed.

Lemma tie_VarLong_WriteToBytes v :
  let '(n, ws) := packet_VarLong_WriteToBytes v in
  n = Z.of_N (C05.len64 v) /\
  firstn (Z.to_nat n) (apply_writes ws (repeat 0 10)) = map Z.of_N (C05.write64 v).
Proof.
  unfold packet_VarLong_WriteToBytes, C05.write64. rewrite tie_VarLong_Len. unfold C05.len64.
  change (Z.to_N packet_MaxVarLongLen) with 10%N.
  rewrite (wrap_u_as_N 64 v) by lia. change (Z.to_N (v mod 2 ^ 64)) with (u64 v).
  set (num := u64 v). clearbody num.
  repeat match goal with |- context [if (v <? ?c) then _ else _] => destruct (v <? c) end.
  all: cbn; split; [reflexivity|].
  all: z_lits; z_to_n; rewrite ?g_mod.
  all: unfold apply_writes; cbn [app fold_left fst snd]; nat_idx10; cbn [repeat set_nth firstn map].
  all: change (2 ^ 8)%N with 256%N; reflexivity.
Qed.
End VarLongEnc.
