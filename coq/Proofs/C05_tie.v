(* Tie lemmas (C05): the definitions that tools/gotrans TRANSLATES from the Go source on every run
   (coq/Gen/Funcs.v) agree with the hand-written model the property theorems are about. A source edit of one
   of these functions changes Gen/Funcs.v; these lemmas are then re-checked. *)
From Coq Require Import List Arith NArith ZArith Lia Bool ZifyN ZifyNat ZifyBool.
From GoMC Require Import Base.Bytes Base.Bits Base.GoInt Gen.Consts Gen.Funcs.
From GoMC Require Model.C05.
Import ListNotations.
Ltac Zify.zify_post_hook ::= Z.div_mod_to_equations.
Local Open Scope Z_scope.

(* C05: VarInt.Len / VarLong.Len *)
Lemma tie_VarInt_Len v : packet_VarInt_Len v = Z.of_N (C05.len32 v).
Proof.
  unfold packet_VarInt_Len, C05.len32. change (Z.to_N packet_MaxVarIntLen) with 5%N.
  change (2 ^ 7) with 128. change (2 ^ 14) with 16384. change (2 ^ 21) with 2097152. change (2 ^ 28) with 268435456.
  repeat match goal with |- context [if ?c then _ else _] => destruct c end; reflexivity.
Qed.

Lemma tie_VarLong_Len v : packet_VarLong_Len v = Z.of_N (C05.len64 v).
Proof.
  unfold packet_VarLong_Len, C05.len64. change (Z.to_N packet_MaxVarLongLen) with 10%N.
  change (2 ^ 7) with 128. change (2 ^ 14) with 16384. change (2 ^ 21) with 2097152. change (2 ^ 28) with 268435456.
  change (2 ^ 35) with 34359738368. change (2 ^ 42) with 4398046511104. change (2 ^ 49) with 562949953421312.
  change (2 ^ 56) with 72057594037927936.
  repeat match goal with |- context [if ?c then _ else _] => destruct c end; reflexivity.
Qed.

