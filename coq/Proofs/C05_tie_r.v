(* Tie lemmas (C05), the io layer: VarInt.ReadFrom, VarLong.ReadFrom, readByte, CreateByteReader,
   byteReaderWrapper.ReadByte, VarInt.WriteTo and VarLong.WriteTo of net/packet as tools/gotrans/c05.go TRANSLATES
   them on every run (coq/Gen/C05gen.v) behave exactly like the hand-written model (Model/C05.v: read32, read64,
   write32, write64, len32, len64): for EVERY input (any list of N, bytes or not), for both outcomes of the type
   assertion r.(io.ByteReader), same outcome class, same error class, same value, same count, same rest.  In
   particular the fuel the translator hands to the loops is never exhausted.  A source edit of one of these
   functions changes Gen/C05gen.v; these lemmas are then re-checked. *)
From Coq Require Import List Arith NArith ZArith Lia Bool ZifyN ZifyNat ZifyBool.
From GoMC Require Import Base.Bytes Base.Bits Base.Dec Base.GoInt Gen.Consts Gen.Funcs Gen.C05gen
  Model.C05 Model.C05_syntax Proofs.C05 Proofs.C05_tie.
Import ListNotations.
Ltac Zify.zify_post_hook ::= Z.div_mod_to_equations.
Local Open Scope Z_scope.

Definition fmapr {A B} (f : A -> B) (r : fres A) : fres B :=
  match r with FOk a rest => FOk (f a) rest | FErr e => FErr e | FPanic w => FPanic w | FFuel => FFuel end.

(* the translated readers report the count as an int64 (Z), the model as an N *)
Definition cnt_z (p : Z * N) : Z * Z := (fst p, Z.of_N (snd p)).

(* ------------------------------------------------------------------ the byte source *)
(* both implementations of io.ByteReader that CreateByteReader can hand out - the reader itself, or the wrapper
   whose ReadByte is io.ReadFull of one byte - deliver the next byte or fail with EOF *)
Lemma run_wrapper_bind {A} (k : Z -> dec A) s :
  run_flat (bind packet_byteReaderWrapper_ReadByte_io k) s =
  match s with [] => FErr eEOF | b :: s' => run_flat (k (gbyte b)) s' end.
Proof.
  unfold packet_byteReaderWrapper_ReadByte_io. cbv zeta. cbn [bind run_flat].
  change (Z.to_N 1) with 1%N. destruct s as [|b s'].
  - reflexivity.
  - rewrite lenN_cons. destruct (N.leb_spec 1 (1 + lenN s')) as [_|L]; [|lia].
    change (takeN 1 (b :: s')) with [b]. change (dropN 1 (b :: s')) with s'. reflexivity.
Qed.

Lemma run_byte_source_bind {A} br (k : Z -> dec A) s :
  run_flat (bind (packet_CreateByteReader_io br) k) s =
  match s with [] => FErr eEOF | b :: s' => run_flat (k (gbyte b)) s' end.
Proof.
  unfold packet_CreateByteReader_io. destruct br.
  - cbn [bind run_flat]. destruct s; reflexivity.
  - apply run_wrapper_bind.
Qed.

Lemma bind_ret_r {A} (d : dec A) : forall s, run_flat (bind d (fun a => Ret a)) s = run_flat d s.
Proof.
  induction d as [a|e|w| |k IH|n k IH|n k IH]; intros s; cbn [bind run_flat]; try reflexivity.
  - destruct s; [reflexivity|apply IH].
  - destruct (n <=? lenN s)%N; [apply IH|reflexivity].
  - destruct (n <=? lenN s)%N; [apply IH|]. destruct s; [destruct (n =? 0)%N; [apply IH|reflexivity]|apply IH].
Qed.

Lemma tie_byte_source br s :
  run_flat (packet_CreateByteReader_io br) s = run_flat (ReadByte (fun b => Ret (gbyte b))) s.
Proof.
  rewrite <- (bind_ret_r (packet_CreateByteReader_io br)). rewrite run_byte_source_bind. destruct s; reflexivity.
Qed.

Lemma robust_wrapper : robust packet_byteReaderWrapper_ReadByte_io.
Proof. unfold packet_byteReaderWrapper_ReadByte_io, gret. constructor. intros bs. constructor. Qed.
Lemma robust_byte_source br : robust (packet_CreateByteReader_io br).
Proof.
  unfold packet_CreateByteReader_io. destruct br; [|apply robust_wrapper].
  constructor. intros b. constructor.
Qed.

(* readByte (the helper of Boolean / Byte / UnsignedByte): fast path and one-byte io.ReadFull fallback agree *)
Lemma tie_readByte br s :
  run_flat (packet_readByte_io br) s = run_flat (ReadByte (fun b => Ret (1, gbyte b))) s.
Proof.
  unfold packet_readByte_io. destruct br.
  - reflexivity.
  - cbv zeta. cbn [run_flat]. change (Z.to_N 1) with 1%N. destruct s as [|b s'].
    + reflexivity.
    + rewrite lenN_cons. destruct (N.leb_spec 1 (1 + lenN s')) as [_|L]; [|lia].
      change (takeN 1 (b :: s')) with [b]. change (dropN 1 (b :: s')) with s'. reflexivity.
Qed.
Lemma robust_readByte br : robust (packet_readByte_io br).
Proof.
  unfold packet_readByte_io, gret. destruct br; constructor; intros; constructor.
Qed.

(* ------------------------------------------------------------------ arithmetic of one loop iteration *)
Lemma land_mod256 b m : (m < 256)%N -> N.land (b mod 256) m = N.land b m.
Proof.
  intros Hm. change 256%N with (2 ^ 8)%N. rewrite <- N.land_ones, <- N.land_assoc. f_equal.
  change (N.ones 8) with 255%N. apply N.bits_inj. intros i. rewrite N.land_spec.
  destruct (N.ltb_spec i 8) as [L|L].
  - replace (N.testbit 255 i) with true; [reflexivity|].
    change 255%N with (N.ones 8). symmetry. apply N.ones_spec_low. exact L.
  - replace (N.testbit m i) with false; [apply andb_false_r|].
    symmetry. destruct (N.eq_dec m 0) as [->|Nz]; [apply N.bits_0|].
    apply N.bits_above_log2. assert (N.log2 m < 8)%N; [|lia].
    apply N.log2_lt_pow2; [lia|exact Hm].
Qed.

Lemma lor_lt a b w : (a < 2 ^ w -> b < 2 ^ w -> N.lor a b < 2 ^ w)%N.
Proof.
  intros Ha Hb. destruct (N.eq_dec (N.lor a b) 0) as [E|E]; [rewrite E; apply N.neq_0_lt_0, N.pow_nonzero; lia|].
  apply N.log2_lt_pow2; [lia|]. rewrite N.log2_lor.
  assert (W : (0 < w)%N).
  { destruct (N.eq_dec w 0) as [->|]; [|lia]. change (2 ^ 0)%N with 1%N in *.
    assert (a = 0%N) by lia. assert (b = 0%N) by lia. subst. cbn in E. congruence. }
  apply N.max_lub_lt.
  - destruct (N.eq_dec a 0) as [->|Na]; [cbn; exact W|]. apply N.log2_lt_pow2; [lia|exact Ha].
  - destruct (N.eq_dec b 0) as [->|Nb]; [cbn; exact W|]. apply N.log2_lt_pow2; [lia|exact Hb].
Qed.

Lemma land127_lt b : (N.land b 127 < 128)%N.
Proof. change 127%N with (N.ones 7). rewrite N.land_ones. apply N.mod_lt. discriminate. Qed.

(* sec & 0x80 != 0 on the byte delivered = the model's continuation test on the raw input element *)
Lemma cont_test b : negb (Z.land (gbyte b) 128 =? 0) = negb (N.land b 128 =? 0)%N.
Proof.
  unfold gbyte. change 128 with (Z.of_N 128). change 0 with (Z.of_N 0).
  rewrite zn_land, zn_eqb, land_mod256 by reflexivity. reflexivity.
Qed.

(* V |= uintW(sec&0x7F) << uintW(7*num) for W = 32, 64 and num <= 10 *)
Lemma acc_step (w : N) acc num b : (w = 32 \/ w = 64)%N -> (num <= 10)%N ->
  Z.lor (Z.of_N acc)
    (wrap_u (Z.of_N w) (Z.shiftl (wrap_u (Z.of_N w) (Z.land (gbyte b) 127))
                                 (wrap_u (Z.of_N w) (wrap_s 64 (7 * Z.of_N num)))))
  = Z.of_N (N.lor acc ((N.shiftl (N.land b 127) (7 * num)) mod 2 ^ w)).
Proof.
  intros Hw Hn. unfold gbyte. change 127 with (Z.of_N 127).
  rewrite zn_land, land_mod256 by reflexivity.
  pose proof (land127_lt b) as L.
  assert (P : (2 ^ 32 <= 2 ^ w)%N) by (destruct Hw as [-> | ->]; [lia|change (2 ^ 32)%N with 4294967296%N; change (2 ^ 64)%N with 18446744073709551616%N; lia]).
  change (2 ^ 32)%N with 4294967296%N in P.
  rewrite zn_wrap_u. rewrite (N.mod_small (N.land b 127)) by lia.
  rewrite (wrap_s_id 64 (7 * Z.of_N num)) by (change (2 ^ (64 - 1)) with 9223372036854775808; lia).
  replace (7 * Z.of_N num) with (Z.of_N (7 * num)) by lia.
  rewrite zn_wrap_u. rewrite (N.mod_small (7 * num)) by lia.
  rewrite zn_shiftl, zn_wrap_u, zn_lor. reflexivity.
Qed.

Lemma sx_wrap_s (w : N) u : (w = 32 \/ w = 64)%N -> (u < 2 ^ w)%N -> wrap_s (Z.of_N w) (Z.of_N u) = sx w u.
Proof.
  intros Hw Hu. unfold sx, wrap_s.
  destruct Hw as [-> | ->].
  - change (2 ^ (32 - 1))%N with 2147483648%N. change (2 ^ 32)%N with 4294967296%N in Hu.
    change (Z.of_N 32) with 32. change (2 ^ (32 - 1)) with 2147483648. change (2 ^ 32) with 4294967296.
    destruct (N.ltb_spec u 2147483648); lia.
  - change (2 ^ (64 - 1))%N with 9223372036854775808%N. change (2 ^ 64)%N with 18446744073709551616%N in Hu.
    change (Z.of_N 64) with 64. change (2 ^ (64 - 1)) with 9223372036854775808. change (2 ^ 64) with 18446744073709551616.
    destruct (N.ltb_spec u 9223372036854775808); lia.
Qed.

Lemma inc64 num : (num <= 10)%N -> wrap_s 64 (Z.of_N num + 1) = Z.of_N (num + 1).
Proof. intros H. rewrite wrap_s_id by (change (2 ^ (64 - 1)) with 9223372036854775808; lia). lia. Qed.

(* ------------------------------------------------------------------ the loops *)
(* state of the Go loop at its head after `num` bytes: V = acc, n = num, err = nil, sec has its top bit set;
   k = cap - num iterations can still read *)
Lemma tie_VarInt_loop br : forall k fuel f acc num sec s,
  N.to_nat (5 - num) = k -> (num <= 5)%N -> (acc < 2 ^ 32)%N -> (k < fuel)%nat -> (k < f)%nat ->
  negb (Z.land sec 128 =? 0) = true ->
  run_flat (packet_VarInt_ReadFrom_io_loop1 fuel (packet_CreateByteReader_io br)
              (Z.of_N acc) 0%N (Z.of_N num) (Z.of_N num) sec) s
  = fmapr (fun p : N * N => (sx32 (fst p), Z.of_N (snd p))) (run_flat (read_var 32 5 f acc num) s).
Proof.
  induction k as [|k IH]; intros fuel f acc num sec s Hk Hn Ha Hfu Hf Hs.
  - destruct fuel as [|fuel]; [lia|]. destruct f as [|f]; [lia|].
    cbn [packet_VarInt_ReadFrom_io_loop1 read_var]. rewrite Hs.
    assert (num = 5%N) by lia. subst num. reflexivity.
  - destruct fuel as [|fuel]; [lia|]. destruct f as [|f]; [lia|].
    cbn [packet_VarInt_ReadFrom_io_loop1 read_var]. rewrite Hs.
    destruct (Z.leb_spec 5 (Z.of_N num)) as [L|L]; [lia|].
    destruct (N.leb_spec 5 num) as [L'|_]; [lia|].
    rewrite run_byte_source_bind. cbn [run_flat]. destruct s as [|b s]; [reflexivity|].
    cbv zeta. change 32 with (Z.of_N 32) at 1 2 3.
    rewrite (acc_step 32 acc num b) by lia. rewrite (inc64 num) by lia.
    set (acc' := N.lor acc (N.shiftl (N.land b 127) (7 * num) mod 2 ^ 32)).
    assert (Ha' : (acc' < 2 ^ 32)%N).
    { apply lor_lt; [exact Ha|]. apply N.mod_lt. discriminate. }
    destruct (N.land b 128 =? 0)%N eqn:Eb.
    + (* last byte: the Go loop tests its condition once more and leaves *)
      destruct fuel as [|fuel]; [lia|]. cbn [packet_VarInt_ReadFrom_io_loop1].
      rewrite cont_test, Eb. cbn [negb]. unfold gret. cbn [N.eqb run_flat fmapr fst snd].
      change 32 with (Z.of_N 32). rewrite (sx_wrap_s 32 acc') by (auto; lia). reflexivity.
    + apply IH; try lia; try assumption. rewrite cont_test, Eb. reflexivity.
Qed.

Lemma tie_VarLong_loop br : forall k fuel f acc num sec s,
  N.to_nat (10 - num) = k -> (num <= 10)%N -> (acc < 2 ^ 64)%N -> (k < fuel)%nat -> (k < f)%nat ->
  negb (Z.land sec 128 =? 0) = true ->
  run_flat (packet_VarLong_ReadFrom_io_loop1 fuel (packet_CreateByteReader_io br)
              (Z.of_N acc) 0%N (Z.of_N num) (Z.of_N num) sec) s
  = fmapr (fun p : N * N => (sx64 (fst p), Z.of_N (snd p))) (run_flat (read_var 64 10 f acc num) s).
Proof.
  induction k as [|k IH]; intros fuel f acc num sec s Hk Hn Ha Hfu Hf Hs.
  - destruct fuel as [|fuel]; [lia|]. destruct f as [|f]; [lia|].
    cbn [packet_VarLong_ReadFrom_io_loop1 read_var]. rewrite Hs.
    assert (num = 10%N) by lia. subst num. reflexivity.
  - destruct fuel as [|fuel]; [lia|]. destruct f as [|f]; [lia|].
    cbn [packet_VarLong_ReadFrom_io_loop1 read_var]. rewrite Hs.
    destruct (Z.leb_spec 10 (Z.of_N num)) as [L|L]; [lia|].
    destruct (N.leb_spec 10 num) as [L'|_]; [lia|].
    rewrite run_byte_source_bind. cbn [run_flat]. destruct s as [|b s]; [reflexivity|].
    cbv zeta. change 64 with (Z.of_N 64) at 1 2 3.
    rewrite (acc_step 64 acc num b) by lia. rewrite (inc64 num) by lia.
    set (acc' := N.lor acc (N.shiftl (N.land b 127) (7 * num) mod 2 ^ 64)).
    assert (Ha' : (acc' < 2 ^ 64)%N).
    { apply lor_lt; [exact Ha|]. apply N.mod_lt. discriminate. }
    destruct (N.land b 128 =? 0)%N eqn:Eb.
    + destruct fuel as [|fuel]; [lia|]. cbn [packet_VarLong_ReadFrom_io_loop1].
      rewrite cont_test, Eb. cbn [negb]. unfold gret. cbn [N.eqb run_flat fmapr fst snd].
      change 64 with (Z.of_N 64). rewrite (sx_wrap_s 64 acc') by (auto; lia). reflexivity.
    + apply IH; try lia; try assumption. rewrite cont_test, Eb. reflexivity.
Qed.

(* ------------------------------------------------------------------ VarInt.ReadFrom / VarLong.ReadFrom *)
Lemma run_read32 s : run_flat read32 s =
  fmapr (fun p : N * N => (sx32 (fst p), snd p)) (run_flat (read_var 32 5 12 0 0) s).
Proof.
  unfold read32. change (Z.to_N packet_MaxVarIntLen) with 5%N. rewrite run_flat_bind by apply read_var_robust.
  destruct (run_flat (read_var 32 5 12 0 0) s) as [[u n] r| | |]; reflexivity.
Qed.
Lemma run_read64 s : run_flat read64 s =
  fmapr (fun p : N * N => (sx64 (fst p), snd p)) (run_flat (read_var 64 10 12 0 0) s).
Proof.
  unfold read64. change (Z.to_N packet_MaxVarLongLen) with 10%N. rewrite run_flat_bind by apply read_var_robust.
  destruct (run_flat (read_var 64 10 12 0 0) s) as [[u n] r| | |]; reflexivity.
Qed.

Theorem tie_VarInt_ReadFrom br s :
  run_flat (packet_VarInt_ReadFrom_io br) s = fmapr cnt_z (run_flat read32 s).
Proof.
  unfold packet_VarInt_ReadFrom_io. cbv zeta. rewrite run_read32.
  change (Z.to_nat (5 - 0 + 1)) with 6%nat.
  assert (H := tie_VarInt_loop br 5 6 12 0%N 0%N 128 s eq_refl ltac:(lia) eq_refl ltac:(lia) ltac:(lia) eq_refl).
  change (Z.of_N 0) with 0 in H. rewrite H.
  destruct (run_flat (read_var 32 5 12 0 0) s) as [[u n] r| | |]; reflexivity.
Qed.

Theorem tie_VarLong_ReadFrom br s :
  run_flat (packet_VarLong_ReadFrom_io br) s = fmapr cnt_z (run_flat read64 s).
Proof.
  unfold packet_VarLong_ReadFrom_io. cbv zeta. rewrite run_read64.
  change (Z.to_nat (10 - 0 + 1)) with 11%nat.
  assert (H := tie_VarLong_loop br 10 11 12 0%N 0%N 128 s eq_refl ltac:(lia) eq_refl ltac:(lia) ltac:(lia) eq_refl).
  change (Z.of_N 0) with 0 in H. rewrite H.
  destruct (run_flat (read_var 64 10 12 0 0) s) as [[u n] r| | |]; reflexivity.
Qed.

(* the translated readers never issue a bare Read: fragmentation-proof (C09) whatever the fuel *)
Lemma robust_VarInt_loop br : forall fuel V e n num sec,
  robust (packet_VarInt_ReadFrom_io_loop1 fuel (packet_CreateByteReader_io br) V e n num sec).
Proof.
  induction fuel as [|fuel IH]; intros; cbn [packet_VarInt_ReadFrom_io_loop1]; [constructor|].
  destruct (negb _).
  - destruct (5 <=? num); [constructor|]. apply robust_bind; [apply robust_byte_source|]. intros a. apply IH.
  - unfold gret. destruct (e =? 0)%N; constructor.
Qed.
Lemma robust_VarLong_loop br : forall fuel V e n num sec,
  robust (packet_VarLong_ReadFrom_io_loop1 fuel (packet_CreateByteReader_io br) V e n num sec).
Proof.
  induction fuel as [|fuel IH]; intros; cbn [packet_VarLong_ReadFrom_io_loop1]; [constructor|].
  destruct (negb _).
  - destruct (10 <=? num); [constructor|]. apply robust_bind; [apply robust_byte_source|]. intros a. apply IH.
  - unfold gret. destruct (e =? 0)%N; constructor.
Qed.
Lemma robust_VarInt_ReadFrom br : robust (packet_VarInt_ReadFrom_io br).
Proof. unfold packet_VarInt_ReadFrom_io. cbv zeta. apply robust_VarInt_loop. Qed.
Lemma robust_VarLong_ReadFrom br : robust (packet_VarLong_ReadFrom_io br).
Proof. unfold packet_VarLong_ReadFrom_io. cbv zeta. apply robust_VarLong_loop. Qed.

(* ------------------------------------------------------------------ VarInt.WriteTo / VarLong.WriteTo *)
Lemma lenN_map {A B} (f : A -> B) l : lenN (map f l) = lenN l.
Proof. unfold lenN. rewrite map_length. reflexivity. Qed.

Lemma write32_len_le v : (lenN (write32 v) <= 5)%N.
Proof.
  unfold write32. cbv zeta.
  repeat match goal with |- context [if ?c then _ else _] => destruct c end;
    rewrite ?lenN_app, ?be2_eq, ?be4_eq; unfold lenN; cbn [length]; lia.
Qed.

Theorem tie_VarInt_WriteTo v :
  packet_VarInt_WriteTo_io v = GoRet (Z.of_N (lenN (write32 v)), 0%N, map Z.of_N (write32 v)).
Proof.
  unfold packet_VarInt_WriteTo_io. cbv zeta.
  pose proof (tie_VarInt_WriteToBytes v) as T. destruct (packet_VarInt_WriteToBytes v) as [nn lg].
  destruct T as [Tn Tb]. pose proof (write32_len_le v) as L. cbn [app].
  destruct (Z.ltb_spec nn 0) as [?|_]; [lia|]. destruct (Z.ltb_spec 5 nn) as [?|_]; [lia|]. cbn [orb].
  unfold gtake. rewrite Tb. unfold glen. rewrite lenN_map.
  rewrite wrap_s_id by (change (2 ^ (64 - 1)) with 9223372036854775808; lia). reflexivity.
Qed.

Lemma len64_le v : (1 <= len64 v <= 10)%N.
Proof.
  unfold len64. change (Z.to_N packet_MaxVarLongLen) with 10%N.
  repeat match goal with |- context [if ?c then _ else _] => destruct c end; lia.
Qed.
Lemma write64_len v : lenN (write64 v) = len64 v.
Proof. unfold write64, lenN. rewrite wloop_length. pose proof (len64_le v). lia. Qed.

Theorem tie_VarLong_WriteTo v :
  packet_VarLong_WriteTo_io v = GoRet (Z.of_N (len64 v), 0%N, map Z.of_N (write64 v)).
Proof.
  unfold packet_VarLong_WriteTo_io. cbv zeta.
  pose proof (tie_VarLong_WriteToBytes v) as T. destruct (packet_VarLong_WriteToBytes v) as [nn lg].
  destruct T as [Tn Tb]. pose proof (len64_le v) as L. cbn [app].
  destruct (Z.ltb_spec nn 0) as [?|_]; [lia|]. destruct (Z.ltb_spec 10 nn) as [?|_]; [lia|]. cbn [orb].
  unfold gtake. rewrite Tb. unfold glen. rewrite lenN_map, write64_len.
  rewrite wrap_s_id by (change (2 ^ (64 - 1)) with 9223372036854775808; lia). reflexivity.
Qed.

(* ------------------------------------------------------------------ translated writer then translated reader *)
Definition out_bytes (r : gores (Z * N * list Z)) : list N :=
  match r with GoRet (_, _, o) => map Z.to_N o | GoPanic => [] end.
Definition out_n (r : gores (Z * N * list Z)) : Z :=
  match r with GoRet (n, _, _) => n | GoPanic => -1 end.

Lemma map_to_N_of_N l : map Z.to_N (map Z.of_N l) = l.
Proof. induction l as [|b l IH]; [reflexivity|]. cbn [map]. rewrite IH, N2Z.id. reflexivity. Qed.

Theorem roundtrip32_translated br v rest : in_sw 32 v ->
  run_flat (packet_VarInt_ReadFrom_io br) (out_bytes (packet_VarInt_WriteTo_io v) ++ rest)
  = FOk (v, out_n (packet_VarInt_WriteTo_io v)) rest.
Proof.
  intros Hv. rewrite tie_VarInt_WriteTo. cbn [out_bytes out_n]. rewrite map_to_N_of_N.
  rewrite tie_VarInt_ReadFrom, (read32_write32 v rest Hv). reflexivity.
Qed.

Theorem roundtrip64_translated br v rest : in_sw 64 v ->
  run_flat (packet_VarLong_ReadFrom_io br) (out_bytes (packet_VarLong_WriteTo_io v) ++ rest)
  = FOk (v, out_n (packet_VarLong_WriteTo_io v)) rest.
Proof.
  intros Hv. rewrite tie_VarLong_WriteTo. cbn [out_bytes out_n]. rewrite map_to_N_of_N.
  rewrite tie_VarLong_ReadFrom, (read64_write64 v rest Hv). unfold cnt_z. cbn [fmapr fst snd].
  rewrite <- (len64_spec v Hv). reflexivity.
Qed.

(* Len() = the count WriteTo reports = the number of bytes it hands to the writer *)
Theorem len_translated32 v : in_sw 32 v ->
  packet_VarInt_Len v = out_n (packet_VarInt_WriteTo_io v) /\
  packet_VarInt_Len v = Z.of_N (lenN (out_bytes (packet_VarInt_WriteTo_io v))).
Proof.
  intros Hv. rewrite tie_VarInt_WriteTo, tie_VarInt_Len. cbn [out_bytes out_n]. rewrite map_to_N_of_N.
  rewrite (len32_spec v Hv). split; reflexivity.
Qed.
Theorem len_translated64 v : in_sw 64 v ->
  packet_VarLong_Len v = out_n (packet_VarLong_WriteTo_io v) /\
  packet_VarLong_Len v = Z.of_N (lenN (out_bytes (packet_VarLong_WriteTo_io v))).
Proof.
  intros Hv. rewrite tie_VarLong_WriteTo, tie_VarLong_Len. cbn [out_bytes out_n]. rewrite map_to_N_of_N.
  rewrite write64_len. split; reflexivity.
Qed.

(* the cap, over the translated readers *)
Theorem cap32_translated br s :
  match run_flat (packet_VarInt_ReadFrom_io br) s with
  | FOk (_, n) rest => 0 <= n <= 5 /\ Z.of_N (lenN s) = n + Z.of_N (lenN rest)
  | FErr _ => True
  | _ => False
  end.
Proof.
  rewrite tie_VarInt_ReadFrom. pose proof (read32_cap s) as C.
  destruct (run_flat read32 s) as [[u n] r| | |]; cbn [fmapr cnt_z fst snd]; try exact C. lia.
Qed.
Theorem cap64_translated br s :
  match run_flat (packet_VarLong_ReadFrom_io br) s with
  | FOk (_, n) rest => 0 <= n <= 10 /\ Z.of_N (lenN s) = n + Z.of_N (lenN rest)
  | FErr _ => True
  | _ => False
  end.
Proof.
  rewrite tie_VarLong_ReadFrom. pose proof (read64_cap s) as C.
  destruct (run_flat read64 s) as [[u n] r| | |]; cbn [fmapr cnt_z fst snd]; try exact C. lia.
Qed.
Theorem long_run32_translated br s t : lenN s = 5%N -> Forall (fun b => N.land b 128 <> 0%N) s ->
  is_err (run_flat (packet_VarInt_ReadFrom_io br) (s ++ t)) = true.
Proof.
  intros H1 H2. rewrite tie_VarInt_ReadFrom. pose proof (read32_long_run s t H1 H2) as E.
  destruct (run_flat read32 (s ++ t)); try discriminate. reflexivity.
Qed.
Theorem long_run64_translated br s t : lenN s = 10%N -> Forall (fun b => N.land b 128 <> 0%N) s ->
  is_err (run_flat (packet_VarLong_ReadFrom_io br) (s ++ t)) = true.
Proof.
  intros H1 H2. rewrite tie_VarLong_ReadFrom. pose proof (read64_long_run s t H1 H2) as E.
  destruct (run_flat read64 (s ++ t)); try discriminate. reflexivity.
Qed.
