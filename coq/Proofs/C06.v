(* C06 proofs, part 1: writers (counts), layout *)
From Coq Require Import List Arith NArith ZArith Lia Bool ZifyN ZifyNat ZifyBool.
From GoMC Require Import Base.Bytes Base.Bits Base.Dec Gen.Consts Model.C05 Proofs.C05 Model.C06.
Import ListNotations.
Open Scope N_scope.
Ltac Zify.zify_post_hook ::= Z.div_mod_to_equations.

(* ---------------------------------------------------------------- writer counts *)
Lemma wcat_count a b : snd a = lenN (fst a) -> snd b = lenN (fst b) -> snd (wcat a b) = lenN (fst (wcat a b)).
Proof. intros Ha Hb. unfold wcat. cbn [fst snd]. rewrite lenN_app. congruence. Qed.

Lemma w_seq_count f xs : (forall x, snd (f x) = lenN (fst (f x))) -> snd (w_seq f xs) = lenN (fst (w_seq f xs)).
Proof.
  intros Hf. induction xs as [|x xs IH]; [reflexivity|].
  cbn [w_seq fold_right]. apply wcat_count; [apply Hf|exact IH].
Qed.

Lemma w_len_count l z : snd (w_len l z) = lenN (fst (w_len l z)).
Proof. destruct l; reflexivity. Qed.

Ltac cnt := repeat first [ reflexivity | apply w_len_count | apply wcat_count
                          | (apply w_seq_count; intros) ].

Lemma wr_count : forall t v, snd (wr t v) = lenN (fst (wr t v)).
Proof.
  induction t as [| | | | | | | | | | | | | | | | |l e IH|e IH|has e IH|a IHa b IHb|]; intros v; cbn [wr];
    unfold w_lenbytes; try solve [cnt].
  - destruct v; cnt.
  - cnt. apply IH.
  - destruct v as [| | | | |h x| |]; try solve [cnt]. destruct h; cnt. apply IH.
  - destruct has; [apply IH|reflexivity].
  - destruct v; cnt; auto.
Qed.
