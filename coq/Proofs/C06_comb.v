(* C06 proofs, part 4: combinators proved parametrically in the element codec, then the round-trip
   theorem for the whole type universe by induction over the type *)
From Coq Require Import List Arith NArith ZArith Lia Bool ZifyN ZifyNat ZifyBool.
From GoMC Require Import Base.Bytes Base.Bits Base.Dec Gen.Consts Model.C05 Proofs.C05 Model.C06
  Proofs.C06 Proofs.C06_read Proofs.C06_pos.
Import ListNotations.
Open Scope N_scope.
Ltac Zify.zify_post_hook ::= Z.div_mod_to_equations.

(* ---------------------------------------------------------------- length prefixes *)
Lemma rt_len l z rest : (0 <= z <= lenk_max l)%Z ->
  run_flat (r_len l) (fst (w_len l z) ++ rest) = FOk (z, lenN (fst (w_len l z))) rest.
Proof.
  intros H. destruct l; cbn [lenk_max] in H; cbn [r_len w_len].
  - unfold w_varint, wbytes. cbn [fst]. apply read32_write32. apply in_sw32. lia.
  - unfold w_varlong, wbytes. cbn [fst]. unfold sx64, u64.
    rewrite sx_wrapu by (try apply in_sw64; lia). apply read64_write64. apply in_sw64. lia.
  - cbn [w_byte wbytes fst app run_flat]. rewrite u8_small. unfold sx8, u8.
    rewrite sx_wrapu by (try apply in_sw8; lia). reflexivity.
  - cbn [w_byte wbytes fst app run_flat]. rewrite u8_small. unfold u8.
    rewrite of_wrapu by (cbn; lia). reflexivity.
  - unfold w_short, wbytes. cbn [fst].
    rewrite run_readfull_app by (unfold lenN; rewrite be_length; reflexivity). cbn [run_flat].
    rewrite unbe_be. change (N.of_nat 2) with 2. rewrite u16_small. unfold sx16, u16.
    rewrite sx_wrapu by (try apply in_sw16; lia). reflexivity.
  - unfold w_short, wbytes. cbn [fst].
    rewrite run_readfull_app by (unfold lenN; rewrite be_length; reflexivity). cbn [run_flat].
    rewrite unbe_be. change (N.of_nat 2) with 2. rewrite u16_small. unfold u16.
    rewrite of_wrapu by (cbn; lia). reflexivity.
  - unfold w_int, wbytes. cbn [fst].
    rewrite run_readfull_app by (unfold lenN; rewrite be_length; reflexivity). cbn [run_flat].
    rewrite unbe_be. change (N.of_nat 4) with 4. rewrite u32_small. unfold sx32, u32.
    rewrite sx_wrapu by (try apply in_sw32; lia). reflexivity.
  - unfold w_long, wbytes. cbn [fst].
    rewrite run_readfull_app by (unfold lenN; rewrite be_length; reflexivity). cbn [run_flat].
    rewrite unbe_be. change (N.of_nat 8) with 8. rewrite u64_small. unfold sx64, u64.
    rewrite sx_wrapu by (try apply in_sw64; lia). reflexivity.
Qed.

(* ---------------------------------------------------------------- parametric combinators *)
Section Elem.
  Variable re : fval -> rd.          (* element reader, given the prior content of its slot *)
  Variable we : fval -> wres.        (* element writer *)
  Variable vw : fval -> fval.        (* protocol-level view of an element *)
  Hypothesis re_robust : forall o, robust (re o).

  (* the element codec round-trips v into ANY prior slot content, in front of ANY rest *)
  Definition elem_ok (v : fval) : Prop :=
    forall old rest, exists r,
      run_flat (re old) (fst (we v) ++ rest) = FOk (r, lenN (fst (we v))) rest /\ vw r = vw v.

  Lemma r_elems_rt : forall xs fuel olds i rest,
    Forall elem_ok xs -> (length xs <= fuel)%nat ->
    exists rs, run_flat (r_elems fuel re olds i (i + lenN xs)) (fst (w_seq we xs) ++ rest)
               = FOk (rs, lenN (fst (w_seq we xs))) rest /\ map vw rs = map vw xs.
  Proof.
    induction xs as [|x xs IH]; intros fuel olds i rest HF Hfuel.
    - exists []. split; [|reflexivity]. rewrite lenN_nil, N.add_0_r.
      destruct fuel; cbn [r_elems]; rewrite N.leb_refl; reflexivity.
    - destruct fuel as [|f]; [cbn in Hfuel; lia|]. inversion HF as [|? ? Hx HF']; subst.
      cbn [r_elems]. rewrite lenN_cons.
      destruct (N.leb_spec (i + (1 + lenN xs)) i) as [C|_]; [lia|].
      cbn [w_seq fold_right]. fold (w_seq we xs). unfold wcat at 1. cbn [fst]. rewrite <- app_assoc.
      destruct (Hx (olds i) (fst (w_seq we xs) ++ rest)) as (r & Hr & Hv).
      rewrite (run_bind_ok _ _ _ _ _ (re_robust _) Hr). cbn beta iota.
      destruct (IH f olds (i + 1) rest HF' ltac:(cbn in Hfuel; lia)) as (rs & Hrs & Hvs).
      replace (i + (1 + lenN xs)) with (i + 1 + lenN xs) by lia.
      rewrite (run_bind_ok _ _ _ _ _ (r_elems_robust re olds re_robust _ _ _) Hrs). cbn beta iota.
      exists (r :: rs). split.
      + cbn [run_flat]. unfold wcat. cbn [fst]. rewrite lenN_app. reflexivity.
      + cbn [map]. congruence.
  Qed.

  (* Ary: whatever the destination slice held (any length, any capacity, any elements) *)
  Lemma r_ary_rt l zero xs fuel old rest :
    Forall elem_ok xs -> (length xs <= fuel)%nat -> (Z.of_N (lenN xs) <= lenk_max l)%Z ->
    let img := fst (wcat (w_len l (Z.of_N (lenN xs))) (w_seq we xs)) in
    exists rs, run_flat (r_ary fuel l re zero old) (img ++ rest) = FOk (VList rs [], lenN img) rest
               /\ map vw rs = map vw xs.
  Proof.
    intros HF Hfuel Hlen img. unfold img, wcat, r_ary. cbn [fst]. rewrite <- app_assoc.
    rewrite (run_bind_ok _ _ _ _ _ (r_len_robust l) (rt_len l (Z.of_N (lenN xs)) _ ltac:(lia))). cbn beta iota.
    destruct (Z.ltb_spec (Z.of_N (lenN xs)) 0) as [C|_]; [lia|]. rewrite N2Z.id.
    match goal with |- context [r_elems fuel re ?o 0 _] => set (olds := o) end.
    destruct (r_elems_rt xs fuel olds 0 rest HF Hfuel) as (rs & Hrs & Hvs). rewrite N.add_0_l in Hrs.
    rewrite (run_bind_ok _ _ _ _ _ (r_elems_robust re olds re_robust _ _ _) Hrs). cbn beta iota.
    exists rs. split; [|exact Hvs]. cbn [run_flat]. rewrite lenN_app. reflexivity.
  Qed.

  Lemma r_option_some_rt zero v old rest : elem_ok v ->
    let img := fst (wcat (w_bool true) (we v)) in
    exists r, run_flat (r_option re zero old) (img ++ rest) = FOk (VOpt true r, lenN img) rest /\ vw r = vw v.
  Proof.
    intros Hv img. unfold img, wcat, r_option. cbn [fst w_bool wbytes app].
    set (ov := match old with VOpt _ x => x | _ => zero end).
    destruct (Hv ov rest) as (r & Hr & Hvw).
    cbn [r_bool bind run_flat]. change (1 =? 0) with false. cbn [negb bof].
    rewrite (run_bind_ok _ _ _ _ _ (re_robust _) Hr). cbn beta iota. cbn [run_flat].
    exists r. split; [|exact Hvw]. rewrite lenN_cons. reflexivity.
  Qed.

  (* an absent optional consumes the one Boolean and leaves Val exactly as it was *)
  Lemma r_option_none_rt zero old rest :
    run_flat (r_option re zero old) (fst (w_bool false) ++ rest)
    = FOk (VOpt false (match old with VOpt _ x => x | _ => zero end), 1) rest.
  Proof. reflexivity. Qed.
End Elem.

(* ---------------------------------------------------------------- the universe *)
Definition rt_ok (fuel : nat) (t : fty) (v : fval) : Prop :=
  forall old rest, exists r,
    run_flat (read_f fuel t old) (fst (wr t v) ++ rest) = FOk (r, lenN (fst (wr t v))) rest
    /\ view t r = view t v.

Lemma leaf_ok fuel t v r :
  (forall old rest, run_flat (read_f fuel t old) (fst (wr t v) ++ rest) = FOk (r, lenN (fst (wr t v))) rest) ->
  view t r = view t v -> rt_ok fuel t v.
Proof. intros H Hv old rest. exists r. split; [apply H|exact Hv]. Qed.

Lemma list_max_le_all l n : (list_max l <= n)%nat -> Forall (fun k => (k <= n)%nat) l.
Proof. intros H. apply list_max_le. exact H. Qed.

Theorem roundtrip_all : forall t v fuel, in_dom t v -> (need t v <= fuel)%nat -> rt_ok fuel t v.
Proof.
  induction t as [| | | | | | | | | | | | | | | | |l e IH|e IH|has e IH|a IHa b IHb|];
    intros v fuel Hd Hfuel; cbn [in_dom] in Hd.
  - destruct Hd as [b ->]. apply leaf_ok with (r := VB b); [intros; apply rt_bool|reflexivity].
  - destruct Hd as (z & -> & Hz). apply leaf_ok with (r := VZ z); [intros; apply rt_byte; exact Hz|reflexivity].
  - destruct Hd as (z & -> & Hz). apply leaf_ok with (r := VZ z); [intros; apply rt_ubyte; exact Hz|reflexivity].
  - destruct Hd as (z & -> & Hz). apply leaf_ok with (r := VZ z); [intros; apply rt_short; exact Hz|reflexivity].
  - destruct Hd as (z & -> & Hz). apply leaf_ok with (r := VZ z); [intros; apply rt_ushort; exact Hz|reflexivity].
  - destruct Hd as (z & -> & Hz). apply leaf_ok with (r := VZ z); [intros; apply rt_int; exact Hz|reflexivity].
  - destruct Hd as (z & -> & Hz). apply leaf_ok with (r := VZ z); [intros; apply rt_long; exact Hz|reflexivity].
  - destruct Hd as (z & -> & Hz). apply leaf_ok with (r := VZ z); [intros; apply rt_float; exact Hz|reflexivity].
  - destruct Hd as (z & -> & Hz). apply leaf_ok with (r := VZ z); [intros; apply rt_double; exact Hz|reflexivity].
  - destruct Hd as (z & -> & Hz). apply leaf_ok with (r := VZ z); [intros; apply rt_varint; exact Hz|reflexivity].
  - destruct Hd as (z & -> & Hz). apply leaf_ok with (r := VZ z); [intros; apply rt_varlong; exact Hz|reflexivity].
  - destruct Hd as (bs & sp & -> & _ & Hl). apply leaf_ok with (r := VBytes bs []); [intros; apply rt_string; exact Hl|reflexivity].
  - destruct Hd as (bs & sp & -> & _ & Hl). apply leaf_ok with (r := VBytes bs []); [intros; apply rt_bytearray; exact Hl|reflexivity].
  - destruct Hd as (bs & sp & -> & _ & Hl). apply leaf_ok with (r := VBytes bs []); [intros; apply rt_uuid; exact Hl|reflexivity].
  - destruct Hd as (z & -> & Hz). apply leaf_ok with (r := VZ z); [intros; apply rt_byte; exact Hz|reflexivity].
  - destruct Hd as (x & y & z & -> & Hx & Hy & Hz). apply leaf_ok with (r := VPos x y z); [intros; apply rt_pos; assumption|reflexivity].
  - (* BitSet: Len Longs; the loop is the Ary loop over the Long codec *)
    destruct Hd as (xs & sp & -> & HF & Hl). intros old rest. cbn [read_f wr list_of fst need] in *.
    unfold r_bitset, wcat. cbn [fst]. rewrite <- app_assoc.
    assert (D: in_sw 32 (Z.of_N (lenN xs))) by (apply in_sw32; lia).
    rewrite (run_bind_ok _ _ _ _ _ read32_robust (read32_write32 _ _ D)). cbn beta iota.
    destruct (Z.ltb_spec (Z.of_N (lenN xs)) 0) as [C|_]; [lia|]. rewrite N2Z.id.
    assert (HE: Forall (elem_ok (fun _ => r_long) (fun x => w_long (zof x)) (fun x => x)) xs).
    { apply Forall_forall. intros x Hx. rewrite Forall_forall in HF. destruct (HF x Hx) as (z & -> & Hz).
      intros o rs. exists (VZ z). split; [apply rt_long; exact Hz|reflexivity]. }
    destruct (r_elems_rt (fun _ => r_long) _ (fun x => x) (fun _ => r_fixed_robust _ _) xs fuel (fun _ => VUnit) 0 rest HE Hfuel)
      as (rs & Hrs & Hvs). rewrite N.add_0_l in Hrs. rewrite !map_id in Hvs. subst rs.
    rewrite (run_bind_ok _ _ _ _ _ (r_elems_robust _ _ (fun _ => r_fixed_robust _ _) _ _ _) Hrs). cbn beta iota.
    exists (VList xs []). split; [|reflexivity]. cbn [run_flat]. rewrite lenN_app. reflexivity.
  - (* Ary *)
    destruct Hd as (xs & sp & -> & HF & Hl). intros old rest. cbn [read_f wr list_of fst need] in *.
    assert (HE: Forall (elem_ok (read_f fuel e) (wr e) (view e)) xs).
    { apply Forall_forall. intros x Hx. rewrite Forall_forall in HF.
      apply IH; [apply HF; exact Hx|].
      assert (Hm: (list_max (map (need e) xs) <= fuel)%nat) by lia.
      apply list_max_le_all in Hm. rewrite Forall_forall in Hm. apply Hm. apply in_map. exact Hx. }
    destruct (r_ary_rt (read_f fuel e) (wr e) (view e) (read_f_robust fuel e) l (zero_of e) xs fuel old rest HE ltac:(lia) Hl)
      as (rs & Hrs & Hvs).
    exists (VList rs []). split; [exact Hrs|]. cbn [view list_of fst]. rewrite Hvs. reflexivity.
  - (* Option *)
    destruct Hd as (h & x & -> & Hx). intros old rest. cbn [read_f wr need] in *. destruct h.
    + destruct (r_option_some_rt (read_f fuel e) (wr e) (view e) (read_f_robust fuel e) (zero_of e) x old rest
                  (IH x fuel (Hx eq_refl) Hfuel)) as (r & Hr & Hv).
      exists (VOpt true r). split; [exact Hr|]. cbn [view]. rewrite Hv. reflexivity.
    + eexists. split; [apply r_option_none_rt|reflexivity].
  - (* Opt: Has comes from the context, the same on both sides *)
    cbn [read_f wr need view] in *. destruct has.
    + intros old rest. destruct (IH v fuel Hd Hfuel old rest) as (r & Hr & Hv). exists r. split; assumption.
    + intros old rest. exists old. split; reflexivity.
  - (* Tuple step *)
    destruct Hd as (x & y & -> & Hx & Hy). intros old rest. cbn [read_f wr need] in *.
    unfold r_pair, wcat. cbn [fst]. rewrite <- app_assoc.
    set (oa := match old with VPair x0 _ => x0 | _ => zero_of a end).
    set (ob := match old with VPair _ y0 => y0 | _ => zero_of b end).
    destruct (IHa x fuel Hx ltac:(lia) oa (fst (wr b y) ++ rest)) as (ra & Hra & Hva).
    destruct (IHb y fuel Hy ltac:(lia) ob rest) as (rb & Hrb & Hvb).
    rewrite (run_bind_ok _ _ _ _ _ (read_f_robust _ _ _) Hra). cbn beta iota.
    rewrite (run_bind_ok _ _ _ _ _ (read_f_robust _ _ _) Hrb). cbn beta iota.
    exists (VPair ra rb). split; [|cbn [view]; congruence].
    cbn [run_flat]. rewrite lenN_app. reflexivity.
  - intros old rest. exists VUnit. split; reflexivity.
Qed.
