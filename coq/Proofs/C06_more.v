(* C06 proofs, part 5: wire layout, exact byte counts on every input, no panics, Marshal/Scan *)
From Coq Require Import List Arith NArith ZArith Lia Bool ZifyN ZifyNat ZifyBool.
From GoMC Require Import Base.Bytes Base.Bits Base.Dec Gen.Consts Model.C05 Proofs.C05 Model.C06
  Proofs.C06 Proofs.C06_read Proofs.C06_pos Proofs.C06_comb.
Import ListNotations.
Open Scope N_scope.
Ltac Zify.zify_post_hook ::= Z.div_mod_to_equations.

(* ---------------------------------------------------------------- layout *)
Lemma wrapu_of_N w n : n < 2 ^ w -> wrapu w (Z.of_N n) = n.
Proof.
  intros H. unfold wrapu. rewrite Z.mod_small; [lia|].
  assert (E: Z.of_N (2 ^ w) = (2 ^ Z.of_N w)%Z) by (rewrite N2Z.inj_pow; reflexivity). lia.
Qed.

Lemma w_seq_img f xs : fst (w_seq f xs) = concat (map (fun x => fst (f x)) xs).
Proof. induction xs as [|x xs IH]; [reflexivity|]. cbn [w_seq fold_right map concat wcat fst]. fold (w_seq f xs). rewrite IH. reflexivity. Qed.

Lemma be1 x : x < 256 -> be 1 x = [x].
Proof. intros H. cbn. rewrite N.mod_small by exact H. reflexivity. Qed.

Lemma w_len_spec l n : (Z.of_N n <= lenk_max l)%Z -> fst (w_len l (Z.of_N n)) = spec_len l n.
Proof.
  intros H. destruct l; cbn [lenk_max] in H; cbn [w_len spec_len].
  - unfold w_varint, wbytes. cbn [fst]. rewrite write32_spec. unfold u32. rewrite wrapu_of_N by (change (2^32) with 4294967296; lia). reflexivity.
  - unfold w_varlong, wbytes. cbn [fst]. unfold sx64, u64. rewrite sx_wrapu by (try apply in_sw64; lia).
    rewrite write64_spec by (apply in_sw64; lia). unfold u64. rewrite wrapu_of_N by (change (2^64) with 18446744073709551616; lia). reflexivity.
  - cbn. unfold u8. rewrite wrapu_of_N by (change (2^8) with 256; lia). rewrite N.mod_small by lia. reflexivity.
  - cbn. unfold u8. rewrite wrapu_of_N by (change (2^8) with 256; lia). rewrite N.mod_small by lia. reflexivity.
  - unfold w_short, wbytes. cbn [fst]. unfold u16. rewrite wrapu_of_N by (change (2^16) with 65536; lia). reflexivity.
  - unfold w_short, wbytes. cbn [fst]. unfold u16. rewrite wrapu_of_N by (change (2^16) with 65536; lia). reflexivity.
  - unfold w_int, wbytes. cbn [fst]. unfold u32. rewrite wrapu_of_N by (change (2^32) with 4294967296; lia). reflexivity.
  - unfold w_long, wbytes. cbn [fst]. unfold u64. rewrite wrapu_of_N by (change (2^64) with 18446744073709551616; lia). reflexivity.
Qed.

Lemma lenbytes_spec bs : lenN bs < 2^31 -> fst (w_lenbytes bs) = leb128 (lenN bs) ++ bs.
Proof.
  intros H. rewrite lenbytes_img, write32_spec. unfold u32.
  rewrite wrapu_of_N by (change (2^32) with 4294967296; change (2^31) with 2147483648 in H; lia). reflexivity.
Qed.

Theorem layout_all : forall t v, in_dom t v -> fst (wr t v) = spec_img t v.
Proof.
  induction t as [| | | | | | | | | | | | | | | | |l e IH|e IH|has e IH|a IHa b IHb|];
    intros v Hd; cbn [in_dom] in Hd; cbn [wr spec_img].
  - reflexivity.
  - cbn. rewrite u8_small. reflexivity.
  - cbn. rewrite u8_small. reflexivity.
  - reflexivity.
  - reflexivity.
  - reflexivity.
  - reflexivity.
  - unfold w_float, w_int, wbytes. cbn [fst]. unfold sx32, u32. rewrite wrapu_sx by (try apply wrapu_lt; lia). reflexivity.
  - unfold w_double, w_long, wbytes. cbn [fst]. unfold sx64, u64. rewrite wrapu_sx by (try apply wrapu_lt; lia). reflexivity.
  - unfold w_varint, wbytes. cbn [fst]. apply write32_spec.
  - destruct Hd as (z & -> & Hz). unfold w_varlong, wbytes. cbn [fst zof]. apply write64_spec. apply in_sw64. exact Hz.
  - destruct Hd as (bs & sp & -> & _ & Hl). cbn [bytes_of fst]. apply lenbytes_spec. exact Hl.
  - destruct Hd as (bs & sp & -> & _ & Hl). cbn [bytes_of fst]. apply lenbytes_spec. exact Hl.
  - reflexivity.
  - cbn. rewrite u8_small. reflexivity.
  - destruct Hd as (x & y & z & -> & _). unfold w_pos, wbytes. cbn [fst]. rewrite pos_pack_spec. reflexivity.
  - destruct Hd as (xs & sp & -> & HF & Hl). cbn [list_of fst]. unfold wcat. cbn [fst].
    rewrite w_seq_img. unfold w_varint, wbytes. cbn [fst]. rewrite write32_spec. unfold u32.
    rewrite wrapu_of_N by (change (2^32) with 4294967296; change (2^31) with 2147483648 in Hl; lia). reflexivity.
  - destruct Hd as (xs & sp & -> & HF & Hl). cbn [list_of fst]. unfold wcat. cbn [fst].
    rewrite w_len_spec by exact Hl. rewrite w_seq_img. f_equal. f_equal.
    apply map_ext_in. intros x Hx. apply IH. rewrite Forall_forall in HF. apply HF. exact Hx.
  - destruct Hd as (h & x & -> & Hx). destruct h; [|reflexivity].
    unfold wcat. cbn [fst w_bool wbytes app]. rewrite IH by (apply Hx; reflexivity). reflexivity.
  - destruct has; [apply IH; exact Hd|reflexivity].
  - destruct Hd as (x & y & -> & Hx & Hy). unfold wcat. cbn [fst]. rewrite IHa, IHb by assumption. reflexivity.
  - reflexivity.
Qed.

(* ---------------------------------------------------------------- counts on EVERY input *)
(* [counts c d]: whenever d succeeds, the count it returns is c + the number of bytes it consumed *)
Definition counts {A} (c : N) (d : dec (A * N)) : Prop :=
  forall s r n rest, run_flat d s = FOk (r, n) rest -> lenN s + c = n + lenN rest.

Lemma counts_ret {A} c (a : A) : counts c (Ret (a, c)).
Proof. intros s r n rest H. cbn in H. inversion H; subst. lia. Qed.
Lemma counts_fail {A} c e : @counts A c (Fail e).
Proof. intros s r n rest H. discriminate H. Qed.
Lemma counts_nofuel {A} c : @counts A c NoFuel.
Proof. intros s r n rest H. discriminate H. Qed.
Lemma counts_readbyte {A} c (k : N -> dec (A * N)) : (forall b, counts (c + 1) (k b)) -> counts c (ReadByte k).
Proof.
  intros Hk s r n rest H. destruct s as [|b s']; [discriminate H|]. cbn [run_flat] in H.
  apply Hk in H. rewrite lenN_cons. lia.
Qed.
Lemma lenN_dropN {A} n (s : list A) : n <= lenN s -> lenN (dropN n s) = lenN s - n.
Proof. intros H. unfold lenN, dropN in *. rewrite skipn_length. lia. Qed.
Lemma counts_readfull {A} c n0 (k : list N -> dec (A * N)) : (forall bs, counts (c + n0) (k bs)) -> counts c (ReadFull n0 k).
Proof.
  intros Hk s r n rest H. cbn [run_flat] in H. destruct (N.leb_spec n0 (lenN s)) as [L|L]; [|discriminate H].
  apply Hk in H. rewrite lenN_dropN in H by exact L. lia.
Qed.
Lemma counts_bind {A B} c (d : dec (A * N)) (k : A * N -> dec (B * N)) :
  robust d -> counts c d -> (forall a n1, counts n1 (k (a, n1))) -> counts c (bind d k).
Proof.
  intros R Hd Hk s r n rest H. rewrite run_flat_bind in H by exact R.
  destruct (run_flat d s) as [[a n1] r1| | |] eqn:E; try discriminate H.
  apply Hd in E. apply Hk in H. lia.
Qed.
Lemma counts_shift {A B} c (d : dec (A * N)) (g : A -> B) :
  robust d -> counts 0 d -> counts c (bind d (fun x => let '(a, n2) := x in Ret (g a, c + n2))).
Proof.
  intros R Hd s r n rest H. rewrite run_flat_bind in H by exact R.
  destruct (run_flat d s) as [[a n2] r1| | |] eqn:E; try discriminate H.
  cbn in H. inversion H; subst. apply Hd in E. lia.
Qed.

Lemma counts_read32 : counts 0 read32.
Proof. intros s r n rest H. pose proof (read32_cap s) as C. rewrite H in C. lia. Qed.
Lemma counts_read64 : counts 0 read64.
Proof. intros s r n rest H. pose proof (read64_cap s) as C. rewrite H in C. lia. Qed.

Lemma counts_r_len l : counts 0 (r_len l).
Proof.
  destruct l; cbn [r_len]; try apply counts_read32; try apply counts_read64;
    first [apply counts_readbyte | apply counts_readfull]; intros; apply counts_ret.
Qed.

Lemma counts_r_fixed n c : counts 0 (r_fixed n c).
Proof. apply counts_readfull. intros. apply counts_ret. Qed.

Lemma counts_r_elems re olds : (forall o, robust (re o)) -> (forall o, counts 0 (re o)) ->
  forall fuel i len, counts 0 (r_elems fuel re olds i len).
Proof.
  intros Rre Hre. induction fuel as [|f IH]; intros i len; cbn [r_elems]; destruct (len <=? i);
    try apply counts_ret; try apply counts_nofuel.
  apply counts_bind; [apply Rre|apply Hre|]. intros v n1.
  apply (counts_shift n1 (r_elems f re olds (i + 1) len) (fun vs => v :: vs)).
  - apply r_elems_robust. exact Rre.
  - apply IH.
Qed.

Theorem read_counts fuel : forall t old, counts 0 (read_f fuel t old).
Proof.
  induction t as [| | | | | | | | | | | | | | | | |l e IH|e IH|has e IH|a IHa b IHb|]; intros old; cbn [read_f];
    try apply counts_r_fixed;
    try (apply counts_readbyte; intros; apply counts_ret).
  - unfold r_varint. apply counts_bind; [apply read32_robust|apply counts_read32|]. intros; apply counts_ret.
  - unfold r_varlong. apply counts_bind; [apply read64_robust|apply counts_read64|]. intros; apply counts_ret.
  - unfold r_string. apply counts_bind; [apply read32_robust|apply counts_read32|]. intros z n.
    destruct (z <? 0)%Z; [apply counts_fail|]. apply counts_readfull. intros; apply counts_ret.
  - unfold r_bytearray. apply counts_bind; [apply read32_robust|apply counts_read32|]. intros z n.
    destruct (z <? 0)%Z; [apply counts_fail|]. destruct (_ <? z)%Z; apply counts_readfull; intros; apply counts_ret.
  - apply counts_readfull. intros; apply counts_ret.
  - apply counts_readfull. intros; apply counts_ret.
  - unfold r_bitset. apply counts_bind; [apply read32_robust|apply counts_read32|]. intros z n.
    destruct (z <? 0)%Z; [apply counts_fail|].
    apply (counts_shift n (r_elems fuel (fun _ => r_long) (fun _ => VUnit) 0 (Z.to_N z)) (fun vs => VList vs [])).
    + apply r_elems_robust. intros; apply r_fixed_robust.
    + apply counts_r_elems; intros; [apply r_fixed_robust|apply counts_r_fixed].
  - unfold r_ary. apply counts_bind; [apply r_len_robust|apply counts_r_len|]. intros z n.
    destruct (z <? 0)%Z; [apply counts_fail|].
    match goal with |- context [r_elems fuel _ ?o 0 _] => set (olds := o) end.
    apply (counts_shift n (r_elems fuel (read_f fuel e) olds 0 (Z.to_N z)) (fun vs => VList vs [])).
    + apply r_elems_robust. apply read_f_robust.
    + apply counts_r_elems; [apply read_f_robust|exact IH].
  - unfold r_option. apply counts_bind; [constructor; intros; constructor| |].
    + apply counts_readbyte; intros; apply counts_ret.
    + intros h n1. destruct (bof h); [|apply counts_ret].
      apply (counts_shift n1 (read_f fuel e _) (fun v => VOpt true v)); [apply read_f_robust|apply IH].
  - destruct has; [apply IH|apply counts_ret].
  - unfold r_pair. apply counts_bind; [apply read_f_robust|apply IHa|]. intros va na.
    apply (counts_shift na (read_f fuel b _) (fun vb => VPair va vb)); [apply read_f_robust|apply IHb].
  - apply counts_ret.
Qed.

(* ---------------------------------------------------------------- no reader ever panics *)
Inductive ncr {A} : dec A -> Prop :=
| N_Ret a : ncr (Ret a)
| N_Fail e : ncr (Fail e)
| N_NoFuel : ncr NoFuel
| N_ReadByte k : (forall b, ncr (k b)) -> ncr (ReadByte k)
| N_ReadFull n k : (forall bs, ncr (k bs)) -> ncr (ReadFull n k).

Lemma ncr_bind {A B} (d : dec A) (f : A -> dec B) : ncr d -> (forall a, ncr (f a)) -> ncr (bind d f).
Proof. induction 1; simpl; intros; auto; constructor; auto. Qed.

Definition not_panic {A} (r : fres A) : Prop := match r with FPanic _ => False | _ => True end.

Lemma ncr_run {A} (d : dec A) : ncr d -> forall s, not_panic (run_flat d s).
Proof.
  induction 1 as [a|e| |k Hk IH|n k Hk IH]; intros s; cbn [run_flat not_panic]; auto.
  - destruct s; cbn; auto.
  - destruct (n <=? lenN s); cbn; auto.
Qed.

Lemma read_var_ncr w cap : forall fuel acc num, ncr (read_var w cap fuel acc num).
Proof.
  induction fuel as [|f IH]; intros acc num; cbn [read_var]; [constructor|].
  destruct (cap <=? num); constructor. intros b. destruct (N.land b 128 =? 0); [constructor|apply IH].
Qed.
Lemma read32_ncr : ncr read32.
Proof. unfold read32. apply ncr_bind; [apply read_var_ncr|]. intros [u n]. constructor. Qed.
Lemma read64_ncr : ncr read64.
Proof. unfold read64. apply ncr_bind; [apply read_var_ncr|]. intros [u n]. constructor. Qed.

Lemma r_elems_ncr re olds : (forall o, ncr (re o)) -> forall fuel i len, ncr (r_elems fuel re olds i len).
Proof.
  intros Hre. induction fuel as [|f IH]; intros i len; cbn [r_elems]; destruct (len <=? i); try constructor.
  apply ncr_bind; [apply Hre|]. intros [v n1]. apply ncr_bind; [apply IH|]. intros [vs n2]. constructor.
Qed.
Lemma r_len_ncr l : ncr (r_len l).
Proof. destruct l; cbn [r_len]; try apply read32_ncr; try apply read64_ncr; constructor; intros; constructor. Qed.
Lemma r_fixed_ncr n c : ncr (r_fixed n c).
Proof. constructor. intros. constructor. Qed.

Theorem read_f_ncr fuel : forall t old, ncr (read_f fuel t old).
Proof.
  induction t as [| | | | | | | | | | | | | | | | |l e IH|e IH|has e IH|a IHa b IHb|]; intros old; cbn [read_f];
    try apply r_fixed_ncr;
    try (constructor; intros; constructor).
  - unfold r_varint. apply ncr_bind; [apply read32_ncr|]. intros [z n]. constructor.
  - unfold r_varlong. apply ncr_bind; [apply read64_ncr|]. intros [z n]. constructor.
  - unfold r_string. apply ncr_bind; [apply read32_ncr|]. intros [z n]. cbn beta iota.
    destruct (z <? 0)%Z; constructor. intros; constructor.
  - unfold r_bytearray. apply ncr_bind; [apply read32_ncr|]. intros [z n]. cbn beta iota.
    destruct (z <? 0)%Z; [constructor|]. destruct (_ <? z)%Z; constructor; intros; constructor.
  - unfold r_bitset. apply ncr_bind; [apply read32_ncr|]. intros [z n]. cbn beta iota.
    destruct (z <? 0)%Z; [constructor|].
    apply ncr_bind; [apply r_elems_ncr; intros; apply r_fixed_ncr|]. intros [vs n2]. constructor.
  - unfold r_ary. apply ncr_bind; [apply r_len_ncr|]. intros [z n]. cbn beta iota.
    destruct (z <? 0)%Z; [constructor|].
    apply ncr_bind; [apply r_elems_ncr; exact IH|]. intros [vs n2]. constructor.
  - unfold r_option. apply ncr_bind; [constructor; intros; constructor|]. intros [h n1]. cbn beta iota.
    destruct (bof h); [|constructor]. apply ncr_bind; [apply IH|]. intros [v n2]. constructor.
  - destruct has; [apply IH|constructor].
  - unfold r_pair. apply ncr_bind; [apply IHa|]. intros [va na].
    apply ncr_bind; [apply IHb|]. intros [vb nb]. constructor.
Qed.

Lemma scan_ncr fuel : forall fs, ncr (scan fuel fs).
Proof.
  induction fs as [|[t old] fs IH]; cbn [scan]; [constructor|].
  apply ncr_bind; [apply read_f_ncr|]. intros [v n]. apply ncr_bind; [exact IH|]. intros vs. constructor.
Qed.

(* ---------------------------------------------------------------- Marshal / Scan *)
(* a packet is described by triples (type, value written, prior state of the variable scanned into) *)
Definition fld := (fty * fval * fval)%type.
Definition f_ty (f : fld) := fst (fst f).
Definition f_val (f : fld) := snd (fst f).
Definition f_old (f : fld) := snd f.
Definition fld_ok (fuel : nat) (f : fld) : Prop := in_dom (f_ty f) (f_val f) /\ (need (f_ty f) (f_val f) <= fuel)%nat.

Theorem scan_marshal fuel : forall (fs : list fld) (extra : list N),
  Forall (fld_ok fuel) fs ->
  exists rs, run_flat (scan fuel (map (fun f => (f_ty f, f_old f)) fs))
                      (marshal (map (fun f => (f_ty f, f_val f)) fs) ++ extra) = FOk rs extra
             /\ Forall2 (fun f r => view (f_ty f) r = view (f_ty f) (f_val f)) fs rs.
Proof.
  induction fs as [|[[t v] o] fs IH]; intros extra HF.
  - exists []. split; [reflexivity|constructor].
  - inversion HF as [|? ? [Hd Hn] HF']; subst. cbn [f_ty f_val f_old fst snd] in *.
    cbn [map scan marshal concat f_ty f_val f_old fst snd]. fold (marshal (map (fun f => (f_ty f, f_val f)) fs)).
    rewrite <- app_assoc.
    destruct (roundtrip_all t v fuel Hd Hn o (marshal (map (fun f => (f_ty f, f_val f)) fs) ++ extra)) as (r & Hr & Hv).
    rewrite (run_bind_ok _ _ _ _ _ (read_f_robust _ _ _) Hr). cbn beta iota.
    destruct (IH extra HF') as (rs & Hrs & Hvs).
    rewrite (run_bind_ok _ _ _ _ _ (scan_robust _ _) Hrs). cbn [run_flat].
    exists (r :: rs). split; [reflexivity|]. constructor; [exact Hv|exact Hvs].
Qed.

(* ---------------------------------------------------------------- corollaries in the form used by Props *)
Lemma read_count_exact fuel t old s r n rest :
  run_flat (read_f fuel t old) s = FOk (r, n) rest -> lenN s = n + lenN rest.
Proof. intros H. apply (read_counts fuel t old) in H. lia. Qed.

Lemma read_consumes_prefix fuel t old s r n rest :
  run_flat (read_f fuel t old) s = FOk (r, n) rest -> exists c, s = c ++ rest /\ lenN c = n.
Proof.
  intros H. destruct (robust_rest_suffix _ (read_f_robust fuel t old) _ _ _ H) as [c Hc].
  exists c. split; [exact Hc|]. apply read_count_exact in H. subst s. rewrite lenN_app in H. lia.
Qed.

Lemma read_never_panics fuel t old s : not_panic (run_flat (read_f fuel t old) s).
Proof. apply ncr_run. apply read_f_ncr. Qed.
Lemma scan_never_panics fuel fs s : not_panic (run_flat (scan fuel fs) s).
Proof. apply ncr_run. apply scan_ncr. Qed.

Lemma option_absent_frame fuel e h x rest :
  run_flat (read_f fuel (TOption e) (VOpt h x)) (0 :: rest) = FOk (VOpt false x, 1) rest.
Proof. reflexivity. Qed.
Lemma opt_off_frame fuel e old s : run_flat (read_f fuel (TOpt false e) old) s = FOk (old, 0) s.
Proof. reflexivity. Qed.
Lemma opt_off_writes_nothing e v : wr (TOpt false e) v = ([], 0).
Proof. reflexivity. Qed.

Lemma ary_parametric (re : fval -> rd) (we : fval -> wres) (vw : fval -> fval) :
  (forall o, robust (re o)) ->
  forall l zero xs fuel old rest,
  Forall (elem_ok re we vw) xs -> (length xs <= fuel)%nat -> (Z.of_N (lenN xs) <= lenk_max l)%Z ->
  let img := fst (wcat (w_len l (Z.of_N (lenN xs))) (w_seq we xs)) in
  exists rs, run_flat (r_ary fuel l re zero old) (img ++ rest) = FOk (VList rs [], lenN img) rest
             /\ map vw rs = map vw xs.
Proof. intros R l zero xs fuel old rest. apply r_ary_rt. exact R. Qed.

Lemma option_parametric (re : fval -> rd) (we : fval -> wres) (vw : fval -> fval) :
  (forall o, robust (re o)) ->
  forall zero v old rest, elem_ok re we vw v ->
  let img := fst (wcat (w_bool true) (we v)) in
  exists r, run_flat (r_option re zero old) (img ++ rest) = FOk (VOpt true r, lenN img) rest /\ vw r = vw v.
Proof. intros R zero v old rest. apply r_option_some_rt. exact R. Qed.
