(* C06 proofs, part 3: Position - 26/12/26 packing, layout and round trip over the whole signed cube *)
From Coq Require Import List Arith NArith ZArith Lia Bool ZifyN ZifyNat ZifyBool.
From GoMC Require Import Base.Bytes Base.Bits Base.Dec Model.C05 Model.C06 Proofs.C06_read.
Import ListNotations.
Open Scope N_scope.
Ltac Zify.zify_post_hook ::= Z.div_mod_to_equations.

Lemma land_mask26 x : Z.to_N (Z.land x 0x3FFFFFF) = twos 26 x.
Proof. unfold twos. change 0x3FFFFFF%Z with (Z.ones 26). rewrite Z.land_ones by lia. reflexivity. Qed.
Lemma land_mask12 x : Z.to_N (Z.land x 0xFFF) = twos 12 x.
Proof. unfold twos. change 0xFFF%Z with (Z.ones 12). rewrite Z.land_ones by lia. reflexivity. Qed.

Lemma twos_lt b z : twos b z < 2 ^ b.
Proof. apply wrapu_lt. Qed.

(* the packed word is x:26 | z:26 | y:12 - for ALL integers (out-of-range coordinates are truncated) *)
Lemma pos_pack_spec x y z :
  pos_pack x y z = twos 26 x * 2^38 + twos 26 z * 2^12 + twos 12 y.
Proof.
  unfold pos_pack. rewrite !land_mask26, land_mask12.
  pose proof (twos_lt 26 x) as Hx. pose proof (twos_lt 26 z) as Hz. pose proof (twos_lt 12 y) as Hy.
  set (xm := twos 26 x) in *. set (zm := twos 26 z) in *. set (ym := twos 12 y) in *.
  change (2^26) with 67108864 in *. change (2^12) with 4096 in *.
  rewrite !N.shiftl_mul_pow2.
  rewrite (N.mod_small (xm * 2^38)) by (change (2^38) with 274877906944; change (2^64) with 18446744073709551616; lia).
  rewrite (lor_add_disjoint' (zm * 2^12) xm 38)
    by (change (2^38) with 274877906944; change (2^12) with 4096; lia).
  replace (xm * 2^38 + zm * 2^12) with ((xm * 2^26 + zm) * 2^12)
    by (change (2^38) with 274877906944; change (2^12) with 4096; change (2^26) with 67108864; lia).
  rewrite (lor_add_disjoint' ym _ 12) by (change (2^12) with 4096; lia).
  change (2^38) with 274877906944; change (2^12) with 4096; change (2^26) with 67108864; lia.
Qed.

Lemma pos_pack_lt x y z : pos_pack x y z < 2^64.
Proof.
  rewrite pos_pack_spec.
  pose proof (twos_lt 26 x) as Hx. pose proof (twos_lt 26 z) as Hz. pose proof (twos_lt 12 y) as Hy.
  change (2^26) with 67108864 in *. change (2^12) with 4096 in *.
  change (2^38) with 274877906944. change (2^64) with 18446744073709551616. lia.
Qed.

Lemma twos_of b z : (0 <= Z.of_N b)%Z -> Z.of_N (twos b z) = (z mod 2 ^ Z.of_N b)%Z.
Proof.
  intros _. unfold twos. rewrite Z2N.id; [reflexivity|].
  apply Z.mod_pos_bound. apply Z.pow_pos_nonneg; lia.
Qed.

Lemma pos_unpack_pack x y z :
  (-2^25 <= x < 2^25)%Z -> (-2^11 <= y < 2^11)%Z -> (-2^25 <= z < 2^25)%Z ->
  pos_unpack (sx64 (pos_pack x y z)) = VPos x y z.
Proof.
  intros Hx Hy Hz. pose proof (pos_pack_lt x y z) as HP. rewrite pos_pack_spec in *.
  pose proof (twos_of 26 x ltac:(lia)) as Ex. pose proof (twos_of 26 z ltac:(lia)) as Ez.
  pose proof (twos_of 12 y ltac:(lia)) as Ey.
  change (Z.of_N 26) with 26%Z in *. change (Z.of_N 12) with 12%Z in *.
  set (P := twos 26 x * 2^38 + twos 26 z * 2^12 + twos 12 y) in *.
  assert (EP: Z.of_N P = (Z.of_N (twos 26 x) * 2^38 + Z.of_N (twos 26 z) * 2^12 + Z.of_N (twos 12 y))%Z).
  { unfold P. change (2^38) with 274877906944. change (2^12) with 4096. lia. }
  rewrite Ex, Ey, Ez in EP. clear Ex Ey Ez.
  (* the three residues as explicit case distinctions *)
  assert (Mx: (x mod 2^26 = if x <? 0 then x + 2^26 else x)%Z).
  { destruct (Z.ltb_spec x 0); [symmetry; apply Z.mod_unique with (q := (-1)%Z); lia | apply Z.mod_small; lia]. }
  assert (Mz: (z mod 2^26 = if z <? 0 then z + 2^26 else z)%Z).
  { destruct (Z.ltb_spec z 0); [symmetry; apply Z.mod_unique with (q := (-1)%Z); lia | apply Z.mod_small; lia]. }
  assert (My: (y mod 2^12 = if y <? 0 then y + 2^12 else y)%Z).
  { destruct (Z.ltb_spec y 0); [symmetry; apply Z.mod_unique with (q := (-1)%Z); lia | apply Z.mod_small; lia]. }
  rewrite Mx, My, Mz in EP. clear Mx My Mz.
  set (X := (if (x <? 0)%Z then (x + 2^26)%Z else x)) in *.
  set (Zm := (if (z <? 0)%Z then (z + 2^26)%Z else z)) in *.
  set (Y := (if (y <? 0)%Z then (y + 2^12)%Z else y)) in *.
  assert (BX: (0 <= X < 2^26 /\ (x < 0 -> X = x + 2^26) /\ (0 <= x -> X = x))%Z) by (unfold X; destruct (Z.ltb_spec x 0); lia).
  assert (BZ: (0 <= Zm < 2^26 /\ (z < 0 -> Zm = z + 2^26) /\ (0 <= z -> Zm = z))%Z) by (unfold Zm; destruct (Z.ltb_spec z 0); lia).
  assert (BY: (0 <= Y < 2^12 /\ (y < 0 -> Y = y + 2^12) /\ (0 <= y -> Y = y))%Z) by (unfold Y; destruct (Z.ltb_spec y 0); lia).
  clearbody X Zm Y.
  (* v = the int64 the reader sees *)
  assert (EV: (sx64 P = if x <? 0 then Z.of_N P - 2^64 else Z.of_N P)%Z).
  { unfold sx64, sx. change (2^(64-1)) with 9223372036854775808. change (Z.of_N 64) with 64%Z.
    destruct (N.ltb_spec P 9223372036854775808); destruct (Z.ltb_spec x 0); lia. }
  set (v := sx64 P) in *. clearbody v. rewrite EP in EV. clear EP HP. clearbody P.
  unfold pos_unpack. rewrite !Z.shiftr_div_pow2, !Z.shiftl_mul_pow2 by lia.
  (* the two wrapped left shifts *)
  assert (S52: (sx64 (u64 (v * 2^52)) = y * 2^52)%Z).
  { unfold sx64, u64. replace (v * 2^52)%Z with (y * 2^52 + (v * 2^52 - y * 2^52))%Z by lia.
    assert (exists q, (v * 2^52 - y * 2^52 = q * 2^64)%Z) as [q Hq].
    { destruct (Z.ltb_spec x 0); destruct (Z.ltb_spec y 0);
        [exists (X * 2^26 + Zm - 2^52 + 1)%Z | exists (X * 2^26 + Zm - 2^52)%Z
        | exists (X * 2^26 + Zm + 1)%Z | exists (X * 2^26 + Zm)%Z]; lia. }
    rewrite Hq. unfold wrapu. change (Z.of_N 64) with 64%Z. rewrite Z.mod_add by lia.
    fold (wrapu 64 (y * 2^52)). apply sx_wrapu; [lia|]. unfold in_sw. cbn. lia. }
  assert (S26: (sx64 (u64 (v * 2^26)) = (z * 2^12 + Y) * 2^26)%Z).
  { unfold sx64, u64. replace (v * 2^26)%Z with ((z * 2^12 + Y) * 2^26 + (v * 2^26 - (z * 2^12 + Y) * 2^26))%Z by lia.
    assert (exists q, (v * 2^26 - (z * 2^12 + Y) * 2^26 = q * 2^64)%Z) as [q Hq].
    { destruct (Z.ltb_spec x 0); destruct (Z.ltb_spec z 0);
        [exists (X - 2^26 + 1)%Z | exists (X - 2^26)%Z | exists (X + 1)%Z | exists X]; lia. }
    rewrite Hq. unfold wrapu. change (Z.of_N 64) with 64%Z. rewrite Z.mod_add by lia.
    fold (wrapu 64 ((z * 2^12 + Y) * 2^26)). apply sx_wrapu; [lia|]. unfold in_sw. cbn. lia. }
  rewrite S52, S26. clear S52 S26.
  f_equal.
  - destruct (Z.ltb_spec x 0); subst v; lia.
  - rewrite Z.div_mul by lia. reflexivity.
  - replace ((z * 2^12 + Y) * 2^26)%Z with (Y * 2^26 + z * 2^38)%Z by lia.
    rewrite Z.div_add by lia. rewrite Z.div_small by lia. lia.
Qed.

Lemma rt_pos x y z rest :
  (-2^25 <= x < 2^25)%Z -> (-2^11 <= y < 2^11)%Z -> (-2^25 <= z < 2^25)%Z ->
  run_flat r_pos (fst (w_pos x y z) ++ rest) = FOk (VPos x y z, lenN (fst (w_pos x y z))) rest.
Proof.
  intros Hx Hy Hz. unfold r_pos, w_pos, wbytes. cbn [fst].
  rewrite run_readfull_app by (unfold lenN; rewrite be_length; reflexivity).
  cbn [run_flat]. rewrite unbe_be.
  rewrite N.mod_small by (change (256 ^ N.of_nat 8) with (2^64); apply pos_pack_lt).
  rewrite pos_unpack_pack by assumption. reflexivity.
Qed.
