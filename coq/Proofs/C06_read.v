(* C06 proofs, part 2: readers - generic run lemmas, robustness, leaf round trips *)
From Coq Require Import List Arith NArith ZArith Lia Bool ZifyN ZifyNat ZifyBool.
From GoMC Require Import Base.Bytes Base.Bits Base.Dec Gen.Consts Model.C05 Proofs.C05 Model.C06.
Import ListNotations.
Open Scope N_scope.
Ltac Zify.zify_post_hook ::= Z.div_mod_to_equations.

(* ---------------------------------------------------------------- generic *)
Lemma run_readfull_app {A} n (k : list N -> dec A) bs rest :
  lenN bs = n -> run_flat (ReadFull n k) (bs ++ rest) = run_flat (k bs) rest.
Proof.
  intros H. cbn [run_flat]. rewrite lenN_app.
  destruct (N.leb_spec n (lenN bs + lenN rest)) as [_|C]; [|lia].
  unfold takeN, dropN. subst n. unfold lenN. rewrite Nat2N.id.
  rewrite firstn_app_exact, skipn_app_exact. reflexivity.
Qed.

Lemma run_bind_ok {A B} (d : dec A) (f : A -> dec B) s a r :
  robust d -> run_flat d s = FOk a r -> run_flat (bind d f) s = run_flat (f a) r.
Proof. intros R H. rewrite run_flat_bind by exact R. rewrite H. reflexivity. Qed.

(* ---------------------------------------------------------------- robustness (no bare Read anywhere) *)
Lemma r_elems_robust re olds : (forall o, robust (re o)) ->
  forall fuel i len, robust (r_elems fuel re olds i len).
Proof.
  intros Hre. induction fuel as [|f IH]; intros i len; cbn [r_elems]; destruct (len <=? i); try constructor.
  apply robust_bind; [apply Hre|]. intros [v n1].
  apply robust_bind; [apply IH|]. intros [vs n2]. constructor.
Qed.

Lemma r_len_robust l : robust (r_len l).
Proof.
  destruct l; cbn [r_len]; try apply read32_robust; try apply read64_robust;
    constructor; intros; constructor.
Qed.

Lemma r_fixed_robust n c : robust (r_fixed n c).
Proof. constructor. intros. constructor. Qed.

Lemma read_f_robust fuel : forall t old, robust (read_f fuel t old).
Proof.
  induction t as [| | | | | | | | | | | | | | | | |l e IH|e IH|has e IH|a IHa b IHb|]; intros old; cbn [read_f];
    try apply r_fixed_robust;
    try (constructor; intros; constructor).
  - (* varint *) unfold r_varint. apply robust_bind; [apply read32_robust|]. intros [z n]. constructor.
  - unfold r_varlong. apply robust_bind; [apply read64_robust|]. intros [z n]. constructor.
  - unfold r_string. apply robust_bind; [apply read32_robust|]. intros [z n]. cbn beta iota.
    destruct (z <? 0)%Z; constructor. intros; constructor.
  - unfold r_bytearray. apply robust_bind; [apply read32_robust|]. intros [z n]. cbn beta iota.
    destruct (z <? 0)%Z; [constructor|]. destruct (_ <? z)%Z; constructor; intros; constructor.
  - unfold r_bitset. apply robust_bind; [apply read32_robust|]. intros [z n]. cbn beta iota.
    destruct (z <? 0)%Z; [constructor|].
    apply robust_bind; [apply r_elems_robust; intros; apply r_fixed_robust|]. intros [vs n2]. constructor.
  - unfold r_ary. apply robust_bind; [apply r_len_robust|]. intros [z n]. cbn beta iota.
    destruct (z <? 0)%Z; [constructor|].
    apply robust_bind; [apply r_elems_robust; exact IH|]. intros [vs n2]. constructor.
  - unfold r_option. apply robust_bind; [constructor; intros; constructor|]. intros [h n1]. cbn beta iota.
    destruct (bof h); [|constructor]. apply robust_bind; [apply IH|]. intros [v n2]. constructor.
  - destruct has; [apply IH|constructor].
  - unfold r_pair. apply robust_bind; [apply IHa|]. intros [va na].
    apply robust_bind; [apply IHb|]. intros [vb nb]. constructor.
Qed.

Lemma scan_robust fuel : forall fs, robust (scan fuel fs).
Proof.
  induction fs as [|[t old] fs IH]; cbn [scan]; [constructor|].
  apply robust_bind; [apply read_f_robust|]. intros [v n].
  apply robust_bind; [exact IH|]. intros vs. constructor.
Qed.

(* ---------------------------------------------------------------- fixed-width leaves *)
Lemma wrapu_eq w z : wrapu w z = Z.to_N (z mod 2 ^ Z.of_N w). Proof. reflexivity. Qed.

Lemma r_fixed_rt (k : nat) conv u rest :
  run_flat (r_fixed (N.of_nat k) conv) (be k u ++ rest)
  = FOk (VZ (conv (u mod 256 ^ N.of_nat k)), N.of_nat k) rest.
Proof.
  unfold r_fixed. rewrite run_readfull_app by (unfold lenN; rewrite be_length; reflexivity).
  cbn [run_flat]. rewrite unbe_be. reflexivity.
Qed.

Lemma u8_small z : u8 z mod 256 = u8 z.
Proof. apply N.mod_small. change 256 with (2^8). apply wrapu_lt. Qed.
Lemma u16_small z : u16 z mod 256 ^ 2 = u16 z.
Proof. apply N.mod_small. change (256^2) with (2^16). apply wrapu_lt. Qed.
Lemma u32_small z : u32 z mod 256 ^ 4 = u32 z.
Proof. apply N.mod_small. change (256^4) with (2^32). apply wrapu_lt. Qed.
Lemma u64_small z : u64 z mod 256 ^ 8 = u64 z.
Proof. apply N.mod_small. change (256^8) with (2^64). apply wrapu_lt. Qed.

Lemma in_sw8 z : (-128 <= z < 128)%Z -> in_sw 8 z. Proof. unfold in_sw. cbn. lia. Qed.
Lemma in_sw16 z : (-32768 <= z < 32768)%Z -> in_sw 16 z. Proof. unfold in_sw. cbn. lia. Qed.
Lemma in_sw32 z : (-2^31 <= z < 2^31)%Z -> in_sw 32 z. Proof. unfold in_sw. cbn. lia. Qed.
Lemma in_sw64 z : (-2^63 <= z < 2^63)%Z -> in_sw 64 z. Proof. unfold in_sw. cbn. lia. Qed.

Lemma of_wrapu w z : (0 <= z < 2 ^ Z.of_N w)%Z -> Z.of_N (wrapu w z) = z.
Proof. intros H. unfold wrapu. rewrite Z.mod_small by exact H. lia. Qed.

(* results are stated as:  run (reader) (image ++ rest) = Ok (value, |image|) rest *)
Lemma rt_bool b rest : run_flat r_bool (fst (w_bool b) ++ rest) = FOk (VB b, lenN (fst (w_bool b))) rest.
Proof. destruct b; reflexivity. Qed.

Lemma rt_byte z rest : (-128 <= z < 128)%Z ->
  run_flat r_byte (fst (w_byte z) ++ rest) = FOk (VZ z, lenN (fst (w_byte z))) rest.
Proof.
  intros H. cbn [w_byte wbytes fst app run_flat r_byte]. rewrite u8_small.
  unfold sx8, u8. rewrite sx_wrapu by (try apply in_sw8; auto; lia). reflexivity.
Qed.

Lemma rt_ubyte z rest : (0 <= z < 256)%Z ->
  run_flat r_ubyte (fst (w_byte z) ++ rest) = FOk (VZ z, lenN (fst (w_byte z))) rest.
Proof.
  intros H. cbn [w_byte wbytes fst app run_flat r_ubyte]. rewrite u8_small.
  unfold u8. rewrite of_wrapu by (cbn; lia). reflexivity.
Qed.

Lemma rt_short z rest : (-32768 <= z < 32768)%Z ->
  run_flat r_short (fst (w_short z) ++ rest) = FOk (VZ z, lenN (fst (w_short z))) rest.
Proof.
  intros H. unfold r_short, w_short, wbytes. cbn [fst]. change 2 with (N.of_nat 2) at 1.
  rewrite r_fixed_rt. change (N.of_nat 2) with 2. rewrite u16_small.
  unfold sx16, u16. rewrite sx_wrapu by (try apply in_sw16; auto; lia). reflexivity.
Qed.

Lemma rt_ushort z rest : (0 <= z < 65536)%Z ->
  run_flat r_ushort (fst (w_short z) ++ rest) = FOk (VZ z, lenN (fst (w_short z))) rest.
Proof.
  intros H. unfold r_ushort, w_short, wbytes. cbn [fst]. change 2 with (N.of_nat 2) at 1.
  rewrite r_fixed_rt. change (N.of_nat 2) with 2. rewrite u16_small.
  unfold u16. rewrite of_wrapu by (cbn; lia). reflexivity.
Qed.

Lemma rt_int z rest : (-2^31 <= z < 2^31)%Z ->
  run_flat r_int (fst (w_int z) ++ rest) = FOk (VZ z, lenN (fst (w_int z))) rest.
Proof.
  intros H. unfold r_int, w_int, wbytes. cbn [fst]. change 4 with (N.of_nat 4) at 1.
  rewrite r_fixed_rt. change (N.of_nat 4) with 4. rewrite u32_small.
  unfold sx32, u32. rewrite sx_wrapu by (try apply in_sw32; auto; lia). reflexivity.
Qed.

Lemma rt_long z rest : (-2^63 <= z < 2^63)%Z ->
  run_flat r_long (fst (w_long z) ++ rest) = FOk (VZ z, lenN (fst (w_long z))) rest.
Proof.
  intros H. unfold r_long, w_long, wbytes. cbn [fst]. change 8 with (N.of_nat 8) at 1.
  rewrite r_fixed_rt. change (N.of_nat 8) with 8. rewrite u64_small.
  unfold sx64, u64. rewrite sx_wrapu by (try apply in_sw64; auto; lia). reflexivity.
Qed.

Lemma rt_float z rest : (0 <= z < 2^32)%Z ->
  run_flat r_float (fst (w_float z) ++ rest) = FOk (VZ z, lenN (fst (w_float z))) rest.
Proof.
  intros H. unfold r_float, w_float, w_int, wbytes. cbn [fst]. change 4 with (N.of_nat 4) at 1.
  rewrite r_fixed_rt. change (N.of_nat 4) with 4. rewrite u32_small.
  unfold sx32, u32. rewrite !wrapu_sx by (try apply wrapu_lt; lia).
  rewrite of_wrapu by (cbn; lia). reflexivity.
Qed.

Lemma rt_double z rest : (0 <= z < 2^64)%Z ->
  run_flat r_double (fst (w_double z) ++ rest) = FOk (VZ z, lenN (fst (w_double z))) rest.
Proof.
  intros H. unfold r_double, w_double, w_long, wbytes. cbn [fst]. change 8 with (N.of_nat 8) at 1.
  rewrite r_fixed_rt. change (N.of_nat 8) with 8. rewrite u64_small.
  unfold sx64, u64. rewrite !wrapu_sx by (try apply wrapu_lt; lia).
  rewrite of_wrapu by (cbn; lia). reflexivity.
Qed.

Lemma rt_varint z rest : (-2^31 <= z < 2^31)%Z ->
  run_flat r_varint (fst (w_varint z) ++ rest) = FOk (VZ z, lenN (fst (w_varint z))) rest.
Proof.
  intros H. unfold r_varint, w_varint, wbytes. cbn [fst].
  rewrite (run_bind_ok _ _ _ _ _ read32_robust (read32_write32 z rest (in_sw32 z H))). reflexivity.
Qed.

Lemma rt_varlong z rest : (-2^63 <= z < 2^63)%Z ->
  run_flat r_varlong (fst (w_varlong z) ++ rest) = FOk (VZ z, lenN (fst (w_varlong z))) rest.
Proof.
  intros H. unfold r_varlong, w_varlong, wbytes. cbn [fst].
  rewrite (run_bind_ok _ _ _ _ _ read64_robust (read64_write64 z rest (in_sw64 z H))). reflexivity.
Qed.

(* ---------------------------------------------------------------- length-prefixed byte strings *)
Lemma lenbytes_img bs : fst (w_lenbytes bs) = write32 (Z.of_N (lenN bs)) ++ bs.
Proof. reflexivity. Qed.

Lemma rt_string bs rest : lenN bs < 2^31 ->
  run_flat r_string (fst (w_lenbytes bs) ++ rest) = FOk (VBytes bs [], lenN (fst (w_lenbytes bs))) rest.
Proof.
  intros H. rewrite lenbytes_img, <- app_assoc. unfold r_string.
  assert (D: in_sw 32 (Z.of_N (lenN bs))) by (apply in_sw32; lia).
  rewrite (run_bind_ok _ _ _ _ _ read32_robust (read32_write32 _ (bs ++ rest) D)). cbn beta iota.
  destruct (Z.ltb_spec (Z.of_N (lenN bs)) 0) as [C|_]; [lia|].
  rewrite N2Z.id. rewrite run_readfull_app by reflexivity. cbn [run_flat]. rewrite lenN_app. reflexivity.
Qed.

Lemma rt_bytearray bs old rest : lenN bs < 2^31 ->
  run_flat (r_bytearray old) (fst (w_lenbytes bs) ++ rest) = FOk (VBytes bs [], lenN (fst (w_lenbytes bs))) rest.
Proof.
  intros H. rewrite lenbytes_img, <- app_assoc. unfold r_bytearray.
  assert (D: in_sw 32 (Z.of_N (lenN bs))) by (apply in_sw32; lia).
  rewrite (run_bind_ok _ _ _ _ _ read32_robust (read32_write32 _ (bs ++ rest) D)). cbn beta iota.
  destruct (Z.ltb_spec (Z.of_N (lenN bs)) 0) as [C|_]; [lia|].
  rewrite N2Z.id.
  destruct (_ <? _)%Z; rewrite run_readfull_app by reflexivity; cbn [run_flat]; rewrite lenN_app; reflexivity.
Qed.

Lemma rt_uuid bs rest : lenN bs = 16 ->
  run_flat r_uuid (fst (wbytes bs) ++ rest) = FOk (VBytes bs [], lenN (fst (wbytes bs))) rest.
Proof.
  intros H. unfold r_uuid, wbytes. cbn [fst]. rewrite run_readfull_app by exact H. cbn [run_flat].
  rewrite H. reflexivity.
Qed.

(* FixedBitSet: the destination has the field's size; its prior content is irrelevant *)
Lemma rt_fixedbitset bs old rest : lenN old = lenN bs ->
  run_flat (r_fixedbitset old) (fst (w_raw bs) ++ rest) = FOk (bs, lenN (fst (w_raw bs))) rest.
Proof.
  intros H. unfold r_fixedbitset, w_raw, wbytes. cbn [fst]. rewrite run_readfull_app by (symmetry; exact H).
  cbn [run_flat]. rewrite H. reflexivity.
Qed.

Lemma rt_plugin bs : r_plugin (fst (w_raw bs)) = FOk (bs, lenN (fst (w_raw bs))) [].
Proof. reflexivity. Qed.
