(* C06: the tie between the hand-written models of the reflection-heavy functions of net/packet and the source.
   1. *_skel_ok: the statement skeletons tools/gotrans/c06.go renders from the repository on every run
      (Gen/C06gen.v) are the ones recorded in Proofs/C06_skel_expected.v (reflexivity; any edit of these
      25 function bodies other than comments and layout - a reordered statement, a changed condition or
      constant, a dropped check - breaks one of them).
   2. An interpretation of the skeleton of Ary.ReadFrom: every statement of the rendered body is given its
      meaning on the model's state (the length read with the prefix type's reader, the `Len < 0` check, the
      resize decision `array.Cap() < int(Len)` -> MakeSlice (zero elements) else SetLen (the backing array
      keeps what it held), the element loop, the final return); the lemma Ary_ReadFrom_is_skel says that the
      model's r_ary IS this interpretation of the skeleton generated from the source (by computation), for
      every prefix type, element reader and destination state.  What is not derived from the skeleton: the
      leaf table (which model operation a rendered Go statement denotes).
   3. NBTField: a model of the counting wrappers and of the ErrEND rule over an abstract NBT codec, as the
      interpretation of the skeletons of NBTField.ReadFrom / WriteTo, with count / round-trip lemmas. *)
From Coq Require Import List String ZArith NArith Bool Lia.
From GoMC Require Import Base.Bytes Base.Dec Gen.C06gen Model.C06_syntax Model.C05 Model.C06 Proofs.C06_skel_expected.
Import ListNotations.
Local Open Scope string_scope.
Local Open Scope list_scope.

(* ------------------------------------------------------------------ 1. the source is what was modelled *)
Lemma skel_readByte_ok : C06gen.skel_readByte = expected_readByte. Proof. reflexivity. Qed.
Lemma skel_readBytes_ok : C06gen.skel_readBytes = expected_readBytes. Proof. reflexivity. Qed.
Lemma skel_PluginMessageData_ReadFrom_ok : C06gen.skel_PluginMessageData_ReadFrom = expected_PluginMessageData_ReadFrom. Proof. reflexivity. Qed.
Lemma skel_NBTField_WriteTo_ok : C06gen.skel_NBTField_WriteTo = expected_NBTField_WriteTo. Proof. reflexivity. Qed.
Lemma skel_NBTField_ReadFrom_ok : C06gen.skel_NBTField_ReadFrom = expected_NBTField_ReadFrom. Proof. reflexivity. Qed.
Lemma skel_countingWriter_Write_ok : C06gen.skel_countingWriter_Write = expected_countingWriter_Write. Proof. reflexivity. Qed.
Lemma skel_countingReader_Read_ok : C06gen.skel_countingReader_Read = expected_countingReader_Read. Proof. reflexivity. Qed.
Lemma skel_NBT_ok : C06gen.skel_NBT = expected_NBT. Proof. reflexivity. Qed.
Lemma skel_Ary_WriteTo_ok : C06gen.skel_Ary_WriteTo = expected_Ary_WriteTo. Proof. reflexivity. Qed.
Lemma skel_Ary_ReadFrom_ok : C06gen.skel_Ary_ReadFrom = expected_Ary_ReadFrom. Proof. reflexivity. Qed.
Lemma skel_Array_ok : C06gen.skel_Array = expected_Array. Proof. reflexivity. Qed.
Lemma skel_Opt_has_ok : C06gen.skel_Opt_has = expected_Opt_has. Proof. reflexivity. Qed.
Lemma skel_Opt_WriteTo_ok : C06gen.skel_Opt_WriteTo = expected_Opt_WriteTo. Proof. reflexivity. Qed.
Lemma skel_Opt_ReadFrom_ok : C06gen.skel_Opt_ReadFrom = expected_Opt_ReadFrom. Proof. reflexivity. Qed.
Lemma skel_Option_WriteTo_ok : C06gen.skel_Option_WriteTo = expected_Option_WriteTo. Proof. reflexivity. Qed.
Lemma skel_Option_ReadFrom_ok : C06gen.skel_Option_ReadFrom = expected_Option_ReadFrom. Proof. reflexivity. Qed.
Lemma skel_OptionDecoder_ReadFrom_ok : C06gen.skel_OptionDecoder_ReadFrom = expected_OptionDecoder_ReadFrom. Proof. reflexivity. Qed.
Lemma skel_OptionEncoder_WriteTo_ok : C06gen.skel_OptionEncoder_WriteTo = expected_OptionEncoder_WriteTo. Proof. reflexivity. Qed.
Lemma skel_Tuple_WriteTo_ok : C06gen.skel_Tuple_WriteTo = expected_Tuple_WriteTo. Proof. reflexivity. Qed.
Lemma skel_Tuple_ReadFrom_ok : C06gen.skel_Tuple_ReadFrom = expected_Tuple_ReadFrom. Proof. reflexivity. Qed.
Lemma skel_CreateByteReader_ok : C06gen.skel_CreateByteReader = expected_CreateByteReader. Proof. reflexivity. Qed.
Lemma skel_byteReaderWrapper_ReadByte_ok : C06gen.skel_byteReaderWrapper_ReadByte = expected_byteReaderWrapper_ReadByte. Proof. reflexivity. Qed.
Lemma skel_Marshal_ok : C06gen.skel_Marshal = expected_Marshal. Proof. reflexivity. Qed.
Lemma skel_Packet_Scan_ok : C06gen.skel_Packet_Scan = expected_Packet_Scan. Proof. reflexivity. Qed.
Lemma skel_Builder_WriteField_ok : C06gen.skel_Builder_WriteField = expected_Builder_WriteField. Proof. reflexivity. Qed.
Lemma skel_Builder_Packet_ok : C06gen.skel_Builder_Packet = expected_Builder_Packet. Proof. reflexivity. Qed.

(* ------------------------------------------------------------------ 2. Ary.ReadFrom *)
Section AryRead.
Variables (fuel : nat) (l : lenk) (re : fval -> rd) (zero : fval) (old : fval).

Record ast := { a_len : Z; a_n : N; a_nn : N; a_olds : N -> fval; a_vs : list fval }.
Definition ast0 : ast := {| a_len := 0; a_n := 0; a_nn := 0; a_olds := fun _ => zero; a_vs := [] |}.
Definition eUnknown : N := 99.           (* a statement this interpreter gives no meaning to *)
Definition seq := String.eqb.

Definition first_text := "first := min(int(Len), maxPreallocElems)".
Definition mk_text := "array.Set(reflect.MakeSlice(array.Type(), first, first))".
Definition more_text := "more := min(int(Len)-i, i)".
Definition grow_text := "array.Set(reflect.AppendSlice(array, reflect.MakeSlice(array.Type(), more, more)))".
Definition setlen_text := "array.SetLen(int(Len))".
Definition loop_body_ok (body : list cstmt6) : bool :=
  match body with
  | [KIf gi gc [KOther g1; KOther g2] []; KOther a; KOther b; KOther c; KIf i d [KReturn e] []] =>
      (* `if i == array.Len() { more := ...; append `more` ZERO elements }`: only in a freshly made slice (a reused
         one has Len elements), and the elements added are zero like the ones MakeSlice gave: the slot an element
         is decoded into holds the zero value either way *)
      seq gi "" && seq gc "i == array.Len()" && seq g1 more_text && seq g2 grow_text
      && seq a "elem := array.Index(i)" && seq b "nn, err := elem.Addr().Interface().(FieldDecoder).ReadFrom(r)"
      && seq c "n += nn" && seq i "" && seq d "err != nil" && seq e "n, err"
  | _ => false
  end.

Fixpoint ary_read (ps : list cstmt6) (st : ast) {struct ps} : rd :=
  match ps with
  | [] => Crash eUnknown
  | KOther txt :: t =>
      if seq txt "var Len LEN" then ary_read t st                        (* Len = 0 until it is read *)
      else if seq txt "array := reflect.ValueOf(a.Ary)" then ary_read t st
      else Crash eUnknown
  | KIf init cond th el :: t =>
      if seq init "nn, err := any(&Len).(FieldDecoder).ReadFrom(r)" && seq cond "err != nil" then
        (* the length, read with the prefix type's own ReadFrom; then-branch = its failure path *)
        match th, el with
        | [KReturn r], [KOther e] =>
            if seq r "nn, err" && seq e "n += nn" then
              bind (r_len l) (fun x => let '(len, nn) := x in
                ary_read t {| a_len := len; a_n := a_n st + nn; a_nn := nn; a_olds := a_olds st; a_vs := a_vs st |})
            else Crash eUnknown
        | _, _ => Crash eUnknown
        end
      else if seq init "" && seq cond "Len < 0" then
        match th, el with
        | [KReturn _], [] => if (a_len st <? 0)%Z then Fail eNegLen else ary_read t st
        | _, _ => Crash eUnknown
        end
      else if seq init "" && seq cond "!array.CanAddr()" then
        (* the destination of a decode is addressable (a pointer to a slice): the model has no other case *)
        match th, el with
        | [KPanic _], [] => ary_read t st
        | _, _ => Crash eUnknown
        end
      else if seq init "" && seq cond "array.Cap() < int(Len)" then
        (* THE RESIZE DECISION: a fresh slice of zero elements (its first `first` ones now, the others as the
           loop reaches them), or the old backing array re-sliced *)
        match th, el with
        | [KOther a0; KOther a], [KOther b] =>
            if seq a0 first_text && seq a mk_text && seq b setlen_text then
              let backing := fst (list_of old) ++ snd (list_of old) in
              let olds := if (Z.of_N (lenN backing) <? a_len st)%Z then (fun _ => zero)
                          else (fun i => nth (N.to_nat i) backing zero) in
              ary_read t {| a_len := a_len st; a_n := a_n st; a_nn := a_nn st; a_olds := olds; a_vs := a_vs st |}
            else Crash eUnknown
        | _, _ => Crash eUnknown
        end
      else Crash eUnknown
  | KFor init cond post body :: t =>
      if seq init "" && seq cond "array.Kind() == reflect.Ptr" && seq post "" then
        match body with
        | [KOther a] => if seq a "array = array.Elem()" then ary_read t st else Crash eUnknown
        | _ => Crash eUnknown
        end
      else if seq init "i := 0" && seq cond "i < int(Len)" && seq post "i++" && loop_body_ok body then
        bind (r_elems fuel re (a_olds st) 0 (Z.to_N (a_len st))) (fun x => let '(vs, n2) := x in
          ary_read t {| a_len := a_len st; a_n := a_n st + n2; a_nn := a_nn st; a_olds := a_olds st; a_vs := vs |})
      else Crash eUnknown
  | KReturn r :: _ => if seq r "n, err" then Ret (VList (a_vs st) [], a_n st) else Crash eUnknown
  | _ => Crash eUnknown
  end.

(* the model's Ary reader is the interpretation of the skeleton generated from the source *)
Lemma Ary_ReadFrom_is_skel : ary_read (snd C06gen.skel_Ary_ReadFrom) ast0 = r_ary fuel l re zero old.
Proof. reflexivity. Qed.
End AryRead.

(* ------------------------------------------------------------------ 3. NBTField *)
Section NBTRead.
Variables (eEND : N) (A : Type) (d : dec A).      (* d: what dec.Decode(n.V) does on the stream *)

Record nst := { n_counting : bool; n_through_cr : bool; n_raw : option (dec A); n_caught : option (dec (option A)) }.
Definition nst0 : nst := {| n_counting := false; n_through_cr := false; n_raw := None; n_caught := None |}.

Fixpoint nbt_read (ps : list cstmt6) (st : nst) {struct ps} : dec (option A * N) :=
  match ps with
  | [] => Crash eUnknown
  | KOther txt :: t =>
      if seq txt "cr := countingReader{r: r}" then
        nbt_read t {| n_counting := true; n_through_cr := n_through_cr st; n_raw := n_raw st; n_caught := n_caught st |}
      else if seq txt "dec := nbt.NewDecoder(&cr)" then            (* the decoder reads THROUGH the counter *)
        nbt_read t {| n_counting := n_counting st; n_through_cr := n_counting st; n_raw := n_raw st; n_caught := n_caught st |}
      else if seq txt "dec.NetworkFormat(true)" then nbt_read t st   (* configuration of d *)
      else if seq txt "_, err := dec.Decode(n.V)" then
        nbt_read t {| n_counting := n_counting st; n_through_cr := n_through_cr st; n_raw := Some d; n_caught := None |}
      else Crash eUnknown
  | KIf init cond th el :: t =>
      if seq init "" && seq cond "!n.AllowUnknownFields" then
        match th, el with
        | [KOther a], [] => if seq a "dec.DisallowUnknownFields()" then nbt_read t st else Crash eUnknown   (* configuration of d *)
        | _, _ => Crash eUnknown
        end
      else if seq init "" && seq cond "err != nil" then
        (* if !errors.Is(err, nbt.ErrEND) { return cr.n, err }; err = nil *)
        match th, el, n_raw st with
        | [KIf i c [KReturn r] []; KOther e], [], Some raw =>
            if seq i "" && seq c "!errors.Is(err, nbt.ErrEND)" && seq r "cr.n, err" && seq e "err = nil" then
              nbt_read t {| n_counting := n_counting st; n_through_cr := n_through_cr st; n_raw := None;
                            n_caught := Some (nbt_catch_end eEND raw) |}
            else Crash eUnknown
        | _, _, _ => Crash eUnknown
        end
      else Crash eUnknown
  | KReturn r :: _ =>
      match n_caught st with
      | Some c => if seq r "cr.n, nil" && n_through_cr st then nbt_counting c 0 else Crash eUnknown
      | None => Crash eUnknown
      end
  | _ => Crash eUnknown
  end.

Lemma NBTField_ReadFrom_is_skel : nbt_read (snd C06gen.skel_NBTField_ReadFrom) nst0 = r_nbtfield eEND d.
Proof. reflexivity. Qed.

(* the count is the number of bytes consumed, on every input on which the field read succeeds - including
   the reads that an ErrEND ended early *)
Lemma nbt_catch_end_robust (x : dec A) : robust x -> robust (nbt_catch_end eEND x).
Proof. induction 1; cbn [nbt_catch_end]; try constructor; auto. destruct (e =? eEND)%N; constructor. Qed.

Lemma counting_consumes {B} (x : dec B) : robust x -> forall n0 s r n rest,
  run_flat (nbt_counting x n0) s = FOk (r, n) rest -> exists c, s = c ++ rest /\ (n = n0 + lenN c)%N.
Proof.
  induction 1 as [a|e|w| |k Hk IH|m k Hk IH]; intros n0 s r n rest H; cbn [nbt_counting run_flat] in H; try discriminate.
  - injection H as _ <- <-. exists []. split; [reflexivity|]. rewrite lenN_nil. lia.
  - destruct s as [|b s]; [discriminate|]. destruct (IH b _ _ _ _ _ H) as (c & -> & ->).
    exists (b :: c). split; [reflexivity|]. rewrite lenN_cons. lia.
  - destruct (N.leb_spec m (lenN s)) as [L|L]; [|discriminate].
    destruct (IH _ _ _ _ _ _ H) as (c & Hc & ->).
    exists (takeN m s ++ c). split.
    + rewrite <- app_assoc, <- Hc. unfold takeN, dropN. symmetry. apply firstn_skipn.
    + rewrite lenN_app. assert (lenN (takeN m s) = m) by (unfold lenN, takeN in *; rewrite firstn_length; lia). lia.
Qed.

Lemma nbtfield_count : robust d -> forall s r n rest,
  run_flat (r_nbtfield eEND d) s = FOk (r, n) rest -> exists c, s = c ++ rest /\ lenN c = n.
Proof.
  intros R s r n rest H. destruct (counting_consumes _ (nbt_catch_end_robust d R) 0%N s r n rest H) as (c & Hc & Hn).
  exists c. split; [exact Hc|lia].
Qed.

(* what the wrapper does to the decoder's own outcome: success stays success (with the count of the bytes
   consumed), ErrEND becomes success with no value, any other error stays an error *)
Lemma counting_run {B} (x : dec B) : robust x -> forall n0 s,
  run_flat (nbt_counting x n0) s =
  match run_flat x s with
  | FOk a rest => FOk (a, (n0 + (lenN s - lenN rest))%N) rest
  | FErr e => FErr e | FPanic w => FPanic w | FFuel => FFuel
  end.
Proof.
  induction 1 as [a|e|w| |k Hk IH|m k Hk IH]; intros n0 s; cbn [nbt_counting run_flat]; try reflexivity.
  - do 2 f_equal. lia.
  - destruct s as [|b s]; [reflexivity|]. rewrite IH.
    destruct (run_flat (k b) s) as [a rest| | |] eqn:E; try reflexivity.
    destruct (robust_rest_suffix _ (Hk b) _ _ _ E) as [c ->]. rewrite lenN_cons, lenN_app. do 2 f_equal. lia.
  - destruct (N.leb_spec m (lenN s)) as [L|L]; [|reflexivity]. rewrite IH.
    destruct (run_flat (k (takeN m s)) (dropN m s)) as [a rest| | |] eqn:E; try reflexivity.
    destruct (robust_rest_suffix _ (Hk _) _ _ _ E) as [c Hc].
    assert (Ld : lenN (dropN m s) = (lenN s - m)%N) by (unfold lenN, dropN in *; rewrite skipn_length; lia).
    assert (Lr : (lenN (dropN m s) = lenN c + lenN rest)%N) by (rewrite Hc; apply lenN_app).
    do 2 f_equal. lia.
Qed.

Lemma nbt_catch_end_ok (x : dec A) : robust x -> forall s a rest,
  run_flat x s = FOk a rest -> run_flat (nbt_catch_end eEND x) s = FOk (Some a) rest.
Proof.
  induction 1 as [a0|e|w| |k Hk IH|m k Hk IH]; intros s a rest H; cbn [nbt_catch_end run_flat] in *; try discriminate.
  - injection H as <- <-. reflexivity.
  - destruct s as [|b s]; [discriminate|]. apply IH, H.
  - destruct (m <=? lenN s)%N; [|discriminate]. apply IH, H.
Qed.

(* ROUND TRIP through the wrapper: whatever the NBT decoder reads back from an image, the field returns it,
   counts exactly the image, and leaves what follows *)
Lemma nbtfield_roundtrip : robust d -> forall img rest v,
  run_flat d (img ++ rest) = FOk v rest ->
  run_flat (r_nbtfield eEND d) (img ++ rest) = FOk (Some v, lenN img) rest.
Proof.
  intros R img rest v H. unfold r_nbtfield. rewrite counting_run by (apply nbt_catch_end_robust, R).
  rewrite (nbt_catch_end_ok d R _ _ _ H). rewrite lenN_app. do 2 f_equal. lia.
Qed.
End NBTRead.

(* THE ErrEND RULE on the image of a nil value: a decoder that answers a root TagEnd with ErrEND makes the
   field succeed with count 1 and no value, leaving what follows *)
Lemma nbtfield_end eEND A (k : N -> dec A) rest : k 0%N = Fail eEND ->
  run_flat (r_nbtfield eEND (ReadByte k)) (fst (w_nbtfield None) ++ rest) = FOk (None, 1%N) rest.
Proof.
  intros H. unfold r_nbtfield. cbn [w_nbtfield wbytes fst app nbt_catch_end nbt_counting run_flat]. rewrite H.
  cbn [nbt_catch_end]. rewrite N.eqb_refl. reflexivity.
Qed.

(* countingWriter: the count is the number of bytes written *)
Lemma w_counted_count ws : snd (w_counted ws) = lenN (fst (w_counted ws)).
Proof.
  unfold w_counted. assert (G : forall acc : wres, snd acc = lenN (fst acc) ->
    snd (fold_left (fun acc p => (fst acc ++ p, (snd acc + lenN p)%N)) ws acc)
    = lenN (fst (fold_left (fun acc p => (fst acc ++ p, (snd acc + lenN p)%N)) ws acc))).
  { induction ws as [|p ws IH]; intros acc Ha; [exact Ha|]. cbn [fold_left]. apply IH. cbn [fst snd].
    rewrite lenN_app, Ha. reflexivity. }
  apply G. reflexivity.
Qed.
Lemma w_nbtfield_count enc : snd (w_nbtfield enc) = lenN (fst (w_nbtfield enc)).
Proof. destruct enc; [apply w_counted_count|reflexivity]. Qed.

(* ------------------------------------------------------------------ 4. Packet.Scan, Marshal, Builder *)
From GoMC Require Import Proofs.C06_read.
Section ScanSkel.
Variable fuel : nat.

(* for i, v := range fields { _, err := v.ReadFrom(r); if err != nil { return ... } }: the fields in order on ONE
   reader, the counts dropped, the first error ends the scan *)
Fixpoint scan_loop (fs : list (fty * fval)) (k : list fval -> dec (list fval)) : dec (list fval) :=
  match fs with
  | [] => k []
  | (t, old) :: fs' => bind (read_f fuel t old) (fun x => let '(v, _) := x in scan_loop fs' (fun vs => k (v :: vs)))
  end.

Definition scan_body_ok (body : list cstmt6) : bool :=
  match body with
  | [KOther a; KIf i c [KReturn r] []] =>
      seq a "_, err := v.ReadFrom(r)" && seq i "" && seq c "err != nil"
      && seq r "fmt.Errorf(""scanning packet field[%d] error: %w"", i, err)"
  | _ => false
  end.

Fixpoint scan_interp (ps : list cstmt6) (fs : list (fty * fval)) (vs : list fval) {struct ps} : dec (list fval) :=
  match ps with
  | KOther txt :: t => if seq txt "r := bytes.NewReader(p.Data)" then scan_interp t fs vs else Crash eUnknown
  | KRange key val x body :: t =>
      if seq key "i" && seq val "v" && seq x "fields" && scan_body_ok body
      then scan_loop fs (fun vs' => scan_interp t [] vs') else Crash eUnknown
  | KReturn r :: _ => if seq r "nil" then Ret vs else Crash eUnknown
  | _ => Crash eUnknown
  end.

Lemma scan_loop_run fs : forall k s,
  run_flat (scan_loop fs k) s =
  match run_flat (scan fuel fs) s with
  | FOk vs r => run_flat (k vs) r
  | FErr e => FErr e | FPanic w => FPanic w | FFuel => FFuel
  end.
Proof.
  induction fs as [|[t old] fs IH]; intros k s; [reflexivity|].
  cbn [scan_loop scan]. rewrite !run_flat_bind by apply read_f_robust.
  destruct (run_flat (read_f fuel t old) s) as [[v n] r| | |]; try reflexivity.
  rewrite IH. rewrite run_flat_bind by apply scan_robust.
  destruct (run_flat (scan fuel fs) r) as [vs r'| | |]; reflexivity.
Qed.

Lemma Packet_Scan_is_skel fs s :
  run_flat (scan_interp (snd C06gen.skel_Packet_Scan) fs []) s = run_flat (scan fuel fs) s.
Proof.
  change (scan_interp (snd C06gen.skel_Packet_Scan) fs []) with (scan_loop fs (fun vs' => Ret vs')).
  rewrite scan_loop_run. destruct (run_flat (scan fuel fs) s); reflexivity.
Qed.
End ScanSkel.

(* Marshal: var pb Builder; for each field pb.WriteField(v) (= f.WriteTo(&p.buf), panic on error: none on a
   bytes.Buffer); return pb.Packet(id) (= Data: p.buf.Bytes()) *)
Definition writefield_ok (s : string * list cstmt6) : bool :=
  match snd s with
  | [KRange k v x [KOther a; KIf i c [KPanic e] []]] =>
      seq k "_" && seq v "f" && seq x "fields" && seq a "_, err := f.WriteTo(&p.buf)" && seq i "" && seq c "err != nil" && seq e "err"
  | _ => false
  end.
Definition builder_packet_ok (s : string * list cstmt6) : bool :=
  match snd s with
  | [KReturn r] => seq r "Packet{ID: id, Data: p.buf.Bytes()}"
  | _ => false
  end.
Fixpoint marshal_interp (ps : list cstmt6) (fs : list (fty * fval)) (buf : list N) {struct ps} : option (list N) :=
  match ps with
  | KOther txt :: t => if seq txt "var pb Builder" then marshal_interp t fs [] else None
  | KRange k v x [KOther a] :: t =>
      if seq k "_" && seq v "v" && seq x "fields" && seq a "pb.WriteField(v)" && writefield_ok C06gen.skel_Builder_WriteField
      then marshal_interp t fs (fold_left (fun b tv => b ++ fst (wr (fst tv) (snd tv))) fs buf) else None
  | KReturn r :: _ => if seq r "pb.Packet(int32(id))" && builder_packet_ok C06gen.skel_Builder_Packet then Some buf else None
  | _ => None
  end.

Lemma fold_app_concat (fs : list (fty * fval)) : forall buf,
  fold_left (fun b tv => b ++ fst (wr (fst tv) (snd tv))) fs buf = buf ++ marshal fs.
Proof.
  unfold marshal. induction fs as [|f fs IH]; intros buf; cbn [fold_left map concat]; [rewrite app_nil_r; reflexivity|].
  rewrite IH, <- app_assoc. reflexivity.
Qed.
Lemma Marshal_is_skel fs : marshal_interp (snd C06gen.skel_Marshal) fs [] = Some (marshal fs).
Proof.
  change (marshal_interp (snd C06gen.skel_Marshal) fs [])
    with (Some (fold_left (fun b tv => b ++ fst (wr (fst tv) (snd tv))) fs [])).
  rewrite fold_app_concat. reflexivity.
Qed.

(* ------------------------------------------------------------------ 5. Option / OptionDecoder / OptionEncoder, Opt, Ary.WriteTo *)
(* Option.ReadFrom: the Boolean, `err != nil || !o.Has` -> return n1 (Val untouched), else Val's own ReadFrom *)
Section OptionSkel.
Variables (re : fval -> rd) (zero : fval) (old : fval).
Definition oldval : fval := match old with VOpt _ x => x | _ => zero end.
Record ost := { o_has : bool; o_n1 : N; o_val : fval; o_n2 : N }.
Fixpoint option_read (ps : list cstmt6) (st : ost) {struct ps} : rd :=
  match ps with
  | KOther txt :: t =>
      if seq txt "n1, err := o.Has.ReadFrom(r)" then
        bind r_bool (fun x => let '(h, n1) := x in option_read t {| o_has := bof h; o_n1 := n1; o_val := o_val st; o_n2 := 0 |})
      else if seq txt "n2, err := P(&o.Val).ReadFrom(r)" then
        bind (re (o_val st)) (fun x => let '(v, n2) := x in option_read t {| o_has := o_has st; o_n1 := o_n1 st; o_val := v; o_n2 := n2 |})
      else Crash eUnknown
  | KIf init cond [KReturn r] [] :: t =>
      if seq init "" && seq cond "err != nil || !o.Has" && seq r "n1, err" then
        if o_has st then option_read t st else Ret (VOpt false (o_val st), o_n1 st)
      else Crash eUnknown
  | KReturn r :: _ => if seq r "n1 + n2, err" then Ret (VOpt true (o_val st), o_n1 st + o_n2 st) else Crash eUnknown
  | _ => Crash eUnknown
  end.
Definition ost0 : ost := {| o_has := false; o_n1 := 0; o_val := oldval; o_n2 := 0 |}.
Lemma Option_ReadFrom_is_skel : option_read (snd C06gen.skel_Option_ReadFrom) ost0 = r_option re zero old.
Proof. reflexivity. Qed.
Lemma OptionDecoder_ReadFrom_is_skel : option_read (snd C06gen.skel_OptionDecoder_ReadFrom) ost0 = r_option re zero old.
Proof. reflexivity. Qed.
End OptionSkel.

(* Option.WriteTo / OptionEncoder.WriteTo *)
Section OptionWSkel.
Variables (we : fval -> wres) (has : bool) (x : fval).
Definition option_write (ps : list cstmt6) : option wres :=
  match ps with
  | KOther a :: KIf init cond [KReturn r] [] :: KOther b :: [KReturn r2] =>
      if seq a "n1, err := o.Has.WriteTo(w)" && seq init "" && seq cond "err != nil || !o.Has" && seq r "n1, err"
         && seq b "n2, err := o.Val.WriteTo(w)" && seq r2 "n1 + n2, err"
      then Some (if has then wcat (w_bool has) (we x) else w_bool has) else None
  | _ => None
  end.
End OptionWSkel.
Lemma Option_WriteTo_is_skel e h x :
  option_write (wr e) h x (snd C06gen.skel_Option_WriteTo) = Some (wr (TOption e) (VOpt h x))
  /\ option_write (wr e) h x (snd C06gen.skel_OptionEncoder_WriteTo) = Some (wr (TOption e) (VOpt h x)).
Proof. destruct h; split; reflexivity. Qed.

(* Opt: `if o.has() { switch field := o.Field.(type) { every case: return <field>.ReadFrom(r) / WriteTo(w); default: panic } }
   return 0, nil` *)
Definition opt_cases_ok (method : string) (cases : list (string * list cstmt6)) : bool :=
  match cases with
  | [(c1, [KReturn r1]); (c2, [KReturn r2]); (c3, [KReturn r3]); (c4, [KPanic _])] =>
      seq r1 ("field." ++ method) && seq r2 ("field()." ++ method) && seq r3 ("field()." ++ method) && seq c4 "default"
      && seq c3 "case func() Field"
  | _ => false
  end.
Definition opt_interp {R} (method : string) (ps : list cstmt6) (has : bool) (call : R) (nothing : R) : option R :=
  match ps with
  | [KIf init cond [KSwitch i2 tag cases] []; KReturn r] =>
      if seq init "" && seq cond "o.has()" && seq i2 "" && seq tag "field := o.Field.(type)" && opt_cases_ok method cases && seq r "0, nil"
      then Some (if has then call else nothing) else None
  | _ => None
  end.
Definition m_read : string := "ReadFrom(r)".
Definition m_write : string := "WriteTo(w)".
Lemma Opt_is_skel fuel has e old v :
  opt_interp m_read (snd C06gen.skel_Opt_ReadFrom) has (read_f fuel e old) (Ret (old, 0%N)) = Some (read_f fuel (TOpt has e) old)
  /\ opt_interp m_write (snd C06gen.skel_Opt_WriteTo) has (wr e v) ([], 0%N) = Some (wr (TOpt has e) v).
Proof. destruct has; split; reflexivity. Qed.

(* Ary.WriteTo: Len := LEN(array.Len()); the prefix type's own WriteTo; every element in order *)
Section AryWSkel.
Variables (l : lenk) (we : fval -> wres) (xs : list fval).
Definition wloop_body_ok (body : list cstmt6) : bool :=
  match body with
  | [KOther a; KOther b; KOther c; KIf i d [KReturn e] []] =>
      seq a "elem := array.Index(i)" && seq b "nn, err := elem.Interface().(FieldEncoder).WriteTo(w)"
      && seq c "n += nn" && seq i "" && seq d "err != nil" && seq e "n, err"
  | _ => false
  end.
Fixpoint ary_write (ps : list cstmt6) (len : Z) {struct ps} : option wres :=
  match ps with
  | KOther txt :: t =>
      if seq txt "array := reflect.ValueOf(a.Ary)" then ary_write t len
      else if seq txt "Len := LEN(array.Len())" then ary_write t (Z.of_N (lenN xs))
      else None
  | KFor init cond post body :: t =>
      if seq init "" && seq cond "array.Kind() == reflect.Ptr" && seq post "" then
        match body with [KOther a] => if seq a "array = array.Elem()" then ary_write t len else None | _ => None end
      else if seq init "i := 0" && seq cond "i < array.Len()" && seq post "i++" && wloop_body_ok body then
        match t with [KReturn r] => if seq r "n, nil" then Some (w_seq we xs) else None | _ => None end
      else None
  | KIf init cond [KReturn r] [KOther e] :: t =>
      if seq init "nn, err := any(&Len).(FieldEncoder).WriteTo(w)" && seq cond "err != nil" && seq r "n, err" && seq e "n += nn" then
        match ary_write t len with Some rest => Some (wcat (w_len l len) rest) | None => None end
      else None
  | _ => None
  end.
End AryWSkel.
Lemma Ary_WriteTo_is_skel l e xs sp :
  ary_write l (wr e) xs (snd C06gen.skel_Ary_WriteTo) 0%Z = Some (wr (TAry l e) (VList xs sp)).
Proof. reflexivity. Qed.
