(* C06: the statement skeletons of the functions of net/packet that Model/C06.v models by hand and that
   tools/gotrans/c06.go does not translate directly (reflection, interfaces, generics): readByte,
   PluginMessageData.ReadFrom, NBTField and its counting wrappers, Ary, Array, Opt, Option, OptionDecoder,
   OptionEncoder, Tuple, CreateByteReader, Marshal, Packet.Scan, Builder.  These are the terms recorded when
   the model was written; coq/Gen/C06gen.v is regenerated from the repository on every run and compared with
   them by the *_skel_ok obligations of Proofs/C06_skel.v.  A difference means the source changed: the model
   and this file have to be re-examined together. *)
From Coq Require Import List String ZArith.
From GoMC Require Import Model.C06_syntax.
Import ListNotations.
Local Open Scope string_scope.

Definition expected_readByte : string * list cstmt6 :=
  ("func readByte(r io.Reader) (int64, byte, error)",
  [
    KIf "r, ok := r.(io.ByteReader)" "ok" [
    KOther "v, err := r.ReadByte()";
    KIf "" "err != nil" [
      KReturn "0, v, err" ] [];
    KReturn "1, v, nil" ] [];
    KOther "var v [1]byte";
    KOther "n, err := io.ReadFull(r, v[:])";
    KReturn "int64(n), v[0], err" ]).

(* added with the fixes of String / ByteArray.ReadFrom (bounded-step reads) *)
Definition expected_readBytes : string * list cstmt6 :=
  ("func readBytes(r io.Reader, n int) ([]byte, error)",
  [
    KOther "first := min(n, maxPreallocBytes)";
    KOther "buf := make([]byte, first)";
    KFor "read := 0" "" "" [
    KOther "nn, err := io.ReadFull(r, buf[read:])";
    KIf "" "err != nil" [
      KIf "" "err == io.EOF && read > 0" [
        KOther "err = io.ErrUnexpectedEOF" ] [];
      KReturn "buf[:read+nn], err" ] [];
    KIf "read = len(buf)" "read == n" [
      KReturn "buf, nil" ] [];
    KOther "more := min(n-read, read)";
    KOther "buf = append(buf, make([]byte, more)...)" ] ]).

Definition expected_PluginMessageData_ReadFrom : string * list cstmt6 :=
  ("func (p *PluginMessageData) ReadFrom(r io.Reader) (n int64, err error)",
  [
    KOther "*p, err = io.ReadAll(r)";
    KReturn "int64(len(*p)), err" ]).

Definition expected_NBTField_WriteTo : string * list cstmt6 :=
  ("func (n NBTField) WriteTo(w io.Writer) (int64, error)",
  [
    KIf "" "n.V == nil" [
    KOther "n, err := w.Write([]byte{nbt.TagEnd})";
    KReturn "int64(n), err" ] [];
    KOther "cw := countingWriter{w: w}";
    KOther "enc := nbt.NewEncoder(&cw)";
    KOther "enc.NetworkFormat(true)";
    KOther "err := enc.Encode(n.V, """")";
    KReturn "cw.n, err" ]).

Definition expected_NBTField_ReadFrom : string * list cstmt6 :=
  ("func (n NBTField) ReadFrom(r io.Reader) (int64, error)",
  [
    KOther "cr := countingReader{r: r}";
    KOther "dec := nbt.NewDecoder(&cr)";
    KOther "dec.NetworkFormat(true)";
    KIf "" "!n.AllowUnknownFields" [
    KOther "dec.DisallowUnknownFields()" ] [];
    KOther "_, err := dec.Decode(n.V)";
    KIf "" "err != nil" [
    KIf "" "!errors.Is(err, nbt.ErrEND)" [
      KReturn "cr.n, err" ] [];
    KOther "err = nil" ] [];
    KReturn "cr.n, nil" ]).

Definition expected_countingWriter_Write : string * list cstmt6 :=
  ("func (c *countingWriter) Write(p []byte) (n int, err error)",
  [
    KOther "n, err = c.w.Write(p)";
    KOther "c.n += int64(n)";
    KReturn "" ]).

Definition expected_countingReader_Read : string * list cstmt6 :=
  ("func (c *countingReader) Read(p []byte) (n int, err error)",
  [
    KOther "n, err = c.r.Read(p)";
    KOther "c.n += int64(n)";
    KReturn "" ]).

Definition expected_NBT : string * list cstmt6 :=
  ("func NBT(v any) Field",
  [
    KReturn "NBTField{V: v}" ]).

Definition expected_Ary_WriteTo : string * list cstmt6 :=
  ("func (a Ary[LEN]) WriteTo(w io.Writer) (n int64, err error)",
  [
    KOther "array := reflect.ValueOf(a.Ary)";
    KFor "" "array.Kind() == reflect.Ptr" "" [
    KOther "array = array.Elem()" ];
    KOther "Len := LEN(array.Len())";
    KIf "nn, err := any(&Len).(FieldEncoder).WriteTo(w)" "err != nil" [
    KReturn "n, err" ] [
    KOther "n += nn" ];
    KFor "i := 0" "i < array.Len()" "i++" [
    KOther "elem := array.Index(i)";
    KOther "nn, err := elem.Interface().(FieldEncoder).WriteTo(w)";
    KOther "n += nn";
    KIf "" "err != nil" [
      KReturn "n, err" ] [] ];
    KReturn "n, nil" ]).

(* re-recorded after fix 9fa2cc1 (bounded preallocation, growth as the elements arrive) *)
Definition expected_Ary_ReadFrom : string * list cstmt6 :=
  ("func (a Ary[LEN]) ReadFrom(r io.Reader) (n int64, err error)",
  [
    KOther "var Len LEN";
    KIf "nn, err := any(&Len).(FieldDecoder).ReadFrom(r)" "err != nil" [
    KReturn "nn, err" ] [
    KOther "n += nn" ];
    KIf "" "Len < 0" [
    KReturn "n, errors.New(""array length less than zero"")" ] [];
    KOther "array := reflect.ValueOf(a.Ary)";
    KFor "" "array.Kind() == reflect.Ptr" "" [
    KOther "array = array.Elem()" ];
    KIf "" "!array.CanAddr()" [
    KPanic "errors.New(""the contents of the Ary are not addressable"")" ] [];
    KIf "" "array.Cap() < int(Len)" [
    KOther "first := min(int(Len), maxPreallocElems)";
    KOther "array.Set(reflect.MakeSlice(array.Type(), first, first))" ] [
    KOther "array.SetLen(int(Len))" ];
    KFor "i := 0" "i < int(Len)" "i++" [
    KIf "" "i == array.Len()" [
      KOther "more := min(int(Len)-i, i)";
      KOther "array.Set(reflect.AppendSlice(array, reflect.MakeSlice(array.Type(), more, more)))" ] [];
    KOther "elem := array.Index(i)";
    KOther "nn, err := elem.Addr().Interface().(FieldDecoder).ReadFrom(r)";
    KOther "n += nn";
    KIf "" "err != nil" [
      KReturn "n, err" ] [] ];
    KReturn "n, err" ]).

Definition expected_Array : string * list cstmt6 :=
  ("func Array(ary any) Field",
  [
    KReturn "Ary[VarInt]{Ary: ary}" ]).

Definition expected_Opt_has : string * list cstmt6 :=
  ("func (o Opt) has() bool",
  [
    KOther "v := reflect.ValueOf(o.Has)";
    KFor "" "" "" [
    KSwitch "" "v.Kind()" [
      ("case reflect.Ptr", [
        KOther "v = v.Elem()" ]);
      ("case reflect.Bool", [
        KReturn "v.Bool()" ]);
      ("case reflect.Func", [
        KReturn "v.Interface().(func() bool)()" ]);
      ("default", [
        KPanic "errors.New(""unsupported Has value"")" ]) ] ] ]).

Definition expected_Opt_WriteTo : string * list cstmt6 :=
  ("func (o Opt) WriteTo(w io.Writer) (int64, error)",
  [
    KIf "" "o.has()" [
    KSwitch "" "field := o.Field.(type)" [
      ("case FieldEncoder", [
        KReturn "field.WriteTo(w)" ]);
      ("case func() FieldEncoder", [
        KReturn "field().WriteTo(w)" ]);
      ("case func() Field", [
        KReturn "field().WriteTo(w)" ]);
      ("default", [
        KPanic """unsupported Field type: "" + reflect.TypeOf(o.Field).String()" ]) ] ] [];
    KReturn "0, nil" ]).

Definition expected_Opt_ReadFrom : string * list cstmt6 :=
  ("func (o Opt) ReadFrom(r io.Reader) (int64, error)",
  [
    KIf "" "o.has()" [
    KSwitch "" "field := o.Field.(type)" [
      ("case FieldDecoder", [
        KReturn "field.ReadFrom(r)" ]);
      ("case func() FieldDecoder", [
        KReturn "field().ReadFrom(r)" ]);
      ("case func() Field", [
        KReturn "field().ReadFrom(r)" ]);
      ("default", [
        KPanic """unsupported Field type: "" + reflect.TypeOf(o.Field).String()" ]) ] ] [];
    KReturn "0, nil" ]).

Definition expected_Option_WriteTo : string * list cstmt6 :=
  ("func (o Option[T, P]) WriteTo(w io.Writer) (n int64, err error)",
  [
    KOther "n1, err := o.Has.WriteTo(w)";
    KIf "" "err != nil || !o.Has" [
    KReturn "n1, err" ] [];
    KOther "n2, err := o.Val.WriteTo(w)";
    KReturn "n1 + n2, err" ]).

Definition expected_Option_ReadFrom : string * list cstmt6 :=
  ("func (o *Option[T, P]) ReadFrom(r io.Reader) (n int64, err error)",
  [
    KOther "n1, err := o.Has.ReadFrom(r)";
    KIf "" "err != nil || !o.Has" [
    KReturn "n1, err" ] [];
    KOther "n2, err := P(&o.Val).ReadFrom(r)";
    KReturn "n1 + n2, err" ]).

Definition expected_OptionDecoder_ReadFrom : string * list cstmt6 :=
  ("func (o *OptionDecoder[T, P]) ReadFrom(r io.Reader) (n int64, err error)",
  [
    KOther "n1, err := o.Has.ReadFrom(r)";
    KIf "" "err != nil || !o.Has" [
    KReturn "n1, err" ] [];
    KOther "n2, err := P(&o.Val).ReadFrom(r)";
    KReturn "n1 + n2, err" ]).

Definition expected_OptionEncoder_WriteTo : string * list cstmt6 :=
  ("func (o OptionEncoder[T]) WriteTo(w io.Writer) (n int64, err error)",
  [
    KOther "n1, err := o.Has.WriteTo(w)";
    KIf "" "err != nil || !o.Has" [
    KReturn "n1, err" ] [];
    KOther "n2, err := o.Val.WriteTo(w)";
    KReturn "n1 + n2, err" ]).

Definition expected_Tuple_WriteTo : string * list cstmt6 :=
  ("func (t Tuple) WriteTo(w io.Writer) (n int64, err error)",
  [
    KRange "_" "v" "t" [
    KOther "nn, err := v.(FieldEncoder).WriteTo(w)";
    KIf "" "err != nil" [
      KReturn "n, err" ] [];
    KOther "n += nn" ];
    KReturn "" ]).

Definition expected_Tuple_ReadFrom : string * list cstmt6 :=
  ("func (t Tuple) ReadFrom(r io.Reader) (n int64, err error)",
  [
    KRange "i" "v" "t" [
    KOther "nn, err := v.(FieldDecoder).ReadFrom(r)";
    KIf "" "err != nil" [
      KReturn "n, fmt.Errorf(""decode tuple[%d] %T error: %w"", i, v, err)" ] [];
    KOther "n += nn" ];
    KReturn "" ]).

Definition expected_CreateByteReader : string * list cstmt6 :=
  ("func CreateByteReader(reader io.Reader) io.ByteReader",
  [
    KIf "byteReader, isByteReader := reader.(io.ByteReader)" "isByteReader" [
    KReturn "byteReader" ] [];
    KReturn "byteReaderWrapper{reader}" ]).

Definition expected_byteReaderWrapper_ReadByte : string * list cstmt6 :=
  ("func (r byteReaderWrapper) ReadByte() (byte, error)",
  [
    KOther "var buf [1]byte";
    KOther "_, err := io.ReadFull(r.Reader, buf[:])";
    KReturn "buf[0], err" ]).

Definition expected_Marshal : string * list cstmt6 :=
  ("func Marshal[ID ~int32 | int](id ID, fields ...FieldEncoder) (pk Packet)",
  [
    KOther "var pb Builder";
    KRange "_" "v" "fields" [
    KOther "pb.WriteField(v)" ];
    KReturn "pb.Packet(int32(id))" ]).

Definition expected_Packet_Scan : string * list cstmt6 :=
  ("func (p Packet) Scan(fields ...FieldDecoder) error",
  [
    KOther "r := bytes.NewReader(p.Data)";
    KRange "i" "v" "fields" [
    KOther "_, err := v.ReadFrom(r)";
    KIf "" "err != nil" [
      KReturn "fmt.Errorf(""scanning packet field[%d] error: %w"", i, err)" ] [] ];
    KReturn "nil" ]).

Definition expected_Builder_WriteField : string * list cstmt6 :=
  ("func (p *Builder) WriteField(fields ...FieldEncoder)",
  [
    KRange "_" "f" "fields" [
    KOther "_, err := f.WriteTo(&p.buf)";
    KIf "" "err != nil" [
      KPanic "err" ] [] ] ]).

Definition expected_Builder_Packet : string * list cstmt6 :=
  ("func (p *Builder) Packet(id int32) Packet",
  [
    KReturn "Packet{ID: id, Data: p.buf.Bytes()}" ]).

