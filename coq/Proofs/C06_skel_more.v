(* C06, interpretations of generated skeletons (continued from Proofs/C06_skel.v):
   6. Builder / Marshal over a HEAP of buffers: `var pb Builder` is a fresh buffer, Builder.WriteField appends
      the field images to the builder's own buffer, Builder.Packet returns a VIEW (buffer, List.length) of that
      buffer without copying (Data: p.buf.Bytes()).  marshal_heap is the interpretation of the generated
      skeletons of Marshal, Builder.WriteField and Builder.Packet; marshal_isolated: the Data of a packet
      returned by Marshal (or by Builder.Packet) is not changed by ANY later sequence of Marshal /
      Builder.WriteField / Builder.Packet calls.  This is true because every Marshal owns a fresh Builder and a
      Builder only ever appends; an interpretation of a Marshal that obtains its Builder in any other way
      (a pool, a package variable) does not exist here - the statement `var pb Builder` is the only
      acquisition the interpreter gives a meaning to.
   7. Tuple.ReadFrom / WriteTo against the model's nested pairs.
   8. Packet.Scan: trailing bytes are ignored (no check that the data is used up).
   9. NBTField.ReadFrom with the AllowUnknownFields flag: the strict decoder unless the flag is set. *)
From Coq Require Import List String ZArith NArith Bool Lia Arith.
From GoMC Require Import Base.Bytes Base.Dec Gen.C06gen Model.C06_syntax Model.C05 Model.C06
  Proofs.C06_skel_expected Proofs.C06_skel Proofs.C06_read.
Import ListNotations.
Local Open Scope string_scope.
Local Open Scope list_scope.

(* ------------------------------------------------------------------ 6. Builder, Marshal: buffers and views *)
Definition heap := list (list N).
Definition pview := (nat * nat)%type.                 (* Packet.Data = buffer[:List.length] *)
Definition pdata (h : heap) (p : pview) : list N := firstn (snd p) (nth (fst p) h []).
Definition pvalid (h : heap) (p : pview) : Prop := (fst p < List.length h)%nat /\ (snd p <= List.length (nth (fst p) h []))%nat.

Fixpoint hupd (h : heap) (b : nat) (x : list N) : heap :=
  match h, b with
  | [], _ => []
  | _ :: t, O => x :: t
  | y :: t, S b' => y :: hupd t b' x
  end.
(* f.WriteTo(&p.buf) on a bytes.Buffer: the image is appended (in place: the worst case for aliasing) *)
Definition happend (h : heap) (b : nat) (bs : list N) : heap := hupd h b (nth b h [] ++ bs).

Definition field_img (tv : fty * fval) : list N := fst (wr (fst tv) (snd tv)).

(* Builder.WriteField(fields...): for _, f := range fields { _, err := f.WriteTo(&p.buf); if err != nil { panic(err) } } *)
Definition builder_write (sk : string * list cstmt6) (h : heap) (b : nat) (fs : list (fty * fval)) : option heap :=
  if writefield_ok sk then Some (fold_left (fun h' tv => happend h' b (field_img tv)) fs h) else None.
(* Builder.Packet(id): Packet{ID: id, Data: p.buf.Bytes()} - a view of the builder's buffer, not a copy *)
Definition builder_packet (sk : string * list cstmt6) (h : heap) (b : nat) : option pview :=
  if builder_packet_ok sk then Some (b, List.length (nth b h [])) else None.

(* Marshal: the builder variable, once declared, is a buffer index *)
Fixpoint marshal_heap (ps : list cstmt6) (h : heap) (pb : option nat) (fs : list (fty * fval)) {struct ps}
  : option (heap * pview) :=
  match ps with
  | KOther txt :: t =>
      if seq txt "var pb Builder" then marshal_heap t (h ++ [[]]) (Some (List.length h)) fs   (* a FRESH zero Builder *)
      else None
  | KRange k v x [KOther a] :: t =>
      match pb with
      | Some b =>
          if seq k "_" && seq v "v" && seq x "fields" && seq a "pb.WriteField(v)" then
            (* one WriteField call per field, each with the single field v *)
            match fold_left (fun oh tv => match oh with
                                          | Some h' => builder_write C06gen.skel_Builder_WriteField h' b [tv]
                                          | None => None end) fs (Some h) with
            | Some h' => marshal_heap t h' pb fs
            | None => None
            end
          else None
      | None => None
      end
  | KReturn r :: _ =>
      match pb with
      | Some b => if seq r "pb.Packet(int32(id))"
                  then match builder_packet C06gen.skel_Builder_Packet h b with Some p => Some (h, p) | None => None end
                  else None
      | None => None
      end
  | _ => None
  end.

Lemma hupd_length h : forall b x, List.length (hupd h b x) = List.length h.
Proof. induction h as [|y t IH]; intros [|b] x; cbn; auto. Qed.
Lemma hupd_nth_same h : forall b x, (b < List.length h)%nat -> nth b (hupd h b x) [] = x.
Proof. induction h as [|y t IH]; intros [|b] x H; cbn in *; try lia; auto. apply IH. lia. Qed.
Lemma hupd_nth_other h : forall b x j, j <> b -> nth j (hupd h b x) [] = nth j h [].
Proof.
  induction h as [|y t IH]; intros [|b] x [|j] H; cbn; auto; try congruence.
Qed.

(* an append keeps every valid view valid and its data unchanged *)
Lemma happend_view h b bs p : pvalid h p -> pvalid (happend h b bs) p /\ pdata (happend h b bs) p = pdata h p.
Proof.
  intros [V1 V2]. unfold happend, pvalid, pdata. rewrite hupd_length.
  destruct (Nat.eq_dec (fst p) b) as [E|E].
  - subst b. rewrite hupd_nth_same by exact V1. rewrite app_length. split; [lia|].
    rewrite firstn_app. replace (snd p - List.length (nth (fst p) h []))%nat with 0%nat by lia.
    cbn [firstn]. apply app_nil_r.
  - rewrite hupd_nth_other by exact E. auto.
Qed.

Lemma fold_happend_view fs : forall h b p, pvalid h p ->
  pvalid (fold_left (fun h' tv => happend h' b (field_img tv)) fs h) p
  /\ pdata (fold_left (fun h' tv => happend h' b (field_img tv)) fs h) p = pdata h p.
Proof.
  induction fs as [|f fs IH]; intros h b p V; [auto|]. cbn [fold_left].
  destruct (happend_view h b (field_img f) p V) as [V' D']. destruct (IH _ b p V') as [V'' D'']. split; [exact V''|congruence].
Qed.

Lemma fold_happend_buf fs : forall h b, (b < List.length h)%nat ->
  List.length (fold_left (fun h' tv => happend h' b (field_img tv)) fs h) = List.length h
  /\ nth b (fold_left (fun h' tv => happend h' b (field_img tv)) fs h) [] = nth b h [] ++ marshal fs.
Proof.
  unfold marshal. induction fs as [|f fs IH]; intros h b Hb; cbn [fold_left map concat]; [rewrite app_nil_r; auto|].
  destruct (IH (happend h b (field_img f)) b) as [L Nn]; [unfold happend; rewrite hupd_length; exact Hb|].
  unfold happend in *. rewrite hupd_length in L. rewrite hupd_nth_same in Nn by exact Hb.
  split; [exact L|]. rewrite Nn, <- app_assoc. reflexivity.
Qed.

(* the per-field WriteField calls of Marshal, as the generated skeletons mean them *)
Lemma marshal_fold fs : forall h b,
  fold_left (fun oh tv => match oh with
                          | Some h' => builder_write C06gen.skel_Builder_WriteField h' b [tv]
                          | None => None end) fs (Some h)
  = Some (fold_left (fun h' tv => happend h' b (field_img tv)) fs h).
Proof. induction fs as [|f fs IH]; intros h b; [reflexivity|]. cbn [fold_left]. exact (IH _ b). Qed.

(* WHAT Marshal DOES on the heap: one new buffer holding the fields in order, every older buffer untouched,
   and the packet is a view of the new buffer *)
Lemma Marshal_heap_is_skel h fs :
  marshal_heap (snd C06gen.skel_Marshal) h None fs
  = Some (h ++ [marshal fs], (List.length h, List.length (marshal fs))).
Proof.
  change (marshal_heap (snd C06gen.skel_Marshal) h None fs)
    with (match fold_left (fun oh tv => match oh with
                                        | Some h' => builder_write C06gen.skel_Builder_WriteField h' (List.length h) [tv]
                                        | None => None end) fs (Some (h ++ [[]])) with
          | Some h' => match builder_packet C06gen.skel_Builder_Packet h' (List.length h) with Some p => Some (h', p) | None => None end
          | None => None
          end).
  rewrite marshal_fold.
  destruct (fold_happend_buf fs (h ++ [[]]) (List.length h)) as [L Nn]; [rewrite app_length; cbn; lia|].
  rewrite app_nth2 in Nn by lia. rewrite Nat.sub_diag in Nn. cbn [nth app] in Nn.
  change (builder_packet C06gen.skel_Builder_Packet ?hh (List.length h)) with (Some (List.length h, List.length (nth (List.length h) hh []))).
  cbv beta iota. rewrite Nn. do 2 f_equal.
  set (h2 := fold_left (fun h' tv => happend h' (List.length h) (field_img tv)) fs (h ++ [[]])) in *.
  (* h2 has the List.length of h ++ [[]], agrees with h below List.length h (views of the old buffers), and ends with marshal fs *)
  apply nth_ext with (d := []) (d' := []); [rewrite L, !app_length; reflexivity|].
  intros j Hj. rewrite L, app_length in Hj. cbn in Hj.
  destruct (Nat.eq_dec j (List.length h)) as [->|Ne].
  - rewrite Nn, app_nth2 by lia. rewrite Nat.sub_diag. reflexivity.
  - assert (Hjl : (j < List.length h)%nat) by lia.
    (* the buffer j was not appended to at all: its List.length is unchanged as well *)
    assert (Same : nth j h2 [] = nth j (h ++ [[]]) []).
    { subst h2. clear -Ne. revert Ne. generalize (h ++ [[]]) as g. induction fs as [|f fs IH]; intros g Ne; [reflexivity|].
      cbn [fold_left]. rewrite IH by exact Ne. unfold happend. apply hupd_nth_other. exact Ne. }
    rewrite Same, !app_nth1 by lia. reflexivity.
Qed.

(* later calls *)
Inductive bop :=
| OMarshal (fs : list (fty * fval))                   (* another Marshal(id, fields...) *)
| OWriteField (b : nat) (fs : list (fty * fval))      (* WriteField on an existing Builder *)
| OPacket (b : nat).                                  (* Packet() of an existing Builder *)
Definition run_op (h : heap) (o : bop) : option heap :=
  match o with
  | OMarshal fs => option_map fst (marshal_heap (snd C06gen.skel_Marshal) h None fs)
  | OWriteField b fs => builder_write C06gen.skel_Builder_WriteField h b fs
  | OPacket b => option_map (fun _ => h) (builder_packet C06gen.skel_Builder_Packet h b)
  end.
Fixpoint run_ops (h : heap) (os : list bop) : option heap :=
  match os with
  | [] => Some h
  | o :: t => match run_op h o with Some h' => run_ops h' t | None => None end
  end.

Lemma run_op_view h o h' p : pvalid h p -> run_op h o = Some h' -> pvalid h' p /\ pdata h' p = pdata h p.
Proof.
  intros V H. destruct o as [fs|b fs|b]; cbn [run_op] in H.
  - rewrite Marshal_heap_is_skel in H. cbn in H. injection H as <-. destruct V as [V1 V2].
    unfold pvalid, pdata. rewrite app_length, app_nth1 by exact V1. split; [split; [lia|exact V2]|reflexivity].
  - unfold builder_write in H. change (writefield_ok C06gen.skel_Builder_WriteField) with true in H. cbv iota in H.
    injection H as <-. apply fold_happend_view, V.
  - unfold builder_packet in H. change (builder_packet_ok C06gen.skel_Builder_Packet) with true in H. cbn in H.
    injection H as <-. auto.
Qed.

(* ISOLATION: whatever view of a builder's buffer has been handed out stays what it was *)
Lemma views_stable os : forall h h' p, pvalid h p -> run_ops h os = Some h' -> pdata h' p = pdata h p.
Proof.
  induction os as [|o os IH]; intros h h' p V H; cbn [run_ops] in H; [injection H as <-; reflexivity|].
  destruct (run_op h o) as [h1|] eqn:E; [|discriminate].
  destruct (run_op_view h o h1 p V E) as [V1 D1]. rewrite (IH h1 h' p V1 H). exact D1.
Qed.

Theorem marshal_isolated h fs h1 p os h2 :
  marshal_heap (snd C06gen.skel_Marshal) h None fs = Some (h1, p) ->
  run_ops h1 os = Some h2 ->
  pdata h1 p = marshal fs /\ pdata h2 p = marshal fs.
Proof.
  intros M R. rewrite Marshal_heap_is_skel in M. injection M as <- <-.
  assert (D : pdata (h ++ [marshal fs]) (List.length h, List.length (marshal fs)) = marshal fs).
  { unfold pdata. cbn [fst snd]. rewrite app_nth2 by lia. rewrite Nat.sub_diag. cbn [nth]. apply firstn_all. }
  split; [exact D|]. rewrite <- D at 2. apply (views_stable os); [|exact R].
  unfold pvalid. cbn [fst snd]. rewrite app_length, app_nth2 by lia. rewrite Nat.sub_diag. cbn. lia.
Qed.

(* ------------------------------------------------------------------ 7. Tuple *)
(* the model's Tuple{f1,...,fk} is f1 x (f2 x (... x unit)) *)
Fixpoint tuple_ty (ts : list fty) : fty := match ts with [] => TUnit | t :: r => TPair t (tuple_ty r) end.
Fixpoint tuple_val (vs : list fval) : fval := match vs with [] => VUnit | v :: r => VPair v (tuple_val r) end.

Definition tuple_rbody_ok (body : list cstmt6) : bool :=
  match body with
  | [KOther a; KIf i c [KReturn r] []; KOther e] =>
      seq a "nn, err := v.(FieldDecoder).ReadFrom(r)" && seq i "" && seq c "err != nil"
      && seq r "n, fmt.Errorf(""decode tuple[%d] %T error: %w"", i, v, err)" && seq e "n += nn"
  | _ => false
  end.
Definition tuple_wbody_ok (body : list cstmt6) : bool :=
  match body with
  | [KOther a; KIf i c [KReturn r] []; KOther e] =>
      seq a "nn, err := v.(FieldEncoder).WriteTo(w)" && seq i "" && seq c "err != nil" && seq r "n, err" && seq e "n += nn"
  | _ => false
  end.

Section TupleSkel.
Variable fuel : nat.
(* for i, v := range t { nn, err := v.ReadFrom(r); if err != nil { return n, ... }; n += nn }; return *)
Fixpoint tuple_loop (fs : list (fty * fval)) (n : N) (k : list fval -> N -> rd) : rd :=
  match fs with
  | [] => k [] n
  | (t, old) :: fs' => bind (read_f fuel t old) (fun x => let '(v, nn) := x in tuple_loop fs' (n + nn) (fun vs m => k (v :: vs) m))
  end.
Definition tuple_read (ps : list cstmt6) (fs : list (fty * fval)) : rd :=
  match ps with
  | [KRange k v x body; KReturn r] =>
      if seq k "i" && seq v "v" && seq x "t" && tuple_rbody_ok body && seq r ""
      then tuple_loop fs 0 (fun vs n => Ret (tuple_val vs, n)) else Crash eUnknown
  | _ => Crash eUnknown
  end.

(* the same loop with the values as a list *)
Fixpoint tuple_list (fs : list (fty * fval)) : dec (list fval * N) :=
  match fs with
  | [] => Ret ([], 0%N)
  | (t, old) :: fs' => bind (read_f fuel t old) (fun x => let '(v, nn) := x in
                       bind (tuple_list fs') (fun y => let '(vs, m) := y in Ret (v :: vs, (nn + m)%N)))
  end.
Lemma tuple_list_robust fs : robust (tuple_list fs).
Proof.
  induction fs as [|[t old] fs IH]; cbn [tuple_list]; [constructor|].
  apply robust_bind; [apply read_f_robust|]. intros [v nn]. apply robust_bind; [exact IH|]. intros [vs m]. constructor.
Qed.

Lemma tuple_loop_run fs : forall n k s,
  run_flat (tuple_loop fs n k) s =
  match run_flat (tuple_list fs) s with
  | FOk (vs, m) r => run_flat (k vs (n + m)%N) r
  | FErr e => FErr e | FPanic w => FPanic w | FFuel => FFuel
  end.
Proof.
  induction fs as [|[t old] fs IH]; intros n k s; cbn [tuple_loop tuple_list run_flat]; [rewrite N.add_0_r; reflexivity|].
  rewrite !run_flat_bind by apply read_f_robust.
  destruct (run_flat (read_f fuel t old) s) as [[v nn] r| | |]; try reflexivity.
  rewrite IH. rewrite run_flat_bind by apply tuple_list_robust.
  destruct (run_flat (tuple_list fs) r) as [[vs m] r'| | |]; try reflexivity.
  cbn [run_flat]. rewrite N.add_assoc. reflexivity.
Qed.

Lemma tuple_model_run fs : forall s,
  run_flat (read_f fuel (tuple_ty (map fst fs)) (tuple_val (map snd fs))) s =
  match run_flat (tuple_list fs) s with
  | FOk (vs, m) r => FOk (tuple_val vs, m) r
  | FErr e => FErr e | FPanic w => FPanic w | FFuel => FFuel
  end.
Proof.
  induction fs as [|[t old] fs IH]; intros s; [reflexivity|].
  cbn [map fst snd tuple_ty tuple_val read_f tuple_list]. unfold r_pair.
  rewrite !run_flat_bind by apply read_f_robust.
  destruct (run_flat (read_f fuel t old) s) as [[v nn] r| | |]; try reflexivity.
  rewrite run_flat_bind by apply read_f_robust. rewrite run_flat_bind by apply tuple_list_robust. rewrite IH.
  destruct (run_flat (tuple_list fs) r) as [[vs m] r'| | |]; reflexivity.
Qed.

(* Tuple.ReadFrom IS the model's reader of the nested pair type, for every field list and destination *)
Lemma Tuple_ReadFrom_is_skel fs s :
  run_flat (tuple_read (snd C06gen.skel_Tuple_ReadFrom) fs) s
  = run_flat (read_f fuel (tuple_ty (map fst fs)) (tuple_val (map snd fs))) s.
Proof.
  change (tuple_read (snd C06gen.skel_Tuple_ReadFrom) fs) with (tuple_loop fs 0 (fun vs n => Ret (tuple_val vs, n))).
  rewrite tuple_loop_run, tuple_model_run.
  destruct (run_flat (tuple_list fs) s) as [[vs m] r| | |]; reflexivity.
Qed.
End TupleSkel.

(* Tuple.WriteTo: for _, v := range t { nn, err := v.WriteTo(w); if err != nil { return n, err }; n += nn }; return *)
Definition tuple_write (ps : list cstmt6) (fs : list (fty * fval)) : option wres :=
  match ps with
  | [KRange k v x body; KReturn r] =>
      if seq k "_" && seq v "v" && seq x "t" && tuple_wbody_ok body && seq r ""
      then Some (fold_left (fun acc tv => (fst acc ++ fst (wr (fst tv) (snd tv)), (snd acc + snd (wr (fst tv) (snd tv)))%N)) fs ([], 0%N))
      else None
  | _ => None
  end.
Lemma tuple_wfold fs : forall acc : wres,
  fold_left (fun acc tv => (fst acc ++ fst (wr (fst tv) (snd tv)), (snd acc + snd (wr (fst tv) (snd tv)))%N)) fs acc
  = (fst acc ++ fst (wr (tuple_ty (map fst fs)) (tuple_val (map snd fs))),
     (snd acc + snd (wr (tuple_ty (map fst fs)) (tuple_val (map snd fs))))%N).
Proof.
  induction fs as [|[t v] fs IH]; intros acc; cbn [fold_left map fst snd tuple_ty tuple_val wr].
  - rewrite app_nil_r, N.add_0_r. destruct acc; reflexivity.
  - rewrite IH. unfold wcat. cbn [fst snd]. rewrite <- app_assoc, N.add_assoc. reflexivity.
Qed.
Lemma Tuple_WriteTo_is_skel fs :
  tuple_write (snd C06gen.skel_Tuple_WriteTo) fs = Some (wr (tuple_ty (map fst fs)) (tuple_val (map snd fs))).
Proof.
  change (tuple_write (snd C06gen.skel_Tuple_WriteTo) fs)
    with (Some (fold_left (fun acc tv => (fst acc ++ fst (wr (fst tv) (snd tv)), (snd acc + snd (wr (fst tv) (snd tv)))%N)) fs ([], 0%N))).
  rewrite tuple_wfold. cbn [fst snd app]. rewrite N.add_0_l.
  destruct (wr (tuple_ty (map fst fs)) (tuple_val (map snd fs))); reflexivity.
Qed.

(* ------------------------------------------------------------------ 8. Packet.Scan and trailing bytes *)
(* Scan reads the fields from bytes.NewReader(p.Data) and returns nil after the last one: whatever follows the
   last field is left unread and is no error *)
Lemma Packet_Scan_trailing fuel fs data vs extra :
  run_flat (scan fuel fs) data = FOk vs [] ->
  run_flat (scan_interp fuel (snd C06gen.skel_Packet_Scan) fs []) (data ++ extra) = FOk vs extra.
Proof.
  intros H. rewrite Packet_Scan_is_skel.
  exact (robust_append_stable _ (scan_robust fuel fs) _ _ _ H extra).
Qed.

(* ------------------------------------------------------------------ 9. NBTField.ReadFrom and AllowUnknownFields *)
(* nbt.NewDecoder accepts unknown fields; `if !n.AllowUnknownFields { dec.DisallowUnknownFields() }` makes it
   strict.  d_lenient / d_strict: what dec.Decode(n.V) does in the two configurations. *)
Section NBTAllow.
Variables (eEND : N) (A : Type) (d_lenient d_strict : dec A) (allow : bool).
Record ast2 := { s_cnt : bool; s_thru : bool; s_strict : bool; s_raw : option (dec A); s_caught : option (dec (option A)) }.
Definition ast20 : ast2 := {| s_cnt := false; s_thru := false; s_strict := false; s_raw := None; s_caught := None |}.
Fixpoint nbt_read2 (ps : list cstmt6) (st : ast2) {struct ps} : dec (option A * N) :=
  match ps with
  | [] => Crash eUnknown
  | KOther txt :: t =>
      if seq txt "cr := countingReader{r: r}" then
        nbt_read2 t {| s_cnt := true; s_thru := s_thru st; s_strict := s_strict st; s_raw := s_raw st; s_caught := s_caught st |}
      else if seq txt "dec := nbt.NewDecoder(&cr)" then
        nbt_read2 t {| s_cnt := s_cnt st; s_thru := s_cnt st; s_strict := false; s_raw := s_raw st; s_caught := s_caught st |}
      else if seq txt "dec.NetworkFormat(true)" then nbt_read2 t st
      else if seq txt "_, err := dec.Decode(n.V)" then
        nbt_read2 t {| s_cnt := s_cnt st; s_thru := s_thru st; s_strict := s_strict st;
                       s_raw := Some (if s_strict st then d_strict else d_lenient); s_caught := None |}
      else Crash eUnknown
  | KIf init cond th el :: t =>
      if seq init "" && seq cond "!n.AllowUnknownFields" then
        match th, el with
        | [KOther a], [] =>
            if seq a "dec.DisallowUnknownFields()" then
              nbt_read2 t {| s_cnt := s_cnt st; s_thru := s_thru st; s_strict := if negb allow then true else s_strict st;
                             s_raw := s_raw st; s_caught := s_caught st |}
            else Crash eUnknown
        | _, _ => Crash eUnknown
        end
      else if seq init "" && seq cond "err != nil" then
        match th, el, s_raw st with
        | [KIf i c [KReturn r] []; KOther e], [], Some raw =>
            if seq i "" && seq c "!errors.Is(err, nbt.ErrEND)" && seq r "cr.n, err" && seq e "err = nil" then
              nbt_read2 t {| s_cnt := s_cnt st; s_thru := s_thru st; s_strict := s_strict st; s_raw := None;
                             s_caught := Some (nbt_catch_end eEND raw) |}
            else Crash eUnknown
        | _, _, _ => Crash eUnknown
        end
      else Crash eUnknown
  | KReturn r :: _ =>
      match s_caught st with
      | Some c => if seq r "cr.n, nil" && s_thru st then nbt_counting c 0 else Crash eUnknown
      | None => Crash eUnknown
      end
  | _ => Crash eUnknown
  end.
End NBTAllow.
Lemma NBTField_ReadFrom_allow_is_skel eEND A (dl ds : dec A) allow :
  nbt_read2 eEND A dl ds allow (snd C06gen.skel_NBTField_ReadFrom) (ast20 A)
  = r_nbtfield eEND (if allow then dl else ds).
Proof. destruct allow; reflexivity. Qed.
