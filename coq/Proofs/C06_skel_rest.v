(* C06, interpretations of generated skeletons (continued): the bodies that were still compared as text only.
   10. PluginMessageData.ReadFrom (io.ReadAll): the field is everything that is left; `rest` is always empty.
   11. countingWriter.Write / countingReader.Read: the counters every NBTField.WriteTo / ReadFrom reports.
       NBTField.WriteTo as the interpretation of its skeleton over the interpreted countingWriter.
   12. Opt.has: *bool chains, func() bool, and the panic on anything else - a function of the Has VALUE the
       program built the Opt with; it reads nothing from the stream, so no peer input reaches the panic.
   13. the constructors NBT(v) (strict decoder: AllowUnknownFields is left at its zero value) and Array(ary)
       (the VarInt length prefix).
   14. C06_every_body_interpreted: every function of types.go, util.go, builder.go and Marshal / Packet.Scan of
       packet.go (the list all_funcs generated from the source) is either on the short list of non-codec helpers
       or carries a tie / interpretation lemma - packaged WITH its proof in the list `covered`. *)
From Coq Require Import List String ZArith NArith Bool Lia Arith.
From GoMC Require Import Base.Bytes Base.Dec Base.GoInt Gen.Consts Gen.Funcs Gen.C05gen Gen.C06gen
  Model.C06_syntax Model.C05 Model.C06
  Proofs.C05_tie Proofs.C05_tie_r Proofs.C06_tie Proofs.C06_tie_w Proofs.C06_tie_r Proofs.C06_tie_closed
  Proofs.C06_skel_expected Proofs.C06_skel Proofs.C06_skel_more.
Import ListNotations.
Local Open Scope string_scope.
Local Open Scope list_scope.

(* ------------------------------------------------------------------ 10. PluginMessageData.ReadFrom *)
(* the destination, err = io.ReadAll(r); return its length: io.ReadAll reads until EOF, which it reports as
   success.  On a contiguous input that is: the value is ALL of the remaining input, whatever the destination
   held, the count is its length and NOTHING is left (so the field can only be the last one of a packet, and
   Scan's reader is exhausted after it). *)
Definition plugin_interp (ps : list cstmt6) (s : list N) : fres (list N * N) :=
  match ps with
  | [KOther a; KReturn r] =>
      if seq a "*p, err = io.ReadAll(r)" && seq r "int64(len(*p)), err" then FOk (s, lenN s) [] else FPanic eUnknown
  | _ => FPanic eUnknown
  end.
Lemma PluginMessageData_ReadFrom_is_skel s : plugin_interp (snd C06gen.skel_PluginMessageData_ReadFrom) s = r_plugin s.
Proof. reflexivity. Qed.
Lemma plugin_rest_empty s v n rest : r_plugin s = FOk (v, n) rest -> v = s /\ n = lenN s /\ rest = [].
Proof. unfold r_plugin. intros H. injection H as <- <- <-. auto. Qed.

(* ------------------------------------------------------------------ 11. the counting wrappers *)
(* countingWriter.Write(p): n, err = c.w.Write(p); c.n += int64(n); return - on a writer that accepts everything *)
Record cwst := { cw_out : list N; cw_cn : N; cw_n : N }.
Fixpoint cw_run (ps : list cstmt6) (st : cwst) (p : list N) {struct ps} : option cwst :=
  match ps with
  | KOther txt :: t =>
      if seq txt "n, err = c.w.Write(p)" then cw_run t {| cw_out := cw_out st ++ p; cw_cn := cw_cn st; cw_n := lenN p |} p
      else if seq txt "c.n += int64(n)" then cw_run t {| cw_out := cw_out st; cw_cn := cw_cn st + cw_n st; cw_n := cw_n st |} p
      else None
  | [KReturn r] => if seq r "" then Some st else None
  | _ => None
  end.
(* one Write call through the counter: (bytes passed on, c.n) before -> after *)
Definition cw_step (sk : string * list cstmt6) (acc : wres) (p : list N) : wres :=
  match cw_run (snd sk) {| cw_out := fst acc; cw_cn := snd acc; cw_n := 0 |} p with
  | Some st => (cw_out st, cw_cn st)
  | None => acc
  end.
Lemma countingWriter_Write_is_skel acc p :
  cw_step C06gen.skel_countingWriter_Write acc p = (fst acc ++ p, (snd acc + lenN p)%N).
Proof. reflexivity. Qed.

(* countingReader.Read(p): n, err = c.r.Read(p); c.n += int64(n); return - k bytes delivered by the call *)
Fixpoint cr_run (ps : list cstmt6) (cn n k : N) {struct ps} : option N :=
  match ps with
  | KOther txt :: t =>
      if seq txt "n, err = c.r.Read(p)" then cr_run t cn k k
      else if seq txt "c.n += int64(n)" then cr_run t (cn + n)%N n k
      else None
  | [KReturn r] => if seq r "" then Some cn else None
  | _ => None
  end.
Definition cr_step (sk : string * list cstmt6) (cn k : N) : N :=
  match cr_run (snd sk) cn 0%N k with Some c => c | None => cn end.
Lemma countingReader_Read_is_skel cn k : cr_step C06gen.skel_countingReader_Read cn k = (cn + k)%N.
Proof. reflexivity. Qed.

(* a decoder read through the interpreted counter: every effect adds the bytes it delivered *)
Fixpoint counting_via (step : N -> N -> N) {A} (d : dec A) (n : N) : dec (A * N) :=
  match d with
  | Ret a => Ret (a, n)
  | Fail e => Fail e
  | Crash w => Crash w
  | NoFuel => NoFuel
  | ReadByte k => ReadByte (fun b => counting_via step (k b) (step n 1%N))
  | ReadFull m k => ReadFull m (fun bs => counting_via step (k bs) (step n m))
  | RawRead m k => RawRead m (fun bs => counting_via step (k bs) (step n m))
  end.
(* the model's nbt_counting IS the decoder read through the countingReader the source defines *)
Lemma counting_is_skel {A} (d : dec A) : forall n s,
  run_flat (counting_via (cr_step C06gen.skel_countingReader_Read) d n) s = run_flat (nbt_counting d n) s.
Proof.
  induction d as [a|e|w| |k IH|m k IH|m k IH]; intros n s; cbn [counting_via nbt_counting run_flat]; try reflexivity.
  - destruct s as [|b s]; [reflexivity|]. rewrite countingReader_Read_is_skel. apply IH.
  - rewrite countingReader_Read_is_skel. destruct (m <=? lenN s)%N; [apply IH|reflexivity].
  - rewrite countingReader_Read_is_skel. destruct (m <=? lenN s)%N; [apply IH|].
    destruct s; [destruct (m =? 0)%N; [apply IH|reflexivity]|apply IH].
Qed.

(* NBTField.WriteTo: a nil value is the single byte TagEnd; otherwise the encoder writes through the counter.
   `ws`: the Write calls enc.Encode(n.V, "") makes (the NBT encoder is C01/C02's) *)
Definition nbt_write (ps : list cstmt6) (v_nil : bool) (ws : list (list N)) : option wres :=
  match ps with
  | [KIf i c [KOther a; KReturn r] []; KOther b; KOther e; KOther f; KOther g; KReturn r2] =>
      if seq i "" && seq c "n.V == nil" && seq a "n, err := w.Write([]byte{nbt.TagEnd})" && seq r "int64(n), err"
         && seq b "cw := countingWriter{w: w}" && seq e "enc := nbt.NewEncoder(&cw)" && seq f "enc.NetworkFormat(true)"
         && seq g "err := enc.Encode(n.V, """")" && seq r2 "cw.n, err"
      then Some (if v_nil then wbytes [Z.to_N nbt_TagEnd]
                 else fold_left (cw_step C06gen.skel_countingWriter_Write) ws ([], 0%N))
      else None
  | _ => None
  end.
Lemma NBTField_WriteTo_is_skel enc :
  nbt_write (snd C06gen.skel_NBTField_WriteTo) (match enc with None => true | Some _ => false end)
            (match enc with None => [] | Some ws => ws end) = Some (w_nbtfield enc).
Proof. destruct enc as [ws|]; reflexivity. Qed.

(* ------------------------------------------------------------------ 12. Opt.has *)
(* the Has value as reflect sees it *)
Inductive hasv :=
| HBool (b : bool)              (* a bool *)
| HPtr (v : hasv)               (* a non-nil pointer to v *)
| HFunc (b : bool)              (* a func() bool that returns b *)
| HOther.                       (* anything else: nil, a nil pointer's Elem (invalid Value), a func of another type
                                   (the type assertion to func() bool panics), an int, ... *)
Fixpoint has_model (v : hasv) : gores bool :=
  match v with HBool b => GoRet b | HPtr v' => has_model v' | HFunc b => GoRet b | HOther => GoPanic end.
Fixpoint has_depth (v : hasv) : nat := match v with HPtr v' => S (has_depth v') | _ => O end.

Definition has_cases_ok (cases : list (string * list cstmt6)) : bool :=
  match cases with
  | [(c1, [KOther a]); (c2, [KReturn r2]); (c3, [KReturn r3]); (c4, [KPanic _])] =>
      seq c1 "case reflect.Ptr" && seq a "v = v.Elem()" && seq c2 "case reflect.Bool" && seq r2 "v.Bool()"
      && seq c3 "case reflect.Func" && seq r3 "v.Interface().(func() bool)()" && seq c4 "default"
  | _ => false
  end.
(* for { switch v.Kind() { Ptr: v = v.Elem(); Bool: return v.Bool(); Func: return f(); default: panic } } *)
Fixpoint has_loop (fuel : nat) (v : hasv) : option (gores bool) :=
  match fuel with
  | O => None
  | S f => match v with
           | HPtr v' => has_loop f v'            (* the only case that goes round the loop *)
           | HBool b => Some (GoRet b)
           | HFunc b => Some (GoRet b)
           | HOther => Some GoPanic
           end
  end.
Definition has_interp (ps : list cstmt6) (fuel : nat) (v : hasv) : option (gores bool) :=
  match ps with
  | [KOther a; KFor i c p [KSwitch i2 tag cases]] =>
      if seq a "v := reflect.ValueOf(o.Has)" && seq i "" && seq c "" && seq p "" && seq i2 "" && seq tag "v.Kind()" && has_cases_ok cases
      then has_loop fuel v else None
  | _ => None
  end.
Lemma has_loop_model v : forall fuel, (has_depth v < fuel)%nat -> has_loop fuel v = Some (has_model v).
Proof.
  induction v as [b|v IH|b|]; intros [|fuel] H; cbn in *; try lia; try reflexivity. apply IH. lia.
Qed.
Lemma Opt_has_is_skel v fuel : (has_depth v < fuel)%nat ->
  has_interp (snd C06gen.skel_Opt_has) fuel v = Some (has_model v).
Proof. intros H. change (has_interp (snd C06gen.skel_Opt_has) fuel v) with (has_loop fuel v). apply has_loop_model, H. Qed.

(* WHEN THE PANIC IS REACHABLE: exactly when the pointer chain of the Has value ends in something that is neither
   a bool nor a func() bool.  has() takes no input from the stream (has_model has no such argument): the Has value
   is built by the program that constructs the Opt; a *bool whose pointee was filled by decoding an earlier field
   is still a bool.  Hence no peer input reaches the panic of a well-formed Opt. *)
Fixpoint has_bottom (v : hasv) : hasv := match v with HPtr v' => has_bottom v' | _ => v end.
Lemma has_panic_iff v : has_model v = GoPanic <-> has_bottom v = HOther.
Proof. induction v as [b|v IH|b|]; cbn; try exact IH; split; intros H; try discriminate; reflexivity. Qed.
Lemma has_wellformed_total v : has_bottom v <> HOther -> exists b, has_model v = GoRet b.
Proof. induction v as [b|v IH|b|]; cbn; intros H; eauto. congruence. Qed.

(* ------------------------------------------------------------------ 13. constructors *)
(* NBT(v) = NBTField{V: v}: AllowUnknownFields keeps its zero value false, so ReadFrom uses the strict decoder *)
Definition nbt_ctor (ps : list cstmt6) : option bool :=      (* the AllowUnknownFields flag of the value built *)
  match ps with
  | [KReturn r] => if seq r "NBTField{V: v}" then Some false else None
  | _ => None
  end.
Lemma NBT_is_skel : nbt_ctor (snd C06gen.skel_NBT) = Some false.
Proof. reflexivity. Qed.
Lemma NBT_ReadFrom_strict eEND A (dl ds : dec A) :
  match nbt_ctor (snd C06gen.skel_NBT) with
  | Some allow => nbt_read2 eEND A dl ds allow (snd C06gen.skel_NBTField_ReadFrom) (ast20 A) = r_nbtfield eEND ds
  | None => False
  end.
Proof. exact (NBTField_ReadFrom_allow_is_skel eEND A dl ds false). Qed.

(* Array(ary) = Ary[VarInt]{Ary: ary}: the VarInt length prefix *)
Definition array_ctor (ps : list cstmt6) : option lenk :=
  match ps with
  | [KReturn r] => if seq r "Ary[VarInt]{Ary: ary}" then Some LVarInt else None
  | _ => None
  end.
Lemma Array_is_skel : array_ctor (snd C06gen.skel_Array) = Some LVarInt.
Proof. reflexivity. Qed.
Lemma Array_ReadFrom fuel re zero old :
  match array_ctor (snd C06gen.skel_Array) with
  | Some l => ary_read fuel l re zero old (snd C06gen.skel_Ary_ReadFrom) (ast0 zero) = r_ary fuel LVarInt re zero old
  | None => False
  end.
Proof. exact (Ary_ReadFrom_is_skel fuel LVarInt re zero old). Qed.

(* ------------------------------------------------------------------ 13b. Ary.ReadFrom: what is allocated *)
(* (the defect fixed by 9fa2cc1 lived here: MakeSlice(int(Len), int(Len)) before any element had arrived.)
   The two sizes of the fresh-destination branch are TRANSLATED from the source (Gen/C06gen.v):
     first = min(int(Len), maxPreallocElems)            slots made before the loop
     more  = min(int(Len)-i, i)                         slots appended when i == array.Len()
   and the skeleton (Ary_ReadFrom_is_skel) fixes where they are used: `first` once, in the Cap < Len branch; `more`
   at the head of the loop body, only when every slot allocated so far has been read.  ary_reach n a r: with a
   declared count n, a slots exist and r elements have been (or are being) read.  The reused-destination branch
   allocates nothing. *)
Local Open Scope Z_scope.
Inductive ary_reach (n : Z) : Z -> Z -> Prop :=
| ar_first : ary_reach n (packet_Ary_ReadFrom_first n) 0
| ar_read a r : ary_reach n a r -> r < a -> r < n -> ary_reach n a (r + 1)
| ar_grow a r : ary_reach n a r -> r = a -> r < n -> ary_reach n (a + packet_Ary_ReadFrom_more n r) r.

Lemma ary_alloc_bounded n : 0 <= n < 2 ^ 63 -> forall a r, ary_reach n a r ->
  0 <= r <= a /\ a <= n /\ (a <= packet_maxPreallocElems \/ a <= 2 * r).
Proof.
  intros Hn a r H. change (2 ^ 63) with 9223372036854775808 in Hn.
  assert (W : wrap_s 64 n = n) by (apply wrap_s_id; [lia|change (2 ^ (64 - 1)) with 9223372036854775808; lia]).
  induction H as [|a r H IH L1 L2|a r H IH E L].
  - unfold packet_Ary_ReadFrom_first, packet_maxPreallocElems. rewrite W. lia.
  - lia.
  - unfold packet_Ary_ReadFrom_more. rewrite W.
    rewrite (wrap_s_id 64 (n - r)) by (try (change (2 ^ (64 - 1)) with 9223372036854775808); lia). lia.
Qed.
(* in particular: before the first element has been read no more than maxPreallocElems slots exist, whatever the
   count declared; and 40 bytes of input (at most 40 elements started) never see more than 1024 slots *)
Lemma ary_alloc_before_first n a : 0 <= n < 2 ^ 63 -> ary_reach n a 0 -> a <= 1024.
Proof. intros Hn H. destruct (ary_alloc_bounded n Hn a 0 H) as (_ & _ & [B|B]); unfold packet_maxPreallocElems in B; lia. Qed.

(* the same rule for the byte payloads of String / ByteArray (readBytes: the buffer, grown when it has been filled)
   and for the words of a BitSet read into a fresh slice: the growth expressions are TRANSLATED from the source *)
Inductive grow_reach (first : Z -> Z) (more : Z -> Z -> Z) (n : Z) : Z -> Z -> Prop :=
| gr_first : grow_reach first more n (first n) 0
| gr_read a r : grow_reach first more n a r -> r < a -> r < n -> grow_reach first more n a (r + 1)
| gr_grow a r : grow_reach first more n a r -> r = a -> r < n -> grow_reach first more n (a + more n r) r.

Lemma bytes_alloc_bounded n : 0 <= n < 2 ^ 63 -> forall a r, grow_reach packet_readBytes_first packet_readBytes_more n a r ->
  0 <= r <= a /\ a <= n /\ (a <= packet_maxPreallocBytes \/ a <= 2 * r).
Proof.
  intros Hn a r H. change (2 ^ 63) with 9223372036854775808 in Hn.
  induction H as [|a r H IH L1 L2|a r H IH E L].
  - unfold packet_readBytes_first, packet_maxPreallocBytes. lia.
  - lia.
  - unfold packet_readBytes_more.
    rewrite (wrap_s_id 64 (n - r)) by (try (change (2 ^ (64 - 1)) with 9223372036854775808); lia). lia.
Qed.
Lemma bitset_alloc_bounded n : 0 <= n < 2 ^ 63 -> forall a r, grow_reach packet_BitSet_ReadFrom_first packet_BitSet_ReadFrom_more n a r ->
  0 <= r <= a /\ a <= n /\ (a <= packet_maxPreallocBytes / 8 \/ a <= 2 * r).
Proof.
  intros Hn a r H. change (2 ^ 63) with 9223372036854775808 in Hn.
  assert (W : wrap_s 64 n = n) by (apply wrap_s_id; [lia|change (2 ^ (64 - 1)) with 9223372036854775808; lia]).
  change (packet_maxPreallocBytes / 8) with 8192.
  induction H as [|a r H IH L1 L2|a r H IH E L].
  - unfold packet_BitSet_ReadFrom_first. rewrite W. lia.
  - lia.
  - unfold packet_BitSet_ReadFrom_more. rewrite W.
    rewrite (wrap_s_id 64 (n - r)) by (try (change (2 ^ (64 - 1)) with 9223372036854775808); lia). lia.
Qed.
Local Close Scope Z_scope.

(* ------------------------------------------------------------------ 13c. readBytes IS one ReadFull of n bytes *)
(* the translated String / ByteArray readers use `readBytes(r, n)` as the effect ReadFull n.  Here the helper's own
   body is interpreted: a buffer of `first` bytes, then repeatedly io.ReadFull(r, buf[read:]); read = len(buf);
   done when read == n; otherwise `more` further bytes.  With enough fuel for the doublings (64 is enough for any
   n < 2^62) it runs exactly like ReadFull n followed by returning the bytes. *)
Local Open Scope Z_scope.
Fixpoint rb_loop (fuel : nat) (n : Z) (acc : list N) (read blen : Z) : dec (list N) :=
  match fuel with
  | O => NoFuel
  | S f => ReadFull (Z.to_N (blen - read)) (fun data =>           (* nn, err := io.ReadFull(r, buf[read:]) *)
             if (blen =? n) then Ret (acc ++ data)                  (* if read = len(buf); read == n { return buf, nil } *)
             else rb_loop f n (acc ++ data) blen (blen + packet_readBytes_more n blen))   (* more; append *)
  end.
Definition rb_body_ok (body : list cstmt6) : bool :=
  match body with
  | [KOther a; KIf i1 c1 [KIf i2 c2 [KOther e] []; KReturn r1] []; KIf i3 c3 [KReturn r2] []; KOther m; KOther g] =>
      seq a "nn, err := io.ReadFull(r, buf[read:])" && seq i1 "" && seq c1 "err != nil"
      && seq i2 "" && seq c2 "err == io.EOF && read > 0" && seq e "err = io.ErrUnexpectedEOF" && seq r1 "buf[:read+nn], err"
      && seq i3 "read = len(buf)" && seq c3 "read == n" && seq r2 "buf, nil"
      && seq m "more := min(n-read, read)" && seq g "buf = append(buf, make([]byte, more)...)"
  | _ => false
  end.
Definition readBytes_interp (ps : list cstmt6) (fuel : nat) (n : Z) : dec (list N) :=
  match ps with
  | [KOther a; KOther b; KFor i c p body] =>
      if seq a "first := min(n, maxPreallocBytes)" && seq b "buf := make([]byte, first)"
         && seq i "read := 0" && seq c "" && seq p "" && rb_body_ok body
      then (if (packet_readBytes_first n <? 0) then Crash crash_make else rb_loop fuel n [] 0 (packet_readBytes_first n))
      else Crash eUnknown
  | _ => Crash eUnknown
  end.

Lemma takeN_plus (a b : N) (s : list N) : (takeN a s ++ takeN b (dropN a s))%list = takeN (a + b) s.
Proof.
  unfold takeN, dropN. replace (N.to_nat (a + b)) with (N.to_nat a + N.to_nat b)%nat by lia.
  revert s. induction (N.to_nat a) as [|k IH]; intros s; [reflexivity|].
  destruct s as [|x s]; cbn [firstn skipn Nat.add app]; [rewrite firstn_nil; reflexivity|]. rewrite IH. reflexivity.
Qed.
Lemma dropN_plus (a b : N) (s : list N) : dropN b (dropN a s) = dropN (a + b) s.
Proof.
  unfold dropN. replace (N.to_nat (a + b)) with (N.to_nat a + N.to_nat b)%nat by lia.
  revert s. induction (N.to_nat a) as [|k IH]; intros s; [reflexivity|].
  destruct s as [|x s]; cbn [skipn Nat.add]; [apply skipn_nil|apply IH].
Qed.
Lemma lenN_dropN (a : N) (s : list N) : lenN (dropN a s) = (lenN s - a)%N.
Proof. unfold lenN, dropN. rewrite skipn_length. lia. Qed.

Lemma rb_loop_S f n acc read blen : rb_loop (S f) n acc read blen =
  ReadFull (Z.to_N (blen - read)) (fun data =>
    if (blen =? n) then Ret (acc ++ data)%list
    else rb_loop f n (acc ++ data)%list blen (blen + packet_readBytes_more n blen)).
Proof. reflexivity. Qed.

Lemma rb_loop_run n : 0 <= n < 4611686018427387904 -> forall f acc read blen s,
  0 <= read <= blen -> blen <= n -> (read < blen \/ blen = n) -> n <= blen * 2 ^ Z.of_nat f ->
  run_flat (rb_loop (S f) n acc read blen) s =
  if (Z.to_N (n - read) <=? lenN s)%N then FOk (acc ++ takeN (Z.to_N (n - read)) s)%list (dropN (Z.to_N (n - read)) s)
  else FErr eEOF.
Proof.
  intros Hn. induction f as [|f IH]; intros acc read blen s Hr Hb Hp Hf.
  - (* no doubling left: the buffer already has n bytes *)
    change (2 ^ Z.of_nat 0) with 1 in Hf. assert (blen = n) by lia. subst blen.
    rewrite rb_loop_S. cbn [run_flat]. rewrite Z.eqb_refl. destruct (Z.to_N (n - read) <=? lenN s)%N; reflexivity.
  - rewrite (rb_loop_S (S f)). cbn [run_flat].
    destruct (Z.eqb_spec blen n) as [->|Ne].
    + destruct (Z.to_N (n - read) <=? lenN s)%N; reflexivity.
    + assert (Hlt : read < blen) by lia.
      unfold packet_readBytes_more. rewrite (wrap_s_id 64 (n - blen)) by (change (2 ^ (64 - 1)) with 9223372036854775808; lia).
      set (b' := blen + Z.min (n - blen) blen).
      destruct (N.leb_spec (Z.to_N (blen - read)) (lenN s)) as [L1|L1].
      * rewrite IH; [|lia|unfold b'; lia|unfold b'; lia|].
        2:{ unfold b'. rewrite Nat2Z.inj_succ, Z.pow_succ_r in Hf by lia. destruct (Z.min_spec (n - blen) blen) as [[_ ->]|[_ ->]].
            - replace (blen + (n - blen)) with n by lia. assert (0 < 2 ^ Z.of_nat f) by (apply Z.pow_pos_nonneg; lia). nia.
            - lia. }
        rewrite lenN_dropN. rewrite <- app_assoc, takeN_plus, dropN_plus.
        replace (Z.to_N (blen - read) + Z.to_N (n - blen))%N with (Z.to_N (n - read)) by lia.
        destruct (N.leb_spec (Z.to_N (n - blen)) (lenN s - Z.to_N (blen - read))) as [L2|L2];
        destruct (N.leb_spec (Z.to_N (n - read)) (lenN s)) as [L3|L3]; try reflexivity; lia.
      * destruct (N.leb_spec (Z.to_N (n - read)) (lenN s)) as [L3|L3]; [lia|reflexivity].
Qed.

Lemma readBytes_is_ReadFull n s : 0 <= n < 2 ^ 62 ->
  run_flat (readBytes_interp (snd C06gen.skel_readBytes) 64 n) s = run_flat (ReadFull (Z.to_N n) (fun data => Ret data)) s.
Proof.
  intros Hn. change (2 ^ 62) with 4611686018427387904 in Hn.
  change (readBytes_interp (snd C06gen.skel_readBytes) 64 n)
    with (if (packet_readBytes_first n <? 0) then Crash crash_make else rb_loop 64 n [] 0 (packet_readBytes_first n)).
  unfold packet_readBytes_first. destruct (Z.ltb_spec (Z.min n 65536) 0) as [?|_]; [lia|].
  change 64%nat with (S 63).
  rewrite (rb_loop_run n Hn 63 [] 0 (Z.min n 65536) s) by (try (change (2 ^ Z.of_nat 63) with 9223372036854775808); lia).
  rewrite Z.sub_0_r. cbn [run_flat app]. destruct (Z.to_N n <=? lenN s)%N; reflexivity.
Qed.
Local Close Scope Z_scope.

(* ------------------------------------------------------------------ 14. every body has a lemma *)
(* a function name packaged with the statement of its tie / interpretation lemma and its proof *)
Record cov := mkcov { c_name : string; c_stmt : Prop; c_proof : c_stmt }.
Arguments mkcov c_name {c_stmt} c_proof.

(* not codecs (no WriteTo / ReadFrom, no wire I/O): outside the property's statement *)
Definition helpers : list string :=
  [ "Angle.ToDeg"; "Angle.ToRad"; "BitSet.Get"; "BitSet.Set"; "BitSet.Len"; "NewFixedBitSet";
    "FixedBitSet.Get"; "FixedBitSet.Set"; "FixedBitSet.Len"; "Option.Pointer" ].

Definition covered : list cov :=
  [ mkcov "Boolean.WriteTo" tie_Boolean_write; mkcov "Boolean.ReadFrom" tie_Boolean_read;
    mkcov "String.WriteTo" tie_String_write; mkcov "String.ReadFrom" closed_String_read;
    mkcov "readByte" C05_tie_r.tie_readByte;
    mkcov "Byte.WriteTo" tie_Byte_write; mkcov "Byte.ReadFrom" tie_Byte_read;
    mkcov "UnsignedByte.WriteTo" tie_UnsignedByte_write; mkcov "UnsignedByte.ReadFrom" tie_UnsignedByte_read;
    mkcov "Short.WriteTo" tie_Short_write; mkcov "Short.ReadFrom" tie_Short_read;
    mkcov "UnsignedShort.WriteTo" tie_UnsignedShort_write; mkcov "UnsignedShort.ReadFrom" tie_UnsignedShort_read;
    mkcov "Int.WriteTo" tie_Int_write; mkcov "Int.ReadFrom" tie_Int_read;
    mkcov "Long.WriteTo" tie_Long_write; mkcov "Long.ReadFrom" tie_Long_read;
    mkcov "VarInt.WriteTo" tie_VarInt_write; mkcov "VarInt.WriteToBytes" C05_tie.tie_VarInt_WriteToBytes;
    mkcov "VarInt.ReadFrom" C05_tie_r.tie_VarInt_ReadFrom; mkcov "VarInt.Len" C05_tie.tie_VarInt_Len;
    mkcov "VarLong.WriteTo" tie_VarLong_write; mkcov "VarLong.WriteToBytes" C05_tie.tie_VarLong_WriteToBytes;
    mkcov "VarLong.ReadFrom" C05_tie_r.tie_VarLong_ReadFrom; mkcov "VarLong.Len" C05_tie.tie_VarLong_Len;
    mkcov "Position.WriteTo" tie_Position_write; mkcov "Position.ReadFrom" tie_Position_read;
    mkcov "Angle.WriteTo" tie_Angle_write; mkcov "Angle.ReadFrom" tie_Angle_read;
    mkcov "Float.WriteTo" tie_Float_write; mkcov "Float.ReadFrom" tie_Float_read;
    mkcov "Double.WriteTo" tie_Double_write; mkcov "Double.ReadFrom" tie_Double_read;
    mkcov "NBT" NBT_ReadFrom_strict;
    mkcov "NBTField.WriteTo" NBTField_WriteTo_is_skel; mkcov "NBTField.ReadFrom" NBTField_ReadFrom_allow_is_skel;
    mkcov "countingWriter.Write" countingWriter_Write_is_skel; mkcov "countingReader.Read" countingReader_Read_is_skel;
    mkcov "ByteArray.WriteTo" tie_lenbytes_write; mkcov "ByteArray.ReadFrom" closed_ByteArray_read;
    mkcov "readBytes" readBytes_is_ReadFull;
    mkcov "UUID.WriteTo" tie_UUID_write; mkcov "UUID.ReadFrom" tie_UUID_read;
    mkcov "PluginMessageData.WriteTo" tie_PluginMessageData_write;
    mkcov "PluginMessageData.ReadFrom" PluginMessageData_ReadFrom_is_skel;
    mkcov "BitSet.WriteTo" tie_BitSet_write; mkcov "BitSet.ReadFrom" closed_BitSet_read;
    mkcov "FixedBitSet.WriteTo" tie_FixedBitSet_write; mkcov "FixedBitSet.ReadFrom" tie_FixedBitSet_read;
    mkcov "Ary.WriteTo" Ary_WriteTo_is_skel; mkcov "Ary.ReadFrom" Ary_ReadFrom_is_skel;
    mkcov "Array" Array_ReadFrom;
    mkcov "Opt.has" Opt_has_is_skel; mkcov "Opt.WriteTo" Opt_is_skel; mkcov "Opt.ReadFrom" Opt_is_skel;
    mkcov "Option.WriteTo" Option_WriteTo_is_skel; mkcov "Option.ReadFrom" Option_ReadFrom_is_skel;
    mkcov "OptionDecoder.ReadFrom" OptionDecoder_ReadFrom_is_skel; mkcov "OptionEncoder.WriteTo" Option_WriteTo_is_skel;
    mkcov "Tuple.WriteTo" Tuple_WriteTo_is_skel; mkcov "Tuple.ReadFrom" Tuple_ReadFrom_is_skel;
    mkcov "CreateByteReader" C05_tie_r.tie_byte_source;
    mkcov "byteReaderWrapper.ReadByte" (@C05_tie_r.run_wrapper_bind);
    mkcov "Builder.WriteField" views_stable; mkcov "Builder.Packet" views_stable;
    mkcov "Marshal" marshal_isolated; mkcov "Packet.Scan" Packet_Scan_is_skel ].

Fixpoint mem_str (x : string) (l : list string) : bool :=
  match l with [] => false | y :: t => String.eqb x y || mem_str x t end.

(* the functions the source declares, minus the helpers, are exactly the names that carry a lemma, in source
   order; and every helper named is a function of the source *)
Lemma every_body_interpreted :
  filter (fun n => negb (mem_str n helpers)) C06gen.all_funcs = map c_name covered
  /\ forallb (fun h => mem_str h C06gen.all_funcs) helpers = true.
Proof. split; vm_compute; reflexivity. Qed.
