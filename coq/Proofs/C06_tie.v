(* Tie lemmas (C06): the definitions that tools/gotrans TRANSLATES from the Go source on every run
   (coq/Gen/Funcs.v) agree with the hand-written model the property theorems are about. A source edit of one
   of these functions changes Gen/Funcs.v; these lemmas are then re-checked. *)
From Coq Require Import List Arith NArith ZArith Lia Bool ZifyN ZifyNat ZifyBool.
From GoMC Require Import Base.Bytes Base.Bits Base.GoInt Gen.Consts Gen.Funcs.
From GoMC Require Model.C06.
Import ListNotations.
Ltac Zify.zify_post_hook ::= Z.div_mod_to_equations.
Local Open Scope Z_scope.

Lemma N2Z_inj_lor a b : Z.of_N (N.lor a b) = Z.lor (Z.of_N a) (Z.of_N b).
Proof. destruct a, b; reflexivity. Qed.
Lemma N2Z_inj_shiftl a n : Z.of_N (N.shiftl a n) = Z.shiftl (Z.of_N a) (Z.of_N n).
Proof. rewrite N.shiftl_mul_pow2, Z.shiftl_mul_pow2 by lia. rewrite N2Z.inj_mul, N2Z.inj_pow. reflexivity. Qed.

(* C06: Position packing *)
Lemma tie_pos_pack x y z : packet_Position_WriteTo_position x z y = Z.of_N (C06.pos_pack x y z).
Proof.
  unfold packet_Position_WriteTo_position, C06.pos_pack. cbv zeta.
  change 67108863 with (2 ^ 26 - 1). change 4095 with (2 ^ 12 - 1).
  change (Z.land x 0x3FFFFFF) with (Z.land x (2 ^ 26 - 1)). change (Z.land z 0x3FFFFFF) with (Z.land z (2 ^ 26 - 1)).
  change (Z.land y 0xFFF) with (Z.land y (2 ^ 12 - 1)).
  pose proof (land_ones_range x 26 ltac:(lia)) as Hx. pose proof (land_ones_range z 26 ltac:(lia)) as Hz.
  pose proof (land_ones_range y 12 ltac:(lia)) as Hy.
  set (xm := Z.land x (2 ^ 26 - 1)) in *. set (zm := Z.land z (2 ^ 26 - 1)) in *. set (ym := Z.land y (2 ^ 12 - 1)) in *.
  clearbody xm zm ym. change (2 ^ 26) with 67108864 in *. change (2 ^ 12) with 4096 in *.
  rewrite !N2Z_inj_lor, N2Z.inj_mod, !N2Z_inj_shiftl, !Z2N.id by lia.
  change (Z.of_N 38) with 38. change (Z.of_N 12) with 12. change (Z.of_N (2 ^ 64)) with (2 ^ 64).
  rewrite !Z.shiftl_mul_pow2 by lia. change (2 ^ 38) with 274877906944. change (2 ^ 12) with 4096.
  unfold wrap_u, wrap_s. change (2 ^ 64) with 18446744073709551616. change (2 ^ (64 - 1)) with 9223372036854775808.
  rewrite (Z.mod_small xm) by lia. rewrite (Z.mod_small ym) by lia.
  rewrite (Z.mod_small (zm * 4096 + 9223372036854775808)) by lia.
  replace (zm * 4096 + 9223372036854775808 - 9223372036854775808) with (zm * 4096) by lia.
  rewrite (Z.mod_small (zm * 4096)) by lia. reflexivity.
Qed.

Lemma shiftr_in_range a k : 0 <= k -> - 2 ^ 63 <= a < 2 ^ 63 -> - 2 ^ 63 <= Z.shiftr a k < 2 ^ 63.
Proof.
  intros Hk Ha. rewrite Z.shiftr_div_pow2 by lia.
  assert (1 <= 2 ^ k) by (pose proof (Z.pow_pos_nonneg 2 k); lia).
  set (d := 2 ^ k) in *. clearbody d. change (2 ^ 63) with 9223372036854775808 in *.
  split.
  - apply Z.div_le_lower_bound; nia.
  - apply Z.div_lt_upper_bound; nia.
Qed.

Lemma tie_pos_unpack v : - 2 ^ 63 <= v < 2 ^ 63 ->
  C06.pos_unpack v = C06.VPos (packet_Position_ReadFrom_x v) (packet_Position_ReadFrom_y v) (packet_Position_ReadFrom_z v).
Proof.
  intros Hv. unfold C06.pos_unpack, packet_Position_ReadFrom_x, packet_Position_ReadFrom_y, packet_Position_ReadFrom_z.
  rewrite !sx_wrapu_wrap_s64.
  assert (R : forall t, - 2 ^ 63 <= wrap_s 64 t < 2 ^ 63) by (intros t; apply (wrap_s_range 64); lia).
  assert (I : forall a k, 0 <= k -> - 2 ^ 63 <= a < 2 ^ 63 -> wrap_s 64 (Z.shiftr a k) = Z.shiftr a k).
  { intros a k Hk Ha. apply wrap_s_id; [lia|]. change (2 ^ (64 - 1)) with (2 ^ 63). apply shiftr_in_range; assumption. }
  rewrite !I by (try apply R; lia).
  reflexivity.
Qed.
