(* Tie lemmas (C06), closed form of the length-prefixed readers: the VarInt.ReadFrom parameter of the translated
   String / ByteArray / BitSet readers (Gen/C06gen.v) instantiated with the TRANSLATION of VarInt.ReadFrom
   (Gen/C05gen.v, tools/gotrans/c05.go; tied to the model's read32 by C05_read32_translated =
   Proofs.C05_tie_r.tie_VarInt_ReadFrom), for both outcomes `br` of the type assertion r.(io.ByteReader) inside
   CreateByteReader.  No parameter is left: every statement of these ReadFrom methods that runs on the path from
   the first byte to the returned value is translated from the source. *)
From Coq Require Import List Arith NArith ZArith Lia Bool.
From GoMC Require Import Base.Bytes Base.Dec Base.GoInt Gen.C05gen Gen.C06gen
  Model.C05 Model.C06 Model.C06_syntax Proofs.C05 Proofs.C05_tie_r Proofs.C06_tie_r.
Import ListNotations.
Local Open Scope Z_scope.

Lemma bind_run_cong {A B} (d1 d2 : dec A) (k : A -> dec B) : robust d1 -> robust d2 ->
  (forall s, run_flat d1 s = run_flat d2 s) -> forall s, run_flat (bind d1 k) s = run_flat (bind d2 k) s.
Proof. intros R1 R2 H s. rewrite !run_flat_bind by assumption. rewrite H. reflexivity. Qed.

Lemma translated_varint_rd br s : run_flat (C05gen.packet_VarInt_ReadFrom_io br) s = run_flat varint_rd s.
Proof.
  rewrite C05_tie_r.tie_VarInt_ReadFrom, run_varint_rd.
  destruct (run_flat read32 s) as [[l n] rest| | |]; reflexivity.
Qed.

Lemma closed_String_read br s : all_bytes s ->
  C06_tie_r.fmapr inj_bytes (run_flat (C06gen.packet_String_ReadFrom_io (C05gen.packet_VarInt_ReadFrom_io br)) s)
  = run_flat r_string s.
Proof.
  intros Hs. rewrite <- (tie_String_read s Hs). f_equal.
  unfold C06gen.packet_String_ReadFrom_io. cbv zeta.
  apply bind_run_cong; [apply C05_tie_r.robust_VarInt_ReadFrom|apply robust_varint_rd|apply translated_varint_rd].
Qed.

Lemma closed_ByteArray_read br bs0 sp0 s : all_bytes s ->
  C06_tie_r.fmapr inj_slice
    (run_flat (C06gen.packet_ByteArray_ReadFrom_io (C05gen.packet_VarInt_ReadFrom_io br) (map Z.of_N bs0) (map Z.of_N sp0)) s)
  = run_flat (r_bytearray (VBytes bs0 sp0)) s.
Proof.
  intros Hs. rewrite <- (tie_ByteArray_read bs0 sp0 s Hs). f_equal.
  unfold C06gen.packet_ByteArray_ReadFrom_io. cbv zeta.
  apply bind_run_cong; [apply C05_tie_r.robust_VarInt_ReadFrom|apply robust_varint_rd|apply translated_varint_rd].
Qed.

Lemma closed_BitSet_read br fuel old (b sp : list Z) s : all_bytes s ->
  (forall l n rest, run_flat read32 s = FOk (l, n) rest -> (Z.to_nat l <= fuel)%nat) ->
  C06_tie_r.fmapr inj_bitset
    (run_flat (C06gen.packet_BitSet_ReadFrom_io (C05gen.packet_VarInt_ReadFrom_io br) b sp) s)
  = run_flat (r_bitset fuel old) s.
Proof.
  intros Hs Hf. rewrite <- (tie_BitSet_read fuel old b sp s Hs Hf). f_equal.
  unfold C06gen.packet_BitSet_ReadFrom_io. cbv zeta.
  apply bind_run_cong; [apply C05_tie_r.robust_VarInt_ReadFrom|apply robust_varint_rd|apply translated_varint_rd].
Qed.
