(* Tie lemmas (C06), readers: the ReadFrom methods of net/packet/types.go as tools/gotrans/c06.go TRANSLATES
   them on every run into terms of Base.Dec.dec (coq/Gen/C06gen.v) run exactly like the hand-written model's
   readers (Model/C06.v: r_bool ... r_bitset), on EVERY input made of bytes: same outcome class, same error
   class, same value, same count, same rest.  A source edit of one of these methods changes Gen/C06gen.v;
   these lemmas are then re-checked. *)
From Coq Require Import List Arith NArith ZArith Lia Bool ZifyN ZifyNat ZifyBool.
From GoMC Require Import Base.Bytes Base.Bits Base.Dec Base.GoInt Gen.Consts Gen.Funcs Gen.C06gen
  Model.C05 Model.C06 Model.C06_syntax Proofs.C06_tie.
Import ListNotations.
Ltac Zify.zify_post_hook ::= Z.div_mod_to_equations.
Local Open Scope Z_scope.

Definition fmapr {A B} (f : A -> B) (r : fres A) : fres B :=
  match r with FOk a rest => FOk (f a) rest | FErr e => FErr e | FPanic w => FPanic w | FFuel => FFuel end.

(* the translated readers return (new value of the destination, n) over Z; the model's return (fval, N) *)
Definition inj_z (p : Z * Z) : fval * N := (VZ (fst p), Z.to_N (snd p)).
Definition inj_b (p : bool * Z) : fval * N := (VB (fst p), Z.to_N (snd p)).
Definition inj_bytes (p : list Z * Z) : fval * N := (VBytes (map Z.to_N (fst p)) [], Z.to_N (snd p)).
Definition inj_slice (p : (list Z * list Z) * Z) : fval * N := (VBytes (map Z.to_N (fst (fst p))) [], Z.to_N (snd p)).
Definition inj_pos (p : (Z * Z * Z) * Z) : fval * N :=
  let '((x, y, z), n) := p in (VPos x y z, Z.to_N n).

(* ---- bytes *)
Lemma byte_in_id b : is_byte b -> byte_in b = Z.of_N b.
Proof. unfold is_byte, byte_in. intros H. rewrite N.mod_small by exact H. reflexivity. Qed.

Lemma map_byte_in l : all_bytes l -> map byte_in l = map Z.of_N l.
Proof. induction 1 as [|b l Hb _ IH]; [reflexivity|]. cbn [map]. rewrite IH, byte_in_id by exact Hb. reflexivity. Qed.

Lemma map_to_N_of_N l : map Z.to_N (map Z.of_N l) = l.
Proof. induction l as [|b l IH]; [reflexivity|]. cbn [map]. rewrite IH, N2Z.id. reflexivity. Qed.

Lemma all_bytes_firstn n l : all_bytes l -> all_bytes (firstn n l).
Proof.
  unfold all_bytes. intros H. revert n. induction H as [|b l Hb _ IH]; intros [|n]; cbn [firstn].
  - constructor. - constructor. - constructor. - constructor; [exact Hb|apply IH].
Qed.
Lemma all_bytes_skipn n l : all_bytes l -> all_bytes (skipn n l).
Proof.
  unfold all_bytes. intros H. revert n. induction H as [|b l Hb Hl IH]; intros [|n]; cbn [skipn].
  - constructor. - constructor. - constructor; assumption. - apply IH.
Qed.
Lemma all_bytes_takeN n l : all_bytes l -> all_bytes (takeN n l).
Proof. apply all_bytes_firstn. Qed.
Lemma all_bytes_dropN n l : all_bytes l -> all_bytes (dropN n l).
Proof. apply all_bytes_skipn. Qed.
Lemma lenN_takeN {A} n (l : list A) : (n <= lenN l)%N -> lenN (takeN n l) = n.
Proof. unfold lenN, takeN. intros H. rewrite firstn_length. lia. Qed.

(* binary.BigEndian.UintNN on the bytes delivered = the model's unbe *)
Lemma unle_app a b : unle (a ++ b) = (unle a + 256 ^ lenN a * unle b)%N.
Proof.
  induction a as [|x a IH]; [cbn [app unle]; change (lenN (@nil N)) with 0%N; change (256 ^ 0)%N with 1%N; lia|].
  cbn [app unle]. rewrite IH, lenN_cons. rewrite N.add_1_l, N.pow_succ_r'. lia.
Qed.
Lemma be_uint_acc l : forall a, fold_left (fun a b => a * 256 + b) (map Z.of_N l) a = a * 256 ^ Z.of_N (lenN l) + Z.of_N (unbe l).
Proof.
  unfold unbe. induction l as [|b l IH]; intros a.
  - cbn. lia.
  - cbn [map fold_left rev]. rewrite IH, unle_app. cbn [unle]. rewrite lenN_cons.
    assert (E : lenN (rev l) = lenN l) by (unfold lenN; rewrite rev_length; reflexivity). rewrite E.
    replace (b + 256 * 0)%N with b by lia.
    rewrite !N2Z.inj_add, N2Z.inj_mul, N2Z.inj_pow. change (Z.of_N 256) with 256. change (Z.of_N 1) with 1.
    rewrite Z.pow_add_r by lia. change (256 ^ 1) with 256. lia.
Qed.
Lemma be_uint_unbe l : all_bytes l -> be_uint (map byte_in l) = Z.of_N (unbe l).
Proof. intros H. unfold be_uint. rewrite map_byte_in by exact H. rewrite be_uint_acc. lia. Qed.

Lemma unbe_lt l : all_bytes l -> (unbe l < 256 ^ lenN l)%N.
Proof.
  intros H. unfold unbe. assert (E : lenN (rev l) = lenN l) by (unfold lenN; rewrite rev_length; reflexivity).
  rewrite <- E. apply unle_lt. apply Forall_rev. exact H.
Qed.

(* ---- conversions of a freshly read unsigned value *)
Lemma wrap_s_sx8 u : (u < 256 ^ 1)%N -> wrap_s 8 (Z.of_N u) = sx8 u.
Proof. unfold wrap_s, sx8, sx. change (256 ^ 1)%N with 256%N. change (2 ^ (8 - 1))%N with 128%N. change (2 ^ (8 - 1)) with 128. change (2 ^ 8) with 256. change (2 ^ Z.of_N 8) with 256. intros H. destruct (N.ltb_spec u 128); lia. Qed.
Lemma wrap_s_sx16 u : (u < 256 ^ 2)%N -> wrap_s 16 (Z.of_N u) = sx16 u.
Proof. unfold wrap_s, sx16, sx. change (256 ^ 2)%N with 65536%N. change (2 ^ (16 - 1))%N with 32768%N. change (2 ^ (16 - 1)) with 32768. change (2 ^ 16) with 65536. change (2 ^ Z.of_N 16) with 65536. intros H. destruct (N.ltb_spec u 32768); lia. Qed.
Lemma wrap_s_sx32 u : (u < 256 ^ 4)%N -> wrap_s 32 (Z.of_N u) = sx32 u.
Proof. unfold wrap_s, sx32, sx. change (256 ^ 4)%N with 4294967296%N. change (2 ^ (32 - 1))%N with 2147483648%N. change (2 ^ (32 - 1)) with 2147483648. change (2 ^ 32) with 4294967296. change (2 ^ Z.of_N 32) with 4294967296. intros H. destruct (N.ltb_spec u 2147483648); lia. Qed.
Lemma wrap_s_sx64 u : (u < 256 ^ 8)%N -> wrap_s 64 (Z.of_N u) = sx64 u.
Proof. unfold wrap_s, sx64, sx. change (256 ^ 8)%N with 18446744073709551616%N. change (2 ^ (64 - 1))%N with 9223372036854775808%N. change (2 ^ (64 - 1)) with 9223372036854775808. change (2 ^ 64) with 18446744073709551616. change (2 ^ Z.of_N 64) with 18446744073709551616. intros H. destruct (N.ltb_spec u 9223372036854775808); lia. Qed.
Lemma wrap_u_id16 u : (u < 256 ^ 2)%N -> wrap_u 16 (Z.of_N u) = Z.of_N u.
Proof. change (256 ^ 2)%N with 65536%N. intros H. apply wrap_u_id; [lia|]. change (2 ^ 16) with 65536. lia. Qed.

(* ---- the fixed-width shape: ReadFull k, convert the big-endian value, return (value, k) *)
Lemma run_fixed_tie (k : N) (conv : Z -> Z) (convM : N -> Z) (cnt : Z) s :
  all_bytes s -> Z.to_N cnt = k ->
  (forall u, (u < 256 ^ k)%N -> conv (Z.of_N u) = convM u) ->
  fmapr inj_z (run_flat (ReadFull k (fun data => io_ret 0%N (conv (be_uint (map byte_in data)), cnt))) s)
  = run_flat (r_fixed k convM) s.
Proof.
  intros Hs Hc Hconv. unfold r_fixed. cbn [run_flat]. destruct (N.leb_spec k (lenN s)) as [L|L]; [|reflexivity].
  unfold io_ret. cbn [N.eqb run_flat fmapr]. unfold inj_z. cbn [fst snd].
  rewrite be_uint_unbe by (apply all_bytes_takeN, Hs). rewrite Hconv, Hc; [reflexivity|].
  pose proof (unbe_lt (takeN k s) (all_bytes_takeN k s Hs)) as B. rewrite lenN_takeN in B by exact L. exact B.
Qed.

Lemma tie_Short_read s : all_bytes s -> fmapr inj_z (run_flat packet_Short_ReadFrom_io s) = run_flat r_short s.
Proof. intros H. exact (run_fixed_tie 2 (wrap_s 16) sx16 (wrap_s 64 (0 + wrap_s 64 2)) s H eq_refl wrap_s_sx16). Qed.
Lemma tie_UnsignedShort_read s : all_bytes s -> fmapr inj_z (run_flat packet_UnsignedShort_ReadFrom_io s) = run_flat r_ushort s.
Proof. intros H. exact (run_fixed_tie 2 (wrap_u 16) Z.of_N (wrap_s 64 (0 + wrap_s 64 2)) s H eq_refl wrap_u_id16). Qed.
Lemma tie_Int_read s : all_bytes s -> fmapr inj_z (run_flat packet_Int_ReadFrom_io s) = run_flat r_int s.
Proof. intros H. exact (run_fixed_tie 4 (wrap_s 32) sx32 (wrap_s 64 (0 + wrap_s 64 4)) s H eq_refl wrap_s_sx32). Qed.
Lemma tie_Long_read s : all_bytes s -> fmapr inj_z (run_flat packet_Long_ReadFrom_io s) = run_flat r_long s.
Proof. intros H. exact (run_fixed_tie 8 (wrap_s 64) sx64 (wrap_s 64 (0 + wrap_s 64 8)) s H eq_refl wrap_s_sx64). Qed.

(* ---- Boolean / Byte / UnsignedByte / Angle: readByte *)
Lemma tie_Boolean_read s : all_bytes s -> fmapr inj_b (run_flat packet_Boolean_ReadFrom_io s) = run_flat r_bool s.
Proof.
  intros H. destruct H as [|b s Hb _]; [reflexivity|].
  unfold packet_Boolean_ReadFrom_io, r_bool. cbv zeta. cbn [run_flat]. unfold io_ret. cbn [N.eqb run_flat fmapr].
  unfold inj_b. cbn [fst snd]. rewrite byte_in_id by exact Hb. change 0 with (Z.of_N 0). rewrite zn_eqb. reflexivity.
Qed.
Lemma tie_Byte_read s : all_bytes s -> fmapr inj_z (run_flat packet_Byte_ReadFrom_io s) = run_flat r_byte s.
Proof.
  intros H. destruct H as [|b s Hb _]; [reflexivity|].
  unfold packet_Byte_ReadFrom_io, r_byte. cbv zeta. cbn [run_flat]. unfold io_ret. cbn [N.eqb run_flat fmapr].
  unfold inj_z, byte_in. cbn [fst snd]. rewrite wrap_s_sx8; [reflexivity|]. change (256 ^ 1)%N with 256%N. apply N.mod_lt. lia.
Qed.
Lemma tie_UnsignedByte_read s : all_bytes s -> fmapr inj_z (run_flat packet_UnsignedByte_ReadFrom_io s) = run_flat r_ubyte s.
Proof.
  intros H. destruct H as [|b s Hb _]; [reflexivity|].
  unfold packet_UnsignedByte_ReadFrom_io, r_ubyte. cbv zeta. cbn [run_flat]. unfold io_ret. cbn [N.eqb run_flat fmapr].
  unfold inj_z, byte_in. cbn [fst snd]. rewrite wrap_u_id; [reflexivity|lia|]. change (2 ^ 8) with 256.
  pose proof (N.mod_lt b 256 ltac:(lia)). lia.
Qed.
Lemma tie_Angle_read s : all_bytes s -> fmapr inj_z (run_flat packet_Angle_ReadFrom_io s) = run_flat r_byte s.
Proof.
  intros H. rewrite <- (tie_Byte_read s H). destruct H as [|b s Hb _]; reflexivity.
Qed.

(* ---- raw form of the fixed-width shape, for the readers built on Int / Long *)
Lemma run_fixed_raw (k : N) (conv : Z -> Z) (cnt : Z) s : all_bytes s ->
  run_flat (ReadFull k (fun data => io_ret 0%N (conv (be_uint (map byte_in data)), cnt))) s
  = if (k <=? lenN s)%N then FOk (conv (Z.of_N (unbe (takeN k s))), cnt) (dropN k s) else FErr eEOF.
Proof.
  intros Hs. cbn [run_flat]. destruct (N.leb_spec k (lenN s)) as [L|L]; [|reflexivity].
  unfold io_ret. cbn [N.eqb run_flat]. rewrite be_uint_unbe by (apply all_bytes_takeN, Hs). reflexivity.
Qed.
Lemma robust_Int_io : robust packet_Int_ReadFrom_io.
Proof. unfold packet_Int_ReadFrom_io. cbv zeta. constructor. intros bs. unfold io_ret. cbn [N.eqb]. constructor. Qed.
Lemma robust_Long_io : robust packet_Long_ReadFrom_io.
Proof. unfold packet_Long_ReadFrom_io. cbv zeta. constructor. intros bs. unfold io_ret. cbn [N.eqb]. constructor. Qed.
Lemma run_Int_io s : all_bytes s -> run_flat packet_Int_ReadFrom_io s
  = if (4 <=? lenN s)%N then FOk (wrap_s 32 (Z.of_N (unbe (takeN 4 s))), 4) (dropN 4 s) else FErr eEOF.
Proof. intros H. exact (run_fixed_raw 4 (wrap_s 32) (wrap_s 64 (0 + wrap_s 64 4)) s H). Qed.
Lemma run_Long_io s : all_bytes s -> run_flat packet_Long_ReadFrom_io s
  = if (8 <=? lenN s)%N then FOk (wrap_s 64 (Z.of_N (unbe (takeN 8 s))), 8) (dropN 8 s) else FErr eEOF.
Proof. intros H. exact (run_fixed_raw 8 (wrap_s 64) (wrap_s 64 (0 + wrap_s 64 8)) s H). Qed.

Lemma unbe_take_lt k s : all_bytes s -> (k <= lenN s)%N -> (unbe (takeN k s) < 256 ^ k)%N.
Proof.
  intros Hs L. pose proof (unbe_lt (takeN k s) (all_bytes_takeN k s Hs)) as B. rewrite lenN_takeN in B by exact L. exact B.
Qed.

(* ---- Float / Double: the Int / Long read, then math.Float32frombits(uint32(v)) *)
Lemma tie_Float_read s : all_bytes s -> fmapr inj_z (run_flat packet_Float_ReadFrom_io s) = run_flat r_float s.
Proof.
  intros Hs. unfold packet_Float_ReadFrom_io. cbv zeta. rewrite run_flat_bind by apply robust_Int_io.
  rewrite run_Int_io by exact Hs. unfold r_float, r_fixed. cbn [run_flat].
  destruct (N.leb_spec 4 (lenN s)) as [L|L]; [|reflexivity].
  unfold io_ret. cbn [N.eqb run_flat fmapr]. unfold inj_z. cbn [fst snd].
  pose proof (unbe_take_lt 4 s Hs L) as B. set (u := unbe (takeN 4 s)) in *. clearbody u.
  rewrite wrap_u_of_s by lia. change (256 ^ 4)%N with 4294967296%N in B.
  rewrite wrap_u_id by (change (2 ^ 32) with 4294967296; lia).
  unfold sx32, u32. rewrite (wrapu_sx 32 u) by (change (2 ^ 32)%N with 4294967296%N; lia). reflexivity.
Qed.
Lemma tie_Double_read s : all_bytes s -> fmapr inj_z (run_flat packet_Double_ReadFrom_io s) = run_flat r_double s.
Proof.
  intros Hs. unfold packet_Double_ReadFrom_io. cbv zeta. rewrite run_flat_bind by apply robust_Long_io.
  rewrite run_Long_io by exact Hs. unfold r_double, r_fixed. cbn [run_flat].
  destruct (N.leb_spec 8 (lenN s)) as [L|L]; [|reflexivity].
  unfold io_ret. cbn [N.eqb run_flat fmapr]. unfold inj_z. cbn [fst snd].
  pose proof (unbe_take_lt 8 s Hs L) as B. set (u := unbe (takeN 8 s)) in *. clearbody u.
  rewrite wrap_u_of_s by lia. change (256 ^ 8)%N with 18446744073709551616%N in B.
  rewrite wrap_u_id by (change (2 ^ 64) with 18446744073709551616; lia).
  unfold sx64, u64. rewrite (wrapu_sx 64 u) by (change (2 ^ 64)%N with 18446744073709551616%N; lia). reflexivity.
Qed.

(* ---- Position: the Long read, then the three shift expressions (tied to pos_unpack in C06_tie) *)
Lemma tie_Position_read s : all_bytes s -> fmapr inj_pos (run_flat packet_Position_ReadFrom_io s) = run_flat r_pos s.
Proof.
  intros Hs. unfold packet_Position_ReadFrom_io. cbv zeta. rewrite run_flat_bind by apply robust_Long_io.
  rewrite run_Long_io by exact Hs. unfold r_pos. cbn [run_flat].
  destruct (N.leb_spec 8 (lenN s)) as [L|L]; [|reflexivity].
  unfold io_ret. cbn [N.eqb run_flat fmapr]. unfold inj_pos.
  pose proof (unbe_take_lt 8 s Hs L) as B. set (u := unbe (takeN 8 s)) in *. clearbody u.
  rewrite wrap_s_sx64 by exact B.
  assert (R : - 2 ^ 63 <= sx64 u < 2 ^ 63).
  { pose proof (sx_range 64 u ltac:(lia) ltac:(change (2 ^ 64)%N with (256 ^ 8)%N; exact B)) as Q.
    unfold in_sw in Q. change (Z.of_N 64 - 1) with 63 in Q. exact Q. }
  rewrite (tie_pos_unpack (sx64 u) R).
  unfold packet_Position_ReadFrom_x, packet_Position_ReadFrom_y, packet_Position_ReadFrom_z. reflexivity.
Qed.

(* ---- UUID / FixedBitSet: io.ReadFull into the destination *)
Lemma tie_UUID_read s : all_bytes s -> fmapr inj_bytes (run_flat packet_UUID_ReadFrom_io s) = run_flat r_uuid s.
Proof.
  intros Hs. unfold packet_UUID_ReadFrom_io, r_uuid. cbv zeta. change (Z.to_N 16) with 16%N. cbn [run_flat].
  destruct (N.leb_spec 16 (lenN s)) as [L|L]; [|reflexivity].
  unfold io_ret. cbn [N.eqb run_flat fmapr]. unfold inj_bytes. cbn [fst snd].
  rewrite map_byte_in by (apply all_bytes_takeN, Hs). rewrite map_to_N_of_N. reflexivity.
Qed.

Definition inj_fbs (p : list Z * Z) : list N * N := (map Z.to_N (fst p), Z.to_N (snd p)).
Lemma zlen_map {A B} (f : A -> B) l : zlen (map f l) = Z.of_N (lenN l).
Proof. unfold zlen, lenN. rewrite map_length. reflexivity. Qed.
Lemma wrap_s64_len (n : N) : (n < 2 ^ 63)%N -> wrap_s 64 (Z.of_N n) = Z.of_N n.
Proof. intros H. apply wrap_s_id; [lia|]. change (2 ^ (64 - 1)) with (2 ^ 63). change (2 ^ 63)%N with 9223372036854775808%N in H. lia. Qed.

Lemma tie_FixedBitSet_read old s : all_bytes s -> (lenN old < 2 ^ 63)%N ->
  fmapr inj_fbs (run_flat (packet_FixedBitSet_ReadFrom_io (map Z.of_N old)) s) = run_flat (r_fixedbitset old) s.
Proof.
  intros Hs Ho. unfold packet_FixedBitSet_ReadFrom_io, r_fixedbitset. cbv zeta. rewrite zlen_map, N2Z.id. cbn [run_flat].
  destruct (N.leb_spec (lenN old) (lenN s)) as [L|L]; [|reflexivity].
  unfold io_ret. cbn [N.eqb run_flat fmapr]. unfold inj_fbs. cbn [fst snd].
  rewrite map_byte_in by (apply all_bytes_takeN, Hs). rewrite map_to_N_of_N, wrap_s64_len, N2Z.id by exact Ho. reflexivity.
Qed.

(* ---- the length-prefixed types.  VarInt.ReadFrom (C05's loop, Model.C05.read32) is the parameter of the
   translated definitions; it is instantiated with the model's read32, its count as an int64 *)
From GoMC Require Import Proofs.C05.
Local Open Scope Z_scope.
Definition varint_rd : dec (Z * Z) := bind read32 (fun p => Ret (fst p, Z.of_N (snd p))).

Lemma lor_lt a b w : (a < 2 ^ w -> b < 2 ^ w -> N.lor a b < 2 ^ w)%N.
Proof.
  intros Ha Hb. destruct (N.eq_dec (N.lor a b) 0) as [E|E]; [rewrite E; apply N.neq_0_lt_0, N.pow_nonzero; lia|].
  apply N.log2_lt_pow2; [lia|]. rewrite N.log2_lor.
  assert (W : (0 < w)%N).
  { destruct (N.eq_dec w 0) as [->|]; [|lia]. change (2 ^ 0)%N with 1%N in *.
    assert (a = 0%N) by lia. assert (b = 0%N) by lia. subst. cbn in E. congruence. }
  apply N.max_lub_lt.
  - destruct (N.eq_dec a 0) as [->|Na]; [cbn; exact W|]. apply N.log2_lt_pow2; [lia|exact Ha].
  - destruct (N.eq_dec b 0) as [->|Nb]; [cbn; exact W|]. apply N.log2_lt_pow2; [lia|exact Hb].
Qed.

Lemma read_var_bound w cap : forall fuel acc num s u n rest, (acc < 2 ^ w)%N ->
  run_flat (read_var w cap fuel acc num) s = FOk (u, n) rest -> (u < 2 ^ w)%N.
Proof.
  induction fuel as [|fuel IH]; intros acc num s u n rest Ha H; [discriminate|].
  cbn [read_var] in H. destruct (N.leb_spec cap num) as [L|L]; [discriminate|].
  cbn [run_flat] in H. destruct s as [|b s]; [discriminate|].
  assert (B : (N.lor acc (N.shiftl (N.land b 127) (7 * num) mod 2 ^ w) < 2 ^ w)%N).
  { apply lor_lt; [exact Ha|]. apply N.mod_lt. apply N.pow_nonzero. lia. }
  destruct (_ =? 0)%N.
  - cbn [run_flat] in H. injection H as <- _ _. exact B.
  - eapply IH; [exact B|exact H].
Qed.

Lemma read32_facts s l n rest : all_bytes s -> run_flat read32 s = FOk (l, n) rest ->
  (- 2 ^ 31 <= l < 2 ^ 31) /\ (n <= 5)%N /\ all_bytes rest.
Proof.
  intros Hs H. pose proof (read32_cap s) as C. rewrite H in C.
  destruct (robust_rest_suffix _ read32_robust _ _ _ H) as [c Hc].
  split; [|split; [lia|subst s; unfold all_bytes in *; apply Forall_app in Hs; tauto]].
  unfold read32 in H. rewrite run_flat_bind in H by apply read_var_robust.
  destruct (run_flat (read_var 32 _ 12 0 0) s) as [[u k] r| | |] eqn:E; try discriminate.
  cbn [run_flat] in H. injection H as <- _ _.
  assert (B : (u < 2 ^ 32)%N) by (eapply read_var_bound; [|exact E]; reflexivity).
  pose proof (sx_range 32 u ltac:(lia) B) as Q. unfold in_sw in Q. change (Z.of_N 32 - 1) with 31 in Q. exact Q.
Qed.

Lemma robust_varint_rd : robust varint_rd.
Proof. unfold varint_rd. apply robust_bind; [apply read32_robust|intros; constructor]. Qed.
Lemma run_varint_rd s : run_flat varint_rd s =
  match run_flat read32 s with FOk (l, n) rest => FOk (l, Z.of_N n) rest | FErr e => FErr e | FPanic w => FPanic w | FFuel => FFuel end.
Proof.
  unfold varint_rd. rewrite run_flat_bind by apply read32_robust.
  destruct (run_flat read32 s) as [[l n] rest| | |]; reflexivity.
Qed.

Lemma zlen_zrepeat n : 0 <= n -> zlen (zrepeat n) = n.
Proof. intros H. unfold zlen, zrepeat, lenN. rewrite repeat_length. lia. Qed.

(* String.ReadFrom: length, `l < 0` check, readBytes(r, int(l)) (exactly l bytes, read in bounded steps),
   n += int64(l) *)
Lemma tie_String_read s : all_bytes s ->
  fmapr inj_bytes (run_flat (packet_String_ReadFrom_io varint_rd) s) = run_flat r_string s.
Proof.
  intros Hs. unfold packet_String_ReadFrom_io, r_string. cbv zeta.
  rewrite run_flat_bind by apply robust_varint_rd. rewrite run_flat_bind by apply read32_robust.
  rewrite run_varint_rd. destruct (run_flat read32 s) as [[l n] rest| | |] eqn:E; try reflexivity.
  destruct (read32_facts s l n rest Hs E) as (Rl & Rn & Hr).
  cbv beta iota. change (2 ^ 31) with 2147483648 in Rl. destruct (Z.ltb_spec l 0) as [Neg|Pos].
  - reflexivity.
  - rewrite (wrap_s_id 64 l) by (change (2 ^ (64 - 1)) with 9223372036854775808; lia).
    destruct (Z.ltb_spec l 0) as [?|_]; [lia|]. cbn [run_flat].
    destruct (N.leb_spec (Z.to_N l) (lenN rest)) as [L|L]; [|reflexivity].
    unfold io_ret. cbn [N.eqb run_flat fmapr]. unfold inj_bytes. cbn [fst snd].
    rewrite map_byte_in by (apply all_bytes_takeN, Hr). rewrite map_to_N_of_N.
    rewrite (wrap_s_id 64 (0 + Z.of_N n)) by (change (2 ^ (64 - 1)) with 9223372036854775808; lia).
    rewrite wrap_s_id by (change (2 ^ (64 - 1)) with 9223372036854775808; lia).
    do 2 f_equal. lia.
Qed.

(* ByteArray.ReadFrom: length, `Len < 0` check, `cap of the destination < int(Len)` -> readBytes into a new slice, else reslice to [:Len] and io.ReadFull
   (never out of range there), io.ReadFull into the whole of it.  The destination is any slice state. *)
Lemma zlen_app {A} (a b : list A) : zlen (a ++ b) = zlen a + zlen b.
Proof. unfold zlen. rewrite lenN_app. lia. Qed.
Lemma zlen_ztake n l : 0 <= n <= zlen l -> zlen (ztake n l) = n.
Proof. unfold zlen, ztake, lenN. intros H. rewrite firstn_length. lia. Qed.

Lemma tie_ByteArray_read bs0 sp0 s : all_bytes s ->
  fmapr inj_slice (run_flat (packet_ByteArray_ReadFrom_io varint_rd (map Z.of_N bs0) (map Z.of_N sp0)) s)
  = run_flat (r_bytearray (VBytes bs0 sp0)) s.
Proof.
  intros Hs. unfold packet_ByteArray_ReadFrom_io, r_bytearray. cbv zeta.
  rewrite run_flat_bind by apply robust_varint_rd. rewrite run_flat_bind by apply read32_robust.
  rewrite run_varint_rd. destruct (run_flat read32 s) as [[l n] rest| | |] eqn:E; try reflexivity.
  destruct (read32_facts s l n rest Hs E) as (Rl & Rn & Hr).
  cbv beta iota. cbn [bytes_of fst snd]. change (2 ^ 31) with 2147483648 in Rl.
  destruct (Z.ltb_spec l 0) as [Neg|Pos]; [reflexivity|].
  rewrite !zlen_map. rewrite (wrap_s_id 64 l) by (change (2 ^ (64 - 1)) with 9223372036854775808; lia).
  rewrite <- N2Z.inj_add.
  assert (Fin : forall (d : list N) (sp : list Z),
    fmapr inj_slice (FOk (map byte_in (takeN (Z.to_N l) rest), sp, wrap_s 64 (Z.of_N n + wrap_s 64 l)) d)
    = FOk (VBytes (takeN (Z.to_N l) rest) [], (n + Z.to_N l)%N) d).
  { intros d sp. cbn [fmapr]. unfold inj_slice. cbn [fst snd].
    rewrite map_byte_in by (apply all_bytes_takeN, Hr). rewrite map_to_N_of_N.
    rewrite (wrap_s_id 64 l) by (change (2 ^ (64 - 1)) with 9223372036854775808; lia).
    rewrite wrap_s_id by (change (2 ^ (64 - 1)) with 9223372036854775808; lia).
    do 2 f_equal. lia. }
  destruct (Z.ltb_spec (Z.of_N (lenN bs0 + lenN sp0)) l) as [Small|Big].
  - destruct (Z.ltb_spec l 0) as [?|_]; [lia|]. cbn [run_flat].
    destruct (N.leb_spec (Z.to_N l) (lenN rest)) as [L|L]; [|reflexivity].
    unfold io_ret. cbn [N.eqb run_flat].
    assert (Zl : zlen (map byte_in (takeN (Z.to_N l) rest)) = l).
    { rewrite zlen_map, lenN_takeN by exact L. lia. }
    rewrite Zl. apply Fin.
  - rewrite zlen_app, !zlen_map.
    destruct (Z.ltb_spec l 0) as [?|_]; [lia|]. destruct (Z.ltb_spec (Z.of_N (lenN bs0) + Z.of_N (lenN sp0)) l) as [?|_]; [lia|].
    cbn [orb]. rewrite zlen_ztake by (rewrite zlen_app, !zlen_map; lia). cbn [run_flat].
    destruct (N.leb_spec (Z.to_N l) (lenN rest)) as [L|L]; [|reflexivity].
    unfold io_ret. cbn [N.eqb run_flat]. apply Fin.
Qed.

(* ---- BitSet.ReadFrom: length, `Len < 0` check, make-or-reslice on `int(Len) > cap`, then Len times
   Long.ReadFrom into element i *)
From GoMC Require Import Proofs.C06_read.
Local Open Scope Z_scope.
Definition inj_bitset (p : (list Z * list Z) * Z) : fval * N := (VList (map VZ (fst (fst p))) [], Z.to_N (snd p)).

Lemma upd_nth_length l : forall i v, length (upd_nth l i v) = length l.
Proof. induction l as [|h t IH]; intros [|i] v; cbn; auto. Qed.
Lemma upd_nth_firstn l : forall i v, firstn i (upd_nth l i v) = firstn i l.
Proof. induction l as [|h t IH]; intros [|i] v; cbn; auto. rewrite IH. reflexivity. Qed.
Lemma upd_nth_nth l : forall i v, (i < length l)%nat -> nth i (upd_nth l i v) 0 = v.
Proof. induction l as [|h t IH]; intros [|i] v H; cbn in *; try lia; auto. apply IH. lia. Qed.
Lemma firstn_S_nth (l : list Z) : forall i, (i < length l)%nat -> firstn (S i) l = firstn i l ++ [nth i l 0].
Proof. induction l as [|h t IH]; intros [|i] H; cbn in *; try lia; auto. rewrite <- IH by lia. reflexivity. Qed.
Lemma skipn_nth_cons' (b : list Z) i : (i < length b)%nat -> skipn i b = nth i b 0 :: skipn (S i) b.
Proof.
  revert i. induction b as [|x b IH]; intros i H; [cbn in H; lia|].
  destruct i as [|i]; [reflexivity|]. cbn [skipn nth]. apply IH. cbn in H. lia.
Qed.

Lemma run_bind_r_long {B} (f : fval * N -> dec B) s :
  run_flat (bind r_long f) s
  = if (8 <=? lenN s)%N then run_flat (f (VZ (sx64 (unbe (takeN 8 s))), 8%N)) (dropN 8 s) else FErr eEOF.
Proof. unfold r_long, r_fixed. cbn [bind run_flat]. reflexivity. Qed.

Section BitLoop.
(* the loop of BitSet.ReadFrom as generated (two copies, one per allocation branch), through its unfolding
   equations: at index i, `if i == len(b) { grow by more = min(Len-i, i) zero words }`, then read word i *)
Variable Len : Z.
Variable L : nat -> Z -> list Z -> list Z -> Z -> dec (list Z * list Z * Z).
Hypothesis L0 : forall i b sp n, L 0 i b sp n = Ret (b, sp, n).
Hypothesis LS : forall k i b sp n, L (S k) i b sp n =
  if (i =? zlen b)
  then (let more := Z.min (wrap_s 64 (wrap_s 64 Len - i)) i in
        if (more <? 0) then Crash crash_make else
        bind packet_Long_ReadFrom_io (fun p => let '(v, n2) := p in
          L k (wrap_s 64 (i + 1)) (zupd (b ++ zrepeat more) i v) (zdrop more sp) (wrap_s 64 (n + n2))))
  else bind packet_Long_ReadFrom_io (fun p => let '(v, n2) := p in
          L k (wrap_s 64 (i + 1)) (zupd b i v) sp (wrap_s 64 (n + n2))).

Definition bit_rel (i : nat) (b : list Z) (n : Z) (r1 : fres (list Z * list Z * Z)) (r2 : fres (list fval * N)) (total : nat) : Prop :=
  match r1, r2 with
  | FOk (b', _, n') q1, FOk (vs, m) q2 =>
      q1 = q2 /\ length b' = total /\ firstn i b' = firstn i b /\ map VZ (skipn i b') = vs /\ n' = n + Z.of_N m
  | FErr e1, FErr e2 => e1 = e2
  | _, _ => False
  end.

Lemma zlen_nat {A} (l : list A) : zlen l = Z.of_nat (length l).
Proof. unfold zlen, lenN. lia. Qed.

Lemma bitloop_tie olds : forall k i b sp n s fuel, all_bytes s -> Z.of_nat (i + k) = Len ->
  (i <= length b <= i + k)%nat -> (length b = i -> k = 0%nat \/ (0 < i)%nat) -> (k <= fuel)%nat ->
  0 <= n -> n + 8 * Z.of_nat k < 2 ^ 62 -> Len < 2 ^ 62 ->
  bit_rel i b n (run_flat (L k (Z.of_nat i) b sp n) s)
          (run_flat (r_elems fuel (fun _ => r_long) olds (N.of_nat i) (N.of_nat (i + k))) s) (i + k).
Proof.
  induction k as [|k IH]; intros i b sp n s fuel Hs HL Hb Hz Hf Hn Hn2 Hi;
    change (2 ^ 62) with 4611686018427387904 in *.
  - rewrite L0. rewrite Nat.add_0_r in *. destruct fuel; cbn [r_elems]; rewrite N.leb_refl; cbn [run_flat bit_rel].
    all: repeat split; auto; try lia; rewrite skipn_all2 by lia; reflexivity.
  - destruct fuel as [|fuel]; [lia|].
    (* the common part: word i is read into a slice b2 that has a slot i *)
    assert (Step : forall b2 sp2, (i < length b2 <= i + S k)%nat ->
      bit_rel i b2 n
        (run_flat (bind packet_Long_ReadFrom_io (fun p => let '(v, n2) := p in
           L k (wrap_s 64 (Z.of_nat i + 1)) (zupd b2 (Z.of_nat i) v) sp2 (wrap_s 64 (n + n2)))) s)
        (run_flat (r_elems (S fuel) (fun _ => r_long) olds (N.of_nat i) (N.of_nat (i + S k))) s) (i + S k)).
    { intros b2 sp2 Hb2. rewrite run_flat_bind by apply robust_Long_io.
      rewrite run_Long_io by exact Hs. cbn [r_elems].
      destruct (N.leb_spec (N.of_nat (i + S k)) (N.of_nat i)) as [?|_]; [lia|].
      rewrite run_bind_r_long.
      destruct (N.leb_spec 8 (lenN s)) as [L8|L8]; [|exact eq_refl].
      pose proof (unbe_take_lt 8 s Hs L8) as B. rewrite wrap_s_sx64 by exact B.
      set (v := sx64 (unbe (takeN 8 s))).
      rewrite run_flat_bind by (apply r_elems_robust; intros; apply r_fixed_robust).
      rewrite (wrap_s_id 64 (Z.of_nat i + 1)) by (change (2 ^ (64 - 1)) with 9223372036854775808; lia).
      rewrite (wrap_s_id 64 (n + 8)) by (change (2 ^ (64 - 1)) with 9223372036854775808; lia).
      replace (Z.of_nat i + 1) with (Z.of_nat (S i)) by lia.
      replace (N.of_nat i + 1)%N with (N.of_nat (S i)) by lia.
      replace (i + S k)%nat with (S i + k)%nat by lia.
      specialize (IH (S i) (zupd b2 (Z.of_nat i) v) sp2 (n + 8) (dropN 8 s) fuel (all_bytes_dropN 8 s Hs)).
      unfold zupd in IH. rewrite Nat2Z.id in IH. rewrite upd_nth_length in IH.
      specialize (IH ltac:(lia) ltac:(lia) ltac:(lia) ltac:(lia) ltac:(lia) ltac:(lia) ltac:(lia)).
      unfold zupd. rewrite Nat2Z.id. unfold bit_rel in *.
      destruct (run_flat (L k (Z.of_nat (S i)) (upd_nth b2 i v) sp2 (n + 8)) (dropN 8 s)) as [[[b' sp'] n'] r1| | |];
      destruct (run_flat (r_elems fuel (fun _ => r_long) olds (N.of_nat (S i)) (N.of_nat (S i + k))) (dropN 8 s)) as [[vs m] r2| | |];
        try contradiction; try exact IH.
      destruct IH as (-> & Hlen & Hfirst & Hvs & ->). cbn [run_flat].
      assert (Hi' : (i < length b2)%nat) by lia.
      rewrite (firstn_S_nth b' i) in Hfirst by lia.
      rewrite (firstn_S_nth (upd_nth b2 i v) i) in Hfirst by (rewrite upd_nth_length; lia).
      apply app_inj_tail in Hfirst. destruct Hfirst as [E1 E2]. rewrite upd_nth_nth in E2 by exact Hi'.
      rewrite upd_nth_firstn in E1.
      repeat split; auto.
      - rewrite (skipn_nth_cons' b' i) by lia. cbn [map]. rewrite E2, Hvs. reflexivity.
      - lia. }
    rewrite LS. rewrite zlen_nat. destruct (Z.eqb_spec (Z.of_nat i) (Z.of_nat (length b))) as [Eq|Ne].
    + (* every allocated word has been read: grow *)
      assert (Eb : length b = i) by lia. destruct (Hz Eb) as [?|Ipos]; [lia|].
      cbv zeta.
      rewrite (wrap_s_id 64 Len) by (change (2 ^ (64 - 1)) with 9223372036854775808; lia).
      rewrite (wrap_s_id 64 (Len - Z.of_nat i)) by (change (2 ^ (64 - 1)) with 9223372036854775808; lia).
      set (more := Z.min (Len - Z.of_nat i) (Z.of_nat i)).
      assert (Hm : 1 <= more <= Z.of_nat (S k)) by (unfold more; lia).
      destruct (Z.ltb_spec more 0) as [?|_]; [lia|].
      assert (Lb2 : length (b ++ zrepeat more) = (i + Z.to_nat more)%nat).
      { rewrite app_length. unfold zrepeat. rewrite repeat_length. lia. }
      pose proof (Step (b ++ zrepeat more) (zdrop more sp) ltac:(lia)) as R.
      unfold bit_rel in *.
      destruct (run_flat (bind packet_Long_ReadFrom_io _) s) as [[[b' sp'] n'] r1| | |];
      destruct (run_flat (r_elems (S fuel) _ olds _ _) s) as [[vs m] r2| | |]; try contradiction; try exact R.
      destruct R as (R1 & R2 & R3 & R4 & R5). repeat split; auto.
      rewrite R3. rewrite firstn_app. rewrite Eb, Nat.sub_diag. cbn [firstn]. rewrite app_nil_r. reflexivity.
    + apply (Step b sp). lia.
Qed.
End BitLoop.

Lemma ztake_length n (l : list Z) : 0 <= n <= zlen l -> length (ztake n l) = Z.to_nat n.
Proof. unfold ztake, zlen, lenN. intros H. rewrite firstn_length. lia. Qed.
Lemma zrepeat_length n : length (zrepeat n) = Z.to_nat n.
Proof. unfold zrepeat. apply repeat_length. Qed.

(* the loop result injected, against the model's continuation *)
Lemma bitset_finish (L : nat -> Z -> list Z -> list Z -> Z -> dec (list Z * list Z * Z)) l
  (L0 : forall i b sp n, L 0%nat i b sp n = Ret (b, sp, n))
  (LS : forall k i b sp n, L (S k) i b sp n =
    if (i =? zlen b)
    then (let more := Z.min (wrap_s 64 (wrap_s 64 l - i)) i in
          if (more <? 0) then Crash crash_make else
          bind packet_Long_ReadFrom_io (fun p => let '(v, n2) := p in
            L k (wrap_s 64 (i + 1)) (zupd (b ++ zrepeat more) i v) (zdrop more sp) (wrap_s 64 (n + n2))))
    else bind packet_Long_ReadFrom_io (fun p => let '(v, n2) := p in
            L k (wrap_s 64 (i + 1)) (zupd b i v) sp (wrap_s 64 (n + n2))))
  fuel n (b0 sp : list Z) rest : all_bytes rest -> 0 <= l < 2 ^ 31 -> (n <= 5)%N -> (Z.to_nat l <= fuel)%nat ->
  (length b0 <= Z.to_nat l)%nat -> (length b0 = 0%nat -> l = 0) ->
  fmapr inj_bitset (run_flat (bind (L (Z.to_nat l) 0 b0 sp (Z.of_N n)) (fun p => let '(b', sp', n') := p in io_ret 0%N ((b', sp'), n'))) rest)
  = run_flat (bind (r_elems fuel (fun _ => r_long) (fun _ => VUnit) 0 (Z.to_N l))
                   (fun x => let '(vs, n2) := x in Ret (VList vs [], (n + n2)%N))) rest.
Proof.
  intros Hr Hl Hn Hf Hb Hb0. change (2 ^ 31) with 2147483648 in Hl.
  assert (RL : forall k i b sp' m, robust (L k i b sp' m)).
  { induction k as [|k IH]; intros i b sp' m; [rewrite L0; constructor|]. rewrite LS.
    destruct (i =? zlen b).
    - cbv zeta. destruct (_ <? 0); [constructor|]. apply robust_bind; [apply robust_Long_io|]. intros [v n2]. apply IH.
    - apply robust_bind; [apply robust_Long_io|]. intros [v n2]. apply IH. }
  rewrite run_flat_bind by apply RL.
  rewrite run_flat_bind by (apply r_elems_robust; intros; apply r_fixed_robust).
  pose proof (bitloop_tie l L L0 LS (fun _ => VUnit) (Z.to_nat l) 0 b0 sp (Z.of_N n) rest fuel Hr) as T.
  cbn [Nat.add] in T. change (Z.of_nat 0) with 0 in T. change (N.of_nat 0) with 0%N in T.
  replace (N.of_nat (Z.to_nat l)) with (Z.to_N l) in T by lia.
  specialize (T ltac:(lia) ltac:(lia) ltac:(intros E0; left; specialize (Hb0 E0); lia) Hf ltac:(lia)
                ltac:(change (2 ^ 62) with 4611686018427387904; lia) ltac:(change (2 ^ 62) with 4611686018427387904; lia)).
  unfold bit_rel in T.
  destruct (run_flat (L (Z.to_nat l) 0 b0 sp (Z.of_N n)) rest) as [[[b' sp'] n'] r1| | |];
  destruct (run_flat (r_elems fuel (fun _ => r_long) (fun _ => VUnit) 0 (Z.to_N l)) rest) as [[vs m] r2| | |];
    try contradiction; [|cbn [fmapr]; congruence].
  destruct T as (-> & _ & _ & Hvs & ->). unfold io_ret. cbn [N.eqb run_flat fmapr]. unfold inj_bitset. cbn [fst snd skipn] in *.
  rewrite Hvs. do 2 f_equal. lia.
Qed.

Lemma tie_BitSet_read fuel old (b sp : list Z) s : all_bytes s ->
  (forall l n rest, run_flat read32 s = FOk (l, n) rest -> (Z.to_nat l <= fuel)%nat) ->
  fmapr inj_bitset (run_flat (packet_BitSet_ReadFrom_io varint_rd b sp) s) = run_flat (r_bitset fuel old) s.
Proof.
  intros Hs Hfuel. unfold packet_BitSet_ReadFrom_io, r_bitset. cbv zeta.
  rewrite run_flat_bind by apply robust_varint_rd. rewrite run_flat_bind by apply read32_robust.
  rewrite run_varint_rd. destruct (run_flat read32 s) as [[l n] rest| | |] eqn:E; try reflexivity.
  destruct (read32_facts s l n rest Hs E) as (Rl & Rn & Hr). specialize (Hfuel l n rest eq_refl).
  cbv beta iota. change (2 ^ 31) with 2147483648 in Rl.
  destruct (Z.ltb_spec l 0) as [Neg|Pos]; [reflexivity|].
  rewrite (wrap_s_id 64 l) by (change (2 ^ (64 - 1)) with 9223372036854775808; lia).
  rewrite Z.sub_0_r.
  destruct (Z.ltb_spec (zlen b + zlen sp) l) as [Small|Big].
  - destruct (Z.ltb_spec (Z.min l 8192) 0) as [?|_]; [lia|].
    apply (bitset_finish (packet_BitSet_ReadFrom_io_loop1 l) l (fun _ _ _ _ => eq_refl) (fun _ _ _ _ _ => eq_refl) fuel n (zrepeat (Z.min l 8192)) []);
      auto; [change (2 ^ 31) with 2147483648; lia|rewrite zrepeat_length; lia|rewrite zrepeat_length; lia].
  - rewrite zlen_app. destruct (Z.ltb_spec l 0) as [?|_]; [lia|]. destruct (Z.ltb_spec (zlen b + zlen sp) l) as [?|_]; [lia|].
    cbn [orb].
    apply (bitset_finish (packet_BitSet_ReadFrom_io_loop2 l) l (fun _ _ _ _ => eq_refl) (fun _ _ _ _ _ => eq_refl) fuel n);
      auto; [change (2 ^ 31) with 2147483648; lia|rewrite ztake_length by (rewrite zlen_app; lia); lia|rewrite ztake_length by (rewrite zlen_app; lia); lia].
Qed.
