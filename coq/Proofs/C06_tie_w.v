(* Tie lemmas (C06), writers: the WriteTo methods of net/packet/types.go as tools/gotrans/c06.go TRANSLATES
   them on every run (coq/Gen/C06gen.v: (n, err, bytes handed to w.Write) under a writer that accepts
   everything) equal the hand-written model's writer image and count (Model/C06.v, wr and the w_ functions), for ALL
   values.  A source edit of one of these methods changes Gen/C06gen.v; these lemmas are then re-checked. *)
From Coq Require Import List Arith NArith ZArith Lia Bool ZifyN ZifyNat ZifyBool.
From GoMC Require Import Base.Bytes Base.Bits Base.Dec Base.GoInt Gen.Consts Gen.Funcs Gen.C06gen
  Model.C05 Model.C06 Model.C06_syntax Proofs.C05_tie.
Import ListNotations.
Ltac Zify.zify_post_hook ::= Z.div_mod_to_equations.
Local Open Scope Z_scope.

(* what a model writer result looks like on the translated side *)
Definition wimg (r : wres) : Z * N * list Z := (Z.of_N (snd r), 0%N, map Z.of_N (fst r)).

(* ---- byte extraction: wrap_u 8 (put >> 8k) on the image of an N *)
Lemma wbyte u k : wrap_u 8 (Z.shiftr (Z.of_N u) (Z.of_N (8 * k))) = Z.of_N ((u / 256 ^ k) mod 256).
Proof.
  rewrite zn_shiftr. change 8 with (Z.of_N 8). rewrite zn_wrap_u.
  rewrite N.shiftr_div_pow2, N.pow_mul_r. reflexivity.
Qed.
Lemma wbyte0 u : wrap_u 8 (Z.shiftr (Z.of_N u) 0) = Z.of_N (u mod 256).
Proof. pose proof (wbyte u 0) as H. change (Z.of_N (8 * 0)) with 0 in H. rewrite H. change (256 ^ 0)%N with 1%N. rewrite N.div_1_r. reflexivity. Qed.

Lemma be8_eq v : be 8 v =
  [ (v / 256 ^ 7) mod 256; (v / 256 ^ 6) mod 256; (v / 256 ^ 5) mod 256; (v / 256 ^ 4) mod 256;
    (v / 256 ^ 3) mod 256; (v / 256 ^ 2) mod 256; (v / 256 ^ 1) mod 256; v mod 256 ]%N.
Proof.
  unfold be. cbn [le rev app]. rewrite !N.div_div by lia. reflexivity.
Qed.
Lemma be4_eq' v : be 4 v = [ (v / 256 ^ 3) mod 256; (v / 256 ^ 2) mod 256; (v / 256 ^ 1) mod 256; v mod 256 ]%N.
Proof. unfold be. cbn [le rev app]. rewrite !N.div_div by lia. reflexivity. Qed.
Lemma be2_eq' v : be 2 v = [ (v / 256 ^ 1) mod 256; v mod 256 ]%N.
Proof. reflexivity. Qed.

Lemma wrap_u_N w z : wrap_u (Z.of_N w) z = Z.of_N (wrapu w z).
Proof. unfold wrapu. apply wrap_u_as_N. lia. Qed.

Ltac shifts := change 8 with (Z.of_N (8 * 1)) at 1; idtac.

(* ---- Boolean *)
Lemma tie_Boolean_write b : packet_Boolean_WriteTo_io b = wimg (w_bool b).
Proof. destruct b; reflexivity. Qed.

(* ---- Byte / UnsignedByte / Angle *)
Lemma tie_Byte_write z : packet_Byte_WriteTo_io z = wimg (w_byte z).
Proof.
  unfold packet_Byte_WriteTo_io, wimg, w_byte, wbytes. cbv zeta. cbn [fst snd map app].
  change 8 with (Z.of_N 8). rewrite wrap_u_N. reflexivity.
Qed.
Lemma tie_UnsignedByte_write z : packet_UnsignedByte_WriteTo_io z = wimg (w_byte z).
Proof.
  unfold packet_UnsignedByte_WriteTo_io, wimg, w_byte, wbytes. cbv zeta. cbn [fst snd map app].
  change 8 with (Z.of_N 8). rewrite wrap_u_N. reflexivity.
Qed.
Lemma u8_wrap_s z : u8 (wrap_s 8 z) = u8 z.
Proof. unfold u8, wrapu. f_equal. apply (wrap_s_mod 8). lia. Qed.
Lemma tie_Angle_write z : packet_Angle_WriteTo_io z = wimg (w_byte z).
Proof.
  unfold packet_Angle_WriteTo_io. cbv zeta. rewrite tie_Byte_write.
  unfold wimg, w_byte, wbytes. cbn [fst snd map app]. rewrite u8_wrap_s. reflexivity.
Qed.

(* ---- Short / UnsignedShort / Int / Long: PutUintNN into a local array, then w.Write(buf[:]) *)
Lemma tie_Short_write z : packet_Short_WriteTo_io z = wimg (w_short z).
Proof.
  unfold packet_Short_WriteTo_io, wimg, w_short, wbytes. cbv zeta.
  change 16 with (Z.of_N 16). rewrite wrap_u_N. fold u16. set (u := u16 z). clearbody u.
  rewrite be2_eq'. change (Z.shiftr (Z.of_N u) 8) with (Z.shiftr (Z.of_N u) (Z.of_N (8 * 1))).
  rewrite wbyte, wbyte0. reflexivity.
Qed.
Lemma tie_UnsignedShort_write z : packet_UnsignedShort_WriteTo_io z = wimg (w_short z).
Proof. exact (tie_Short_write z). Qed.

Lemma tie_Int_write z : packet_Int_WriteTo_io z = wimg (w_int z).
Proof.
  unfold packet_Int_WriteTo_io, wimg, w_int, wbytes. cbv zeta.
  change 32 with (Z.of_N 32). rewrite wrap_u_N. fold u32. set (u := u32 z). clearbody u.
  rewrite be4_eq'.
  change 24 with (Z.of_N (8 * 3)). change 16 with (Z.of_N (8 * 2)). change (Z.shiftr (Z.of_N u) 8) with (Z.shiftr (Z.of_N u) (Z.of_N (8 * 1))).
  rewrite !wbyte, wbyte0. reflexivity.
Qed.

Lemma tie_Long_write z : packet_Long_WriteTo_io z = wimg (w_long z).
Proof.
  unfold packet_Long_WriteTo_io, wimg, w_long, wbytes. cbv zeta.
  change 64 with (Z.of_N 64). rewrite wrap_u_N. fold u64. set (u := u64 z). clearbody u.
  rewrite be8_eq.
  change 56 with (Z.of_N (8 * 7)). change 48 with (Z.of_N (8 * 6)). change 40 with (Z.of_N (8 * 5)).
  change 32 with (Z.of_N (8 * 4)). change 24 with (Z.of_N (8 * 3)). change 16 with (Z.of_N (8 * 2)).
  change (Z.shiftr (Z.of_N u) 8) with (Z.shiftr (Z.of_N u) (Z.of_N (8 * 1))).
  rewrite !wbyte, wbyte0. reflexivity.
Qed.

(* ---- Float / Double: Int(math.Float32bits(f)).WriteTo, Long(math.Float64bits(d)).WriteTo *)
Lemma u32_wrap_s z : u32 (wrap_s 32 z) = u32 z.
Proof. unfold u32, wrapu. f_equal. apply (wrap_s_mod 32). lia. Qed.
Lemma u64_wrap_s z : u64 (wrap_s 64 z) = u64 z.
Proof. unfold u64, wrapu. f_equal. apply (wrap_s_mod 64). lia. Qed.
Lemma u32_wrap_u z : u32 (wrap_u 32 z) = u32 z.
Proof. unfold u32, wrapu, wrap_u. f_equal. change (Z.of_N 32) with 32. apply Z.mod_mod. lia. Qed.
Lemma u64_wrap_u z : u64 (wrap_u 64 z) = u64 z.
Proof. unfold u64, wrapu, wrap_u. f_equal. change (Z.of_N 64) with 64. apply Z.mod_mod. lia. Qed.

Lemma tie_Float_write bits : packet_Float_WriteTo_io bits = wimg (w_float bits).
Proof.
  unfold packet_Float_WriteTo_io. cbv zeta. rewrite tie_Int_write.
  unfold wimg, w_float, w_int, wbytes. cbn [fst snd app].
  rewrite u32_wrap_s, u32_wrap_u. unfold sx32, u32. rewrite (wrapu_sx 32 (wrapu 32 bits)) by (try apply wrapu_lt; lia). reflexivity.
Qed.
Lemma tie_Double_write bits : packet_Double_WriteTo_io bits = wimg (w_double bits).
Proof.
  unfold packet_Double_WriteTo_io. cbv zeta. rewrite tie_Long_write.
  unfold wimg, w_double, w_long, wbytes. cbn [fst snd app].
  rewrite u64_wrap_s, u64_wrap_u. unfold sx64, u64. rewrite (wrapu_sx 64 (wrapu 64 bits)) by (try apply wrapu_lt; lia). reflexivity.
Qed.

(* ---- UUID / PluginMessageData / FixedBitSet: one w.Write of the bytes themselves.  A Go slice has fewer
   than 2^63 elements *)
Lemma zlen_map {A B} (f : A -> B) l : zlen (map f l) = Z.of_N (lenN l).
Proof. unfold zlen, lenN. rewrite map_length. reflexivity. Qed.
Lemma wrap_s64_len (n : N) : (n < 2 ^ 63)%N -> wrap_s 64 (Z.of_N n) = Z.of_N n.
Proof. intros H. apply wrap_s_id; [lia|]. change (2 ^ (64 - 1)) with (2 ^ 63). change (2 ^ 63)%N with 9223372036854775808%N in H. lia. Qed.

Lemma tie_UUID_write bs : (lenN bs < 2 ^ 63)%N -> packet_UUID_WriteTo_io (map Z.of_N bs) = wimg (wbytes bs).
Proof.
  intros H. unfold packet_UUID_WriteTo_io, wimg, wbytes. cbv zeta. cbn [fst snd app].
  rewrite zlen_map, wrap_s64_len by exact H. reflexivity.
Qed.
Lemma tie_PluginMessageData_write bs : (lenN bs < 2 ^ 63)%N ->
  packet_PluginMessageData_WriteTo_io (map Z.of_N bs) = wimg (w_raw bs).
Proof. exact (tie_UUID_write bs). Qed.
Lemma tie_FixedBitSet_write bs : (lenN bs < 2 ^ 63)%N ->
  packet_FixedBitSet_WriteTo_io (map Z.of_N bs) = wimg (w_raw bs).
Proof. exact (tie_UUID_write bs). Qed.

(* ---- VarInt / VarLong: v.WriteToBytes(vi[:]) (Gen/Funcs.v, tied in C05_tie) then w.Write(vi[:nn]) *)
Lemma set_nth_length l i v : length (set_nth l i v) = length l.
Proof. revert i; induction l as [|h t IH]; intros [|i]; cbn; auto. Qed.
Lemma apply_writes_length ws : forall buf, length (apply_writes ws buf) = length buf.
Proof.
  unfold apply_writes. induction ws as [|w ws IH]; intros buf; [reflexivity|].
  cbn [fold_left]. rewrite IH. apply set_nth_length.
Qed.

Lemma write32_len5 v : (lenN (write32 v) <= 5)%N.
Proof.
  pose proof (tie_VarInt_WriteToBytes v) as T. destruct (packet_VarInt_WriteToBytes v) as [nn lg]. destruct T as [_ Tb].
  assert (L : (length (map Z.of_N (write32 v)) <= 5)%nat).
  { rewrite <- Tb. rewrite firstn_length, apply_writes_length. cbn. lia. }
  rewrite map_length in L. unfold lenN. lia.
Qed.
Lemma write64_len10 v : (lenN (write64 v) <= 10)%N.
Proof.
  pose proof (tie_VarLong_WriteToBytes v) as T. destruct (packet_VarLong_WriteToBytes v) as [nn lg]. destruct T as [_ Tb].
  assert (L : (length (map Z.of_N (write64 v)) <= 10)%nat).
  { rewrite <- Tb. rewrite firstn_length, apply_writes_length. cbn. lia. }
  rewrite map_length in L. unfold lenN. lia.
Qed.

Lemma tie_VarInt_write v : packet_VarInt_WriteTo_io v = wimg (w_varint v).
Proof.
  unfold packet_VarInt_WriteTo_io. pose proof (tie_VarInt_WriteToBytes v) as T.
  destruct (packet_VarInt_WriteToBytes v) as [nn lg]. destruct T as [Tn Tb].
  cbv zeta. cbn [app]. unfold ztake. rewrite Tb. unfold wimg, w_varint, wbytes. cbn [fst snd].
  rewrite zlen_map. rewrite wrap_s64_len; [reflexivity|].
  pose proof (write32_len5 v). change (2 ^ 63)%N with 9223372036854775808%N. lia.
Qed.

Lemma tie_VarLong_write v : packet_VarLong_WriteTo_io v = wimg (w_varlong v).
Proof.
  unfold packet_VarLong_WriteTo_io. pose proof (tie_VarLong_WriteToBytes v) as T.
  destruct (packet_VarLong_WriteToBytes v) as [nn lg]. destruct T as [Tn Tb].
  cbv zeta. cbn [app]. unfold ztake. rewrite Tb. unfold wimg, w_varlong, wbytes. cbn [fst snd].
  rewrite zlen_map. rewrite wrap_s64_len; [reflexivity|].
  pose proof (write64_len10 v). change (2 ^ 63)%N with 9223372036854775808%N. lia.
Qed.

(* ---- String / ByteArray: VarInt(len(b)).WriteTo(w), then w.Write(b); the hypothesis keeps n1 + n2 inside
   int64 (a Go slice has fewer than 2^63 elements), and VarInt(len b) truncates the length to 32 bits exactly as the model's write32 does *)
Lemma write32_wrap_s z : write32 (wrap_s 32 z) = write32 z.
Proof. unfold write32. rewrite u32_wrap_s. reflexivity. Qed.

Lemma tie_lenbytes_write bs : (lenN bs < 2 ^ 62)%N ->
  packet_ByteArray_WriteTo_io (map Z.of_N bs) = wimg (w_lenbytes bs).
Proof.
  intros H. unfold packet_ByteArray_WriteTo_io. cbv zeta. rewrite tie_VarInt_write.
  unfold wimg, w_lenbytes, wcat, w_varint, wbytes. cbn [fst snd app].
  rewrite !zlen_map, write32_wrap_s.
  pose proof (write32_len5 (Z.of_N (lenN bs))) as L5.
  change (2 ^ 62)%N with 4611686018427387904%N in H.
  rewrite (wrap_s64_len (lenN bs)) by (change (2 ^ 63)%N with 9223372036854775808%N; lia).
  rewrite <- N2Z.inj_add. rewrite wrap_s64_len by (change (2 ^ 63)%N with 9223372036854775808%N; lia).
  rewrite map_app. reflexivity.
Qed.
Lemma tie_String_write bs : (lenN bs < 2 ^ 62)%N ->
  packet_String_WriteTo_io (map Z.of_N bs) = wimg (w_lenbytes bs).
Proof. exact (tie_lenbytes_write bs). Qed.

(* ---- Position: the packing expression, the byte loop `for i := 7; i >= 0; i-- { b[i] = byte(position); position >>= 8 }`
   and w.Write(b[:]) *)
From GoMC Require Import Proofs.C06_tie.
Lemma shr_shr a j k : 0 <= j -> 0 <= k -> Z.shiftr (Z.shiftr a j) k = Z.shiftr a (j + k).
Proof. intros. apply Z.shiftr_shiftr. assumption. Qed.

Lemma tie_Position_write x y z : packet_Position_WriteTo_io x z y = wimg (w_pos x y z).
Proof.
  unfold packet_Position_WriteTo_io. cbv zeta.
  change (Z.lor (Z.lor (wrap_u 64 (Z.shiftl (wrap_u 64 (Z.land x 67108863)) 38))
                       (wrap_u 64 (wrap_s 64 (Z.shiftl (Z.land z 67108863) 12)))) (wrap_u 64 (Z.land y 4095)))
    with (packet_Position_WriteTo_position x z y).
  rewrite tie_pos_pack. set (u := pos_pack x y z).
  change (Z.to_nat (7 - 0 + 1)) with 8%nat. cbn [packet_Position_WriteTo_io_loop1].
  rewrite !shr_shr by lia. cbn [Z.add Pos.add Pos.succ].
  change (wrap_s 64 (7 - 1)) with 6.
  change (wrap_s 64 (6 - 1)) with 5. change (wrap_s 64 (5 - 1)) with 4. change (wrap_s 64 (4 - 1)) with 3.
  change (wrap_s 64 (3 - 1)) with 2. change (wrap_s 64 (2 - 1)) with 1. change (wrap_s 64 (1 - 1)) with 0.
  unfold apply_writes. cbn [app fold_left fst snd].
  change (Z.to_nat 7) with 7%nat. change (Z.to_nat 6) with 6%nat. change (Z.to_nat 5) with 5%nat.
  change (Z.to_nat 4) with 4%nat. change (Z.to_nat 3) with 3%nat. change (Z.to_nat 2) with 2%nat.
  change (Z.to_nat 1) with 1%nat. change (Z.to_nat 0) with 0%nat.
  cbn [repeat set_nth].
  unfold wimg, w_pos, wbytes. cbn [fst snd]. rewrite be8_eq.
  change 56 with (Z.of_N (8 * 7)). change 48 with (Z.of_N (8 * 6)). change 40 with (Z.of_N (8 * 5)).
  change 32 with (Z.of_N (8 * 4)). change 24 with (Z.of_N (8 * 3)). change 16 with (Z.of_N (8 * 2)).
  change (Z.shiftr (Z.of_N u) 8) with (Z.shiftr (Z.of_N u) (Z.of_N (8 * 1))).
  rewrite !wbyte.
  change 8 with (Z.of_N 8). rewrite zn_wrap_u. subst u. reflexivity.
Qed.

(* ---- BitSet: VarInt(len(b)).WriteTo(w), then `for i := range b { Long(b[i]).WriteTo(w) }` *)
Definition longimg (z : Z) : list Z := map Z.of_N (be 8 (u64 z)).

Lemma skipn_nth_cons (b : list Z) i : (i < length b)%nat -> skipn i b = nth i b 0 :: skipn (S i) b.
Proof.
  revert i. induction b as [|x b IH]; intros i H; [cbn in H; lia|].
  destruct i as [|i]; [reflexivity|]. cbn [skipn nth]. apply IH. cbn in H. lia.
Qed.

Lemma bitset_wloop (b : list Z) : Z.of_nat (length b) < 2 ^ 59 -> forall k i out n,
  (i + k = length b)%nat -> 0 <= n -> n + 8 * Z.of_nat k < 2 ^ 63 ->
  packet_BitSet_WriteTo_io_loop1 b k (Z.of_nat i) out n
  = ((out ++ concat (map longimg (skipn i b)))%list, n + 8 * Z.of_nat k).
Proof.
  intros Hb. change (2 ^ 59) with 576460752303423488 in Hb.
  induction k as [|k IH]; intros i out n Hik Hn Hs; change (2 ^ 63) with 9223372036854775808 in Hs.
  - cbn [packet_BitSet_WriteTo_io_loop1]. replace i with (length b) by lia. rewrite skipn_all. cbn [map concat].
    rewrite app_nil_r. f_equal. lia.
  - cbn [packet_BitSet_WriteTo_io_loop1]. rewrite tie_Long_write. unfold wimg, w_long, wbytes. cbn [fst snd].
    rewrite u64_wrap_s. unfold znth. rewrite Nat2Z.id.
    change (Z.of_N (lenN (be 8 (u64 (nth i b 0))))) with 8.
    rewrite (wrap_s_id 64 (Z.of_nat i + 1)) by (change (2 ^ (64 - 1)) with 9223372036854775808; lia).
    rewrite (wrap_s_id 64 (n + 8)) by (change (2 ^ (64 - 1)) with 9223372036854775808; lia).
    replace (Z.of_nat i + 1) with (Z.of_nat (S i)) by lia.
    rewrite IH by (change (2 ^ 63) with 9223372036854775808; lia).
    rewrite (skipn_nth_cons b i) by lia. cbn [map concat]. rewrite <- app_assoc. f_equal. lia.
Qed.

Lemma w_seq_longs zs : w_seq (fun x => w_long (zof x)) (map VZ zs)
  = (concat (map (fun z => be 8 (u64 z)) zs), (8 * lenN zs)%N).
Proof.
  induction zs as [|z zs IH]; [reflexivity|].
  cbn [map w_seq fold_right concat]. fold (w_seq (fun x => w_long (zof x)) (map VZ zs)). rewrite IH.
  unfold wcat, w_long, wbytes. cbn [fst snd zof]. f_equal. rewrite lenN_cons.
  change (lenN (be 8 (u64 z))) with 8%N. lia.
Qed.

Lemma concat_map_map (zs : list Z) : concat (map longimg zs) = map Z.of_N (concat (map (fun z => be 8 (u64 z)) zs)).
Proof. induction zs as [|z zs IH]; [reflexivity|]. cbn [map concat]. rewrite map_app, IH. reflexivity. Qed.

Lemma tie_BitSet_write zs sp : (lenN zs < 2 ^ 59)%N ->
  packet_BitSet_WriteTo_io zs = wimg (wr TBitSet (VList (map VZ zs) sp)).
Proof.
  intros H. change (2 ^ 59)%N with 576460752303423488%N in H.
  assert (Hl : Z.of_nat (length zs) < 2 ^ 59) by (unfold lenN in H; change (2 ^ 59) with 576460752303423488; lia).
  unfold packet_BitSet_WriteTo_io. cbv zeta. rewrite tie_VarInt_write.
  unfold wimg at 1, w_varint, wbytes. cbn [fst snd app]. rewrite write32_wrap_s.
  pose proof (write32_len5 (zlen zs)) as L5.
  assert (Ez : zlen zs = Z.of_nat (length zs)) by (unfold zlen, lenN; lia).
  replace (Z.to_nat (zlen zs - 0)) with (length zs) by lia.
  change 0 with (Z.of_nat 0) at 1.
  rewrite (bitset_wloop zs Hl (length zs) 0) by (change (2 ^ 63) with 9223372036854775808; lia).
  cbn [skipn]. cbn [wr list_of fst]. unfold wimg, wcat. rewrite w_seq_longs. cbn [fst snd].
  assert (Em : lenN (map VZ zs) = lenN zs) by (unfold lenN; rewrite map_length; reflexivity). rewrite Em.
  unfold w_varint, wbytes. cbn [fst snd]. fold (zlen zs).
  rewrite map_app, concat_map_map. f_equal. f_equal. unfold lenN in *. lia.
Qed.
