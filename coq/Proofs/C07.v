(* C07 proofs: packet framing *)
From Coq Require Import List Arith NArith ZArith Lia Bool ZifyN ZifyNat ZifyBool.
From GoMC Require Import Base.Bytes Base.Bits Base.Dec Gen.Consts Model.C05 Proofs.C05 Model.C07.
Import ListNotations.
Open Scope N_scope.
Ltac Zify.zify_post_hook ::= Z.div_mod_to_equations.

(* ---------- constants translated from the source ---------- *)
Lemma max_data_length : packet_MaxDataLength = 2097152%Z. Proof. reflexivity. Qed.
Lemma max_varint_len' : packet_MaxVarIntLen = 5%Z. Proof. reflexivity. Qed.

(* ---------- int32 conversions ---------- *)
Lemma in_sw32_iff z : in_sw 32 z <-> (-2147483648 <= z < 2147483648)%Z.
Proof. unfold in_sw. change (2 ^ (Z.of_N 32 - 1))%Z with 2147483648%Z. lia. Qed.

Lemma vi_id z : (-2147483648 <= z < 2147483648)%Z -> vi z = z.
Proof.
  intros H. unfold vi, sx32, u32. apply sx_wrapu; [lia|]. apply in_sw32_iff. exact H.
Qed.

Lemma vi_range z : in_sw 32 (vi z).
Proof. unfold vi, sx32, u32. apply sx_range; [lia|]. apply wrapu_lt. Qed.

Lemma len32_bounds v : 1 <= len32 v <= 5.
Proof.
  unfold len32. rewrite max_varint_len. change (Z.to_N 5) with 5.
  repeat match goal with |- context [(?a <? ?b)%Z] => destruct (Z.ltb_spec a b) end; lia.
Qed.

Lemma len32_0 : len32 0%Z = 1. Proof. reflexivity. Qed.

Lemma write32_len v : in_sw 32 v -> lenN (write32 v) = len32 v.
Proof. intros H. symmetry. apply len32_spec. exact H. Qed.

Lemma write32_length v : in_sw 32 v -> length (write32 v) = N.to_nat (len32 v).
Proof. intros H. rewrite <- (write32_len v H). unfold lenN. lia. Qed.

(* ---------- list arithmetic ---------- *)
Lemma takeN_app_exact {A} (a b : list A) : takeN (lenN a) (a ++ b) = a.
Proof. unfold takeN, lenN. rewrite Nat2N.id. apply firstn_app_exact. Qed.
Lemma dropN_app_exact {A} (a b : list A) : dropN (lenN a) (a ++ b) = b.
Proof. unfold dropN, lenN. rewrite Nat2N.id. apply skipn_app_exact. Qed.
Lemma takeN_all {A} (a : list A) : takeN (lenN a) a = a.
Proof. unfold takeN, lenN. rewrite Nat2N.id. apply firstn_all. Qed.
Lemma dropN_all {A} (a : list A) : dropN (lenN a) a = [].
Proof. unfold dropN, lenN. rewrite Nat2N.id. apply skipn_all. Qed.

Lemma skipn_repeat_app {A} (x : A) (k n : nat) (l : list A) :
  (k <= n)%nat -> skipn k (repeat x n ++ l) = repeat x (n - k) ++ l.
Proof.
  revert n. induction k as [|k IH]; intros n H.
  - rewrite Nat.sub_0_r. reflexivity.
  - destruct n as [|n]; [lia|]. cbn [repeat app skipn]. rewrite IH by lia. reflexivity.
Qed.

Lemma overwrite_pad src (l : list N) :
  overwrite src (repeat 0 (length src) ++ l) = src ++ l.
Proof.
  unfold overwrite. rewrite skipn_repeat_app by lia. rewrite Nat.sub_diag. reflexivity.
Qed.

(* ---------- Pack = header arithmetic ++ body, for every input ---------- *)
Section WithZlib.
Variable deflate : list N -> list N.
Variable inflate : list N -> option (list N).
Variable inflate_strict : list N -> option (list N).

Definition body_of (thr : Z) (p : packet) : list N :=
  if snd (pack_hdr thr (fst p) (lenN (snd p)) 0) then deflate (write32 (fst p) ++ snd p) else snd p.

(* the 5-byte padding, buff.Next and the in-place WriteToBytes leave exactly
   PacketLength ++ DataLength ++ zlib stream *)
Lemma pack_comp_zlib pool thr id data :
  (Z.of_N (lenN data) <? thr)%Z = false ->
  pack_comp deflate pool thr id data =
  hdr_zlib id (lenN data) (lenN (deflate (write32 id ++ data))) ++ deflate (write32 id ++ data).
Proof.
  intros Hthr. unfold pack_comp, hdr_zlib, buf_reset. rewrite Hthr. cbv zeta.
  set (DL := vi (Z.of_N (len32 id) + Z.of_N (lenN data))).
  set (z := deflate (write32 id ++ data)).
  rewrite max_varint_len'. change (Z.to_nat 5) with 5%nat.
  rewrite app_nil_l.
  assert (HL : lenN ((repeat 0 5 ++ write32 DL) ++ z) = 5 + len32 DL + lenN z).
  { rewrite !lenN_app. rewrite (write32_len DL) by apply vi_range. reflexivity. }
  rewrite HL.
  replace (Z.of_N (5 + len32 DL + lenN z) - 5)%Z with (Z.of_N (len32 DL) + Z.of_N (lenN z))%Z by lia.
  set (PL := vi (Z.of_N (len32 DL) + Z.of_N (lenN z))).
  pose proof (len32_bounds PL) as HB.
  unfold dropN. rewrite <- app_assoc.
  rewrite skipn_repeat_app by lia.
  replace (5 - N.to_nat (Z.to_N (5 - Z.of_N (len32 PL))))%nat with (length (write32 PL)).
  2:{ rewrite write32_length by apply vi_range. lia. }
  rewrite overwrite_pad. rewrite <- app_assoc. reflexivity.
Qed.

Theorem pack_split thr pool p :
  pack deflate thr pool p =
  fst (pack_hdr thr (fst p) (lenN (snd p)) (lenN (deflate (write32 (fst p) ++ snd p)))) ++ body_of thr p.
Proof.
  destruct p as [id data]. unfold pack, pack_hdr, body_of. cbn [fst snd]. unfold pack_hdr.
  destruct (0 <=? thr)%Z.
  - destruct (Z.of_N (lenN data) <? thr)%Z eqn:E; cbn [fst snd].
    + unfold pack_comp, hdr_below, buf_reset. rewrite E. cbv zeta. rewrite app_nil_l.
      rewrite <- !app_assoc. reflexivity.
    + apply pack_comp_zlib. exact E.
  - cbn [fst snd]. unfold pack_plain, hdr_plain, buf_reset. cbv zeta. rewrite app_nil_l.
    rewrite <- !app_assoc. reflexivity.
Qed.

(* stale contents of the pooled buffer never reach the frame *)
Lemma pack_pool_irrelevant thr pool pool' p : pack deflate thr pool p = pack deflate thr pool' p.
Proof. rewrite (pack_split thr pool), (pack_split thr pool'). reflexivity. Qed.

(* ---------- running the decoders on what Pack wrote ---------- *)
Lemma run_read32_bind {B} (f : Z * N -> dec B) v rest : in_sw 32 v ->
  run_flat (bind read32 f) (write32 v ++ rest) = run_flat (f (v, len32 v)) rest.
Proof.
  intros H. rewrite run_flat_bind by apply read32_robust.
  rewrite read32_write32 by exact H. rewrite write32_len by exact H. reflexivity.
Qed.

Lemma sub_read32 {B} (k : Z * N -> list N -> dec B) v rest : in_sw 32 v ->
  sub read32 (write32 v ++ rest) k = k (v, len32 v) rest.
Proof.
  intros H. unfold sub. rewrite read32_write32 by exact H. rewrite write32_len by exact H. reflexivity.
Qed.

Lemma resize_ok old n : (0 <= n)%Z -> resize old n = Ret (newcap (r_cap old) (Z.to_N n)).
Proof.
  intros H. unfold resize, newcap.
  destruct (Z.ltb_spec (Z.of_N (r_cap old)) n); destruct (N.ltb_spec (r_cap old) (Z.to_N n)); try lia; try reflexivity.
  destruct (Z.ltb_spec n 0); [lia|reflexivity].
Qed.

Lemma read_data_ok old id (data : list N) :
  read_data old id (Z.of_N (lenN data)) data = Ret (received old (id, data)).
Proof.
  unfold read_data. rewrite resize_ok by lia. cbn [bind]. unfold sub. rewrite N2Z.id.
  cbn [run_flat]. rewrite N.leb_refl. rewrite takeN_all. reflexivity.
Qed.

Lemma roundtrip_plain pool old id data rest :
  in_sw 32 id -> (Z.of_N (lenN data) <= 2097152)%Z ->
  run_flat (unpack_plain old) (pack_plain pool id data ++ rest) = FOk (received old (id, data)) rest.
Proof.
  intros Hid Hn. unfold pack_plain, buf_reset. cbv zeta. rewrite app_nil_l.
  pose proof (len32_bounds id) as HB.
  rewrite vi_id by lia. rewrite <- !app_assoc.
  unfold unpack_plain.
  rewrite run_read32_bind by (apply in_sw32_iff; lia).
  cbv beta iota.
  rewrite run_read32_bind by exact Hid.
  cbv beta iota zeta.
  replace (Z.of_N (len32 id) + Z.of_N (lenN data) - Z.of_N (len32 id))%Z with (Z.of_N (lenN data)) by lia.
  rewrite max_data_length.
  assert (E : ((Z.of_N (lenN data) <? 0)%Z || (2097152 <? Z.of_N (lenN data))%Z) = false) by lia.
  rewrite E. rewrite resize_ok by lia. cbn [bind run_flat]. rewrite N2Z.id.
  rewrite lenN_app. assert (L : (lenN data <=? lenN data + lenN rest) = true) by lia. rewrite L.
  rewrite takeN_app_exact, dropN_app_exact. reflexivity.
Qed.

Lemma run_readfull_exact {A} n (k : list N -> dec A) X rest : n = lenN X ->
  run_flat (ReadFull n k) (X ++ rest) = run_flat (k X) rest.
Proof.
  intros ->. cbn [run_flat]. rewrite lenN_app.
  assert (L : (lenN X <=? lenN X + lenN rest) = true) by lia. rewrite L.
  rewrite takeN_app_exact, dropN_app_exact. reflexivity.
Qed.

(* what the round trip needs from compress/zlib *)
Definition zlib_inverse : Prop := forall x, inflate (deflate x) = Some x.
Definition zlib_fits : Prop :=
  forall x, (Z.of_N (lenN x) <= 2097152)%Z -> (Z.of_N (lenN (deflate x)) < 2147483648 - 5)%Z.

(* data length 0 inside compressed mode: accepted whatever the size (no declaration to check) *)
Lemma roundtrip_comp_below thr pool pool' old id data rest :
  (0 <= thr)%Z -> in_sw 32 id -> (Z.of_N (lenN data) <? thr)%Z = true ->
  (1 + Z.of_N (len32 id) + Z.of_N (lenN data) < 2147483648)%Z ->
  run_flat (unpack_comp inflate thr pool' old) (pack_comp deflate pool thr id data ++ rest)
  = FOk (received old (id, data)) rest.
Proof.
  intros Hthr Hid E Hn.
  pose proof (len32_bounds id) as HB.
  unfold pack_comp, buf_reset. rewrite E. cbv zeta. rewrite app_nil_l.
  rewrite len32_0. rewrite vi_id by lia. rewrite <- !app_assoc.
  unfold unpack_comp.
  rewrite run_read32_bind by (apply in_sw32_iff; lia).
  cbv beta iota.
  assert (H0 : in_sw 32 0%Z) by (apply in_sw32_iff; lia).
  rewrite (app_assoc (write32 id)), (app_assoc (write32 0%Z)).
  rewrite run_readfull_exact.
  2:{ rewrite !lenN_app, !write32_len by assumption. rewrite len32_0. lia. }
  unfold buf_reset. rewrite app_nil_l.
  rewrite sub_read32 by exact H0. cbv beta iota.
  change (negb (0 =? 0)%Z) with false. cbv iota.
  rewrite sub_read32 by exact Hid. cbv beta iota.
  rewrite len32_0.
  replace (Z.of_N 1 + Z.of_N (len32 id) + Z.of_N (lenN data) - Z.of_N 1 - Z.of_N (len32 id))%Z
    with (Z.of_N (lenN data)) by lia.
  rewrite vi_id by lia. rewrite read_data_ok. reflexivity.
Qed.

Lemma roundtrip_comp_zlib thr pool pool' old id data rest :
  inflate (deflate (write32 id ++ data)) = Some (write32 id ++ data) ->
  (Z.of_N (lenN (deflate (write32 id ++ data))) < 2147483648 - 5)%Z ->
  (0 <= thr)%Z -> in_sw 32 id -> (Z.of_N (lenN data) <? thr)%Z = false ->
  (Z.of_N (len32 id) + Z.of_N (lenN data) <= 2097152)%Z ->
  run_flat (unpack_comp inflate thr pool' old) (pack_comp deflate pool thr id data ++ rest)
  = FOk (received old (id, data)) rest.
Proof.
  intros Hinv Hz Hthr Hid E Hn.
  pose proof (len32_bounds id) as HB.
  rewrite pack_comp_zlib by exact E. unfold hdr_zlib. cbv zeta.
  set (z := deflate (write32 id ++ data)) in *.
  rewrite (vi_id (Z.of_N (len32 id) + Z.of_N (lenN data))) by lia.
  set (DL := (Z.of_N (len32 id) + Z.of_N (lenN data))%Z).
  assert (HDL : in_sw 32 DL) by (apply in_sw32_iff; unfold DL; lia).
  pose proof (len32_bounds DL) as HBD.
  rewrite vi_id by lia. rewrite <- !app_assoc.
  unfold unpack_comp.
  rewrite run_read32_bind by (apply in_sw32_iff; lia).
  cbv beta iota.
  rewrite (app_assoc (write32 DL)).
  rewrite run_readfull_exact.
  2:{ rewrite lenN_app, write32_len by assumption. lia. }
  unfold buf_reset. rewrite app_nil_l.
  rewrite sub_read32 by exact HDL. cbv beta iota.
  assert (E0 : (DL =? 0)%Z = false) by (unfold DL; lia). rewrite E0. cbn [negb].
  assert (E1 : (DL <? thr)%Z = false) by (unfold DL; lia). rewrite E1.
  rewrite max_data_length.
  assert (E2 : (2097152 <? DL)%Z = false) by (unfold DL; lia). rewrite E2.
  rewrite Hinv.
  rewrite sub_read32 by exact Hid. cbv beta iota.
  assert (E3 : (DL <? Z.of_N (len32 id))%Z = false) by (unfold DL; lia). rewrite E3.
  replace (DL - Z.of_N (len32 id))%Z with (Z.of_N (lenN data)) by (unfold DL; lia).
  rewrite vi_id by lia. rewrite read_data_ok. reflexivity.
Qed.

Lemma roundtrip_comp thr pool pool' old id data rest :
  zlib_inverse -> zlib_fits ->
  (0 <= thr)%Z -> in_sw 32 id -> (Z.of_N (len32 id) + Z.of_N (lenN data) <= 2097152)%Z ->
  run_flat (unpack_comp inflate thr pool' old) (pack_comp deflate pool thr id data ++ rest)
  = FOk (received old (id, data)) rest.
Proof.
  intros Hinv Hfit Hthr Hid Hn.
  destruct (Z.of_N (lenN data) <? thr)%Z eqn:E.
  - apply roundtrip_comp_below; auto. lia.
  - apply roundtrip_comp_zlib; auto. apply Hfit.
    rewrite lenN_app, write32_len by exact Hid. lia.
Qed.

Theorem roundtrip thr pool pool' old p rest :
  zlib_inverse -> zlib_fits -> in_domain p ->
  run_flat (unpack inflate thr pool' old) (pack deflate thr pool p ++ rest) = FOk (received old p) rest.
Proof.
  intros Hinv Hfit [Hid Hn]. destruct p as [id data]. cbn [fst snd] in *. rewrite max_data_length in Hn.
  unfold unpack, pack. destruct (Z.leb_spec 0 thr).
  - apply roundtrip_comp; auto.
  - apply roundtrip_plain; auto. pose proof (len32_bounds id). lia.
Qed.

(* net.Conn: SetThreshold governs both directions *)
Lemma conn_roundtrip t pool pool' old p rest :
  zlib_inverse -> zlib_fits -> in_domain p ->
  let c := set_threshold wrap_conn t in
  run_flat (read_packet inflate c pool' old) (write_packet deflate c pool p ++ rest)
  = FOk (received old p) rest.
Proof.
  intros Hinv Hfit Hd c. unfold read_packet, write_packet, c, set_threshold. cbn [c_threshold].
  apply roundtrip; assumption.
Qed.
Lemma conn_default_roundtrip pool pool' old p rest :
  in_domain p ->
  run_flat (read_packet inflate wrap_conn pool' old) (write_packet deflate wrap_conn pool p ++ rest)
  = FOk (received old p) rest.
Proof.
  intros [Hid Hn]. destruct p as [id data]. cbn [fst snd] in *. rewrite max_data_length in Hn.
  unfold read_packet, write_packet, wrap_conn. cbn [c_threshold]. unfold unpack, pack.
  change (0 <=? -1)%Z with false. cbv iota.
  apply roundtrip_plain; auto. pose proof (len32_bounds id). lia.
Qed.

(* ---------- the decoder never issues a bare Read (feeds C09) ---------- *)
Lemma sub_robust {A B} (d : dec A) s (k : A -> list N -> dec B) :
  (forall a r, robust (k a r)) -> robust (sub d s k).
Proof. intros H. unfold sub. destruct (run_flat d s); auto; constructor. Qed.
Lemma resize_robust old n : robust (resize old n).
Proof. unfold resize. destruct (_ <? _)%Z; [constructor|]. destruct (_ <? _)%Z; constructor. Qed.
Lemma read_data_robust old id n src : robust (read_data old id n src).
Proof.
  unfold read_data. apply robust_bind; [apply resize_robust|]. intros c.
  apply sub_robust. intros; constructor.
Qed.
Lemma unpack_robust thr pool old : robust (unpack inflate thr pool old).
Proof.
  unfold unpack. destruct (0 <=? thr)%Z.
  - unfold unpack_comp. apply robust_bind; [apply read32_robust|]. intros [PL n0]. cbv beta iota.
    constructor. intros got. apply sub_robust. intros [DL n2] r1.
    destruct (negb _).
    + destruct (_ <? _)%Z; [constructor|]. destruct (_ <? _)%Z; [constructor|].
      destruct (inflate r1); [|constructor].
      apply sub_robust. intros [id n3] out'. destruct (_ <? _)%Z; [constructor|apply read_data_robust].
    + apply sub_robust. intros [id n3] r2. apply read_data_robust.
  - unfold unpack_plain. apply robust_bind; [apply read32_robust|]. intros [L n0]. cbv beta iota.
    apply robust_bind; [apply read32_robust|]. intros [id n]. cbv beta iota zeta.
    destruct (_ || _); [constructor|]. apply robust_bind; [apply resize_robust|]. intros c.
    constructor. intros; constructor.
Qed.
Lemma unpack_seq_robust thr pools : forall old, robust (unpack_seq inflate thr pools old).
Proof.
  induction pools as [|pool t IH]; intros old; cbn [unpack_seq]; [constructor|].
  apply robust_bind; [apply unpack_robust|]. intros r.
  apply robust_bind; [apply IH|]. intros; constructor.
Qed.

(* ---------- streams ---------- *)
Lemma frames_cons thr pool p pps :
  frames deflate thr ((pool, p) :: pps) = pack deflate thr pool p ++ frames deflate thr pps.
Proof. reflexivity. Qed.

Theorem stream thr : zlib_inverse -> zlib_fits -> forall pps upools old rest,
  Forall in_domain (map snd pps) -> length upools = length pps ->
  run_flat (unpack_seq inflate thr upools old) (frames deflate thr pps ++ rest)
  = FOk (thread old (map snd pps)) rest.
Proof.
  intros Hinv Hfit. induction pps as [|[pool p] pps IH]; intros upools old rest Hd Hl.
  - destruct upools; [|discriminate]. reflexivity.
  - destruct upools as [|up upools]; [discriminate|].
    cbn [map snd] in Hd. inversion Hd as [|? ? Hp Hps]; subst.
    rewrite frames_cons, <- app_assoc. cbn [unpack_seq].
    rewrite run_flat_bind by apply unpack_robust.
    rewrite roundtrip by assumption.
    rewrite run_flat_bind by apply unpack_seq_robust.
    cbn [length] in Hl.
    rewrite IH by (auto; lia). cbn [run_flat thread map snd]. reflexivity.
Qed.

Lemma thread_packets : forall ps old, map pkt_of (thread old ps) = ps.
Proof.
  induction ps as [|[id data] ps IH]; intros old; cbn [thread map]; [reflexivity|].
  rewrite IH. reflexivity.
Qed.

(* ---------- conformance to the independent frame reader ---------- *)
Lemma spec_groups_leb : forall f x fuel rest,
  x < 128 ^ N.of_nat f -> (0 < f)%nat -> (f <= fuel)%nat ->
  spec_groups fuel (leb_fuel f x ++ rest) = Some (leb_fuel f x, rest).
Proof.
  induction f as [|f IH]; intros x fuel rest Hx Hf Hle; [lia|].
  destruct fuel as [|fuel]; [lia|].
  cbn [leb_fuel]. destruct (N.ltb_spec x 128) as [L|L].
  - cbn [app spec_groups]. assert ((x <? 128) = true) as -> by lia. reflexivity.
  - cbn [app spec_groups]. assert ((x mod 128 + 128 <? 128) = false) as -> by lia.
    destruct f as [|f]; [change (128 ^ N.of_nat 1) with 128 in Hx; lia|].
    rewrite IH; [reflexivity| |lia|lia].
    replace (N.of_nat (S (S f))) with (N.succ (N.of_nat (S f))) in Hx by lia.
    rewrite N.pow_succ_r' in Hx. apply N.div_lt_upper_bound; [discriminate|exact Hx].
Qed.

Lemma spec_varint_write32 v rest : in_sw 32 v -> spec_varint (write32 v ++ rest) = Some (v, rest).
Proof.
  intros Hv. rewrite write32_spec. pose proof (u32_lt v) as Hu.
  unfold spec_varint. rewrite (leb128_fuel _ 5) by (try apply lt_128_5; auto; lia).
  rewrite spec_groups_leb by (try apply lt_128_5; auto; lia).
  rewrite <- (leb128_fuel _ 5) by (try apply lt_128_5; auto; lia).
  rewrite leb_val_leb128. rewrite N.mod_small by exact Hu.
  unfold sx32, u32. rewrite sx_wrapu by (auto; lia). reflexivity.
Qed.

Definition zlib_strict_inverse : Prop := forall x, inflate_strict (deflate x) = Some x.

Theorem conformant thr pool p :
  zlib_strict_inverse -> zlib_fits -> in_domain p ->
  spec_frame_reader inflate_strict thr (pack deflate thr pool p) = Some p.
Proof.
  intros Hinv Hfit [Hid Hn]. destruct p as [id data]. cbn [fst snd] in *. rewrite max_data_length in Hn.
  pose proof (len32_bounds id) as HB.
  assert (H0 : in_sw 32 0%Z) by (apply in_sw32_iff; lia).
  unfold pack, spec_frame_reader. destruct (Z.leb_spec 0 thr) as [Hthr|Hthr].
  - assert (T : (thr <? 0)%Z = false) by lia.
    destruct (Z.of_N (lenN data) <? thr)%Z eqn:E.
    + unfold pack_comp, buf_reset. rewrite E. cbv zeta. rewrite app_nil_l.
      rewrite len32_0. rewrite vi_id by lia. rewrite <- !app_assoc.
      rewrite spec_varint_write32 by (apply in_sw32_iff; lia).
      assert (EL : (Z.of_N 1 + Z.of_N (len32 id) + Z.of_N (lenN data)
                    =? Z.of_N (lenN (write32 0%Z ++ write32 id ++ data)))%Z = true).
      { rewrite !lenN_app, !write32_len by assumption. rewrite len32_0. lia. }
      rewrite EL. cbn [negb]. rewrite T.
      rewrite spec_varint_write32 by exact H0. change (0 =? 0)%Z with true. cbv iota.
      apply spec_varint_write32. exact Hid.
    + rewrite pack_comp_zlib by exact E. unfold hdr_zlib. cbv zeta.
      set (z := deflate (write32 id ++ data)).
      assert (Hx : (Z.of_N (lenN (write32 id ++ data)) <= 2097152)%Z).
      { rewrite lenN_app, write32_len by exact Hid. lia. }
      pose proof (Hfit _ Hx) as Hz. fold z in Hz.
      rewrite (vi_id (Z.of_N (len32 id) + Z.of_N (lenN data))) by lia.
      set (DL := (Z.of_N (len32 id) + Z.of_N (lenN data))%Z).
      assert (HDL : in_sw 32 DL) by (apply in_sw32_iff; unfold DL; lia).
      pose proof (len32_bounds DL) as HBD.
      rewrite vi_id by lia. rewrite <- !app_assoc.
      rewrite spec_varint_write32 by (apply in_sw32_iff; lia).
      assert (EL : (Z.of_N (len32 DL) + Z.of_N (lenN z) =? Z.of_N (lenN (write32 DL ++ z)))%Z = true).
      { rewrite lenN_app, write32_len by assumption. lia. }
      rewrite EL. cbn [negb]. rewrite T.
      rewrite spec_varint_write32 by exact HDL.
      assert (E0 : (DL =? 0)%Z = false) by (unfold DL; lia). rewrite E0.
      assert (E1 : ((DL <? thr)%Z || (2097152 <? DL)%Z) = false) by (unfold DL; lia). rewrite E1.
      unfold z. rewrite Hinv.
      assert (E2 : (Z.of_N (lenN (write32 id ++ data)) =? DL)%Z = true).
      { rewrite lenN_app, write32_len by assumption. unfold DL. lia. }
      rewrite E2. cbn [negb].
      apply spec_varint_write32. exact Hid.
  - assert (T : (thr <? 0)%Z = true) by lia.
    unfold pack_plain, buf_reset. cbv zeta. rewrite app_nil_l.
    rewrite vi_id by lia. rewrite <- !app_assoc.
    rewrite spec_varint_write32 by (apply in_sw32_iff; lia).
    assert (EL : (Z.of_N (len32 id) + Z.of_N (lenN data) =? Z.of_N (lenN (write32 id ++ data)))%Z = true).
    { rewrite lenN_app, write32_len by assumption. lia. }
    rewrite EL. cbn [negb]. rewrite T.
    apply spec_varint_write32. exact Hid.
Qed.

(* ---------- the rejection clause ---------- *)
(* plain mode: the declared payload size is Length - len(id) *)
Lemma reject_plain old s L n0 s1 id n s2 :
  run_flat read32 s = FOk (L, n0) s1 -> run_flat read32 s1 = FOk (id, n) s2 ->
  (L - Z.of_N n < 0 \/ L - Z.of_N n > 2097152)%Z ->
  is_err (run_flat (unpack_plain old) s) = true.
Proof.
  intros H1 H2 Hbad. unfold unpack_plain.
  rewrite run_flat_bind by apply read32_robust. rewrite H1. cbv beta iota.
  rewrite run_flat_bind by apply read32_robust. rewrite H2. cbv beta iota zeta.
  rewrite max_data_length.
  assert (E : ((L - Z.of_N n <? 0)%Z || (2097152 <? L - Z.of_N n)%Z) = true) by lia.
  rewrite E. reflexivity.
Qed.

(* compressed mode: the declared size is the data-length field of a delimited frame *)
Definition declared_bad (thr DL : Z) : Prop :=
  (DL < 0 \/ DL > 2097152 \/ (DL <> 0 /\ DL < thr))%Z.

Lemma reject_comp thr pool old s PL n0 s1 DL n2 r1 :
  (0 <= thr)%Z ->
  run_flat read32 s = FOk (PL, n0) s1 -> Z.to_N PL <= lenN s1 ->
  run_flat read32 (takeN (Z.to_N PL) s1) = FOk (DL, n2) r1 ->
  declared_bad thr DL ->
  is_err (run_flat (unpack_comp inflate thr pool old) s) = true.
Proof.
  intros Hthr H1 Hlen H2 Hbad. unfold unpack_comp.
  rewrite run_flat_bind by apply read32_robust. rewrite H1. cbv beta iota.
  cbn [run_flat]. assert (L : (Z.to_N PL <=? lenN s1) = true) by lia. rewrite L.
  unfold buf_reset. rewrite app_nil_l. unfold sub at 1. rewrite H2. cbv beta iota.
  rewrite max_data_length. unfold declared_bad in Hbad.
  destruct (Z.eqb_spec DL 0) as [E0|E0]; [lia|]. cbn [negb].
  destruct (Z.ltb_spec DL thr) as [E1|E1]; [reflexivity|].
  destruct (Z.ltb_spec 2097152 DL) as [E2|E2]; [reflexivity|]. lia.
Qed.

Theorem reject thr pool old s :
  match run_flat read32 s with
  | FOk (L, _) s1 =>
      if (thr <? 0)%Z then
        match run_flat read32 s1 with
        | FOk (_, n) _ => (L - Z.of_N n < 0 \/ L - Z.of_N n > 2097152)%Z
        | _ => False
        end
      else
        Z.to_N L <= lenN s1 /\
        match run_flat read32 (takeN (Z.to_N L) s1) with
        | FOk (DL, _) _ => declared_bad thr DL
        | _ => False
        end
  | _ => False
  end ->
  is_err (run_flat (unpack inflate thr pool old) s) = true.
Proof.
  unfold unpack.
  destruct (run_flat read32 s) as [[L n0] s1| | |] eqn:H1; try contradiction.
  destruct (Z.ltb_spec thr 0) as [T|T].
  - assert ((0 <=? thr)%Z = false) as -> by lia.
    destruct (run_flat read32 s1) as [[id n] s2| | |] eqn:H2; try contradiction.
    intros Hbad. eapply reject_plain; eauto.
  - assert ((0 <=? thr)%Z = true) as -> by lia.
    intros [Hlen Hd].
    destruct (run_flat read32 (takeN (Z.to_N L) s1)) as [[DL n2] r1| | |] eqn:H2; try contradiction.
    eapply reject_comp; eauto.
Qed.

(* the same with the headers written out as canonical VarInts *)
Theorem reject_plain_canonical thr pool old L id body :
  (thr < 0)%Z -> in_sw 32 L -> in_sw 32 id ->
  (L - Z.of_N (len32 id) < 0 \/ L - Z.of_N (len32 id) > 2097152)%Z ->
  is_err (run_flat (unpack inflate thr pool old) (write32 L ++ write32 id ++ body)) = true.
Proof.
  intros T HL Hid Hbad. apply reject.
  rewrite read32_write32 by exact HL.
  assert ((thr <? 0)%Z = true) as -> by lia.
  rewrite read32_write32 by exact Hid. rewrite write32_len by exact Hid. exact Hbad.
Qed.

Theorem reject_compressed_canonical thr pool old DL body rest :
  (0 <= thr)%Z -> in_sw 32 DL -> (Z.of_N (lenN body) < 2147483648 - 5)%Z ->
  declared_bad thr DL ->
  is_err (run_flat (unpack inflate thr pool old)
            (write32 (Z.of_N (len32 DL) + Z.of_N (lenN body)) ++ (write32 DL ++ body) ++ rest)) = true.
Proof.
  intros T HDL Hb Hbad. apply reject.
  pose proof (len32_bounds DL) as HB.
  rewrite read32_write32 by (apply in_sw32_iff; lia).
  assert ((thr <? 0)%Z = false) as -> by lia.
  assert (EL : Z.to_N (Z.of_N (len32 DL) + Z.of_N (lenN body)) = lenN (write32 DL ++ body)).
  { rewrite lenN_app, write32_len by exact HDL. lia. }
  rewrite EL. split; [rewrite (lenN_app (write32 DL ++ body) rest); lia|].
  rewrite takeN_app_exact. rewrite read32_write32 by exact HDL. exact Hbad.
Qed.

(* ---------- what the receiver does with ANY frame Pack can emit (also outside the domain) ---------- *)
Theorem own_frame_verdict thr pool pool' old id data rest :
  in_sw 32 id -> (1 + Z.of_N (len32 id) + Z.of_N (lenN data) < 2147483648)%Z ->
  inflate (deflate (write32 id ++ data)) = Some (write32 id ++ data) ->
  (Z.of_N (lenN (deflate (write32 id ++ data))) < 2147483648 - 5)%Z ->
  run_flat (unpack inflate thr pool' old) (pack deflate thr pool (id, data) ++ rest) =
  if own_accepts thr id (lenN data) then FOk (received old (id, data)) rest
  else FErr (if (0 <=? thr)%Z then eTooLarge else eLength).
Proof.
  intros Hid Hn Hinv Hz. pose proof (len32_bounds id) as HB.
  unfold unpack, pack, own_accepts. rewrite max_data_length.
  destruct (Z.leb_spec 0 thr) as [T|T].
  - destruct (Z.of_N (lenN data) <? thr)%Z eqn:E.
    + apply roundtrip_comp_below; auto.
    + destruct (Z.leb_spec (Z.of_N (len32 id) + Z.of_N (lenN data)) 2097152) as [A|A].
      * apply roundtrip_comp_zlib; auto.
      * rewrite pack_comp_zlib by exact E. unfold hdr_zlib. cbv zeta.
        set (z := deflate (write32 id ++ data)) in *.
        rewrite (vi_id (Z.of_N (len32 id) + Z.of_N (lenN data))) by lia.
        set (DL := (Z.of_N (len32 id) + Z.of_N (lenN data))%Z).
        assert (HDL : in_sw 32 DL) by (apply in_sw32_iff; unfold DL; lia).
        pose proof (len32_bounds DL) as HBD.
        rewrite vi_id by lia. rewrite <- !app_assoc.
        unfold unpack_comp.
        rewrite run_read32_bind by (apply in_sw32_iff; lia).
        cbv beta iota.
        rewrite (app_assoc (write32 DL)).
        rewrite run_readfull_exact.
        2:{ rewrite lenN_app, write32_len by assumption. lia. }
        unfold buf_reset. rewrite app_nil_l.
        rewrite sub_read32 by exact HDL. cbv beta iota.
        assert (E0 : (DL =? 0)%Z = false) by (unfold DL; lia). rewrite E0. cbn [negb].
        assert (E1 : (DL <? thr)%Z = false) by (unfold DL; lia). rewrite E1.
        rewrite max_data_length.
        assert (E2 : (2097152 <? DL)%Z = true) by (unfold DL; lia). rewrite E2. reflexivity.
  - destruct (Z.leb_spec (Z.of_N (lenN data)) 2097152) as [A|A].
    + apply roundtrip_plain; auto.
    + unfold pack_plain, buf_reset. cbv zeta. rewrite app_nil_l.
      rewrite vi_id by lia. rewrite <- !app_assoc.
      unfold unpack_plain.
      rewrite run_read32_bind by (apply in_sw32_iff; lia).
      cbv beta iota.
      rewrite run_read32_bind by exact Hid.
      cbv beta iota zeta.
      replace (Z.of_N (len32 id) + Z.of_N (lenN data) - Z.of_N (len32 id))%Z with (Z.of_N (lenN data)) by lia.
      rewrite max_data_length.
      assert (E : ((Z.of_N (lenN data) <? 0)%Z || (2097152 <? Z.of_N (lenN data))%Z) = true) by lia.
      rewrite E. reflexivity.
Qed.

(* ---------- UnPack never panics, whatever arrives (after the DataLength < len(id) guard) ---------- *)
Lemma lor_lt_pow2 a b k : a < 2^k -> b < 2^k -> N.lor a b < 2^k.
Proof.
  intros Ha Hb.
  destruct (N.eq_dec (N.lor a b) 0) as [E|E]; [rewrite E; apply pow2_pos|].
  destruct (N.eq_dec k 0) as [->|Hk].
  { change (2^0) with 1 in *. assert (a = 0) by lia. assert (b = 0) by lia. subst. exfalso. apply E. reflexivity. }
  apply N.log2_lt_pow2; [lia|]. rewrite N.log2_lor. apply N.max_lub_lt.
  - destruct (N.eq_dec a 0) as [->|Na]; [cbn; lia|]. apply N.log2_lt_pow2; lia.
  - destruct (N.eq_dec b 0) as [->|Nb]; [cbn; lia|]. apply N.log2_lt_pow2; lia.
Qed.

Lemma read_var_range w cap : forall fuel acc num s v n r,
  acc < 2^w -> run_flat (read_var w cap fuel acc num) s = FOk (v, n) r -> v < 2^w.
Proof.
  induction fuel as [|fuel IH]; intros acc num s v n r Ha H; [discriminate|].
  cbn [read_var] in H. destruct (cap <=? num); [discriminate|].
  cbn [run_flat] in H. destruct s as [|b s]; [discriminate|].
  assert (Ha' : N.lor acc (N.shiftl (N.land b 127) (7 * num) mod 2 ^ w) < 2^w).
  { apply lor_lt_pow2; [exact Ha|]. apply N.mod_lt. pose proof (pow2_pos w). lia. }
  destruct (_ =? 0).
  - cbn [run_flat] in H. inversion H; subst. exact Ha'.
  - eapply IH; [exact Ha'|exact H].
Qed.

Lemma read32_range s v n r : run_flat read32 s = FOk (v, n) r -> in_sw 32 v.
Proof.
  unfold read32. rewrite run_flat_bind by apply read_var_robust.
  destruct (run_flat (read_var _ _ _ _ _) s) as [[u m] r'| | |] eqn:E; try discriminate.
  cbn [run_flat]. intros H. inversion H; subst.
  apply read_var_range in E; [|reflexivity].
  unfold sx32. apply sx_range; [lia|exact E].
Qed.

Lemma read32_nil : run_flat read32 [] = FErr eEOF.
Proof. reflexivity. Qed.

Lemma lenN_takeN {A} n (l : list A) : n <= lenN l -> lenN (takeN n l) = n.
Proof. unfold lenN, takeN. intros H. rewrite firstn_length. lia. Qed.

Definition safe {A} (d : dec A) : Prop := forall s, ok_or_err (run_flat d s).

Lemma read_data_safe old id n src : (0 <= n)%Z -> safe (read_data old id n src).
Proof.
  intros Hn s. unfold read_data. rewrite resize_ok by exact Hn. cbn [bind]. unfold sub.
  cbn [run_flat]. destruct (_ <=? _); cbn [run_flat]; exact I.
Qed.

Theorem unpack_total thr pool old : safe (unpack inflate thr pool old).
Proof.
  intros s. unfold unpack. destruct (0 <=? thr)%Z.
  - unfold unpack_comp. rewrite run_flat_bind by apply read32_robust.
    pose proof (read32_cap s) as C0. pose proof (read32_range s) as R0.
    destruct (run_flat read32 s) as [[PL n0] s1| | |]; try exact I; try contradiction.
    specialize (R0 _ _ _ eq_refl). apply (proj1 (in_sw32_iff _)) in R0.
    cbv beta iota. cbn [run_flat].
    destruct (N.leb_spec (Z.to_N PL) (lenN s1)) as [Hl|Hl]; [|exact I].
    unfold buf_reset. rewrite app_nil_l.
    pose proof (lenN_takeN _ _ Hl) as Hb.
    set (buff := takeN (Z.to_N PL) s1) in *.
    unfold sub at 1.
    destruct buff as [|b0 buff'] eqn:EB; [rewrite read32_nil; exact I|]. rewrite <- EB in *.
    assert (HPL : Z.of_N (lenN buff) = PL).
    { rewrite Hb. rewrite EB in Hb. rewrite lenN_cons in Hb. lia. }
    pose proof (read32_cap buff) as C1.
    destruct (run_flat read32 buff) as [[DL n2] r1| | |]; try exact I; try contradiction.
    cbv beta iota.
    destruct (negb (DL =? 0)%Z).
    + destruct (Z.ltb_spec DL thr); [exact I|].
      rewrite max_data_length. destruct (Z.ltb_spec 2097152 DL); [exact I|].
      destruct (inflate r1) as [out|]; [|exact I].
      unfold sub at 1. pose proof (read32_cap out) as C2.
      destruct (run_flat read32 out) as [[id n3] out'| | |]; try exact I; try contradiction.
      cbv beta iota.
      destruct (Z.ltb_spec DL (Z.of_N n3)); [exact I|].
      apply read_data_safe. rewrite vi_id by lia. lia.
    + unfold sub at 1. pose proof (read32_cap r1) as C2.
      destruct (run_flat read32 r1) as [[id n3] r2| | |]; try exact I; try contradiction.
      cbv beta iota.
      apply read_data_safe. rewrite vi_id by lia. lia.
  - unfold unpack_plain. rewrite run_flat_bind by apply read32_robust.
    pose proof (read32_cap s) as C0.
    destruct (run_flat read32 s) as [[L n0] s1| | |]; try exact I; try contradiction.
    cbv beta iota. rewrite run_flat_bind by apply read32_robust.
    pose proof (read32_cap s1) as C1.
    destruct (run_flat read32 s1) as [[id n] s2| | |]; try exact I; try contradiction.
    cbv beta iota zeta.
    destruct (Z.ltb_spec (L - Z.of_N n) 0); [exact I|]. cbn [orb].
    destruct (_ <? _)%Z; [exact I|].
    rewrite resize_ok by lia. cbn [bind run_flat].
    destruct (_ <=? _); cbn [run_flat]; exact I.
Qed.

End WithZlib.
