(* C07: (a) what the receiver does with a PLAIN frame inside compressed mode (data length 0);
        (b) the stream theorem at net.Conn level (Model/C07_conn.v): any sequence of packets, SetThreshold
            and SetCipher calls applied on both ends at the same frame boundary. *)
From Coq Require Import List Arith NArith ZArith Lia Bool ZifyN ZifyNat ZifyBool.
From GoMC Require Import Base.Bytes Base.Bits Base.Dec Gen.Consts Model.C05 Model.C07 Model.C07_conn Proofs.C05 Proofs.C07.
Import ListNotations.
Ltac Zify.zify_post_hook ::= Z.div_mod_to_equations.
Open Scope N_scope.

(* ------------------------------------------------------------------ (a) data length 0 in compressed mode *)
Section Plain.
Variable inflate : list N -> option (list N).
Let dummy : list N -> list N := fun x => x.

(* the frame  VarInt(1 + len(id) + n) ++ 00 ++ VarInt(id) ++ payload  is accepted for EVERY payload size n
   the frame length can express (1 + len(id) + n <= 2^31 - 1): neither the threshold nor MaxDataLength is
   looked at on this path.  So a receiver in compressed mode accepts uncompressed payloads of at least
   `threshold` bytes and payloads beyond the 2 MiB maximum, up to 2^31 - 2 - len(id) bytes. *)
Theorem plain_in_compressed_accepted thr pool old id data rest :
  (0 <= thr)%Z -> in_sw 32 id -> (1 + Z.of_N (len32 id) + Z.of_N (lenN data) < 2147483648)%Z ->
  run_flat (unpack inflate thr pool old)
    (write32 (1 + Z.of_N (len32 id) + Z.of_N (lenN data)) ++ write32 0%Z ++ write32 id ++ data ++ rest)
  = FOk (received old (id, data)) rest.
Proof.
  intros Hthr Hid Hn. pose proof (len32_bounds id) as HB.
  unfold unpack. assert (E : (0 <=? thr)%Z = true) by lia. rewrite E. unfold unpack_comp.
  rewrite run_read32_bind by (apply in_sw32_iff; lia). cbv beta iota.
  assert (H0 : in_sw 32 0%Z) by (apply in_sw32_iff; lia).
  rewrite (app_assoc (write32 id)), (app_assoc (write32 0%Z)).
  rewrite (run_readfull_exact dummy inflate inflate).
  2:{ rewrite !lenN_app, !write32_len by assumption. rewrite len32_0. lia. }
  unfold buf_reset. rewrite app_nil_l.
  rewrite sub_read32 by exact H0. cbv beta iota.
  change (negb (0 =? 0)%Z) with false. cbv iota.
  rewrite sub_read32 by exact Hid. cbv beta iota. rewrite len32_0.
  replace (1 + Z.of_N (len32 id) + Z.of_N (lenN data) - Z.of_N 1 - Z.of_N (len32 id))%Z
    with (Z.of_N (lenN data)) by lia.
  rewrite vi_id by lia. rewrite read_data_ok. reflexivity.
  Unshelve. all: first [exact dummy | exact inflate].
Qed.

(* a frame length <= 0 is an error on this path (CopyN copies nothing; reading the data length hits EOF) *)
Theorem compressed_empty_frame_rejected thr pool old PL rest :
  (0 <= thr)%Z -> in_sw 32 PL -> (PL <= 0)%Z ->
  is_err (run_flat (unpack inflate thr pool old) (write32 PL ++ rest)) = true.
Proof.
  intros Hthr HPL Hneg. unfold unpack. assert (E : (0 <=? thr)%Z = true) by lia. rewrite E. unfold unpack_comp.
  rewrite run_read32_bind by exact HPL. cbv beta iota.
  replace (Z.to_N PL) with 0 by lia. cbn [run_flat]. cbn [N.leb]. unfold takeN, buf_reset. cbn [N.to_nat firstn app].
  unfold sub. rewrite read32_nil. destruct (0 <=? lenN rest); reflexivity.
  Unshelve. all: first [exact dummy | exact inflate].
Qed.
End Plain.

(* ------------------------------------------------------------------ (b) Conn *)
Section ConnProofs.
Variable cs : Type.
Variable enc1 dec1 : cs -> N -> N * cs.
Variable deflate : list N -> list N.
Variable inflate : list N -> option (list N).
(* the decrypting stream of the receiver is synchronised with the encrypting stream of the sender *)
Variable sync : cs -> cs -> Prop.
Definition stream_inverse : Prop :=
  forall a b x, sync a b ->
    fst (dec1 b (fst (enc1 a x))) = x /\ sync (snd (enc1 a x)) (snd (dec1 b (fst (enc1 a x)))).

Notation xs := (xor_stream cs).

Lemma xor_stream_app f : forall a s b,
  xs f s (a ++ b) = (fst (xs f s a) ++ fst (xs f (snd (xs f s a)) b), snd (xs f (snd (xs f s a)) b)).
Proof.
  induction a as [|x a IH]; intros s b; cbn [xor_stream app fst snd].
  - destruct (xs f s b); reflexivity.
  - destruct (f s x) as [c s']. rewrite IH. destruct (xs f s' a) as [ct s'']. cbn [fst snd].
    destruct (xs f s'' b); reflexivity.
Qed.

Lemma xor_stream_len f : forall a s, lenN (fst (xs f s a)) = lenN a.
Proof.
  induction a as [|x a IH]; intros s; cbn [xor_stream]; [reflexivity|].
  destruct (f s x) as [c s']. specialize (IH s'). destruct (xs f s' a) as [ct s'']. cbn [fst] in *.
  rewrite !lenN_cons, IH. reflexivity.
Qed.

Lemma sync_stream : stream_inverse -> forall x a b, sync a b ->
  fst (xs dec1 b (fst (xs enc1 a x))) = x /\
  sync (snd (xs enc1 a x)) (snd (xs dec1 b (fst (xs enc1 a x)))).
Proof.
  intros Hinv. induction x as [|x0 x IH]; intros a b Hs; cbn [xor_stream fst snd]; [split; [reflexivity|exact Hs]|].
  destruct (Hinv a b x0 Hs) as [E S].
  destruct (enc1 a x0) as [c a']. cbn [fst snd] in *.
  specialize (IH a'). destruct (xs enc1 a' x) as [ct a'']. cbn [fst snd xor_stream] in *.
  destruct (dec1 b c) as [y b']. cbn [fst snd] in *.
  specialize (IH b' S). destruct (xs dec1 b' ct) as [pt b'']. cbn [fst snd] in *.
  destruct IH as [E2 S2]. subst. split; [reflexivity|exact S2].
Qed.

(* the two ends agree on the threshold, and the sender's Writer / the receiver's Reader are both the
   bare socket or a synchronised pair of streams *)
Definition linked (ca cb : conn2 cs) : Prop :=
  k_thr cs ca = k_thr cs cb /\
  match k_enc cs ca, k_dec cs cb with
  | None, None => True
  | Some a, Some b => sync a b
  | _, _ => False
  end.

Fixpoint evs_ok (evs : list (ev cs)) : Prop :=
  match evs with
  | [] => True
  | EPacket _ _ _ p :: t => in_domain p /\ evs_ok t
  | EThreshold _ _ :: t => evs_ok t
  | ECipher _ ae _ _ bd :: t => sync ae bd /\ evs_ok t
  end.

Lemma read_write_packet2 ca cb wpool rpool old p W :
  zlib_inverse deflate inflate -> zlib_fits deflate -> stream_inverse ->
  linked ca cb -> in_domain p ->
  exists cb',
    read_packet2 cs dec1 inflate cb rpool old (fst (write_packet2 cs enc1 deflate ca wpool p) ++ W)
    = FOk (received old p, cb') W /\
    linked (snd (write_packet2 cs enc1 deflate ca wpool p)) cb'.
Proof.
  intros Hz Hf Hinv [Ht Hc] Hp.
  destruct ca as [ta ea da], cb as [tb eb db]. cbn [k_thr k_enc k_dec] in *. subst tb.
  pose proof (fun rest => roundtrip deflate inflate inflate ta wpool rpool old p rest Hz Hf Hp) as RT.
  unfold write_packet2, read_packet2, linked. cbn [k_thr k_enc k_dec].
  set (frame := pack deflate ta wpool p) in *.
  destruct ea as [a|]; destruct db as [b|]; try contradiction.
  - destruct (sync_stream Hinv frame a b Hc) as [E S].
    pose proof (xor_stream_len enc1 frame a) as L.
    destruct (xs enc1 a frame) as [ct a'] eqn:EQ. cbn [fst snd] in *.
    rewrite xor_stream_app. cbn [fst]. rewrite E. rewrite RT.
    pose proof (xor_stream_len dec1 W (snd (xs dec1 b ct))) as LW.
    assert (En : lenN (ct ++ W) - lenN (fst (xs dec1 (snd (xs dec1 b ct)) W)) = lenN ct).
    { rewrite LW, lenN_app. lia. }
    rewrite En. rewrite takeN_app_exact, dropN_app_exact.
    eexists. split; [reflexivity|]. cbn [k_thr k_enc k_dec]. split; [reflexivity|exact S].
  - cbn [fst snd]. rewrite RT. eexists. split; [reflexivity|]. cbn [k_thr k_enc k_dec]. split; [reflexivity|exact I].
Qed.

Theorem conn_stream :
  zlib_inverse deflate inflate -> zlib_fits deflate -> stream_inverse ->
  forall evs ca cb old rest, linked ca cb -> evs_ok evs ->
  exists cb',
    recv_all cs dec1 inflate cb evs old (fst (send_all cs enc1 deflate ca evs) ++ rest)
    = FOk (thread old (packets_of cs evs), cb') rest /\
    linked (snd (send_all cs enc1 deflate ca evs)) cb'.
Proof.
  intros Hz Hf Hinv. induction evs as [|e evs IH]; intros ca cb old rest HL Hok.
  - exists cb. split; [reflexivity|exact HL].
  - destruct e as [wpool rpool p|t|ae ad be bd]; cbn [send_all recv_all packets_of thread evs_ok] in *.
    + destruct Hok as [Hp Hok].
      destruct (write_packet2 cs enc1 deflate ca wpool p) as [w ca'] eqn:EW.
      destruct (send_all cs enc1 deflate ca' evs) as [ws ca''] eqn:ES.
      cbn [fst snd]. rewrite <- app_assoc.
      destruct (read_write_packet2 ca cb wpool rpool old p (ws ++ rest) Hz Hf Hinv HL Hp) as (cb' & ER & HL').
      rewrite EW in ER, HL'. cbn [fst snd] in ER, HL'. rewrite ER.
      destruct (IH ca' cb' (received old p) rest HL' Hok) as (cb'' & ER2 & HL2).
      rewrite ES in ER2, HL2. cbn [fst snd] in ER2, HL2. rewrite ER2.
      exists cb''. split; [reflexivity|exact HL2].
    + apply IH; [|exact Hok]. destruct HL as [Ht Hc]. split; [reflexivity|exact Hc].
    + destruct Hok as [Hs Hok]. apply IH; [|exact Hok]. destruct HL as [Ht Hc]. split; [exact Ht|exact Hs].
Qed.
End ConnProofs.
