(* C07: the tie between the Conn model (Model/C07_conn.v) and net/conn.go by translation.
   1. cs_*_skel_ok: the structured skeletons tools/gotrans/c07.go renders from net/conn.go on every run
      (Gen/C07gen.v cs_ReadPacket, ...) are the recorded ones (Proofs/C07_expected.v).
   2. An interpreter of the skeletons.  A Conn is (Reader, Writer, threshold) over ONE raw socket; a reader
      or writer value is the socket itself or a cipher stream object (direction + state) placed around
      another reader / writer (so that wrapping c.Reader instead of c.Socket, stacking on a second
      SetCipher, or putting the encrypting stream on the reading side are all representable and give
      DIFFERENT states).  Reading a packet through a reader value decrypts, layer by layer, exactly
      the bytes UnPack consumes and advances the stream states; the advanced value is stored back into
      the field the method read it from (the stream objects are shared by reference in Go).
   3. Interpretation lemmas: on the image `embed c` of a model Conn c, interpreting the translated
      SetThreshold / SetCipher / ReadPacket / WritePacket / Conn literal gives the image of the model's
      set_threshold2 / set_cipher2 / read_packet2 / write_packet2 / wrap_conn2; hence the interpreted
      event runs isend_all / irecv_all are the images of send_all / recv_all, and the Conn-level stream
      theorem holds of the interpretation of the translated skeletons (conn_stream_translated). *)
From Coq Require Import List String Arith NArith ZArith Lia Bool.
From GoMC Require Import Base.Bytes Base.Dec Gen.C07gen Model.C05 Model.C07 Model.C07_conn Model.C07_connsyntax.
From GoMC Require Import Proofs.C07 Proofs.C07_conn Proofs.C07_expected.
Import ListNotations.
Open Scope N_scope.

(* ------------------------------------------------------------------ 1. the source is what was modelled *)
Lemma cs_ReadPacket_skel_ok : C07gen.cs_ReadPacket = expected_cs_ReadPacket. Proof. reflexivity. Qed.
Lemma cs_WritePacket_skel_ok : C07gen.cs_WritePacket = expected_cs_WritePacket. Proof. reflexivity. Qed.
Lemma cs_SetThreshold_skel_ok : C07gen.cs_SetThreshold = expected_cs_SetThreshold. Proof. reflexivity. Qed.
Lemma cs_SetCipher_skel_ok : C07gen.cs_SetCipher = expected_cs_SetCipher. Proof. reflexivity. Qed.
Lemma cs_fields_skel_ok : C07gen.cs_fields = expected_cs_fields. Proof. reflexivity. Qed.
Lemma cs_literals_skel_ok : C07gen.cs_literals = expected_cs_literals. Proof. reflexivity. Qed.

(* ------------------------------------------------------------------ 2. interpretation *)
Section Interp.
Variable cs : Type.
Variable enc1 dec1 : cs -> N -> N * cs.
Variable deflate : list N -> list N.
Variable inflate : list N -> option (list N).

(* a cipher.Stream object: which step function its XORKeyStream iterates, and its state *)
Inductive dir := Enc | Dec.
Definition step (d : dir) := match d with Enc => enc1 | Dec => dec1 end.

Inductive rw : Type := RWSock | RWStream (d : dir) (s : cs) (inner : rw).
Record iconn := { i_reader : rw; i_writer : rw; i_thr : Z }.

Inductive value := VInt (z : Z) | VStream (d : dir) (s : cs) | VRW (x : rw) (src : option cfield).
Definition penv := string -> option value.

Fixpoint eval (c : iconn) (ps : penv) (v : cval) : option value :=
  match v with
  | CVField CFSocket => Some (VRW RWSock None)
  | CVField CFReader => Some (VRW (i_reader c) (Some CFReader))
  | CVField CFWriter => Some (VRW (i_writer c) (Some CFWriter))
  | CVField CFThreshold => Some (VInt (i_thr c))
  | CVParam n => ps n
  | CVInt z => Some (VInt z)
  | CVStreamReader s r | CVStreamWriter s r =>
      match eval c ps s, eval c ps r with
      | Some (VStream d st), Some (VRW x _) => Some (VRW (RWStream d st x) None)
      | _, _ => None
      end
  end.

Inductive outcome :=
| ODone (c : iconn)
| ORead (x : rw) (src : option cfield) (thr : Z)
| OWrite (x : rw) (src : option cfield) (thr : Z)
| OStuck.

Fixpoint run_c (c : iconn) (ps : penv) (l : list cstmt) : outcome :=
  match l with
  | [] => ODone c
  | CAssign f v :: t =>
      match f, eval c ps v with
      | CFReader, Some (VRW x _) => run_c {| i_reader := x; i_writer := i_writer c; i_thr := i_thr c |} ps t
      | CFWriter, Some (VRW x _) => run_c {| i_reader := i_reader c; i_writer := x; i_thr := i_thr c |} ps t
      | CFThreshold, Some (VInt z) => run_c {| i_reader := i_reader c; i_writer := i_writer c; i_thr := z |} ps t
      | _, _ => OStuck
      end
  | CReturnUnPack r thr :: _ =>
      match eval c ps r, eval c ps thr with
      | Some (VRW x src), Some (VInt z) => ORead x src z
      | _, _ => OStuck
      end
  | CReturnPack w thr :: _ =>
      match eval c ps w, eval c ps thr with
      | Some (VRW x src), Some (VInt z) => OWrite x src z
      | _, _ => OStuck
      end
  end.

Definition no_params : penv := fun _ => None.
Definition params1 (n : string) (v : value) : penv := fun k => if String.eqb k n then Some v else None.
Definition params2 (n1 : string) (v1 : value) (n2 : string) (v2 : value) : penv :=
  fun k => if String.eqb k n1 then Some v1 else if String.eqb k n2 then Some v2 else None.

(* what a reader value delivers when the socket holds `wire`, and the value after n bytes were taken *)
Fixpoint view (x : rw) (wire : list N) : list N :=
  match x with
  | RWSock => wire
  | RWStream d s inner => fst (xor_stream cs (step d) s (view inner wire))
  end.
Fixpoint advance (x : rw) (n : N) (wire : list N) : rw :=
  match x with
  | RWSock => RWSock
  | RWStream d s inner => RWStream d (snd (xor_stream cs (step d) s (takeN n (view inner wire)))) (advance inner n wire)
  end.
(* what reaches the socket when bytes are written through a writer value, and the value afterwards *)
Fixpoint write_through (x : rw) (bytes : list N) : list N * rw :=
  match x with
  | RWSock => (bytes, RWSock)
  | RWStream d s inner =>
      let '(ct, s') := xor_stream cs (step d) s bytes in
      let '(out, inner') := write_through inner ct in (out, RWStream d s' inner')
  end.

(* the bytes left in the socket after a read that left `rest` of the reader's view unread *)
Definition remaining (x : rw) (wire rest : list N) : list N :=
  match x with
  | RWSock => rest
  | RWStream _ _ _ => dropN (lenN wire - lenN rest) wire
  end.

Definition writeback (c : iconn) (src : option cfield) (x : rw) : iconn :=
  match src with
  | Some CFReader => {| i_reader := x; i_writer := i_writer c; i_thr := i_thr c |}
  | Some CFWriter => {| i_reader := i_reader c; i_writer := x; i_thr := i_thr c |}
  | _ => c
  end.

Definition pStuckConn : N := 92.

(* the translated methods, interpreted *)
Definition iset_threshold (c : iconn) (t : Z) : option iconn :=
  match run_c c (params1 "t" (VInt t)) C07gen.cs_SetThreshold with ODone c' => Some c' | _ => None end.
Definition iset_cipher (c : iconn) (eco deco : cs) : option iconn :=
  match run_c c (params2 "ecoStream" (VStream Enc eco) "decoStream" (VStream Dec deco)) C07gen.cs_SetCipher with
  | ODone c' => Some c' | _ => None
  end.
Definition iread_packet (c : iconn) (pool : list N) (old : rstate) (wire : list N) : fres (rstate * iconn) :=
  match run_c c no_params C07gen.cs_ReadPacket with
  | ORead x src thr =>
      match run_flat (unpack inflate thr pool old) (view x wire) with
      | FOk r rest => let n := lenN wire - lenN rest in FOk (r, writeback c src (advance x n wire)) (remaining x wire rest)
      | FErr e => FErr e | FPanic w => FPanic w | FFuel => FFuel
      end
  | _ => FPanic pStuckConn
  end.
Definition iwrite_packet (c : iconn) (pool : list N) (p : packet) : option (list N * iconn) :=
  match run_c c no_params C07gen.cs_WritePacket with
  | OWrite x src thr => let '(out, x') := write_through x (pack deflate thr pool p) in Some (out, writeback c src x')
  | _ => None
  end.
(* Conn{...}: every field given; the socket is the parameter conn *)
Definition iliteral (l : list (cfield * cval)) : option iconn :=
  let c0 := {| i_reader := RWSock; i_writer := RWSock; i_thr := 0%Z |} in
  let ps := params1 "conn" (VRW RWSock None) in
  match l with
  | [(CFSocket, sv); (CFReader, rv); (CFWriter, wv); (CFThreshold, tv)] =>
      match eval c0 ps sv, eval c0 ps rv, eval c0 ps wv, eval c0 ps tv with
      | Some (VRW RWSock _), Some (VRW r _), Some (VRW w _), Some (VInt t) =>
          Some {| i_reader := r; i_writer := w; i_thr := t |}
      | _, _, _, _ => None
      end
  | _ => None
  end.

(* the image of a model Conn *)
Definition embed (c : conn2 cs) : iconn :=
  {| i_reader := match k_dec cs c with None => RWSock | Some s => RWStream Dec s RWSock end;
     i_writer := match k_enc cs c with None => RWSock | Some s => RWStream Enc s RWSock end;
     i_thr := k_thr cs c |}.

(* ------------------------------------------------------------------ 3. interpretation lemmas *)
Lemma iset_threshold_is_model c t : iset_threshold (embed c) t = Some (embed (set_threshold2 cs c t)).
Proof. reflexivity. Qed.

Lemma iset_cipher_is_model c eco deco : iset_cipher (embed c) eco deco = Some (embed (set_cipher2 cs c eco deco)).
Proof. reflexivity. Qed.

Lemma iliteral_is_model : forall l, In l C07gen.cs_literals -> iliteral l = Some (embed (wrap_conn2 cs)).
Proof. intros l [<-|[<-|[]]]; reflexivity. Qed.

Definition fmap_conn (r : fres (rstate * conn2 cs)) : fres (rstate * iconn) :=
  match r with
  | FOk (x, c) rest => FOk (x, embed c) rest
  | FErr e => FErr e | FPanic w => FPanic w | FFuel => FFuel
  end.

Lemma iread_packet_is_model c pool old wire :
  iread_packet (embed c) pool old wire = fmap_conn (read_packet2 cs dec1 inflate c pool old wire).
Proof.
  destruct c as [t e d]. unfold iread_packet, read_packet2.
  cbn [run_c C07gen.cs_ReadPacket eval embed i_reader i_thr k_dec k_thr k_enc].
  destruct d as [s|]; cbn [view step].
  - destruct (run_flat _ _) as [r rest| | |]; reflexivity.
  - destruct (run_flat _ _) as [r rest| | |]; reflexivity.
Qed.

Lemma iwrite_packet_is_model c pool p :
  iwrite_packet (embed c) pool p =
  Some (fst (write_packet2 cs enc1 deflate c pool p), embed (snd (write_packet2 cs enc1 deflate c pool p))).
Proof.
  destruct c as [t e d]. unfold iwrite_packet, write_packet2.
  cbn [run_c C07gen.cs_WritePacket eval embed i_writer i_thr k_dec k_thr k_enc].
  destruct e as [s|]; cbn [write_through step].
  - destruct (xor_stream cs enc1 s _) as [ct s']. reflexivity.
  - reflexivity.
Qed.

(* ------------------------------------------------------------------ event runs through the interpretation *)
Fixpoint isend_all (c : iconn) (evs : list (ev cs)) : option (list N * iconn) :=
  match evs with
  | [] => Some ([], c)
  | EPacket _ wpool _ p :: t =>
      match iwrite_packet c wpool p with
      | Some (w, c') => match isend_all c' t with Some (ws, c'') => Some (w ++ ws, c'') | None => None end
      | None => None
      end
  | EThreshold _ th :: t => match iset_threshold c th with Some c' => isend_all c' t | None => None end
  | ECipher _ ae ad _ _ :: t => match iset_cipher c ae ad with Some c' => isend_all c' t | None => None end
  end.

Fixpoint irecv_all (c : iconn) (evs : list (ev cs)) (old : rstate) (wire : list N) : fres (list rstate * iconn) :=
  match evs with
  | [] => FOk ([], c) wire
  | EPacket _ _ rpool _ :: t =>
      match iread_packet c rpool old wire with
      | FOk (r, c') wire' =>
          match irecv_all c' t r wire' with
          | FOk (rs, c'') wire'' => FOk (r :: rs, c'') wire''
          | FErr e => FErr e | FPanic w => FPanic w | FFuel => FFuel
          end
      | FErr e => FErr e | FPanic w => FPanic w | FFuel => FFuel
      end
  | EThreshold _ th :: t => match iset_threshold c th with Some c' => irecv_all c' t old wire | None => FPanic pStuckConn end
  | ECipher _ _ _ be bd :: t => match iset_cipher c be bd with Some c' => irecv_all c' t old wire | None => FPanic pStuckConn end
  end.

Lemma isend_all_is_model : forall evs c,
  isend_all (embed c) evs =
  Some (fst (send_all cs enc1 deflate c evs), embed (snd (send_all cs enc1 deflate c evs))).
Proof.
  induction evs as [|e evs IH]; intros c; [reflexivity|].
  destruct e as [wpool rpool p|t|ae ad be bd]; cbn [isend_all send_all].
  - rewrite iwrite_packet_is_model. destruct (write_packet2 cs enc1 deflate c wpool p) as [w c'].
    cbn [fst snd]. rewrite IH. destruct (send_all cs enc1 deflate c' evs) as [ws c'']. reflexivity.
  - rewrite iset_threshold_is_model. apply IH.
  - rewrite iset_cipher_is_model. apply IH.
Qed.

Definition fmap_conns (r : fres (list rstate * conn2 cs)) : fres (list rstate * iconn) :=
  match r with
  | FOk (x, c) rest => FOk (x, embed c) rest
  | FErr e => FErr e | FPanic w => FPanic w | FFuel => FFuel
  end.

Lemma irecv_all_is_model : forall evs c old wire,
  irecv_all (embed c) evs old wire = fmap_conns (recv_all cs dec1 inflate c evs old wire).
Proof.
  induction evs as [|e evs IH]; intros c old wire; [reflexivity|].
  destruct e as [wpool rpool p|t|ae ad be bd]; cbn [irecv_all recv_all].
  - rewrite iread_packet_is_model. destruct (read_packet2 cs dec1 inflate c rpool old wire) as [[r c'] wire'| | |]; try reflexivity.
    cbn [fmap_conn]. rewrite IH. destruct (recv_all cs dec1 inflate c' evs r wire') as [[rs c''] wire''| | |]; reflexivity.
  - rewrite iset_threshold_is_model. apply IH.
  - rewrite iset_cipher_is_model. apply IH.
Qed.

(* the Conn-level stream theorem, of the interpretation of the translated skeletons *)
Theorem conn_stream_translated (sync : cs -> cs -> Prop) :
  zlib_inverse deflate inflate -> zlib_fits deflate -> stream_inverse cs enc1 dec1 sync ->
  forall evs ca cb old rest, linked cs sync ca cb -> evs_ok cs sync evs ->
  exists wire ia cb',
    isend_all (embed ca) evs = Some (wire, ia) /\
    irecv_all (embed cb) evs old (wire ++ rest) = FOk (thread old (packets_of cs evs), embed cb') rest /\
    ia = embed (snd (send_all cs enc1 deflate ca evs)) /\ linked cs sync (snd (send_all cs enc1 deflate ca evs)) cb'.
Proof.
  intros Hz Hf Hinv evs ca cb old rest HL Hok.
  destruct (conn_stream cs enc1 dec1 deflate inflate sync Hz Hf Hinv evs ca cb old rest HL Hok) as (cb' & ER & HL').
  exists (fst (send_all cs enc1 deflate ca evs)), (embed (snd (send_all cs enc1 deflate ca evs))), cb'.
  split; [apply isend_all_is_model|]. split; [|split; [reflexivity|exact HL']].
  rewrite irecv_all_is_model, ER. reflexivity.
Qed.

End Interp.
