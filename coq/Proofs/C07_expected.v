(* C07: the statement skeletons of net/packet/packet.go as they were when Model/C07.v was written and the
   interpretation lemmas of Proofs/C07_skel.v were proved (shapes only: statement kinds in source order
   with the rendered source text of every expression; the semantic part is in Gen/C07gen.v).
   Proofs/C07_skel.v proves  map shape C07gen.<f> = expected_<f>  by reflexivity: any edit of these bodies
   (a swapped statement, a dropped check, a changed expression) breaks one of these obligations.
   Also recorded: the bodies of net/conn.go ReadPacket / WritePacket / SetThreshold / SetCipher and the
   composite literals of type Conn, as rendered text. *)
From Coq Require Import List String ZArith.
From GoMC Require Import Model.C07_syntax Model.C07_connsyntax.
Import ListNotations.
Local Open Scope string_scope.

Definition expected_Pack : list shape_stmt :=
  [FIf "threshold >= 0" tt [FTail "packWithCompression"] [FTail "packWithoutCompression"]].

Definition expected_packWithoutCompression : list shape_stmt :=
  [FPoolGet "buffer"; FDefer "bufPool.Put(buffer)"; FReset;
        FLet VLength "Length := VarInt(VarInt(p.ID).Len() + len(p.Data))" tt; FBufVarInt "Length" tt;
        FBufVarInt "VarInt(p.ID)" tt; FBufData; FFlush; FReturnErr].

Definition expected_packWithCompression : list shape_stmt :=
  [FPoolGet "buff"; FDefer "bufPool.Put(buff)"; FReset; FLet VPacketID "PacketID := VarInt(p.ID)" tt;
        FIf "len(p.Data) < threshold" tt
          [FLet VDataLength "DataLength := VarInt(0)" tt;
           FLet VPacketLength "PacketLength := VarInt(DataLength.Len() + PacketID.Len() + len(p.Data))" tt;
           FBufVarInt "PacketLength" tt; FBufVarInt "DataLength" tt; FBufVarInt "PacketID" tt; FBufData]
          [FLet VDataLength "DataLength := VarInt(PacketID.Len() + len(p.Data))" tt; FBufZeros "MaxVarIntLen" tt;
           FBufVarInt "DataLength" tt;
           FCompress [FZGet; FDefer "zlibPool.Put(zw)"; FZReset; FZVarInt "VarInt(packetID)" tt; FZData; FZClose];
           FLet VPacketLength "PacketLength := VarInt(buff.Len() - MaxVarIntLen)" tt;
           FLet VpacketLengthLen "packetLengthLen := PacketLength.Len()" tt;
           FBufNext "MaxVarIntLen - packetLengthLen" tt; FBufPatch "PacketLength" tt "packetLengthLen" tt]; FFlush;
        FReturnErr].

Definition expected_UnPack : list shape_stmt :=
  [FIf "threshold >= 0" tt [FTail "unpackWithCompression"] [FTail "unpackWithoutCompression"]].

Definition expected_unpackWithoutCompression : list shape_stmt :=
  [FVar VLength; FReadVarInt VLength None; FErrCheck; FVar VPacketID; FReadVarInt VPacketID (Some Vn);
        FErrCheck; FSetID "int32(PacketID)" tt; FLet VlengthOfData "lengthOfData := int(Length) - int(n)" tt;
        FIf "lengthOfData < 0 || lengthOfData > MaxDataLength" tt
          [FReturnErrorf "uncompressed packet error: length is %d"] [];
        FIf "cap(p.Data) < lengthOfData" tt [FMake "lengthOfData" tt] [FReslice "lengthOfData" tt]; FReadFull;
        FErrCheck; FReturnNil].

Definition expected_unpackWithCompression : list shape_stmt :=
  [FVar VPacketLength; FReadVarInt VPacketLength None; FErrCheck; FPoolGet "buff"; FDefer "bufPool.Put(buff)";
        FReset; FCopyN "int64(PacketLength)" tt; FErrCheck; FReaderOfBuf; FVar VDataLength;
        FReadVarInt VDataLength (Some Vn2); FErrCheck; FVar VPacketID;
        FIf "DataLength != 0" tt
          [FIf "int(DataLength) < threshold" tt
             [FReturnErrorf "compressed packet error: size of %d is below threshold of %d"] [];
           FIf "DataLength > MaxDataLength" tt
             [FReturnErrorf "compressed packet error: size of %d is larger than protocol maximum of %d"] [];
           FZlibReader; FErrCheck; FDefer "zr.Close()"; FReaderZ; FReadVarInt VPacketID (Some Vn3); FErrCheck;
           FIf "int64(DataLength) < n3" tt
             [FReturnErrorf "compressed packet error: size of %d is smaller than the packet id"] [];
           FLet VDataLength "DataLength -= VarInt(n3)" tt]
          [FReadVarInt VPacketID (Some Vn3); FErrCheck;
           FLet VDataLength "DataLength = VarInt(int64(PacketLength) - n2 - n3)" tt];
        FIf "cap(p.Data) < int(DataLength)" tt [FMake "DataLength" tt] [FReslice "DataLength" tt];
        FSetID "int32(PacketID)" tt; FReadFull; FErrCheck; FReturnNil].

Definition expected_conn_ReadPacket : list string := ["return p.UnPack(c.Reader,c.threshold)"].
Definition expected_conn_WritePacket : list string := ["return p.Pack(c.Writer,c.threshold)"].
Definition expected_conn_SetThreshold : list string := ["c.threshold = t"].
Definition expected_conn_SetCipher : list string :=
  ["c.Reader = cipher.StreamReader{S:decoStream,R:c.Socket}";
   "c.Writer = cipher.StreamWriter{S:ecoStream,W:c.Socket}"].
(* WrapConn and Listener.Accept: a fresh Conn reads and writes the socket directly and has threshold -1 *)
Definition expected_conn_literals : list string :=
  ["Socket:conn,Reader:conn,Writer:conn,threshold:-1";
   "Socket:conn,Reader:conn,Writer:conn,threshold:-1"].

(* net/conn.go, structured (Model/C07_connsyntax.v): ReadPacket hands c.Reader and the CURRENT c.threshold to
   UnPack, WritePacket hands c.Writer and the current c.threshold to Pack, SetThreshold assigns the field,
   SetCipher replaces BOTH directions by a cipher.StreamReader / cipher.StreamWriter placed directly around
   the raw socket c.Socket (not around the previous c.Reader / c.Writer: a second SetCipher does not stack),
   with decoStream on the reading side and ecoStream on the writing side; a fresh Conn reads and writes the
   socket itself with threshold -1 *)
Definition expected_cs_ReadPacket : list cstmt := [CReturnUnPack (CVField CFReader) (CVField CFThreshold)].
Definition expected_cs_WritePacket : list cstmt := [CReturnPack (CVField CFWriter) (CVField CFThreshold)].
Definition expected_cs_SetThreshold : list cstmt := [CAssign CFThreshold (CVParam "t")].
Definition expected_cs_SetCipher : list cstmt :=
  [CAssign CFReader (CVStreamReader (CVParam "decoStream") (CVField CFSocket));
   CAssign CFWriter (CVStreamWriter (CVParam "ecoStream") (CVField CFSocket))].
Definition expected_cs_fields : list string := ["Socket net.Conn"; "io.Reader"; "io.Writer"; "threshold int"].
Definition expected_cs_literal : list (cfield * cval) :=
  [(CFSocket, CVParam "conn"); (CFReader, CVParam "conn"); (CFWriter, CVParam "conn"); (CFThreshold, CVInt (-1)%Z)].
Definition expected_cs_literals : list (list (cfield * cval)) := [expected_cs_literal; expected_cs_literal].
