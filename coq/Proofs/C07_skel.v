(* C07: the tie between the hand-written framing model (Model/C07.v) and net/packet/packet.go.
   1. *_skel_ok: the statement skeletons tools/gotrans/c07.go renders from the repository on every run
      (Gen/C07gen.v) have the shapes recorded in Proofs/C07_expected.v (reflexivity; a swapped statement,
      a dropped check or a changed expression text breaks one of them); same for the bodies of
      net/conn.go ReadPacket / WritePacket / SetThreshold / SetCipher.
   2. An interpreter `exec` of the statement type: a state (integer locals, the pooled buffer, the zlib
      writer's pending input, what was written to w, which reader r denotes, *p) is threaded through
      the statements IN SOURCE ORDER; reads are effects of Base.Dec (from the stream, or from an
      in-memory buffer after `r = bytes.NewReader(...)` / `r = zr`); every expression is evaluated by
      the TRANSLATED definition of Gen/C07gen.v (explicit Go wrap semantics); an `err` that was
      assigned and is not checked by the very next statement is a stuck state; make / slice / Next with
      an out-of-range length are panics.  zlib is the Section oracle of Model/C07.v.
   3. Interpretation lemmas: interpreting Gen/C07gen.v's Pack (with packWithoutCompression /
      packWithCompression, compressPacket placed at its call) gives exactly Model.C07.pack, and
      interpreting UnPack (with unpackWithoutCompression / unpackWithCompression) gives Model.C07.unpack
      on every input stream, for every threshold, receiver state and pooled-buffer content.
   What is NOT derived from the source: the meaning of each statement kind (exec below: bytes.Buffer,
   io.CopyN, io.ReadFull, zlib reader/writer, VarInt.WriteTo / ReadFrom = Model.C05 write32 / read32,
   which C05 ties to the source separately), and the table err_of from format strings to error classes. *)
From Coq Require Import List Arith NArith ZArith Lia Bool ZifyN ZifyNat ZifyBool.
From Coq Require Import String.
From GoMC Require Import Base.Bytes Base.Bits Base.Dec Base.GoInt Gen.Consts Gen.Funcs Gen.C07gen.
From GoMC Require Import Model.C05 Model.C07 Model.C07_syntax Proofs.C05 Proofs.C05_tie Proofs.C07 Proofs.C07_expected.
Import ListNotations.
Ltac Zify.zify_post_hook ::= Z.div_mod_to_equations.
Open Scope N_scope.

(* ------------------------------------------------------------------ 1. the source is what was modelled *)
Lemma Pack_skel_ok : map shape C07gen.Pack = expected_Pack. Proof. reflexivity. Qed.
Lemma packWithoutCompression_skel_ok : map shape C07gen.packWithoutCompression = expected_packWithoutCompression.
Proof. reflexivity. Qed.
Lemma packWithCompression_skel_ok : map shape C07gen.packWithCompression = expected_packWithCompression.
Proof. reflexivity. Qed.
Lemma UnPack_skel_ok : map shape C07gen.UnPack = expected_UnPack. Proof. reflexivity. Qed.
Lemma unpackWithoutCompression_skel_ok :
  map shape C07gen.unpackWithoutCompression = expected_unpackWithoutCompression.
Proof. reflexivity. Qed.
Lemma unpackWithCompression_skel_ok : map shape C07gen.unpackWithCompression = expected_unpackWithCompression.
Proof. reflexivity. Qed.
Lemma conn_ReadPacket_skel_ok : C07gen.conn_ReadPacket = expected_conn_ReadPacket. Proof. reflexivity. Qed.
Lemma conn_WritePacket_skel_ok : C07gen.conn_WritePacket = expected_conn_WritePacket. Proof. reflexivity. Qed.
Lemma conn_SetThreshold_skel_ok : C07gen.conn_SetThreshold = expected_conn_SetThreshold. Proof. reflexivity. Qed.
Lemma conn_SetCipher_skel_ok : C07gen.conn_SetCipher = expected_conn_SetCipher. Proof. reflexivity. Qed.
Lemma conn_literals_skel_ok : C07gen.conn_literals = expected_conn_literals. Proof. reflexivity. Qed.

(* ------------------------------------------------------------------ 2. interpretation *)
Definition fvar_idx (v : fvar) : N :=
  match v with
  | VLength => 0 | VPacketID => 1 | Vn => 2 | VlengthOfData => 3 | VPacketLength => 4 | VDataLength => 5
  | Vn2 => 6 | Vn3 => 7 | VpacketLengthLen => 8 | Vthreshold => 9 | VpID => 10 | VlenData => 11
  | VcapData => 12 | VbuffLen => 13
  end.
Definition upd (e : env) (x : fvar) (z : Z) : env := fun v => if fvar_idx v =? fvar_idx x then z else e v.
Definition updo (e : env) (x : option fvar) (z : Z) : env := match x with Some x => upd e x z | None => e end.

(* which reader the Go variable r denotes *)
Inductive rdr := ROuter | RMem (s : list N).

Record st := mkst {
  s_env : env;            (* integer locals and parameters *)
  s_buf : list N;         (* the pooled bytes.Buffer: its unread content *)
  s_zw : list N;          (* zlib writer: bytes written since Reset *)
  s_out : list N;         (* bytes handed to w.Write *)
  s_rdr : rdr;
  s_zr : list N;          (* what the zlib reader created last delivers *)
  s_id : Z; s_data : list N; s_dlen : N; s_dcap : N;   (* p.ID, p.Data, len(p.Data), cap(p.Data) *)
  s_pend : bool }.        (* err was assigned by the previous statement and not looked at yet *)

Definition set_env σ x := mkst x (s_buf σ) (s_zw σ) (s_out σ) (s_rdr σ) (s_zr σ) (s_id σ) (s_data σ) (s_dlen σ) (s_dcap σ) (s_pend σ).
Definition set_buf σ x := mkst (s_env σ) x (s_zw σ) (s_out σ) (s_rdr σ) (s_zr σ) (s_id σ) (s_data σ) (s_dlen σ) (s_dcap σ) (s_pend σ).
Definition set_zw σ x := mkst (s_env σ) (s_buf σ) x (s_out σ) (s_rdr σ) (s_zr σ) (s_id σ) (s_data σ) (s_dlen σ) (s_dcap σ) (s_pend σ).
Definition set_out σ x := mkst (s_env σ) (s_buf σ) (s_zw σ) x (s_rdr σ) (s_zr σ) (s_id σ) (s_data σ) (s_dlen σ) (s_dcap σ) (s_pend σ).
Definition set_rdr σ x := mkst (s_env σ) (s_buf σ) (s_zw σ) (s_out σ) x (s_zr σ) (s_id σ) (s_data σ) (s_dlen σ) (s_dcap σ) (s_pend σ).
Definition set_zr σ x := mkst (s_env σ) (s_buf σ) (s_zw σ) (s_out σ) (s_rdr σ) x (s_id σ) (s_data σ) (s_dlen σ) (s_dcap σ) (s_pend σ).
Definition set_id σ x := mkst (s_env σ) (s_buf σ) (s_zw σ) (s_out σ) (s_rdr σ) (s_zr σ) x (s_data σ) (s_dlen σ) (s_dcap σ) (s_pend σ).
Definition set_data σ x := mkst (s_env σ) (s_buf σ) (s_zw σ) (s_out σ) (s_rdr σ) (s_zr σ) (s_id σ) x (s_dlen σ) (s_dcap σ) (s_pend σ).
Definition set_dlen σ x := mkst (s_env σ) (s_buf σ) (s_zw σ) (s_out σ) (s_rdr σ) (s_zr σ) (s_id σ) (s_data σ) x (s_dcap σ) (s_pend σ).
Definition set_dcap σ x := mkst (s_env σ) (s_buf σ) (s_zw σ) (s_out σ) (s_rdr σ) (s_zr σ) (s_id σ) (s_data σ) (s_dlen σ) x (s_pend σ).
Definition set_pend σ x := mkst (s_env σ) (s_buf σ) (s_zw σ) (s_out σ) (s_rdr σ) (s_zr σ) (s_id σ) (s_data σ) (s_dlen σ) (s_dcap σ) x.

(* the environment an expression sees: locals, plus p.ID, len / cap of p.Data and buff.Len() *)
Definition look (σ : st) : env := fun v =>
  match v with
  | VpID => s_id σ
  | VlenData => Z.of_N (s_dlen σ)
  | VcapData => Z.of_N (s_dcap σ)
  | VbuffLen => Z.of_N (lenN (s_buf σ))
  | _ => s_env σ v
  end.

Definition pUnchecked : N := 90.    (* an error value was dropped *)
Definition pStuck : N := 91.        (* a statement in a state this interpreter gives no meaning to *)

(* fmt.Errorf format -> error class of Model/C07.v (only the class ok / err / panic is observable) *)
Definition err_of (f : String.string) : N :=
  if String.eqb f "uncompressed packet error: length is %d"%string then eLength
  else if String.eqb f "compressed packet error: size of %d is below threshold of %d"%string then eThreshold
  else if String.eqb f "compressed packet error: size of %d is larger than protocol maximum of %d"%string then eTooLarge
  else if String.eqb f "compressed packet error: size of %d is smaller than the packet id"%string then eBelowId
  else 0.

Section Seq.
Context {S K : Type}.
Variable f : S -> K -> K.
Fixpoint seq (l : list S) (k : K) : K := match l with [] => k | x :: t => f x (seq t k) end.
End Seq.

Section Exec.
Variable deflate : list N -> list N.
Variable inflate : list N -> option (list N).
Variable pool : list N.          (* what bufPool.Get() hands out *)
Context {R : Type}.

(* a read through r *)
Definition rd {A} (d : dec A) (σ : st) (k : A -> st -> dec R) : dec R :=
  match s_rdr σ with
  | ROuter => a <- d ;; k a σ
  | RMem s => sub d s (fun a r => k a (set_rdr σ (RMem r)))
  end.

(* ret: what `return` continues with; k: the statements that follow *)
Fixpoint exec (s : sem_stmt) (ret k : st -> dec R) (σ : st) {struct s} : dec R :=
  if s_pend σ then
    match s with
    | FErrCheck => k (set_pend σ false)
    | FReturnErr => ret (set_pend σ false)
    | _ => Crash pUnchecked
    end
  else
  match s with
  | FPoolGet _ => k (set_buf σ pool)
  | FDefer _ => k σ
  | FZGet => k σ
  | FReset => k (set_buf σ [])
  | FVar v => k (set_env σ (upd (s_env σ) v 0%Z))
  | FLet v _ e => k (set_env σ (upd (s_env σ) v (e (look σ))))
  | FReadVarInt v n =>
      rd read32 σ (fun xc σ' => k (set_pend (set_env σ' (upd (updo (s_env σ') n (Z.of_N (snd xc))) v (fst xc))) true))
  | FErrCheck => k σ
  | FBufVarInt _ e => k (set_buf σ (s_buf σ ++ write32 (e (look σ))))
  | FBufData => k (set_buf σ (s_buf σ ++ s_data σ))
  | FBufZeros _ e =>
      let z := e (look σ) in
      if (z <? 0)%Z then Crash pSlice else k (set_buf σ (s_buf σ ++ repeat 0 (Z.to_nat z)))
  | FCompress body => seq (fun x k' => exec x k k') body (fun _ => Crash pStuck) σ
  | FZReset => k (set_zw σ [])
  | FZVarInt _ e => k (set_zw σ (s_zw σ ++ write32 (e (look σ))))
  | FZData => k (set_zw σ (s_zw σ ++ s_data σ))
  | FZClose => ret (set_buf σ (s_buf σ ++ deflate (s_zw σ)))
  | FBufNext _ e =>
      let z := e (look σ) in
      if (z <? 0)%Z then Crash pSlice else k (set_buf σ (dropN (Z.to_N z) (s_buf σ)))
  | FBufPatch _ e _ l =>
      let src := write32 (e (look σ)) in
      let z := l (look σ) in
      if (z <? 0)%Z || (Z.of_N (lenN (s_buf σ)) <? z)%Z || (z <? Z.of_N (lenN src))%Z then Crash pSlice
      else k (set_buf σ (overwrite src (s_buf σ)))
  | FFlush => k (set_pend (set_out σ (s_out σ ++ s_buf σ)) true)
  | FReturnErr => Crash pStuck
  | FReturnNil => ret σ
  | FReturnErrorf f => Fail (err_of f)
  | FIf _ c th el =>
      if c (look σ) then seq (fun x k' => exec x ret k') th k σ else seq (fun x k' => exec x ret k') el k σ
  | FSetID _ e => k (set_id σ (e (look σ)))
  | FMake _ e =>
      let z := e (look σ) in
      if (z <? 0)%Z then Crash pSlice else k (set_dlen (set_dcap σ (Z.to_N z)) (Z.to_N z))
  | FReslice _ e =>
      let z := e (look σ) in
      if (z <? 0)%Z || (Z.of_N (s_dcap σ) <? z)%Z then Crash pSlice else k (set_dlen σ (Z.to_N z))
  | FReadFull => rd (ReadFull (s_dlen σ) (fun bs => Ret bs)) σ (fun bs σ' => k (set_pend (set_data σ' bs) true))
  | FCopyN _ e =>
      match s_rdr σ with
      | ROuter => ReadFull (Z.to_N (e (look σ))) (fun got => k (set_pend (set_buf σ (s_buf σ ++ got)) true))
      | RMem _ => Crash pStuck
      end
  | FReaderOfBuf => k (set_rdr σ (RMem (s_buf σ)))
  | FZlibReader =>
      match s_rdr σ with
      | RMem s => match inflate s with
                  | None => Fail eZlib
                  | Some out => k (set_pend (set_zr σ out) true)
                  end
      | ROuter => Crash pStuck
      end
  | FReaderZ => k (set_rdr σ (RMem (s_zr σ)))
  | FTail _ => Crash pStuck
  end.

Definition run_body (body : list sem_stmt) (fin : st -> dec R) (σ : st) : dec R :=
  seq (fun x k' => exec x fin k') body (fun _ => Crash pStuck) σ.

(* Pack / UnPack: `if threshold >= 0 { return p.a(...) } else { return p.b(...) }` *)
Definition run_top (top : list sem_stmt) (fns : String.string -> list sem_stmt) (fin : st -> dec R) (σ : st) : dec R :=
  match top with
  | [FIf _ c [FTail a] [FTail b]] => if c (look σ) then run_body (fns a) fin σ else run_body (fns b) fin σ
  | _ => Crash pStuck
  end.
End Exec.

Definition sigma0 (thr id : Z) (data : list N) (dlen dcap : N) : st :=
  mkst (upd (fun _ => 0%Z) Vthreshold thr) [] [] [] ROuter [] id data dlen dcap false.

Definition fns (name : String.string) : list sem_stmt :=
  if String.eqb name "packWithCompression"%string then C07gen.packWithCompression
  else if String.eqb name "packWithoutCompression"%string then C07gen.packWithoutCompression
  else if String.eqb name "unpackWithCompression"%string then C07gen.unpackWithCompression
  else if String.eqb name "unpackWithoutCompression"%string then C07gen.unpackWithoutCompression
  else [].

(* p.Pack(w, thr) on p = (id, data): the bytes handed to w *)
Definition interp_pack (deflate : list N -> list N) (thr : Z) (pool : list N) (p : packet) : dec (list N) :=
  run_top deflate (fun _ => None) pool C07gen.Pack fns (fun σ => Ret (s_out σ))
          (sigma0 thr (fst p) (snd p) (lenN (snd p)) (lenN (snd p))).

(* p.UnPack(r, thr) where *p is `old` *)
Definition interp_unpack (inflate : list N -> option (list N)) (thr : Z) (pool : list N) (old : rstate) : dec rstate :=
  run_top (fun x => x) inflate pool C07gen.UnPack fns
          (fun σ => Ret {| r_id := s_id σ; r_data := s_data σ; r_cap := s_dcap σ |})
          (sigma0 thr (r_id old) (r_data old) (lenN (r_data old)) (r_cap old)).

(* ------------------------------------------------------------------ 3a. the translated expressions *)
Local Open Scope Z_scope.

Lemma wrap_s32_vi z : wrap_s 32 z = vi z.
Proof.
  unfold vi, sx32, sx, u32, wrapu, wrap_s.
  change (Z.of_N 32) with 32. change (2 ^ (32 - 1))%N with 2147483648%N.
  change (2 ^ (32 - 1)) with 2147483648. change (2 ^ 32) with 4294967296.
  assert (H : 0 <= z mod 4294967296 < 4294967296) by (apply Z.mod_pos_bound; lia).
  rewrite Z2N.id by lia.
  destruct (N.ltb_spec (Z.to_N (z mod 4294967296)) 2147483648) as [L|L]; lia.
Qed.
Lemma ws64 z : -9223372036854775808 <= z < 9223372036854775808 -> wrap_s 64 z = z.
Proof. intros H. apply wrap_s_id; [lia|]. change (2 ^ (64 - 1)) with 9223372036854775808. lia. Qed.
Lemma ws32 z : in_sw 32 z -> wrap_s 32 z = z.
Proof. intros H. apply (proj1 (in_sw32_iff _)) in H. apply wrap_s_id; [lia|]. change (2 ^ (32 - 1)) with 2147483648. lia. Qed.
Lemma len32_z v : 1 <= Z.of_N (len32 v) <= 5.
Proof. pose proof (len32_bounds v). lia. Qed.

(* header arithmetic of Pack *)
Lemma tie_plain_Length id n : in_sw 32 id -> 0 <= n < 2 ^ 62 ->
  c07_packWithoutCompression_Length id n = vi (Z.of_N (len32 id) + n).
Proof.
  intros Hid Hn. unfold c07_packWithoutCompression_Length. change (2 ^ 62) with 4611686018427387904 in Hn.
  rewrite (ws32 id Hid), tie_VarInt_Len. pose proof (len32_z id).
  rewrite ws64 by lia. apply wrap_s32_vi.
Qed.
Lemma tie_below_PacketLength dl pid n : 0 <= n < 2 ^ 62 ->
  c07_packWithCompression_PacketLength dl pid n = vi (Z.of_N (len32 dl) + Z.of_N (len32 pid) + n).
Proof.
  intros Hn. unfold c07_packWithCompression_PacketLength. change (2 ^ 62) with 4611686018427387904 in Hn.
  rewrite !tie_VarInt_Len. pose proof (len32_z dl). pose proof (len32_z pid).
  rewrite (ws64 (_ + Z.of_N (len32 pid))) by lia. rewrite ws64 by lia. apply wrap_s32_vi.
Qed.
Lemma tie_zlib_DataLength pid n : 0 <= n < 2 ^ 62 ->
  c07_packWithCompression_DataLength_1 pid n = vi (Z.of_N (len32 pid) + n).
Proof.
  intros Hn. unfold c07_packWithCompression_DataLength_1. change (2 ^ 62) with 4611686018427387904 in Hn.
  rewrite tie_VarInt_Len. pose proof (len32_z pid). rewrite ws64 by lia. apply wrap_s32_vi.
Qed.
Lemma tie_zlib_PacketLength b : 0 <= b < 2 ^ 63 ->
  c07_packWithCompression_PacketLength_1 b = vi (b - packet_MaxVarIntLen).
Proof.
  intros Hb. unfold c07_packWithCompression_PacketLength_1. change (2 ^ 63) with 9223372036854775808 in Hb.
  change packet_MaxVarIntLen with 5. rewrite ws64 by lia. apply wrap_s32_vi.
Qed.
Lemma tie_packetLengthLen x : c07_packWithCompression_packetLengthLen x = Z.of_N (len32 x).
Proof. apply tie_VarInt_Len. Qed.
Lemma tie_next l : 1 <= l <= 5 -> c07_packWithCompression_next l = packet_MaxVarIntLen - l.
Proof. intros H. unfold c07_packWithCompression_next. change packet_MaxVarIntLen with 5. apply ws64. lia. Qed.
Lemma tie_padding : c07_packWithCompression_padding = packet_MaxVarIntLen.
Proof. reflexivity. Qed.

(* length arithmetic and checks of UnPack *)
Lemma tie_lengthOfData L n : in_sw 32 L -> 0 <= n <= 5 ->
  c07_unpackWithoutCompression_lengthOfData L n = L - n.
Proof.
  intros HL Hn. apply (proj1 (in_sw32_iff _)) in HL. unfold c07_unpackWithoutCompression_lengthOfData.
  rewrite (ws64 L), (ws64 n) by lia. apply ws64. lia.
Qed.
Lemma tie_plain_check x :
  c07_unpackWithoutCompression_cond x = (x <? 0) || (packet_MaxDataLength <? x).
Proof. reflexivity. Qed.
Lemma tie_copy_count PL : in_sw 32 PL -> c07_unpackWithCompression_copy_count PL = PL.
Proof. intros H. apply (proj1 (in_sw32_iff _)) in H. apply ws64. lia. Qed.
Lemma tie_nonzero DL : c07_unpackWithCompression_cond DL = negb (DL =? 0).
Proof. reflexivity. Qed.
Lemma tie_threshold_check DL thr : in_sw 32 DL -> c07_unpackWithCompression_cond_1 DL thr = (DL <? thr).
Proof. intros H. apply (proj1 (in_sw32_iff _)) in H. unfold c07_unpackWithCompression_cond_1. rewrite ws64 by lia. reflexivity. Qed.
Lemma tie_max_check DL : c07_unpackWithCompression_cond_2 DL = (packet_MaxDataLength <? DL).
Proof. reflexivity. Qed.
Lemma tie_below_id_check DL n3 : in_sw 32 DL -> c07_unpackWithCompression_cond_3 DL n3 = (DL <? n3).
Proof. intros H. apply (proj1 (in_sw32_iff _)) in H. unfold c07_unpackWithCompression_cond_3. rewrite ws64 by lia. reflexivity. Qed.
Lemma tie_inner_DataLength DL n3 : 0 <= n3 <= 5 -> c07_unpackWithCompression_DataLength DL n3 = vi (DL - n3).
Proof.
  intros H. unfold c07_unpackWithCompression_DataLength. rewrite (ws32 n3); [apply wrap_s32_vi|].
  apply in_sw32_iff. lia.
Qed.
Lemma tie_plain_DataLength PL n2 n3 : in_sw 32 PL -> 0 <= n2 <= 5 -> 0 <= n3 <= 5 ->
  c07_unpackWithCompression_DataLength_1 PL n2 n3 = vi (PL - n2 - n3).
Proof.
  intros H H2 H3. apply (proj1 (in_sw32_iff _)) in H. unfold c07_unpackWithCompression_DataLength_1.
  rewrite (ws64 PL) by lia. rewrite (ws64 (PL - n2)) by lia. rewrite ws64 by lia. apply wrap_s32_vi.
Qed.
Lemma tie_sizes x : -9223372036854775808 <= x < 9223372036854775808 ->
  c07_unpackWithoutCompression_make_len x = x /\ c07_unpackWithoutCompression_slice_len x = x /\
  c07_unpackWithCompression_make_len x = x /\ c07_unpackWithCompression_slice_len x = x.
Proof. intros H. repeat split; apply ws64; exact H. Qed.
Lemma tie_cap_check c x : -9223372036854775808 <= x < 9223372036854775808 ->
  c07_unpackWithCompression_cond_4 c x = (c <? x) /\ c07_unpackWithoutCompression_cond_1 c x = (c <? x).
Proof. intros H. unfold c07_unpackWithCompression_cond_4. rewrite ws64 by exact H. split; reflexivity. Qed.
Lemma tie_id x : in_sw 32 x -> c07_unpackWithCompression_id x = x /\ c07_unpackWithoutCompression_id x = x.
Proof. intros H. split; apply ws32; exact H. Qed.

(* ------------------------------------------------------------------ 3b. Pack *)
Ltac run_skel :=
  cbv beta iota zeta delta [interp_pack interp_unpack run_top run_body fns seq exec rd
    C07gen.Pack C07gen.UnPack C07gen.packWithCompression C07gen.packWithoutCompression
    C07gen.unpackWithCompression C07gen.unpackWithoutCompression
    String.eqb Ascii.eqb Bool.eqb err_of
    sigma0 look upd updo fvar_idx N.eqb Pos.eqb
    set_env set_buf set_zw set_out set_rdr set_zr set_id set_data set_dlen set_dcap set_pend
    s_env s_buf s_zw s_out s_rdr s_zr s_id s_data s_dlen s_dcap s_pend].

Lemma interp_pack_is_model deflate thr pool id data :
  in_sw 32 id -> Z.of_N (lenN data) < 2 ^ 62 -> Z.of_N (lenN (deflate (write32 id ++ data))) < 2 ^ 62 ->
  interp_pack deflate thr pool (id, data) = Ret (pack deflate thr pool (id, data)).
Proof.
  intros Hid Hn Hz.
  run_skel. cbn [fst snd].
  unfold c07_packWithCompression_write, c07_packWithCompression_write_1, c07_packWithCompression_write_2,
    c07_packWithCompression_write_3, c07_packWithoutCompression_write, c07_packWithoutCompression_write_1,
    c07_packWithCompression_PacketID, c07_compressPacket_zwrite, c07_packWithCompression_patch_value,
    c07_packWithCompression_patch_len, c07_packWithCompression_DataLength, c07_Pack_cond,
    c07_packWithCompression_cond.
  rewrite !(ws32 id Hid). pose proof (N2Z.is_nonneg (lenN data)) as Hn0.
  rewrite tie_plain_Length, tie_below_PacketLength, !tie_zlib_DataLength by (try exact Hid; lia).
  rewrite tie_padding. rewrite !app_nil_l.
  unfold pack, pack_comp, pack_plain, buf_reset. rewrite !app_nil_l.
  destruct (0 <=? thr); [|rewrite <- !app_assoc; reflexivity].
  destruct (Z.of_N (lenN data) <? thr); [rewrite <- !app_assoc; reflexivity|].
  change (packet_MaxVarIntLen <? 0) with false. cbv iota.
  set (DL := vi (Z.of_N (len32 id) + Z.of_N (lenN data))).
  set (B := (repeat 0%N (Z.to_nat packet_MaxVarIntLen) ++ write32 DL) ++ deflate (write32 id ++ data)).
  assert (HB : 6 <= Z.of_N (lenN B) < 2 ^ 63).
  { assert (E : lenN B = (5 + len32 DL + lenN (deflate (write32 id ++ data)))%N).
    { unfold B. rewrite !lenN_app. rewrite (write32_len DL) by apply vi_range. reflexivity. }
    rewrite E. pose proof (len32_z DL). change (2 ^ 62) with 4611686018427387904 in Hz.
    change (2 ^ 63) with 9223372036854775808. lia. }
  rewrite !tie_zlib_PacketLength by lia. rewrite !tie_packetLengthLen.
  set (PL := vi (Z.of_N (lenN B) - packet_MaxVarIntLen)).
  pose proof (len32_z PL) as Hl. rewrite !tie_next by exact Hl.
  rewrite (write32_len PL) by apply vi_range.
  change packet_MaxVarIntLen with 5 in *.
  assert (Hd : lenN (dropN (Z.to_N (5 - Z.of_N (len32 PL))) B) = (lenN B - Z.to_N (5 - Z.of_N (len32 PL)))%N).
  { unfold lenN, dropN. rewrite skipn_length. lia. }
  rewrite Hd.
  destruct (Z.ltb_spec (5 - Z.of_N (len32 PL)) 0) as [C|_]; [lia|].
  destruct (Z.ltb_spec (Z.of_N (len32 PL)) 0) as [C|_]; [lia|].
  destruct (Z.ltb_spec (Z.of_N (lenN B - Z.to_N (5 - Z.of_N (len32 PL)))) (Z.of_N (len32 PL))) as [C|_]; [lia|].
  rewrite Z.ltb_irrefl. reflexivity.
Qed.

(* ------------------------------------------------------------------ 3c. UnPack *)
Lemma sub_run {A B} (d : dec A) s (k : A -> list N -> dec B) t :
  run_flat (sub d s k) t =
  match run_flat d s with
  | FOk a r => run_flat (k a r) t
  | FErr e => FErr e | FPanic w => FPanic w | FFuel => FFuel
  end.
Proof. unfold sub. destruct (run_flat d s); reflexivity. Qed.

(* `if cap(p.Data) < n { p.Data = make([]byte, n) } else { p.Data = p.Data[:n] }` as interpreted = resize *)
Lemma resize_split {A} old n (F : N -> dec A) :
  (if Z.of_N (r_cap old) <? n
   then (if n <? 0 then Crash pSlice else F (Z.to_N n))
   else if (n <? 0) || (Z.of_N (r_cap old) <? n) then Crash pSlice else F (r_cap old))
  = (cap' <- resize old n ;; F cap').
Proof.
  unfold resize. destruct (Z.ltb_spec (Z.of_N (r_cap old)) n) as [C|C].
  - destruct (Z.ltb_spec n 0); [lia|]. reflexivity.
  - destruct (Z.ltb_spec n 0); reflexivity.
Qed.

Lemma read32_range' s v n r : run_flat read32 s = FOk (v, n) r -> in_sw 32 v.
Proof. exact (read32_range (fun x => x) (fun _ => None) (fun _ => None) s v n r). Qed.

Ltac step_read s v n r C Rg :=
  pose proof (read32_cap s) as C; pose proof (read32_range' s) as Rg;
  destruct (run_flat read32 s) as [[v n] r| | |]; try reflexivity; try contradiction;
  specialize (Rg _ _ _ eq_refl); apply (proj1 (in_sw32_iff _)) in Rg; cbn [fst snd]; cbv beta iota.

Lemma interp_unpack_is_model inflate thr pool old s :
  run_flat (interp_unpack inflate thr pool old) s = run_flat (unpack inflate thr pool old) s.
Proof.
  run_skel. unfold c07_UnPack_cond, unpack.
  destruct (0 <=? thr).
  - unfold unpack_comp. rewrite !run_flat_bind by apply read32_robust.
    step_read s PL n0 s1 C0 R0.
    rewrite tie_copy_count by (apply in_sw32_iff; lia).
    cbn [run_flat]. destruct (_ <=? _)%N; [|reflexivity].
    unfold buf_reset. rewrite !app_nil_l. rewrite !sub_run.
    set (buff := takeN (Z.to_N PL) s1).
    step_read buff DL n2 r1 C1 R1.
    rewrite tie_nonzero. destruct (negb (DL =? 0)).
    + rewrite tie_threshold_check by (apply in_sw32_iff; lia).
      destruct (DL <? thr); [reflexivity|].
      rewrite tie_max_check. destruct (packet_MaxDataLength <? DL); [reflexivity|].
      destruct (inflate r1) as [out|]; [|reflexivity].
      rewrite !sub_run. step_read out pid n3 out' C2 R2.
      rewrite tie_below_id_check by (apply in_sw32_iff; lia).
      destruct (DL <? Z.of_N n3); [reflexivity|].
      rewrite !tie_inner_DataLength by lia.
      set (n := vi (DL - Z.of_N n3)).
      assert (Hn : -9223372036854775808 <= n < 9223372036854775808).
      { pose proof (proj1 (in_sw32_iff _) (vi_range (DL - Z.of_N n3))). unfold n. lia. }
      destruct (tie_sizes n Hn) as (_ & _ & -> & ->). rewrite (proj1 (tie_cap_check _ n Hn)).
      rewrite (proj1 (tie_id pid ltac:(apply in_sw32_iff; lia))).
      unfold read_data.
      rewrite <- (resize_split old n (fun c => sub (ReadFull (Z.to_N n) (fun bs => Ret bs)) out'
                    (fun bs _ => Ret {| r_id := pid; r_data := bs; r_cap := c |}))).
      reflexivity.
    + rewrite !sub_run. step_read r1 pid n3 r2 C2 R2.
      rewrite !tie_plain_DataLength by (try apply in_sw32_iff; lia).
      set (n := vi (PL - Z.of_N n2 - Z.of_N n3)).
      assert (Hn : -9223372036854775808 <= n < 9223372036854775808).
      { pose proof (proj1 (in_sw32_iff _) (vi_range (PL - Z.of_N n2 - Z.of_N n3))). unfold n. lia. }
      destruct (tie_sizes n Hn) as (_ & _ & -> & ->). rewrite (proj1 (tie_cap_check _ n Hn)).
      rewrite (proj1 (tie_id pid ltac:(apply in_sw32_iff; lia))).
      unfold read_data.
      rewrite <- (resize_split old n (fun c => sub (ReadFull (Z.to_N n) (fun bs => Ret bs)) r2
                    (fun bs _ => Ret {| r_id := pid; r_data := bs; r_cap := c |}))).
      reflexivity.
  - unfold unpack_plain. rewrite !run_flat_bind by apply read32_robust.
    step_read s L n0 s1 C0 R0.
    rewrite !run_flat_bind by apply read32_robust.
    step_read s1 pid n s2 C1 R1.
    rewrite !tie_lengthOfData by (try apply in_sw32_iff; lia).
    rewrite tie_plain_check.
    set (lod := L - Z.of_N n).
    destruct ((lod <? 0) || (packet_MaxDataLength <? lod)); [reflexivity|].
    assert (Hn : -9223372036854775808 <= lod < 9223372036854775808) by (unfold lod; lia).
    destruct (tie_sizes lod Hn) as (-> & -> & _ & _). rewrite (proj2 (tie_cap_check _ lod Hn)).
    rewrite (proj2 (tie_id pid ltac:(apply in_sw32_iff; lia))).
    cbn [bind].
    rewrite <- (resize_split old lod (fun c => ReadFull (Z.to_N lod)
                  (fun bs => Ret {| r_id := pid; r_data := bs; r_cap := c |}))).
    reflexivity.
Qed.

(* the round trip, stated of the interpreted translation itself *)
Lemma roundtrip_translated (deflate : list N -> list N) (inflate : list N -> option (list N))
  (thr : Z) (pool pool' : list N) (old : rstate) (p : packet) (rest : list N) :
  zlib_inverse deflate inflate -> zlib_fits deflate -> in_domain p ->
  exists frame, interp_pack deflate thr pool p = Ret frame /\
    run_flat (interp_unpack inflate thr pool' old) (frame ++ rest) = FOk (received old p) rest.
Proof.
  destruct p as [id data]. intros Hz Hf Hd.
  exists (pack deflate thr pool (id, data)). split.
  - destruct Hd as [Hid Hn]. cbn [fst snd] in *. change packet_MaxDataLength with 2097152 in Hn.
    pose proof (len32_z id) as HB.
    apply interp_pack_is_model; [exact Hid| |].
    + change (2 ^ 62) with 4611686018427387904. lia.
    + assert (L : Z.of_N (lenN (write32 id ++ data)) <= 2097152).
      { rewrite lenN_app, write32_len by exact Hid. lia. }
      pose proof (Hf _ L). change (2 ^ 62) with 4611686018427387904. lia.
  - rewrite interp_unpack_is_model.
    exact (roundtrip deflate inflate inflate thr pool pool' old (id, data) rest Hz Hf Hd).
Qed.
