(* C07 proofs, part 2: the receiver's VarInt reader agrees with the specification's reader on every
   byte string (also non-canonical encodings), so the rejection clause can be stated against the
   independent header reader *)
From Coq Require Import List Arith NArith ZArith Lia Bool ZifyN ZifyNat ZifyBool.
From GoMC Require Import Base.Bytes Base.Bits Base.Dec Gen.Consts Model.C05 Proofs.C05 Model.C07 Proofs.C07.
Import ListNotations.
Open Scope N_scope.
Ltac Zify.zify_post_hook ::= Z.div_mod_to_equations.

Lemma land127 b : N.land b 127 = b mod 128.
Proof. change 127 with (N.ones 7). rewrite N.land_ones. reflexivity. Qed.

Lemma land128_small b : b < 128 -> N.land b 128 = 0.
Proof.
  intros H. change 128 with (1 * 2^7). apply land_disjoint. change (2^7) with 128. exact H.
Qed.

Lemma land128_big b : 128 <= b -> b < 256 -> N.land b 128 <> 0.
Proof.
  intros H1 H2 E.
  assert (T : N.testbit (N.land b 128) 7 = false) by (rewrite E; apply N.bits_0).
  rewrite N.land_spec in T. change (N.testbit 128 7) with true in T. rewrite andb_true_r in T.
  replace b with ((b - 128) + 1 * 2^7) in T by (change (2^7) with 128; lia).
  rewrite <- lor_add_disjoint in T by (change (2^7) with 128; lia).
  rewrite N.lor_spec in T. change (N.testbit (1 * 2^7) 7) with true in T.
  rewrite orb_true_r in T. discriminate.
Qed.

(* one accumulation step of VarInt.ReadFrom *)
Lemma acc_step_small acc b k : 7 + k <= 32 -> acc < 2^k -> b < 128 ->
  N.lor acc ((b * 2^k) mod 2^32) = (acc + b * 2^k) mod 2^32.
Proof.
  intros Hk Ha Hb. pose proof (pow2_pos k) as P.
  assert (B : b * 2^k < 2^(7+k)). { rewrite N.pow_add_r. change (2^7) with 128. nia. }
  assert (M : 2^(7+k) <= 2^32) by (apply N.pow_le_mono_r; lia).
  assert (A : acc + b * 2^k < 2^(7+k)). { rewrite N.pow_add_r. change (2^7) with 128. nia. }
  rewrite !N.mod_small by lia. apply lor_add_disjoint; exact Ha.
Qed.

Lemma acc_step acc b num : num <= 4 -> acc < 2^(7*num) -> b < 128 ->
  N.lor acc (N.shiftl b (7 * num) mod 2^32) = (acc + b * 2^(7*num)) mod 2^32.
Proof.
  intros Hn Ha Hb. rewrite N.shiftl_mul_pow2.
  destruct (N.eq_dec num 4) as [->|Hne].
  - change (7*4) with 28 in *.
    assert (E1 : b * 2^28 mod 2^32 = (b mod 16) * 2^28).
    { change (2^28) with 268435456. change (2^32) with 4294967296. lia. }
    rewrite E1. rewrite lor_add_disjoint by exact Ha.
    change (2^28) with 268435456 in *. change (2^32) with 4294967296. lia.
  - apply acc_step_small; auto. lia.
Qed.

Lemma read_var_spec : forall k s acc num fuel g r,
  num + N.of_nat k = 5 -> (k < fuel)%nat -> acc < 2^(7*num) -> all_bytes s ->
  spec_groups k s = Some (g, r) ->
  run_flat (read_var 32 5 fuel acc num) s
  = FOk ((acc + leb_val g * 2^(7*num)) mod 2^32, num + lenN g) r.
Proof.
  induction k as [|k IH]; intros s acc num fuel g r Hk Hf Ha Hs H; [discriminate|].
  destruct fuel as [|fuel]; [lia|].
  destruct s as [|b t]; [discriminate|]. cbn [spec_groups] in H.
  inversion Hs as [|? ? Hb Ht]; subst. unfold is_byte in Hb.
  cbn [read_var]. assert ((5 <=? num) = false) as -> by lia. cbn [run_flat].
  rewrite land127.
  assert (E7 : 2 ^ (7 * (num + 1)) = 128 * 2 ^ (7 * num)).
  { replace (7 * (num + 1)) with (7 + 7 * num) by lia. rewrite N.pow_add_r. reflexivity. }
  pose proof (pow2_pos (7 * num)) as P.
  destruct (N.ltb_spec b 128) as [L|L].
  - inversion H; subst. rewrite land128_small by exact L. cbn [N.eqb run_flat].
    rewrite acc_step by (auto; lia). cbn [leb_val]. unfold lenN. cbn [length].
    rewrite N.mul_0_r, N.add_0_r. reflexivity.
  - destruct (spec_groups k t) as [[g' r']|] eqn:E; [|discriminate]. inversion H; subst.
    assert (Hb8 : (N.land b 128 =? 0) = false) by (apply N.eqb_neq; apply land128_big; auto).
    rewrite Hb8.
    destruct k as [|k']; [destruct t; discriminate E|].
    rewrite acc_step by lia.
    assert (A1 : acc + b mod 128 * 2 ^ (7 * num) < 2 ^ (7 * (num + 1))) by (rewrite E7; nia).
    assert (M : 2 ^ (7 * (num + 1)) <= 2 ^ 32) by (apply N.pow_le_mono_r; lia).
    rewrite (N.mod_small (acc + b mod 128 * 2 ^ (7 * num))) by lia.
    rewrite (IH t _ (num + 1) fuel g' r) by (first [exact A1 | exact Ht | exact E | lia]).
    cbn [leb_val]. rewrite lenN_cons. f_equal. f_equal; [|lia].
    f_equal. rewrite E7. lia.
Qed.

Lemma read32_of_spec s v r : all_bytes s -> spec_varint s = Some (v, r) ->
  exists n, run_flat read32 s = FOk (v, n) r.
Proof.
  intros Hs H. unfold spec_varint in H.
  destruct (spec_groups 5 s) as [[g r']|] eqn:E; [|discriminate]. inversion H; subst.
  exists (0 + lenN g). unfold read32. rewrite run_flat_bind by apply read_var_robust.
  rewrite max_varint_len. change (Z.to_N 5) with 5.
  rewrite (read_var_spec 5 s 0 0 12 g r) by (first [exact Hs | exact E | reflexivity | lia]).
  cbn [run_flat]. change (2 ^ (7 * 0)) with 1. rewrite N.add_0_l, N.mul_1_r. reflexivity.
Qed.

Lemma spec_groups_suffix : forall k s g r, spec_groups k s = Some (g, r) -> s = g ++ r.
Proof.
  induction k as [|k IH]; intros s g r H; [discriminate|].
  destruct s as [|b t]; [discriminate|]. cbn [spec_groups] in H.
  destruct (b <? 128); [inversion H; reflexivity|].
  destruct (spec_groups k t) as [[g' r']|] eqn:E; [|discriminate]. inversion H; subst.
  cbn [app]. f_equal. apply IH. exact E.
Qed.

Lemma spec_varint_rest_bytes s v r : all_bytes s -> spec_varint s = Some (v, r) -> all_bytes r.
Proof.
  intros Hs H. unfold spec_varint in H.
  destruct (spec_groups 5 s) as [[g r']|] eqn:E; [|discriminate]. inversion H; subst.
  apply spec_groups_suffix in E. subst s. unfold all_bytes in *. apply Forall_app in Hs. tauto.
Qed.

Lemma takeN_bytes n s : all_bytes s -> all_bytes (takeN n s).
Proof.
  intros Hs. unfold all_bytes, takeN in *.
  rewrite <- (firstn_skipn (N.to_nat n) s) in Hs. apply Forall_app in Hs. tauto.
Qed.

(* the rejection clause against the specification's own header reader, for every byte string *)
Theorem reject_spec (inflate : list N -> option (list N)) thr pool old s :
  all_bytes s ->
  match spec_varint s with
  | Some (L, s1) =>
      if (thr <? 0)%Z then
        match spec_varint s1 with
        | Some (_, s2) =>
            let n := Z.of_N (lenN s1 - lenN s2) in (L - n < 0 \/ L - n > 2097152)%Z
        | None => False
        end
      else
        Z.to_N L <= lenN s1 /\
        match spec_varint (takeN (Z.to_N L) s1) with
        | Some (DL, _) => declared_bad thr DL
        | None => False
        end
  | None => False
  end ->
  is_err (run_flat (unpack inflate thr pool old) s) = true.
Proof.
  intros Hs H. apply (reject (fun x => x) inflate inflate).
  destruct (spec_varint s) as [[L s1]|] eqn:E1; [|contradiction].
  pose proof (spec_varint_rest_bytes _ _ _ Hs E1) as Hs1.
  destruct (read32_of_spec _ _ _ Hs E1) as [n0 R1]. rewrite R1.
  destruct (thr <? 0)%Z.
  - destruct (spec_varint s1) as [[id s2]|] eqn:E2; [|contradiction].
    destruct (read32_of_spec _ _ _ Hs1 E2) as [n R2]. rewrite R2.
    pose proof (read32_cap s1) as C. rewrite R2 in C. cbv zeta in H.
    replace (Z.of_N n) with (Z.of_N (lenN s1 - lenN s2)) by lia. exact H.
  - destruct H as [Hl H]. split; [exact Hl|].
    destruct (spec_varint (takeN (Z.to_N L) s1)) as [[DL r1]|] eqn:E2; [|contradiction].
    destruct (read32_of_spec _ _ _ (takeN_bytes _ _ Hs1) E2) as [n2 R2]. rewrite R2. exact H.
Qed.
