(* C08 proofs, part 1: the command dispatcher returns a value or an error on EVERY command line, for
   every well-formed graph - never Crash, never NoFuel.  Termination: the root step consumes nothing
   and is taken once (a child index 0 is answered with an error); every later step strictly
   shortens the command line. *)
From Coq Require Import List Arith NArith ZArith Lia Bool ZifyN ZifyNat ZifyBool.
From GoMC Require Import Base.Bytes Base.Dec Model.C08.
Import ListNotations.
Open Scope N_scope.

(* ---------------------------------------------------------------- TrimSpace *)
Lemma trim_left_len l : (length (trim_left l) <= length l)%nat.
Proof. induction l as [|c t IH]; cbn [trim_left]; [lia|]. destruct (is_space c); cbn [length] in *; lia. Qed.
Lemma trim_right_len l : (length (trim_right l) <= length l)%nat.
Proof.
  induction l as [|c t IH]; cbn [trim_right]; [lia|].
  destruct (trim_right t); [destruct (is_space c)|]; cbn [length] in *; lia.
Qed.
Lemma trim_len l : (length (trim l) <= length l)%nat.
Proof. unfold trim. pose proof (trim_right_len (trim_left l)). pose proof (trim_left_len l). lia. Qed.

Lemma trim_left_head l c t : trim_left l = c :: t -> is_space c = false.
Proof.
  induction l as [|a l IH]; cbn [trim_left]; [discriminate|].
  destruct (is_space a) eqn:E; [exact IH|]. intros H. inversion H; subst. exact E.
Qed.
Lemma trim_right_head l c t : trim_right l = c :: t -> exists t0, l = c :: t0.
Proof.
  destruct l as [|a l]; cbn [trim_right]; [discriminate|].
  destruct (trim_right l); [destruct (is_space a); [discriminate|]|]; intros H; inversion H; subst; eauto.
Qed.
Lemma trim_head l c t : trim l = c :: t -> is_space c = false.
Proof.
  unfold trim. intros H. destruct (trim_right_head _ _ _ H) as [t0 H0]. eapply trim_left_head; eauto.
Qed.
(* what TrimSpace removes on the right is a suffix *)
Lemma trim_right_prefix l : exists s, l = trim_right l ++ s.
Proof.
  induction l as [|c t [s IH]]; [exists []; reflexivity|]. cbn [trim_right].
  destruct (trim_right t) as [|x r] eqn:E.
  - destruct (is_space c).
    + exists (c :: t). reflexivity.
    + exists s. cbn. f_equal. exact IH.
  - exists s. cbn. f_equal. exact IH.
Qed.
Lemma trim_left_id c t : is_space c = false -> trim_left (c :: t) = c :: t.
Proof. intros H. cbn [trim_left]. rewrite H. reflexivity. Qed.
Lemma trim_right_cons c t : is_space c = false -> exists r, trim_right (c :: t) = c :: r.
Proof. intros H. cbn [trim_right]. destruct (trim_right t); [rewrite H|]; eauto. Qed.

(* ---------------------------------------------------------------- words, prefixes *)
Lemma split_word_app l : forall w r, split_word l = (w, r) -> l = w ++ r.
Proof.
  induction l as [|c t IH]; intros w r H; cbn [split_word] in H.
  - inversion H. reflexivity.
  - destruct (is_space c).
    + inversion H. reflexivity.
    + destruct (split_word t) as [w' r'] eqn:E. inversion H; subst. cbn. f_equal. apply IH. reflexivity.
Qed.
Lemma split_word_head c t w r : is_space c = false -> split_word (c :: t) = (w, r) -> exists w', w = c :: w'.
Proof.
  intros Hc H. cbn [split_word] in H. rewrite Hc in H.
  destruct (split_word t) as [w' r']. inversion H. eauto.
Qed.

Lemma is_prefix_app w r : is_prefix w (w ++ r) = true.
Proof. induction w as [|x w IH]; cbn; [reflexivity|]. rewrite N.eqb_refl. exact IH. Qed.
Lemma list_eqb_eq a : forall b, list_eqb a b = true -> a = b.
Proof.
  induction a as [|x a IH]; intros [|y b] H; cbn in H; try discriminate; [reflexivity|].
  apply andb_true_iff in H. destruct H as [H1 H2]. apply N.eqb_eq in H1. subst. f_equal. auto.
Qed.
Lemma is_prefix_len p : forall l, is_prefix p l = true -> (length p <= length l)%nat.
Proof.
  induction p as [|x p IH]; intros [|y l] H; cbn in *; try lia; try discriminate.
  apply andb_true_iff in H. destruct H as [_ H]. apply IH in H. lia.
Qed.

(* ---------------------------------------------------------------- StringParser *)
Definition shrinks (cmd : list N) (r : pres) : Prop :=
  match r with PR l _ => (length l < length cmd)%nat | PErr => True | PCrash _ => False end.

Lemma quote_scan_bound rest : forall i esc acc j a,
  quote_scan rest i esc acc = Some (j, a) -> (j < i + length rest)%nat.
Proof.
  induction rest as [|v t IH]; intros i esc acc j a H; cbn [quote_scan] in H; [discriminate|].
  cbn [length]. destruct esc.
  - apply IH in H. lia.
  - destruct (v =? 92); [apply IH in H; lia|].
    destruct (v =? 34); [inversion H; lia|apply IH in H; lia].
Qed.

Lemma sp_word_shrinks c t : is_space c = false -> shrinks (c :: t) (sp_word (c :: t)).
Proof.
  intros Hc. unfold sp_word. destruct (split_word (c :: t)) as [w r] eqn:E. cbn [shrinks].
  destruct (split_word_head _ _ _ _ Hc E) as [w' ->]. apply split_word_app in E.
  rewrite E. rewrite app_length. cbn [length]. lia.
Qed.

Lemma sp_parse_shrinks f c t : (0 <= f <= 2)%Z -> is_space c = false -> shrinks (c :: t) (sp_parse f (c :: t)).
Proof.
  intros Hf Hc. unfold sp_parse.
  destruct (Z.eqb_spec f 2); [cbn; lia|].
  destruct (Z.eqb_spec f 1).
  - destruct (c =? 34); [|apply sp_word_shrinks; exact Hc].
    destruct (quote_scan t 0 false []) as [[i acc]|] eqn:E; [|exact I].
    apply quote_scan_bound in E. cbn [shrinks]. rewrite firstn_length. cbn [length]. lia.
  - destruct (Z.eqb_spec f 0); [apply sp_word_shrinks; exact Hc|lia].
Qed.

(* the three formats never panic, whatever the text (also the empty one), and never grow it *)
Lemma sp_parse_total f cmd : (0 <= f <= 2)%Z ->
  match sp_parse f cmd with PR l _ => (length l <= length cmd)%nat | PErr => True | PCrash _ => False end.
Proof.
  intros Hf. unfold sp_parse.
  assert (W: forall l, match sp_word l with PR r _ => (length r <= length l)%nat | _ => False end).
  { intros l. unfold sp_word. destruct (split_word l) as [w r] eqn:E. apply split_word_app in E.
    rewrite E, app_length. lia. }
  destruct (Z.eqb_spec f 2); [cbn; lia|].
  destruct (Z.eqb_spec f 1).
  - destruct cmd as [|c t]; [exact (W [])|].
    destruct (c =? 34); [|specialize (W (c :: t)); destruct (sp_word (c :: t)); auto].
    destruct (quote_scan t 0 false []) as [[i acc]|]; [|exact I].
    rewrite firstn_length. lia.
  - destruct (Z.eqb_spec f 0); [|lia]. specialize (W cmd). destruct (sp_word cmd); auto.
Qed.

(* ---------------------------------------------------------------- graph well-formedness *)
Lemma lookup_In g i m : lookup g i = Some m -> In m g.
Proof. unfold lookup. destruct (_ || _)%bool; [discriminate|]. apply nth_error_In. Qed.

Section Graph.
  Variable g : graph.
  Hypothesis WF : wf_graph g = true.

  Lemma wf_nodes : forall m, In m g -> node_ok g m = true.
  Proof.
    unfold wf_graph in WF. destruct g as [|r rest]; [discriminate|].
    apply andb_true_iff in WF. destruct WF as [_ H]. rewrite forallb_forall in H. exact H.
  Qed.

  (* the conditions under which a non-root node is entered *)
  Definition entry_ok (m : node) (cmd : list N) : Prop :=
    kindof m = 1 -> is_prefix (name m) cmd = true /\ name m <> [].

  Lemma child_ok_kind m : child_ok m = true ->
    kindof m = 1 \/ (kindof m = 2 /\ exists f, parser m = Some f /\ (0 <= f <= 2)%Z).
  Proof.
    unfold child_ok, parser_ok. intros H. apply orb_true_iff in H. destruct H as [H|H].
    - left. apply N.eqb_eq. exact H.
    - right. apply andb_true_iff in H. destruct H as [H1 H2]. apply N.eqb_eq in H1. split; [exact H1|].
      destruct (parser m) as [f|]; [|discriminate]. exists f. split; [reflexivity|lia].
  Qed.

  Lemma node_parse_shrinks m c t : child_ok m = true -> is_space c = false -> entry_ok m (c :: t) ->
    shrinks (c :: t) (node_parse m (c :: t)).
  Proof.
    intros Hm Hc He. unfold node_parse. destruct (child_ok_kind m Hm) as [K|[K (f & Hp & Hf)]]; rewrite K.
    - change (1 =? 0) with false. change (1 =? 1) with true. cbn iota.
      destruct (He K) as [Hpre Hne]. rewrite Hpre. cbn [shrinks].
      rewrite skipn_length. destruct (name m); [congruence|]. cbn [length]. lia.
    - change (2 =? 0) with false. change (2 =? 1) with false. change (2 =? 2) with true. cbn iota.
      rewrite Hp. apply sp_parse_shrinks; assumption.
  Qed.

  Lemma find_child_ok lit cs :
    forallb (fun c => match lookup g c with Some m => child_ok m | None => false end) cs = true ->
    match find_child g lit cs with
    | NCrash _ => False
    | NErr => True
    | NR i => i = 0%Z \/ exists m, lookup g i = Some m /\ child_ok m = true /\ name m = lit
    end.
  Proof.
    induction cs as [|i cs IH]; intros H; cbn [find_child]; [left; reflexivity|].
    cbn [forallb] in H. apply andb_true_iff in H. destruct H as [H1 H2].
    destruct (lookup g i) as [m|] eqn:E; [|discriminate].
    destruct (list_eqb (name m) lit) eqn:Q; [|apply IH; exact H2].
    right. exists m. repeat split; auto. apply list_eqb_eq. exact Q.
  Qed.

  Lemma node_next_ok nd c t : node_ok g nd = true -> is_space c = false ->
    match node_next g nd (c :: t) with
    | NCrash _ => False
    | NErr => True
    | NR i => i = 0%Z \/ exists m, lookup g i = Some m /\ child_ok m = true /\ entry_ok m (c :: t)
    end.
  Proof.
    intros Hn Hc. unfold node_next. unfold node_ok in Hn.
    destruct (children nd) as [|c0 cs] eqn:EC; [left; reflexivity|].
    pose proof Hn as Hall. cbn [forallb] in Hn. apply andb_true_iff in Hn. destruct Hn as [H0 _].
    destruct (lookup g c0) as [m0|] eqn:E0; [|discriminate].
    destruct (child_ok_kind m0 H0) as [K|[K _]]; rewrite K.
    - change (1 =? 1) with true. cbn iota.
      (* the literal to look up: first word of the (already trimmed) rest *)
      unfold trim. rewrite (trim_left_id c t Hc).
      destruct (trim_right_cons c t Hc) as [r Hr]. rewrite Hr.
      destruct (trim_right_prefix (c :: t)) as [s Hs]. rewrite Hr in Hs.
      unfold sp_parse. change (0 =? 2)%Z with false. change (0 =? 1)%Z with false. change (0 =? 0)%Z with true. cbn iota.
      unfold sp_word. destruct (split_word (c :: r)) as [w rr] eqn:EW.
      destruct (split_word_head _ _ _ _ Hc EW) as [w' Hw']. apply split_word_app in EW.
      pose proof (find_child_ok w (c0 :: cs) Hall) as F.
      destruct (find_child g w (c0 :: cs)) as [i| |]; auto.
      destruct F as [F|(m & Hl & Hk & Hname)]; [left; exact F|].
      right. exists m. split; [exact Hl|]. split; [exact Hk|]. intros _. split.
      + rewrite Hname, Hs, EW, <- app_assoc. apply is_prefix_app.
      + rewrite Hname, Hw'. discriminate.
    - change (2 =? 1) with false. change (2 =? 2) with true. cbn iota.
      right. exists m0. split; [exact E0|]. split; [exact H0|]. intros K1. rewrite K in K1. discriminate.
  Qed.

  (* every step below the root strictly shortens the line, so fuel above its length is enough *)
  Lemma loop_good : forall fuel nd cmd args c t,
    cmd = c :: t -> is_space c = false ->
    node_ok g nd = true -> child_ok nd = true -> entry_ok nd cmd ->
    (length cmd < fuel)%nat -> good (exec_loop fuel g nd cmd args).
  Proof.
    induction fuel as [|f IH]; intros nd cmd args c t -> Hc Hn Hk He Hf; [lia|].
    cbn [exec_loop].
    pose proof (node_parse_shrinks nd c t Hk Hc He) as Hs.
    destruct (node_parse nd (c :: t)) as [lft v| |]; cbn [shrinks] in Hs; [|exact I|contradiction].
    pose proof (trim_len lft) as Hl.
    destruct (trim lft) as [|c' t'] eqn:ET.
    - destruct (run nd); exact I.
    - pose proof (trim_head _ _ _ ET) as Hc'.
      pose proof (node_next_ok nd c' t' Hn Hc') as Hx.
      destruct (node_next g nd (c' :: t')) as [i| |]; [|exact I|contradiction].
      destruct (Z.eqb_spec i 0); [exact I|].
      destruct Hx as [Hx|(m & Hm & Hmk & Hme)]; [contradiction|].
      rewrite Hm. eapply IH; eauto.
      + apply wf_nodes. eapply lookup_In; eauto.
      + cbn [length] in *. lia.
  Qed.

  Theorem execute_good : forall line fuel, (length line + 2 <= fuel)%nat -> good (execute_f fuel g line).
  Proof.
    intros line fuel Hf. unfold execute_f.
    pose proof WF as W. unfold wf_graph in W. destruct g as [|root rest] eqn:EG; [discriminate|].
    apply andb_true_iff in W. destruct W as [Hr Hall]. apply N.eqb_eq in Hr.
    destruct fuel as [|f]; [lia|]. cbn [exec_loop]. unfold node_parse. rewrite Hr.
    change (0 =? 0) with true. cbn iota.
    pose proof (trim_len line) as Hl.
    destruct (trim line) as [|c t] eqn:ET.
    - destruct (run root); exact I.
    - pose proof (trim_head _ _ _ ET) as Hc.
      assert (Hroot: node_ok (root :: rest) root = true).
      { rewrite forallb_forall in Hall. apply Hall. left. reflexivity. }
      rewrite <- EG in *.
      pose proof (node_next_ok root c t Hroot Hc) as Hx.
      destruct (node_next g root (c :: t)) as [i| |]; [|exact I|contradiction].
      destruct (Z.eqb_spec i 0); [exact I|].
      destruct Hx as [Hx|(m & Hm & Hmk & Hme)]; [contradiction|].
      rewrite Hm. eapply loop_good; eauto.
      + apply wf_nodes. eapply lookup_In; eauto.
      + cbn [length] in *. lia.
  Qed.
End Graph.

Theorem dispatch_total g line : wf_graph g = true -> good (execute g line).
Proof. intros W. apply execute_good; [exact W|lia]. Qed.

(* more fuel never changes an outcome that is not NoFuel: the choice of fuel in [execute] is immaterial *)
Lemma exec_loop_mono g : forall f nd cmd args, exec_loop f g nd cmd args <> ONoFuel ->
  forall f', (f <= f')%nat -> exec_loop f' g nd cmd args = exec_loop f g nd cmd args.
Proof.
  induction f as [|f IH]; intros nd cmd args H f' Hf; [cbn in H; congruence|].
  destruct f' as [|f']; [lia|]. cbn [exec_loop] in *.
  destruct (node_parse nd cmd) as [lft v| |]; auto.
  destruct (trim lft) as [|c t]; auto.
  destruct (node_next g nd (c :: t)) as [i| |]; auto.
  destruct (i =? 0)%Z; auto.
  destruct (lookup g i) as [m|]; auto. apply IH; [exact H|lia].
Qed.

Theorem dispatch_fuel_irrelevant g line fuel : wf_graph g = true -> (length line + 2 <= fuel)%nat ->
  execute_f fuel g line = execute g line.
Proof.
  intros W Hf. pose proof (dispatch_total g line W) as G. unfold execute in *. unfold execute_f in *.
  destruct g as [|root rest]; [reflexivity|].
  apply exec_loop_mono; [|exact Hf]. intros E. rewrite E in G. exact G.
Qed.

(* an empty or blank line: the root has no handler, the answer is an error (fix cd16829) *)
Lemma trim_blank l : forallb is_space l = true -> trim l = [].
Proof.
  unfold trim. induction l as [|c t IH]; [reflexivity|]. cbn [forallb trim_left].
  intros H. apply andb_true_iff in H. destruct H as [H1 H2]. rewrite H1. apply IH. exact H2.
Qed.
Theorem blank_line_is_error root rest line :
  kindof root = 0 -> run root = None -> forallb is_space line = true ->
  execute (root :: rest) line = OErr.
Proof.
  intros K R B. unfold execute, execute_f. rewrite Nat.add_comm. cbn [Nat.add exec_loop].
  unfold node_parse. rewrite K. change (0 =? 0) with true. cbn iota.
  rewrite (trim_blank line B). rewrite R. reflexivity.
Qed.

(* ---------------------------------------------------------------- ASCII lines: the model is exact *)
(* trim_u is strings.TrimSpace on arbitrary bytes (Unicode white space, UTF-8).  On a line whose bytes
   are all below 0x80 it is the ASCII trim the dispatcher model uses. *)
Definition ascii (l : list N) : Prop := Forall (fun b => b < 128) l.

Lemma cond3_ascii a b c : a < 128 -> cond3 a b c = false.
Proof.
  intros H. unfold cond3.
  replace (a =? 225) with false by (symmetry; apply N.eqb_neq; lia).
  replace (a =? 226) with false by (symmetry; apply N.eqb_neq; lia).
  replace (a =? 227) with false by (symmetry; apply N.eqb_neq; lia). reflexivity.
Qed.
Lemma useq_ascii l : ascii l -> useq l = match l with a :: _ => if is_space a then 1%nat else O | [] => O end.
Proof.
  intros H. destruct l as [|a t]; [reflexivity|]. inversion H as [|? ? Ha Ht]; subst. cbn [useq].
  destruct (is_space a); [reflexivity|]. destruct t as [|b t2]; [reflexivity|].
  replace (a =? 194) with false by (symmetry; apply N.eqb_neq; lia). cbn [andb].
  destruct t2 as [|c t3]; [reflexivity|]. rewrite cond3_ascii by exact Ha. reflexivity.
Qed.
Lemma useq_r_ascii l : ascii l -> useq_r l = match l with a :: _ => if is_space a then 1%nat else O | [] => O end.
Proof.
  intros H. destruct l as [|z t]; [reflexivity|]. inversion H as [|? ? Hz Ht]; subst. cbn [useq_r].
  destruct (is_space z); [reflexivity|]. destruct t as [|y t2]; [reflexivity|].
  inversion Ht as [|? ? Hy Ht2]; subst.
  replace (y =? 194) with false by (symmetry; apply N.eqb_neq; lia). cbn [andb].
  destruct t2 as [|x t3]; [reflexivity|]. inversion Ht2; subst. rewrite cond3_ascii by assumption. reflexivity.
Qed.
Lemma strip_ascii sq : (forall l, ascii l -> sq l = match l with a :: _ => if is_space a then 1%nat else O | [] => O end) ->
  forall fuel l, ascii l -> (length l <= fuel)%nat -> strip sq fuel l = trim_left l.
Proof.
  intros Hsq. induction fuel as [|f IH]; intros l Ha Hl.
  - destruct l; [reflexivity|cbn in Hl; lia].
  - cbn [strip]. rewrite Hsq by exact Ha. destruct l as [|a t]; [reflexivity|]. cbn [trim_left].
    destruct (is_space a); [|reflexivity]. cbn [skipn]. inversion Ha; subst. apply IH; [assumption|cbn in Hl; lia].
Qed.
Lemma trim_left_ascii l : ascii l -> ascii (trim_left l).
Proof.
  induction 1 as [|a t Ha Ht IH]; cbn [trim_left]; [constructor|]. destruct (is_space a); [exact IH|constructor; assumption].
Qed.
Lemma trim_right_snoc l c : trim_right (l ++ [c]) = if is_space c then trim_right l else l ++ [c].
Proof.
  induction l as [|a l IH]; cbn [app trim_right]; [destruct (is_space c); reflexivity|].
  rewrite IH. destruct (is_space c); [reflexivity|]. destruct (l ++ [c]) eqn:E; [|reflexivity].
  destruct l; discriminate.
Qed.
Lemma trim_right_rev l : trim_right l = rev (trim_left (rev l)).
Proof.
  induction l as [|c l IH] using rev_ind; [reflexivity|].
  rewrite trim_right_snoc, rev_app_distr. cbn [rev app trim_left].
  destruct (is_space c); [exact IH|]. cbn [rev]. rewrite rev_involutive. reflexivity.
Qed.

Theorem ascii_trim_exact l : ascii l -> trim_u l = trim l.
Proof.
  intros H. unfold trim_u, trim. cbv zeta.
  rewrite (strip_ascii useq useq_ascii (length l) l H (le_n _)).
  pose proof (trim_left_ascii l H) as H1.
  rewrite (strip_ascii useq_r useq_r_ascii) by (try (unfold ascii; apply Forall_rev; exact H1); rewrite rev_length; lia).
  symmetry. apply trim_right_rev.
Qed.
