(* C08 phase 7: the allocation census (Gen/C08gen.v c08_alloc_sites, regenerated from the tree by
   tools/gotrans/c08.go genC08alloc) and its obligation: every allocation whose size comes from a value
   READ FROM THE PEER earlier in the same function is dominated by a test that bounds the size from
   above (by a constant, by what is present, by the labels of a switch, by min(.., K), or - append in a
   loop - by one successful read per element) and by a test that excludes a negative size.  Rows
   without such tests must be listed in c08_alloc_open below: they are the findings (each of them is
   measured on the implementation by the child-process stream of harness/cmd/c08/alloc.go, classes
   C08.oom.<site>). *)
From Coq Require Import Bool List String.
From GoMC Require Import Model.C08_sites Gen.C08gen.
Import ListNotations.
Local Open Scope string_scope.

(* the sites known to allocate an unbounded peer-declared size: none since /repo 9c9d934 (phase 7 found
   four: Registry.ReadTagsFrom - repaired here, f882713; linearPalette / hashPalette.ReadFrom - repaired by
   C12's owner, 5ccdbc5; BitStorage.ReadFrom - repaired by C11's owner, 9c9d934).  A row that is listed
   here is excused, not asserted unbounded. *)
Definition c08_alloc_open : list string := [].

Definition a_excused (r : arow) : bool := existsb (String.eqb (a_site r)) c08_alloc_open.

Lemma alloc_sites_check : forallb (fun r => a_bounded r || a_excused r) c08_alloc_sites = true.
Proof. vm_compute. reflexivity. Qed.

Theorem alloc_sites_bounded : forall r, In r c08_alloc_sites ->
  a_origin r = OPeer ->
  (a_upper r <> BNone /\ (a_lower r <> "" \/ exists c, a_upper r = BRead c)) \/ In (a_site r) c08_alloc_open.
Proof.
  intros r Hin Hp.
  pose proof (proj1 (forallb_forall _ _) alloc_sites_check r Hin) as H.
  apply orb_true_iff in H. destruct H as [H|H].
  - left. unfold a_bounded, a_peer in H. rewrite Hp in H. cbn in H.
    apply andb_true_iff in H. destruct H as [U L]. split.
    + unfold a_upper_ok in U. intro E. rewrite E in U. discriminate.
    + unfold a_lower_ok in L. destruct (a_upper r) eqn:E; try (left; intro E2; rewrite E2 in L; discriminate).
      right. eexists. reflexivity.
  - right. unfold a_excused in H. apply existsb_exists in H. destruct H as (x & Hx & Heq).
    apply String.eqb_eq in Heq. rewrite Heq. exact Hx.
Qed.

(* the peer-sized rows of the tree the proofs were last built against, by site (a new peer-sized
   allocation anywhere in the covered packages shows up here even when it is bounded) *)
Definition alloc_peer_sites : list string := map a_site (filter a_peer c08_alloc_sites).
