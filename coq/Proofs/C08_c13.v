(* C08 extra wave: totality stated on C13's OWN term.  Model/C13.v chunk_read (the term C13's round-trip
   theorems are about; Proofs/C13_skel_interp.v proves it is the interpretation of the translated
   Chunk.ReadFrom) is generic in the paletted container: for every container type and every
   PaletteContainer.ReadFrom that is total on inputs shorter than the fuel, chunk_read returns a value or
   an error on EVERY byte string shorter than the fuel - never a panic, never out of fuel. *)
From Coq Require Import List Arith NArith ZArith Lia Bool ZifyN ZifyNat ZifyBool.
From GoMC Require Import Base.Bytes Base.Dec Gen.Consts Model.C01 Model.C03 Model.C05 Proofs.C05 Model.C06 Model.C11
  Model.C12 Model.C13 Model.C08 Model.C08_inst
  Proofs.C01 Proofs.C03 Proofs.C11_wire Proofs.C12 Proofs.C13_nbt Proofs.C13_wire
  Proofs.C08_skel Proofs.C08_inst Proofs.C08_field Proofs.C08_sites.
Import ListNotations.
Open Scope N_scope.

Lemma ooe_bind {A B} (d : dec A) (f : A -> dec B) s :
  ok_or_err (run_flat d s) ->
  (forall a r, run_flat d s = FOk a r -> (length r <= length s)%nat -> ok_or_err (run_flat (f a) r)) ->
  ok_or_err (run_flat (bind d f) s).
Proof.
  intros H K. rewrite run_flat_bind_gen. destruct (run_flat d s) as [a r| | |] eqn:E; cbn [ok_or_err] in *; try tauto.
  apply K; [reflexivity|]. eapply rest_le_gen; exact E.
Qed.

Lemma tee_total {A} (d : dec A) s : robust d -> ok_or_err (run_flat d s) -> ok_or_err (run_flat (tee d) s).
Proof.
  intros R H. pose proof (tee_outcome d R s) as T.
  destruct (run_flat d s) as [a r| | |]; cbn [ok_or_err] in H; try tauto.
  - destruct T as [c ->]. exact I.
  - rewrite T. exact I.
Qed.

(* ---------------------------------------------------------------- block entities *)
Lemma be_read_total fuel o s : (length s < fuel)%nat -> ok_or_err (run_flat (be_read fuel o) s).
Proof.
  intros Hf. unfold be_read.
  apply ooe_bind. { unfold r_byte. destruct s; exact I. }
  intros [xz n1] r1 E1 L1.
  apply ooe_bind. { apply prog_total with (s := r1), r_fixed_prog. reflexivity. }
  intros [y n2] r2 E2 L2.
  apply ooe_bind. { unfold r_varint. apply ooe_bind; [apply prog_total with (s := r2), read32_prog|]. intros [z n] r _ _. exact I. }
  intros [ty n3] r3 E3 L3.
  apply ooe_bind.
  { unfold raw_read. apply ooe_bind; [|intros; exact I].
    apply tee_total; [apply raw_body_robust|apply raw_body_total; lia]. }
  intros [raw n4] r4 E4 L4. exact I.
Qed.
Lemma be_read_prog fuel o s : (length s < fuel)%nat -> prog s (run_flat (be_read fuel o) s).
Proof.
  intros Hf. pose proof (be_read_total fuel o s Hf) as T.
  destruct (run_flat (be_read fuel o) s) as [a r| | |] eqn:E; cbn [ok_or_err prog] in *; try tauto.
  (* the first read is one byte *)
  unfold be_read in E. rewrite run_flat_bind_gen in E. unfold r_byte in E at 1. cbn [run_flat] in E.
  destruct s as [|b s']; [discriminate|]. cbn [length].
  apply rest_le_gen in E. lia.
Qed.

Lemma bes_read_total fuel zero old s : (length s < fuel)%nat ->
  ok_or_err (run_flat (r_ary fuel LVarInt (be_read fuel) zero old) s).
Proof.
  intros Hf. unfold r_ary.
  apply ooe_bind. { apply prog_total with (s := s), r_len_prog. }
  intros [len n] r E L. destruct (len <? 0)%Z; [exact I|]. cbv zeta.
  apply ooe_bind; [|intros [vs n2] r2 _ _; exact I].
  apply (prog0_ok r). apply r_elems_prog0 with (B := length r).
  - intros o. apply be_read_robust.
  - intros o s' Hs'. apply be_read_prog. lia.
  - lia.
  - lia.
Qed.

(* ---------------------------------------------------------------- the data byte array is part of the input *)
Lemma bytearray_len fuel old s dv n r : (length s < fuel)%nat ->
  run_flat (read_f fuel TByteArray old) s = FOk (dv, n) r -> (length (fst (bytes_of dv)) <= length s)%nat.
Proof.
  intros Hf. destruct fuel as [|f]; [lia|]. cbn [read_f]. unfold r_bytearray.
  rewrite run_flat_bind_gen. pose proof (read32_prog s) as P.
  destruct (run_flat read32 s) as [[l m] r1| | |]; cbn [prog] in P; try discriminate.
  destruct (l <? 0)%Z; [discriminate|]. cbv zeta.
  assert (G: forall k, run_flat (ReadFull (Z.to_N l) (fun bs => Ret (VBytes bs [], k))) r1 = FOk (dv, n) r ->
             (length (fst (bytes_of dv)) <= length s)%nat).
  { intros k H. cbn [run_flat] in H. destruct (Z.to_N l <=? lenN r1) eqn:Q; [|discriminate].
    inversion H; subst. cbn [bytes_of fst]. unfold takeN. rewrite firstn_length. lia. }
  destruct (Z.of_N _ <? l)%Z; apply G.
Qed.

(* ---------------------------------------------------------------- height maps *)
Lemma hm_bits_height k : hm_bits (N.of_nat k) = bits_for_height k.
Proof. unfold hm_bits, bitlen, bits_for_height. f_equal. f_equal. lia. Qed.

Lemma new_hm_ok nsec want raw : (0 <= hm_bits nsec)%Z -> calc_size (hm_bits nsec) hm_len = Some want ->
  match raw with None => false | Some l => negb (Z.of_N (lenN l) =? want)%Z end = false ->
  exists st, new_hm nsec raw = Ret (Some st).
Proof.
  intros Hb C Hok. unfold new_hm, bs_new.
  destruct (hm_bits nsec =? 0)%Z eqn:Z0; [eexists; reflexivity|].
  destruct (Z.ltb_spec (hm_bits nsec) 0) as [Zn|Zn]; [lia|].
  rewrite C.
  assert (W: (0 <= want)%Z).
  { unfold calc_size in C. rewrite Z0 in C. unfold hm_len in C.
    destruct (Z.quot 64 (hm_bits nsec) =? 0)%Z eqn:Q; [discriminate|].
    assert (E: want = Z.quot (256 + Z.quot 64 (hm_bits nsec) - 1) (Z.quot 64 (hm_bits nsec))) by congruence.
    rewrite E. clear E C.
    assert (V: (0 < Z.quot 64 (hm_bits nsec))%Z).
    { pose proof (Z.quot_pos 64 (hm_bits nsec) ltac:(lia) ltac:(lia)) as P. apply Z.eqb_neq in Q. clear - P Q. lia. }
    remember (Z.quot 64 (hm_bits nsec)) as v. clear - V. apply Z.quot_pos; lia. }
  destruct (Z.ltb_spec want 0) as [Wn|Wn]; [lia|].
  destruct raw as [l|]; [|eexists; reflexivity].
  apply negb_false_iff in Hok. rewrite Hok. eexists; reflexivity.
Qed.

(* ---------------------------------------------------------------- the chunk *)
Section C13Chunk.
  Variable cont : Type.
  Variable pc_read : bool -> cont -> dec (cont * N).
  Variable fuel : nat.
  Variable good : cont -> Prop.                   (* what the destination containers satisfy (a well-formed config) *)
  Hypothesis pc_total : forall biome c s, good c -> (length s < fuel)%nat -> ok_or_err (run_flat (pc_read biome c) s).
  Definition good_sec (d : sect cont) : Prop := good (s_states d) /\ good (s_biomes d).

  Lemma sec_read_total d s : good_sec d -> (length s < fuel)%nat -> ok_or_err (run_flat (sec_read cont pc_read d) s).
  Proof.
    intros [G1 G2] Hf. unfold sec_read.
    apply ooe_bind. { apply prog_total with (s := s), r_fixed_prog. reflexivity. }
    intros [cnt n] r1 E1 L1.
    apply ooe_bind. { apply pc_total; [exact G1|lia]. }
    intros [st n2] r2 E2 L2.
    apply ooe_bind. { apply pc_total; [exact G2|lia]. }
    intros [bi n3] r3 E3 L3. exact I.
  Qed.
  Lemma secs_read_total : forall ds s, Forall good_sec ds -> (length s < fuel)%nat ->
    ok_or_err (run_flat (secs_read cont pc_read ds) s).
  Proof.
    induction ds as [|d t IH]; intros s G Hf; cbn [secs_read]; [exact I|].
    inversion G as [|? ? Gd Gt]; subst.
    apply ooe_bind. { apply sec_read_total; [exact Gd|exact Hf]. }
    intros s' r1 E1 L1.
    apply ooe_bind. { apply IH; [exact Gt|lia]. }
    intros t' r2 E2 L2. exact I.
  Qed.

  Theorem c13_chunk_read_total (d : chunk cont) s :
    Forall good_sec (c_secs d) -> N.of_nat (length (c_secs d)) < 2^58 -> (length s < fuel)%nat ->
    ok_or_err (run_flat (Model.C13.chunk_read cont pc_read fuel d) s).
  Proof.
    intros G Hn Hf. unfold Model.C13.chunk_read.
    apply ooe_bind. { apply tee_total; [apply hm_read_robust|apply hm_read_total, Hf]. }
    intros [hm hrest] r1 E1 L1.
    apply ooe_bind. { apply field_total; [reflexivity|lia]. }
    intros [dv n2] r2 E2 L2.
    apply ooe_bind. { apply bes_read_total. lia. }
    intros [bv n3] r3 E3 L3.
    apply ooe_bind. { apply field_total; [reflexivity|lia]. }
    intros [u n4] r4 E4 L4.
    assert (LN: lenN (c_secs d) = N.of_nat (length (c_secs d))) by reflexivity.
    rewrite LN. unfold hm_len_bad. rewrite hm_bits_height.
    pose proof (height_bits_defined (length (c_secs d)) Hn) as HD.
    destruct (calc_size (bits_for_height (length (c_secs d))) hm_len) as [want|] eqn:C; [|exfalso; apply HD; exact C].
    cbn [bind].
    destruct (match fst hm with None => false | Some l => negb (Z.of_N (lenN l) =? want)%Z end) eqn:B1; [exact I|].
    destruct (match snd hm with None => false | Some l => negb (Z.of_N (lenN l) =? want)%Z end) eqn:B2; [exact I|].
    cbn [orb].
    assert (HB: (0 <= hm_bits (N.of_nat (length (c_secs d))))%Z) by (unfold hm_bits, bitlen; lia).
    rewrite <- hm_bits_height in C.
    destruct (new_hm_ok _ want (fst hm) HB C B1) as [mb ->].
    destruct (new_hm_ok _ want (snd hm) HB C B2) as [ws ->].
    cbn [bind].
    rewrite run_fast_eq.
    pose proof (bytearray_len fuel _ r1 dv n2 r2 ltac:(lia) E2) as LD.
    pose proof (secs_read_total (c_secs d) (fst (bytes_of dv)) G ltac:(lia)) as T.
    destruct (run_flat (secs_read cont pc_read (c_secs d)) (fst (bytes_of dv))); cbn [ok_or_err run_flat] in *; tauto.
  Qed.
End C13Chunk.

(* ---------------------------------------------------------------- instances *)
(* C12's container (the one C08_chunk_total_instantiated uses) in C13's chunk *)
Theorem c13_chunk_read_total_c12 fuel (d : chunk Model.C12.pc) s :
  Forall (fun se => wfcfg (ccfg (s_states se)) /\ wfcfg (ccfg (s_biomes se))) (c_secs d) ->
  N.of_nat (length (c_secs d)) < 2^58 -> (length s < fuel)%nat ->
  ok_or_err (run_flat (Model.C13.chunk_read Model.C12.pc (fun _ => Model.C12.pc_read fuel) fuel d) s).
Proof.
  intros G Hn Hf. apply c13_chunk_read_total with (good := fun c => wfcfg (ccfg c)); auto.
  intros _ c s' W Hs. apply c12_pc_read_total; assumption.
Qed.

(* C13's own field-level container (wchunk_read: the term of C13's wire round trip) *)
Lemma cfg_bits13_range biome g b : (0 <= g <= 64)%Z -> (0 <= Model.C13.cfg_bits biome g b <= 64)%Z.
Proof.
  intros Hg. unfold Model.C13.cfg_bits. destruct (b =? 0)%Z; [lia|]. destruct biome.
  - destruct ((1 <=? b) && (b <=? 3))%Z eqn:E; lia.
  - destruct ((1 <=? b) && (b <=? 4))%Z eqn:E1; [lia|]. destruct ((5 <=? b) && (b <=? 8))%Z eqn:E2; lia.
Qed.

Lemma pal_read13_total fuel k cap s : (length s < fuel)%nat -> ok_or_err (run_flat (Model.C13.pal_read fuel k cap) s).
Proof.
  intros Hf. unfold Model.C13.pal_read.
  destruct (k =? kSingle).
  { apply ooe_bind; [apply prog_total with (s := s), read32_prog|]. intros [v n] r _ _. exact I. }
  destruct (k =? kGlobal); [exact I|].
  apply ooe_bind; [apply prog_total with (s := s), read32_prog|]. intros [size n] r E L.
  destruct (size <? 0)%Z; [exact I|]. destruct (cap <? size)%Z; [exact I|].
  apply ooe_bind; [|intros; exact I].
  apply (prog0_ok r). apply Proofs.C03.rep_prog0 with (L := length r); [apply read32_robust| |lia|lia].
  intros s' _. apply read32_prog.
Qed.

Theorem wc_read_total fuel g biome d s : (0 <= g <= 64)%Z -> (length s < fuel)%nat ->
  ok_or_err (run_flat (wc_read fuel g biome d) s).
Proof.
  intros Hg Hf. unfold wc_read. cbn [run_flat]. destruct s as [|nb s']; [exact I|]. cbn [length] in Hf. cbv zeta.
  apply ooe_bind. { apply pal_read13_total. lia. }
  intros pal r1 E1 L1.
  apply ooe_bind. { apply Proofs.C11_wire.read_total. }
  intros [st n] r2 E2 L2.
  pose proof (bs_fix_no_panic st (Model.C13.cfg_bits biome g (Z.of_N (nb mod 256)))
                (cfg_bits13_range biome g _ Hg)) as NP.
  destruct (bs_fix st _) as [st' o]. cbn [snd] in NP. destruct o; cbn; auto. exact (NP w eq_refl).
Qed.

Theorem c13_wchunk_read_total fuel gs gb (d : wchunk) s : (0 <= gs <= 64)%Z -> (0 <= gb <= 64)%Z ->
  N.of_nat (length (c_secs d)) < 2^58 -> (length s < fuel)%nat ->
  ok_or_err (run_flat (wchunk_read fuel gs gb d) s).
Proof.
  intros Hs Hb Hn Hf. unfold wchunk_read.
  apply c13_chunk_read_total with (good := fun _ => True); auto.
  - intros biome c s' _ Hs'. apply wc_read_total; [destruct biome; assumption|exact Hs'].
  - apply Forall_forall. intros x _. split; exact I.
Qed.
