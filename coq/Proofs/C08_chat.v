(* C08: totality of the text-component decoder model (Model/C08_chat.v) on EVERY byte string: a value or an error,
   never Crash, never out of fuel once the fuel exceeds the input length, and a value means input was consumed
   and nothing was given back; the nesting limit of chat/nbtnest.go is met by every successful decode and is
   what bounds the number of stacked decoders (before fix 76b3415 only the input length did). *)
From Coq Require Import List Arith NArith ZArith Lia Bool ZifyN ZifyNat ZifyBool.
From GoMC Require Import Base.Bytes Base.Dec Gen.Consts Model.C01 Proofs.C01 Model.C03 Proofs.C03 Proofs.C03_top
  Proofs.C03_st Model.C17_syntax Gen.C17gen Model.C08_chat.
Import ListNotations.
Open Scope N_scope.

(* every declared type of the three regenerated tag tables is one the model knows *)
Lemma types_known : chat_types_known = true.
Proof. vm_compute. reflexivity. Qed.

Definition known (fs : list (list N * cty)) : Prop := forall t, In t (map snd fs) -> t <> COther.
Lemma known_of_forallb fs :
  forallb (fun kv : list N * cty => match snd kv with COther => false | _ => true end) fs = true -> known fs.
Proof.
  intros H t Hin E. subst t. apply in_map_iff in Hin. destruct Hin as [kv [E Hin]].
  rewrite forallb_forall in H. specialize (H kv Hin). rewrite E in H. discriminate.
Qed.
Lemma all_known : known msg_rows /\ known click_rows /\ known hover_rows.
Proof.
  pose proof types_known as H. unfold chat_types_known in H. rewrite !forallb_app in H.
  apply andb_prop in H. destruct H as [H1 H]. apply andb_prop in H. destruct H as [H2 H3].
  repeat split; apply known_of_forallb; assumption.
Qed.

Lemma unit_of_robust {A} (d : dec A) : robust d -> robust (unit_of d).
Proof. intros R. unfold unit_of. apply robust_bind; [exact R|]. intros; constructor. Qed.
Lemma unit_of_prog {A} (d : dec A) s : robust d -> prog s (run_flat d s) -> prog s (run_flat (unit_of d) s).
Proof. intros R H. unfold unit_of. apply prog_bind; [exact R|exact H|]. intros; apply ret_prog0. Qed.
Lemma unit_of_prog0 {A} (d : dec A) s : robust d -> prog0 s (run_flat d s) -> prog0 s (run_flat (unit_of d) s).
Proof. intros R H. unfold unit_of. apply prog0_bind; [exact R|exact H|]. intros; apply ret_prog0. Qed.

(* ------------------------------------------------------------------ robust *)
Section StepRobust.
  Variable rec : cty -> N -> N -> N -> dec unit.
  Variable f : nat.
  Hypothesis Rrec : forall t lvl dep id, robust (rec t lvl dep id).
  Lemma c_struct_robust fs lvl dep id : robust (c_struct rec f fs lvl dep id).
  Proof.
    unfold c_struct. destruct (id =? idCompound); [|apply misfit_robust].
    destruct (dep =? 0); [constructor|]. apply st_loop_robust. intros tt tn acc.
    destruct (find_field fs tn) as [[i ty]|]; [apply Rrec|apply dskip_robust].
  Qed.
  Lemma c_list_robust lvl dep id : robust (c_list rec f lvl dep id).
  Proof.
    unfold c_list. destruct (id =? idList); [|apply misfit_robust].
    destruct (dep =? 0); [constructor|].
    apply robust_bind; [auto with rb|]. intros et. apply robust_bind; [auto with rb|]. intros n.
    destruct (n <? 0)%Z; [constructor|]. apply unit_of_robust, rep_robust, Rrec.
  Qed.
End StepRobust.

Lemma cval_robust : forall fuel t lvl dep id, robust (cval fuel t lvl dep id).
Proof.
  induction fuel as [|f IH]; intros t lvl dep id; cbn [cval]; [constructor|].
  destruct t;
    repeat match goal with |- robust (if ?c then _ else _) => destruct c end;
    try (apply unit_of_robust; first [apply dty_robust | apply dany_robust]);
    try (apply c_struct_robust; exact IH); try (apply c_list_robust; exact IH); constructor.
Qed.
Lemma chat_read_robust fuel : robust (chat_read fuel).
Proof. unfold chat_read. apply robust_bind; [auto with rb|]. intros id. apply cval_robust. Qed.

(* ------------------------------------------------------------------ total *)
Section StepProg.
  Variable rec : cty -> N -> N -> N -> dec unit.
  Variable f : nat.
  Hypothesis Rrec : forall t lvl dep id, robust (rec t lvl dep id).
  Hypothesis Prec : forall t lvl dep id s, t <> COther -> (length s + 1 < f)%nat -> prog s (run_flat (rec t lvl dep id) s).

  Lemma c_struct_prog fs lvl dep id s : known fs -> (length s + 1 < S f)%nat ->
    prog s (run_flat (c_struct rec f fs lvl dep id) s).
  Proof.
    intros K Hs. unfold c_struct. destruct (id =? idCompound); [|apply misfit_prog].
    destruct (dep =? 0); [exact I|].
    apply st_loop_prog with (L := length s); [| |lia|lia].
    - intros tt tn acc. destruct (find_field fs tn) as [[i ty]|]; [apply Rrec|apply dskip_robust].
    - intros tt tn acc s' Hs'. destruct (find_field fs tn) as [[i ty]|] eqn:Ef.
      + apply prog_prog0, Prec; [|lia]. apply K. eapply find_field_In; eauto.
      + apply prog_prog0, dskip_prog. lia.
  Qed.
  Lemma c_list_prog lvl dep id s : (length s + 1 < S f)%nat ->
    prog s (run_flat (c_list rec f lvl dep id) s).
  Proof.
    intros Hs. unfold c_list. destruct (id =? idList); [|apply misfit_prog].
    destruct (dep =? 0); [exact I|].
    apply prog_bind; [auto with rb|apply rd_u8_prog|]. intros et r Hr.
    apply prog0_bind; [auto with rb|apply prog_prog0, rd_i32_prog|]. intros n r' Hr'.
    destruct (n <? 0)%Z; [exact I|].
    apply unit_of_prog0; [apply rep_robust, Rrec|].
    apply rep_prog0 with (L := length r'); [apply Rrec| |lia|lia].
    intros s' Hs'. apply Prec; [discriminate|lia].
  Qed.
End StepProg.

Theorem cval_prog : forall fuel t lvl dep id s, t <> COther -> (length s + 1 < fuel)%nat ->
  prog s (run_flat (cval fuel t lvl dep id) s).
Proof.
  destruct all_known as [Km [Kc Kh]].
  induction fuel as [|f IH]; intros t lvl dep id s Ht Hs; [lia|]. cbn [cval].
  destruct t; try congruence;
    repeat match goal with |- prog _ (run_flat (if ?c then _ else _) _) => destruct c end;
    try exact I;
    try (apply unit_of_prog; [first [apply dty_robust | apply dany_robust]
                             |first [apply dty_prog | apply dany_prog]; lia]);
    try (apply c_struct_prog; [apply cval_robust|exact IH|assumption|lia]);
    try (apply c_list_prog; [apply cval_robust|exact IH|lia]).
Qed.

(* Message.ReadFrom on every byte string *)
Theorem chat_read_total fuel s : (length s + 1 < fuel)%nat -> prog s (run_flat (chat_read fuel) s).
Proof.
  intros Hs. unfold chat_read. apply prog_bind; [auto with rb|apply rd_u8_prog|]. intros id r Hr.
  apply prog_prog0, cval_prog; [discriminate|lia].
Qed.
Corollary chat_read_ok_or_err fuel s : (length s + 1 < fuel)%nat -> ok_or_err (run_flat (chat_read fuel) s).
Proof. intros H. apply (prog0_ok s), prog_prog0, chat_read_total, H. Qed.

(* nothing is given back and nothing is invented: the residual input is a suffix of the input *)
Theorem chat_read_suffix fuel s a rest : run_flat (chat_read fuel) s = FOk a rest -> exists used, s = used ++ rest.
Proof. intros H. eapply robust_rest_suffix; [apply chat_read_robust|exact H]. Qed.

(* ------------------------------------------------------------------ the nesting limit *)
(* a hook above the limit is an error whatever follows: no decoder is stacked on it *)
Theorem hook_above_limit fuel lvl dep id s : nest_limit < lvl ->
  is_ok (run_flat (cval (S fuel) CMsg lvl dep id) s) = false /\ is_ok (run_flat (cval (S fuel) CArgs lvl dep id) s) = false.
Proof.
  intros H. apply N.ltb_lt in H. cbn [cval]. rewrite H.
  split; repeat match goal with |- is_ok (run_flat (if ?c then _ else _) _) = false => destruct c end; reflexivity.
Qed.
Lemma nest_limit_value : nest_limit = 512.
Proof. reflexivity. Qed.

(* the tag types a component accepts: String, Compound, List; every other id is an error without a read *)
Theorem hook_accepts fuel lvl dep id s : id <> idString -> id <> idCompound -> id <> idList ->
  run_flat (cval (S fuel) CMsg lvl dep id) s = FErr eChatType.
Proof.
  intros H1 H2 H3. cbn [cval].
  apply N.eqb_neq in H1, H2, H3. rewrite H1, H2, H3. reflexivity.
Qed.
Theorem args_accepts fuel lvl dep id s : id <> idList -> id <> idByteArray -> id <> idIntArray -> id <> idLongArray ->
  run_flat (cval (S fuel) CArgs lvl dep id) s = FErr eChatType.
Proof.
  intros H1 H2 H3 H4. cbn [cval].
  apply N.eqb_neq in H1, H2, H3, H4. rewrite H1, H2, H3, H4. reflexivity.
Qed.

(* ------------------------------------------------------------------ the input of the defect report *)
(* 09, then k times (09 00 00 00 01), then 00 00 00 00 00: lists nested in lists, every level one hook *)
Fixpoint nest_lists (k : nat) : list N :=
  match k with O => [0; 0; 0; 0; 0] | S k' => [9; 0; 0; 0; 1] ++ nest_lists k' end.
Definition deep_lists (k : nat) : list N := 9 :: nest_lists k.

(* at the limit the component decodes, one level more is an error: checked by computation on the model
   (the same inputs run through the implementation in the harness) *)
Lemma deep_at_limit : chat_outcome 3000 (deep_lists 512) = (0, 0).
Proof. vm_compute. reflexivity. Qed.
Lemma deep_over_limit : chat_outcome 3000 (deep_lists 513) = (1, 0).
Proof. vm_compute. reflexivity. Qed.

(* the field tables the model walks ARE the tag tables rendered from the source on this run *)
Lemma rows_translated : msg_rows = rows chat_Message_fields /\ click_rows = rows chat_ClickEvent_fields
  /\ hover_rows = rows chat_HoverEvent_fields.
Proof. repeat split; vm_compute; reflexivity. Qed.
