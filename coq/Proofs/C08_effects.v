(* C08 phase 6: the read effects of the decoder interpretations (Model/C08_syntax.v eff_varint / eff_string /
   eff_bool, built on rd_varint / rd_lenbytes / ReadByte) ARE the TRANSLATED readers of net/packet:
   Gen/C05gen.v packet_VarInt_ReadFrom_io, Gen/C06gen.v packet_String_ReadFrom_io (= Identifier) and
   packet_Boolean_ReadFrom_io, followed by the continuation - on every stream of bytes. *)
From Coq Require Import List Arith NArith ZArith Lia Bool.
From GoMC Require Import Base.Bytes Base.Dec Model.C05 Proofs.C05 Model.C06 Model.C08 Model.C08_syntax
  Gen.C05gen Gen.C06gen Proofs.C05_tie_r Proofs.C06_tie_r Proofs.C06_tie_closed Proofs.C08_skel.
Import ListNotations.
Open Scope N_scope.

Lemma rd_varint_translated br s :
  run_flat rd_varint s = fmapr fst (run_flat (C05gen.packet_VarInt_ReadFrom_io br) s).
Proof.
  rewrite translated_varint_rd, run_varint_rd. unfold rd_varint.
  rewrite run_flat_bind by apply read32_robust.
  destruct (run_flat read32 s) as [[l n] rest| | |]; reflexivity.
Qed.

Lemma rd_lenbytes_model s :
  run_flat rd_lenbytes s = fmapr (fun v : fval * N => fst (bytes_of (fst v))) (run_flat r_string s).
Proof.
  unfold rd_lenbytes, r_string.
  rewrite (run_flat_bind rd_varint) by apply rd_varint_robust.
  rewrite (run_flat_bind read32) by apply read32_robust.
  unfold rd_varint. rewrite run_flat_bind by apply read32_robust.
  destruct (run_flat read32 s) as [[l n] rest| | |]; try reflexivity. cbn [run_flat].
  destruct (l <? 0)%Z; [reflexivity|]. cbn [run_flat]. destruct (Z.to_N l <=? lenN rest); reflexivity.
Qed.
Lemma rd_lenbytes_translated br s : all_bytes s ->
  run_flat rd_lenbytes s =
  fmapr (fun p : list Z * Z => map Z.to_N (fst p))
        (run_flat (C06gen.packet_String_ReadFrom_io (C05gen.packet_VarInt_ReadFrom_io br)) s).
Proof.
  intros Hs. rewrite rd_lenbytes_model, <- (closed_String_read br s Hs).
  destruct (run_flat _ s) as [[bs n] rest| | |]; reflexivity.
Qed.

Lemma read_bool_translated {A} (k : bool -> dec A) s : all_bytes s ->
  run_flat (ReadByte (fun b => k (negb (b =? 0)))) s =
  match run_flat C06gen.packet_Boolean_ReadFrom_io s with
  | FOk (v, _) r => run_flat (k v) r | FErr e => FErr e | FPanic w => FPanic w | FFuel => FFuel end.
Proof.
  intros Hs. pose proof (tie_Boolean_read s Hs) as T. unfold r_bool in T. cbn [run_flat] in *.
  destruct s as [|b s']; [destruct (run_flat packet_Boolean_ReadFrom_io []) as [[v n] r| | |]; cbn in T; try discriminate; congruence|].
  destruct (run_flat packet_Boolean_ReadFrom_io (b :: s')) as [[v n] r| | |]; cbn [fmapr run_flat] in T; try discriminate.
  unfold inj_b in T. cbn [fst snd] in T. inversion T. reflexivity.
Qed.

(* the three effects, with their continuation *)
Theorem eff_varint_translated {S} br (set : S -> Z -> S) σ k s :
  run_flat (eff_varint set σ k) s =
  match run_flat (C05gen.packet_VarInt_ReadFrom_io br) s with
  | FOk (z, _) r => run_flat (k (set σ z)) r | FErr e => FErr e | FPanic w => FPanic w | FFuel => FFuel end.
Proof.
  unfold eff_varint. rewrite run_flat_bind by apply rd_varint_robust. rewrite (rd_varint_translated br).
  destruct (run_flat _ s) as [[z n] r| | |]; reflexivity.
Qed.
Theorem eff_string_translated {S} br (set : S -> list N -> S) σ k s : all_bytes s ->
  run_flat (eff_string set σ k) s =
  match run_flat (C06gen.packet_String_ReadFrom_io (C05gen.packet_VarInt_ReadFrom_io br)) s with
  | FOk (bs, _) r => run_flat (k (set σ (map Z.to_N bs))) r | FErr e => FErr e | FPanic w => FPanic w | FFuel => FFuel end.
Proof.
  intros Hs. unfold eff_string. rewrite run_flat_bind by apply rd_lenbytes_robust. rewrite (rd_lenbytes_translated br s Hs).
  destruct (run_flat _ s) as [[bs n] r| | |]; reflexivity.
Qed.
Theorem eff_bool_translated {S} (set : S -> bool -> S) σ (k : S -> dec unit) s : all_bytes s ->
  run_flat (eff_bool set σ k) s =
  match run_flat C06gen.packet_Boolean_ReadFrom_io s with
  | FOk (v, _) r => run_flat (k (set σ v)) r | FErr e => FErr e | FPanic w => FPanic w | FFuel => FFuel end.
Proof. intros Hs. unfold eff_bool. apply (read_bool_translated (fun v => k (set σ v)) s Hs). Qed.
