(* C08: the statement shapes of the translated functions as they were when the model was written
   (recorded from Gen/C08gen.v; compared by the *_skel_ok obligations of Proofs/C08_tie.v).  A swapped,
   dropped or added statement, a changed condition, bound, index or slice expression, a changed
   constant or error text changes the generated shape and breaks the corresponding obligation. *)
From Coq Require Import List String.
From GoMC Require Import Model.C08_syntax.
Local Open Scope string_scope.

Definition expected_sp_Parse : list sstmt :=
  SIf "switch s clauses: 2 1 0 default"
         (SIf "switch s case 2" (SReturn "return """", cmd, nil" :: nil)
            (SIf "switch s case 1 fallthrough"
               (SIf "len(cmd) > 0 && cmd[0] == '""'"
                  (SSet "var sb strings.Builder"
                   :: SSet "var isEscaping bool"
                      :: SRange "for i, v := range cmd[1:]"
                           (SIf "isEscaping"
                              (SSet "isEscaping = false"
                               :: SIf "switch v clauses: '\\' '""'"
                                    (SIf "switch v case '\\'" (SSet "sb.WriteRune('\\')" :: nil)
                                       (SIf "switch v case '""'" (SSet "sb.WriteRune('""')" :: nil) nil :: nil) :: nil) nil :: nil)
                              (SIf "v == '\\'" (SSet "isEscaping = true" :: nil)
                                 (SIf "v == '""'" (SReturn "return cmd[:i], sb.String(), nil" :: nil) (SSet "sb.WriteRune(v)" :: nil) :: nil) :: nil) :: nil)
                         :: SReturn "return cmd, nil, ParseErr{ Pos: len(cmd) - 1, Err: ""expected '\""'"", }" :: nil) nil
                :: SSet "i := strings.IndexAny(cmd, ""\t\n\v\f\r "")"
                   :: SIf "i == -1" (SReturn "return """", cmd, nil" :: nil) nil :: SReturn "return cmd[i:], cmd[:i], nil" :: nil)
               (SIf "switch s case 0"
                  (SSet "i := strings.IndexAny(cmd, ""\t\n\v\f\r "")"
                   :: SIf "i == -1" (SReturn "return """", cmd, nil" :: nil) nil :: SReturn "return cmd[i:], cmd[:i], nil" :: nil)
                  (SSet "default:" :: SPanic "panic(""StringParser: unknown format 0x"" + strconv.FormatInt(int64(s), 16))" :: nil) :: nil) :: nil) :: nil) nil
       :: nil.

Definition expected_node_parse : list sstmt :=
  SIf "switch n.kind & 0x03 clauses: RootNode LiteralNode ArgumentNode default"
         (SIf "switch n.kind & 0x03 case RootNode" (SSet "left = cmd" :: SSet "value = nil" :: SSet "err = nil" :: nil)
            (SIf "switch n.kind & 0x03 case LiteralNode"
               (SIf "!strings.HasPrefix(cmd, n.Name)" (SPanic "panic(""expect "" + cmd + "" prefixed with "" + n.Name)" :: nil) nil
                :: SSet "left = strings.TrimPrefix(cmd, n.Name)" :: SSet "value = LiteralData(n.Name)" :: nil)
               (SIf "switch n.kind & 0x03 case ArgumentNode" (SSet "left, value, err = n.Parser.Parse(cmd)" :: nil)
                  (SSet "default:" :: SPanic "panic(""unreachable"")" :: nil) :: nil) :: nil) :: nil) nil :: SReturn "return" :: nil.

Definition expected_node_next : list sstmt :=
  SIf "len(n.Children) == 0" (SReturn "return 0, nil" :: nil) nil
       :: SIf "switch n.g.nodes[n.Children[0]].kind & 0x03 clauses: RootNode default LiteralNode ArgumentNode"
            (SIf "switch n.g.nodes[n.Children[0]].kind & 0x03 case RootNode" (SPanic "panic(""root node can't be child"")" :: nil)
               (SIf "switch n.g.nodes[n.Children[0]].kind & 0x03 case LiteralNode"
                  (SSet "_, value, err := StringParser(0).Parse(strings.TrimSpace(left))"
                   :: SIf "err != nil" (SReturn "return 0, err" :: nil) nil
                      :: SSet "literal := value.(string)"
                         :: SRange "for _, i := range n.Children" (SIf "n.g.nodes[i].Name == literal" (SSet "next = i" :: SBreak :: nil) nil :: nil) :: nil)
                  (SIf "switch n.g.nodes[n.Children[0]].kind & 0x03 case ArgumentNode" (SSet "next = n.Children[0]" :: nil)
                     (SSet "default:" :: SPanic "panic(""unreachable"")" :: nil) :: nil) :: nil) :: nil) nil :: SReturn "return" :: nil.

Definition expected_Execute : list sstmt :=
  SSet "var args []ParsedData"
       :: SSet "node := g.nodes[0]"
          :: SLoop
               (SSet "left, value, err := node.parse(cmd)"
                :: SIf "err != nil" (SReturn "return err" :: nil) nil
                   :: SSet "args = append(args, value)"
                      :: SSet "left = strings.TrimSpace(left)"
                         :: SIf "len(left) == 0"
                              (SIf "node.Run == nil" (SReturn "return errors.New(""incomplete command"")" :: nil) nil
                               :: SReturn "return node.Run(ctx, args)" :: nil) nil
                            :: SSet "next, err := node.next(left)"
                               :: SIf "err != nil" (SReturn "return err" :: nil) nil
                                  :: SIf "next == 0" (SReturn "return errors.New(""command contains extra text: "" + left)" :: nil) nil
                                     :: SSet "cmd = left" :: SSet "node = g.nodes[next]" :: nil) :: nil.

Definition expected_Registry_ReadFrom : list sstmt :=
  SSet "var length pk.VarInt"
       :: SEff "n, err := length.ReadFrom(r)"
          :: SIf "err != nil" (SReturn "return n, err" :: nil) nil
             :: SSet "reg.Clear()"
                :: SSet "var key pk.Identifier"
                   :: SSet "var hasData pk.Boolean"
                      :: SFor "i := 0; i < int(length); i++"
                           (SSet "var data E"
                            :: SSet "var n1, n2, n3 int64"
                               :: SEff "n1, err = key.ReadFrom(r)"
                                  :: SIf "err != nil" (SReturn "return n + n1, err" :: nil) nil
                                     :: SEff "n2, err = hasData.ReadFrom(r)"
                                        :: SIf "err != nil" (SReturn "return n + n1 + n2, err" :: nil) nil
                                           :: SIf "hasData"
                                                (SEff "n3, err = pk.NBTField{V: &data, AllowUnknownFields: true}.ReadFrom(r)"
                                                 :: SIf "err != nil" (SReturn "return n + n1 + n2 + n3, err" :: nil) nil
                                                    :: SSet "reg.Put(string(key), data)" :: nil) nil :: SSet "n += n1 + n2 + n3" :: nil)
                         :: SReturn "return n, nil" :: nil.

Definition expected_Registry_ReadTagsFrom : list sstmt :=
  SSet "var count pk.VarInt"
       :: SEff "n, err := count.ReadFrom(r)"
          :: SIf "err != nil" (SReturn "return n, err" :: nil) nil
             :: SSet "var tag pk.Identifier"
                :: SSet "var length pk.VarInt"
                   :: SFor "i := 0; i < int(count); i++"
                        (SSet "var n1, n2, n3 int64"
                         :: SEff "n1, err = tag.ReadFrom(r)"
                            :: SIf "err != nil" (SReturn "return n + n1, err" :: nil) nil
                               :: SEff "n2, err = length.ReadFrom(r)"
                                  :: SIf "err != nil" (SReturn "return n + n1 + n2, err" :: nil) nil
                                     :: SSet "n += n1 + n2"
                                        :: SIf "length < 0" (SReturn "return n, errors.New(""negative tag length: "" + strconv.Itoa(int(length)))" :: nil) nil
                                           :: SSet "values := make([]*E, 0, min(int(length), 1024))"
                                              :: SSet "var id pk.VarInt"
                                                 :: SFor "i := 0; i < int(length); i++"
                                                      (SEff "n3, err = id.ReadFrom(r)"
                                                       :: SIf "err != nil" (SReturn "return n + n3, err" :: nil) nil
                                                          :: SIf "id < 0 || int(id) >= len(reg.values)"
                                                               (SSet "err = errors.New(""invalid id: "" + strconv.Itoa(int(id)))"
                                                                :: SReturn "return n + n3, err" :: nil) nil
                                                             :: SSet "values = append(values, &reg.values[id])" :: SSet "n += n3" :: nil)
                                                    :: SSet "reg.tags[string(tag)] = values" :: nil) :: SReturn "return n, nil" :: nil.

Definition expected_idle_ReadFrom : list sstmt :=
  SSet "var count pk.VarInt"
       :: SSet "var tag pk.Identifier"
          :: SSet "var length pk.VarInt"
             :: SEff "n, err := count.ReadFrom(r)"
                :: SIf "err != nil" (SReturn "return n, err" :: nil) nil
                   :: SFor "i := 0; i < int(count); i++"
                        (SSet "var n1, n2, n3 int64"
                         :: SEff "n1, err = tag.ReadFrom(r)"
                            :: SIf "err != nil" (SReturn "return n + n1, err" :: nil) nil
                               :: SEff "n2, err = length.ReadFrom(r)"
                                  :: SIf "err != nil" (SReturn "return n + n1 + n2, err" :: nil) nil
                                     :: SSet "n += n1 + n2"
                                        :: SSet "var id pk.VarInt"
                                           :: SFor "i := 0; i < int(length); i++"
                                                (SEff "n3, err = id.ReadFrom(r)"
                                                 :: SIf "err != nil" (SReturn "return n + n3, err" :: nil) nil :: SSet "n += n3" :: nil) :: nil)
                      :: SReturn "return n, nil" :: nil.

Definition expected_update_tags : list sstmt :=
  SSet "const ErrStage = ""update tags"""
       :: SSet "r := bytes.NewReader(p.Data)"
          :: SSet "var length pk.VarInt"
             :: SEff "_, err := length.ReadFrom(r)"
                :: SIf "err != nil" (SReturn "return ConfigErr{ErrStage, err}" :: nil) nil
                   :: SSet "var registryID pk.Identifier"
                      :: SFor "i := 0; i < int(length); i++"
                           (SEff "_, err = registryID.ReadFrom(r)"
                            :: SIf "err != nil" (SReturn "return ConfigErr{ErrStage, err}" :: nil) nil
                               :: SSet "registry := c.Registries.Registry(string(registryID))"
                                  :: SIf "registry == nil"
                                       (SEff "_, err = idleTagsDecoder{}.ReadFrom(r)"
                                        :: SIf "err != nil" (SReturn "return ConfigErr{ErrStage, err}" :: nil) nil :: SContinue :: nil) nil
                                     :: SEff "_, err = registry.ReadTagsFrom(r)"
                                        :: SIf "err != nil" (SReturn "return ConfigErr{ErrStage, err}" :: nil) nil :: nil) :: nil.

