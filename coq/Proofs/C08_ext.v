(* C08 phase 6: the concrete foreign decoders of Model/C08_ext.v meet the hypotheses of the generic
   site theorem, so the site theorems hold with no hypothesis on any sub-decoder. *)
From Coq Require Import List Arith NArith ZArith Lia Bool String.
From GoMC Require Import Base.Bytes Base.Dec Gen.Consts Model.C01 Model.C03 Model.C03_syntax Gen.C03gen
  Model.C05 Model.C06 Model.C08 Model.C08_inst Model.C08_sites Model.C08_ext Model.C12 Model.C13 Model.C17 Gen.C08gen
  Proofs.C03 Proofs.C03_top Proofs.C03_st Proofs.C03_tie_top Proofs.C08_skel Proofs.C08_inst Proofs.C08_sites Proofs.C08_sites_tie
  Proofs.C12.
Import ListNotations.
Open Scope N_scope.

(* a decoder that starts with a ReadByte consumes input whenever it succeeds *)
Lemma headed_prog {A} (d : dec A) s : (exists k, d = ReadByte k) -> ok_or_err (run_flat d s) -> prog s (run_flat d s).
Proof.
  intros [k ->] H. cbn [run_flat] in *. destruct s as [|b s']; [exact I|].
  pose proof (rest_le_gen (k b) s') as R.
  destruct (run_flat (k b) s') as [a r| | |]; cbn [ok_or_err prog] in *; try tauto.
  specialize (R a r eq_refl). cbn [List.length]. lia.
Qed.
Lemma ok_prog0 {A} (d : dec A) s : ok_or_err (run_flat d s) -> prog0 s (run_flat d s).
Proof.
  intros H. pose proof (rest_le_gen d s) as R.
  destruct (run_flat d s) as [a r| | |]; cbn [ok_or_err prog0] in *; try tauto. eapply R; reflexivity.
Qed.
Lemma prog_ok {A} s (r : fres A) : prog s r -> ok_or_err r.
Proof. destruct r; cbn; auto. Qed.
Lemma dmap_ok {A B} (f : A -> B) (d : dec A) s : ok_or_err (run_flat d s) -> ok_or_err (run_flat (Model.C08_inst.dmap f d) s).
Proof. intros H. unfold Model.C08_inst.dmap. rewrite run_flat_bind_gen. destruct (run_flat d s); cbn in *; auto. Qed.

Section Ext.
  Variable tgt : nbt_target.
  Variables cs cb : N -> Model.C12.pc.
  Variable nsec : nat.
  Variable bits : list N.
  Variable json_parse : list N -> option json.
  Hypothesis Ws : forall i, wfcfg (ccfg (cs i)).
  Hypothesis Wb : forall i, wfcfg (ccfg (cb i)).
  Hypothesis Hn : N.of_nat nsec < 2^58.

  Lemma nbt_dec_prog fuel s : (List.length s < fuel)%nat ->
    prog s (run_flat (nbt_dec tgt (fuel + 2 + nbt_depth tgt)) s).
  Proof.
    intros Hf. apply headed_prog.
    - destruct tgt; cbn [nbt_dec]; eexists; reflexivity.
    - destruct tgt as [|g|ty cur]; cbn [nbt_dec nbt_depth]; apply dmap_ok, catch_end_total.
      + apply (prog_ok s). apply (C03_tie_top.decoder_total_translated Net (fuel + 2 + 0) s). lia.
      + apply (prog_ok s). apply (C03_tie_top.decoder_total_translated Net (fuel + 2 + 0) s). lia.
      + apply (prog_ok s). apply Decode_prog; [intros; apply dec_st_robust|].
        intros id r Hr. apply prog_prog0, dec_st_prog. lia.
  Qed.

  Lemma chunk_ext_prog fuel s : (List.length s < fuel)%nat ->
    prog s (run_flat (chunk_read_inst fuel cs cb nsec) s).
  Proof.
    intros Hf. apply headed_prog; [eexists; reflexivity|]. apply chunk_total_inst; assumption.
  Qed.

  Lemma chat_dec_prog fuel s : (List.length s < fuel)%nat -> prog s (run_flat (chat_dec (fuel + 2)) s).
  Proof.
    intros Hf. unfold chat_dec. apply prog_bind_l.
    - apply (C03_tie_top.decoder_total_translated Net (fuel + 2) s). lia.
    - intros a r _. destruct (of_tag_into msg0 (tag_of_aval (snd a))); [apply ret_prog0|exact I].
  Qed.

  Lemma json_dec_prog s : prog s (run_flat (json_dec json_parse) s).
  Proof.
    unfold json_dec. apply prog_bind_l; [apply rd_lenbytes_prog|]. intros x r _.
    destruct (json_parse x) as [j|]; [|exact I]. destruct (of_json_into msg0 j); [apply ret_prog0|exact I].
  Qed.

  Lemma fixed_dec_prog0 s : prog0 s (run_flat (fixed_dec bits) s).
  Proof.
    unfold fixed_dec, Model.C08_inst.dmap, r_fixedbitset. apply prog0_bind_gen.
    - apply readfull_prog0. intros; apply ret_prog0.
    - intros; apply ret_prog0.
  Qed.

  Theorem ext_inst_ok fuel :
    (forall k s, (List.length s < fuel)%nat -> prog0 s (run_flat (ext_inst tgt cs cb nsec bits json_parse fuel k) s)) /\
    (forall k s, (List.length s < fuel)%nat -> String.eqb k fixedbits = false ->
                 prog s (run_flat (ext_inst tgt cs cb nsec bits json_parse fuel k) s)).
  Proof.
    assert (P: forall k s, (List.length s < fuel)%nat ->
               (String.eqb k fixedbits = false -> prog s (run_flat (ext_inst tgt cs cb nsec bits json_parse fuel k) s)) /\
               prog0 s (run_flat (ext_inst tgt cs cb nsec bits json_parse fuel k) s)).
    { intros k s Hf. unfold ext_inst.
      destruct (String.eqb k "NBT"); [split; [intros _|apply prog_prog0]; apply nbt_dec_prog, Hf|].
      destruct (String.eqb k "level.Chunk"); [split; [intros _|apply prog_prog0]; apply chunk_ext_prog, Hf|].
      unfold fixedbits.
      destruct (String.eqb k "FixedBitSet"); [split; [discriminate|apply fixed_dec_prog0]|].
      destruct (String.eqb k "chat.Message"); [split; [intros _|apply prog_prog0]; apply chat_dec_prog, Hf|].
      destruct (String.eqb k "chat.JsonMessage"); [split; [intros _|apply prog_prog0]; apply json_dec_prog|].
      split; intros; exact I. }
    split; intros k s Hf; [apply P, Hf|intros E; apply P; assumption].
  Qed.

  (* the site theorems, closed *)
  Theorem scan_sites_total_closed oracle fuel : forall r, In r c08_scan_sites -> forall s, (List.length s < fuel)%nat ->
    prog0 s (run_flat (sdr (ext_inst tgt cs cb nsec bits json_parse fuel) oracle fuel (r_desc r)) s).
  Proof. destruct (ext_inst_ok fuel) as [H1 H2]. exact (scan_sites_total _ oracle fuel H1 H2). Qed.
  Theorem readfrom_sites_total_closed oracle fuel : forall r, In r c08_readfrom_sites -> forall s, (List.length s < fuel)%nat ->
    prog0 s (run_flat (sdr (ext_inst tgt cs cb nsec bits json_parse fuel) oracle fuel (r_desc r)) s).
  Proof. destruct (ext_inst_ok fuel) as [H1 H2]. exact (readfrom_sites_total _ oracle fuel H1 H2). Qed.
End Ext.
