(* C08 proofs, part 4: the packet field readers of C06 (read_f) return a value or an error - not NoFuel -
   once the fuel exceeds the input length, for every type in which no array element is zero-width.
   The zero-width types are characterised exactly: they always succeed without consuming anything, all
   others consume at least one byte when they succeed.  An array of zero-width elements is the one
   shape that spins: the loop runs the declared count without reading (refuted below). *)
From Coq Require Import List Arith NArith ZArith Lia Bool ZifyN ZifyNat ZifyBool.
From GoMC Require Import Base.Bytes Base.Dec Gen.Consts Model.C05 Proofs.C05 Model.C06 Proofs.C06_read
  Model.C08 Proofs.C03 Proofs.C08_skel.
Import ListNotations.
Open Scope N_scope.

(* types that put nothing on the wire: the empty Tuple, Opt with Has = false, and what is built from them *)
Fixpoint zw (t : fty) : bool :=
  match t with
  | TUnit => true
  | TOpt has e => if has then zw e else true
  | TPair a b => zw a && zw b
  | _ => false
  end.
(* no array (at any depth) has a zero-width element type *)
Fixpoint ary_ok (t : fty) : bool :=
  match t with
  | TAry _ e => negb (zw e) && ary_ok e
  | TOption e => ary_ok e
  | TOpt _ e => ary_ok e
  | TPair a b => ary_ok a && ary_ok b
  | _ => true
  end.

Lemma read64_prog s : prog s (run_flat read64 s).
Proof.
  unfold read64. rewrite run_flat_bind by apply read_var_robust. rewrite max_varlong_len.
  pose proof (read_var_prog 64 (Z.to_N 10) 12 0 s ltac:(reflexivity) ltac:(change (Z.to_N 10) with 10; lia)) as H.
  destruct (run_flat (read_var 64 (Z.to_N 10) 12 0 0) s) as [[u n] rest| | |]; cbn [prog] in *; auto.
Qed.

Lemma r_fixed_prog n c s : 0 < n -> prog s (run_flat (r_fixed n c) s).
Proof. intros Hn. unfold r_fixed. apply readfull_prog; [exact Hn|]. intros; apply ret_prog0. Qed.
Lemma byte_prog {A} (k : N -> A) s : prog s (run_flat (ReadByte (fun b => Ret (k b))) s).
Proof. cbn [run_flat]. destruct s; cbn; [exact I|lia]. Qed.

Lemma r_len_prog l s : prog s (run_flat (r_len l) s).
Proof.
  assert (F: forall n (k : list N -> Z * N), 0 < n -> prog s (run_flat (ReadFull n (fun bs => Ret (k bs))) s)).
  { intros n k Hn. apply readfull_prog; [exact Hn|intros; apply ret_prog0]. }
  destruct l; cbn [r_len];
    [apply read32_prog|apply read64_prog|apply byte_prog|apply byte_prog
    |apply F; reflexivity|apply F; reflexivity|apply F; reflexivity|apply F; reflexivity].
Qed.

Lemma pair_run {A B} (d : dec (A * N)) (f : A -> N -> dec B) s : robust d ->
  run_flat ('(a, n) <- d ;; f a n) s =
  match run_flat d s with FOk (a, n) r => run_flat (f a n) r | FErr e => FErr e | FPanic w => FPanic w | FFuel => FFuel end.
Proof. intros R. rewrite run_flat_bind by exact R. destruct (run_flat d s) as [[a n] r| | |]; reflexivity. Qed.

(* the element loop of Ary / BitSet: elements that consume keep the loop within the input length *)
Lemma r_elems_prog0 (re : fval -> rd) olds (B : nat) :
  (forall o, robust (re o)) ->
  (forall o s, (length s <= B)%nat -> prog s (run_flat (re o) s)) ->
  forall fuel i len s, (length s <= B)%nat -> (length s < fuel)%nat ->
  prog0 s (run_flat (r_elems fuel re olds i len) s).
Proof.
  intros Hr He. induction fuel as [|f IH]; intros i len s HB Hf; [lia|].
  cbn [r_elems]. destruct (len <=? i); [apply ret_prog0|].
  rewrite pair_run by apply Hr. specialize (He (olds i) s HB).
  destruct (run_flat (re (olds i)) s) as [[v n1] r| | |]; cbn [prog] in He; try contradiction; [|exact I].
  rewrite pair_run by (apply r_elems_robust; exact Hr).
  specialize (IH (i + 1) len r ltac:(lia) ltac:(lia)).
  destruct (run_flat (r_elems f re olds (i + 1) len) r) as [[vs n2] r2| | |]; cbn [prog0 run_flat] in *; auto. lia.
Qed.

Section Fuel.
  Variable fuel : nat.

  (* prog0 always; prog when the type is not zero-width *)
  Definition fine (t : fty) : Prop := forall old s, (length s < fuel)%nat ->
    prog0 s (run_flat (read_f fuel t old) s) /\ (zw t = false -> prog s (run_flat (read_f fuel t old) s)).

  Lemma fine_of_prog t : (forall old s, prog s (run_flat (read_f fuel t old) s)) -> fine t.
  Proof. intros H old s _. split; [apply prog_prog0, H|intros _; apply H]. Qed.

  Lemma lenpref_prog (body : Z -> N -> rd) s :
    (forall l n r, (length r < length s)%nat -> prog0 r (run_flat (body l n) r)) ->
    prog s (run_flat ('(l, n) <- read32 ;; body l n) s).
  Proof.
    intros Hb. rewrite pair_run by apply read32_robust. pose proof (read32_prog s) as P.
    destruct (run_flat read32 s) as [[l n] r| | |]; cbn [prog] in P; try contradiction; [|exact I].
    specialize (Hb l n r P). destruct (run_flat (body l n) r); cbn [prog prog0] in *; auto. lia.
  Qed.

  Theorem read_f_fine : forall t, ary_ok t = true -> fine t.
  Proof.
    induction t as [| | | | | | | | | | | | | | | | |l e IH|e IH|has e IH|a IHa b IHb|]; intros Hok;
      try (apply fine_of_prog; intros old s; cbn [read_f];
           first [ apply byte_prog | apply r_fixed_prog; reflexivity ]).
    - (* VarInt *) apply fine_of_prog. intros old s. cbn [read_f]. unfold r_varint.
      rewrite pair_run by apply read32_robust. pose proof (read32_prog s) as P.
      destruct (run_flat read32 s) as [[z n] r| | |]; cbn [prog run_flat] in *; auto.
    - (* VarLong *) apply fine_of_prog. intros old s. cbn [read_f]. unfold r_varlong.
      rewrite pair_run by apply read64_robust. pose proof (read64_prog s) as P.
      destruct (run_flat read64 s) as [[z n] r| | |]; cbn [prog run_flat] in *; auto.
    - (* String *) apply fine_of_prog. intros old s. cbn [read_f]. unfold r_string. apply lenpref_prog.
      intros l n r _. destruct (l <? 0)%Z; [exact I|]. apply readfull_prog0. intros; apply ret_prog0.
    - (* ByteArray *) apply fine_of_prog. intros old s. cbn [read_f]. unfold r_bytearray. apply lenpref_prog.
      intros l n r _. destruct (l <? 0)%Z; [exact I|].
      destruct (_ <? l)%Z; apply readfull_prog0; intros; apply ret_prog0.
    - (* UUID *) apply fine_of_prog. intros old s. cbn [read_f]. unfold r_uuid.
      apply readfull_prog; [reflexivity|intros; apply ret_prog0].
    - (* Position *) apply fine_of_prog. intros old s. cbn [read_f]. unfold r_pos.
      apply readfull_prog; [reflexivity|intros; apply ret_prog0].
    - (* BitSet *) intros old s Hf. assert (P: prog s (run_flat (read_f fuel TBitSet old) s)).
      { cbn [read_f]. unfold r_bitset. apply lenpref_prog. intros l n r Hr.
        destruct (l <? 0)%Z; [exact I|].
        rewrite pair_run by (apply r_elems_robust; intros; apply r_fixed_robust).
        pose proof (r_elems_prog0 (fun _ => r_long) (fun _ => VUnit) (length r)
                      ltac:(intros; apply r_fixed_robust) ltac:(intros; apply r_fixed_prog; reflexivity)
                      fuel 0 (Z.to_N l) r ltac:(lia) ltac:(lia)) as Q.
        destruct (run_flat (r_elems fuel _ _ 0 (Z.to_N l)) r) as [[vs n2] r2| | |]; cbn [prog0 run_flat] in *; auto. }
      split; [apply prog_prog0, P|intros _; exact P].
    - (* Ary *) cbn [ary_ok] in Hok. apply andb_true_iff in Hok. destruct Hok as [Hz He].
      apply negb_true_iff in Hz. specialize (IH He).
      intros old s Hf. assert (P: prog s (run_flat (read_f fuel (TAry l e) old) s)).
      { cbn [read_f]. unfold r_ary. rewrite pair_run by apply r_len_robust. pose proof (r_len_prog l s) as P.
        destruct (run_flat (r_len l) s) as [[len n] r| | |]; cbn [prog] in P; try contradiction; [|exact I].
        destruct (len <? 0)%Z; [exact I|]. cbv zeta.
        rewrite pair_run by (apply r_elems_robust; intros; apply read_f_robust).
        match goal with |- context [r_elems fuel ?re ?olds 0 ?n] =>
          pose proof (r_elems_prog0 re olds (length r) ltac:(intros; apply read_f_robust)
                        ltac:(intros o s' Hs'; apply (IH o s'); [lia|exact Hz]) fuel 0 n r ltac:(lia) ltac:(lia)) as Q;
          destruct (run_flat (r_elems fuel re olds 0 n) r) as [[vs n2] r2| | |]
        end; cbn [prog0 prog run_flat] in *; auto. lia. }
      split; [apply prog_prog0, P|intros _; exact P].
    - (* Option *) cbn [ary_ok] in Hok. specialize (IH Hok).
      intros old s Hf. assert (P: prog s (run_flat (read_f fuel (TOption e) old) s)).
      { cbn [read_f]. unfold r_option. cbv zeta. rewrite pair_run by (constructor; intros; constructor).
        unfold r_bool. cbn [run_flat]. destruct s as [|b s']; [exact I|]. cbn [length] in Hf.
        destruct (bof (VB (negb (b =? 0)))); [|cbn; lia].
        rewrite pair_run by apply read_f_robust.
        match goal with |- context [run_flat (read_f fuel e ?o) s'] =>
          destruct (IH o s' ltac:(lia)) as [Q _]; destruct (run_flat (read_f fuel e o) s') as [[v n2] r2| | |]
        end; cbn [prog0 prog run_flat length] in *; auto. lia. }
      split; [apply prog_prog0, P|intros _; exact P].
    - (* Opt *) cbn [ary_ok] in Hok. specialize (IH Hok). intros old s Hf. cbn [read_f zw].
      destruct has; [apply IH; exact Hf|]. split; [apply ret_prog0|discriminate].
    - (* Pair *) cbn [ary_ok] in Hok. apply andb_true_iff in Hok. destruct Hok as [Ha Hb].
      specialize (IHa Ha). specialize (IHb Hb). intros old s Hf. cbn [read_f zw]. unfold r_pair. cbv zeta.
      rewrite pair_run by apply read_f_robust.
      match goal with |- context [run_flat (read_f fuel a ?o) s] =>
        destruct (IHa o s Hf) as [Qa Pa]; destruct (run_flat (read_f fuel a o) s) as [[va na] r1| | |]
      end; cbn [prog0] in Qa; try contradiction; [|split; [exact I|intros; exact I]].
      rewrite pair_run by apply read_f_robust.
      match goal with |- context [run_flat (read_f fuel b ?o) r1] =>
        destruct (IHb o r1 ltac:(lia)) as [Qb Pb]; destruct (run_flat (read_f fuel b o) r1) as [[vb nb] r2| | |]
      end; cbn [prog0] in Qb; try contradiction; [|split; [exact I|intros; exact I]].
      cbn [run_flat prog0 prog]. split; [lia|]. intros Z. apply andb_false_iff in Z. destruct Z as [Z|Z].
      + specialize (Pa Z). cbn [prog] in Pa. lia.
      + specialize (Pb Z). cbn [prog] in Pb. lia.
    - (* Unit *) intros old s Hf. cbn [read_f zw]. split; [apply ret_prog0|discriminate].
  Qed.
End Fuel.

Theorem field_total fuel t old s : ary_ok t = true -> (length s < fuel)%nat ->
  ok_or_err (run_flat (read_f fuel t old) s).
Proof. intros Hok Hf. apply (prog0_ok s). apply (read_f_fine fuel t Hok old s Hf). Qed.

Theorem field_consumes fuel t old s : ary_ok t = true -> zw t = false -> (length s < fuel)%nat ->
  prog s (run_flat (read_f fuel t old) s).
Proof. intros Hok Hz Hf. apply (read_f_fine fuel t Hok old s Hf). exact Hz. Qed.

(* zero-width types read nothing and cannot fail: the characterisation is exact *)
Theorem zero_width_reads_nothing fuel : forall t old s, zw t = true ->
  exists v, run_flat (read_f fuel t old) s = FOk (v, 0) s.
Proof.
  induction t as [| | | | | | | | | | | | | | | | |l e IH|e IH|has e IH|a IHa b IHb|]; intros old s Hz;
    cbn [zw] in Hz; try discriminate.
  - cbn [read_f]. destruct has; [apply IH; exact Hz|]. eexists; reflexivity.
  - apply andb_true_iff in Hz. destruct Hz as [Za Zb]. cbn [read_f]. unfold r_pair. cbv zeta.
    rewrite pair_run by apply read_f_robust.
    match goal with |- context [run_flat (read_f fuel a ?o) s] => destruct (IHa o s Za) as [va Ea]; rewrite Ea end.
    rewrite pair_run by apply read_f_robust.
    match goal with |- context [run_flat (read_f fuel b ?o) s] => destruct (IHb o s Zb) as [vb Eb]; rewrite Eb end.
    eexists; reflexivity.
  - eexists; reflexivity.
Qed.

(* Scan of a whole packet *)
Theorem scan_total fuel : forall fs s, forallb (fun f => ary_ok (fst f)) fs = true -> (length s < fuel)%nat ->
  prog0 s (run_flat (scan fuel fs) s).
Proof.
  induction fs as [|[t old] fs IH]; intros s Hok Hf; cbn [scan]; [apply ret_prog0|].
  cbn [forallb fst] in Hok. apply andb_true_iff in Hok. destruct Hok as [H1 H2].
  rewrite pair_run by apply read_f_robust.
  destruct (read_f_fine fuel t H1 old s Hf) as [Q _].
  destruct (run_flat (read_f fuel t old) s) as [[v n] r| | |]; cbn [prog0] in Q; try contradiction; [|exact I].
  rewrite run_flat_bind by apply scan_robust.
  specialize (IH r H2 ltac:(lia)).
  destruct (run_flat (scan fuel fs) r) as [vs r2| | |]; cbn [prog0 run_flat] in *; auto. lia.
Qed.
