(* C08 proofs, part 3: the skeletons of part 2 with the sub-decoders of the owning properties put in:
   C13's height-map decoder and RawMessage decoder (over C01's NBT model, totality from C03), C12's
   PaletteContainer.ReadFrom (totality proved here from C05 and C11), C03's typed struct decoder for
   registry entries.  No hypothesis about a sub-decoder is left.

   The owners' decoders carry their own fuel, so the Section of part 2 is redone with hypotheses that
   only speak about inputs up to a length B. *)
From Coq Require Import List Arith NArith ZArith Lia Bool ZifyN ZifyNat ZifyBool.
From GoMC Require Import Base.Bytes Base.Dec Gen.Consts Model.C01 Model.C03 Model.C05 Proofs.C05 Model.C06 Model.C11
  Model.C12 Model.C13 Model.C08 Model.C08_inst
  Proofs.C01 Proofs.C03 Proofs.C03_top Proofs.C03_st Proofs.C11_wire Proofs.C12 Proofs.C12_wire Proofs.C13_nbt Proofs.C13_wire
  Proofs.C08_skel.
Import ListNotations.
Open Scope N_scope.

(* ---------------------------------------------------------------- generic *)
(* no decoder of the reader monad gives input back *)
Lemma run_rest_le {A} (d : dec A) : forall s a r, run_flat d s = FOk a r -> (length r <= length s)%nat.
Proof.
  induction d as [a0|e|w| |k IH|n k IH|n k IH]; intros s a r H; cbn [run_flat] in H; try discriminate.
  - inversion H; subst. lia.
  - destruct s as [|b s']; [discriminate|]. apply IH in H. cbn [length]. lia.
  - destruct (n <=? lenN s); [|discriminate]. apply IH in H. unfold dropN in H. rewrite skipn_length in H. lia.
  - destruct (n <=? lenN s).
    + apply IH in H. unfold dropN in H. rewrite skipn_length in H. lia.
    + destruct s as [|b s']; [destruct (n =? 0); [|discriminate]|]; apply IH in H; cbn [length] in *; lia.
Qed.
Lemma total_prog0 {A} (d : dec A) s : ok_or_err (run_flat d s) -> prog0 s (run_flat d s).
Proof.
  intros H. destruct (run_flat d s) as [a r| | |] eqn:E; cbn [ok_or_err prog0] in *; auto.
  eapply run_rest_le; eauto.
Qed.
Lemma prog_total {A} s (r : fres A) : prog s r -> ok_or_err r.
Proof. destruct r; cbn; auto. Qed.

(* mapping the result of a decoder *)
Lemma dmap_robust {A B} (f : A -> B) d : robust d -> robust (dmap f d).
Proof. intros R. unfold dmap. apply robust_bind; [exact R|]. intros; constructor. Qed.
Lemma dmap_total {A B} (f : A -> B) d s : robust d -> ok_or_err (run_flat d s) -> ok_or_err (run_flat (dmap f d) s).
Proof. intros R H. unfold dmap. rewrite run_flat_bind by exact R. destruct (run_flat d s); cbn in *; auto. Qed.
Lemma dmap_run {A B} (f : A -> B) d s : robust d ->
  run_flat (dmap f d) s = match run_flat d s with FOk a r => FOk (f a) r | FErr e => FErr e | FPanic w => FPanic w | FFuel => FFuel end.
Proof. intros R. unfold dmap. rewrite run_flat_bind by exact R. destruct (run_flat d s); reflexivity. Qed.

(* errors.Is(err, nbt.ErrEND): catching the END error keeps totality *)
Lemma catch_end_total {A} (d : dec A) : forall s, ok_or_err (run_flat d s) -> ok_or_err (run_flat (catch_end d) s).
Proof.
  induction d as [a0|e|w| |k IH|n k IH|n k IH]; intros s H; cbn [catch_end run_flat] in *; auto.
  - destruct (e =? C01.eEND); exact I.
  - destruct s; auto.
  - destruct (n <=? lenN s); auto.
  - destruct (n <=? lenN s); auto. destruct s; [destruct (n =? 0)|]; auto.
Qed.

Lemma rd_lenbytes_len s data r : run_flat rd_lenbytes s = FOk data r -> (length data <= length s)%nat.
Proof.
  unfold rd_lenbytes. rewrite run_flat_bind by apply rd_varint_robust.
  pose proof (rd_varint_prog s) as P.
  destruct (run_flat rd_varint s) as [l r1| | |]; cbn [prog] in P; try discriminate.
  destruct (l <? 0)%Z; [discriminate|]. cbn [run_flat].
  destruct (N.leb_spec (Z.to_N l) (lenN r1)) as [L|L]; [|discriminate].
  intros H. inversion H; subst. unfold takeN. rewrite firstn_length. lia.
Qed.

(* ---------------------------------------------------------------- the skeletons, bounded hypotheses *)
Section Bounded.
  Variable B : nat.
  Variable nbt_hm : dec (option N * option N).
  Variable nbt_raw : N -> dec unit.
  Variable states biomes : N -> dec unit.
  Hypothesis hm_r : robust nbt_hm.
  Hypothesis hm_t : forall s, (length s <= B)%nat -> ok_or_err (run_flat nbt_hm s).
  Hypothesis raw_r : forall j, robust (nbt_raw j).
  Hypothesis raw_t : forall j s, (length s <= B)%nat -> ok_or_err (run_flat (nbt_raw j) s).
  Hypothesis st_r : forall i, robust (states i).
  Hypothesis st_t : forall i s, (length s <= B)%nat -> ok_or_err (run_flat (states i) s).
  Hypothesis bi_r : forall i, robust (biomes i).
  Hypothesis bi_t : forall i s, (length s <= B)%nat -> ok_or_err (run_flat (biomes i) s).

  Lemma b_block_entity_robust j : robust (block_entity nbt_raw j).
  Proof.
    unfold block_entity. constructor. intros _. constructor. intros _.
    apply robust_bind; [apply rd_varint_robust|]. intros _. apply raw_r.
  Qed.
  Lemma b_block_entity_prog j s : (length s <= B)%nat -> prog s (run_flat (block_entity nbt_raw j) s).
  Proof.
    intros HB. unfold block_entity. cbn [run_flat]. destruct s as [|b s']; [exact I|].
    assert (P: prog0 s' (run_flat (ReadFull 2 (fun _ => _ <- rd_varint ;; nbt_raw j)) s')).
    { apply readfull_prog0. intros bs r Hr.
      apply prog0_bind; [apply rd_varint_robust|apply prog_prog0, rd_varint_prog|]. intros l r' Hr'.
      apply total_prog0, raw_t. cbn [length] in HB. clear - HB Hr Hr'. lia. }
    change (prog (b :: s') (run_flat (ReadFull 2 (fun _ => _ <- rd_varint ;; nbt_raw j)) s')).
    destruct (run_flat (ReadFull 2 (fun _ => _ <- rd_varint ;; nbt_raw j)) s'); cbn [prog prog0 length] in P |- *;
      [clear - P; lia|exact I|exact P|exact P].
  Qed.

  Lemma b_section_robust i : robust (section states biomes i).
  Proof. unfold section. constructor. intros _. apply robust_bind; [apply st_r|intros _; apply bi_r]. Qed.
  Lemma b_section_prog0 i s : (length s <= B)%nat -> prog0 s (run_flat (section states biomes i) s).
  Proof.
    intros HB. unfold section. apply readfull_prog0. intros bs r Hr.
    apply prog0_bind; [apply st_r|apply total_prog0, st_t; clear - HB Hr; lia|]. intros _ r' Hr'.
    apply total_prog0, bi_t. clear - HB Hr Hr'. lia.
  Qed.
  Lemma b_sections_prog0 : forall k i s, (length s <= B)%nat -> prog0 s (run_flat (sections states biomes k i) s).
  Proof.
    induction k as [|k IH]; intros i s HB; cbn [sections]; [apply ret_prog0|].
    apply prog0_bind; [apply b_section_robust|apply b_section_prog0; exact HB|]. intros _ r Hr. apply IH.
    clear - HB Hr. lia.
  Qed.
  Lemma b_put_data_total nsec data s : (length data <= B)%nat ->
    ok_or_err (run_flat (put_data states biomes nsec data) s).
  Proof.
    intros HB. apply (prog0_ok s). unfold put_data. apply on_buffer_prog0. apply (prog0_ok data).
    apply b_sections_prog0. exact HB.
  Qed.

  Theorem b_chunk_read_total fuel nsec s :
    calc_size (bits_for_height nsec) 256 <> None -> (length s < fuel)%nat -> (length s <= B)%nat ->
    ok_or_err (run_flat (chunk_read nbt_hm nbt_raw states biomes fuel nsec) s).
  Proof.
    intros Hc Hf HB. unfold chunk_read.
    rewrite run_flat_bind by apply hm_r.
    pose proof (total_prog0 _ _ (hm_t s HB)) as P1.
    destruct (run_flat nbt_hm s) as [hm r1| | |]; cbn [prog0] in P1; try contradiction; [|exact I].
    rewrite run_flat_bind by apply rd_lenbytes_robust.
    pose proof (rd_lenbytes_prog r1) as P2. pose proof (rd_lenbytes_len r1) as L2.
    destruct (run_flat rd_lenbytes r1) as [data r2| | |]; cbn [prog] in P2; try contradiction; [|exact I].
    specialize (L2 data r2 eq_refl).
    apply (prog0_ok r2).
    apply prog0_bind; [apply rd_ary_robust; apply b_block_entity_robust| |].
    { apply prog_prog0. apply rd_ary_prog with (B := length r2); auto; try (clear - P1 P2 Hf; lia);
        intros; [apply b_block_entity_robust|apply b_block_entity_prog; clear - P1 P2 HB H; lia]. }
    intros _ r3 H3.
    apply prog0_bind; [apply light_data_robust|apply light_data_prog0; clear - P1 P2 H3 Hf; lia|]. intros _ r4 H4.
    destruct (calc_size (bits_for_height nsec) 256) as [want|]; [|congruence].
    destruct (_ || _); [exact I|].
    unfold put_data. apply on_buffer_prog0. apply (prog0_ok data). apply b_sections_prog0.
    clear - P1 L2 HB. lia.
  Qed.
End Bounded.

Section BoundedRegistry.
  Variable B : nat.
  Variable nbt_entry : N -> dec unit.
  Hypothesis en_r : forall i, robust (nbt_entry i).
  Hypothesis en_t : forall i s, (length s <= B)%nat -> ok_or_err (run_flat (nbt_entry i) s).

  Theorem b_registry_read_total fuel s : (length s < fuel)%nat -> (length s <= B)%nat ->
    ok_or_err (run_flat (registry_read nbt_entry fuel) s).
  Proof.
    intros Hf HB. apply (prog0_ok s). unfold registry_read.
    apply prog0_bind; [apply rd_varint_robust|apply prog_prog0, rd_varint_prog|]. intros l r Hr.
    apply rep_prog0 with (B := length r); auto; try (clear - Hr Hf; lia).
    - intros i. apply robust_bind; [apply rd_lenbytes_robust|]. intros _. constructor. intros b.
      destruct (b =? 0); [constructor|apply en_r].
    - intros i s' Hs'. apply prog_bind; [apply rd_lenbytes_robust|apply rd_lenbytes_prog|]. intros _ r' Hr'.
      cbn [run_flat]. destruct r' as [|b r'']; [exact I|].
      destruct (b =? 0); [cbn [run_flat prog0 length]; lia|].
      assert (P: prog0 r'' (run_flat (nbt_entry i) r'')).
      { apply total_prog0, en_t. cbn [length] in Hr'. clear - Hr' Hs' Hr HB. lia. }
      destruct (run_flat (nbt_entry i) r''); cbn [prog0 length] in P |- *;
        [clear - P Hr'; cbn [length] in Hr'; lia|exact I|exact P|exact P].
  Qed.
End BoundedRegistry.

(* ---------------------------------------------------------------- C12's PaletteContainer.ReadFrom is total *)
Lemma read_vals_prog0 : forall fuel cnt acc n s, (length s < fuel)%nat ->
  prog0 s (run_flat (read_vals fuel cnt acc n) s).
Proof.
  induction fuel as [|f IH]; intros cnt acc n s Hf; [lia|]. cbn [read_vals].
  destruct (cnt <=? 0)%Z; [apply ret_prog0|].
  rewrite run_flat_bind by apply read32_robust. pose proof (read32_prog s) as P.
  destruct (run_flat read32 s) as [[v m] r| | |]; cbn [prog] in P; try contradiction; [|exact I].
  specialize (IH (cnt - 1)%Z (v :: acc) (n + m) r ltac:(lia)).
  destruct (run_flat (read_vals f (cnt - 1) (v :: acc) (n + m)) r); cbn [prog0] in *; auto. lia.
Qed.
Lemma read_sized_prog0 fuel cap pb mk s : (length s < fuel)%nat -> prog0 s (run_flat (read_sized fuel cap pb mk) s).
Proof.
  intros Hf. unfold read_sized. rewrite run_flat_bind by apply read32_robust. pose proof (read32_prog s) as P.
  destruct (run_flat read32 s) as [[size n] r| | |]; cbn [prog] in P; try contradiction; [|exact I].
  destruct (size <? 0)%Z; [exact I|].
  destruct (2 ^ pb <? size)%Z; [exact I|].
  rewrite run_flat_bind by apply read_vals_robust.
  pose proof (read_vals_prog0 fuel size [] 0 r ltac:(lia)) as Q.
  destruct (run_flat (read_vals fuel size [] 0) r) as [[vs m] r2| | |]; cbn [prog0 run_flat] in *; auto. lia.
Qed.
Lemma c12_pal_read_prog0 fuel p s : (length s < fuel)%nat -> prog0 s (run_flat (Model.C12.pal_read fuel p) s).
Proof.
  intros Hf. destruct p as [v|vals cap pb|vals cap pb|]; cbn [Model.C12.pal_read].
  - rewrite run_flat_bind by apply read32_robust. pose proof (read32_prog s) as P.
    destruct (run_flat read32 s) as [[v' n] r| | |]; cbn [prog prog0 run_flat] in *; auto. lia.
  - apply read_sized_prog0, Hf.
  - apply read_sized_prog0, Hf.
  - apply ret_prog0.
Qed.

Lemma cfg_bits_range cf b : wfcfg cf -> (0 <= Model.C12.cfg_bits cf b <= 31)%Z.
Proof.
  unfold wfcfg, Model.C12.cfg_bits, in_range. intros W. destruct (ckind cf).
  - destruct (b =? 0)%Z; [lia|]. destruct ((1 <=? b) && (b <=? 4))%Z eqn:E1; [lia|].
    destruct ((5 <=? b) && (b <=? 8))%Z eqn:E2; lia.
  - destruct (b =? 0)%Z; [lia|]. destruct ((1 <=? b) && (b <=? 3))%Z eqn:E1; lia.
Qed.
Lemma bs_fix_no_panic st b : (0 <= b <= 64)%Z -> forall w, snd (bs_fix st b) <> OPanic w.
Proof.
  intros Hb w. unfold bs_fix. destruct (Z.eqb_spec b 0); [cbn; discriminate|].
  destruct (Z.ltb_spec b 0); [lia|]. unfold calc_size. destruct (Z.eqb_spec b 0); [lia|].
  assert (Q: (1 <= Z.quot 64 b)%Z) by (apply Z.quot_le_lower_bound; lia).
  destruct (Z.eqb_spec (Z.quot 64 b) 0); [lia|]. cbn zeta.
  destruct (_ =? _)%Z; cbn; discriminate.
Qed.

Theorem c12_pc_read_total fuel c s : wfcfg (ccfg c) -> (length s < fuel)%nat ->
  ok_or_err (run_flat (Model.C12.pc_read fuel c) s).
Proof.
  intros W Hf. unfold Model.C12.pc_read. cbn [run_flat]. destruct s as [|nb s']; [exact I|].
  cbn [length] in Hf. cbv zeta.
  rewrite run_flat_bind by apply pal_read_robust.
  pose proof (c12_pal_read_prog0 fuel (cfg_create (ccfg c) (Z.of_N (nb mod 256))) s' ltac:(lia)) as P.
  destruct (run_flat (Model.C12.pal_read fuel _) s') as [[p1 n1] r1| | |]; cbn [prog0] in P; try contradiction; [|exact I].
  rewrite run_flat_bind by apply Proofs.C11_wire.read_robust.
  pose proof (Proofs.C11_wire.read_total (cdata c) r1) as T.
  destruct (run_flat (bs_read (cdata c)) r1) as [[d1 n2] r2| | |]; cbn [ok_or_err] in T; try contradiction; [|exact I].
  pose proof (bs_fix_no_panic d1 (Model.C12.cfg_bits (ccfg c) (Z.of_N (nb mod 256)))
                ltac:(pose proof (cfg_bits_range (ccfg c) (Z.of_N (nb mod 256)) W); lia)) as NP.
  destruct (bs_fix d1 _) as [d2 o]. cbn [snd] in NP. destruct o; cbn; auto. exact (NP w eq_refl).
Qed.
Lemma c12_pc_read_robust fuel c : robust (Model.C12.pc_read fuel c).
Proof.
  unfold Model.C12.pc_read. constructor. intros nb. cbv zeta.
  apply robust_bind; [apply pal_read_robust|]. intros [p1 n1].
  apply robust_bind; [apply Proofs.C11_wire.read_robust|]. intros [d1 n2].
  destruct (bs_fix d1 _) as [d2 o]. destruct o; constructor.
Qed.

(* ---------------------------------------------------------------- C13's NBT sub-decoders are total *)
Lemma hm_field_total f id s : (length s + 1 < f)%nat -> ok_or_err (run_flat (hm_field f id) s).
Proof.
  intros Hf. unfold hm_field. apply catch_end_total.
  rewrite run_flat_bind by apply dec_ty_robust.
  pose proof (dec_ty_prog f (GSl GU64) id s Hf) as P.
  destruct (run_flat (dec_ty f (GSl GU64) id) s); cbn in *; auto.
Qed.
Lemma hm_loop_total : forall f mb ws s, (length s + 1 < f)%nat -> ok_or_err (run_flat (hm_loop f mb ws) s).
Proof.
  induction f as [|f IH]; intros mb ws s Hf; [lia|]. cbn [hm_loop].
  rewrite run_flat_bind by (auto with rb).
  pose proof (rd_tag_prog s) as P.
  destruct (run_flat rd_tag s) as [tn r| | |]; cbn [prog] in P; try contradiction; [|exact I].
  destruct (fst tn =? idEnd); [exact I|].
  assert (F: forall (k : option (list N) -> dec (option (list N) * option (list N))),
             (forall v r2, (length r2 <= length r)%nat -> ok_or_err (run_flat (k v) r2)) ->
             ok_or_err (run_flat (r0 <- hm_field f (fst tn) ;; k r0) r)).
  { intros k Hk. rewrite run_flat_bind by apply hm_field_robust.
    pose proof (total_prog0 _ _ (hm_field_total f (fst tn) r ltac:(lia))) as Q.
    destruct (run_flat (hm_field f (fst tn)) r) as [v r2| | |]; cbn [prog0] in Q; try contradiction; [|exact I].
    apply Hk. exact Q. }
  destruct (eqfold (snd tn) nameMB).
  - apply F. intros [v|] r2 H2; [apply IH; lia|exact I].
  - destruct (eqfold (snd tn) nameWS); [|exact I].
    apply F. intros [v|] r2 H2; [apply IH; lia|exact I].
Qed.
Theorem hm_read_total fuel s : (length s < fuel)%nat -> ok_or_err (run_flat (hm_read fuel) s).
Proof.
  intros Hf. unfold hm_read. cbn [run_flat]. destruct s as [|id s']; [exact I|].
  destruct (id =? idEnd); [exact I|]. destruct (id =? idCompound); [|exact I].
  apply hm_loop_total. cbn [length] in Hf. lia.
Qed.
Theorem raw_body_total fuel old s : (length s < fuel)%nat -> ok_or_err (run_flat (raw_body fuel old) s).
Proof.
  intros Hf. unfold raw_body. cbn [run_flat]. destruct s as [|id s']; [exact I|].
  destruct (id =? idEnd); [exact I|]. cbn [length] in Hf.
  rewrite run_flat_bind by (apply tee_robust; auto with rb).
  pose proof (tee_prog (dec_skip fuel id) s' ltac:(auto with rb) (dec_skip_prog fuel id s' ltac:(lia))) as P.
  destruct (run_flat (tee (dec_skip fuel id)) s'); cbn in *; auto.
Qed.

(* ---------------------------------------------------------------- the instantiated skeletons *)
Lemma hm_dec_robust fuel : robust (hm_dec fuel).
Proof. unfold hm_dec, dmap. apply robust_bind; [apply hm_read_robust|intros; constructor]. Qed.
Lemma raw_dec_robust fuel j : robust (raw_dec fuel j).
Proof. unfold raw_dec, dmap. apply robust_bind; [apply raw_body_robust|intros; constructor]. Qed.
Lemma pc_dec_robust fuel c i : robust (pc_dec fuel c i).
Proof. unfold pc_dec, dmap. apply robust_bind; [apply c12_pc_read_robust|intros; constructor]. Qed.

(* the height-map width is defined (no division by zero) for every section count a slice can have *)
Lemma height_bits_defined nsec : N.of_nat nsec < 2^58 -> calc_size (bits_for_height nsec) 256 <> None.
Proof.
  intros Hn. unfold bits_for_height. set (x := N.of_nat nsec * 16 + 1).
  assert (Hx: 0 < x < 2^63) by (unfold x; change (2^58) with 288230376151711744 in Hn; change (2^63) with 9223372036854775808; lia).
  assert (S1: N.size x <= 64).
  { pose proof (N.size_le x) as L. destruct (N.le_gt_cases (N.size x) 64) as [|G]; [assumption|].
    assert (2^65 <= 2 ^ N.size x) by (apply N.pow_le_mono_r; lia).
    rewrite N.succ_double_spec in L. change (2^65) with 36893488147419103232 in H.
    change (2^63) with 9223372036854775808 in Hx. lia. }
  assert (S0: 0 < N.size x).
  { pose proof (N.size_gt x) as G. destruct (N.size x) eqn:E; [cbn in G; lia|lia]. }
  unfold calc_size. destruct (Z.eqb_spec (Z.of_N (N.size x)) 0); [lia|].
  assert (Q: (1 <= Z.quot 64 (Z.of_N (N.size x)))%Z) by (apply Z.quot_le_lower_bound; lia).
  destruct (Z.eqb_spec (Z.quot 64 (Z.of_N (N.size x))) 0); [lia|discriminate].
Qed.

Theorem chunk_total_inst fuel cs cb nsec s :
  (forall i, wfcfg (ccfg (cs i))) -> (forall i, wfcfg (ccfg (cb i))) ->
  N.of_nat nsec < 2^58 -> (length s < fuel)%nat ->
  ok_or_err (run_flat (chunk_read_inst fuel cs cb nsec) s).
Proof.
  intros Ws Wb Hn Hf. unfold chunk_read_inst.
  apply b_chunk_read_total with (B := length s); auto.
  - apply hm_dec_robust.
  - intros r Hr. apply dmap_total; [apply hm_read_robust|apply hm_read_total; lia].
  - apply raw_dec_robust.
  - intros j r Hr. apply dmap_total; [apply raw_body_robust|apply raw_body_total; lia].
  - intros i. apply pc_dec_robust.
  - intros i r Hr. apply dmap_total; [apply c12_pc_read_robust|apply c12_pc_read_total; [apply Ws|lia]].
  - intros i. apply pc_dec_robust.
  - intros i r Hr. apply dmap_total; [apply c12_pc_read_robust|apply c12_pc_read_total; [apply Wb|lia]].
  - apply height_bits_defined, Hn.
Qed.

Theorem put_data_total_inst fuel cs cb nsec data s :
  (forall i, wfcfg (ccfg (cs i))) -> (forall i, wfcfg (ccfg (cb i))) -> (length data < fuel)%nat ->
  ok_or_err (run_flat (put_data_inst fuel cs cb nsec data) s).
Proof.
  intros Ws Wb Hf. unfold put_data_inst. apply b_put_data_total with (B := length data); auto.
  - intros i. apply pc_dec_robust.
  - intros i r Hr. apply dmap_total; [apply c12_pc_read_robust|apply c12_pc_read_total; [apply Ws|lia]].
  - intros i. apply pc_dec_robust.
  - intros i r Hr. apply dmap_total; [apply c12_pc_read_robust|apply c12_pc_read_total; [apply Wb|lia]].
Qed.

Theorem block_entity_total_inst fuel j s : (length s < fuel)%nat ->
  ok_or_err (run_flat (block_entity_inst fuel j) s).
Proof.
  intros Hf. unfold block_entity_inst. apply (prog_total s).
  apply b_block_entity_prog with (B := length s); auto.
  intros j' r Hr. apply dmap_total; [apply raw_body_robust|apply raw_body_total; lia].
Qed.

Theorem registry_total_inst fuel ty cur s : (length s + 1 + sdepth ty < fuel)%nat ->
  ok_or_err (run_flat (registry_read_inst fuel ty cur) s).
Proof.
  intros Hf. unfold registry_read_inst. apply b_registry_read_total with (B := length s); auto; try lia.
  - intros i. unfold entry_dec, dmap. apply robust_bind; [|intros; constructor].
    apply catch_end_robust. apply Decode_robust. intros. apply dec_st_robust.
  - intros i r Hr. apply dmap_total.
    + apply catch_end_robust. apply Decode_robust. intros. apply dec_st_robust.
    + apply catch_end_total. apply (prog_total r). apply Decode_prog; [intros; apply dec_st_robust|].
      intros id r' Hr'. apply prog_prog0, dec_st_prog. lia.
Qed.
