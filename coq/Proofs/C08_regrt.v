(* C08 phase 6: Registry.WriteTo then Registry.ReadFrom, over the INTERPRETATION of the translated ReadFrom:
   on the image Registry.WriteTo produces (C19's reg_write: count, then per entry key, Boolean true, the
   value's network NBT) followed by anything, the interpretation succeeds, consumes exactly the image and
   leaves the rest untouched - for every list of entries whose keys fit a VarInt length and every entry
   decoder that consumes exactly the image of the entry it is called for. *)
From Coq Require Import List Arith NArith ZArith Lia Bool.
From GoMC Require Import Base.Bytes Base.Dec Model.C05 Proofs.C05 Model.C06 Proofs.C06_read Model.C08 Model.C08_syntax
  Gen.C08gen Model.C19 Proofs.C08_skel Proofs.C08_tie_dec.
Import ListNotations.
Open Scope N_scope.

Lemma small_sw32 n : n < 2^31 -> in_sw 32 (Z.of_N n).
Proof. intros H. unfold in_sw. cbn. lia. Qed.

Lemma rd_varint_image z rest : in_sw 32 z -> run_flat rd_varint (write32 z ++ rest) = FOk z rest.
Proof.
  intros H. unfold rd_varint. rewrite run_flat_bind by apply read32_robust.
  rewrite (read32_write32 z rest H). reflexivity.
Qed.
Lemma rd_lenbytes_image bs rest : lenN bs < 2^31 ->
  run_flat rd_lenbytes (write32 (Z.of_N (lenN bs)) ++ bs ++ rest) = FOk bs rest.
Proof.
  intros H. unfold rd_lenbytes. rewrite run_flat_bind by apply rd_varint_robust.
  rewrite rd_varint_image by (apply small_sw32, H).
  destruct (Z.ltb_spec (Z.of_N (lenN bs)) 0); [lia|]. rewrite N2Z.id.
  rewrite run_readfull_app by reflexivity. reflexivity.
Qed.

Section RT.
  Variable ne : N -> dec unit.
  Hypothesis ne_r : forall i, robust (ne i).

  (* the entries from index i on: each decoder consumes exactly its entry's image *)
  Fixpoint fits (i : N) (es : list (list N * list N)) : Prop :=
    match es with
    | [] => True
    | e :: t => lenN (fst e) < 2^31 /\ (forall rest, run_flat (ne i) (snd e ++ rest) = FOk tt rest) /\ fits (i + 1) t
    end.

  Lemma rep_on_image : forall es M i rest, (List.length es < M)%nat -> fits i es ->
    run_flat (rep M (reg_elem ne) i (i + lenN es)) (concat (map reg_entry_bytes es) ++ rest) = FOk tt rest.
  Proof.
    induction es as [|e t IH]; intros M i rest HM Hf.
    - destruct M as [|M']; [cbn in HM; lia|]. cbn [rep]. rewrite lenN_nil, N.add_0_r.
      destruct (N.leb_spec i i); [reflexivity|lia].
    - destruct M as [|M']; [cbn in HM; lia|]. cbn [rep]. rewrite lenN_cons.
      destruct (N.leb_spec (i + (1 + lenN t)) i); [lia|].
      destruct Hf as (Hk & He & Ht).
      cbn [map concat]. unfold reg_entry_bytes at 1. rewrite <- !app_assoc. cbn [app].
      rewrite run_flat_bind by apply (reg_elem_robust ne ne_r).
      unfold reg_elem at 1. rewrite run_flat_bind by apply rd_lenbytes_robust.
      rewrite rd_lenbytes_image by exact Hk. cbn [run_flat].
      change (1 =? 0) with false. cbn iota. rewrite He.
      replace (i + (1 + lenN t)) with (i + 1 + lenN t) by lia.
      apply IH; [cbn [List.length] in HM; lia|exact Ht].
  Qed.

  Theorem registry_roundtrip_interp es rest F : lenN es < 2^31 -> fits 0 es ->
    (List.length (reg_write es ++ rest) < F)%nat ->
    run_flat (registry_interp ne F) (reg_write es ++ rest) = FOk tt rest.
  Proof.
    intros Hn Hf HF.
    rewrite (registry_interp_ok ne ne_r F (Datatypes.S (List.length (reg_write es ++ rest))) _ HF (Nat.lt_succ_diag_r _)).
    unfold registry_read, reg_write. rewrite <- app_assoc.
    rewrite run_flat_bind by apply rd_varint_robust.
    rewrite rd_varint_image by (apply small_sw32, Hn). rewrite N2Z.id.
    change (Z.to_N (Z.of_N (lenN es))) with (lenN es) || idtac.
    pose proof (rep_on_image es (Datatypes.S (List.length (write32 (Z.of_N (lenN es)) ++ concat (map reg_entry_bytes es) ++ rest))) 0 rest) as R.
    rewrite N.add_0_l in R. apply R; [|exact Hf].
    rewrite !app_length. assert (List.length es <= List.length (concat (map reg_entry_bytes es)))%nat; [|lia].
    clear. induction es as [|e t IH]; [cbn; lia|]. cbn [map concat List.length]. rewrite app_length.
    unfold reg_entry_bytes at 1. rewrite !app_length. cbn [List.length]. lia.
  Qed.
End RT.
