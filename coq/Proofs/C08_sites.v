(* C08 phase 5: every descriptor the translator emits for a Scan site or a ReadFrom method denotes a
   reader that returns a value or an error and never gives input back, on every byte string - provided
   it contains no panic statement, no array of zero-width elements, and the foreign decoders behave. *)
From Coq Require Import List Arith NArith ZArith Lia Bool.
From Coq Require Import String.
From GoMC Require Import Base.Bytes Base.Dec Model.C05 Proofs.C05 Model.C06 Proofs.C06_read Model.C08 Model.C08_sites
  Proofs.C03 Proofs.C08_skel Proofs.C08_field.
Import ListNotations.
Open Scope N_scope.

(* binding after ANY decoder (a bare Read included) *)
Lemma run_flat_bind_gen {A B} (d : dec A) (f : A -> dec B) : forall s,
  run_flat (bind d f) s =
  match run_flat d s with
  | FOk a r => run_flat (f a) r | FErr e => FErr e | FPanic w => FPanic w | FFuel => FFuel end.
Proof.
  induction d as [a0|e|w| |k IH|n k IH|n k IH]; intros s; cbn [bind run_flat]; auto.
  - destruct s; auto.
  - destruct (n <=? lenN s); auto.
  - destruct (n <=? lenN s); auto. destruct s; [destruct (n =? 0)|]; auto.
Qed.
Lemma rest_le_gen {A} (d : dec A) : forall s a r, run_flat d s = FOk a r -> (List.length r <= List.length s)%nat.
Proof.
  induction d as [a0|e|w| |k IH|n k IH|n k IH]; intros s a r H; cbn [run_flat] in H; try discriminate.
  - inversion H; subst. lia.
  - destruct s as [|b s']; [discriminate|]. apply IH in H. cbn [List.length]. lia.
  - destruct (n <=? lenN s); [|discriminate]. apply IH in H. unfold dropN in H. rewrite skipn_length in H. lia.
  - destruct (n <=? lenN s).
    + apply IH in H. unfold dropN in H. rewrite skipn_length in H. lia.
    + destruct s as [|b s']; [destruct (n =? 0); [|discriminate]|]; apply IH in H; cbn [List.length] in *; lia.
Qed.

(* binding keeps prog0 / prog without any robustness requirement *)
Lemma prog0_bind_gen {A B} (d : dec A) (f : A -> dec B) s :
  prog0 s (run_flat d s) -> (forall a r, (List.length r <= List.length s)%nat -> prog0 r (run_flat (f a) r)) ->
  prog0 s (run_flat (bind d f) s).
Proof.
  intros H K. rewrite run_flat_bind_gen. destruct (run_flat d s) as [a r| | |]; cbn [prog0] in H; try tauto.
  specialize (K a r H). destruct (run_flat (f a) r); cbn [prog0] in *; try tauto. lia.
Qed.
Lemma prog_bind_l {A B} (d : dec A) (f : A -> dec B) s :
  prog s (run_flat d s) -> (forall a r, (List.length r < List.length s)%nat -> prog0 r (run_flat (f a) r)) ->
  prog s (run_flat (bind d f) s).
Proof.
  intros H K. rewrite run_flat_bind_gen. destruct (run_flat d s) as [a r| | |]; cbn [prog] in H; try tauto.
  specialize (K a r H). destruct (run_flat (f a) r); cbn [prog prog0] in *; try tauto. lia.
Qed.
Lemma prog_bind_r {A B} (d : dec A) (f : A -> dec B) s :
  prog0 s (run_flat d s) -> (forall a r, (List.length r <= List.length s)%nat -> prog r (run_flat (f a) r)) ->
  prog s (run_flat (bind d f) s).
Proof.
  intros H K. rewrite run_flat_bind_gen. destruct (run_flat d s) as [a r| | |]; cbn [prog0] in H; try tauto; try exact I.
  specialize (K a r H). destruct (run_flat (f a) r); cbn [prog] in *; try tauto. lia.
Qed.

Lemma total_prog0_raw n s : prog0 s (run_flat (RawRead n (fun _ => Ret tt)) s).
Proof.
  pose proof (rest_le_gen (RawRead n (fun _ => Ret tt)) s) as R.
  pose proof (no_crash_total (RawRead n (fun _ => @Ret unit tt)) ltac:(constructor; intros; constructor) s) as T.
  destruct (run_flat (RawRead n (fun _ => Ret tt)) s) as [a r| | |]; cbn [ok_or_err prog0] in *; try tauto.
  eapply R; reflexivity.
Qed.

(* ---------------------------------------------------------------- the conditions on a descriptor *)
Definition fixedbits : String.string := "FixedBitSet"%string.
Fixpoint productive (d : sd) : bool :=
  match d with
  | DF t => negb (zw t)
  | DSeq l => existsb productive l
  | DAry _ => true
  | DLoop _ => true
  | DOption _ => true
  | DChoice _ a b => productive a && productive b
  | DExt k => negb (String.eqb k fixedbits)
  | _ => false
  end.
Fixpoint sd_ok (d : sd) : bool :=
  match d with
  | DF t => ary_ok t
  | DSeq l => forallb sd_ok l
  | DAry e => sd_ok e && productive e
  | DLoop e => sd_ok e && productive e
  | DOption e => sd_ok e
  | DChoice _ a b => sd_ok a && sd_ok b
  | DPanic _ => false
  | _ => true
  end.

Section SdInd.
  Variable P : sd -> Prop.
  Hypothesis HF : forall t, P (DF t).
  Hypothesis HSeq : forall l, Forall P l -> P (DSeq l).
  Hypothesis HAry : forall e, P e -> P (DAry e).
  Hypothesis HLoop : forall e, P e -> P (DLoop e).
  Hypothesis HOption : forall e, P e -> P (DOption e).
  Hypothesis HChoice : forall k a b, P a -> P b -> P (DChoice k a b).
  Hypothesis HExt : forall k, P (DExt k).
  Hypothesis HRest : P DRest.
  Hypothesis HRaw : forall n, P (DRaw n).
  Hypothesis HFail : forall t, P (DFail t).
  Hypothesis HPanic : forall t, P (DPanic t).
  Fixpoint sd_ind' (d : sd) : P d :=
    match d with
    | DF t => HF t
    | DSeq l => HSeq l ((fix f (l : list sd) : Forall P l :=
                           match l with [] => Forall_nil P | x :: t => Forall_cons x (sd_ind' x) (f t) end) l)
    | DAry e => HAry e (sd_ind' e)
    | DLoop e => HLoop e (sd_ind' e)
    | DOption e => HOption e (sd_ind' e)
    | DChoice k a b => HChoice k a b (sd_ind' a) (sd_ind' b)
    | DExt k => HExt k
    | DRest => HRest
    | DRaw n => HRaw n
    | DFail t => HFail t
    | DPanic t => HPanic t
    end.
End SdInd.

Section Total.
  Variable ext : String.string -> dec unit.
  Variable oracle : N -> bool.
  Variable fuel : nat.
  (* the foreign decoders (text components, chunks, NBT documents, FixedBitSet): a value or an error,
     never reading backwards; all but FixedBitSet consume input when they succeed *)
  Hypothesis ext_t : forall k s, (List.length s < fuel)%nat -> prog0 s (run_flat (ext k) s).
  Hypothesis ext_p : forall k s, (List.length s < fuel)%nat -> String.eqb k fixedbits = false -> prog s (run_flat (ext k) s).

  Definition fine_sd (d : sd) : Prop := sd_ok d = true -> forall s, (List.length s < fuel)%nat ->
    prog0 s (run_flat (sdr ext oracle fuel d) s) /\
    (productive d = true -> prog s (run_flat (sdr ext oracle fuel d) s)).

  Theorem sdr_fine : forall d, fine_sd d.
  Proof.
    induction d as [t|l IH|e IH|e IH|e IH|k a b IHa IHb|k| |n|t|t] using sd_ind'; intros Hok s Hf; cbn [sd_ok productive sdr] in *.
    - (* C06 field type *)
      destruct (read_f_fine fuel t Hok (zero_of t) s Hf) as [Q P]. split.
      + apply prog0_bind_gen; [exact Q|intros; apply ret_prog0].
      + intros Hz. apply negb_true_iff in Hz. apply prog_bind_l; [apply P, Hz|intros; apply ret_prog0].
    - (* sequence *)
      revert s Hf. induction IH as [|x t Hx Ht IHt]; intros s Hf.
      + split; [apply ret_prog0|discriminate].
      + cbn [forallb existsb] in *. apply andb_true_iff in Hok. destruct Hok as [Hox Hot].
        destruct (Hx Hox s Hf) as [Qx Px]. split.
        * apply prog0_bind_gen; [exact Qx|]. intros _ r Hr. apply (IHt Hot r). lia.
        * intros Hp. apply orb_true_iff in Hp. destruct Hp as [Hp|Hp].
          -- apply prog_bind_l; [apply Px, Hp|]. intros _ r Hr. apply (IHt Hot r). lia.
          -- apply prog_bind_r; [exact Qx|]. intros _ r Hr. apply (IHt Hot r); [lia|exact Hp].
    - (* array *)
      apply andb_true_iff in Hok. destruct Hok as [Hoe Hpe].
      assert (P: prog s (run_flat (rd_ary fuel (fun _ : N => sdr ext oracle fuel e)) s)).
      { unfold rd_ary. apply prog_bind_l; [apply rd_varint_prog|]. intros l r Hr.
        destruct (l <? 0)%Z; [exact I|].
        (* the element loop: every element consumes input *)
        assert (L: forall f i len r', (List.length r' < fuel)%nat -> (List.length r' < f)%nat ->
                   prog0 r' (run_flat (rep f (fun _ : N => sdr ext oracle fuel e) i len) r')).
        { induction f as [|f IHf]; intros i len r' Hr1 Hr2; [lia|]. cbn [rep].
          destruct (len <=? i); [apply ret_prog0|].
          rewrite run_flat_bind_gen. destruct (IH Hoe r' Hr1) as [_ Pe]. specialize (Pe Hpe).
          destruct (run_flat (sdr ext oracle fuel e) r') as [u r2| | |]; cbn [prog] in Pe; try tauto.
          specialize (IHf (i + 1) len r2 ltac:(lia) ltac:(lia)).
          destruct (run_flat (rep f _ (i + 1) len) r2); cbn [prog0] in *; try tauto. lia. }
        apply L; lia. }
      split; [apply prog_prog0, P|intros _; exact P].
    - (* counted loop *)
      apply andb_true_iff in Hok. destruct Hok as [Hoe Hpe].
      assert (P: prog s (run_flat (l <- rd_varint ;; rep fuel (fun _ : N => sdr ext oracle fuel e) 0 (Z.to_N l)) s)).
      { apply prog_bind_l; [apply rd_varint_prog|]. intros l r Hr.
        (* the element loop: every element consumes input *)
        assert (L: forall f i len r', (List.length r' < fuel)%nat -> (List.length r' < f)%nat ->
                   prog0 r' (run_flat (rep f (fun _ : N => sdr ext oracle fuel e) i len) r')).
        { induction f as [|f IHf]; intros i len r' Hr1 Hr2; [lia|]. cbn [rep].
          destruct (len <=? i); [apply ret_prog0|].
          rewrite run_flat_bind_gen. destruct (IH Hoe r' Hr1) as [_ Pe]. specialize (Pe Hpe).
          destruct (run_flat (sdr ext oracle fuel e) r') as [u r2| | |]; cbn [prog] in Pe; try tauto.
          specialize (IHf (i + 1) len r2 ltac:(lia) ltac:(lia)).
          destruct (run_flat (rep f _ (i + 1) len) r2); cbn [prog0] in *; try tauto. lia. }
        apply L; lia. }
      split; [apply prog_prog0, P|intros _; exact P].
    - (* Option *)
      assert (P: prog s (run_flat (ReadByte (fun b => if b =? 0 then Ret tt else sdr ext oracle fuel e)) s)).
      { cbn [run_flat]. destruct s as [|b s']; [exact I|]. cbn [List.length] in Hf.
        destruct (b =? 0); [cbn; lia|]. destruct (IH Hok s' ltac:(lia)) as [Q _].
        destruct (run_flat (sdr ext oracle fuel e) s'); cbn [prog prog0 List.length] in *; try tauto. lia. }
      split; [apply prog_prog0, P|intros _; exact P].
    - (* data-dependent choice *)
      apply andb_true_iff in Hok. destruct Hok as [Ha Hb].
      destruct (oracle k).
      + destruct (IHa Ha s Hf) as [Q P]. split; [exact Q|]. intros Hp. apply andb_true_iff in Hp. apply P, Hp.
      + destruct (IHb Hb s Hf) as [Q P]. split; [exact Q|]. intros Hp. apply andb_true_iff in Hp. apply P, Hp.
    - split; [apply ext_t, Hf|]. intros Hp. apply negb_true_iff in Hp. apply ext_p; assumption.
    - split; [apply ret_prog0|discriminate].
    - split; [|discriminate]. apply total_prog0_raw.
    - split; [exact I|discriminate].
    - discriminate.
  Qed.
End Total.
