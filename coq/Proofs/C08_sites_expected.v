(* C08 phase 5: the table of decode sites as it was when this file was recorded (copied from
   Gen/C08gen.v).  Proofs/C08_sites_tie.v compares the regenerated table with it: a Scan call that gains,
   loses or retypes an argument, a new or removed site, any edit of a listed ReadFrom method shows up
   as a broken obligation (the totality theorems themselves follow the regenerated table). *)
From Coq Require Import ZArith NArith Bool List String.
From GoMC Require Import Base.Bytes Base.Dec Model.C05 Model.C06 Model.C08 Model.C08_sites.
Import ListNotations.
Local Open Scope string_scope.

Definition expected_scan_sites : list row :=
  [mkRow "bot/configuration.go:joinConfiguration#1"
     "p.Scan(&key)"
     (DSeq [DF TString]);
   mkRow "bot/configuration.go:joinConfiguration#2"
     "p.Scan(&channel, &data)"
     (DSeq [DF TString; DRest]);
   mkRow "bot/configuration.go:joinConfiguration#3"
     "p.Scan(&reason)"
     (DSeq [DExt "chat.Message"]);
   mkRow "bot/configuration.go:joinConfiguration#4"
     "p.Scan(&keepAliveID)"
     (DSeq [DF TLong]);
   mkRow "bot/configuration.go:joinConfiguration#5"
     "p.Scan(&pingID)"
     (DSeq [DF TInt]);
   mkRow "bot/configuration.go:joinConfiguration#6"
     "p.Scan(&id)"
     (DSeq [DOption (DF TUUID)]);
   mkRow "bot/configuration.go:joinConfiguration#7"
     "p.Scan( &id, &Url, &Hash, &Forced, &PromptMessage, )"
     (DSeq [DF TUUID; DF TString; DF TString; DF TBool; DOption (DExt "chat.Message")]);
   mkRow "bot/configuration.go:joinConfiguration#8"
     "p.Scan(&key, &payload)"
     (DSeq [DF TString; DF TByteArray]);
   mkRow "bot/configuration.go:joinConfiguration#9"
     "p.Scan(&host, &port)"
     (DSeq [DF TString; DF TVarInt]);
   mkRow "bot/configuration.go:joinConfiguration#10"
     "p.Scan(pk.Array(&features))"
     (DSeq [DAry (DF TString)]);
   mkRow "bot/configuration.go:joinConfiguration#11"
     "p.Scan(pk.Array(&packs))"
     (DSeq [DAry (DSeq [DF TString; DF TString; DF TString])]);
   mkRow "bot/login.go:joinLogin#1"
     "p.Scan(&reason)"
     (DSeq [DExt "chat.JsonMessage"]);
   mkRow "bot/login.go:joinLogin#2"
     "p.Scan( (*pk.UUID)(&c.UUID), (*pk.String)(&c.Name), )"
     (DSeq [DF TUUID; DF TString]);
   mkRow "bot/login.go:joinLogin#3"
     "p.Scan(&threshold)"
     (DSeq [DF TVarInt]);
   mkRow "bot/login.go:joinLogin#4"
     "p.Scan(&msgid, &channel, &data)"
     (DSeq [DF TVarInt; DF TString; DRest]);
   mkRow "bot/login.go:joinLogin#5"
     "p.Scan(&key)"
     (DSeq [DF TString]);
   mkRow "bot/login.go:handleEncryptionRequest#1"
     "p.Scan(&er)"
     (DSeq [DSeq [DSeq [DF TString; DF TByteArray; DF TByteArray]]]);
   mkRow "bot/pinglist.go:pingAndList#1"
     "p.Scan(&s)"
     (DSeq [DF TString]);
   mkRow "bot/pinglist.go:pingAndList#2"
     "p.Scan(&t)"
     (DSeq [DF TLong]);
   mkRow "bot/basic/cookie.go:handleCookieRequestPacket#1"
     "packet.Scan(&key)"
     (DSeq [DF TString]);
   mkRow "bot/basic/cookie.go:handleStoreCookiePacket#1"
     "packet.Scan(&key, &payload)"
     (DSeq [DF TString; DF TByteArray]);
   mkRow "bot/basic/events.go:attachDisconnect#1"
     "p.Scan(&reason)"
     (DSeq [DExt "chat.Message"]);
   mkRow "bot/basic/events.go:attachUpdateHealth#1"
     "p.Scan(&health, &food, &saturation)"
     (DSeq [DF TFloat; DF TVarInt; DF TFloat]);
   mkRow "bot/basic/events.go:attachPlayerPosition#1"
     "p.Scan(&X, &Y, &Z, &Yaw, &Pitch, &Flags, &TeleportID)"
     (DSeq [DF TDouble; DF TDouble; DF TDouble; DF TFloat; DF TFloat; DF TByte; DF TVarInt]);
   mkRow "bot/basic/info.go:handleLoginPacket#1"
     "packet.Scan( (*pk.Int)(&p.EID), (*pk.Boolean)(&p.Hardcore), pk.Array((*[]pk.Identifier)(unsafe.Pointer(&p.DimensionNames))), (*pk.VarInt)(&p.MaxPlayers), (*pk.VarInt)(&p.ViewDistance), (*pk.VarInt)(&p.SimulationDistance), (*pk.Boolean)(&p.ReducedDebugInfo), (*pk.Boolean)(&p.EnableRespawnScreen), (*pk.Boolean)(&p.DoLimitCrafting), (*pk.VarInt)(&p.WorldInfo.DimensionType), (*pk.Identifier)(&p.DimensionName), (*pk.Long)(&p.HashedSeed), (*pk.UnsignedByte)(&p.Gamemode), (*pk.Byte)(&p.PrevGamemode), (*pk.Boolean)(&p.IsDebug), (*pk.Boolean)(&p.IsFlat), )"
     (DSeq [DF TInt; DF TBool; DAry (DF TString); DF TVarInt; DF TVarInt; DF TVarInt; DF TBool; DF TBool; DF TBool; DF TVarInt; DF TString; DF TLong; DF TUByte; DF TByte; DF TBool; DF TBool]);
   mkRow "bot/basic/info.go:handleRespawnPacket#1"
     "packet.Scan( (*pk.VarInt)(&p.DimensionType), (*pk.Identifier)(&p.DimensionName), (*pk.Long)(&p.HashedSeed), (*pk.UnsignedByte)(&p.Gamemode), (*pk.Byte)(&p.PrevGamemode), (*pk.Boolean)(&p.IsDebug), (*pk.Boolean)(&p.IsFlat), (*pk.Boolean)(&copyMeta), )"
     (DSeq [DF TVarInt; DF TString; DF TLong; DF TUByte; DF TByte; DF TBool; DF TBool; DF TBool]);
   mkRow "bot/basic/keepalive.go:handleKeepAlivePacket#1"
     "packet.Scan(&KeepAliveID)"
     (DSeq [DF TLong]);
   mkRow "bot/basic/ping.go:handlePingPacket#1"
     "packet.Scan(&pingID)"
     (DSeq [DF TInt]);
   mkRow "bot/msg/chat.go:handleSystemChat#1"
     "p.Scan(&msg, &overlay)"
     (DSeq [DExt "chat.Message"; DF TBool]);
   mkRow "bot/msg/chat.go:handlePlayerChat#1"
     "packet.Scan(&sender, &index, &signature, &body, &unsignedContent, &filter, &chatType)"
     (DSeq [DF TUUID; DF TVarInt; DOption (DSeq [DRaw 256]); DSeq [DSeq [DF TString; DF TLong; DF TLong; DAry (DSeq [DF TVarInt; DChoice 1 (DSeq [DRaw 256]) (DSeq [])])]]; DOption (DExt "chat.Message"); DSeq [DF TVarInt; DChoice 2 (DSeq [DF TBitSet]) (DSeq [])]; DSeq [DF TVarInt; DExt "chat.Message"; DF TBool; DChoice 3 (DSeq [DExt "chat.Message"]) (DSeq [])]]);
   mkRow "bot/msg/chat.go:handleDisguisedChat#1"
     "packet.Scan(&message, &chatType)"
     (DSeq [DExt "chat.Message"; DSeq [DF TVarInt; DExt "chat.Message"; DF TBool; DChoice 4 (DSeq [DExt "chat.Message"]) (DSeq [])]]);
   mkRow "bot/screen/screen.go:onOpenScreen#1"
     "p.Scan(&ContainerID, &Type, &Title)"
     (DSeq [DF TVarInt; DF TVarInt; DExt "chat.Message"]);
   mkRow "bot/screen/screen.go:onSetContentPacket#1"
     "p.Scan( &ContainerID, &StateID, pk.Array(&SlotData), &CarriedItem, )"
     (DSeq [DF TUByte; DF TVarInt; DAry (DSeq [DSeq [DF TVarInt; DChoice 5 (DSeq [DF TVarInt; DF TVarInt; DF TVarInt]) (DSeq [])]]); DSeq [DSeq [DF TVarInt; DChoice 6 (DSeq [DF TVarInt; DF TVarInt; DF TVarInt]) (DSeq [])]]]);
   mkRow "bot/screen/screen.go:onCloseScreen#1"
     "p.Scan(&ContainerID)"
     (DSeq [DF TUByte]);
   mkRow "bot/screen/screen.go:onSetSlot#1"
     "p.Scan(&ContainerID, &StateID, &SlotID, &SlotData)"
     (DSeq [DF TByte; DF TVarInt; DF TShort; DSeq [DSeq [DF TVarInt; DChoice 7 (DSeq [DF TVarInt; DF TVarInt; DF TVarInt]) (DSeq [])]]]);
   mkRow "bot/world/chunks.go:handleLevelChunkWithLightPacket#1"
     "packet.Scan(&pos, chunk)"
     (DSeq [DSeq [DF TInt; DF TInt]; DExt "level.Chunk"]);
   mkRow "bot/world/chunks.go:handleForgetLevelChunkPacket#1"
     "packet.Scan(&pos)"
     (DSeq [DSeq [DF TInt; DF TInt]]);
   mkRow "server/handshake.go:handshake#1"
     "p.Scan(&Protocol, &ServerAddress, &ServerPort, &Intention)"
     (DSeq [DF TVarInt; DF TString; DF TUShort; DF TVarInt]);
   mkRow "server/login.go:AcceptLogin#1"
     "p.Scan( (*pk.String)(&name), (*pk.UUID)(&id), )"
     (DSeq [DF TString; DF TUUID]);
   mkRow "server/auth/auth.go:encryptionResponse#1"
     "p.Scan(&keyBytes, &encryptedVerifyToken)"
     (DSeq [DF TByteArray; DF TByteArray]);
   mkRow "bot/playerlist/playerlist.go:handlePlayerInfoUpdatePacket"
     "{ r := bytes.NewReader(p.Data) action := pk.NewFixedBitSet(6) if _, err := action.ReadFrom(r); err != nil { return err } var length pk.VarInt if _, err := length.ReadFrom(r); err != nil { return err } for i := 0; i < int(length); i++ { var id pk.UUID if _, err := id.ReadFrom(r); err != nil { return err } player, ok := pl.PlayerInfos[uuid.UUID(id)] if !ok { player = new(PlayerInfo) pl.PlayerInfos[uuid.UUID(id)] = player } if action.Get(0) { var name pk.String var properties []user.Property if _, err := (pk.Tuple{&name, pk.Array(&properties)}).ReadFrom(r); err != nil { return err } player.GameProfile = GameProfile{ ID: uuid.UUID(id), Name: string(name), Properties: properties, } } if action.Get(1) { var chatSession pk.Option[sign.Session, *sign.Session] if _, err := chatSession.ReadFrom(r); err != nil { return err } if chatSession.Has { player.ChatSession = chatSession.Pointer() player.ChatSession.InitValidate() } else { player.ChatSession = nil } } if action.Get(2) { var gamemode pk.VarInt if _, err := gamemode.ReadFrom(r); err != nil { return err } player.Gamemode = int32(gamemode) } if action.Get(3) { var listed pk.Boolean if _, err := listed.ReadFrom(r); err != nil { return err } player.Listed = bool(listed) } if action.Get(4) { var latency pk.VarInt if _, err := latency.ReadFrom(r); err != nil { return err } player.Latency = int32(latency) } if action.Get(5) { var displayName pk.Option[chat.Message, *chat.Message] if _, err := displayName.ReadFrom(r); err != nil { return err } if displayName.Has { player.DisplayName = &displayName.Val } else { player.DisplayName = nil } } } return nil }"
     (DSeq [DExt "FixedBitSet"; DLoop (DSeq [DF TUUID; DChoice 8 (DSeq [DSeq [DF TString; DAry (DSeq [DSeq [DF TString; DF TString; DOption (DF TString)]])]]) (DSeq []); DChoice 10 (DSeq [DOption (DSeq [DF TUUID; DSeq [DSeq [DF TLong; DF TByteArray; DF TByteArray]; DChoice 9 (DSeq [DFail "errors.New(""expect RSA public key"")"]) (DSeq [])]])]) (DSeq []); DChoice 11 (DSeq [DF TVarInt]) (DSeq []); DChoice 12 (DSeq [DF TBool]) (DSeq []); DChoice 13 (DSeq [DF TVarInt]) (DSeq []); DChoice 14 (DSeq [DOption (DExt "chat.Message")]) (DSeq [])])]);
   mkRow "bot/playerlist/playerlist.go:handlePlayerInfoRemovePacket"
     "{ r := bytes.NewReader(p.Data) var ( length pk.VarInt id pk.UUID ) if _, err := length.ReadFrom(r); err != nil { return err } for i := 0; i < int(length); i++ { if _, err := id.ReadFrom(r); err != nil { return err } delete(pl.PlayerInfos, uuid.UUID(id)) } return nil }"
     (DSeq [DLoop (DSeq [DF TUUID])])].

Definition expected_readfrom_sites : list row :=
  [mkRow "chat/sign.FilterMask"
     "{ var Type pk.VarInt if n, err = Type.ReadFrom(r); err != nil { return } f.Type = byte(Type) if f.Type == 2 { var n1 int64 n1, err = f.Mask.ReadFrom(r) n += n1 } return }"
     (DSeq [DF TVarInt; DChoice 15 (DSeq [DF TBitSet]) (DSeq [])]);
   mkRow "chat/sign.HistoryMessage"
     "{ n, err = (*pk.UUID)(&p.Sender).ReadFrom(r) if err != nil { return } n2, err := (*pk.ByteArray)(&p.Signature).ReadFrom(r) return n + n2, err }"
     (DSeq [DF TUUID; DF TByteArray]);
   mkRow "chat/sign.HistoryUpdate"
     "{ return pk.Tuple{&h.Offset, &h.Acknowledged}.ReadFrom(r) }"
     (DSeq [DSeq [DF TVarInt; DExt "FixedBitSet"]]);
   mkRow "chat/sign.PackedMessageBody"
     "{ var timestamp pk.Long n, err = pk.Tuple{ (*pk.String)(&m.PlainMsg), &timestamp, (*pk.Long)(&m.Salt), pk.Array(&m.LastSeen), }.ReadFrom(r) m.Timestamp = time.UnixMilli(int64(timestamp)) return }"
     (DSeq [DSeq [DF TString; DF TLong; DF TLong; DAry (DSeq [DF TVarInt; DChoice 16 (DSeq [DRaw 256]) (DSeq [])])]]);
   mkRow "chat/sign.PackedSignature"
     "{ n1, err := (*pk.VarInt)(&p.ID).ReadFrom(r) if err != nil { return n1, err } if p.ID == -1 { if p.Signature == nil { p.Signature = new(Signature) } n2, err := r.Read(p.Signature[:]) return n1 + int64(n2), err } else { p.Signature = nil return n1, err } }"
     (DSeq [DF TVarInt; DChoice 17 (DSeq [DRaw 256]) (DSeq [])]);
   mkRow "chat/sign.Session"
     "{ n1, err := ((*pk.UUID)(&s.SessionID)).ReadFrom(r) if err != nil { return n1, err } n2, err := s.PublicKey.ReadFrom(r) return n1 + n2, err }"
     (DSeq [DF TUUID; DSeq [DSeq [DF TLong; DF TByteArray; DF TByteArray]; DChoice 18 (DSeq [DFail "errors.New(""expect RSA public key"")"]) (DSeq [])]]);
   mkRow "chat/sign.Signature"
     "{ n2, err := r.Read(s[:]) return int64(n2), err }"
     (DSeq [DRaw 256]);
   mkRow "level/component.AttributeModifiers"
     "{ return 0, errors.New(""component: ReadFrom is not implemented"") }"
     (DSeq [DFail "errors.New(""component: ReadFrom is not implemented"")"]);
   mkRow "level/component.BlockEntityData"
     "{ return pk.NBT(&b.Value).ReadFrom(r) }"
     (DSeq [DExt "NBT"]);
   mkRow "level/component.BucketEntityData"
     "{ return pk.NBT(&b.Value).ReadFrom(r) }"
     (DSeq [DExt "NBT"]);
   mkRow "level/component.BundleContents"
     "{ return 0, errors.New(""component: ReadFrom is not implemented"") }"
     (DSeq [DFail "errors.New(""component: ReadFrom is not implemented"")"]);
   mkRow "level/component.CanBreak"
     "{ return 0, errors.New(""component: ReadFrom is not implemented"") }"
     (DSeq [DFail "errors.New(""component: ReadFrom is not implemented"")"]);
   mkRow "level/component.CanPlaceOn"
     "{ return 0, errors.New(""component: ReadFrom is not implemented"") }"
     (DSeq [DFail "errors.New(""component: ReadFrom is not implemented"")"]);
   mkRow "level/component.ChargedProjectiles"
     "{ return 0, errors.New(""component: ReadFrom is not implemented"") }"
     (DSeq [DFail "errors.New(""component: ReadFrom is not implemented"")"]);
   mkRow "level/component.CreativeSlotLock"
     "{ return 0, nil }"
     (DSeq []);
   mkRow "level/component.CustomData"
     "{ return pk.NBT(c).ReadFrom(r) }"
     (DSeq [DExt "NBT"]);
   mkRow "level/component.CustomModelData"
     "{ return c.Value.ReadFrom(r) }"
     (DSeq [DF TVarInt]);
   mkRow "level/component.CustomName"
     "{ return c.Name.ReadFrom(r) }"
     (DSeq [DExt "chat.Message"]);
   mkRow "level/component.DebugStickState"
     "{ return pk.NBT(&d.Data).ReadFrom(r) }"
     (DSeq [DExt "NBT"]);
   mkRow "level/component.DyedColor"
     "{ return pk.Tuple{&d.RGB, &d.ShowInTooltip}.ReadFrom(r) }"
     (DSeq [DSeq [DF TInt; DF TBool]]);
   mkRow "level/component.Enchantment"
     "{ return pk.Tuple{&e.Type, &e.Level}.ReadFrom(r) }"
     (DSeq [DSeq [DF TVarInt; DF TVarInt]]);
   mkRow "level/component.EnchantmentGlintOverride"
     "{ return e.HasGlint.ReadFrom(r) }"
     (DSeq [DF TBool]);
   mkRow "level/component.Enchantments"
     "{ return 0, errors.New(""component: ReadFrom is not implemented"") }"
     (DSeq [DFail "errors.New(""component: ReadFrom is not implemented"")"]);
   mkRow "level/component.EntityData"
     "{ return pk.NBT(&e.Value).ReadFrom(r) }"
     (DSeq [DExt "NBT"]);
   mkRow "level/component.FireResistant"
     "{ return 0, nil }"
     (DSeq []);
   mkRow "level/component.Food"
     "{ n, err = pk.Tuple{ &f.Nutrition, &f.Saturation, &f.CanAlwaysEat, &f.EatSeconds, }.ReadFrom(r) if err != nil { return n, err } return n, errors.New(""component: the effects of minecraft:food are not implemented"") }"
     (DSeq [DSeq [DF TVarInt; DF TFloat; DF TBool; DF TFloat]; DFail "errors.New(""component: the effects of minecraft:food are not implemented"")"]);
   mkRow "level/component.HideAdditionalTooptip"
     "{ return 0, nil }"
     (DSeq []);
   mkRow "level/component.HideTooptip"
     "{ return 0, nil }"
     (DSeq []);
   mkRow "level/component.Instrument"
     "{ return pk.Tuple{ &i.Type, pk.Opt{ Has: func() bool { return i.Type == 0 }, Field: pk.Tuple{ &i.SoundEvent, &i.UseDuration, &i.Range, }, }, }.ReadFrom(r) }"
     (DSeq [DSeq [DF TVarInt; DChoice 19 (DSeq [DSeq [DSeq [DF TVarInt; DChoice 20 (DSeq [DF TString; DOption (DF TFloat)]) (DSeq [])]]; DF TFloat; DF TFloat]) (DSeq [])]]);
   mkRow "level/component.IntangibleProjectile"
     "{ return 0, nil }"
     (DSeq []);
   mkRow "level/component.ItemName"
     "{ return i.Name.ReadFrom(r) }"
     (DSeq [DExt "chat.Message"]);
   mkRow "level/component.JukeboxPlayable"
     "{ return 0, errors.New(""component: ReadFrom is not implemented"") }"
     (DSeq [DFail "errors.New(""component: ReadFrom is not implemented"")"]);
   mkRow "level/component.LodestoneTracker"
     "{ return pk.Tuple{ &l.HasGlobalPosition, &l.Dimension, &l.Position, &l.Tracked, }.ReadFrom(r) }"
     (DSeq [DSeq [DF TBool; DF TString; DF TPosition; DF TBool]]);
   mkRow "level/component.Lore"
     "{ return pk.Array(&l.Lines).ReadFrom(r) }"
     (DSeq [DAry (DExt "chat.Message")]);
   mkRow "level/component.MapDecorations"
     "{ return pk.NBT(&m.Value).ReadFrom(r) }"
     (DSeq [DExt "NBT"]);
   mkRow "level/component.MapPostProcessing"
     "{ return (*pk.VarInt)(m).ReadFrom(r) }"
     (DSeq [DF TVarInt]);
   mkRow "level/component.Page"
     "{ return pk.Tuple{&p.Raw, &p.Filtered}.ReadFrom(r) }"
     (DSeq [DSeq [DF TString; DOption (DF TString)]]);
   mkRow "level/component.PotionContents"
     "{ return 0, errors.New(""component: ReadFrom is not implemented"") }"
     (DSeq [DFail "errors.New(""component: ReadFrom is not implemented"")"]);
   mkRow "level/component.Rarity"
     "{ return (*pk.VarInt)(r).ReadFrom(reader) }"
     (DSeq [DF TVarInt]);
   mkRow "level/component.Recipes"
     "{ return pk.NBT(&r.Data).ReadFrom(reader) }"
     (DSeq [DExt "NBT"]);
   mkRow "level/component.SoundEvent"
     "{ return pk.Tuple{ &s.Type, pk.Opt{ Has: func() bool { return s.Type == 0 }, Field: pk.Tuple{ &s.SoundName, &s.FixedRange, }, }, }.ReadFrom(r) }"
     (DSeq [DSeq [DF TVarInt; DChoice 21 (DSeq [DF TString; DOption (DF TFloat)]) (DSeq [])]]);
   mkRow "level/component.StoredEnchantments"
     "{ return pk.Tuple{ pk.Array(&s.Enchantments), &s.ShowInTooltip, }.ReadFrom(r) }"
     (DSeq [DSeq [DAry (DSeq [DSeq [DF TVarInt; DF TVarInt]]); DF TBool]]);
   mkRow "level/component.SuspiciousStewEffects"
     "{ return 0, errors.New(""component: ReadFrom is not implemented"") }"
     (DSeq [DFail "errors.New(""component: ReadFrom is not implemented"")"]);
   mkRow "level/component.Tool"
     "{ return 0, errors.New(""component: ReadFrom is not implemented"") }"
     (DSeq [DFail "errors.New(""component: ReadFrom is not implemented"")"]);
   mkRow "level/component.Trim"
     "{ return 0, errors.New(""component: ReadFrom is not implemented"") }"
     (DSeq [DFail "errors.New(""component: ReadFrom is not implemented"")"]);
   mkRow "level/component.Unbreakable"
     "{ return u.ShowInTooltip.ReadFrom(r) }"
     (DSeq [DF TBool]);
   mkRow "level/component.WritableBookContent"
     "{ return pk.Array(&w.Pages).ReadFrom(reader) }"
     (DSeq [DAry (DSeq [DSeq [DF TString; DOption (DF TString)]])]);
   mkRow "yggdrasil/user.Property"
     "{ var signature pk.Option[pk.String, *pk.String] n, err = pk.Tuple{ (*pk.String)(&p.Name), (*pk.String)(&p.Value), &signature, }.ReadFrom(r) p.Signature = string(signature.Val) return }"
     (DSeq [DSeq [DF TString; DF TString; DOption (DF TString)]]);
   mkRow "yggdrasil/user.PublicKey"
     "{ var ( ExpiresAt pk.Long PubKey pk.ByteArray Signature pk.ByteArray ) n, err = pk.Tuple{ &ExpiresAt, &PubKey, &Signature, }.ReadFrom(r) if err != nil { return n, err } p.ExpiresAt = time.UnixMilli(int64(ExpiresAt)) pubKey, err := x509.ParsePKIXPublicKey(PubKey) if err != nil { return n, err } if key, ok := pubKey.(*rsa.PublicKey); !ok { return n, errors.New(""expect RSA public key"") } else { p.PubKey = key } p.Signature = Signature return n, nil }"
     (DSeq [DSeq [DF TLong; DF TByteArray; DF TByteArray]; DChoice 22 (DSeq [DFail "errors.New(""expect RSA public key"")"]) (DSeq [])]);
   mkRow "bot.DataPack"
     "{ n, err = (*pk.String)(&d.Namespace).ReadFrom(r) if err != nil { return n, err } n1, err := (*pk.String)(&d.ID).ReadFrom(r) if err != nil { return n + n1, err } n2, err := (*pk.String)(&d.Version).ReadFrom(r) return n + n1 + n2, err }"
     (DSeq [DF TString; DF TString; DF TString]);
   mkRow "bot.encryptionRequest"
     "{ return pk.Tuple{ (*pk.String)(&e.ServerID), (*pk.ByteArray)(&e.PublicKey), (*pk.ByteArray)(&e.VerifyToken), }.ReadFrom(r) }"
     (DSeq [DSeq [DF TString; DF TByteArray; DF TByteArray]]);
   mkRow "bot/screen.Slot"
     "{ var componentsAdd, componentsRemove pk.VarInt return pk.Tuple{ &s.Count, pk.Opt{ Has: func() bool { return s.Count > 0 }, Field: pk.Tuple{ &s.ID, &componentsAdd, &componentsRemove, }, }, }.ReadFrom(r) }"
     (DSeq [DSeq [DF TVarInt; DChoice 23 (DSeq [DF TVarInt; DF TVarInt; DF TVarInt]) (DSeq [])]])].

