(* C08 phase 5: the regenerated table of decode sites (Gen/C08gen.v) is the recorded one, every row
   satisfies the side conditions of the generic totality theorem (no panic statement, no array of
   zero-width elements), hence every row is total. *)
From Coq Require Import List Arith NArith ZArith Lia Bool.
From Coq Require Import String.
From GoMC Require Import Base.Bytes Base.Dec Model.C06 Model.C08 Model.C08_sites Gen.C08gen
  Proofs.C03 Proofs.C08_sites Proofs.C08_sites_expected.
Import ListNotations.

Lemma scan_sites_recorded : c08_scan_sites = expected_scan_sites. Proof. reflexivity. Qed.
Lemma readfrom_sites_recorded : c08_readfrom_sites = expected_readfrom_sites. Proof. reflexivity. Qed.

Lemma scan_sites_ok : forallb (fun r => sd_ok (r_desc r)) c08_scan_sites = true.
Proof. vm_compute. reflexivity. Qed.
Lemma readfrom_sites_ok : forallb (fun r => sd_ok (r_desc r)) c08_readfrom_sites = true.
Proof. vm_compute. reflexivity. Qed.

Section Sites.
  Variable ext : string -> dec unit.
  Variable oracle : N -> bool.
  Variable fuel : nat.
  Hypothesis ext_t : forall k s, (List.length s < fuel)%nat -> prog0 s (run_flat (ext k) s).
  Hypothesis ext_p : forall k s, (List.length s < fuel)%nat -> String.eqb k fixedbits = false -> prog s (run_flat (ext k) s).

  Theorem scan_sites_total : forall r, In r c08_scan_sites -> forall s, (List.length s < fuel)%nat ->
    prog0 s (run_flat (sdr ext oracle fuel (r_desc r)) s).
  Proof.
    intros r Hr s Hs. pose proof scan_sites_ok as H. rewrite forallb_forall in H.
    apply (sdr_fine ext oracle fuel ext_t ext_p (r_desc r) (H r Hr) s Hs).
  Qed.
  Theorem readfrom_sites_total : forall r, In r c08_readfrom_sites -> forall s, (List.length s < fuel)%nat ->
    prog0 s (run_flat (sdr ext oracle fuel (r_desc r)) s).
  Proof.
    intros r Hr s Hs. pose proof readfrom_sites_ok as H. rewrite forallb_forall in H.
    apply (sdr_fine ext oracle fuel ext_t ext_p (r_desc r) (H r Hr) s Hs).
  Qed.
End Sites.
