(* C08 proofs, part 2: the decoder skeletons of level/chunk.go, registry/network.go and bot's tag
   decoders return a value or an error on EVERY input (never Crash, never NoFuel) when the
   sub-decoders owned by other properties do.  "Never spins": with fuel above the input length no loop
   runs dry, because every loop element consumes at least one byte. *)
From Coq Require Import List Arith NArith ZArith Lia Bool ZifyN ZifyNat ZifyBool.
From GoMC Require Import Base.Bytes Base.Dec Gen.Consts Model.C05 Proofs.C05 Model.C06 Model.C11 Model.C08 Proofs.C03.
Import ListNotations.
Open Scope N_scope.

(* ---------------------------------------------------------------- leaves *)
Lemma read_var_prog w cap fuel acc s : 0 < cap -> (N.to_nat cap < fuel)%nat ->
  prog s (run_flat (read_var w cap fuel acc 0) s).
Proof.
  intros Hc Hf. destruct fuel as [|f]; [lia|]. cbn [read_var].
  destruct (N.leb_spec cap 0) as [L|L]; [lia|]. cbn [run_flat]. destruct s as [|b s']; [exact I|].
  destruct (N.land b 128 =? 0); [cbn; lia|].
  pose proof (read_var_cap w cap f (N.lor acc (N.shiftl (N.land b 127) (7 * 0) mod 2 ^ w)) (0 + 1) s' ltac:(lia)) as H.
  destruct (run_flat _ s') as [[u n] rest| | |]; cbn [prog]; auto.
  unfold lenN in H. cbn [length]. lia.
Qed.

Lemma rd_varint_robust : robust rd_varint.
Proof. unfold rd_varint. apply robust_bind; [apply read32_robust|]. intros [z n]. constructor. Qed.
Lemma read32_prog s : prog s (run_flat read32 s).
Proof.
  unfold read32. rewrite run_flat_bind by apply read_var_robust. rewrite max_varint_len.
  pose proof (read_var_prog 32 (Z.to_N 5) 12 0 s ltac:(reflexivity) ltac:(change (Z.to_N 5) with 5; lia)) as H.
  destruct (run_flat (read_var 32 (Z.to_N 5) 12 0 0) s) as [[u n] rest| | |]; cbn [prog] in *; auto.
Qed.
Lemma rd_varint_prog s : prog s (run_flat rd_varint s).
Proof.
  unfold rd_varint. rewrite run_flat_bind by apply read32_robust.
  pose proof (read32_prog s) as H.
  destruct (run_flat read32 s) as [[z n] r| | |]; cbn [prog] in *; auto.
Qed.

Lemma rd_lenbytes_robust : robust rd_lenbytes.
Proof.
  unfold rd_lenbytes. apply robust_bind; [apply rd_varint_robust|]. intros l.
  destruct (l <? 0)%Z; constructor. intros; constructor.
Qed.
Lemma rd_lenbytes_prog s : prog s (run_flat rd_lenbytes s).
Proof.
  unfold rd_lenbytes. apply prog_bind; [apply rd_varint_robust|apply rd_varint_prog|].
  intros l r Hr. destruct (l <? 0)%Z; [exact I|]. apply readfull_prog0. intros; apply ret_prog0.
Qed.
(* a negative declared length is an error, whatever follows *)
Lemma rd_lenbytes_negative s l r : run_flat rd_varint s = FOk l r -> (l < 0)%Z ->
  run_flat rd_lenbytes s = FErr eNegLen.
Proof.
  intros H Hl. unfold rd_lenbytes. rewrite run_flat_bind by apply rd_varint_robust. rewrite H.
  destruct (Z.ltb_spec l 0); [reflexivity|lia].
Qed.
(* a declared length above what is left is an error *)
Lemma rd_lenbytes_short s l r : run_flat rd_varint s = FOk l r -> (Z.of_N (lenN r) < l)%Z ->
  run_flat rd_lenbytes s = FErr eEOF.
Proof.
  intros H Hl. unfold rd_lenbytes. rewrite run_flat_bind by apply rd_varint_robust. rewrite H.
  destruct (Z.ltb_spec l 0); [lia|]. cbn [run_flat].
  destruct (N.leb_spec (Z.to_N l) (lenN r)); [lia|reflexivity].
Qed.

Lemma rd_long_robust : robust rd_long. Proof. constructor. intros; constructor. Qed.
Lemma rd_long_prog s : prog s (run_flat rd_long s).
Proof. unfold rd_long. apply readfull_prog; [reflexivity|]. intros; apply ret_prog0. Qed.

(* ---------------------------------------------------------------- loops *)
Lemma rep_robust {A} (e : N -> dec A) : (forall i, robust (e i)) -> forall fuel i len, robust (rep fuel e i len).
Proof.
  intros He. induction fuel as [|f IH]; intros i len; cbn [rep]; destruct (len <=? i); try constructor.
  apply robust_bind; [apply He|]. intros _. apply IH.
Qed.

(* B bounds the inputs on which the elements are known to behave (they may contain loops on the same fuel) *)
Lemma rep_prog0 {A} (e : N -> dec A) (B : nat) :
  (forall i, robust (e i)) ->
  (forall i s, (length s <= B)%nat -> prog s (run_flat (e i) s)) ->
  forall fuel i len s, (length s <= B)%nat -> (length s < fuel)%nat -> prog0 s (run_flat (rep fuel e i len) s).
Proof.
  intros Hr He. induction fuel as [|f IH]; intros i len s HB Hf; [lia|].
  cbn [rep]. destruct (len <=? i); [apply ret_prog0|].
  rewrite run_flat_bind by apply Hr. specialize (He i s HB).
  destruct (run_flat (e i) s) as [a r| | |]; cbn [prog] in He; try tauto.
  specialize (IH (i + 1) len r ltac:(lia) ltac:(lia)).
  destruct (run_flat (rep f e (i + 1) len) r); cbn [prog0] in *; try tauto. lia.
Qed.

Lemma rep_S {A} f (e : N -> dec A) i len :
  rep (S f) e i len = if len <=? i then Ret tt else _ <- e i ;; rep f e (i + 1) len.
Proof. reflexivity. Qed.

Lemma rd_ary_robust {A} (e : N -> dec A) fuel : (forall i, robust (e i)) -> robust (rd_ary fuel e).
Proof.
  intros He. unfold rd_ary. apply robust_bind; [apply rd_varint_robust|]. intros l.
  destruct (l <? 0)%Z; [constructor|apply rep_robust; exact He].
Qed.
Lemma rd_ary_prog {A} (e : N -> dec A) (B : nat) fuel s :
  (forall i, robust (e i)) ->
  (forall i s, (length s <= B)%nat -> prog s (run_flat (e i) s)) ->
  (length s <= B)%nat -> (length s < fuel)%nat -> prog s (run_flat (rd_ary fuel e) s).
Proof.
  intros Hr He HB Hf. unfold rd_ary. apply prog_bind; [apply rd_varint_robust|apply rd_varint_prog|].
  intros l r Hl. destruct (l <? 0)%Z; [exact I|]. apply rep_prog0 with (B := B); auto; lia.
Qed.
Lemma rd_ary_negative {A} (e : N -> dec A) fuel s l r : run_flat rd_varint s = FOk l r -> (l < 0)%Z ->
  run_flat (rd_ary fuel e) s = FErr eNegLen.
Proof.
  intros H Hl. unfold rd_ary. rewrite run_flat_bind by apply rd_varint_robust. rewrite H.
  destruct (Z.ltb_spec l 0); [reflexivity|lia].
Qed.

Lemma rd_bitset_robust fuel : robust (rd_bitset fuel).
Proof. unfold rd_bitset. apply rd_ary_robust. intros; apply rd_long_robust. Qed.
Lemma rd_bitset_prog fuel s : (length s < fuel)%nat -> prog s (run_flat (rd_bitset fuel) s).
Proof.
  intros Hf. unfold rd_bitset. apply rd_ary_prog with (B := length s); auto; intros; [apply rd_long_robust|apply rd_long_prog].
Qed.

(* ---------------------------------------------------------------- in-memory buffers *)
Lemma on_buffer_robust {A} (d : dec A) data : robust (on_buffer d data).
Proof. unfold on_buffer. destruct (run_flat d data); constructor. Qed.
Lemma on_buffer_prog0 {A} (d : dec A) data s : ok_or_err (run_flat d data) -> prog0 s (run_flat (on_buffer d data) s).
Proof. unfold on_buffer. destruct (run_flat d data); cbn [ok_or_err run_flat prog0]; try tauto. lia. Qed.

Lemma light_data_robust fuel : robust (light_data fuel).
Proof.
  unfold light_data. do 4 (apply robust_bind; [apply rd_bitset_robust|intros _]).
  apply robust_bind; [apply rd_ary_robust; intros; apply rd_lenbytes_robust|intros _].
  apply rd_ary_robust; intros; apply rd_lenbytes_robust.
Qed.
Lemma light_data_prog0 fuel s : (length s < fuel)%nat -> prog0 s (run_flat (light_data fuel) s).
Proof.
  intros Hf. unfold light_data.
  assert (L: forall r, (length r <= length s)%nat ->
             prog0 r (run_flat (rd_ary fuel (fun _ : N => rd_lenbytes)) r)).
  { intros r Hr. apply prog_prog0. apply rd_ary_prog with (B := length r); auto; try lia;
      intros; [apply rd_lenbytes_robust|apply rd_lenbytes_prog]. }
  apply prog0_bind; [apply rd_bitset_robust|apply prog_prog0, rd_bitset_prog; lia|]. intros _ r1 H1.
  apply prog0_bind; [apply rd_bitset_robust|apply prog_prog0, rd_bitset_prog; lia|]. intros _ r2 H2.
  apply prog0_bind; [apply rd_bitset_robust|apply prog_prog0, rd_bitset_prog; lia|]. intros _ r3 H3.
  apply prog0_bind; [apply rd_bitset_robust|apply prog_prog0, rd_bitset_prog; lia|]. intros _ r4 H4.
  apply prog0_bind; [apply rd_ary_robust; intros; apply rd_lenbytes_robust|apply L; lia|]. intros _ r5 H5.
  apply L. lia.
Qed.


(* ---------------------------------------------------------------- the skeletons *)
Section Skeleton.
  Variable nbt_hm : dec (option N * option N).
  Variable nbt_raw : N -> dec unit.
  Variable states biomes : N -> dec unit.

  (* what is assumed of the sub-decoders owned by C01/C03 (NBT) and C12 (palette containers): no bare
     Read, and on every input a value or an error without reading backwards *)
  Hypothesis hm_r : robust nbt_hm.
  Hypothesis hm_t : forall s, prog0 s (run_flat nbt_hm s).
  Hypothesis raw_r : forall j, robust (nbt_raw j).
  Hypothesis raw_t : forall j s, prog0 s (run_flat (nbt_raw j) s).
  Hypothesis st_r : forall i, robust (states i).
  Hypothesis st_t : forall i s, prog0 s (run_flat (states i) s).
  Hypothesis bi_r : forall i, robust (biomes i).
  Hypothesis bi_t : forall i s, prog0 s (run_flat (biomes i) s).

  Lemma block_entity_robust j : robust (block_entity nbt_raw j).
  Proof.
    unfold block_entity. constructor. intros _. constructor. intros _.
    apply robust_bind; [apply rd_varint_robust|]. intros _. apply raw_r.
  Qed.
  Lemma block_entity_prog j s : prog s (run_flat (block_entity nbt_raw j) s).
  Proof.
    unfold block_entity. cbn [run_flat]. destruct s as [|b s']; [exact I|].
    assert (P: prog0 s' (run_flat (ReadFull 2 (fun _ => _ <- rd_varint ;; nbt_raw j)) s')).
    { apply readfull_prog0. intros bs r Hr.
      apply prog0_bind; [apply rd_varint_robust|apply prog_prog0, rd_varint_prog|]. intros; apply raw_t. }
    change (prog (b :: s') (run_flat (ReadFull 2 (fun _ => _ <- rd_varint ;; nbt_raw j)) s')).
    destruct (run_flat (ReadFull 2 (fun _ => _ <- rd_varint ;; nbt_raw j)) s'); cbn [prog prog0 length] in P |- *; [clear - P; lia|exact I|exact P|exact P].
  Qed.

  Lemma section_robust i : robust (section states biomes i).
  Proof. unfold section. constructor. intros _. apply robust_bind; [apply st_r|intros _; apply bi_r]. Qed.
  Lemma section_prog0 i s : prog0 s (run_flat (section states biomes i) s).
  Proof.
    unfold section. apply readfull_prog0. intros bs r Hr.
    apply prog0_bind; [apply st_r|apply st_t|]. intros; apply bi_t.
  Qed.
  Lemma sections_prog0 : forall k i s, prog0 s (run_flat (sections states biomes k i) s).
  Proof.
    induction k as [|k IH]; intros i s; cbn [sections]; [apply ret_prog0|].
    apply prog0_bind; [apply section_robust|apply section_prog0|]. intros; apply IH.
  Qed.
  (* PutData on ANY data, for any number of sections *)
  Theorem put_data_total nsec data s : ok_or_err (run_flat (put_data states biomes nsec data) s).
  Proof.
    apply (prog0_ok s). unfold put_data. apply on_buffer_prog0. apply (prog0_ok data). apply sections_prog0.
  Qed.

  Theorem chunk_read_total fuel nsec s :
    calc_size (bits_for_height nsec) 256 <> None -> (length s < fuel)%nat ->
    ok_or_err (run_flat (chunk_read nbt_hm nbt_raw states biomes fuel nsec) s).
  Proof.
    intros Hc Hf. apply (prog0_ok s). unfold chunk_read.
    apply prog0_bind; [apply hm_r|apply hm_t|]. intros hm r1 H1.
    apply prog0_bind; [apply rd_lenbytes_robust|apply prog_prog0, rd_lenbytes_prog|]. intros data r2 H2.
    apply prog0_bind; [apply rd_ary_robust; apply block_entity_robust| |].
    { apply prog_prog0. apply rd_ary_prog with (B := length r2); auto; try lia;
        intros; [apply block_entity_robust|apply block_entity_prog]. }
    intros _ r3 H3.
    apply prog0_bind; [apply light_data_robust|apply light_data_prog0; lia|]. intros _ r4 H4.
    destruct (calc_size (bits_for_height nsec) 256) as [want|]; [|congruence].
    destruct (_ || _); [exact I|].
    unfold put_data. apply on_buffer_prog0. apply (prog0_ok data). apply sections_prog0.
  Qed.

  (* a height map of the wrong size never yields a chunk: the run ends in an error *)
  Theorem chunk_heightmap_checked fuel nsec s mb ws r want :
    (length s < fuel)%nat ->
    run_flat nbt_hm s = FOk (mb, ws) r ->
    calc_size (bits_for_height nsec) 256 = Some want ->
    hm_bad want mb || hm_bad want ws = true ->
    is_err (run_flat (chunk_read nbt_hm nbt_raw states biomes fuel nsec) s) = true.
  Proof.
    intros Hf Hhm Hw Hbad.
    pose proof (chunk_read_total fuel nsec s ltac:(congruence) Hf) as T.
    pose proof (hm_t s) as P1. rewrite Hhm in P1. cbn [prog0] in P1.
    unfold chunk_read in T |- *. rewrite run_flat_bind in T |- * by apply hm_r. rewrite Hhm in T |- *.
    rewrite run_flat_bind in T |- * by apply rd_lenbytes_robust.
    destruct (run_flat rd_lenbytes r) as [data r2| | |]; cbn [ok_or_err is_err] in T |- *; try reflexivity; try contradiction.
    rewrite run_flat_bind in T |- * by (apply rd_ary_robust; apply block_entity_robust).
    destruct (run_flat (rd_ary fuel (block_entity nbt_raw)) r2) as [u r3| | |]; cbn [ok_or_err is_err] in T |- *; try reflexivity; try contradiction.
    rewrite run_flat_bind in T |- * by apply light_data_robust.
    destruct (run_flat (light_data fuel) r3) as [u' r4| | |]; cbn [ok_or_err is_err] in T |- *; try reflexivity; try contradiction.
    rewrite Hw. cbn [fst snd]. rewrite Hbad. reflexivity.
  Qed.

End Skeleton.

Section Registry.
  Variable nbt_entry : N -> dec unit.
  Hypothesis en_r : forall i, robust (nbt_entry i).
  Hypothesis en_t : forall i s, prog0 s (run_flat (nbt_entry i) s).

  Theorem registry_read_total fuel s : (length s < fuel)%nat ->
    ok_or_err (run_flat (registry_read nbt_entry fuel) s).
  Proof.
    intros Hf. apply (prog0_ok s). unfold registry_read.
    apply prog0_bind; [apply rd_varint_robust|apply prog_prog0, rd_varint_prog|]. intros l r Hr.
    apply rep_prog0 with (B := length r); auto; try lia.
    - intros i. apply robust_bind; [apply rd_lenbytes_robust|]. intros _. constructor. intros b.
      destruct (b =? 0); [constructor|apply en_r].
    - intros i s' _. apply prog_bind; [apply rd_lenbytes_robust|apply rd_lenbytes_prog|]. intros _ r' Hr'.
      cbn [run_flat]. destruct r' as [|b r'']; [exact I|].
      destruct (b =? 0); [cbn [run_flat prog0 length]; lia|]. pose proof (en_t i r'') as P.
      destruct (run_flat (nbt_entry i) r''); cbn [prog0 length] in P |- *; [clear - P Hr'; cbn [length] in Hr'; lia|exact I|exact P|exact P].
  Qed.
End Registry.

(* ---------------------------------------------------------------- tag decoders (no sub-decoder) *)
Definition tag_ids (fuel : nat) (nvalues : Z) : N -> dec unit := fun _ =>
  id <- rd_varint ;; if ((id <? 0) || (nvalues <=? id))%Z then Fail eBadId else Ret tt.

Lemma tags_elem_robust fuel nv :
  robust (_ <- rd_lenbytes ;; l <- rd_varint ;;
          if (l <? 0)%Z then Fail eNegLen
          else rep fuel (fun _ : N => id <- rd_varint ;;
                         if ((id <? 0) || (nv <=? id))%Z then Fail eBadId else Ret tt) 0 (Z.to_N l)).
Proof.
  apply robust_bind; [apply rd_lenbytes_robust|]. intros _.
  apply robust_bind; [apply rd_varint_robust|]. intros l.
  destruct (l <? 0)%Z; [constructor|]. apply rep_robust. intros _.
  apply robust_bind; [apply rd_varint_robust|]. intros id. destruct (_ || _)%bool; constructor.
Qed.

Theorem tags_read_total fuel nv s : (length s < fuel)%nat -> ok_or_err (run_flat (tags_read fuel nv) s).
Proof.
  intros Hf. apply (prog0_ok s). unfold tags_read.
  apply prog0_bind; [apply rd_varint_robust|apply prog_prog0, rd_varint_prog|]. intros c r Hr.
  apply rep_prog0 with (B := length r); auto; try lia.
  - intros i. apply tags_elem_robust.
  - intros i s' Hs'. apply prog_bind; [apply rd_lenbytes_robust|apply rd_lenbytes_prog|]. intros _ r1 H1.
    apply prog0_bind; [apply rd_varint_robust|apply prog_prog0, rd_varint_prog|]. intros l r2 H2.
    destruct (l <? 0)%Z; [exact I|].
    apply rep_prog0 with (B := length r2); auto; try lia.
    + intros _. apply robust_bind; [apply rd_varint_robust|]. intros id. destruct (_ || _)%bool; constructor.
    + intros _ s2 _. apply prog_bind; [apply rd_varint_robust|apply rd_varint_prog|]. intros id r3 H3.
      destruct (_ || _)%bool; [exact I|apply ret_prog0].
Qed.

(* the per-tag count is checked: negative -> error (was: make with a negative length) *)
Theorem tags_negative_count fuel nv s r0 r1 r2 c tag l :
  (length s < fuel)%nat ->
  run_flat rd_varint s = FOk c r0 -> (0 < c)%Z ->
  run_flat rd_lenbytes r0 = FOk tag r1 ->
  run_flat rd_varint r1 = FOk l r2 -> (l < 0)%Z ->
  run_flat (tags_read fuel nv) s = FErr eNegLen.
Proof.
  intros Hf Hc Hpos Htag Hl Hneg. unfold tags_read.
  rewrite run_flat_bind by apply rd_varint_robust. rewrite Hc.
  pose proof (rd_varint_prog s) as P. rewrite Hc in P. cbn [prog] in P.
  destruct fuel as [|f]; [lia|]. rewrite rep_S.
  destruct (N.leb_spec (Z.to_N c) 0); [lia|].
  rewrite run_flat_bind by apply (tags_elem_robust (S f) nv).
  rewrite run_flat_bind by apply rd_lenbytes_robust. rewrite Htag.
  rewrite run_flat_bind by apply rd_varint_robust. rewrite Hl.
  destruct (Z.ltb_spec l 0); [reflexivity|lia].
Qed.

Theorem idle_tags_total fuel s : (length s < fuel)%nat -> ok_or_err (run_flat (idle_tags fuel) s).
Proof.
  intros Hf. apply (prog0_ok s). unfold idle_tags.
  apply prog0_bind; [apply rd_varint_robust|apply prog_prog0, rd_varint_prog|]. intros c r Hr.
  apply rep_prog0 with (B := length r); auto; try lia.
  - intros i. apply robust_bind; [apply rd_lenbytes_robust|]. intros _.
    apply robust_bind; [apply rd_varint_robust|]. intros l. apply rep_robust. intros _. apply rd_varint_robust.
  - intros i s' Hs'. apply prog_bind; [apply rd_lenbytes_robust|apply rd_lenbytes_prog|]. intros _ r1 H1.
    apply prog0_bind; [apply rd_varint_robust|apply prog_prog0, rd_varint_prog|]. intros l r2 H2.
    apply rep_prog0 with (B := length r2); auto; try lia.
    + intros _. apply rd_varint_robust.
    + intros _ s2 _. apply rd_varint_prog.
Qed.

Lemma tags_read_robust fuel nv : robust (tags_read fuel nv).
Proof.
  unfold tags_read. apply robust_bind; [apply rd_varint_robust|]. intros c. apply rep_robust.
  intros i. apply tags_elem_robust.
Qed.
Lemma idle_tags_robust fuel : robust (idle_tags fuel).
Proof.
  unfold idle_tags. apply robust_bind; [apply rd_varint_robust|]. intros c. apply rep_robust. intros i.
  apply robust_bind; [apply rd_lenbytes_robust|]. intros _.
  apply robust_bind; [apply rd_varint_robust|]. intros l. apply rep_robust. intros _. apply rd_varint_robust.
Qed.

(* the update-tags handler: any table of known registries *)
Theorem update_tags_total fuel known s : (length s < fuel)%nat ->
  ok_or_err (run_flat (update_tags fuel known) s).
Proof.
  intros Hf. apply (prog0_ok s). unfold update_tags.
  apply prog0_bind; [apply rd_varint_robust|apply prog_prog0, rd_varint_prog|]. intros l r Hr.
  apply rep_prog0 with (B := length r); auto; try lia.
  - intros i. apply robust_bind; [apply rd_lenbytes_robust|]. intros id.
    destruct (known id); [apply tags_read_robust|apply idle_tags_robust].
  - intros i s' Hs'. apply prog_bind; [apply rd_lenbytes_robust|apply rd_lenbytes_prog|]. intros id r1 H1.
    destruct (known id) as [nv|].
    + pose proof (tags_read_total fuel nv r1 ltac:(lia)) as T.
      pose proof (robust_rest_suffix _ (tags_read_robust fuel nv) r1) as S.
      destruct (run_flat (tags_read fuel nv) r1) as [a r2| | |]; cbn [ok_or_err prog0] in *; try tauto.
      destruct (S a r2 eq_refl) as [c ->]. rewrite app_length. lia.
    + pose proof (idle_tags_total fuel r1 ltac:(lia)) as T.
      pose proof (robust_rest_suffix _ (idle_tags_robust fuel) r1) as S.
      destruct (run_flat (idle_tags fuel) r1) as [a r2| | |]; cbn [ok_or_err prog0] in *; try tauto.
      destruct (S a r2 eq_refl) as [c ->]. rewrite app_length. lia.
Qed.

(* the oracle decoders used by the correspondence run satisfy the hypotheses of the Section *)
Lemma oracle_robust {A} k (v : option A) : robust (oracle k v).
Proof. unfold oracle. constructor. intros _. destruct v; constructor. Qed.
Lemma oracle_prog0 {A} k (v : option A) s : prog0 s (run_flat (oracle k v) s).
Proof. unfold oracle. apply readfull_prog0. intros. destruct v; [apply ret_prog0|exact I]. Qed.
