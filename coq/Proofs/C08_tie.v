(* C08: the tie between the hand-written models (Model/C08.v) and the Go source by translation.
   1. *_skel_ok: the statement skeletons tools/gotrans/c08.go renders from the repository on every run
      (Gen/C08gen.v) have the shapes recorded in Proofs/C08_expected.v.
   2. Interpretation lemmas: running the interpreter of Model/C08_syntax.v over the TRANSLATED bodies
      (their guards included) gives exactly the model's functions. *)
From Coq Require Import List Arith NArith ZArith Lia Bool String.
From GoMC Require Import Base.Bytes Base.Dec Model.C05 Model.C06 Model.C08 Model.C08_syntax Gen.C08gen
  Proofs.C08 Proofs.C08_expected.
Import ListNotations.
Open Scope N_scope.

(* ------------------------------------------------------------------ 1. the source is what was modelled *)
Lemma sp_Parse_skel_ok : map shape c08_sp_Parse = expected_sp_Parse. Proof. reflexivity. Qed.
Lemma node_parse_skel_ok cP : map shape (c08_node_parse cP) = expected_node_parse. Proof. reflexivity. Qed.
Lemma node_next_skel_ok g cP : map shape (c08_node_next g cP) = expected_node_next. Proof. reflexivity. Qed.
Lemma Execute_skel_ok g cp cn : map shape (c08_Execute g cp cn) = expected_Execute. Proof. reflexivity. Qed.
Lemma Registry_ReadFrom_skel_ok ne : map shape (c08_Registry_ReadFrom ne) = expected_Registry_ReadFrom.
Proof. reflexivity. Qed.
Lemma Registry_ReadTagsFrom_skel_ok : map shape c08_Registry_ReadTagsFrom = expected_Registry_ReadTagsFrom.
Proof. reflexivity. Qed.
Lemma idle_ReadFrom_skel_ok : map shape c08_idle_ReadFrom = expected_idle_ReadFrom. Proof. reflexivity. Qed.
Lemma update_tags_skel_ok kn ci ct : map shape (c08_update_tags kn ci ct) = expected_update_tags.
Proof. reflexivity. Qed.
Lemma node_kinds_ok : c08_RootNode = 0 /\ c08_LiteralNode = 1 /\ c08_ArgumentNode = 2.
Proof. repeat split. Qed.

(* ------------------------------------------------------------------ 2. interpretation *)
Definition pFuelX : N := 99.   (* interpreter out of fuel (never: the fuel constants below suffice) *)
Definition pFallOff : N := 98. (* control fell off the end of a body all of whose paths return *)

(* Node.parse *)
Definition parse_interp (cP : Z -> list N -> pres) (nd : node) (cmd : list N) : pres :=
  exec PCrash (PCrash pFuelX) 8 (c08_node_parse cP) (cst0 nd cmd)
       (fun _ => PCrash pFallOff) (fun _ => PCrash pFallOff) (fun _ => PCrash pFallOff).

Lemma trim_prefix_skip p s : is_prefix p s = true -> trim_prefix s p = skipn (List.length p) s.
Proof. intros H. unfold trim_prefix. rewrite H. reflexivity. Qed.

Theorem parse_interp_ok cP nd cmd : (forall f c, cP f c = sp_parse f c) ->
  parse_interp cP nd cmd = node_parse nd cmd.
Proof.
  intros HcP. unfold parse_interp, c08_node_parse, node_parse, kindof.
  change (Z.to_N 3) with 3.
  destruct (N.land (kind nd) 3 =? 0) eqn:K0; [cbn; rewrite K0; reflexivity|].
  destruct (N.land (kind nd) 3 =? 1) eqn:K1.
  - cbn. rewrite K0, K1. cbn. destruct (is_prefix (name nd) cmd) eqn:P; cbn; [|reflexivity].
    rewrite trim_prefix_skip by exact P. reflexivity.
  - destruct (N.land (kind nd) 3 =? 2) eqn:K2.
    + cbn. rewrite K0, K1, K2. cbn. destruct (parser nd) as [f|]; [|reflexivity].
      rewrite HcP. destruct (sp_parse f cmd); reflexivity.
    + cbn. rewrite K0, K1, K2. reflexivity.
Qed.

(* g.nodes[i]: the guard of the translated index expression is the model's lookup *)
Lemma lookup_node_at g i : lookup g i = if g_index g i then Some (node_at g i) else None.
Proof.
  unfold lookup, g_index, node_at, zlen.
  destruct (Z.ltb_spec i 0); destruct (Z.leb_spec 0 i); try lia; cbn [orb andb]; [reflexivity|].
  destruct (Z.leb_spec (Z.of_nat (List.length g)) i); destruct (Z.ltb_spec i (Z.of_nat (List.length g))); try lia; [reflexivity|].
  apply nth_error_nth'. lia.
Qed.
Lemma zlen_nil_iff {A} (l : list A) : (zlen l =? 0)%Z = match l with [] => true | _ => false end.
Proof. destruct l; reflexivity. Qed.

Local Arguments trim : simpl never.
Local Arguments node_next : simpl never.
Local Arguments node_parse : simpl never.

(* Graph.Execute: the body of its `for { }`, one iteration = one step of the model's exec_loop *)
Fixpoint fb (n : nat) : nat := match n with O => O | Datatypes.S m => Datatypes.S (fb m) end.

Section ExecuteLoop.
Variable g : graph.
Variable cp : node -> list N -> pres.
Variable cn : node -> list N -> nres.
Hypothesis Hcp : forall nd c, cp nd c = node_parse nd c.
Hypothesis Hcn : forall nd l, cn nd l = node_next g nd l.

Definition exec_body := match c08_Execute g cp cn with
                        | _ :: _ :: CLoop body :: _ => body | _ => [] end.

Lemma execute_loop_ok : forall n σ K B C,
  exec_loop n g (c_node σ) (c_cmd σ) (c_args σ) <> ONoFuel ->
  exec OCrash ONoFuel (fb n) (exec_body ++ [CLoop exec_body]) σ K B C
  = exec_loop n g (c_node σ) (c_cmd σ) (c_args σ).
Proof.
  induction n as [|n IH]; intros σ K B C H; [cbn in H; congruence|].
  cbn [fb]. cbn [exec_loop] in H |- *.
  unfold exec_body in IH |- *. cbn [c08_Execute app] in IH |- *. cbn [exec].
  rewrite Hcp.
  destruct (node_parse (c_node σ) (c_cmd σ)) as [lft v| |w] eqn:EP; cbn; [|reflexivity|reflexivity].
  rewrite zlen_nil_iff.
  destruct (trim lft) as [|c t] eqn:ET; cbn.
  - destruct (run (c_node σ)); reflexivity.
  - rewrite Hcn.
    destruct (node_next g (c_node σ) (c :: t)) as [nx| |w] eqn:EN; cbn; [|reflexivity|reflexivity].
    destruct (nx =? 0)%Z eqn:E0; cbn; [reflexivity|].
    rewrite lookup_node_at in H |- *. destruct (g_index g nx); cbn; [|reflexivity].
    match goal with |- exec _ _ _ _ ?s _ _ _ = _ => apply (IH s) end. cbn. exact H.
Qed.

(* the whole body, from `var args` on *)
Definition execute_interp (fuel : nat) (line : list N) : outcome :=
  exec OCrash ONoFuel (Datatypes.S (fb fuel)) (c08_Execute g cp cn) (cst0 dummy_node line)
       (fun _ => OCrash pFallOff) (fun _ => OCrash pFallOff) (fun _ => OCrash pFallOff).

Theorem execute_interp_ok fuel line : g <> [] -> execute_f fuel g line <> ONoFuel ->
  execute_interp fuel line = execute_f fuel g line.
Proof.
  intros Hg H. unfold execute_interp, execute_f in *. destruct g as [|root rest] eqn:EG; [congruence|].
  rewrite <- EG in *.
  assert (G0: g_index g 0%Z = true) by (rewrite EG; reflexivity).
  assert (N0: node_at g 0%Z = root) by (rewrite EG; reflexivity).
  change (c08_Execute g cp cn) with
    (match c08_Execute g cp cn with a :: b :: _ => [a; b] | _ => [] end ++ [CLoop exec_body]).
  cbn [c08_Execute app exec]. rewrite G0. cbn [guarded].
  pose proof (execute_loop_ok fuel (set_node (set_args (cst0 dummy_node line) []) (node_at g 0%Z))) as L.
  cbn [c_node c_cmd c_args set_node set_args cst0] in L. rewrite N0 in L.
  unfold exec_body in L. cbn [c08_Execute] in L. rewrite N0. apply L. exact H.
Qed.
End ExecuteLoop.

(* Node.next *)
Definition next_interp (g : graph) (cP : Z -> list N -> pres) (nd : node) (lft : list N) : nres :=
  exec NCrash (NCrash pFuelX) 12 (c08_node_next g cP) (set_left (cst0 nd []) lft)
       (fun _ => NCrash pFallOff) (fun _ => NCrash pFallOff) (fun _ => NCrash pFallOff).

Local Arguments find_child : simpl never.
Local Arguments g_index : simpl never.
Local Arguments z_at : simpl never.
Local Arguments node_at : simpl never.
Local Arguments zlen : simpl never.
Local Arguments sp_parse : simpl never.
Local Arguments lookup : simpl never.

Theorem next_interp_ok g cP nd lft : (forall f c, cP f c = sp_parse f c) ->
  next_interp g cP nd lft = node_next g nd lft.
Proof.
  intros HcP. unfold next_interp, c08_node_next, node_next, kindof. change (Z.to_N 3) with 3.
  destruct (children nd) as [|c0 cs] eqn:EC.
  { cbn. rewrite EC. reflexivity. }
  assert (Z0: (zlen (children nd) =? 0)%Z = false) by (rewrite EC; reflexivity).
  assert (G0: g_index (children nd) 0%Z = true) by (rewrite EC; reflexivity).
  assert (A0: z_at (children nd) 0%Z = c0) by (rewrite EC; reflexivity).
  rewrite lookup_node_at.
  cbn. rewrite Z0. cbn. rewrite G0, A0. cbn [guarded].
  destruct (g_index g c0) eqn:GI; cbn [guarded]; [|reflexivity].
  set (m0 := node_at g c0).
  destruct (N.land (kind m0) 3 =? 0) eqn:K0.
  { apply N.eqb_eq in K0. rewrite K0. reflexivity. }
  cbn.
  destruct (N.land (kind m0) 3 =? 1) eqn:K1.
  - rewrite HcP. destruct (sp_parse 0 (trim lft)) as [l v| |w]; cbn; [|reflexivity|reflexivity].
    destruct v as [|s|lit]; cbn; try reflexivity.
    (* the range over the children is find_child *)
    rewrite EC.
    match goal with |- iter ?b ?nx ?xs ?i ?s = _ =>
      assert (L: forall cs' i' s', c_err s' = false -> c_next s' = 0%Z -> c_lit s' = lit ->
                 iter b nx cs' i' s' = find_child g lit cs'); [|apply L; reflexivity]
    end.
    induction cs' as [|x t IH]; intros i' s' He Hn Hl.
    + cbn. rewrite He, Hn. reflexivity.
    + cbn [iter]. unfold find_child; fold find_child. rewrite lookup_node_at.
      destruct (g_index g x); cbn [guarded]; [|reflexivity].
      rewrite Hl. unfold str_eqb. destruct (list_eqb (name (node_at g x)) lit).
      * rewrite He. reflexivity.
      * apply IH; cbn; assumption.
  - destruct (N.land (kind m0) 3 =? 2) eqn:K2; cbn; reflexivity.
Qed.

(* StringParser.Parse *)
Definition sp_interp (f : Z) (cmd : list N) : pres :=
  exec PCrash (PCrash pFuelX) 16 c08_sp_Parse (mkcst cmd [] PNil [] dummy_node 0 false 0 0 false [] [] f)
       (fun _ => PCrash pFallOff) (fun _ => PCrash pFallOff) (fun _ => PCrash pFallOff).

Lemma index_any_split cmd :
  (-1 <= index_any_ws cmd <= zlen cmd)%Z /\
  split_word cmd = if (index_any_ws cmd =? -1)%Z then (cmd, [])
                   else (slice_to cmd (index_any_ws cmd), slice_from cmd (index_any_ws cmd)).
Proof.
  induction cmd as [|c t [IB IS]]; [split; [unfold zlen; cbn; lia|reflexivity]|].
  cbn [index_any_ws split_word]. unfold zlen in *. cbn [List.length]. destruct (is_space c).
  - split; [lia|reflexivity].
  - rewrite IS. destruct (Z.eqb_spec (index_any_ws t) (-1)).
    + split; [lia|reflexivity].
    + destruct (Z.eqb_spec (index_any_ws t + 1) (-1)); [lia|]. split; [lia|].
      unfold slice_to, slice_from. replace (Z.to_nat (index_any_ws t + 1)) with (Datatypes.S (Z.to_nat (index_any_ws t))) by lia.
      reflexivity.
Qed.

Lemma sp_word_translated cmd :
  (if (index_any_ws cmd =? -1)%Z then PR [] (PStr cmd)
   else if g_slice_from cmd (index_any_ws cmd)
        then if g_slice_to cmd (index_any_ws cmd)
             then PR (slice_from cmd (index_any_ws cmd)) (PStr (slice_to cmd (index_any_ws cmd))) else PCrash pSlice
        else PCrash pSlice) = sp_word cmd.
Proof.
  unfold sp_word. destruct (index_any_split cmd) as [B S]. rewrite S.
  destruct (Z.eqb_spec (index_any_ws cmd) (-1)); [reflexivity|].
  unfold g_slice_from, g_slice_to.
  destruct (Z.leb_spec 0 (index_any_ws cmd)); [|lia]. destruct (Z.leb_spec (index_any_ws cmd) (zlen cmd)); [|lia].
  reflexivity.
Qed.

Local Arguments index_any_ws : simpl never.
Local Arguments slice_from : simpl never.
Local Arguments slice_to : simpl never.
Local Arguments g_slice_to : simpl never.
Local Arguments g_slice_from : simpl never.
Local Arguments byte_at : simpl never.
Local Arguments quote_scan : simpl never.

Local Arguments Z.of_nat : simpl never.
Lemma quote_scan_step v t i esc acc :
  quote_scan (v :: t) i esc acc =
  if esc then quote_scan t (Datatypes.S i) false (if (v =? 92) || (v =? 34) then v :: acc else acc)
  else if v =? 92 then quote_scan t (Datatypes.S i) true acc
  else if v =? 34 then Some (i, acc) else quote_scan t (Datatypes.S i) false (v :: acc).
Proof. reflexivity. Qed.

Theorem sp_interp_ok f cmd : sp_interp f cmd = sp_parse f cmd.
Proof.
  unfold sp_interp, c08_sp_Parse, sp_parse.
  destruct (f =? 2)%Z eqn:F2; [cbn; rewrite F2; reflexivity|].
  destruct (f =? 1)%Z eqn:F1.
  - cbn. rewrite F2, F1. cbn.
    destruct cmd as [|c t].
    + cbn. reflexivity.
    + assert (G: g_index (c :: t) 0%Z = true) by reflexivity. rewrite G. cbn [guarded orb negb].
      change (byte_at (c :: t) 0%Z) with c. change (0 <? zlen (c :: t))%Z with true. cbn [andb].
      destruct (c =? 34) eqn:Q; cbn.
      * change (slice_from (c :: t) 1%Z) with t.
        assert (G1: g_slice_from (c :: t) 1%Z = true).
        { unfold g_slice_from, zlen. cbn [List.length]. destruct (Z.leb_spec 1 (Z.of_nat (Datatypes.S (List.length t)))); [reflexivity|lia]. }
        rewrite G1. cbn [guarded].
        match goal with |- iter ?b ?nx ?xs ?i ?s = _ =>
          assert (L: forall rest n s', c_cmd s' = c :: t -> (n + List.length rest <= List.length t)%nat ->
                     iter b nx rest (Z.of_nat n) s' =
                     match quote_scan rest n (c_esc s') (rev (c_sb s')) with
                     | Some (j, acc) => PR (firstn j (c :: t)) (PStr (rev acc))
                     | None => PErr
                     end); [|apply (L t O); [reflexivity|cbn; lia]]
        end.
        induction rest as [|v rest IH]; intros n s' Hc Hn; [reflexivity|].
        cbn [iter]. rewrite quote_scan_step. cbn [List.length] in Hn.
        replace (Z.of_nat n + 1)%Z with (Z.of_nat (Datatypes.S n)) by lia.
        cbn. destruct (c_esc s') eqn:E; cbn.
        -- destruct (v =? 92) eqn:V1; cbn.
           ++ rewrite IH by (cbn; try assumption; lia). cbn. rewrite rev_unit. apply N.eqb_eq in V1. subst v. reflexivity.
           ++ destruct (v =? 34) eqn:V2; cbn.
              ** rewrite IH by (cbn; try assumption; lia). cbn. rewrite rev_unit. apply N.eqb_eq in V2. subst v. reflexivity.
              ** rewrite IH by (cbn; try assumption; lia). cbn. reflexivity.
        -- destruct (v =? 92) eqn:V1; cbn.
           ++ rewrite IH by (cbn; try assumption; lia). cbn. try rewrite E. reflexivity.
           ++ destruct (v =? 34) eqn:V2; cbn.
              ** rewrite Hc. unfold g_slice_to, zlen, slice_to. cbn [List.length].
                 destruct (Z.leb_spec 0 (Z.of_nat n)); [|lia].
                 destruct (Z.leb_spec (Z.of_nat n) (Z.of_nat (Datatypes.S (List.length t)))); [|lia].
                 cbn [andb]. rewrite Nat2Z.id, rev_involutive. reflexivity.
              ** rewrite IH by (cbn; try assumption; lia). cbn. try rewrite E. rewrite rev_unit. reflexivity.
      * apply sp_word_translated.
  - destruct (f =? 0)%Z eqn:F0; cbn; rewrite F2, F1, F0; cbn; [apply sp_word_translated|reflexivity].
Qed.
