(* C08: interpretation of the TRANSLATED decoder bodies (Gen/C08gen.v: Registry.ReadFrom, ReadTagsFrom,
   idleTagsDecoder.ReadFrom, the update-tags case) = the model's control skeletons (Model/C08.v), on
   every input, as soon as both fuels exceed the input length. *)
From Coq Require Import List Arith NArith ZArith Lia Bool String.
From GoMC Require Import Base.Bytes Base.Dec Model.C05 Proofs.C05 Model.C06 Model.C08 Model.C08_syntax Gen.C08gen
  Proofs.C03 Proofs.C08_skel.
Import ListNotations.
Open Scope N_scope.

(* ---------------------------------------------------------------- running the read effects *)
Lemma run_eff_varint {S} (set : S -> Z -> S) σ (k : S -> dec unit) s :
  run_flat (eff_varint set σ k) s =
  match run_flat rd_varint s with
  | FOk z r => run_flat (k (set σ z)) r | FErr e => FErr e | FPanic w => FPanic w | FFuel => FFuel end.
Proof. unfold eff_varint. rewrite run_flat_bind by apply rd_varint_robust. reflexivity. Qed.
Lemma run_eff_string {S} (set : S -> list N -> S) σ (k : S -> dec unit) s :
  run_flat (eff_string set σ k) s =
  match run_flat rd_lenbytes s with
  | FOk z r => run_flat (k (set σ z)) r | FErr e => FErr e | FPanic w => FPanic w | FFuel => FFuel end.
Proof. unfold eff_string. rewrite run_flat_bind by apply rd_lenbytes_robust. reflexivity. Qed.
Lemma run_bind_varint {A} (f : Z -> dec A) s :
  run_flat (z <- rd_varint ;; f z) s =
  match run_flat rd_varint s with
  | FOk z r => run_flat (f z) r | FErr e => FErr e | FPanic w => FPanic w | FFuel => FFuel end.
Proof. rewrite run_flat_bind by apply rd_varint_robust. reflexivity. Qed.
Lemma run_bind_string {A} (f : list N -> dec A) s :
  run_flat (z <- rd_lenbytes ;; f z) s =
  match run_flat rd_lenbytes s with
  | FOk z r => run_flat (f z) r | FErr e => FErr e | FPanic w => FPanic w | FFuel => FFuel end.
Proof. rewrite run_flat_bind by apply rd_lenbytes_robust. reflexivity. Qed.

Lemma run_eff_sub {S} (d : dec unit) (σ : S) (k : S -> dec unit) s : robust d ->
  run_flat (eff_sub d σ k) s =
  match run_flat d s with
  | FOk _ r => run_flat (k σ) r | FErr e => FErr e | FPanic w => FPanic w | FFuel => FFuel end.
Proof. intros R. unfold eff_sub. rewrite run_flat_bind by exact R. reflexivity. Qed.

Definition dinterp (F : nat) (body : list (cstmt dst (dec unit))) (σ : dst) : dec unit :=
  exec (@Crash unit) (@NoFuel unit) F body σ (fun _ => Ret tt) (fun _ => Ret tt) (fun _ => Ret tt).

Definition outer_eq (a b : dst) : Prop :=
  d_i a = d_i b /\ d_count a = d_count b /\ d_lenvalues a = d_lenvalues b /\ d_err a = d_err b /\ d_key a = d_key b.

Definition again {S R} (s : cstmt S R) : cstmt S R :=
  match s with CFor t _ cond post b => CFor t post cond post b | x => x end.
Definition body_of {S R} (s : cstmt S R) : list (cstmt S R) :=
  match s with CFor _ _ _ _ b => b | _ => [] end.

(* ---------------------------------------------------------------- idleTagsDecoder.ReadFrom *)
Definition idle_ofor : cstmt dst (dec unit) := nth 5 c08_idle_ReadFrom CBreak.
Definition idle_ifor : cstmt dst (dec unit) := nth 7 (body_of idle_ofor) CBreak.

Lemma idle_inner : forall f σ s M K C Kd,
  (List.length s < f)%nat -> (List.length s < M)%nat -> (0 <= d_j σ)%Z -> (d_j σ < d_length σ)%Z -> d_err σ = false ->
  (forall σ' r, (List.length r <= List.length s)%nat -> outer_eq σ σ' -> run_flat (K σ') r = run_flat Kd r) ->
  run_flat (exec (@Crash unit) (@NoFuel unit) f (body_of idle_ifor ++ [again idle_ifor]) σ K K C) s
  = run_flat (_ <- (_ <- rd_varint ;; rep M (fun _ : N => rd_varint) (Z.to_N (d_j σ) + 1) (Z.to_N (d_length σ))) ;; Kd) s.
Proof.
  induction f as [|f IH]; intros σ s M K C Kd Hf HM Hj Hc He HK; [lia|].
  cbn [idle_ifor idle_ofor c08_idle_ReadFrom nth body_of again app] in IH |- *.
  cbn [exec].
  rewrite run_eff_varint.
  rewrite run_flat_bind by (apply robust_bind; [apply rd_varint_robust|intros; apply rep_robust; intros; apply rd_varint_robust]).
  rewrite run_bind_varint.
  pose proof (rd_varint_prog s) as P.
  destruct (run_flat rd_varint s) as [z r| | |]; cbn [prog] in P; try contradiction; [|reflexivity].
  cbn [d_err dset_id dset_j d_j d_length]. rewrite He.
  destruct M as [|M']; [lia|]. cbn [rep].
  destruct (Z.ltb_spec (d_j σ + 1) (d_length σ)) as [L|L].
  - destruct (N.leb_spec (Z.to_N (d_length σ)) (Z.to_N (d_j σ) + 1)) as [L2|L2]; [lia|].
    rewrite IH with (M := M') (Kd := Kd); cbn [d_j d_length dset_j dset_id d_err]; try lia; try assumption.
    + rewrite run_flat_bind by (apply robust_bind; [apply rd_varint_robust|intros; apply rep_robust; intros; apply rd_varint_robust]).
      replace (Z.to_N (d_j σ + 1)) with (Z.to_N (d_j σ) + 1) by lia. reflexivity.
    + intros σ' r' Hr' Ho. apply HK; [lia|]. unfold outer_eq in *. cbn in Ho. exact Ho.
  - destruct (N.leb_spec (Z.to_N (d_length σ)) (Z.to_N (d_j σ) + 1)) as [L2|L2]; [|lia].
    cbn [run_flat]. apply HK; [lia|]. unfold outer_eq. cbn. repeat split.
Qed.

(* the element of the outer loop in the model: tag, count, ids *)
Definition idle_elem (G : nat) : N -> dec unit :=
  fun _ => _ <- rd_lenbytes ;; l <- rd_varint ;; rep G (fun _ : N => rd_varint) 0 (Z.to_N l).
Lemma idle_elem_robust G i : robust (idle_elem G i).
Proof.
  unfold idle_elem. apply robust_bind; [apply rd_lenbytes_robust|]. intros _.
  apply robust_bind; [apply rd_varint_robust|]. intros l. apply rep_robust. intros; apply rd_varint_robust.
Qed.

Lemma idle_outer : forall f σ s M G K C,
  (List.length s < f)%nat -> (List.length s < M)%nat -> (List.length s < G)%nat ->
  (0 <= d_i σ)%Z -> (d_i σ < d_count σ)%Z -> d_err σ = false ->
  (forall σ' r, run_flat (K σ') r = FOk tt r) ->
  run_flat (exec (@Crash unit) (@NoFuel unit) f (body_of idle_ofor ++ [again idle_ofor]) σ K K C) s
  = run_flat (_ <- idle_elem G (Z.to_N (d_i σ)) ;; rep M (idle_elem G) (Z.to_N (d_i σ) + 1) (Z.to_N (d_count σ))) s.
Proof.
  induction f as [|f IH]; intros σ s M G K C Hf HM HG Hi Hc He HK; [lia|].
  pose proof idle_inner as INNER.
  cbn [idle_ifor idle_ofor c08_idle_ReadFrom nth body_of again app] in IH, INNER |- *.
  cbn [exec].
  rewrite run_eff_string.
  unfold idle_elem at 1.
  rewrite run_flat_bind by (apply (idle_elem_robust G 0)).
  rewrite run_bind_string.
  pose proof (rd_lenbytes_prog s) as P1.
  destruct (run_flat rd_lenbytes s) as [tag r1| | |]; cbn [prog] in P1; try contradiction; [|reflexivity].
  cbn [d_err]. rewrite He.
  rewrite run_eff_varint. rewrite run_bind_varint.
  pose proof (rd_varint_prog r1) as P2.
  destruct (run_flat rd_varint r1) as [l r2| | |]; cbn [prog] in P2; try contradiction; [|reflexivity].
  cbn [d_err dset_length dset_id dset_j d_j d_length]. rewrite He.
  match goal with |- run_flat (if ?c then exec _ _ _ _ ?s0 ?k _ _ else _) _ = _ => set (Kin := k) in *; set (σ0 := s0) in * end.
  assert (KIN: forall σ' r, (List.length r + 2 <= List.length s)%nat -> d_i σ' = d_i σ -> d_count σ' = d_count σ ->
               d_err σ' = false ->
               run_flat (Kin σ') r = run_flat (rep M (idle_elem G) (Z.to_N (d_i σ) + 1) (Z.to_N (d_count σ))) r).
  { intros σ' r Hr Ei Ec Ee. unfold Kin. cbn beta. cbn [d_i dset_i d_count]. rewrite Ei, Ec.
    destruct M as [|M']; [lia|]. cbn [rep].
    destruct (Z.ltb_spec (d_i σ + 1) (d_count σ)) as [L|L].
    - destruct (N.leb_spec (Z.to_N (d_count σ)) (Z.to_N (d_i σ) + 1)) as [L2|L2]; [lia|].
      rewrite IH with (M := M') (G := G); cbn [d_i dset_i d_count d_err]; try lia; try assumption.
      try rewrite Ei. try rewrite Ec. replace (Z.to_N (d_i σ + 1)) with (Z.to_N (d_i σ) + 1) by lia. reflexivity.
    - destruct (N.leb_spec (Z.to_N (d_count σ)) (Z.to_N (d_i σ) + 1)) as [L2|L2]; [|lia].
      cbn [run_flat]. apply HK. }
  destruct G as [|G']; [lia|].
  destruct (Z.ltb_spec 0 l) as [L|L].
  - (* the id loop runs *)
    cbn [rep]. destruct (N.leb_spec (Z.to_N l) 0) as [L2|L2]; [lia|].
    rewrite INNER with (M := G') (Kd := rep M (idle_elem (Datatypes.S G')) (Z.to_N (d_i σ) + 1) (Z.to_N (d_count σ)));
      subst σ0; cbn [d_j dset_j d_length dset_length dset_id d_err]; try lia; try assumption.
    + rewrite run_flat_bind by (apply robust_bind; [apply rd_varint_robust|intros; apply rep_robust; intros; apply rd_varint_robust]).
      reflexivity.
    + intros σ' r Hr Ho. unfold outer_eq in Ho. cbn in Ho. destruct Ho as (E1 & E2 & E3 & E4 & E5).
      apply KIN; try lia; congruence.
  - cbn [rep]. destruct (N.leb_spec (Z.to_N l) 0) as [L2|L2]; [|lia]. cbn [run_flat].
    exact (KIN σ0 r2 ltac:(lia) eq_refl eq_refl He).
Qed.

Definition idle_interp (F : nat) : dec unit := dinterp F c08_idle_ReadFrom (dst0 0).

Theorem idle_interp_ok F M s : (List.length s < F)%nat -> (List.length s < M)%nat ->
  run_flat (idle_interp F) s = run_flat (idle_tags M) s.
Proof.
  intros HF HM. destruct F as [|f]; [lia|].
  pose proof idle_outer as OUTER.
  unfold idle_interp, dinterp, idle_tags.
  cbn [idle_ofor c08_idle_ReadFrom nth body_of again app] in OUTER.
  unfold c08_idle_ReadFrom.
  cbn [exec]. rewrite run_eff_varint, run_bind_varint.
  pose proof (rd_varint_prog s) as P.
  destruct (run_flat rd_varint s) as [c r| | |]; cbn [prog] in P; try contradiction; [|reflexivity].
  cbn [d_err dset_count dset_length dset_i d_i d_count dst0]. 
  destruct M as [|M']; [lia|]. cbn [rep].
  destruct (Z.ltb_spec 0 c) as [L|L].
  - destruct (N.leb_spec (Z.to_N c) 0) as [L2|L2]; [lia|].
    rewrite OUTER with (M := M') (G := Datatypes.S M'); cbn [d_i dset_i d_count dset_count d_err dset_length dst0]; try lia; try reflexivity.
  - destruct (N.leb_spec (Z.to_N c) 0) as [L2|L2]; [|lia]. reflexivity.
Qed.

(* ---------------------------------------------------------------- Registry.ReadTagsFrom *)
Definition tags_ofor : cstmt dst (dec unit) := nth 5 c08_Registry_ReadTagsFrom CBreak.
Definition tags_ifor : cstmt dst (dec unit) := nth 9 (body_of tags_ofor) CBreak.
Definition id_elem (nv : Z) : N -> dec unit :=
  fun _ => id <- rd_varint ;; if ((id <? 0) || (nv <=? id))%Z then Fail eBadId else Ret tt.
Lemma id_elem_robust nv i : robust (id_elem nv i).
Proof. unfold id_elem. apply robust_bind; [apply rd_varint_robust|]. intros id. destruct (_ || _)%bool; constructor. Qed.
Lemma err_of_bad_id : err_of "invalid id: " = eBadId. Proof. reflexivity. Qed.
Lemma err_of_neg_len : err_of "negative tag length: " = eNegLen. Proof. reflexivity. Qed.

Lemma tags_inner : forall f σ s M K C Kd,
  (List.length s < f)%nat -> (List.length s < M)%nat -> (0 <= d_j σ)%Z -> (d_j σ < d_length σ)%Z ->
  d_err σ = false ->
  (forall σ' r, (List.length r <= List.length s)%nat -> outer_eq σ σ' -> run_flat (K σ') r = run_flat Kd r) ->
  run_flat (exec (@Crash unit) (@NoFuel unit) f (body_of tags_ifor ++ [again tags_ifor]) σ K K C) s
  = run_flat (_ <- (_ <- id_elem (d_lenvalues σ) 0 ;;
                    rep M (id_elem (d_lenvalues σ)) (Z.to_N (d_j σ) + 1) (Z.to_N (d_length σ))) ;; Kd) s.
Proof.
  induction f as [|f IH]; intros σ s M K C Kd Hf HM Hj Hc He HK; [lia|].
  cbn [tags_ifor tags_ofor c08_Registry_ReadTagsFrom nth body_of again app] in IH |- *.
  cbn [exec].
  rewrite run_eff_varint.
  rewrite run_flat_bind by (apply robust_bind; [apply id_elem_robust|intros; apply rep_robust; intros; apply id_elem_robust]).
  rewrite run_flat_bind by apply id_elem_robust.
  unfold id_elem at 1. rewrite run_bind_varint.
  pose proof (rd_varint_prog s) as P.
  destruct (run_flat rd_varint s) as [z r| | |]; cbn [prog] in P; try contradiction; [|reflexivity].
  cbn [d_err dset_id dset_j d_j d_length d_id d_lenvalues d_made dset_err]. rewrite He.
  destruct ((z <? 0) || (d_lenvalues σ <=? z))%Z eqn:B.
  - cbn [d_err dset_err]. rewrite err_of_bad_id. reflexivity.
  - apply orb_false_iff in B. destruct B as [B1 B2].
    assert (G2: ((0 <=? z) && (z <? d_lenvalues σ))%Z = true) by lia.
    rewrite G2. cbn [guarded run_flat].
    cbn [d_err dset_id dset_j d_j d_length d_id d_lenvalues d_made]. try rewrite He.
    destruct M as [|M']; [lia|]. cbn [rep].
    destruct (Z.ltb_spec (d_j σ + 1) (d_length σ)) as [L|L].
    + destruct (N.leb_spec (Z.to_N (d_length σ)) (Z.to_N (d_j σ) + 1)) as [L2|L2]; [lia|].
      rewrite IH with (M := M') (Kd := Kd); cbn [d_j d_length dset_j dset_id d_err d_made d_lenvalues]; try lia; try assumption.
      * rewrite run_flat_bind by (apply robust_bind; [apply id_elem_robust|intros; apply rep_robust; intros; apply id_elem_robust]).
        replace (Z.to_N (d_j σ + 1)) with (Z.to_N (d_j σ) + 1) by lia. reflexivity.
      * intros σ' r' Hr' Ho. apply HK; [lia|]. unfold outer_eq in *. cbn in Ho. exact Ho.
    + destruct (N.leb_spec (Z.to_N (d_length σ)) (Z.to_N (d_j σ) + 1)) as [L2|L2]; [|lia].
      cbn [run_flat]. apply HK; [lia|]. unfold outer_eq. cbn. repeat split.
Qed.

Definition tags_elem (G : nat) (nv : Z) : N -> dec unit :=
  fun _ => _ <- rd_lenbytes ;; l <- rd_varint ;;
           if (l <? 0)%Z then Fail eNegLen else rep G (id_elem nv) 0 (Z.to_N l).
Lemma tags_elem_robust G nv i : robust (tags_elem G nv i).
Proof.
  unfold tags_elem. apply robust_bind; [apply rd_lenbytes_robust|]. intros _.
  apply robust_bind; [apply rd_varint_robust|]. intros l. destruct (l <? 0)%Z; [constructor|].
  apply rep_robust. intros; apply id_elem_robust.
Qed.

Lemma tags_outer : forall f σ s M G K C,
  (List.length s < f)%nat -> (List.length s < M)%nat -> (List.length s < G)%nat ->
  (0 <= d_i σ)%Z -> (d_i σ < d_count σ)%Z -> d_err σ = false ->
  (forall σ' r, run_flat (K σ') r = FOk tt r) ->
  run_flat (exec (@Crash unit) (@NoFuel unit) f (body_of tags_ofor ++ [again tags_ofor]) σ K K C) s
  = run_flat (_ <- tags_elem G (d_lenvalues σ) (Z.to_N (d_i σ)) ;;
              rep M (tags_elem G (d_lenvalues σ)) (Z.to_N (d_i σ) + 1) (Z.to_N (d_count σ))) s.
Proof.
  induction f as [|f IH]; intros σ s M G K C Hf HM HG Hi Hc He HK; [lia|].
  pose proof tags_inner as INNER.
  cbn [tags_ifor tags_ofor c08_Registry_ReadTagsFrom nth body_of again app] in IH, INNER |- *.
  cbn [exec].
  rewrite run_eff_string.
  unfold tags_elem at 1.
  rewrite run_flat_bind by (apply (tags_elem_robust G (d_lenvalues σ) 0)).
  rewrite run_bind_string.
  pose proof (rd_lenbytes_prog s) as P1.
  destruct (run_flat rd_lenbytes s) as [tag r1| | |]; cbn [prog] in P1; try contradiction; [|reflexivity].
  cbn [d_err]. rewrite He.
  rewrite run_eff_varint. rewrite run_bind_varint.
  pose proof (rd_varint_prog r1) as P2.
  destruct (run_flat rd_varint r1) as [l r2| | |]; cbn [prog] in P2; try contradiction; [|reflexivity].
  cbn [d_err dset_length dset_id dset_j d_j d_length dset_made d_made]. rewrite He.
  destruct (Z.ltb_spec l 0) as [NEG|NN].
  { rewrite err_of_neg_len. reflexivity. }
  destruct (Z.leb_spec 0 (Z.min l 1024)) as [_|]; [|lia]. cbn [guarded].
  cbn [d_err dset_length dset_id dset_j d_j d_length dset_made d_made].
  match goal with |- run_flat (if ?c then exec _ _ _ _ ?s0 ?k _ _ else _) _ = _ => set (Kin := k) in *; set (σ0 := s0) in * end.
  assert (KIN: forall σ' r, (List.length r + 2 <= List.length s)%nat -> d_i σ' = d_i σ -> d_count σ' = d_count σ ->
               d_lenvalues σ' = d_lenvalues σ -> d_err σ' = false ->
               run_flat (Kin σ') r = run_flat (rep M (tags_elem G (d_lenvalues σ)) (Z.to_N (d_i σ) + 1) (Z.to_N (d_count σ))) r).
  { intros σ' r Hr Ei Ec El Ee. unfold Kin. cbn beta. cbn [d_i dset_i d_count]. rewrite Ei, Ec.
    destruct M as [|M']; [lia|]. cbn [rep].
    destruct (Z.ltb_spec (d_i σ + 1) (d_count σ)) as [L|L].
    - destruct (N.leb_spec (Z.to_N (d_count σ)) (Z.to_N (d_i σ) + 1)) as [L2|L2]; [lia|].
      rewrite IH with (M := M') (G := G); cbn [d_i dset_i d_count d_err d_lenvalues]; try lia; try assumption.
      try rewrite Ei. try rewrite Ec. rewrite El. replace (Z.to_N (d_i σ + 1)) with (Z.to_N (d_i σ) + 1) by lia. reflexivity.
    - destruct (N.leb_spec (Z.to_N (d_count σ)) (Z.to_N (d_i σ) + 1)) as [L2|L2]; [|lia].
      cbn [run_flat]. apply HK. }
  destruct G as [|G']; [lia|].
  destruct (Z.ltb_spec 0 l) as [L|L].
  - cbn [rep]. destruct (N.leb_spec (Z.to_N l) 0) as [L2|L2]; [lia|].
    rewrite INNER with (M := G') (Kd := rep M (tags_elem (Datatypes.S G') (d_lenvalues σ)) (Z.to_N (d_i σ) + 1) (Z.to_N (d_count σ)));
      subst σ0; cbn [d_j dset_j d_length dset_length dset_id d_err d_made dset_made d_lenvalues]; try lia; try assumption; try reflexivity.
    + rewrite run_flat_bind by (apply robust_bind; [apply id_elem_robust|intros; apply rep_robust; intros; apply id_elem_robust]).
      reflexivity.
    + intros σ' r Hr Ho. unfold outer_eq in Ho. cbn in Ho. destruct Ho as (E1 & E2 & E3 & E4 & E5).
      apply KIN; try lia; congruence.
  - cbn [rep]. destruct (N.leb_spec (Z.to_N l) 0) as [L2|L2]; [|lia]. cbn [run_flat].
    exact (KIN σ0 r2 ltac:(lia) eq_refl eq_refl eq_refl He).
Qed.

Definition tags_interp (F : nat) (nv : Z) : dec unit := dinterp F c08_Registry_ReadTagsFrom (dst0 nv).

Theorem tags_interp_ok F M nv s : (List.length s < F)%nat -> (List.length s < M)%nat ->
  run_flat (tags_interp F nv) s = run_flat (tags_read M nv) s.
Proof.
  intros HF HM. destruct F as [|f]; [lia|].
  pose proof tags_outer as OUTER.
  unfold tags_interp, dinterp, tags_read.
  cbn [tags_ofor c08_Registry_ReadTagsFrom nth body_of again app] in OUTER.
  unfold c08_Registry_ReadTagsFrom.
  cbn [exec]. rewrite run_eff_varint, run_bind_varint.
  pose proof (rd_varint_prog s) as P.
  destruct (run_flat rd_varint s) as [c r| | |]; cbn [prog] in P; try contradiction; [|reflexivity].
  cbn [d_err dset_count dset_length dset_i d_i d_count dst0].
  destruct M as [|M']; [lia|]. cbn [rep].
  destruct (Z.ltb_spec 0 c) as [L|L].
  - destruct (N.leb_spec (Z.to_N c) 0) as [L2|L2]; [lia|].
    rewrite OUTER with (M := M') (G := Datatypes.S M'); cbn [d_i dset_i d_count dset_count d_err dset_length dst0 d_lenvalues]; try lia; try reflexivity.
  - destruct (N.leb_spec (Z.to_N c) 0) as [L2|L2]; [|lia]. reflexivity.
Qed.

(* ---------------------------------------------------------------- Registry.ReadFrom *)
Lemma rest_le {A} (d : dec A) : forall s a r, run_flat d s = FOk a r -> (List.length r <= List.length s)%nat.
Proof.
  induction d as [a0|e|w| |k IH|n k IH|n k IH]; intros s a r H; cbn [run_flat] in H; try discriminate.
  - inversion H; subst. lia.
  - destruct s as [|b s']; [discriminate|]. apply IH in H. cbn [List.length]. lia.
  - destruct (n <=? lenN s); [|discriminate]. apply IH in H. unfold dropN in H. rewrite skipn_length in H. lia.
  - destruct (n <=? lenN s).
    + apply IH in H. unfold dropN in H. rewrite skipn_length in H. lia.
    + destruct s as [|b s']; [destruct (n =? 0); [|discriminate]|]; apply IH in H; cbn [List.length] in *; lia.
Qed.

Definition reg_for (ne : N -> dec unit) : cstmt dst (dec unit) := nth 6 (c08_Registry_ReadFrom ne) CBreak.
Definition reg_elem (ne : N -> dec unit) : N -> dec unit :=
  fun i => _ <- rd_lenbytes ;; ReadByte (fun b => if b =? 0 then Ret tt else ne i).

Section Reg.
Variable ne : N -> dec unit.
Hypothesis ne_r : forall i, robust (ne i).

Lemma reg_elem_robust i : robust (reg_elem ne i).
Proof.
  unfold reg_elem. apply robust_bind; [apply rd_lenbytes_robust|]. intros _. constructor. intros b.
  destruct (b =? 0); [constructor|apply ne_r].
Qed.

Lemma reg_loop : forall f σ s M K C,
  (List.length s < f)%nat -> (List.length s < M)%nat ->
  (0 <= d_i σ)%Z -> (d_i σ < d_length σ)%Z -> d_err σ = false ->
  (forall σ' r, run_flat (K σ') r = FOk tt r) ->
  run_flat (exec (@Crash unit) (@NoFuel unit) f (body_of (reg_for ne) ++ [again (reg_for ne)]) σ K K C) s
  = run_flat (_ <- reg_elem ne (Z.to_N (d_i σ)) ;; rep M (reg_elem ne) (Z.to_N (d_i σ) + 1) (Z.to_N (d_length σ))) s.
Proof.
  induction f as [|f IH]; intros σ s M K C Hf HM Hi Hc He HK; [lia|].
  assert (KIN: forall CC σ' r, (List.length r < List.length s)%nat -> d_i σ' = d_i σ -> d_length σ' = d_length σ ->
               d_err σ' = false ->
               run_flat (if (d_i σ' + 1 <? d_length σ')%Z
                         then exec (@Crash unit) (@NoFuel unit) f (body_of (reg_for ne) ++ [again (reg_for ne)])
                                   (dset_i σ' (d_i σ' + 1)) K K CC
                         else K (dset_i σ' (d_i σ' + 1))) r
               = run_flat (rep M (reg_elem ne) (Z.to_N (d_i σ) + 1) (Z.to_N (d_length σ))) r).
  { intros CC σ' r Hr Ei El Ee. rewrite Ei, El. destruct M as [|M']; [lia|]. cbn [rep].
    destruct (Z.ltb_spec (d_i σ + 1) (d_length σ)) as [L|L].
    - destruct (N.leb_spec (Z.to_N (d_length σ)) (Z.to_N (d_i σ) + 1)) as [L2|L2]; [lia|].
      rewrite IH with (M := M'); cbn [d_i dset_i d_length d_err]; try lia; try assumption.
      try rewrite Ei. try rewrite El. replace (Z.to_N (d_i σ + 1)) with (Z.to_N (d_i σ) + 1) by lia. reflexivity.
    - destruct (N.leb_spec (Z.to_N (d_length σ)) (Z.to_N (d_i σ) + 1)) as [L2|L2]; [|lia].
      cbn [run_flat]. apply HK. }
  cbn [reg_for c08_Registry_ReadFrom nth body_of again app] in KIN |- *.
  cbn [exec].
  rewrite run_eff_string.
  rewrite run_flat_bind by apply reg_elem_robust.
  unfold reg_elem at 1. rewrite run_bind_string.
  pose proof (rd_lenbytes_prog s) as P1.
  destruct (run_flat rd_lenbytes s) as [key r1| | |]; cbn [prog] in P1; try contradiction; [|reflexivity].
  cbn [d_err]. rewrite He. cbn [eff_bool run_flat].
  destruct r1 as [|b r2]; [reflexivity|]. cbn [List.length] in P1.
  cbn [d_err dset_has d_has]. rewrite He.
  destruct (b =? 0) eqn:B; cbn [negb].
  - cbn [run_flat]. apply (KIN _ (dset_has σ false)); cbn [d_i dset_has d_length d_err]; try lia; try reflexivity. exact He.
  - rewrite run_eff_sub by apply ne_r.
    cbn [d_i dset_has].
    pose proof (rest_le (ne (Z.to_N (d_i σ))) r2) as RL.
    destruct (run_flat (ne (Z.to_N (d_i σ))) r2) as [u r3| | |]; try reflexivity.
    specialize (RL u r3 eq_refl).
    cbn [d_err dset_has]. rewrite He.
    apply (KIN _ (dset_has σ true)); cbn [d_i dset_has d_length d_err]; try lia; try reflexivity. exact He.
Qed.

Definition registry_interp (F : nat) : dec unit := dinterp F (c08_Registry_ReadFrom ne) (dst0 0).

Theorem registry_interp_ok F M s : (List.length s < F)%nat -> (List.length s < M)%nat ->
  run_flat (registry_interp F) s = run_flat (registry_read ne M) s.
Proof.
  intros HF HM. destruct F as [|f]; [lia|].
  pose proof reg_loop as LOOP.
  unfold registry_interp, dinterp, registry_read.
  cbn [reg_for c08_Registry_ReadFrom nth body_of again app] in LOOP.
  unfold c08_Registry_ReadFrom.
  cbn [exec]. rewrite run_eff_varint, run_bind_varint.
  pose proof (rd_varint_prog s) as P.
  destruct (run_flat rd_varint s) as [c r| | |]; cbn [prog] in P; try contradiction; [|reflexivity].
  cbn [d_err dset_length dset_has dset_i d_i d_length dst0].
  destruct M as [|M']; [lia|]. cbn [rep].
  destruct (Z.ltb_spec 0 c) as [L|L].
  - destruct (N.leb_spec (Z.to_N c) 0) as [L2|L2]; [lia|].
    rewrite LOOP with (M := M'); cbn [d_i dset_i d_length dset_length dset_has d_err dst0]; try lia; try reflexivity.
  - destruct (N.leb_spec (Z.to_N c) 0) as [L2|L2]; [|lia]. reflexivity.
Qed.
End Reg.

(* ---------------------------------------------------------------- the update-tags case of joinConfiguration *)
Section UpdateTags.
Variable known : list N -> option Z.
Variable ci : dec unit.
Variable ct : Z -> dec unit.
Hypothesis ci_r : robust ci.
Hypothesis ct_r : forall nv, robust (ct nv).

Definition ut_for : cstmt dst (dec unit) := nth 6 (c08_update_tags known ci ct) CBreak.
Definition ut_elem : N -> dec unit :=
  fun _ => id <- rd_lenbytes ;; match known id with None => ci | Some nv => ct nv end.
Lemma ut_elem_robust i : robust (ut_elem i).
Proof.
  unfold ut_elem. apply robust_bind; [apply rd_lenbytes_robust|]. intros id.
  destruct (known id); [apply ct_r|apply ci_r].
Qed.

Lemma ut_loop : forall f σ s M K,
  (List.length s < f)%nat -> (List.length s < M)%nat ->
  (0 <= d_i σ)%Z -> (d_i σ < d_length σ)%Z -> d_err σ = false ->
  (forall σ' r, run_flat (K σ') r = FOk tt r) ->
  run_flat (exec (@Crash unit) (@NoFuel unit) f (body_of ut_for ++ [again ut_for]) σ K K
                 (fun σ' => exec (@Crash unit) (@NoFuel unit) f [again ut_for] σ' K K K)) s
  = run_flat (_ <- ut_elem (Z.to_N (d_i σ)) ;; rep M ut_elem (Z.to_N (d_i σ) + 1) (Z.to_N (d_length σ))) s.
Proof.
  induction f as [|f IH]; intros σ s M K Hf HM Hi Hc He HK; [lia|].
  assert (KIN: forall σ' r, (List.length r < List.length s)%nat -> d_i σ' = d_i σ -> d_length σ' = d_length σ ->
               d_err σ' = false ->
               run_flat (if (d_i σ' + 1 <? d_length σ')%Z
                         then exec (@Crash unit) (@NoFuel unit) f (body_of ut_for ++ [again ut_for])
                                   (dset_i σ' (d_i σ' + 1)) K K
                                   (fun σ'' => exec (@Crash unit) (@NoFuel unit) f [again ut_for] σ'' K K K)
                         else K (dset_i σ' (d_i σ' + 1))) r
               = run_flat (rep M ut_elem (Z.to_N (d_i σ) + 1) (Z.to_N (d_length σ))) r).
  { intros σ' r Hr Ei El Ee. rewrite Ei, El. destruct M as [|M']; [lia|]. cbn [rep].
    destruct (Z.ltb_spec (d_i σ + 1) (d_length σ)) as [L|L].
    - destruct (N.leb_spec (Z.to_N (d_length σ)) (Z.to_N (d_i σ) + 1)) as [L2|L2]; [lia|].
      rewrite IH with (M := M'); cbn [d_i dset_i d_length d_err]; try lia; try assumption.
      try rewrite Ei. try rewrite El. replace (Z.to_N (d_i σ + 1)) with (Z.to_N (d_i σ) + 1) by lia. reflexivity.
    - destruct (N.leb_spec (Z.to_N (d_length σ)) (Z.to_N (d_i σ) + 1)) as [L2|L2]; [|lia].
      cbn [run_flat]. apply HK. }
  cbn [ut_for c08_update_tags nth body_of again app] in KIN |- *.
  cbn [exec].
  rewrite run_eff_string.
  rewrite run_flat_bind by apply ut_elem_robust.
  unfold ut_elem at 1. rewrite run_bind_string.
  pose proof (rd_lenbytes_prog s) as P1.
  destruct (run_flat rd_lenbytes s) as [key r1| | |]; cbn [prog] in P1; try contradiction; [|reflexivity].
  cbn [d_err dset_key d_key]. rewrite He.
  destruct (known key) as [nv|] eqn:EK; cbn [negb].
  - rewrite run_eff_sub by apply ct_r.
    pose proof (rest_le (ct nv) r1) as RL.
    destruct (run_flat (ct nv) r1) as [u r3| | |]; try reflexivity.
    specialize (RL u r3 eq_refl). cbn [d_err dset_key]. rewrite He.
    apply (KIN (dset_key σ key)); cbn [d_i dset_key d_length d_err]; try lia; try reflexivity. exact He.
  - rewrite run_eff_sub by apply ci_r.
    pose proof (rest_le ci r1) as RL.
    destruct (run_flat ci r1) as [u r3| | |]; try reflexivity.
    specialize (RL u r3 eq_refl). cbn [d_err dset_key]. rewrite He.
    apply (KIN (dset_key σ key)); cbn [d_i dset_key d_length d_err]; try lia; try reflexivity. exact He.
Qed.

Definition update_tags_interp (F : nat) : dec unit := dinterp F (c08_update_tags known ci ct) (dst0 0).

Theorem update_tags_interp_ok F M s : (List.length s < F)%nat -> (List.length s < M)%nat ->
  run_flat (update_tags_interp F) s = run_flat (l <- rd_varint ;; rep M ut_elem 0 (Z.to_N l)) s.
Proof.
  intros HF HM. destruct F as [|f]; [lia|].
  pose proof ut_loop as LOOP.
  unfold update_tags_interp, dinterp.
  cbn [ut_for c08_update_tags nth body_of again app] in LOOP.
  unfold c08_update_tags.
  cbn [exec]. rewrite run_eff_varint, run_bind_varint.
  pose proof (rd_varint_prog s) as P.
  destruct (run_flat rd_varint s) as [c r| | |]; cbn [prog] in P; try contradiction; [|reflexivity].
  cbn [d_err dset_length dset_key dset_i d_i d_length dst0].
  destruct M as [|M']; [lia|]. cbn [rep].
  destruct (Z.ltb_spec 0 c) as [L|L].
  - destruct (N.leb_spec (Z.to_N c) 0) as [L2|L2]; [lia|].
    rewrite LOOP with (M := M'); cbn [d_i dset_i d_length dset_length dset_key d_err dst0]; try lia; try reflexivity.
  - destruct (N.leb_spec (Z.to_N c) 0) as [L2|L2]; [|lia]. reflexivity.
Qed.
End UpdateTags.

(* with the model's own callees: exactly Model.C08.update_tags *)
Theorem update_tags_interp_model F M known s : (List.length s < F)%nat -> (List.length s < M)%nat ->
  run_flat (update_tags_interp known (idle_tags M) (tags_read M) F) s = run_flat (update_tags M known) s.
Proof.
  intros HF HM. apply update_tags_interp_ok; auto; intros; [apply idle_tags_robust|apply tags_read_robust].
Qed.
