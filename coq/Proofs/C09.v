(* C09, reader half: the source interpretation run_src against the flat semantics, for every robust decoder *)
From Coq Require Import List Arith NArith ZArith Lia Bool ZifyN ZifyNat ZifyBool.
From GoMC Require Import Base.Bytes Base.Dec Model.C09.
Import ListNotations.
Open Scope N_scope.

(* run_src with separate EOF is run_chunked, for EVERY decoder (bare Reads included) *)
Lemma src_chunked {A} (d : dec A) : forall s, run_src d false eEOF s = run_chunked d s.
Proof.
  induction d as [a|e|w| |k IH|n k IH|n k IH]; intros s; simpl; auto.
  - destruct (read1 s) as [[b s']|]; auto.
  - destruct (n <=? slen s); auto. destruct (readfull (N.to_nat n) s) as [[bs s']|]; auto.
  - unfold rawread. destruct (n =? 0); auto. destruct (norm s) as [|c t]; auto.
Qed.

(* a robust decoder sees the same thing from any source that holds the same bytes: value, residual and
   outcome class do not depend on the pieces, on whether the terminal error comes with the last piece,
   nor on what the terminal error is *)
Lemma src_flat_sim {A} (d : dec A) :
  robust d -> forall tg term s, fsim (run_src d tg term s) (run_flat d (concat s)).
Proof.
  induction 1 as [a|e|w| |k Hk IH|n k Hk IH]; intros tg term s; simpl; auto.
  - pose proof (read1_spec s) as H1. destruct (read1 s) as [[b s']|].
    + rewrite H1. apply IH.
    + rewrite H1. exact I.
  - unfold slen. destruct (N.leb_spec n (lenN (concat s))) as [Hn|Hn]; [|exact I].
    pose proof (readfull_spec (N.to_nat n) s) as H1.
    destruct (readfull (N.to_nat n) s) as [[bs s']|].
    + destruct H1 as (-> & H2 & Hl). unfold takeN, dropN. rewrite <- H2. apply IH.
    + unfold lenN in Hn. lia.
Qed.

(* with io.EOF as the terminal error the two runs are EQUAL *)
Lemma src_flat_eof {A} (d : dec A) :
  robust d -> forall tg s, run_src d tg eEOF s = run_flat d (concat s).
Proof.
  induction 1 as [a|e|w| |k Hk IH|n k Hk IH]; intros tg s; simpl; auto.
  - pose proof (read1_spec s) as H1. destruct (read1 s) as [[b s']|].
    + rewrite H1. apply IH.
    + now rewrite H1.
  - unfold slen. destruct (N.leb_spec n (lenN (concat s))) as [Hn|Hn]; auto.
    pose proof (readfull_spec (N.to_nat n) s) as H1.
    destruct (readfull (N.to_nat n) s) as [[bs s']|].
    + destruct H1 as (-> & H2 & Hl). unfold takeN, dropN. rewrite <- H2. apply IH.
    + unfold lenN in Hn. lia.
Qed.

Lemma skipn_skipn' {A} a : forall b (l : list A), skipn a (skipn b l) = skipn (b + a) l.
Proof.
  induction b as [|b IH]; intros l; [reflexivity|]. destruct l; simpl; [apply skipn_nil|apply IH].
Qed.

Lemma fsim_ok {A} (r : fres A) a rest : fsim r (FOk a rest) -> r = FOk a rest.
Proof. destruct r; simpl; try tauto. intros [-> ->]. reflexivity. Qed.

(* THE FAILURE CLAUSE.  d completes on s leaving rest (so it needs length s - length rest bytes).  A source
   that delivers only the first k bytes of s - cut into pieces in any way, the error together with the
   last piece or not, EOF or any other error - makes d
     * return the source's error when k is less than what d needs (never a value), and
     * return the SAME value when k covers what d needs (the later failure is not d's business),
       the residual being what was delivered beyond d's need. *)
Lemma src_prefix_cases {A} (d : dec A) :
  robust d -> forall tg term s a rest, run_flat d s = FOk a rest ->
  forall c k, cut_of c k s ->
    ((k + length rest < length s)%nat /\ run_src d tg term c = FErr term) \/
    (exists r', run_src d tg term c = FOk a r' /\ rest = r' ++ skipn k s).
Proof.
  unfold cut_of.
  induction 1 as [a0|e|w| |kk Hk IH|n kk Hk IH]; intros tg term s a rest Hs c k Hc; simpl in Hs; try discriminate.
  - inversion Hs; subst. right. exists (firstn k rest). simpl. rewrite Hc. split; auto.
    symmetry. apply firstn_skipn.
  - destruct s as [|b s']; [discriminate|].
    assert (Hsuf: (length rest <= length s')%nat).
    { destruct (robust_rest_suffix _ (Hk b) _ _ _ Hs) as [c0 ->]. rewrite app_length. lia. }
    simpl. pose proof (read1_spec c) as H1. destruct (read1 c) as [[b' c']|].
    + rewrite Hc in H1. destruct k as [|k']; [discriminate|]. simpl in H1. inversion H1; subst b'.
      destruct (IH b tg term s' a rest Hs c' k' (eq_sym H2)) as [[Hl Hr]|[r' [Hr Hrest]]].
      * left. split; [simpl; lia|exact Hr].
      * right. exists r'. split; [exact Hr|exact Hrest].
    + left. split; auto. rewrite Hc in H1. destruct k; [simpl; lia|discriminate].
  - destruct (N.leb_spec n (lenN s)) as [Hn|Hn]; [|discriminate].
    assert (Hsuf: (length rest + N.to_nat n <= length s)%nat).
    { destruct (robust_rest_suffix _ (Hk _) _ _ _ Hs) as [c0 Hc0].
      assert (L: length (dropN n s) = (length s - N.to_nat n)%nat) by (unfold dropN; apply skipn_length).
      rewrite Hc0, app_length in L. unfold lenN in Hn. lia. }
    simpl. unfold slen. rewrite Hc.
    assert (Lk: length (firstn k s) = Nat.min k (length s)) by apply firstn_length.
    destruct (N.leb_spec n (lenN (firstn k s))) as [Hn2|Hn2].
    + unfold lenN in Hn2.
      pose proof (readfull_spec (N.to_nat n) c) as H1.
      destruct (readfull (N.to_nat n) c) as [[bs c']|].
      * destruct H1 as (Hbs & Hc' & _). rewrite Hc in Hbs, Hc'.
        rewrite firstn_firstn in Hbs. rewrite Nat.min_l in Hbs by lia.
        rewrite skipn_firstn_comm in Hc'.
        change (firstn (N.to_nat n) s) with (takeN n s) in Hbs. subst bs.
        destruct (IH (takeN n s) tg term (dropN n s) a rest Hs c' (k - N.to_nat n)%nat Hc')
          as [[Hl Hr]|[r' [Hr Hrest]]].
        -- left. split; [|exact Hr]. unfold dropN in Hl. rewrite skipn_length in Hl. lia.
        -- right. exists r'. split; [exact Hr|]. rewrite Hrest. f_equal. unfold dropN.
           rewrite skipn_skipn'. f_equal. lia.
      * rewrite Hc in H1. lia.
    + left. split; auto. unfold lenN in Hn2. lia.
Qed.

Corollary src_fails_before_completion {A} (d : dec A) :
  robust d -> forall tg term s a rest, run_flat d s = FOk a rest ->
  forall c k, cut_of c k s -> (k + length rest < length s)%nat -> run_src d tg term c = FErr term.
Proof.
  intros R tg term s a rest Hs c k Hc Hk.
  destruct (src_prefix_cases d R tg term s a rest Hs c k Hc) as [[_ H]|[r' [_ Hrest]]]; auto.
  exfalso. assert (L: length rest = (length r' + length (skipn k s))%nat) by (rewrite Hrest; apply app_length).
  rewrite skipn_length in L. lia.
Qed.

Corollary src_complete_then_fail {A} (d : dec A) :
  robust d -> forall tg term s a rest, run_flat d s = FOk a rest ->
  forall c k, cut_of c k s -> (length s <= k + length rest)%nat ->
  exists r', run_src d tg term c = FOk a r' /\ rest = r' ++ skipn k s.
Proof.
  intros R tg term s a rest Hs c k Hc Hk.
  destruct (src_prefix_cases d R tg term s a rest Hs c k Hc) as [[Hl _]|H]; auto. lia.
Qed.

(* every byte string has the chunkings the correspondence run names: chunks_of preserves the bytes *)
Lemma chop_concat fuel : forall sizes s, concat (chop fuel sizes s) = s.
Proof.
  induction fuel as [|f IH]; intros sizes s; simpl; [apply app_nil_r|].
  destruct s as [|b s']; auto. destruct sizes as [|z zs]; [simpl; now rewrite app_nil_r|].
  cbn [concat]. rewrite IH. unfold takeN, dropN. apply firstn_skipn.
Qed.
Lemma chunks_of_concat sizes s : concat (chunks_of sizes s) = s.
Proof. apply chop_concat. Qed.

(* the bare-Read shape is sensitive to data+EOF; the ReadFull shape is not *)
Lemma readByte_orig_data_eof b : run_src readByte_orig true eEOF [[b]] = FErr eEOF.
Proof. reflexivity. Qed.
Lemma readByte_orig_flat b : run_flat readByte_orig [b] = FOk b [].
Proof. reflexivity. Qed.
Lemma readByte_now_robust : robust readByte_now.
Proof. constructor. intros. constructor. Qed.
