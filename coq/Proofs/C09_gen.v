(* C09, phase 3: the reader clauses over the TRANSLATED readers (Gen/C06gen.v, Gen/C07gen.v through the interpreter
   of Proofs/C07_skel.v, Gen/C16gen.v through Proofs/C16_skel.v, Gen/C03gen.v), and the writer clause over the
   translated writers.  Every statement is about a term regenerated from the Go source on each run; robustness
   (no bare Read effect) is proved on the generated term itself, not carried over from the hand model. *)
From Coq Require Import List Arith NArith ZArith Lia Bool.
From GoMC Require Import Base.Bytes Base.Dec Gen.Consts Model.C09 Proofs.C09 Proofs.C09_writer Proofs.C09_inst.
From GoMC Require Model.C05 Model.C06 Model.C06_syntax Model.C07 Model.C07_syntax Model.C16 Model.C01.
From GoMC Require Gen.C06gen Gen.C07gen Gen.C16gen Gen.C03gen.
From GoMC Require Proofs.C05 Proofs.C01 Proofs.C06_tie_w Proofs.C06_tie_r Proofs.C07_skel Proofs.C16_skel Proofs.C16_skel_sem.
Import ListNotations.
Open Scope N_scope.

Lemma robust_stream_safe {A} (d : dec A) : robust d -> stream_safe d.
Proof. intros R. split; [now apply robust_frag_invariant|now apply robust_fault_safe]. Qed.

(* ---------------------------------------------------------------- net/packet/types.go (Gen/C06gen.v) *)
Section C06.
Import Model.C06_syntax Gen.C06gen.

Ltac rbg :=
  repeat first
    [ progress intros
    | progress cbv zeta
    | apply robust_bind
    | apply R_ReadByte
    | apply R_ReadFull
    | match goal with
      | |- robust (io_ret _ _) => unfold io_ret
      | |- robust (if ?c then _ else _) => destruct c
      | |- robust (let '(_, _) := ?p in _) => destruct p
      | |- robust (match ?x with _ => _ end) => destruct x
      end
    | assumption
    | constructor ].

Lemma g_Boolean : robust packet_Boolean_ReadFrom_io. Proof. unfold packet_Boolean_ReadFrom_io. rbg. Qed.
Lemma g_Byte : robust packet_Byte_ReadFrom_io. Proof. unfold packet_Byte_ReadFrom_io. rbg. Qed.
Lemma g_UnsignedByte : robust packet_UnsignedByte_ReadFrom_io. Proof. unfold packet_UnsignedByte_ReadFrom_io. rbg. Qed.
Lemma g_Short : robust packet_Short_ReadFrom_io. Proof. unfold packet_Short_ReadFrom_io. rbg. Qed.
Lemma g_UnsignedShort : robust packet_UnsignedShort_ReadFrom_io. Proof. unfold packet_UnsignedShort_ReadFrom_io. rbg. Qed.
Lemma g_Int : robust packet_Int_ReadFrom_io. Proof. unfold packet_Int_ReadFrom_io. rbg. Qed.
Lemma g_Long : robust packet_Long_ReadFrom_io. Proof. unfold packet_Long_ReadFrom_io. rbg. Qed.
Lemma g_Float : robust packet_Float_ReadFrom_io.
Proof. unfold packet_Float_ReadFrom_io. cbv zeta. apply robust_bind; [apply g_Int|]. rbg. Qed.
Lemma g_Double : robust packet_Double_ReadFrom_io.
Proof. unfold packet_Double_ReadFrom_io. cbv zeta. apply robust_bind; [apply g_Long|]. rbg. Qed.
Lemma g_Angle : robust packet_Angle_ReadFrom_io.
Proof. unfold packet_Angle_ReadFrom_io. cbv zeta. try (apply robust_bind; [apply g_Byte|]). rbg. Qed.
Lemma g_UUID : robust packet_UUID_ReadFrom_io. Proof. unfold packet_UUID_ReadFrom_io. rbg. Qed.
Lemma g_Position : robust packet_Position_ReadFrom_io.
Proof. unfold packet_Position_ReadFrom_io. cbv zeta. apply robust_bind; [apply g_Long|]. rbg. Qed.
Lemma g_FixedBitSet f : robust (packet_FixedBitSet_ReadFrom_io f).
Proof. unfold packet_FixedBitSet_ReadFrom_io. rbg. Qed.
(* String / ByteArray / BitSet take VarInt.ReadFrom as a parameter (C05's loop is not translated by c06.go) *)
Lemma g_String vi : robust vi -> robust (packet_String_ReadFrom_io vi).
Proof. intros Hv. unfold packet_String_ReadFrom_io. cbv zeta. apply robust_bind; [exact Hv|]. rbg. Qed.
Lemma g_ByteArray vi b sp : robust vi -> robust (packet_ByteArray_ReadFrom_io vi b sp).
Proof. intros Hv. unfold packet_ByteArray_ReadFrom_io. cbv zeta. apply robust_bind; [exact Hv|]. rbg. Qed.
(* the loops of BitSet.ReadFrom, whatever their arguments and growth steps are: every iteration is tests, pure lets
   and ONE Long.ReadFrom *)
Ltac loop_step IH :=
  repeat first
    [ progress cbv zeta
    | match goal with |- robust (if ?c then _ else _) => destruct c end
    | apply robust_bind; [apply g_Long|intros [? ?]]
    | apply IH
    | constructor ].
Lemma g_BitSet_loop1 : forall k L i b sp n, robust (packet_BitSet_ReadFrom_io_loop1 L k i b sp n).
Proof. induction k as [|k IH]; intros; cbn [packet_BitSet_ReadFrom_io_loop1]; [constructor|]. loop_step IH. Qed.
Lemma g_BitSet_loop2 : forall k L i b sp n, robust (packet_BitSet_ReadFrom_io_loop2 L k i b sp n).
Proof. induction k as [|k IH]; intros; cbn [packet_BitSet_ReadFrom_io_loop2]; [constructor|]. loop_step IH. Qed.
Lemma g_BitSet vi b sp : robust vi -> robust (packet_BitSet_ReadFrom_io vi b sp).
Proof.
  intros Hv. unfold packet_BitSet_ReadFrom_io. cbv zeta. apply robust_bind; [exact Hv|]. intros [v n1].
  repeat match goal with |- robust (if ?c then _ else _) => destruct c end;
    try (unfold io_ret; rbg; fail);
    (apply robust_bind; [first [apply g_BitSet_loop1|apply g_BitSet_loop2]|]); rbg.
Qed.
End C06.

(* ---------------------------------------------------------------- net/packet/packet.go UnPack (Gen/C07gen.v) *)
Section C07.
Import Model.C07 Model.C07_syntax Proofs.C07_skel.

Lemma sub_robust {A B} (d : dec A) s (k : A -> list N -> dec B) : (forall a r, robust (k a r)) -> robust (sub d s k).
Proof. intros H. unfold sub. destruct (run_flat d s); auto; constructor. Qed.

Lemma rd_robust {R A} (d : dec A) σ (k : A -> st -> dec R) :
  robust d -> (forall a σ', robust (k a σ')) -> robust (rd (R := R) d σ k).
Proof.
  intros Hd Hk. unfold rd. destruct (s_rdr σ); [apply robust_bind; auto|apply sub_robust; auto].
Qed.

(* the interpreter keeps robustness: whatever skeleton c07.go emits, its interpretation issues ReadFull / ReadByte
   effects only (FReadVarInt = C05's loop, FReadFull, FCopyN) *)
Fixpoint ssize (s : sem_stmt) : nat :=
  let fix go (l : list sem_stmt) : nat := match l with [] => O | x :: r => (ssize x + go r)%nat end in
  match s with
  | FCompress body => S (go body)
  | FIf _ _ th el => S (go th + go el)
  | _ => 1%nat
  end.
Definition lsize (l : list sem_stmt) : nat := fold_right (fun x a => (ssize x + a)%nat) O l.
Lemma ssize_compress body : ssize (FCompress body) = S (lsize body).
Proof. cbn [ssize]. repeat f_equal. Qed.
Lemma ssize_if t c th el : ssize (FIf t c th el) = S (lsize th + lsize el).
Proof.
  cbn [ssize]. repeat f_equal.
Qed.

Lemma seq_robust deflate inflate pool {R} (n : nat)
  (IH : forall s, (ssize s <= n)%nat -> forall ret k : st -> dec R, (forall σ, robust (ret σ)) -> (forall σ, robust (k σ)) ->
        forall σ, robust (exec deflate inflate pool s ret k σ)) :
  forall l, (lsize l <= n)%nat -> forall ret k : st -> dec R, (forall σ, robust (ret σ)) -> (forall σ, robust (k σ)) ->
  forall σ, robust (seq (fun x k' => exec deflate inflate pool x ret k') l k σ).
Proof.
  induction l as [|x l IHl]; intros Hl ret k Hr Hk σ; cbn [seq]; [apply Hk|].
  cbn [lsize fold_right] in Hl. fold (lsize l) in Hl.
  apply IH; [lia|exact Hr|]. intros σ1. apply IHl; [lia|exact Hr|exact Hk].
Qed.

Lemma exec_robust_n deflate inflate pool {R} : forall n (s : sem_stmt), (ssize s <= n)%nat ->
  forall ret k : st -> dec R, (forall σ, robust (ret σ)) -> (forall σ, robust (k σ)) ->
  forall σ, robust (exec deflate inflate pool s ret k σ).
Proof.
  induction n as [|n IHn]; intros s Hs ret k Hret Hk σ.
  { destruct s; cbn [ssize] in Hs; lia. }
  pose proof (seq_robust deflate inflate pool n IHn) as Hseq.
  destruct s; cbn [exec]; destruct (s_pend σ); try (constructor; fail); auto.
  all: try solve [match goal with |- robust (if ?c then _ else _) => destruct c end; auto; constructor].
  all: try solve [apply rd_robust; [first [apply Proofs.C05.read32_robust | constructor; intros; constructor] | intros; apply Hk]].
  all: try solve [destruct (s_rdr σ); [constructor; intros; apply Hk|constructor]].
  all: try solve [destruct (s_rdr σ); [constructor|]; match goal with |- robust (match ?o with _ => _ end) => destruct o end; [apply Hk|constructor]].
  - rewrite ssize_compress in Hs. apply Hseq; [lia|exact Hk|intros; constructor].
  - rewrite ssize_if in Hs. match goal with |- robust (if ?c then _ else _) => destruct c end; apply Hseq; auto; lia.
Qed.
Lemma exec_robust deflate inflate pool {R} (s : sem_stmt) (ret k : st -> dec R) :
  (forall σ, robust (ret σ)) -> (forall σ, robust (k σ)) -> forall σ, robust (exec deflate inflate pool s ret k σ).
Proof. apply (exec_robust_n deflate inflate pool (ssize s)). lia. Qed.

Lemma run_body_robust deflate inflate pool {R} body (fin : st -> dec R) σ :
  (forall σ, robust (fin σ)) -> robust (run_body deflate inflate pool body fin σ).
Proof.
  intros Hf. unfold run_body.
  apply (seq_robust deflate inflate pool (lsize body) (fun s _ => exec_robust deflate inflate pool s)); auto.
  intros; constructor.
Qed.
Lemma run_top_robust deflate inflate pool {R} top fs (fin : st -> dec R) σ :
  (forall σ, robust (fin σ)) -> robust (run_top deflate inflate pool top fs fin σ).
Proof.
  intros Hf. unfold run_top.
  destruct top as [|s0 [|s1 l]]; try constructor.
  destruct s0; try constructor.
  destruct th as [|t0 [|t1 tl]]; try constructor. destruct t0; try constructor.
  destruct el as [|e0 [|e1 el']]; try constructor. destruct e0; try constructor.
  1: match goal with |- robust (if ?c then _ else _) => destruct c end; apply run_body_robust; exact Hf.
  all: repeat match goal with |- robust (match ?x with _ => _ end) => destruct x end; constructor.
Qed.
(* UnPack: the interpretation of the skeleton c07.go emits for Pack.UnPack / unpackWithCompression /
   unpackWithoutCompression, whatever that skeleton is *)
Lemma interp_unpack_robust inflate thr pool old : robust (interp_unpack inflate thr pool old).
Proof. unfold interp_unpack. apply run_top_robust. intros; constructor. Qed.
End C07.

(* ---------------------------------------------------------------- net/rcon.go ReadPacket (Gen/C16gen.v) *)
Lemma g_rcon : robust Proofs.C16_skel.sem_ReadPacket.
Proof. exact Proofs.C16_skel_sem.sem_ReadPacket_robust. Qed.

(* ---------------------------------------------------------------- nbt/decode.go, nbt/dynbt/decode.go (Gen/C03gen.v) *)
Section C03.
Import Model.C01 Gen.C03gen Proofs.C01.

Lemma g_readInt8 : robust gen_readInt8. Proof. unfold gen_readInt8. rb. Qed.
Lemma g_readString : robust gen_readString. Proof. unfold gen_readString. rb. Qed.
Lemma g_readTag : robust gen_readTag.
Proof. unfold gen_readTag. pose proof g_readString. rb. Qed.
Lemma g_dyn_readString : robust gen_dyn_readString. Proof. unfold gen_dyn_readString. rb. Qed.
Lemma g_dyn_readTag : robust gen_dyn_readTag.
Proof. unfold gen_dyn_readTag. pose proof g_dyn_readString. rb. Qed.
Hint Resolve g_readInt8 g_readString g_readTag g_dyn_readString g_dyn_readTag : rb.

Lemma g_rawRead : forall fuel dep id, robust (gen_rawRead fuel dep id).
Proof.
  induction fuel as [|f IH]; intros dep id; cbn [gen_rawRead]; [constructor|].
  repeat match goal with |- robust (if ?c then _ else _) => destruct c end; rb.
Qed.
Lemma g_any : forall fuel dep id, robust (gen_any fuel dep id).
Proof.
  induction fuel as [|f IH]; intros dep id; cbn [gen_any]; [constructor|].
  repeat match goal with |- robust (if ?c then _ else _) => destruct c end; rb.
Qed.
Hint Resolve g_any : rb.
Lemma g_ty : forall fuel dep t id, robust (gen_ty fuel dep t id).
Proof.
  induction fuel as [|f IH]; intros dep t id; cbn [gen_ty]; [constructor|].
  destruct t; rb.
Qed.
Lemma g_dyn : forall fuel dep id, robust (gen_dyn fuel dep id).
Proof.
  induction fuel as [|f IH]; intros dep id; cbn [gen_dyn]; [constructor|].
  repeat match goal with |- robust (if ?c then _ else _) => destruct c end; rb.
Qed.
End C03.

(* ---------------------------------------------------------------- writers *)
Section Writers.
Import Model.C05 Model.C06 Gen.C06gen Proofs.C06_tie_w.

(* the bytes a translated T.WriteTo hands to w.Write (third component), as bytes *)
Definition out_of (r : Z * N * list Z) : list N := map Z.to_N (snd r).
Lemma out_of_wimg r : out_of (wimg r) = fst r.
Proof. unfold out_of, wimg. cbn [snd]. apply Proofs.C06_tie_r.map_to_N_of_N. Qed.

Lemma gw_Boolean b : writer_safe (fld_calls TBool (VB b)) (out_of (packet_Boolean_WriteTo_io b)).
Proof. rewrite tie_Boolean_write, out_of_wimg. exact (ws_field TBool (VB b)). Qed.
Lemma gw_Byte z : writer_safe (fld_calls TByte (VZ z)) (out_of (packet_Byte_WriteTo_io z)).
Proof. rewrite tie_Byte_write, out_of_wimg. exact (ws_field TByte (VZ z)). Qed.
Lemma gw_UnsignedByte z : writer_safe (fld_calls TUByte (VZ z)) (out_of (packet_UnsignedByte_WriteTo_io z)).
Proof. rewrite tie_UnsignedByte_write, out_of_wimg. exact (ws_field TUByte (VZ z)). Qed.
Lemma gw_Angle z : writer_safe (fld_calls TAngle (VZ z)) (out_of (packet_Angle_WriteTo_io z)).
Proof. rewrite tie_Angle_write, out_of_wimg. exact (ws_field TAngle (VZ z)). Qed.
Lemma gw_Short z : writer_safe (fld_calls TShort (VZ z)) (out_of (packet_Short_WriteTo_io z)).
Proof. rewrite tie_Short_write, out_of_wimg. exact (ws_field TShort (VZ z)). Qed.
Lemma gw_UnsignedShort z : writer_safe (fld_calls TUShort (VZ z)) (out_of (packet_UnsignedShort_WriteTo_io z)).
Proof. rewrite tie_UnsignedShort_write, out_of_wimg. exact (ws_field TUShort (VZ z)). Qed.
Lemma gw_Int z : writer_safe (fld_calls TInt (VZ z)) (out_of (packet_Int_WriteTo_io z)).
Proof. rewrite tie_Int_write, out_of_wimg. exact (ws_field TInt (VZ z)). Qed.
Lemma gw_Long z : writer_safe (fld_calls TLong (VZ z)) (out_of (packet_Long_WriteTo_io z)).
Proof. rewrite tie_Long_write, out_of_wimg. exact (ws_field TLong (VZ z)). Qed.
Lemma gw_Float z : writer_safe (fld_calls TFloat (VZ z)) (out_of (packet_Float_WriteTo_io z)).
Proof. rewrite tie_Float_write, out_of_wimg. exact (ws_field TFloat (VZ z)). Qed.
Lemma gw_Double z : writer_safe (fld_calls TDouble (VZ z)) (out_of (packet_Double_WriteTo_io z)).
Proof. rewrite tie_Double_write, out_of_wimg. exact (ws_field TDouble (VZ z)). Qed.
Lemma gw_VarInt z : writer_safe (fld_calls TVarInt (VZ z)) (out_of (packet_VarInt_WriteTo_io z)).
Proof. rewrite tie_VarInt_write, out_of_wimg. exact (ws_field TVarInt (VZ z)). Qed.
Lemma gw_VarLong z : writer_safe (fld_calls TVarLong (VZ z)) (out_of (packet_VarLong_WriteTo_io z)).
Proof. rewrite tie_VarLong_write, out_of_wimg. exact (ws_field TVarLong (VZ z)). Qed.
Lemma gw_Position x y z : writer_safe (fld_calls TPosition (VPos x y z)) (out_of (packet_Position_WriteTo_io x z y)).
Proof. rewrite tie_Position_write, out_of_wimg. exact (ws_field TPosition (VPos x y z)). Qed.
Lemma gw_String bs sp : lenN bs < 2 ^ 62 ->
  writer_safe (fld_calls TString (VBytes bs sp)) (out_of (packet_String_WriteTo_io (map Z.of_N bs))).
Proof. intros H. rewrite (tie_String_write bs H), out_of_wimg. exact (ws_field TString (VBytes bs sp)). Qed.
Lemma gw_UUID bs sp : lenN bs < 2 ^ 63 ->
  writer_safe (fld_calls TUUID (VBytes bs sp)) (out_of (packet_UUID_WriteTo_io (map Z.of_N bs))).
Proof. intros H. rewrite (tie_UUID_write bs H), out_of_wimg. exact (ws_field TUUID (VBytes bs sp)). Qed.
End Writers.

(* RCON WritePacket: whatever frame the interpretation of the translated body hands to r.Write *)
Lemma gw_rcon id ty pl img : Proofs.C16_skel.sem_WritePacket id ty pl = Some img -> writer_safe (rcon_calls id ty pl) img.
Proof.
  rewrite Proofs.C16_skel_sem.sem_WritePacket_is_model. intros H. inversion H; subst. apply ws_rcon.
Qed.
(* Pack: the frame the interpretation of the translated skeleton hands to w.Write (its pending-error discipline
   makes a dropped Write error a Crash of the interpretation: Proofs/C07_skel.v, pUnchecked) *)
Lemma gw_pack deflate thr pool id data img :
  in_sw 32 id -> (Z.of_N (lenN data) < 2 ^ 62)%Z -> (Z.of_N (lenN (deflate (Model.C05.write32 id ++ data))) < 2 ^ 62)%Z ->
  Proofs.C07_skel.interp_pack deflate thr pool (id, data) = Ret img -> writer_safe (pack_calls deflate thr pool (id, data)) img.
Proof.
  intros H1 H2 H3. rewrite (Proofs.C07_skel.interp_pack_is_model deflate thr pool id data H1 H2 H3).
  intros H. inversion H; subst. apply ws_frame.
Qed.

(* ---------------------------------------------------------------- bundles stated in Props/C09.v *)
Section Bundles.
Import Gen.C06gen Gen.C03gen.
Definition fields_translated (P : forall A, dec A -> Prop) : Prop :=
  P _ packet_Boolean_ReadFrom_io /\ P _ packet_Byte_ReadFrom_io /\ P _ packet_UnsignedByte_ReadFrom_io /\
  P _ packet_Short_ReadFrom_io /\ P _ packet_UnsignedShort_ReadFrom_io /\ P _ packet_Int_ReadFrom_io /\
  P _ packet_Long_ReadFrom_io /\ P _ packet_Float_ReadFrom_io /\ P _ packet_Double_ReadFrom_io /\
  P _ packet_Angle_ReadFrom_io /\ P _ packet_UUID_ReadFrom_io /\ P _ packet_Position_ReadFrom_io /\
  (forall f, P _ (packet_FixedBitSet_ReadFrom_io f)) /\
  (forall vi, robust vi -> P _ (packet_String_ReadFrom_io vi)) /\
  (forall vi b sp, robust vi -> P _ (packet_ByteArray_ReadFrom_io vi b sp)) /\
  (forall vi b sp, robust vi -> P _ (packet_BitSet_ReadFrom_io vi b sp)).
Lemma fields_translated_of (P : forall A, dec A -> Prop) : (forall A d, robust d -> P A d) -> fields_translated P.
Proof.
  intros H. unfold fields_translated.
  repeat split; intros; apply H;
    auto using g_Boolean, g_Byte, g_UnsignedByte, g_Short, g_UnsignedShort, g_Int, g_Long, g_Float, g_Double, g_Angle,
               g_UUID, g_Position, g_FixedBitSet, g_String, g_ByteArray, g_BitSet.
Qed.
Definition nbt_translated (P : forall A, dec A -> Prop) : Prop :=
  P _ gen_readInt8 /\ P _ gen_readString /\ P _ gen_readTag /\ P _ gen_dyn_readString /\ P _ gen_dyn_readTag /\
  (forall fuel dep id, P _ (gen_rawRead fuel dep id)) /\ (forall fuel dep id, P _ (gen_any fuel dep id)) /\
  (forall fuel dep t id, P _ (gen_ty fuel dep t id)) /\ (forall fuel dep id, P _ (gen_dyn fuel dep id)).
Lemma nbt_translated_of (P : forall A, dec A -> Prop) : (forall A d, robust d -> P A d) -> nbt_translated P.
Proof.
  intros H. unfold nbt_translated.
  repeat split; intros; apply H;
    auto using g_readInt8, g_readString, g_readTag, g_dyn_readString, g_dyn_readTag, g_rawRead, g_any, g_ty, g_dyn.
Qed.
End Bundles.

Section WBundle.
Import Model.C06 Gen.C06gen.
Definition field_writers_translated : Prop :=
  (forall b, writer_safe (fld_calls TBool (VB b)) (out_of (packet_Boolean_WriteTo_io b))) /\
  (forall z, writer_safe (fld_calls TByte (VZ z)) (out_of (packet_Byte_WriteTo_io z))) /\
  (forall z, writer_safe (fld_calls TUByte (VZ z)) (out_of (packet_UnsignedByte_WriteTo_io z))) /\
  (forall z, writer_safe (fld_calls TAngle (VZ z)) (out_of (packet_Angle_WriteTo_io z))) /\
  (forall z, writer_safe (fld_calls TShort (VZ z)) (out_of (packet_Short_WriteTo_io z))) /\
  (forall z, writer_safe (fld_calls TUShort (VZ z)) (out_of (packet_UnsignedShort_WriteTo_io z))) /\
  (forall z, writer_safe (fld_calls TInt (VZ z)) (out_of (packet_Int_WriteTo_io z))) /\
  (forall z, writer_safe (fld_calls TLong (VZ z)) (out_of (packet_Long_WriteTo_io z))) /\
  (forall z, writer_safe (fld_calls TFloat (VZ z)) (out_of (packet_Float_WriteTo_io z))) /\
  (forall z, writer_safe (fld_calls TDouble (VZ z)) (out_of (packet_Double_WriteTo_io z))) /\
  (forall z, writer_safe (fld_calls TVarInt (VZ z)) (out_of (packet_VarInt_WriteTo_io z))) /\
  (forall z, writer_safe (fld_calls TVarLong (VZ z)) (out_of (packet_VarLong_WriteTo_io z))) /\
  (forall x y z, writer_safe (fld_calls TPosition (VPos x y z)) (out_of (packet_Position_WriteTo_io x z y))) /\
  (forall bs sp, lenN bs < 2 ^ 62 -> writer_safe (fld_calls TString (VBytes bs sp)) (out_of (packet_String_WriteTo_io (map Z.of_N bs)))) /\
  (forall bs sp, lenN bs < 2 ^ 63 -> writer_safe (fld_calls TUUID (VBytes bs sp)) (out_of (packet_UUID_WriteTo_io (map Z.of_N bs)))).
Lemma field_writers_translated_ok : field_writers_translated.
Proof.
  unfold field_writers_translated.
  repeat match goal with |- _ /\ _ => split end; intros.
  - apply gw_Boolean.
  - apply gw_Byte.
  - apply gw_UnsignedByte.
  - apply gw_Angle.
  - apply gw_Short.
  - apply gw_UnsignedShort.
  - apply gw_Int.
  - apply gw_Long.
  - apply gw_Float.
  - apply gw_Double.
  - apply gw_VarInt.
  - apply gw_VarLong.
  - apply gw_Position.
  - apply gw_String; assumption.
  - apply gw_UUID; assumption.
Qed.
End WBundle.
